import Cgm.Lemmas.GuardSem
import Cgm.E2E.C07b
/-!
# C07, end to end, with the guard semantics: the three paths of `From<Quaternion> for Euler<Rad>`

The traced paths (main; the two gimbal-lock cones) record the comparisons `0.499 * unit < test` and `test < -0.499 * unit`.
With `Tr.Consistent` (`Cgm/Lemmas/GuardSem.lean`): each path is the one the code takes iff its path condition holds, exactly
one of the three is for every quaternion, and for a unit quaternion the conditions are `|2(xz + yw)| ≤ 0.998`,
`xz + yw > 0.499`, `xz + yw < -0.499`.
-/
set_option linter.unusedSectionVars false
namespace Cg.E2E.C07
open Cg Cg.Gen.C07 Cg.Trace.C07 Real

section field
variable {K : Type} [Field K] [LinearOrder K] [Approx K] [Transc K] [FRem K] [Lits K]

/-! ## the comparisons each path records, for every input -/
theorem g_q_to_euler_main (q : Quat K) :
    (t_q_to_euler_main (envL q.toList)).guards =
      [.lt (Lits.sig * eUnit q) (eTest q) false, .lt (eTest q) (-Lits.sig * eUnit q) false] := by
  simp [eTest, eUnit]; tr_auto_nf
theorem g_q_to_euler_pos (q : Quat K) :
    (t_q_to_euler_pos (envL q.toList)).guards = [.lt (Lits.sig * eUnit q) (eTest q) true] := by
  simp [eTest, eUnit]; tr_auto_nf
theorem g_q_to_euler_neg (q : Quat K) :
    (t_q_to_euler_neg (envL q.toList)).guards =
      [.lt (Lits.sig * eUnit q) (eTest q) false, .lt (eTest q) (-Lits.sig * eUnit q) true] := by
  simp [eTest, eUnit]; tr_auto_nf

/-! ## consistency of a path ↔ its path condition -/
theorem q_to_euler_main_consistent (q : Quat K) :
    (t_q_to_euler_main (envL q.toList)).Consistent ↔
      ¬ Lits.sig * eUnit q < eTest q ∧ ¬ eTest q < -Lits.sig * eUnit q := by
  rw [Tr.Consistent, g_q_to_euler_main]; simp
theorem q_to_euler_pos_consistent (q : Quat K) :
    (t_q_to_euler_pos (envL q.toList)).Consistent ↔ Lits.sig * eUnit q < eTest q := by
  rw [Tr.Consistent, g_q_to_euler_pos]; simp
theorem q_to_euler_neg_consistent (q : Quat K) :
    (t_q_to_euler_neg (envL q.toList)).Consistent ↔
      ¬ Lits.sig * eUnit q < eTest q ∧ eTest q < -Lits.sig * eUnit q := by
  rw [Tr.Consistent, g_q_to_euler_neg]; simp

/-- for every quaternion exactly one of the three paths is the one the code takes -/
theorem q_to_euler_exactly_one (q : Quat K) :
    Tr.ExactlyOne [t_q_to_euler_main (envL q.toList), t_q_to_euler_pos (envL q.toList), t_q_to_euler_neg (envL q.toList)] := by
  unfold Tr.ExactlyOne
  simp only [List.pairwise_cons, List.mem_cons, List.not_mem_nil, or_false, forall_eq_or_imp, forall_eq, exists_eq_or_imp,
    exists_eq_left, List.Pairwise.nil, and_true, IsEmpty.forall_iff, implies_true,
    q_to_euler_main_consistent, q_to_euler_pos_consistent, q_to_euler_neg_consistent]
  generalize -Lits.sig * eUnit q = B
  generalize Lits.sig * eUnit q = A
  generalize eTest q = T
  by_cases h1 : A < T <;> by_cases h2 : T < B <;> simp [h1, h2]
end field

section real
variable [Approx ℝ]

theorem eUnit_of_unit (q : Quat ℝ) (hq : q.magnitude2 = 1) : eUnit q = 1 := by
  have : q.s * q.s + (q.v.x * q.v.x + (q.v.y * q.v.y + q.v.z * q.v.z)) = 1 := by simpa using hq
  simp only [eUnit]; linarith

/-- for a unit quaternion: the main path is the one the code takes iff `|2(xz + yw)| ≤ 0.998`, the cone paths iff
`xz + yw > 0.499` resp. `xz + yw < -0.499` -/
theorem q_to_euler_main_consistent_real (q : Quat ℝ) (hq : q.magnitude2 = 1) :
    (t_q_to_euler_main (envL q.toList)).Consistent ↔ |2 * (q.v.x * q.v.z + q.v.y * q.s)| ≤ 0.998 := by
  rw [q_to_euler_main_consistent, main_path_iff q hq]
theorem q_to_euler_pos_consistent_real (q : Quat ℝ) (hq : q.magnitude2 = 1) :
    (t_q_to_euler_pos (envL q.toList)).Consistent ↔ 0.499 < q.v.x * q.v.z + q.v.y * q.s := by
  rw [q_to_euler_pos_consistent, eUnit_of_unit q hq, lits_sig, mul_one]; rfl
theorem q_to_euler_neg_consistent_real (q : Quat ℝ) (hq : q.magnitude2 = 1) :
    (t_q_to_euler_neg (envL q.toList)).Consistent ↔ q.v.x * q.v.z + q.v.y * q.s < -0.499 := by
  rw [q_to_euler_neg_consistent, eUnit_of_unit q hq, lits_sig, mul_one, mul_one]
  simp only [eTest]
  constructor
  · rintro ⟨_, h⟩; exact h
  · intro h; exact ⟨by linarith, h⟩

/-- **quaternion → Euler angles, one statement** (unit `q`, literals instantiated): exactly one of the three paths is the one
the code takes; if it is the main path (`|2(xz+yw)| ≤ 0.998`) the three angles output lie in `(-π, π] × [-π/2, π/2] × (-π, π]`
and rebuild `q`'s rotation matrix exactly; if it is a cone path, `x = 0`, `y = ±π/2` and the rebuilt matrix is within `0.13`
of `q`'s in every element -/
theorem code_to_euler_exact (q : Quat ℝ) (hq : q.magnitude2 = 1) :
    Tr.ExactlyOne [t_q_to_euler_main (envL q.toList), t_q_to_euler_pos (envL q.toList), t_q_to_euler_neg (envL q.toList)] ∧
    ((t_q_to_euler_main (envL q.toList)).Consistent →
      ∃ e : ℝ × ℝ × ℝ, (t_q_to_euler_main (envL q.toList)).res = .ok ∧
        (t_q_to_euler_main (envL q.toList)).out = [e.1, e.2.1, e.2.2] ∧
        (-π < e.1 ∧ e.1 ≤ π) ∧ (-(π / 2) ≤ e.2.1 ∧ e.2.1 ≤ π / 2) ∧ (-π < e.2.2 ∧ e.2.2 ≤ π) ∧
        Real.sin e.2.1 = 2 * (q.v.x * q.v.z + q.v.y * q.s) ∧ M3.ofEuler e.1 e.2.1 e.2.2 = q.toM3) ∧
    ((t_q_to_euler_pos (envL q.toList)).Consistent →
      ∃ e : ℝ × ℝ × ℝ, (t_q_to_euler_pos (envL q.toList)).res = .ok ∧
        (t_q_to_euler_pos (envL q.toList)).out = [e.1, e.2.1, e.2.2] ∧ e.1 = 0 ∧ e.2.1 = π / 2 ∧
        ∀ c r : Fin 3, |(M3.ofEuler e.1 e.2.1 e.2.2).toMatrix r c - q.toM3.toMatrix r c| ≤ 0.13) ∧
    ((t_q_to_euler_neg (envL q.toList)).Consistent →
      ∃ e : ℝ × ℝ × ℝ, (t_q_to_euler_neg (envL q.toList)).res = .ok ∧
        (t_q_to_euler_neg (envL q.toList)).out = [e.1, e.2.1, e.2.2] ∧ e.1 = 0 ∧ e.2.1 = -(π / 2) ∧
        ∀ c r : Fin 3, |(M3.ofEuler e.1 e.2.1 e.2.2).toMatrix r c - q.toM3.toMatrix r c| ≤ 0.13) := by
  refine ⟨q_to_euler_exactly_one q, fun hc => ?_, fun hc => ?_, fun hc => ?_⟩
  · obtain ⟨h1, h2⟩ := (q_to_euler_main_consistent q).1 hc
    obtain ⟨e, he, r1, r2, r3, hs, hm⟩ := code_to_euler_main_real q hq h1 h2
    exact ⟨e, by rw [he]; rfl, by rw [he]; rfl, r1, r2, r3, hs, hm⟩
  · have h1 := (q_to_euler_pos_consistent q).1 hc
    obtain ⟨e, he, g1, g2, g3⟩ := (code_to_euler_gimbal_real q hq).1 h1
    exact ⟨e, by rw [he]; rfl, by rw [he]; rfl, g1, g2, g3⟩
  · obtain ⟨h1, h2⟩ := (q_to_euler_neg_consistent q).1 hc
    obtain ⟨e, he, g1, g2, g3⟩ := (code_to_euler_gimbal_real q hq).2 h1 h2
    exact ⟨e, by rw [he]; rfl, by rw [he]; rfl, g1, g2, g3⟩

/-- not vacuous: `q = (w = 4/5; 0, 3/5, 0)` is a unit quaternion taking the main path -/
example : let q : Quat ℝ := ⟨⟨0, 3 / 5, 0⟩, 4 / 5⟩
    q.magnitude2 = 1 ∧ (t_q_to_euler_main (envL q.toList)).Consistent := by
  intro q
  have hq : q.magnitude2 = 1 := by norm_num [q, Quat.magnitude2]
  refine ⟨hq, (q_to_euler_main_consistent_real q hq).2 ?_⟩
  norm_num [q, abs_le]
/-- ... and `q = (w = 21/29; 0, 20/29, 0)` is a unit quaternion in the positive cone (`yw = 420/841 > 0.499`) -/
example : let q : Quat ℝ := ⟨⟨0, 20 / 29, 0⟩, 21 / 29⟩
    q.magnitude2 = 1 ∧ (t_q_to_euler_pos (envL q.toList)).Consistent := by
  intro q
  have hq : q.magnitude2 = 1 := by norm_num [q, Quat.magnitude2]
  refine ⟨hq, (q_to_euler_pos_consistent_real q hq).2 ?_⟩
  norm_num [q]
end real
end Cg.E2E.C07
