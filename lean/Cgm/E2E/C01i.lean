import Cgm.Trace.C01IdxAll
import Cgm.Props.C16b
/-!
# C01, end to end, the index-taking accessors: `row(r)` and `m[c]` (column), every index

About the kernel tables `kRowN` / `kColN` of `Cgm/Trace/C01IdxAll.lean` (the real `row` / `Index<usize>` traced at each literal index):
* `code_mN_row`: for every in-range `r` the kernel returns the vector of the `r`-th components of the columns, in column order
  (`v[c] = m[c][r]`), which is column `r` of the transpose (the column kernel run on the transposed matrix);
* `code_mN_rows_explicit`: the same written out with fields;
* `code_mN_col`: for every in-range `c` the kernel returns column `c` (`v[r] = m[c][r]`, entry `c` of the list of columns);
* `code_mN_rowcol_oob`: the kernels traced at out-of-range indices panic.
-/
set_option linter.unusedSectionVars false
set_option linter.unusedVariables false
namespace Cg.E2E.C01
open Cg Cg.Trace.C01IdxAll

section model
variable {α : Type}
theorem M2.transpose_col (m : M2 α) (r : Fin 2) : m.transpose.col? r = m.row? r := by fin_cases r <;> rfl
theorem M3.transpose_col (m : M3 α) (r : Fin 3) : m.transpose.col? r = m.row? r := by fin_cases r <;> rfl
theorem M4.transpose_col (m : M4 α) (r : Fin 4) : m.transpose.col? r = m.row? r := by fin_cases r <;> rfl
end model

variable {K : Type} [Field K] [Transc K] [FRem K] [Lits K]

/-! ## `Matrix2` -/
/-- **`row(r)` as computed**, every in-range `r`: the `r`-th components of the columns, in column order; it is column `r` of the
transpose -/
theorem code_m2_row (m : M2 K) (r : Fin 2) :
    ∃ v : V2 K, kRow2 r (envL m.toList) = .okS v.toList ∧ m.row? r = some v ∧
      (∀ c : Fin 2, v.get? c = m.get? c r) ∧
      (∀ c : Fin 2, ∃ col : V2 K, m.col? c = some col ∧ v.get? c = col.get? r) ∧
      kRow2 r (envL m.toList) = kCol2 r (envL m.transpose.toList) := by
  obtain ⟨h1, h2⟩ := kRow2_all m r
  obtain ⟨v, hv⟩ := Option.isSome_iff_exists.mp h2
  have hg : ∀ c : Fin 2, v.get? c = m.get? c r := by
    intro c
    have h := (Cg.C16.M2.row_get m c r).1
    rw [hv] at h; simpa using h
  refine ⟨v, by rw [h1, hv]; rfl, hv, hg, ?_, ?_⟩
  · intro c
    obtain ⟨col, hc⟩ := Option.isSome_iff_exists.mp (kCol2_all m c).2
    exact ⟨col, hc, by rw [hg, M2.get?, hc]; rfl⟩
  · rw [h1, (kCol2_all m.transpose r).1, M2.transpose_col]

/-- the rows written out: row `r` lists `m.x[r], m.y[r], ..` -/
theorem code_m2_rows_explicit (m : M2 K) :
    Gen.C01.t_m2_row_0 (envL m.toList) = .okS [m.x.x, m.y.x] ∧
    Gen.C01.t_m2_row_1 (envL m.toList) = .okS [m.x.y, m.y.y] := by
  refine ⟨?_, ?_⟩
  · rw [(Trace.C01Idx.t_m2_row_0 m).1, (Trace.C01Idx.t_m2_row_0 m).2]; rfl
  · rw [(Trace.C01Idx.t_m2_row_1 m).1, (Trace.C01Idx.t_m2_row_1 m).2]; rfl

/-- **`m[c]` as computed**, every in-range `c`: column `c`, whose `r`-th component is `m[c][r]` -/
theorem code_m2_col (m : M2 K) (c : Fin 2) :
    ∃ v : V2 K, kCol2 c (envL m.toList) = .okS v.toList ∧ m.col? c = some v ∧ m.cols[c.val]? = some v ∧
      (∀ r : Fin 2, v.get? r = m.get? c r) := by
  obtain ⟨h1, h2⟩ := kCol2_all m c
  obtain ⟨v, hv⟩ := Option.isSome_iff_exists.mp h2
  refine ⟨v, by rw [h1, hv]; rfl, hv, by rw [← (Cg.C16.M2.matrix_views m c c).2.2, hv], ?_⟩
  intro r; rw [M2.get?, hv]; rfl

/-- out of range ⇒ panic (the kernels traced at `2` and `7`) -/
theorem code_m2_rowcol_oob (m : M2 K) :
    Gen.C01.t_m2_row_2_oob (envL m.toList) = .panicG [] ∧ Gen.C01.t_m2_row_7_oob (envL m.toList) = .panicG [] ∧
    Gen.C01.t_m2_col_2_oob (envL m.toList) = .panicG [] ∧ Gen.C01.t_m2_col_7_oob (envL m.toList) = .panicG [] ∧
    (∀ r : Fin 2, (kRow2 r (envL m.toList)).res = .ok ∧ (kCol2 r (envL m.toList)).res = .ok) := by
  refine ⟨(Trace.C01Idx.t_m2_row_2_oob m).2.1, (Trace.C01Idx.t_m2_row_7_oob m).2.1, ?_, ?_, ?_⟩
  · rw [(Trace.C01Idx.t_m2_col_2_oob m).1, (Cg.C16.M2.col?_eq_none_iff m 2).2 (by omega)]; rfl
  · rw [(Trace.C01Idx.t_m2_col_7_oob m).1, (Cg.C16.M2.col?_eq_none_iff m 7).2 (by omega)]; rfl
  · intro r
    exact ⟨by rw [(kRow2_all m r).1, Tr.ofPanic_res_ok, Option.isSome_map]; exact (kRow2_all m r).2,
      by rw [(kCol2_all m r).1, Tr.ofPanic_res_ok, Option.isSome_map]; exact (kCol2_all m r).2⟩

/-! ## `Matrix3` -/
/-- **`row(r)` as computed**, every in-range `r`: the `r`-th components of the columns, in column order; it is column `r` of the
transpose -/
theorem code_m3_row (m : M3 K) (r : Fin 3) :
    ∃ v : V3 K, kRow3 r (envL m.toList) = .okS v.toList ∧ m.row? r = some v ∧
      (∀ c : Fin 3, v.get? c = m.get? c r) ∧
      (∀ c : Fin 3, ∃ col : V3 K, m.col? c = some col ∧ v.get? c = col.get? r) ∧
      kRow3 r (envL m.toList) = kCol3 r (envL m.transpose.toList) := by
  obtain ⟨h1, h2⟩ := kRow3_all m r
  obtain ⟨v, hv⟩ := Option.isSome_iff_exists.mp h2
  have hg : ∀ c : Fin 3, v.get? c = m.get? c r := by
    intro c
    have h := (Cg.C16.M3.row_get m c r).1
    rw [hv] at h; simpa using h
  refine ⟨v, by rw [h1, hv]; rfl, hv, hg, ?_, ?_⟩
  · intro c
    obtain ⟨col, hc⟩ := Option.isSome_iff_exists.mp (kCol3_all m c).2
    exact ⟨col, hc, by rw [hg, M3.get?, hc]; rfl⟩
  · rw [h1, (kCol3_all m.transpose r).1, M3.transpose_col]

/-- the rows written out: row `r` lists `m.x[r], m.y[r], ..` -/
theorem code_m3_rows_explicit (m : M3 K) :
    Gen.C01.t_m3_row_0 (envL m.toList) = .okS [m.x.x, m.y.x, m.z.x] ∧
    Gen.C01.t_m3_row_1 (envL m.toList) = .okS [m.x.y, m.y.y, m.z.y] ∧
    Gen.C01.t_m3_row_2 (envL m.toList) = .okS [m.x.z, m.y.z, m.z.z] := by
  refine ⟨?_, ?_, ?_⟩
  · rw [(Trace.C01Idx.t_m3_row_0 m).1, (Trace.C01Idx.t_m3_row_0 m).2]; rfl
  · rw [(Trace.C01Idx.t_m3_row_1 m).1, (Trace.C01Idx.t_m3_row_1 m).2]; rfl
  · rw [(Trace.C01Idx.t_m3_row_2 m).1, (Trace.C01Idx.t_m3_row_2 m).2]; rfl

/-- **`m[c]` as computed**, every in-range `c`: column `c`, whose `r`-th component is `m[c][r]` -/
theorem code_m3_col (m : M3 K) (c : Fin 3) :
    ∃ v : V3 K, kCol3 c (envL m.toList) = .okS v.toList ∧ m.col? c = some v ∧ m.cols[c.val]? = some v ∧
      (∀ r : Fin 3, v.get? r = m.get? c r) := by
  obtain ⟨h1, h2⟩ := kCol3_all m c
  obtain ⟨v, hv⟩ := Option.isSome_iff_exists.mp h2
  refine ⟨v, by rw [h1, hv]; rfl, hv, by rw [← (Cg.C16.M3.matrix_views m c c).2.2, hv], ?_⟩
  intro r; rw [M3.get?, hv]; rfl

/-- out of range ⇒ panic (the kernels traced at `3` and `8`) -/
theorem code_m3_rowcol_oob (m : M3 K) :
    Gen.C01.t_m3_row_3_oob (envL m.toList) = .panicG [] ∧ Gen.C01.t_m3_row_8_oob (envL m.toList) = .panicG [] ∧
    Gen.C01.t_m3_col_3_oob (envL m.toList) = .panicG [] ∧ Gen.C01.t_m3_col_8_oob (envL m.toList) = .panicG [] ∧
    (∀ r : Fin 3, (kRow3 r (envL m.toList)).res = .ok ∧ (kCol3 r (envL m.toList)).res = .ok) := by
  refine ⟨(Trace.C01Idx.t_m3_row_3_oob m).2.1, (Trace.C01Idx.t_m3_row_8_oob m).2.1, ?_, ?_, ?_⟩
  · rw [(Trace.C01Idx.t_m3_col_3_oob m).1, (Cg.C16.M3.col?_eq_none_iff m 3).2 (by omega)]; rfl
  · rw [(Trace.C01Idx.t_m3_col_8_oob m).1, (Cg.C16.M3.col?_eq_none_iff m 8).2 (by omega)]; rfl
  · intro r
    exact ⟨by rw [(kRow3_all m r).1, Tr.ofPanic_res_ok, Option.isSome_map]; exact (kRow3_all m r).2,
      by rw [(kCol3_all m r).1, Tr.ofPanic_res_ok, Option.isSome_map]; exact (kCol3_all m r).2⟩

/-! ## `Matrix4` -/
/-- **`row(r)` as computed**, every in-range `r`: the `r`-th components of the columns, in column order; it is column `r` of the
transpose -/
theorem code_m4_row (m : M4 K) (r : Fin 4) :
    ∃ v : V4 K, kRow4 r (envL m.toList) = .okS v.toList ∧ m.row? r = some v ∧
      (∀ c : Fin 4, v.get? c = m.get? c r) ∧
      (∀ c : Fin 4, ∃ col : V4 K, m.col? c = some col ∧ v.get? c = col.get? r) ∧
      kRow4 r (envL m.toList) = kCol4 r (envL m.transpose.toList) := by
  obtain ⟨h1, h2⟩ := kRow4_all m r
  obtain ⟨v, hv⟩ := Option.isSome_iff_exists.mp h2
  have hg : ∀ c : Fin 4, v.get? c = m.get? c r := by
    intro c
    have h := (Cg.C16.M4.row_get m c r).1
    rw [hv] at h; simpa using h
  refine ⟨v, by rw [h1, hv]; rfl, hv, hg, ?_, ?_⟩
  · intro c
    obtain ⟨col, hc⟩ := Option.isSome_iff_exists.mp (kCol4_all m c).2
    exact ⟨col, hc, by rw [hg, M4.get?, hc]; rfl⟩
  · rw [h1, (kCol4_all m.transpose r).1, M4.transpose_col]

/-- the rows written out: row `r` lists `m.x[r], m.y[r], ..` -/
theorem code_m4_rows_explicit (m : M4 K) :
    Gen.C01.t_m4_row_0 (envL m.toList) = .okS [m.x.x, m.y.x, m.z.x, m.w.x] ∧
    Gen.C01.t_m4_row_1 (envL m.toList) = .okS [m.x.y, m.y.y, m.z.y, m.w.y] ∧
    Gen.C01.t_m4_row_2 (envL m.toList) = .okS [m.x.z, m.y.z, m.z.z, m.w.z] ∧
    Gen.C01.t_m4_row_3 (envL m.toList) = .okS [m.x.w, m.y.w, m.z.w, m.w.w] := by
  refine ⟨?_, ?_, ?_, ?_⟩
  · rw [(Trace.C01Idx.t_m4_row_0 m).1, (Trace.C01Idx.t_m4_row_0 m).2]; rfl
  · rw [(Trace.C01Idx.t_m4_row_1 m).1, (Trace.C01Idx.t_m4_row_1 m).2]; rfl
  · rw [(Trace.C01Idx.t_m4_row_2 m).1, (Trace.C01Idx.t_m4_row_2 m).2]; rfl
  · rw [(Trace.C01Idx.t_m4_row_3 m).1, (Trace.C01Idx.t_m4_row_3 m).2]; rfl

/-- **`m[c]` as computed**, every in-range `c`: column `c`, whose `r`-th component is `m[c][r]` -/
theorem code_m4_col (m : M4 K) (c : Fin 4) :
    ∃ v : V4 K, kCol4 c (envL m.toList) = .okS v.toList ∧ m.col? c = some v ∧ m.cols[c.val]? = some v ∧
      (∀ r : Fin 4, v.get? r = m.get? c r) := by
  obtain ⟨h1, h2⟩ := kCol4_all m c
  obtain ⟨v, hv⟩ := Option.isSome_iff_exists.mp h2
  refine ⟨v, by rw [h1, hv]; rfl, hv, by rw [← (Cg.C16.matrix_views m c c).2.2, hv], ?_⟩
  intro r; rw [M4.get?, hv]; rfl

/-- out of range ⇒ panic (the kernels traced at `4` and `9`) -/
theorem code_m4_rowcol_oob (m : M4 K) :
    Gen.C01.t_m4_row_4_oob (envL m.toList) = .panicG [] ∧ Gen.C01.t_m4_row_9_oob (envL m.toList) = .panicG [] ∧
    Gen.C01.t_m4_col_4_oob (envL m.toList) = .panicG [] ∧ Gen.C01.t_m4_col_9_oob (envL m.toList) = .panicG [] ∧
    (∀ r : Fin 4, (kRow4 r (envL m.toList)).res = .ok ∧ (kCol4 r (envL m.toList)).res = .ok) := by
  refine ⟨(Trace.C01Idx.t_m4_row_4_oob m).2.1, (Trace.C01Idx.t_m4_row_9_oob m).2.1, ?_, ?_, ?_⟩
  · rw [(Trace.C01Idx.t_m4_col_4_oob m).1, (Cg.C16.M4.col?_eq_none_iff m 4).2 (by omega)]; rfl
  · rw [(Trace.C01Idx.t_m4_col_9_oob m).1, (Cg.C16.M4.col?_eq_none_iff m 9).2 (by omega)]; rfl
  · intro r
    exact ⟨by rw [(kRow4_all m r).1, Tr.ofPanic_res_ok, Option.isSome_map]; exact (kRow4_all m r).2,
      by rw [(kCol4_all m r).1, Tr.ofPanic_res_ok, Option.isSome_map]; exact (kCol4_all m r).2⟩

end Cg.E2E.C01
