import Cgm.Trace.C01Rest
import Cgm.Props.C16c
/-!
# C01, end to end, remaining kernels: `Matrix2::new`, `Matrix3::new`, `Matrix4::new`

The kernels traced from the real `MatrixN::new(c0r0, c0r1, .., c1r0, ..)` return the arguments in the order given: the arguments
are listed column by column, so the flat (column-major) array of the result is the argument list, column `c` is the `c`-th group
of `n` arguments, and element `(c, r)` is argument `n*c + r` (`Cgm/Trace/C01Rest.lean` composed with the flat-array theorems of
`Cgm/Props/C16c.lean`).
-/
set_option linter.unusedSectionVars false
namespace Cg.E2E.C01
open Cg Cg.Gen.C01
variable {K : Type} [Field K] [Transc K] [FRem K] [Lits K]

/-- **`Matrix2::new` as computed** lists the columns: `new(a, b, c, d)` has columns `(a, b)`, `(c, d)` -/
theorem code_m2_new (a b c d : K) :
    t_m2_new (envL [a, b, c, d]) = .okS [a, b, c, d] ∧
    ∃ m : M2 K, t_m2_new (envL [a, b, c, d]) = .okS m.toList ∧ m = M2.new a b c d ∧ m.cols = [⟨a, b⟩, ⟨c, d⟩] ∧
      M2.ofFlat? [a, b, c, d] = some m ∧ ∀ cc r : Fin 2, m.get? cc r = [a, b, c, d][2 * cc.val + r.val]? := by
  have h := Trace.C01Rest.t_m2_new a b c d
  have hf : M2.ofFlat? [a, b, c, d] = some (M2.new a b c d) := rfl
  have hl := (Cg.C16.M2.ofFlat?_spec [a, b, c, d]).1 rfl
  rw [hf, Option.map_some, Option.some.injEq] at hl
  exact ⟨by rw [h, hl], M2.new a b c d, h, rfl, rfl, hf, fun cc r => Cg.C16.M2.ofFlat?_get _ _ hf cc r⟩

/-- **`Matrix3::new` as computed** lists the columns -/
theorem code_m3_new (a0 a1 a2 a3 a4 a5 a6 a7 a8 : K) :
    t_m3_new (envL [a0, a1, a2, a3, a4, a5, a6, a7, a8]) = .okS [a0, a1, a2, a3, a4, a5, a6, a7, a8] ∧
    ∃ m : M3 K, t_m3_new (envL [a0, a1, a2, a3, a4, a5, a6, a7, a8]) = .okS m.toList ∧ m = M3.new a0 a1 a2 a3 a4 a5 a6 a7 a8 ∧
      m.cols = [⟨a0, a1, a2⟩, ⟨a3, a4, a5⟩, ⟨a6, a7, a8⟩] ∧
      M3.ofFlat? [a0, a1, a2, a3, a4, a5, a6, a7, a8] = some m ∧
      ∀ cc r : Fin 3, m.get? cc r = [a0, a1, a2, a3, a4, a5, a6, a7, a8][3 * cc.val + r.val]? := by
  have h := Trace.C01Rest.t_m3_new a0 a1 a2 a3 a4 a5 a6 a7 a8
  obtain ⟨hl, hf⟩ := Cg.C16.M3.ofFlat?_toList a0 a1 a2 a3 a4 a5 a6 a7 a8
  rw [hf, Option.map_some, Option.some.injEq] at hl
  refine ⟨by rw [h, hl], M3.new a0 a1 a2 a3 a4 a5 a6 a7 a8, h, rfl, rfl, hf, fun cc r => ?_⟩
  have hg := Cg.C16.M3.ofFlat?_get a0 a1 a2 a3 a4 a5 a6 a7 a8 cc r
  rw [hf, Option.bind_some] at hg; exact hg

/-- **`Matrix4::new` as computed** lists the columns -/
theorem code_m4_new (a0 a1 a2 a3 a4 a5 a6 a7 a8 a9 a10 a11 a12 a13 a14 a15 : K) :
    t_m4_new (envL [a0, a1, a2, a3, a4, a5, a6, a7, a8, a9, a10, a11, a12, a13, a14, a15]) =
      .okS [a0, a1, a2, a3, a4, a5, a6, a7, a8, a9, a10, a11, a12, a13, a14, a15] ∧
    ∃ m : M4 K, t_m4_new (envL [a0, a1, a2, a3, a4, a5, a6, a7, a8, a9, a10, a11, a12, a13, a14, a15]) = .okS m.toList ∧
      m = M4.new a0 a1 a2 a3 a4 a5 a6 a7 a8 a9 a10 a11 a12 a13 a14 a15 ∧
      m.cols = [⟨a0, a1, a2, a3⟩, ⟨a4, a5, a6, a7⟩, ⟨a8, a9, a10, a11⟩, ⟨a12, a13, a14, a15⟩] ∧
      M4.ofFlat? [a0, a1, a2, a3, a4, a5, a6, a7, a8, a9, a10, a11, a12, a13, a14, a15] = some m ∧
      ∀ cc r : Fin 4, m.get? cc r =
        [a0, a1, a2, a3, a4, a5, a6, a7, a8, a9, a10, a11, a12, a13, a14, a15][4 * cc.val + r.val]? := by
  have h := Trace.C01Rest.t_m4_new a0 a1 a2 a3 a4 a5 a6 a7 a8 a9 a10 a11 a12 a13 a14 a15
  obtain ⟨hl, hf⟩ := Cg.C16.M4.ofFlat?_toList a0 a1 a2 a3 a4 a5 a6 a7 a8 a9 a10 a11 a12 a13 a14 a15
  rw [hf, Option.map_some, Option.some.injEq] at hl
  refine ⟨by rw [h, hl], M4.new a0 a1 a2 a3 a4 a5 a6 a7 a8 a9 a10 a11 a12 a13 a14 a15, h, rfl, rfl, hf, fun cc r => ?_⟩
  have hg := Cg.C16.M4.ofFlat?_get a0 a1 a2 a3 a4 a5 a6 a7 a8 a9 a10 a11 a12 a13 a14 a15 cc r
  rw [hf, Option.bind_some] at hg; exact hg
end Cg.E2E.C01
