import Cgm.Trace.C07
import Cgm.Props.C07
/-!
# C07, end to end: Euler angles as the code computes them, over the reals (see `Cgm/E2E/C02.lean`)
-/
set_option linter.unusedSectionVars false
namespace Cg.E2E.C07
open Cg Cg.Gen.C07 Real
variable [FRem ℝ] [Lits ℝ]

/-- the Matrix3, Matrix4 and Quaternion the code builds from `Euler{x,y,z}` are `from_angle_x(x) * from_angle_y(y) *
from_angle_z(z)` (and the quaternion has that same matrix) -/
theorem code_from_euler (x y z : ℝ) :
    t_m3_from_euler (envL [x, y, z]) = .okS (M3.fromAngleX x * M3.fromAngleY y * M3.fromAngleZ z).toList ∧
    t_m4_from_euler (envL [x, y, z]) = .okS (M4.fromAngleX x * M4.fromAngleY y * M4.fromAngleZ z).toList ∧
    (∃ q : Quat ℝ, t_q_from_euler (envL [x, y, z]) = .okS q.toList ∧
      q = Quat.fromAngleX x * Quat.fromAngleY y * Quat.fromAngleZ z ∧
      q.toM3 = M3.fromAngleX x * M3.fromAngleY y * M3.fromAngleZ z) := by
  have h := C07.ofEuler_eq_product x y z
  refine ⟨by rw [Trace.C07.t_m3_from_euler, h.1], by rw [Trace.C07.t_m4_from_euler, h.2.1], ?_⟩
  exact ⟨Quat.ofEuler x y z, Trace.C07.t_q_from_euler x y z, C07.quat_ofEuler_eq_product x y z,
    by rw [C07.quat_ofEuler_toM3, h.1]⟩

/-- outside the gimbal-lock cones (the path on which both of the code's comparisons are false) the extracted angles lie in
the documented ranges and rebuild `q`'s rotation exactly -/
theorem code_to_euler_main (q : Quat ℝ) (hq : q.magnitude2 = 1)
    (h1 : ¬ Lits.sig * Trace.C07.eUnit q < Trace.C07.eTest q) (h2 : ¬ Trace.C07.eTest q < -Lits.sig * Trace.C07.eUnit q)
    (ht : |2 * (q.v.x * q.v.z + q.v.y * q.s)| < 1) :
    ∃ e : ℝ × ℝ × ℝ, t_q_to_euler_main (envL q.toList) =
        .okG [e.1, e.2.1, e.2.2] [.lt (Lits.sig * Trace.C07.eUnit q) (Trace.C07.eTest q) false,
                                   .lt (Trace.C07.eTest q) (-Lits.sig * Trace.C07.eUnit q) false] ∧
      (-π < e.1 ∧ e.1 ≤ π) ∧ (-(π / 2) ≤ e.2.1 ∧ e.2.1 ≤ π / 2) ∧ (-π < e.2.2 ∧ e.2.2 ≤ π) ∧
      M3.ofEuler e.1 e.2.1 e.2.2 = q.toM3 := by
  have hb : q.toEulerBranch = .main := by
    simp only [Trace.C07.eTest, Trace.C07.eUnit] at h1 h2
    unfold Quat.toEulerBranch
    simp only [if_neg h1, if_neg h2]
  have he := C07.toEuler_main q hb
  have hs := C07.euler_main_spec q hq ht
  refine ⟨q.toEuler, Trace.C07.t_q_to_euler_main q h1 h2, ?_⟩
  rw [he]
  exact hs

/-- inside the cones (`test > 0.499 unit` resp. `< -0.499 unit`) `x` is reported as 0, `y` as a quarter turn with the sign
of the cone, and the rebuilt rotation matches `q`'s to within 0.13 in every matrix element -/
theorem code_to_euler_gimbal (hπ : (Lits.radFull : ℝ) = 2 * π) (hsig : (Lits.sig : ℝ) = 0.499)
    (q : Quat ℝ) (hq : q.magnitude2 = 1) (h1 : Lits.sig * Trace.C07.eUnit q < Trace.C07.eTest q) :
    ∃ e : ℝ × ℝ × ℝ, t_q_to_euler_pos (envL q.toList) =
        .okG [e.1, e.2.1, e.2.2] [.lt (Lits.sig * Trace.C07.eUnit q) (Trace.C07.eTest q) true] ∧
      e.1 = 0 ∧ e.2.1 = (Lits.radFull : ℝ) / 4 ∧
      ∀ c r : Fin 3, |(M3.ofEuler e.1 e.2.1 e.2.2).toMatrix r c - q.toM3.toMatrix r c| ≤ 0.13 := by
  have hb : q.toEulerBranch = .pos := by
    simp only [Trace.C07.eTest, Trace.C07.eUnit] at h1
    unfold Quat.toEulerBranch
    simp only [if_pos h1]
  have hg := (C07.toEuler_gimbal q).1 hb
  exact ⟨q.toEuler, Trace.C07.t_q_to_euler_pos q h1, hg.1, hg.2, C07.gimbal_bound hπ hsig q hq (by rw [hb]; decide)⟩
end Cg.E2E.C07
