import Cgm.Trace.C05
import Cgm.Trace.C05Auto
import Cgm.Props.C05
/-!
# C05, end to end: the conversions between quaternion, Basis3, Matrix3 and Matrix4 stated about the definitions
regenerated from the source (see `Cgm/E2E/C02.lean` for how these are obtained)
-/
set_option linter.unusedSectionVars false
namespace Cg.E2E.C05
open Cg Cg.Gen.C05
section field
variable {K : Type} [Field K] [LinearOrder K] [Transc K] [FRem K] [Lits K]

/-- the Matrix3 the code converts `q` to rotates every vector exactly as `q` does; for unit `q` it is orthonormal with
determinant +1, and conversion respects composition -/
theorem code_to_m3 (p q : Quat K) :
    ∃ f : Quat K → M3 K, (∀ a, t_q_to_m3 (envL a.toList) = .okS (f a).toList) ∧ (∀ v : V3 K, f q * v = q * v) ∧
      (q.magnitude2 = 1 → (f q).transpose * f q = M3.one ∧ f q * (f q).transpose = M3.one ∧ (f q).det = 1) ∧
      (p.magnitude2 = 1 → q.magnitude2 = 1 → f (p * q) = f p * f q) :=
  ⟨Quat.toM3, fun a => Trace.C05.t_q_to_m3 a, fun v => C05.toM3_mulVec q v, fun hq => C05.toM3_orthonormal q hq,
    fun hp hq => C05.toM3_mul p q hp hq⟩

/-- the Matrix4 the code converts `q` to acts on directions as `q` does, is the embedding of the Matrix3, and respects
composition -/
theorem code_to_m4 (p q : Quat K) :
    ∃ f : Quat K → M4 K, (∀ a, t_q_to_m4 (envL a.toList) = .okS (f a).toList) ∧ (∀ v : V3 K, (f q).transformVector v = q * v) ∧
      f q = q.toM3.toM4 ∧ (p.magnitude2 = 1 → q.magnitude2 = 1 → f (p * q) = f p * f q) :=
  ⟨Quat.toM4, fun a => Trace.C05.t_q_to_m4 a, fun v => C05.toM4_direction q v, C05.toM4_eq_embed q, fun hp hq => C05.toM4_mul p q hp hq⟩

/-- `Basis3 * Basis3` as computed is the matrix product in this order, so `Basis3::from` respects composition -/
theorem code_basis3_mul (p q : Quat K) (hp : p.magnitude2 = 1) (hq : q.magnitude2 = 1) :
    t_b3_mul (envL (p.toList ++ q.toList)) = .okS (Basis3.fromQuaternion (p * q)).mat.toList := by
  rw [Trace.C05.t_b3_mul, C05.basis3_mul p q hp hq]
end field

section real
variable [FRem ℝ] [Lits ℝ]
/-- converting the matrix of a unit quaternion back returns `q` or `-q`, on each of the four paths listed (non-negative
trace; negative trace with the first, second or third diagonal element largest).  These are four of the code's five paths: the
fifth (`zz2`) is in `code_round_trip_all_paths`, `E2E/C05c.lean` -/
theorem code_round_trip (q : Quat ℝ) (hq : q.magnitude2 = 1) :
    ∃ r : Quat ℝ, (r = q ∨ r = -q) ∧
      (let m := q.toM3
       (0 ≤ m.trace → t_m3_to_quat_trace (envL m.toList) = .okG r.toList [.le 0 m.trace true]) ∧
       (¬ 0 ≤ m.trace → m.y.y < m.x.x → m.z.z < m.x.x → t_m3_to_quat_xx (envL m.toList) =
          .okG r.toList [.le 0 m.trace false, .lt m.y.y m.x.x true, .lt m.z.z m.x.x true]) ∧
       (¬ 0 ≤ m.trace → ¬ m.y.y < m.x.x → m.z.z < m.y.y → t_m3_to_quat_yy (envL m.toList) =
          .okG r.toList [.le 0 m.trace false, .lt m.y.y m.x.x false, .lt m.z.z m.y.y true]) ∧
       (¬ 0 ≤ m.trace → ¬ m.y.y < m.x.x → ¬ m.z.z < m.y.y → t_m3_to_quat_zz (envL m.toList) =
          .okG r.toList [.le 0 m.trace false, .lt m.y.y m.x.x false, .lt m.z.z m.y.y false])) :=
  ⟨q.toM3.toQuat, C05.toQuat_toM3 q hq, fun h => Trace.C05.t_m3_to_quat_trace _ h, fun h h1 h2 => Trace.C05.t_m3_to_quat_xx _ h h1 h2,
    fun h h1 h2 => Trace.C05.t_m3_to_quat_yy _ h h1 h2, fun h h1 h2 => Trace.C05.t_m3_to_quat_zz _ h h1 h2⟩
end real
end Cg.E2E.C05
