import Cgm.E2E.C13b
import Cgm.Trace.C13Paths
import Cgm.Trace.C13Auto
import Cgm.Trace.C06Auto
import Cgm.Lemmas.Atan2
/-!
# C13 (continued), end to end over the reals: every traced path of `bisect`, `normalize_signed`, `opposite`, `normalize`;
the operators, `Sum`, `sin_cos`, `csc`/`sec`/`cot`, every traced `turn_div_k`, the inverse functions in both units

`%` is the truncating remainder and the literals are the exact constants (`Cgm/Lemmas/RealInst2.lean`): no hypothesis on `%`
remains.  For every function the first theorem gives ONE result `r` such that each traced kernel outputs `[r]` (with the
comparisons it made) under its path condition, and states the property clause about `r`; the `*_cover` theorem says which
inputs take one of the traced paths: all of them, or all but an explicitly described remainder, whose classes are shown to be
inhabited (so the remainder cannot be dropped) and disjoint from the traced paths.
-/
set_option linter.unusedSectionVars false
set_option linter.unusedSimpArgs false
namespace Cg.E2E.C13
open Cg Cg.Gen.C13

/-! ## `Deg::bisect`: the seven traced paths -/

/-- `Deg::bisect(a, b)` as computed on each of its seven traced paths (first comparison `(b-a) % 360 ? 0`, second
`180 ? lifted remainder`, third `(a + half the signed difference) % 360 ? 0`): one angle `r`, at equal signed distance from `a`
and to `b`, at most 90° from each, in `[0, 360)` -/
theorem code_deg_bisect_paths_real (a b : ℝ) :
    ∃ r : ℝ,
      -- near: (gt, gt, gt)
      (0 < FRem.frem (b - a) (360 : ℝ) → FRem.frem (b - a) 360 < (360 : ℝ) / 2 →
        0 < FRem.frem (a + FRem.frem (b - a) 360 * (1 / 2)) (360 : ℝ) →
        t_deg_bisect_near (envL [a, b]) = .okG [r]
          [.cmp (FRem.frem (b - a) 360) 0 .gt, .cmp (360 / 2) (FRem.frem (b - a) 360) .gt,
           .cmp (FRem.frem (a + FRem.frem (b - a) 360 * (1 / 2)) 360) 0 .gt]) ∧
      -- near_neg: (gt, gt, lt)
      (0 < FRem.frem (b - a) (360 : ℝ) → FRem.frem (b - a) 360 < (360 : ℝ) / 2 →
        FRem.frem (a + FRem.frem (b - a) 360 * (1 / 2)) (360 : ℝ) < 0 →
        t_deg_bisect_near_neg (envL [a, b]) = .okG [r]
          [.cmp (FRem.frem (b - a) 360) 0 .gt, .cmp (360 / 2) (FRem.frem (b - a) 360) .gt,
           .cmp (FRem.frem (a + FRem.frem (b - a) 360 * (1 / 2)) 360) 0 .lt]) ∧
      -- wrap: (gt, lt, gt)
      (0 < FRem.frem (b - a) (360 : ℝ) → (360 : ℝ) / 2 < FRem.frem (b - a) 360 →
        0 < FRem.frem (a + (FRem.frem (b - a) 360 - 360) * (1 / 2)) (360 : ℝ) →
        t_deg_bisect_wrap (envL [a, b]) = .okG [r]
          [.cmp (FRem.frem (b - a) 360) 0 .gt, .cmp (360 / 2) (FRem.frem (b - a) 360) .lt,
           .cmp (FRem.frem (a + (FRem.frem (b - a) 360 - 360) * (1 / 2)) 360) 0 .gt]) ∧
      -- neg_near: (lt, gt, gt)
      (FRem.frem (b - a) (360 : ℝ) < 0 → FRem.frem (b - a) 360 + 360 < (360 : ℝ) / 2 →
        0 < FRem.frem (a + (FRem.frem (b - a) 360 + 360) * (1 / 2)) (360 : ℝ) →
        t_deg_bisect_neg_near (envL [a, b]) = .okG [r]
          [.cmp (FRem.frem (b - a) 360) 0 .lt, .cmp (360 / 2) (FRem.frem (b - a) 360 + 360) .gt,
           .cmp (FRem.frem (a + (FRem.frem (b - a) 360 + 360) * (1 / 2)) 360) 0 .gt]) ∧
      -- neg_wrap: (lt, lt, gt)
      (FRem.frem (b - a) (360 : ℝ) < 0 → (360 : ℝ) / 2 < FRem.frem (b - a) 360 + 360 →
        0 < FRem.frem (a + (FRem.frem (b - a) 360 + 360 - 360) * (1 / 2)) (360 : ℝ) →
        t_deg_bisect_neg_wrap (envL [a, b]) = .okG [r]
          [.cmp (FRem.frem (b - a) 360) 0 .lt, .cmp (360 / 2) (FRem.frem (b - a) 360 + 360) .lt,
           .cmp (FRem.frem (a + (FRem.frem (b - a) 360 + 360 - 360) * (1 / 2)) 360) 0 .gt]) ∧
      -- neg_wrap_neg: (lt, lt, lt)
      (FRem.frem (b - a) (360 : ℝ) < 0 → (360 : ℝ) / 2 < FRem.frem (b - a) 360 + 360 →
        FRem.frem (a + (FRem.frem (b - a) 360 + 360 - 360) * (1 / 2)) (360 : ℝ) < 0 →
        t_deg_bisect_neg_wrap_neg (envL [a, b]) = .okG [r]
          [.cmp (FRem.frem (b - a) 360) 0 .lt, .cmp (360 / 2) (FRem.frem (b - a) 360 + 360) .lt,
           .cmp (FRem.frem (a + (FRem.frem (b - a) 360 + 360 - 360) * (1 / 2)) 360) 0 .lt]) ∧
      -- same: (eq, gt, gt)
      (FRem.frem (b - a) (360 : ℝ) = 0 → 0 < FRem.frem (a + 0 * (1 / 2)) (360 : ℝ) →
        t_deg_bisect_same (envL [a, b]) = .okG [r]
          [.cmp (FRem.frem (b - a) 360) 0 .eq, .cmp (360 / 2) (FRem.frem (b - a) 360) .gt,
           .cmp (FRem.frem (a + FRem.frem (b - a) 360 * (1 / 2)) 360) 0 .gt]) ∧
      Angle.normalizeSigned (degFull : ℝ) (r - a) = Angle.normalizeSigned (degFull : ℝ) (b - r) ∧
      |Angle.normalizeSigned (degFull : ℝ) (r - a)| ≤ 90 ∧ |Angle.normalizeSigned (degFull : ℝ) (b - r)| ≤ 90 ∧
      0 ≤ r ∧ r < 360 := by
  obtain ⟨e, q, r0, r1⟩ := C13.deg_bisect a b
  exact ⟨Angle.bisect degFull a b, fun h h2 h3 => Trace.C13.t_deg_bisect_near a b h h2 h3,
    fun h h2 h3 => Trace.C13Paths.t_deg_bisect_near_neg a b h h2 h3,
    fun h h2 h3 => Trace.C13.t_deg_bisect_wrap a b h h2 h3,
    fun h h2 h3 => Trace.C13Paths.t_deg_bisect_neg_near a b h h2 h3,
    fun h h2 h3 => Trace.C13Paths.t_deg_bisect_neg_wrap a b h h2 h3,
    fun h h2 h3 => Trace.C13Paths.t_deg_bisect_neg_wrap_neg a b h h2 h3,
    fun h h3 => Trace.C13Paths.t_deg_bisect_same a b h (by norm_num) h3,
    e, q, e ▸ q, r0, r1⟩

/-! ## when a traced kernel is the run of the code on an input

A kernel records the comparisons the code made and their outcomes on the shadow input; it describes the run of the code on
another input exactly when every recorded comparison has the recorded outcome there.  (Only the comparisons that occur in the
C13 kernels — three-way, `==`, `<`, `<=` — are given a meaning; a tolerance comparison never holds, so that a kernel containing
one is never declared a run.) -/

/-- the recorded outcome of one comparison is its outcome on these values -/
def GuardHolds : G ℝ → Prop
  | .cmp x y .gt => y < x
  | .cmp x y .lt => x < y
  | .cmp x y .eq => x = y
  | .eq x y r => (x = y) ↔ r = true
  | .lt x y r => (x < y) ↔ r = true
  | .le x y r => (x ≤ y) ↔ r = true
  | _ => False
/-- all recorded outcomes are the outcomes on these values -/
def GuardsHold : List (G ℝ) → Prop
  | [] => True
  | [g] => GuardHolds g
  | g :: l => GuardHolds g ∧ GuardsHold l
/-- the kernel value `t` (a kernel applied to an input) is the run of the code on that input -/
def ValidRun (t : Tr ℝ) : Prop := GuardsHold t.guards

theorem ok_out_of_eq {t : Tr ℝ} {l : List ℝ} {g : List (G ℝ)} (h : t = .okG l g) : t.res = .ok ∧ t.out = l := by
  subst h; exact ⟨rfl, rfl⟩

/-- whichever kernel of the list `ks` is the run of the code on the input `inp`, it succeeds and outputs `[r]` -/
def RunsTo (ks : List ((Nat → ℝ) → Tr ℝ)) (inp : List ℝ) (r : ℝ) : Prop :=
  ∀ k ∈ ks, ValidRun (k (envL inp)) → (k (envL inp)).res = .ok ∧ (k (envL inp)).out = [r]
/-- some kernel of the list `ks` is the run of the code on the input `inp` (the input takes one of these traced paths) -/
def SomeRun (ks : List ((Nat → ℝ) → Tr ℝ)) (inp : List ℝ) : Prop := ∃ k ∈ ks, ValidRun (k (envL inp))
/-- on a traced path the result of `RunsTo` is the output of an actual run -/
theorem SomeRun.out {ks : List ((Nat → ℝ) → Tr ℝ)} {inp : List ℝ} {r : ℝ} (h : SomeRun ks inp) (hr : RunsTo ks inp r) :
    ∃ k ∈ ks, ValidRun (k (envL inp)) ∧ (k (envL inp)).res = .ok ∧ (k (envL inp)).out = [r] := by
  obtain ⟨k, hk, hv⟩ := h
  exact ⟨k, hk, hv, hr k hk hv⟩

/-! ## `Deg::bisect`: which inputs take a traced path -/

/-- the seven traced kernels of `Deg::bisect` -/
noncomputable def degBisectKernels : List ((Nat → ℝ) → Tr ℝ) :=
  [t_deg_bisect_near, t_deg_bisect_near_neg, t_deg_bisect_wrap, t_deg_bisect_neg_near, t_deg_bisect_neg_wrap,
   t_deg_bisect_neg_wrap_neg, t_deg_bisect_same]
/-- `(a, b)` takes a traced path of `Deg::bisect`: one of the seven kernels is the run of the code on it -/
def DegBisectTraced (a b : ℝ) : Prop := SomeRun degBisectKernels [a, b]

/-- the path conditions of the seven traced paths, in terms of `d = (b - a) % 360` -/
def DegBisectTracedAt (a d : ℝ) : Prop :=
  (0 < d ∧ d < 360 / 2 ∧ 0 < (FRem.frem (a + d * (1 / 2)) 360 : ℝ)) ∨
  (0 < d ∧ d < 360 / 2 ∧ (FRem.frem (a + d * (1 / 2)) 360 : ℝ) < 0) ∨
  (0 < d ∧ 360 / 2 < d ∧ 0 < (FRem.frem (a + (d - 360) * (1 / 2)) 360 : ℝ)) ∨
  (d < 0 ∧ d + 360 < 360 / 2 ∧ 0 < (FRem.frem (a + (d + 360) * (1 / 2)) 360 : ℝ)) ∨
  (d < 0 ∧ 360 / 2 < d + 360 ∧ 0 < (FRem.frem (a + (d + 360 - 360) * (1 / 2)) 360 : ℝ)) ∨
  (d < 0 ∧ 360 / 2 < d + 360 ∧ (FRem.frem (a + (d + 360 - 360) * (1 / 2)) 360 : ℝ) < 0) ∨
  (d = 0 ∧ d < 360 / 2 ∧ 0 < (FRem.frem (a + d * (1 / 2)) 360 : ℝ))
/-- the remainder: the path classes of `Deg::bisect` that are NOT traced, in terms of `d = (b - a) % 360`:
antipodal arguments (second comparison `Equal`), a final remainder that is exactly `0`, and a negative final remainder after
a positive wrapping / negative non-wrapping / zero difference -/
def DegBisectUntracedAt (a d : ℝ) : Prop :=
  (0 < d ∧ d = 360 / 2) ∨ (d < 0 ∧ d + 360 = 360 / 2) ∨
  (0 < d ∧ d < 360 / 2 ∧ (FRem.frem (a + d * (1 / 2)) 360 : ℝ) = 0) ∨
  (0 < d ∧ 360 / 2 < d ∧ (FRem.frem (a + (d - 360) * (1 / 2)) 360 : ℝ) = 0) ∨
  (d < 0 ∧ d + 360 < 360 / 2 ∧ (FRem.frem (a + (d + 360) * (1 / 2)) 360 : ℝ) = 0) ∨
  (d < 0 ∧ 360 / 2 < d + 360 ∧ (FRem.frem (a + (d + 360 - 360) * (1 / 2)) 360 : ℝ) = 0) ∨
  (d = 0 ∧ (FRem.frem (a + d * (1 / 2)) 360 : ℝ) = 0) ∨
  (0 < d ∧ 360 / 2 < d ∧ (FRem.frem (a + (d - 360) * (1 / 2)) 360 : ℝ) < 0) ∨
  (d < 0 ∧ d + 360 < 360 / 2 ∧ (FRem.frem (a + (d + 360) * (1 / 2)) 360 : ℝ) < 0) ∨
  (d = 0 ∧ (FRem.frem (a + d * (1 / 2)) 360 : ℝ) < 0)

/-- a traced kernel is the run of the code on `(a, b)` exactly under its path condition -/
theorem degBisectTraced_iff (a b : ℝ) : DegBisectTraced a b ↔ DegBisectTracedAt a (FRem.frem (b - a) 360) := by
  unfold DegBisectTraced SomeRun DegBisectTracedAt degBisectKernels
  constructor
  · rintro ⟨k, hk, hv⟩
    simp only [List.mem_cons, List.not_mem_nil, or_false] at hk
    rcases hk with rfl | rfl | rfl | rfl | rfl | rfl | rfl
    · exact Or.inl hv
    · exact Or.inr (Or.inl hv)
    · exact Or.inr (Or.inr (Or.inl hv))
    · exact Or.inr (Or.inr (Or.inr (Or.inl hv)))
    · exact Or.inr (Or.inr (Or.inr (Or.inr (Or.inl hv))))
    · exact Or.inr (Or.inr (Or.inr (Or.inr (Or.inr (Or.inl hv)))))
    · exact Or.inr (Or.inr (Or.inr (Or.inr (Or.inr (Or.inr hv)))))
  · rintro (h | h | h | h | h | h | h)
    · exact ⟨t_deg_bisect_near, by simp only [List.mem_cons, true_or], h⟩
    · exact ⟨t_deg_bisect_near_neg, by simp only [List.mem_cons, true_or, or_true], h⟩
    · exact ⟨t_deg_bisect_wrap, by simp only [List.mem_cons, true_or, or_true], h⟩
    · exact ⟨t_deg_bisect_neg_near, by simp only [List.mem_cons, true_or, or_true], h⟩
    · exact ⟨t_deg_bisect_neg_wrap, by simp only [List.mem_cons, true_or, or_true], h⟩
    · exact ⟨t_deg_bisect_neg_wrap_neg, by simp only [List.mem_cons, true_or, or_true], h⟩
    · exact ⟨t_deg_bisect_same, by simp only [List.mem_cons, true_or, or_true], h⟩

/-- every pair of a first remainder `d` with `|d| < 360` and an angle `a` is in a traced class or in the remainder -/
theorem degBisectAt_cover (a d : ℝ) : DegBisectTracedAt a d ∨ DegBisectUntracedAt a d := by
  unfold DegBisectTracedAt DegBisectUntracedAt
  rcases lt_trichotomy d 0 with h1 | h1 | h1
  · rcases lt_trichotomy (d + 360) (360 / 2) with h2 | h2 | h2
    · rcases lt_trichotomy (FRem.frem (a + (d + 360) * (1 / 2)) 360 : ℝ) 0 with h3 | h3 | h3
      · exact Or.inr (Or.inr (Or.inr (Or.inr (Or.inr (Or.inr (Or.inr (Or.inr (Or.inr (Or.inl ⟨h1, h2, h3⟩)))))))))
      · exact Or.inr (Or.inr (Or.inr (Or.inr (Or.inr (Or.inl ⟨h1, h2, h3⟩)))))
      · exact Or.inl (Or.inr (Or.inr (Or.inr (Or.inl ⟨h1, h2, h3⟩))))
    · exact Or.inr (Or.inr (Or.inl ⟨h1, h2⟩))
    · rcases lt_trichotomy (FRem.frem (a + (d + 360 - 360) * (1 / 2)) 360 : ℝ) 0 with h3 | h3 | h3
      · exact Or.inl (Or.inr (Or.inr (Or.inr (Or.inr (Or.inr (Or.inl ⟨h1, h2, h3⟩))))))
      · exact Or.inr (Or.inr (Or.inr (Or.inr (Or.inr (Or.inr (Or.inl ⟨h1, h2, h3⟩))))))
      · exact Or.inl (Or.inr (Or.inr (Or.inr (Or.inr (Or.inl ⟨h1, h2, h3⟩)))))
  · have h2 : d < 360 / 2 := by rw [h1]; norm_num
    rcases lt_trichotomy (FRem.frem (a + d * (1 / 2)) 360 : ℝ) 0 with h3 | h3 | h3
    · exact Or.inr (Or.inr (Or.inr (Or.inr (Or.inr (Or.inr (Or.inr (Or.inr (Or.inr (Or.inr (⟨h1, h3⟩))))))))))
    · exact Or.inr (Or.inr (Or.inr (Or.inr (Or.inr (Or.inr (Or.inr (Or.inl ⟨h1, h3⟩)))))))
    · exact Or.inl (Or.inr (Or.inr (Or.inr (Or.inr (Or.inr (Or.inr (⟨h1, h2, h3⟩)))))))
  · rcases lt_trichotomy d (360 / 2) with h2 | h2 | h2
    · rcases lt_trichotomy (FRem.frem (a + d * (1 / 2)) 360 : ℝ) 0 with h3 | h3 | h3
      · exact Or.inl (Or.inr (Or.inl ⟨h1, h2, h3⟩))
      · exact Or.inr (Or.inr (Or.inr (Or.inl ⟨h1, h2, h3⟩)))
      · exact Or.inl (Or.inl ⟨h1, h2, h3⟩)
    · exact Or.inr (Or.inl ⟨h1, h2⟩)
    · rcases lt_trichotomy (FRem.frem (a + (d - 360) * (1 / 2)) 360 : ℝ) 0 with h3 | h3 | h3
      · exact Or.inr (Or.inr (Or.inr (Or.inr (Or.inr (Or.inr (Or.inr (Or.inr (Or.inl ⟨h1, h2, h3⟩))))))))
      · exact Or.inr (Or.inr (Or.inr (Or.inr (Or.inl ⟨h1, h2, h3⟩))))
      · exact Or.inl (Or.inr (Or.inr (Or.inl ⟨h1, h2, h3⟩)))
/-- the traced classes and the remainder are disjoint -/
theorem degBisectAt_disjoint (a d : ℝ) : ¬ (DegBisectTracedAt a d ∧ DegBisectUntracedAt a d) := by
  unfold DegBisectTracedAt DegBisectUntracedAt
  rintro ⟨ht, hu⟩
  rcases ht with ⟨h1, h2, h3⟩ | ⟨h1, h2, h3⟩ | ⟨h1, h2, h3⟩ | ⟨h1, h2, h3⟩ | ⟨h1, h2, h3⟩ | ⟨h1, h2, h3⟩ | ⟨h1, h2, h3⟩ <;>
    rcases hu with ⟨u1, u2⟩ | ⟨u1, u2⟩ | ⟨u1, u2, u3⟩ | ⟨u1, u2, u3⟩ | ⟨u1, u2, u3⟩ | ⟨u1, u2, u3⟩ | ⟨u1, u3⟩ |
      ⟨u1, u2, u3⟩ | ⟨u1, u2, u3⟩ | ⟨u1, u3⟩ <;> linarith

/-- coverage of `Deg::bisect`: every `(a, b)` either takes one of the seven traced paths or lies in the explicit remainder
`DegBisectUntracedAt a ((b - a) % 360)`, never both: the traced paths are NOT exhaustive -/
theorem deg_bisect_cover (a b : ℝ) :
    (DegBisectTraced a b ∨ DegBisectUntracedAt a (FRem.frem (b - a) 360)) ∧
    ¬ (DegBisectTraced a b ∧ DegBisectUntracedAt a (FRem.frem (b - a) 360)) := by
  rw [degBisectTraced_iff]
  exact ⟨degBisectAt_cover a _, degBisectAt_disjoint a _⟩

/-- `Deg::bisect(a, b)` as computed: whichever traced kernel is the run of the code on `(a, b)`, it succeeds and outputs the
one angle `r`, which is midway between `a` and `b`; for `(a, b)` on a traced path there is such a kernel -/
theorem code_deg_bisect_run (a b : ℝ) :
    ∃ r : ℝ, RunsTo degBisectKernels [a, b] r ∧
      (DegBisectTraced a b → ∃ k ∈ degBisectKernels, ValidRun (k (envL [a, b])) ∧ (k (envL [a, b])).res = .ok ∧
        (k (envL [a, b])).out = [r]) ∧
      Angle.normalizeSigned (degFull : ℝ) (r - a) = Angle.normalizeSigned (degFull : ℝ) (b - r) ∧
      |Angle.normalizeSigned (degFull : ℝ) (r - a)| ≤ 90 ∧ |Angle.normalizeSigned (degFull : ℝ) (b - r)| ≤ 90 ∧
      0 ≤ r ∧ r < 360 := by
  obtain ⟨r, p1, p2, p3, p4, p5, p6, p7, spec⟩ := code_deg_bisect_paths_real a b
  have key : ∀ k ∈ degBisectKernels, ValidRun (k (envL [a, b])) →
      (k (envL [a, b])).res = .ok ∧ (k (envL [a, b])).out = [r] := by
    intro k hk hv
    simp only [degBisectKernels, List.mem_cons, List.not_mem_nil, or_false] at hk
    rcases hk with rfl | rfl | rfl | rfl | rfl | rfl | rfl
    · obtain ⟨h1, h2, h3⟩ := hv; exact ok_out_of_eq (p1 h1 h2 h3)
    · obtain ⟨h1, h2, h3⟩ := hv; exact ok_out_of_eq (p2 h1 h2 h3)
    · obtain ⟨h1, h2, h3⟩ := hv; exact ok_out_of_eq (p3 h1 h2 h3)
    · obtain ⟨h1, h2, h3⟩ := hv; exact ok_out_of_eq (p4 h1 h2 h3)
    · obtain ⟨h1, h2, h3⟩ := hv; exact ok_out_of_eq (p5 h1 h2 h3)
    · obtain ⟨h1, h2, h3⟩ := hv; exact ok_out_of_eq (p6 h1 h2 h3)
    · obtain ⟨h1, h2, h3⟩ := hv
      have h1' : (FRem.frem (b - a) 360 : ℝ) = 0 := h1
      have h3' : 0 < (FRem.frem (a + FRem.frem (b - a) 360 * (1 / 2)) 360 : ℝ) := h3
      rw [h1'] at h3'
      exact ok_out_of_eq (p7 h1' h3')
  exact ⟨r, key, fun h => h.out key, spec⟩

/-- the remainder of `Deg::bisect` is inhabited, class by class (so no traced kernel describes these runs):
`bisect(0, 180)` (antipodal), `bisect(-20, 20)` (final remainder `0`), `bisect(-10, 340)` (wrapping difference, negative final
remainder), `bisect(-200, -400)` (negative non-wrapping difference, negative final remainder), `bisect(-50, -50)` -/
theorem deg_bisect_untraced_inhabited :
    DegBisectUntracedAt 0 (FRem.frem (180 - 0) 360) ∧ DegBisectUntracedAt (-20) (FRem.frem (20 - (-20)) 360) ∧
    DegBisectUntracedAt (-10) (FRem.frem (340 - (-10)) 360) ∧ DegBisectUntracedAt (-200) (FRem.frem (-400 - (-200)) 360) ∧
    DegBisectUntracedAt (-50) (FRem.frem (-50 - (-50)) 360) := by
  have fs : ∀ x v : ℝ, x = v → -360 < v → v < 360 → (FRem.frem x 360 : ℝ) = v := fun x v hx h1 h2 => by
    rw [hx]; exact frem_small v 360 (by norm_num) (abs_lt.mpr ⟨h1, h2⟩)
  refine ⟨?_, ?_, ?_, ?_, ?_⟩
  · rw [fs _ 180 (by norm_num) (by norm_num) (by norm_num)]
    exact Or.inl ⟨by norm_num, by norm_num⟩
  · rw [fs _ 40 (by norm_num) (by norm_num) (by norm_num)]
    exact Or.inr (Or.inr (Or.inl ⟨by norm_num, by norm_num, fs _ 0 (by norm_num) (by norm_num) (by norm_num)⟩))
  · rw [fs _ 350 (by norm_num) (by norm_num) (by norm_num)]
    refine Or.inr (Or.inr (Or.inr (Or.inr (Or.inr (Or.inr (Or.inr (Or.inl ⟨by norm_num, by norm_num, ?_⟩)))))))
    rw [fs _ (-15) (by norm_num) (by norm_num) (by norm_num)]; norm_num
  · rw [fs _ (-200) (by norm_num) (by norm_num) (by norm_num)]
    refine Or.inr (Or.inr (Or.inr (Or.inr (Or.inr (Or.inr (Or.inr (Or.inr (Or.inl ⟨by norm_num, by norm_num, ?_⟩))))))))
    rw [fs _ (-120) (by norm_num) (by norm_num) (by norm_num)]; norm_num
  · rw [fs _ 0 (by norm_num) (by norm_num) (by norm_num)]
    refine Or.inr (Or.inr (Or.inr (Or.inr (Or.inr (Or.inr (Or.inr (Or.inr (Or.inr ⟨rfl, ?_⟩))))))))
    rw [fs _ (-50) (by norm_num) (by norm_num) (by norm_num)]; norm_num

/-- a concrete run on a path the earlier end-to-end theorems were silent about: on `bisect(50°, 10°)` the first remainder is
`-40`, the kernel `neg_wrap` is the run of the code, and it outputs `30°`; `bisect(10°, -30°)` runs `neg_wrap_neg` and outputs
`350°` -/
theorem code_deg_bisect_concrete :
    ValidRun (t_deg_bisect_neg_wrap (envL [(50 : ℝ), 10])) ∧ (t_deg_bisect_neg_wrap (envL [(50 : ℝ), 10])).out = [30] ∧
    DegBisectTraced 50 10 ∧
    ValidRun (t_deg_bisect_neg_wrap_neg (envL [(10 : ℝ), -30])) ∧
    (t_deg_bisect_neg_wrap_neg (envL [(10 : ℝ), -30])).out = [350] := by
  have fs : ∀ x v : ℝ, x = v → -360 < v → v < 360 → (FRem.frem x 360 : ℝ) = v := fun x v hx h1 h2 => by
    rw [hx]; exact frem_small v 360 (by norm_num) (abs_lt.mpr ⟨h1, h2⟩)
  have e1 : (FRem.frem (10 - 50) 360 : ℝ) = -40 := fs _ _ (by norm_num) (by norm_num) (by norm_num)
  have e2 : (FRem.frem (50 + (-40 + 360 - 360) * (1 / 2)) 360 : ℝ) = 30 := fs _ _ (by norm_num) (by norm_num) (by norm_num)
  have e3 : (FRem.frem (-30 - 10) 360 : ℝ) = -40 := fs _ _ (by norm_num) (by norm_num) (by norm_num)
  have e4 : (FRem.frem (10 + (-40 + 360 - 360) * (1 / 2)) 360 : ℝ) = -10 := fs _ _ (by norm_num) (by norm_num) (by norm_num)
  have v1 : ValidRun (t_deg_bisect_neg_wrap (envL [(50 : ℝ), 10])) := by
    show (FRem.frem (10 - 50) 360 : ℝ) < 0 ∧ (360 : ℝ) / 2 < FRem.frem (10 - 50) 360 + 360 ∧
      0 < (FRem.frem (50 + (FRem.frem (10 - 50) 360 + 360 - 360) * (1 / 2)) 360 : ℝ)
    rw [e1, e2]; norm_num
  refine ⟨v1, ?_, ⟨t_deg_bisect_neg_wrap, by simp only [degBisectKernels, List.mem_cons, true_or, or_true], v1⟩, ?_, ?_⟩
  · show [(FRem.frem (50 + (FRem.frem (10 - 50) 360 + 360 - 360) * (1 / 2)) 360 : ℝ)] = [30]
    rw [e1, e2]
  · show (FRem.frem (-30 - 10) 360 : ℝ) < 0 ∧ (360 : ℝ) / 2 < FRem.frem (-30 - 10) 360 + 360 ∧
      (FRem.frem (10 + (FRem.frem (-30 - 10) 360 + 360 - 360) * (1 / 2)) 360 : ℝ) < 0
    rw [e3, e4]; norm_num
  · show [(FRem.frem (10 + (FRem.frem (-30 - 10) 360 + 360 - 360) * (1 / 2)) 360 + 360 : ℝ)] = [350]
    rw [e3, e4]; norm_num

/-! ## `Rad::bisect`: the two traced paths (positive first remainder, positive final remainder) -/

/-- `Rad::bisect(a, b)` as computed on its two traced paths: one angle `r`, at equal signed distance from `a` and to `b`,
at most `π/2` from each, in `[0, 2π)` -/
theorem code_rad_bisect_paths_real (a b : ℝ) :
    ∃ r : ℝ,
      (0 < FRem.frem (b - a) (Lits.radFull : ℝ) → FRem.frem (b - a) Lits.radFull < (Lits.radFull : ℝ) / 2 →
        0 < FRem.frem (a + FRem.frem (b - a) Lits.radFull * (1 / 2)) (Lits.radFull : ℝ) →
        t_rad_bisect_near (envL [a, b]) = .okG [r]
          [.cmp (FRem.frem (b - a) Lits.radFull) 0 .gt, .cmp (Lits.radFull / 2) (FRem.frem (b - a) Lits.radFull) .gt,
           .cmp (FRem.frem (a + FRem.frem (b - a) Lits.radFull * (1 / 2)) Lits.radFull) 0 .gt]) ∧
      (0 < FRem.frem (b - a) (Lits.radFull : ℝ) → (Lits.radFull : ℝ) / 2 < FRem.frem (b - a) Lits.radFull →
        0 < FRem.frem (a + (FRem.frem (b - a) Lits.radFull - Lits.radFull) * (1 / 2)) (Lits.radFull : ℝ) →
        t_rad_bisect_wrap (envL [a, b]) = .okG [r]
          [.cmp (FRem.frem (b - a) Lits.radFull) 0 .gt, .cmp (Lits.radFull / 2) (FRem.frem (b - a) Lits.radFull) .lt,
           .cmp (FRem.frem (a + (FRem.frem (b - a) Lits.radFull - Lits.radFull) * (1 / 2)) Lits.radFull) 0 .gt]) ∧
      Angle.normalizeSigned (Lits.radFull : ℝ) (r - a) = Angle.normalizeSigned (Lits.radFull : ℝ) (b - r) ∧
      |Angle.normalizeSigned (Lits.radFull : ℝ) (r - a)| ≤ Real.pi / 2 ∧
      |Angle.normalizeSigned (Lits.radFull : ℝ) (b - r)| ≤ Real.pi / 2 ∧ 0 ≤ r ∧ r < 2 * Real.pi := by
  obtain ⟨e, q, r0, r1⟩ := C13.rad_bisect a b
  exact ⟨Angle.bisect Lits.radFull a b, fun h h2 h3 => Trace.C13Paths.t_rad_bisect_near a b h h2 h3,
    fun h h2 h3 => Trace.C13Paths.t_rad_bisect_wrap a b h h2 h3, e, q, e ▸ q, r0, r1⟩

/-- the two traced kernels of `Rad::bisect` -/
noncomputable def radBisectKernels : List ((Nat → ℝ) → Tr ℝ) := [t_rad_bisect_near, t_rad_bisect_wrap]
/-- the path conditions of the two traced paths, in terms of `d = (b - a) % 2π` -/
def RadBisectTracedAt (a d : ℝ) : Prop :=
  (0 < d ∧ d < (Lits.radFull : ℝ) / 2 ∧ 0 < (FRem.frem (a + d * (1 / 2)) Lits.radFull : ℝ)) ∨
  (0 < d ∧ (Lits.radFull : ℝ) / 2 < d ∧ 0 < (FRem.frem (a + (d - Lits.radFull) * (1 / 2)) Lits.radFull : ℝ))
/-- the remainder: the untraced path classes of `Rad::bisect`: a first remainder `≤ 0` (in particular every `b < a`), antipodal
arguments, a final remainder `≤ 0` -/
def RadBisectUntracedAt (a d : ℝ) : Prop :=
  d ≤ 0 ∨ d = (Lits.radFull : ℝ) / 2 ∨
  (0 < d ∧ d < (Lits.radFull : ℝ) / 2 ∧ (FRem.frem (a + d * (1 / 2)) Lits.radFull : ℝ) ≤ 0) ∨
  (0 < d ∧ (Lits.radFull : ℝ) / 2 < d ∧ (FRem.frem (a + (d - Lits.radFull) * (1 / 2)) Lits.radFull : ℝ) ≤ 0)

theorem radBisectTraced_iff (a b : ℝ) :
    SomeRun radBisectKernels [a, b] ↔ RadBisectTracedAt a (FRem.frem (b - a) Lits.radFull) := by
  unfold SomeRun RadBisectTracedAt radBisectKernels
  constructor
  · rintro ⟨k, hk, hv⟩
    simp only [List.mem_cons, List.not_mem_nil, or_false] at hk
    rcases hk with rfl | rfl
    · exact Or.inl hv
    · exact Or.inr hv
  · rintro (h | h)
    · exact ⟨t_rad_bisect_near, by simp only [List.mem_cons, true_or, or_true], h⟩
    · exact ⟨t_rad_bisect_wrap, by simp only [List.mem_cons, true_or, or_true], h⟩

/-- coverage of `Rad::bisect`: `(a, b)` takes one of the two traced paths or lies in the explicit remainder, never both; the
remainder is inhabited (`bisect(2, 1)`: the first remainder is `-1`): the negative-remainder, antipodal and zero paths of
`Rad::bisect` are NOT traced -/
theorem rad_bisect_cover (a b : ℝ) :
    (SomeRun radBisectKernels [a, b] ∨ RadBisectUntracedAt a (FRem.frem (b - a) Lits.radFull)) ∧
    ¬ (SomeRun radBisectKernels [a, b] ∧ RadBisectUntracedAt a (FRem.frem (b - a) Lits.radFull)) ∧
    RadBisectUntracedAt 2 (FRem.frem (1 - 2) Lits.radFull) := by
  rw [radBisectTraced_iff]
  generalize (FRem.frem (b - a) Lits.radFull : ℝ) = d
  unfold RadBisectTracedAt RadBisectUntracedAt
  refine ⟨?_, ?_, ?_⟩
  · rcases le_or_gt d 0 with h1 | h1
    · exact Or.inr (Or.inl h1)
    · rcases lt_trichotomy d ((Lits.radFull : ℝ) / 2) with h2 | h2 | h2
      · rcases le_or_gt (FRem.frem (a + d * (1 / 2)) Lits.radFull : ℝ) 0 with h3 | h3
        · exact Or.inr (Or.inr (Or.inr (Or.inl ⟨h1, h2, h3⟩)))
        · exact Or.inl (Or.inl ⟨h1, h2, h3⟩)
      · exact Or.inr (Or.inr (Or.inl h2))
      · rcases le_or_gt (FRem.frem (a + (d - Lits.radFull) * (1 / 2)) Lits.radFull : ℝ) 0 with h3 | h3
        · exact Or.inr (Or.inr (Or.inr (Or.inr ⟨h1, h2, h3⟩)))
        · exact Or.inl (Or.inr ⟨h1, h2, h3⟩)
  · rintro ⟨ht, hu⟩
    rcases ht with ⟨h1, h2, h3⟩ | ⟨h1, h2, h3⟩ <;>
      rcases hu with u1 | u1 | ⟨u1, u2, u3⟩ | ⟨u1, u2, u3⟩ <;> linarith
  · left
    have hpi := Real.two_le_pi
    rw [frem_small _ _ C13.radFull_pos (by rw [C13.radFull_real, abs_lt]; constructor <;> linarith)]
    norm_num

/-- `Rad::bisect(a, b)` as computed: whichever of the two traced kernels is the run of the code on `(a, b)`, it outputs the
one angle `r`, midway between `a` and `b` -/
theorem code_rad_bisect_run (a b : ℝ) :
    ∃ r : ℝ, RunsTo radBisectKernels [a, b] r ∧
      Angle.normalizeSigned (Lits.radFull : ℝ) (r - a) = Angle.normalizeSigned (Lits.radFull : ℝ) (b - r) ∧
      |Angle.normalizeSigned (Lits.radFull : ℝ) (r - a)| ≤ Real.pi / 2 ∧
      |Angle.normalizeSigned (Lits.radFull : ℝ) (b - r)| ≤ Real.pi / 2 ∧ 0 ≤ r ∧ r < 2 * Real.pi := by
  obtain ⟨r, p1, p2, spec⟩ := code_rad_bisect_paths_real a b
  refine ⟨r, ?_, spec⟩
  intro k hk hv
  simp only [radBisectKernels, List.mem_cons, List.not_mem_nil, or_false] at hk
  rcases hk with rfl | rfl
  · obtain ⟨h1, h2, h3⟩ := hv; exact ok_out_of_eq (p1 h1 h2 h3)
  · obtain ⟨h1, h2, h3⟩ := hv; exact ok_out_of_eq (p2 h1 h2 h3)

/-! ## `normalize_signed`: the six traced paths in degrees, the two in radians -/

/-- `Deg::normalize_signed(a)` as computed on each of its six traced paths (positive / negative remainder with the lifted
remainder above / below the half turn, zero remainder, exactly a half turn): in `(-180, 180]`, a whole number of turns from `a` -/
theorem code_deg_normalize_signed_paths_real (a : ℝ) :
    ∃ r : ℝ,
      (0 < FRem.frem a (360 : ℝ) → (360 : ℝ) / 2 < FRem.frem a 360 → t_deg_normalize_signed_hi (envL [a]) =
        .okG [r] [.cmp (FRem.frem a 360) 0 .gt, .cmp (360 / 2) (FRem.frem a 360) .lt]) ∧
      (0 < FRem.frem a (360 : ℝ) → FRem.frem a 360 < (360 : ℝ) / 2 → t_deg_normalize_signed_lo (envL [a]) =
        .okG [r] [.cmp (FRem.frem a 360) 0 .gt, .cmp (360 / 2) (FRem.frem a 360) .gt]) ∧
      (FRem.frem a (360 : ℝ) < 0 → (360 : ℝ) / 2 < FRem.frem a 360 + 360 → t_deg_normalize_signed_neg_hi (envL [a]) =
        .okG [r] [.cmp (FRem.frem a 360) 0 .lt, .cmp (360 / 2) (FRem.frem a 360 + 360) .lt]) ∧
      (FRem.frem a (360 : ℝ) < 0 → FRem.frem a 360 + 360 < (360 : ℝ) / 2 → t_deg_normalize_signed_neg_lo (envL [a]) =
        .okG [r] [.cmp (FRem.frem a 360) 0 .lt, .cmp (360 / 2) (FRem.frem a 360 + 360) .gt]) ∧
      (FRem.frem a (360 : ℝ) = 0 → t_deg_normalize_signed_zero (envL [a]) =
        .okG [r] [.cmp (FRem.frem a 360) 0 .eq, .cmp (360 / 2) (FRem.frem a 360) .gt]) ∧
      (0 < FRem.frem a (360 : ℝ) → FRem.frem a 360 = (360 : ℝ) / 2 → t_deg_normalize_signed_half (envL [a]) =
        .okG [r] [.cmp (FRem.frem a 360) 0 .gt, .cmp (360 / 2) (FRem.frem a 360) .eq]) ∧
      -180 < r ∧ r ≤ 180 ∧ ∃ k : ℤ, r = a + k * 360 :=
  ⟨Angle.normalizeSigned degFull a, fun h h2 => Trace.C13.t_deg_normalize_signed_hi a h h2,
    fun h h2 => Trace.C13.t_deg_normalize_signed_lo a h h2, fun h h2 => Trace.C13.t_deg_normalize_signed_neg_hi a h h2,
    fun h h2 => Trace.C13.t_deg_normalize_signed_neg_lo a h h2,
    fun h => Trace.C13Paths.t_deg_normalize_signed_zero a h (by norm_num),
    fun h h2 => Trace.C13Paths.t_deg_normalize_signed_half a h h2, C13.deg_normalizeSigned a⟩

/-- the six traced kernels of `Deg::normalize_signed` -/
noncomputable def degNormalizeSignedKernels : List ((Nat → ℝ) → Tr ℝ) :=
  [t_deg_normalize_signed_hi, t_deg_normalize_signed_lo, t_deg_normalize_signed_neg_hi, t_deg_normalize_signed_neg_lo,
   t_deg_normalize_signed_zero, t_deg_normalize_signed_half]

/-- coverage of `Deg::normalize_signed`: `a` takes one of the six traced paths exactly when `a % 360 ≠ -180`; the remaining
class (negative remainder lifted to exactly a half turn, e.g. `a = -180`) is not traced -/
theorem deg_normalize_signed_cover (a : ℝ) :
    (SomeRun degNormalizeSignedKernels [a] ↔ (FRem.frem a 360 : ℝ) ≠ -180) ∧ (FRem.frem (-180) 360 : ℝ) = -180 := by
  refine ⟨?_, frem_small _ _ (by norm_num) (by rw [abs_lt]; constructor <;> norm_num)⟩
  unfold SomeRun degNormalizeSignedKernels
  constructor
  · rintro ⟨k, hk, hv⟩ he
    simp only [List.mem_cons, List.not_mem_nil, or_false] at hk
    rcases hk with rfl | rfl | rfl | rfl | rfl | rfl
    · obtain ⟨h1, h2⟩ := hv
      have h1' : (0 : ℝ) < FRem.frem a 360 := h1
      linarith
    · obtain ⟨h1, h2⟩ := hv
      have h1' : (0 : ℝ) < FRem.frem a 360 := h1
      linarith
    · obtain ⟨h1, h2⟩ := hv
      have h2' : (360 : ℝ) / 2 < FRem.frem a 360 + 360 := h2
      linarith
    · obtain ⟨h1, h2⟩ := hv
      have h2' : (FRem.frem a 360 : ℝ) + 360 < 360 / 2 := h2
      linarith
    · obtain ⟨h1, h2⟩ := hv
      have h1' : (FRem.frem a 360 : ℝ) = 0 := h1
      linarith
    · obtain ⟨h1, h2⟩ := hv
      have h1' : (0 : ℝ) < FRem.frem a 360 := h1
      linarith
  · intro hne
    rcases lt_trichotomy (FRem.frem a 360 : ℝ) 0 with h1 | h1 | h1
    · rcases lt_trichotomy (FRem.frem a 360 + 360 : ℝ) (360 / 2) with h2 | h2 | h2
      · exact ⟨t_deg_normalize_signed_neg_lo, by simp only [List.mem_cons, true_or, or_true], h1, h2⟩
      · exact absurd (by linarith) hne
      · exact ⟨t_deg_normalize_signed_neg_hi, by simp only [List.mem_cons, true_or, or_true], h1, h2⟩
    · exact ⟨t_deg_normalize_signed_zero, by simp only [List.mem_cons, true_or, or_true], h1,
        show (FRem.frem a 360 : ℝ) < 360 / 2 by rw [h1]; norm_num⟩
    · rcases lt_trichotomy (FRem.frem a 360 : ℝ) (360 / 2) with h2 | h2 | h2
      · exact ⟨t_deg_normalize_signed_lo, by simp only [List.mem_cons, true_or, or_true], h1, h2⟩
      · exact ⟨t_deg_normalize_signed_half, by simp only [List.mem_cons, true_or, or_true], h1, h2.symm⟩
      · exact ⟨t_deg_normalize_signed_hi, by simp only [List.mem_cons, true_or, or_true], h1, h2⟩

/-- `Deg::normalize_signed(a)` as computed: whichever traced kernel is the run of the code on `a`, it outputs the one angle `r`
in `(-180, 180]`, a whole number of turns from `a` -/
theorem code_deg_normalize_signed_run (a : ℝ) :
    ∃ r : ℝ, RunsTo degNormalizeSignedKernels [a] r ∧ -180 < r ∧ r ≤ 180 ∧ ∃ k : ℤ, r = a + k * 360 := by
  obtain ⟨r, p1, p2, p3, p4, p5, p6, spec⟩ := code_deg_normalize_signed_paths_real a
  refine ⟨r, ?_, spec⟩
  intro k hk hv
  simp only [degNormalizeSignedKernels, List.mem_cons, List.not_mem_nil, or_false] at hk
  rcases hk with rfl | rfl | rfl | rfl | rfl | rfl
  · obtain ⟨h1, h2⟩ := hv; exact ok_out_of_eq (p1 h1 h2)
  · obtain ⟨h1, h2⟩ := hv; exact ok_out_of_eq (p2 h1 h2)
  · obtain ⟨h1, h2⟩ := hv; exact ok_out_of_eq (p3 h1 h2)
  · obtain ⟨h1, h2⟩ := hv; exact ok_out_of_eq (p4 h1 h2)
  · obtain ⟨h1, h2⟩ := hv; exact ok_out_of_eq (p5 h1)
  · obtain ⟨h1, h2⟩ := hv
    have h2' : (360 : ℝ) / 2 = FRem.frem a 360 := h2
    exact ok_out_of_eq (p6 h1 h2'.symm)

/-- the two traced kernels of `Rad::normalize_signed` (both with a positive remainder) -/
noncomputable def radNormalizeSignedKernels : List ((Nat → ℝ) → Tr ℝ) :=
  [t_rad_normalize_signed_hi, t_rad_normalize_signed_lo]

/-- coverage of `Rad::normalize_signed`: `a` takes one of the two traced paths exactly when `0 < a % 2π ≠ π`; the paths of a
zero or negative remainder (every `a < 0` that is not a multiple of `2π`; e.g. `a = -1`) and of exactly a half turn are not traced -/
theorem rad_normalize_signed_cover (a : ℝ) :
    (SomeRun radNormalizeSignedKernels [a] ↔
      0 < (FRem.frem a Lits.radFull : ℝ) ∧ (FRem.frem a Lits.radFull : ℝ) ≠ Lits.radFull / 2) ∧
    (FRem.frem (-1) Lits.radFull : ℝ) = -1 := by
  have hpi := Real.two_le_pi
  refine ⟨?_, frem_small _ _ C13.radFull_pos (by rw [C13.radFull_real, abs_lt]; constructor <;> linarith)⟩
  unfold SomeRun radNormalizeSignedKernels
  constructor
  · rintro ⟨k, hk, hv⟩
    simp only [List.mem_cons, List.not_mem_nil, or_false] at hk
    rcases hk with rfl | rfl
    · obtain ⟨h1, h2⟩ := hv
      have h2' : (Lits.radFull : ℝ) / 2 < FRem.frem a Lits.radFull := h2
      exact ⟨h1, ne_of_gt h2'⟩
    · obtain ⟨h1, h2⟩ := hv
      have h2' : (FRem.frem a Lits.radFull : ℝ) < Lits.radFull / 2 := h2
      exact ⟨h1, ne_of_lt h2'⟩
  · rintro ⟨h1, hne⟩
    rcases lt_or_gt_of_ne hne with h2 | h2
    · exact ⟨t_rad_normalize_signed_lo, by simp only [List.mem_cons, true_or, or_true], h1, h2⟩
    · exact ⟨t_rad_normalize_signed_hi, by simp only [List.mem_cons, true_or, or_true], h1, h2⟩

/-- `Rad::normalize_signed(a)` as computed: whichever of the two traced kernels is the run of the code on `a`, it outputs the
one angle `r` in `(-π, π]`, a whole number of turns from `a` -/
theorem code_rad_normalize_signed_run (a : ℝ) :
    ∃ r : ℝ, RunsTo radNormalizeSignedKernels [a] r ∧ -Real.pi < r ∧ r ≤ Real.pi ∧ ∃ k : ℤ, r = a + k * (2 * Real.pi) := by
  obtain ⟨r, p1, p2, spec⟩ := code_rad_normalize_signed_real a
  refine ⟨r, ?_, spec⟩
  intro k hk hv
  simp only [radNormalizeSignedKernels, List.mem_cons, List.not_mem_nil, or_false] at hk
  rcases hk with rfl | rfl
  · obtain ⟨h1, h2⟩ := hv; exact ok_out_of_eq (p1 h1 h2)
  · obtain ⟨h1, h2⟩ := hv; exact ok_out_of_eq (p2 h1 h2)

/-! ## `opposite`: the three traced paths in degrees (exhaustive), the one in radians -/

/-- `Deg::opposite(a)` as computed on each of its three paths is `normalize(a + 180)`: in `[0, 360)`, half a turn plus whole
turns from `a` -/
theorem code_deg_opposite_paths_real (a : ℝ) :
    ∃ r : ℝ, (0 < FRem.frem (a + 360 / 2) (360 : ℝ) → t_deg_opposite (envL [a]) =
        .okG [r] [.cmp (FRem.frem (a + 360 / 2) 360) 0 .gt]) ∧
      (FRem.frem (a + 360 / 2) (360 : ℝ) < 0 → t_deg_opposite_neg (envL [a]) =
        .okG [r] [.cmp (FRem.frem (a + 360 / 2) 360) 0 .lt]) ∧
      (FRem.frem (a + 360 / 2) (360 : ℝ) = 0 → t_deg_opposite_zero (envL [a]) =
        .okG [r] [.cmp (FRem.frem (a + 360 / 2) 360) 0 .eq]) ∧
      r = Angle.normalize (degFull : ℝ) (a + 180) ∧ 0 ≤ r ∧ r < 360 ∧ ∃ k : ℤ, r = a + 180 + k * 360 := by
  obtain ⟨-, h0, h1, k, hk⟩ := C13.opposite_spec_real (degFull : ℝ) a C13.degFull_pos
  rw [C13.degFull_real] at h0 h1 hk
  refine ⟨Angle.opposite degFull a, fun h => Trace.C13.t_deg_opposite a h, fun h => Trace.C13.t_deg_opposite_neg a h,
    fun h => Trace.C13Paths.t_deg_opposite_zero a h, C13.deg_opposite a, ?_, ?_, k, ?_⟩
  · rw [C13.degFull_real]; exact h0
  · rw [C13.degFull_real]; exact h1
  · rw [C13.degFull_real, hk]; norm_num

/-- the three traced kernels of `Deg::opposite` -/
noncomputable def degOppositeKernels : List ((Nat → ℝ) → Tr ℝ) := [t_deg_opposite, t_deg_opposite_neg, t_deg_opposite_zero]

/-- `Deg::opposite(a)` as computed: the three traced paths are exhaustive (every `a` is the run of one of the kernels), and
whichever kernel is the run, it outputs `r = normalize(a + 180)`, in `[0, 360)`, half a turn plus whole turns from `a` -/
theorem code_deg_opposite_run (a : ℝ) :
    SomeRun degOppositeKernels [a] ∧
    ∃ r : ℝ, RunsTo degOppositeKernels [a] r ∧
      r = Angle.normalize (degFull : ℝ) (a + 180) ∧ 0 ≤ r ∧ r < 360 ∧ ∃ k : ℤ, r = a + 180 + k * 360 := by
  constructor
  · unfold SomeRun degOppositeKernels
    rcases lt_trichotomy (FRem.frem (a + 360 / 2) 360 : ℝ) 0 with h | h | h
    · exact ⟨t_deg_opposite_neg, by simp only [List.mem_cons, true_or, or_true], h⟩
    · exact ⟨t_deg_opposite_zero, by simp only [List.mem_cons, true_or, or_true], h⟩
    · exact ⟨t_deg_opposite, by simp only [List.mem_cons, true_or, or_true], h⟩
  · obtain ⟨r, p1, p2, p3, spec⟩ := code_deg_opposite_paths_real a
    refine ⟨r, ?_, spec⟩
    intro k hk hv
    simp only [degOppositeKernels, List.mem_cons, List.not_mem_nil, or_false] at hk
    rcases hk with rfl | rfl | rfl
    · exact ok_out_of_eq (p1 hv)
    · exact ok_out_of_eq (p2 hv)
    · exact ok_out_of_eq (p3 hv)

/-- `Rad::opposite(a)`: its one traced kernel is the run of the code on `a` exactly when `0 < (a + π) % 2π`, and then outputs
`r = normalize(a + π)`, in `[0, 2π)`, half a turn plus whole turns from `a`; the zero and negative paths (e.g. `a = -5`,
where `(a + π) % 2π = π - 5 < 0`) are not traced -/
theorem code_rad_opposite_run (a : ℝ) :
    (SomeRun [t_rad_opposite] [a] ↔ 0 < (FRem.frem (a + Lits.radFull / 2) Lits.radFull : ℝ)) ∧
    (∃ r : ℝ, RunsTo [t_rad_opposite] [a] r ∧ r = Angle.normalize (Lits.radFull : ℝ) (a + Real.pi) ∧ 0 ≤ r ∧
      r < 2 * Real.pi ∧ ∃ k : ℤ, r = a + Real.pi + k * (2 * Real.pi)) ∧
    (FRem.frem (-5 + Lits.radFull / 2) Lits.radFull : ℝ) < 0 := by
  refine ⟨?_, ?_, ?_⟩
  · unfold SomeRun
    constructor
    · rintro ⟨k, hk, hv⟩
      simp only [List.mem_cons, List.not_mem_nil, or_false] at hk
      subst hk; exact hv
    · intro h
      exact ⟨t_rad_opposite, by simp only [List.mem_cons, true_or, or_true], h⟩
  · obtain ⟨-, h0, h1, k, hk⟩ := C13.opposite_spec_real (Lits.radFull : ℝ) a C13.radFull_pos
    refine ⟨Angle.opposite Lits.radFull a, ?_, C13.rad_opposite a, h0, ?_, k, ?_⟩
    · intro k hk hv
      simp only [List.mem_cons, List.not_mem_nil, or_false] at hk
      subst hk
      exact ok_out_of_eq (Trace.C13.t_rad_opposite a hv)
    · rw [C13.radFull_real] at h1; exact h1
    · rw [hk, C13.radFull_real]; ring
  · have h1 := Real.two_le_pi
    have h2 := Real.pi_le_four
    rw [frem_small _ _ C13.radFull_pos (by rw [C13.radFull_real, abs_lt]; constructor <;> linarith), C13.radFull_real]
    linarith

/-! ## `normalize`: three paths each, exhaustive -/

/-- the three traced kernels of `Deg::normalize` / of `Rad::normalize` -/
noncomputable def degNormalizeKernels : List ((Nat → ℝ) → Tr ℝ) := [t_deg_normalize_pos, t_deg_normalize_neg, t_deg_normalize_zero]
noncomputable def radNormalizeKernels : List ((Nat → ℝ) → Tr ℝ) := [t_rad_normalize_pos, t_rad_normalize_neg, t_rad_normalize_zero]

/-- `Rad::normalize(a)` as computed on each of its three paths (the zero-remainder path included): in `[0, 2π)`, a whole number
of turns from `a` -/
theorem code_rad_normalize_paths_real (a : ℝ) :
    ∃ r : ℝ, (0 < FRem.frem a (Lits.radFull : ℝ) → t_rad_normalize_pos (envL [a]) =
        .okG [r] [.cmp (FRem.frem a Lits.radFull) 0 .gt]) ∧
      (FRem.frem a (Lits.radFull : ℝ) < 0 → t_rad_normalize_neg (envL [a]) =
        .okG [r] [.cmp (FRem.frem a Lits.radFull) 0 .lt]) ∧
      (FRem.frem a (Lits.radFull : ℝ) = 0 → t_rad_normalize_zero (envL [a]) =
        .okG [r] [.cmp (FRem.frem a Lits.radFull) 0 .eq]) ∧
      0 ≤ r ∧ r < 2 * Real.pi ∧ ∃ k : ℤ, r = a + k * (2 * Real.pi) :=
  ⟨Angle.normalize Lits.radFull a, fun h => Trace.C13.t_rad_normalize_pos a h, fun h => Trace.C13.t_rad_normalize_neg a h,
    fun h => Trace.C13Paths.t_rad_normalize_zero a h, C13.rad_normalize a⟩

/-- `Rad::normalize(a)` as computed: the three traced paths are exhaustive, and whichever kernel is the run of the code on `a`
outputs the one angle `r` in `[0, 2π)`, a whole number of turns from `a` -/
theorem code_rad_normalize_run (a : ℝ) :
    SomeRun radNormalizeKernels [a] ∧
    ∃ r : ℝ, RunsTo radNormalizeKernels [a] r ∧ 0 ≤ r ∧ r < 2 * Real.pi ∧ ∃ k : ℤ, r = a + k * (2 * Real.pi) := by
  constructor
  · unfold SomeRun radNormalizeKernels
    rcases lt_trichotomy (FRem.frem a Lits.radFull : ℝ) 0 with h | h | h
    · exact ⟨t_rad_normalize_neg, by simp only [List.mem_cons, true_or, or_true], h⟩
    · exact ⟨t_rad_normalize_zero, by simp only [List.mem_cons, true_or, or_true], h⟩
    · exact ⟨t_rad_normalize_pos, by simp only [List.mem_cons, true_or, or_true], h⟩
  · obtain ⟨r, p1, p2, p3, spec⟩ := code_rad_normalize_paths_real a
    refine ⟨r, ?_, spec⟩
    intro k hk hv
    simp only [radNormalizeKernels, List.mem_cons, List.not_mem_nil, or_false] at hk
    rcases hk with rfl | rfl | rfl
    · exact ok_out_of_eq (p1 hv)
    · exact ok_out_of_eq (p2 hv)
    · exact ok_out_of_eq (p3 hv)

/-- `Deg::normalize(a)` as computed: the three traced paths are exhaustive, and whichever kernel is the run of the code on `a`
outputs the one angle `r` in `[0, 360)`, a whole number of turns from `a` -/
theorem code_deg_normalize_run (a : ℝ) :
    SomeRun degNormalizeKernels [a] ∧
    ∃ r : ℝ, RunsTo degNormalizeKernels [a] r ∧ 0 ≤ r ∧ r < 360 ∧ ∃ k : ℤ, r = a + k * 360 := by
  constructor
  · unfold SomeRun degNormalizeKernels
    rcases lt_trichotomy (FRem.frem a 360 : ℝ) 0 with h | h | h
    · exact ⟨t_deg_normalize_neg, by simp only [List.mem_cons, true_or, or_true], h⟩
    · exact ⟨t_deg_normalize_zero, by simp only [List.mem_cons, true_or, or_true], h⟩
    · exact ⟨t_deg_normalize_pos, by simp only [List.mem_cons, true_or, or_true], h⟩
  · obtain ⟨r, p1, p2, p3, spec⟩ := code_deg_normalize_real a
    refine ⟨r, ?_, spec⟩
    intro k hk hv
    simp only [degNormalizeKernels, List.mem_cons, List.not_mem_nil, or_false] at hk
    rcases hk with rfl | rfl | rfl
    · exact ok_out_of_eq (p1 hv)
    · exact ok_out_of_eq (p2 hv)
    · exact ok_out_of_eq (p3 hv)

/-! ## reading the path conditions in terms of the input

All path conditions above are sign conditions on remainders `x % T` (`T = 360` or `2π`).  In terms of `x`: the remainder is `0`
exactly for the whole multiples of `T`, positive exactly for the positive `x` that are not, negative exactly for the negative
`x` that are not.  (So, e.g., the first comparison of `bisect(a, b)` is `Greater` iff `b > a` and `b - a` is not a whole number
of turns, and the untraced classes of `Rad::bisect` contain every pair with `b < a`.) -/

theorem frem_eq_zero_iff (x T : ℝ) (hT : 0 < T) : (FRem.frem x T : ℝ) = 0 ↔ ∃ k : ℤ, x = k * T := by
  obtain ⟨k', hk', hlt⟩ := fremR_spec x T hT
  constructor
  · intro h
    exact ⟨k', by rw [h] at hk'; linarith⟩
  · rintro ⟨k, rfl⟩
    have e : (FRem.frem ((k : ℝ) * T) T : ℝ) = ((k - k' : ℤ) : ℝ) * T := by rw [hk']; push_cast; ring
    rw [e] at hlt ⊢
    rw [abs_mul, abs_of_pos hT] at hlt
    have h1 : |((k - k' : ℤ) : ℝ)| < 1 := by
      by_contra hc
      rw [not_lt] at hc
      nlinarith
    have h2 : |k - k'| < 1 := by exact_mod_cast h1
    rw [Int.abs_lt_one_iff] at h2
    rw [h2]; simp
theorem frem_pos_iff (x T : ℝ) (hT : 0 < T) : 0 < (FRem.frem x T : ℝ) ↔ 0 < x ∧ ¬ ∃ k : ℤ, x = k * T := by
  rw [← frem_eq_zero_iff x T hT]
  constructor
  · intro h
    exact ⟨(path_sign x T).2 h, ne_of_gt h⟩
  · rintro ⟨h1, h2⟩
    exact lt_of_le_of_ne ((fremR_sign x T).1 h1.le) (Ne.symm h2)
theorem frem_neg_iff (x T : ℝ) (hT : 0 < T) : (FRem.frem x T : ℝ) < 0 ↔ x < 0 ∧ ¬ ∃ k : ℤ, x = k * T := by
  rw [← frem_eq_zero_iff x T hT]
  constructor
  · intro h
    exact ⟨(path_sign x T).1 h, ne_of_lt h⟩
  · rintro ⟨h1, h2⟩
    exact lt_of_le_of_ne ((fremR_sign x T).2 h1.le) h2

/-- consequently no traced kernel describes `Rad::bisect(a, b)` for `b < a`, `Rad::normalize_signed(a)` for `a < 0`, or
`Rad::opposite(a)` for `a < -π` -/
theorem rad_untraced_negative (a b : ℝ) :
    (b < a → ¬ SomeRun radBisectKernels [a, b]) ∧ (a < 0 → ¬ SomeRun radNormalizeSignedKernels [a]) ∧
    (a < -Real.pi → ¬ SomeRun [t_rad_opposite] [a]) := by
  refine ⟨fun h hs => ?_, fun h hs => ?_, fun h hs => ?_⟩
  · rw [radBisectTraced_iff] at hs
    have : 0 < (FRem.frem (b - a) Lits.radFull : ℝ) := by
      rcases hs with ⟨h1, -⟩ | ⟨h1, -⟩ <;> exact h1
    have := (path_sign _ _).2 this
    linarith
  · have := ((rad_normalize_signed_cover a).1.1 hs).1
    have := (path_sign _ _).2 this
    linarith
  · have := (code_rad_opposite_run a).1.1 hs
    have := (path_sign _ _).2 this
    rw [C13.radFull_real] at this
    linarith

/-! ## the operators act on the underlying number -/

/-- `+`, `-`, unary `-`, `* scalar`, `/ scalar`, `angle / angle` and `zero()` of `Deg` and of `Rad` as computed are the scalar
operations on the underlying numbers -/
theorem code_operators_real (x y s : ℝ) :
    t_deg_add (envL [x, y]) = .okS [x + y] ∧ t_rad_add (envL [x, y]) = .okS [x + y] ∧
    t_deg_sub (envL [x, y]) = .okS [x - y] ∧ t_rad_sub (envL [x, y]) = .okS [x - y] ∧
    t_deg_neg (envL [x]) = .okS [-x] ∧ t_rad_neg (envL [x]) = .okS [-x] ∧
    t_deg_mul_s (envL [x, s]) = .okS [x * s] ∧ t_rad_mul_s (envL [x, s]) = .okS [x * s] ∧
    t_deg_div_s (envL [x, s]) = .okS [x / s] ∧ t_rad_div_s (envL [x, s]) = .okS [x / s] ∧
    t_deg_div_a (envL [x, y]) = .okS [x / y] ∧ t_rad_div_a (envL [x, y]) = .okS [x / y] ∧
    t_deg_zero (envL ([] : List ℝ)) = .okS [(0 : ℝ)] ∧ t_rad_zero (envL ([] : List ℝ)) = .okS [(0 : ℝ)] :=
  ⟨Trace.C13Auto.t_deg_add x y, Trace.C13Auto.t_rad_add x y, Trace.C13Auto.t_deg_sub x y, Trace.C13Auto.t_rad_sub x y,
    Trace.C13Auto.t_deg_neg x, Trace.C13Auto.t_rad_neg x, Trace.C13Auto.t_deg_mul_s x s, Trace.C13Auto.t_rad_mul_s x s,
    Trace.C13Auto.t_deg_div_s x s, Trace.C13Auto.t_rad_div_s x s, Trace.C13Auto.t_deg_div_a x y, Trace.C13Auto.t_rad_div_a x y,
    Trace.C13Auto.t_deg_zero, Trace.C13Auto.t_rad_zero⟩

/-- `angle % angle` of `Deg` and of `Rad` as computed is the truncating remainder of the underlying numbers: `x - y * trunc (x / y)`,
smaller than the divisor in absolute value, with the sign of the dividend -/
theorem code_rem_real (x y : ℝ) :
    ∃ r : ℝ, t_deg_rem (envL [x, y]) = .okS [r] ∧ t_rad_rem (envL [x, y]) = .okS [r] ∧
      r = x - y * (truncF (x / y) : ℝ) ∧ (y ≠ 0 → |r| < |y|) ∧ (0 ≤ x → 0 ≤ r) ∧ (x ≤ 0 → r ≤ 0) :=
  ⟨FRem.frem x y, Trace.C13Auto.t_deg_rem x y, Trace.C13Auto.t_rad_rem x y, rfl, fremR_abs_lt x y, (fremR_sign x y).1,
    (fremR_sign x y).2⟩

/-- `Sum` of three `Deg` / `Rad` values, by value and by reference, as computed is the sum of the underlying numbers (the traces
have a fixed length: three items) -/
theorem code_sum_real (l1 l2 l3 : ℝ) :
    t_deg_sum_list (envL [l1, l2, l3]) = .okS [l1 + l2 + l3] ∧ t_deg_sum_list_ref (envL [l1, l2, l3]) = .okS [l1 + l2 + l3] ∧
    t_rad_sum_list (envL [l1, l2, l3]) = .okS [l1 + l2 + l3] ∧ t_rad_sum_list_ref (envL [l1, l2, l3]) = .okS [l1 + l2 + l3] := by
  have e : [l1, l2, l3].foldl (· + ·) (0 : ℝ) = l1 + l2 + l3 := by simp [List.foldl]
  have h1 := Trace.C13Auto.t_deg_sum_list l1 l2 l3
  have h2 := Trace.C13Auto.t_deg_sum_list_ref l1 l2 l3
  have h3 := Trace.C13Auto.t_rad_sum_list l1 l2 l3
  have h4 := Trace.C13Auto.t_rad_sum_list_ref l1 l2 l3
  rw [e] at h1 h2 h3 h4
  exact ⟨h1, h2, h3, h4⟩

/-! ## trigonometry -/

/-- the radian measure of `x` degrees, with the exact constant -/
theorem degToRad_real (x : ℝ) : degToRad x = x * (Real.pi / 180) := rfl
/-- the degree measure of `x` radians, with the exact constant -/
theorem radToDeg_real (x : ℝ) : radToDeg x = x * (180 / Real.pi) := rfl

/-- `sin`, `cos`, `tan`, `sin_cos` of both units as computed are the real functions of the radian measure (`x · π/180` for
`x` degrees); `sin_cos` returns the pair `(sin, cos)` -/
theorem code_trig_real (x : ℝ) :
    t_rad_sin (envL [x]) = .okS [Real.sin x] ∧ t_rad_cos (envL [x]) = .okS [Real.cos x] ∧
    t_rad_tan (envL [x]) = .okS [Real.tan x] ∧
    Cg.Gen.C06.t_rad_sin_cos (envL [x]) = .okS [Real.sin x, Real.cos x] ∧
    t_deg_sin (envL [x]) = .okS [Real.sin (x * (Real.pi / 180))] ∧ t_deg_cos (envL [x]) = .okS [Real.cos (x * (Real.pi / 180))] ∧
    t_deg_tan (envL [x]) = .okS [Real.tan (x * (Real.pi / 180))] ∧
    t_deg_sin_cos (envL [x]) = .okS [Real.sin (x * (Real.pi / 180)), Real.cos (x * (Real.pi / 180))] :=
  ⟨Trace.C13.t_rad_sin x, Trace.C13Auto.t_rad_cos x, Trace.C13Auto.t_rad_tan x, Trace.C06Auto.t_rad_sin_cos x,
    Trace.C13.t_deg_sin x, Trace.C13.t_deg_cos x, Trace.C13.t_deg_tan x, Trace.C13Auto.t_deg_sin_cos x⟩

/-- `csc`, `sec`, `cot` in radians as computed are the reciprocals of the real `sin`, `cos`, `tan`: multiplied by the function
they give `1` wherever it does not vanish (where it vanishes, `1 / 0 = 0` in Lean: trusted base); `cot = cos / sin` -/
theorem code_rad_recip_real (x : ℝ) :
    (∃ t : ℝ, t_rad_csc (envL [x]) = .okS [t] ∧ t = 1 / Real.sin x ∧ (Real.sin x ≠ 0 → t * Real.sin x = 1)) ∧
    (∃ t : ℝ, t_rad_sec (envL [x]) = .okS [t] ∧ t = 1 / Real.cos x ∧ (Real.cos x ≠ 0 → t * Real.cos x = 1)) ∧
    (∃ t : ℝ, t_rad_cot (envL [x]) = .okS [t] ∧ t = 1 / Real.tan x ∧ (Real.tan x ≠ 0 → t * Real.tan x = 1) ∧
      t = Real.cos x / Real.sin x) :=
  ⟨⟨_, Trace.C13Auto.t_rad_csc x, rfl, fun h => one_div_mul_cancel h⟩,
   ⟨_, Trace.C13Auto.t_rad_sec x, rfl, fun h => one_div_mul_cancel h⟩,
   ⟨_, Trace.C13Auto.t_rad_cot x, rfl, fun h => one_div_mul_cancel h, by
      show 1 / Real.tan x = _
      rw [Real.tan_eq_sin_div_cos, one_div_div]⟩⟩

/-- `csc`, `sec`, `cot` in degrees as computed are the reciprocals of the real `sin`, `cos`, `tan` of the radian measure -/
theorem code_deg_recip_real (x : ℝ) :
    (∃ t : ℝ, t_deg_csc (envL [x]) = .okS [t] ∧ t = 1 / Real.sin (x * (Real.pi / 180)) ∧
      (Real.sin (x * (Real.pi / 180)) ≠ 0 → t * Real.sin (x * (Real.pi / 180)) = 1)) ∧
    (∃ t : ℝ, t_deg_sec (envL [x]) = .okS [t] ∧ t = 1 / Real.cos (x * (Real.pi / 180)) ∧
      (Real.cos (x * (Real.pi / 180)) ≠ 0 → t * Real.cos (x * (Real.pi / 180)) = 1)) ∧
    (∃ t : ℝ, t_deg_cot (envL [x]) = .okS [t] ∧ t = 1 / Real.tan (x * (Real.pi / 180)) ∧
      (Real.tan (x * (Real.pi / 180)) ≠ 0 → t * Real.tan (x * (Real.pi / 180)) = 1) ∧
      t = Real.cos (x * (Real.pi / 180)) / Real.sin (x * (Real.pi / 180))) :=
  ⟨⟨_, Trace.C13Auto.t_deg_csc x, rfl, fun h => one_div_mul_cancel h⟩,
   ⟨_, Trace.C13Auto.t_deg_sec x, rfl, fun h => one_div_mul_cancel h⟩,
   ⟨_, Trace.C13Auto.t_deg_cot x, rfl, fun h => one_div_mul_cancel h, by
      show 1 / Real.tan (x * (Real.pi / 180)) = _
      rw [Real.tan_eq_sin_div_cos, one_div_div]⟩⟩

/-- the reciprocal clauses are not vacuous: `sin`, `cos`, `tan` do not vanish at `π/4` rad = `45°` -/
example : Real.sin (Real.pi / 4) ≠ 0 ∧ Real.cos (Real.pi / 4) ≠ 0 ∧ Real.tan (Real.pi / 4) ≠ 0 ∧
    (45 : ℝ) * (Real.pi / 180) = Real.pi / 4 := by
  refine ⟨?_, ?_, ?_, by ring⟩
  · rw [Real.sin_pi_div_four]; positivity
  · rw [Real.cos_pi_div_four]; positivity
  · rw [Real.tan_pi_div_four]; norm_num

/-! ## `turn_div_k() * k = full_turn()`, every traced `(unit, k)` -/

/-- all seven traced `turn_div_k` kernels (`Deg`: 2, 3, 4, 6; `Rad`: 2, 3, 6; `Rad::turn_div_4` is not traced): the output times
`k` is the full turn (`360` resp. `2π`, the outputs of the `full_turn` kernels) -/
theorem code_turn_div_real :
    t_deg_full_turn (envL ([] : List ℝ)) = .okS [(360 : ℝ)] ∧ t_rad_full_turn (envL ([] : List ℝ)) = .okS [2 * Real.pi] ∧
    (∃ t : ℝ, t_deg_turn_div_2 (envL ([] : List ℝ)) = .okS [t] ∧ t * 2 = 360 ∧ t = 180) ∧
    (∃ t : ℝ, t_deg_turn_div_3 (envL ([] : List ℝ)) = .okS [t] ∧ t * 3 = 360 ∧ t = 120) ∧
    (∃ t : ℝ, t_deg_turn_div_4 (envL ([] : List ℝ)) = .okS [t] ∧ t * 4 = 360 ∧ t = 90) ∧
    (∃ t : ℝ, t_deg_turn_div_6 (envL ([] : List ℝ)) = .okS [t] ∧ t * 6 = 360 ∧ t = 60) ∧
    (∃ t : ℝ, t_rad_turn_div_2 (envL ([] : List ℝ)) = .okS [t] ∧ t * 2 = 2 * Real.pi ∧ t = Real.pi) ∧
    (∃ t : ℝ, t_rad_turn_div_3 (envL ([] : List ℝ)) = .okS [t] ∧ t * 3 = 2 * Real.pi ∧ t = 2 * Real.pi / 3) ∧
    (∃ t : ℝ, t_rad_turn_div_6 (envL ([] : List ℝ)) = .okS [t] ∧ t * 6 = 2 * Real.pi ∧ t = Real.pi / 3) := by
  have hd : (degFull : ℝ) = 360 := C13.degFull_real
  have hr : (Lits.radFull : ℝ) = 2 * Real.pi := rfl
  refine ⟨by rw [Trace.C13Auto.t_deg_full_turn, hd], by rw [Trace.C13Auto.t_rad_full_turn, hr],
    ⟨_, Trace.C13Auto.t_deg_turn_div_2, ?_, ?_⟩, ⟨_, Trace.C13.t_deg_turn_div_3, ?_, ?_⟩,
    ⟨_, Trace.C13Auto.t_deg_turn_div_4, ?_, ?_⟩, ⟨_, Trace.C13Auto.t_deg_turn_div_6, ?_, ?_⟩,
    ⟨_, Trace.C13Auto.t_rad_turn_div_2, ?_, ?_⟩, ⟨_, Trace.C13Auto.t_rad_turn_div_3, ?_, ?_⟩,
    ⟨_, Trace.C13.t_rad_turn_div_6, ?_, ?_⟩⟩ <;>
  simp only [Angle.turnDiv, hd, hr] <;> norm_num <;> ring

/-! ## inverse trigonometric functions, both units -/

/-- `asin`, `acos`, `atan`, `atan2` as computed: in radians the real principal values (`atan2 y x = arg (x + iy)`), in degrees
these values times `180/π` -/
theorem code_inverse_trig_real (x y : ℝ) :
    t_rad_asin (envL [x]) = .okS [Real.arcsin x] ∧ t_rad_acos (envL [x]) = .okS [Real.arccos x] ∧
    t_rad_atan (envL [x]) = .okS [Real.arctan x] ∧ t_rad_atan2 (envL [y, x]) = .okS [Complex.arg ⟨x, y⟩] ∧
    t_deg_asin (envL [x]) = .okS [Real.arcsin x * (180 / Real.pi)] ∧ t_deg_acos (envL [x]) = .okS [Real.arccos x * (180 / Real.pi)] ∧
    t_deg_atan (envL [x]) = .okS [Real.arctan x * (180 / Real.pi)] ∧
    t_deg_atan2 (envL [y, x]) = .okS [Complex.arg ⟨x, y⟩ * (180 / Real.pi)] :=
  ⟨Trace.C13Auto.t_rad_asin x, Trace.C13.t_rad_acos x, Trace.C13Auto.t_rad_atan x, Trace.C13Auto.t_rad_atan2 y x,
    Trace.C13.t_deg_asin x, Trace.C13.t_deg_acos x, Trace.C13.t_deg_atan x, Trace.C13.t_deg_atan2 y x⟩

/-- the results are the PRINCIPAL inverses, kernel against kernel, in radians: the output `r` of `asin` / `acos` / `atan` lies in
the principal range and the `sin` / `cos` / `tan` kernel run on `r` returns `x` (for `asin`, `acos`: `x ∈ [-1, 1]`) -/
theorem code_rad_inverse_principal (x : ℝ) :
    (∃ r : ℝ, t_rad_asin (envL [x]) = .okS [r] ∧ -(Real.pi / 2) ≤ r ∧ r ≤ Real.pi / 2 ∧
      (-1 ≤ x → x ≤ 1 → t_rad_sin (envL [r]) = .okS [x])) ∧
    (∃ r : ℝ, t_rad_acos (envL [x]) = .okS [r] ∧ 0 ≤ r ∧ r ≤ Real.pi ∧
      (-1 ≤ x → x ≤ 1 → t_rad_cos (envL [r]) = .okS [x])) ∧
    (∃ r : ℝ, t_rad_atan (envL [x]) = .okS [r] ∧ -(Real.pi / 2) < r ∧ r < Real.pi / 2 ∧ t_rad_tan (envL [r]) = .okS [x]) := by
  obtain ⟨h1, h2, h3, -⟩ := code_inverse_trig_real x 0
  refine ⟨⟨_, h1, Real.neg_pi_div_two_le_arcsin x, Real.arcsin_le_pi_div_two x, fun a b => ?_⟩,
    ⟨_, h2, Real.arccos_nonneg x, Real.arccos_le_pi x, fun a b => ?_⟩,
    ⟨_, h3, Real.neg_pi_div_two_lt_arctan x, Real.arctan_lt_pi_div_two x, ?_⟩⟩
  · rw [(code_trig_real _).1, Real.sin_arcsin a b]
  · rw [(code_trig_real _).2.1, Real.cos_arccos a b]
  · rw [(code_trig_real _).2.2.1, Real.tan_arctan]

/-- the same in degrees: the output `d` of `Deg::asin` / `acos` / `atan` lies in `[-90, 90]` / `[0, 180]` / `(-90, 90)` and the
`Deg` `sin` / `cos` / `tan` kernel run on `d` returns `x` -/
theorem code_deg_inverse_principal (x : ℝ) :
    (∃ d : ℝ, t_deg_asin (envL [x]) = .okS [d] ∧ -90 ≤ d ∧ d ≤ 90 ∧ (-1 ≤ x → x ≤ 1 → t_deg_sin (envL [d]) = .okS [x])) ∧
    (∃ d : ℝ, t_deg_acos (envL [x]) = .okS [d] ∧ 0 ≤ d ∧ d ≤ 180 ∧ (-1 ≤ x → x ≤ 1 → t_deg_cos (envL [d]) = .okS [x])) ∧
    (∃ d : ℝ, t_deg_atan (envL [x]) = .okS [d] ∧ -90 < d ∧ d < 90 ∧ t_deg_tan (envL [d]) = .okS [x]) := by
  obtain ⟨-, -, -, -, h1, h2, h3, -⟩ := code_inverse_trig_real x 0
  have hpi := Real.pi_pos
  have back : ∀ r : ℝ, r * (180 / Real.pi) * (Real.pi / 180) = r := fun r => by field_simp
  have sc : ∀ r lo : ℝ, lo * Real.pi ≤ r → lo * 180 ≤ r * (180 / Real.pi) := fun r lo h => by
    rw [← mul_div_assoc, le_div_iff₀ hpi]; nlinarith
  have sc' : ∀ r hi : ℝ, r ≤ hi * Real.pi → r * (180 / Real.pi) ≤ hi * 180 := fun r hi h => by
    rw [← mul_div_assoc, div_le_iff₀ hpi]; nlinarith
  have sl : ∀ r lo : ℝ, lo * Real.pi < r → lo * 180 < r * (180 / Real.pi) := fun r lo h => by
    rw [← mul_div_assoc, lt_div_iff₀ hpi]; nlinarith
  have sl' : ∀ r hi : ℝ, r < hi * Real.pi → r * (180 / Real.pi) < hi * 180 := fun r hi h => by
    rw [← mul_div_assoc, div_lt_iff₀ hpi]; nlinarith
  refine ⟨⟨_, h1, ?_, ?_, fun a b => ?_⟩, ⟨_, h2, ?_, ?_, fun a b => ?_⟩, ⟨_, h3, ?_, ?_, ?_⟩⟩
  · have := sc (Real.arcsin x) (-(1 / 2)) (by linarith [Real.neg_pi_div_two_le_arcsin x]); linarith
  · have := sc' (Real.arcsin x) (1 / 2) (by linarith [Real.arcsin_le_pi_div_two x]); linarith
  · rw [(code_trig_real _).2.2.2.2.1, back, Real.sin_arcsin a b]
  · have := sc (Real.arccos x) 0 (by linarith [Real.arccos_nonneg x]); linarith
  · have := sc' (Real.arccos x) 1 (by linarith [Real.arccos_le_pi x]); linarith
  · rw [(code_trig_real _).2.2.2.2.2.1, back, Real.cos_arccos a b]
  · have := sl (Real.arctan x) (-(1 / 2)) (by linarith [Real.neg_pi_div_two_lt_arctan x]); linarith
  · have := sl' (Real.arctan x) (1 / 2) (by linarith [Real.arctan_lt_pi_div_two x]); linarith
  · rw [(code_trig_real _).2.2.2.2.2.2.1, back, Real.tan_arctan]

/-- `atan2(y, x)` as computed, both units, for `(x, y) ≠ (0, 0)`: the output is the polar angle of `(x, y)` (the `sin_cos` kernel
run on it returns the direction `(y, x) / √(x² + y²)`), in `(-π, π]` resp. `(-180, 180]` -/
theorem code_atan2_principal (y x : ℝ) (h : x ≠ 0 ∨ y ≠ 0) :
    (∃ r : ℝ, t_rad_atan2 (envL [y, x]) = .okS [r] ∧ -Real.pi < r ∧ r ≤ Real.pi ∧
      ∃ s c : ℝ, Cg.Gen.C06.t_rad_sin_cos (envL [r]) = .okS [s, c] ∧
        Real.sqrt (x * x + y * y) * c = x ∧ Real.sqrt (x * x + y * y) * s = y) ∧
    (∃ d : ℝ, t_deg_atan2 (envL [y, x]) = .okS [d] ∧ -180 < d ∧ d ≤ 180 ∧
      ∃ s c : ℝ, t_deg_sin_cos (envL [d]) = .okS [s, c] ∧
        Real.sqrt (x * x + y * y) * c = x ∧ Real.sqrt (x * x + y * y) * s = y) := by
  obtain ⟨-, -, -, h1, -, -, -, h2⟩ := code_inverse_trig_real x y
  obtain ⟨pc, ps, lo, hi⟩ := atan2_spec y x h
  have hpi := Real.pi_pos
  have back : ∀ r : ℝ, r * (180 / Real.pi) * (Real.pi / 180) = r := fun r => by field_simp
  refine ⟨⟨_, h1, lo, hi, _, _, (code_trig_real _).2.2.2.1, pc, ps⟩, ⟨_, h2, ?_, ?_, _, _, (code_trig_real _).2.2.2.2.2.2.2, ?_, ?_⟩⟩
  · have : -1 * 180 < Complex.arg ⟨x, y⟩ * (180 / Real.pi) := by
      rw [← mul_div_assoc, lt_div_iff₀ hpi]; nlinarith
    linarith
  · have : Complex.arg ⟨x, y⟩ * (180 / Real.pi) ≤ 1 * 180 := by
      rw [← mul_div_assoc, div_le_iff₀ hpi]; nlinarith
    linarith
  · rw [back]; exact pc
  · rw [back]; exact ps

/-- the hypothesis of `code_atan2_principal` and the interval hypotheses of the inverse clauses are satisfiable -/
example : ((1 : ℝ) ≠ 0 ∨ (2 : ℝ) ≠ 0) ∧ (-1 : ℝ) ≤ 1 / 2 ∧ (1 / 2 : ℝ) ≤ 1 := by norm_num

end Cg.E2E.C13
