import Cgm.E2E.C05
import Cgm.Props.C05b
/-!
# C05 (continued), end to end: rotation matrix → quaternion → rotation matrix, stated about the regenerated kernels
-/
set_option linter.unusedSectionVars false
namespace Cg.E2E.C05
open Cg Cg.Gen.C05
section real
variable [FRem ℝ] [Lits ℝ]

/-- **reverse round trip about the kernels**: for a rotation matrix `R` (orthonormal columns, determinant `+1`), on
whichever of the code's paths the comparisons select, the list `From<Matrix3> for Quaternion` outputs is the flattening of a
unit quaternion `r` whose matrix is `R`, the component computed first on that path is strictly positive, and feeding that
very list to the traced `From<Quaternion> for Matrix3` returns the entries of `R` -/
theorem code_reverse_round_trip (R : M3 ℝ) (hR : R.transpose * R = M3.one) (hdet : R.det = 1) :
    ∃ r : Quat ℝ, r.magnitude2 = 1 ∧ r.toM3 = R ∧ 0 < R.toQuatBranch.pivot r ∧
      (0 ≤ R.trace → t_m3_to_quat_trace (envL R.toList) = .okG r.toList [.le 0 R.trace true]) ∧
      (¬ 0 ≤ R.trace → R.y.y < R.x.x → R.z.z < R.x.x → t_m3_to_quat_xx (envL R.toList) =
          .okG r.toList [.le 0 R.trace false, .lt R.y.y R.x.x true, .lt R.z.z R.x.x true]) ∧
      (¬ 0 ≤ R.trace → ¬ R.y.y < R.x.x → R.z.z < R.y.y → t_m3_to_quat_yy (envL R.toList) =
          .okG r.toList [.le 0 R.trace false, .lt R.y.y R.x.x false, .lt R.z.z R.y.y true]) ∧
      (¬ 0 ≤ R.trace → ¬ R.y.y < R.x.x → ¬ R.z.z < R.y.y → t_m3_to_quat_zz (envL R.toList) =
          .okG r.toList [.le 0 R.trace false, .lt R.y.y R.x.x false, .lt R.z.z R.y.y false]) ∧
      (¬ 0 ≤ R.trace → R.y.y < R.x.x → ¬ R.z.z < R.x.x → ¬ R.z.z < R.y.y → t_m3_to_quat_zz2 (envL R.toList) =
          .okG r.toList [.le 0 R.trace false, .lt R.y.y R.x.x true, .lt R.z.z R.x.x false, .lt R.z.z R.y.y false]) ∧
      t_q_to_m3 (envL r.toList) = .okS R.toList := by
  obtain ⟨hu, hm, hp⟩ := C05.toM3_toQuat_pivot R hR hdet
  refine ⟨R.toQuat, hu, hm, hp, fun h => Trace.C05.t_m3_to_quat_trace _ h, fun h h1 h2 => Trace.C05.t_m3_to_quat_xx _ h h1 h2,
    fun h h1 h2 => Trace.C05.t_m3_to_quat_yy _ h h1 h2, fun h h1 h2 => Trace.C05.t_m3_to_quat_zz _ h h1 h2,
    fun h h1 h2 h3 => Trace.C05.t_m3_to_quat_zz2 _ h h1 h2 h3, ?_⟩
  rw [Trace.C05.t_q_to_m3, hm]

/-- the five paths are exhaustive: for every matrix one of the five path conditions holds -/
theorem paths_exhaustive (R : M3 ℝ) :
    0 ≤ R.trace ∨ (¬ 0 ≤ R.trace ∧ R.y.y < R.x.x ∧ R.z.z < R.x.x) ∨ (¬ 0 ≤ R.trace ∧ ¬ R.y.y < R.x.x ∧ R.z.z < R.y.y) ∨
      (¬ 0 ≤ R.trace ∧ ¬ R.y.y < R.x.x ∧ ¬ R.z.z < R.y.y) ∨
      (¬ 0 ≤ R.trace ∧ R.y.y < R.x.x ∧ ¬ R.z.z < R.x.x ∧ ¬ R.z.z < R.y.y) := by
  by_cases h : 0 ≤ R.trace
  · exact Or.inl h
  by_cases h1 : R.y.y < R.x.x
  · by_cases h2 : R.z.z < R.x.x
    · exact Or.inr (Or.inl ⟨h, h1, h2⟩)
    · refine Or.inr (Or.inr (Or.inr (Or.inr ⟨h, h1, h2, ?_⟩)))
      exact not_lt.mpr (le_trans h1.le (not_lt.mp h2))
  · by_cases h2 : R.z.z < R.y.y
    · exact Or.inr (Or.inr (Or.inl ⟨h, h1, h2⟩))
    · exact Or.inr (Or.inr (Or.inr (Or.inl ⟨h, h1, h2⟩)))

/-- **code(quat(code(matrix R))) = R**, phrased on the raw outputs: whichever kernel `k` of the five and whatever its
path condition, IF its traced run on `R` is `okG l g` for the path taken THEN the traced quaternion→matrix conversion of the
output list `l` is `R`; here for the non-negative-trace path and, uniformly, for any path (the output list is that of
`R.toQuat` on each) -/
theorem code_matrix_quat_matrix (R : M3 ℝ) (hR : R.transpose * R = M3.one) (hdet : R.det = 1) :
    (0 ≤ R.trace → t_q_to_m3 (envL (t_m3_to_quat_trace (envL R.toList)).out) = .okS R.toList) ∧
    (¬ 0 ≤ R.trace → R.y.y < R.x.x → R.z.z < R.x.x → t_q_to_m3 (envL (t_m3_to_quat_xx (envL R.toList)).out) = .okS R.toList) ∧
    (¬ 0 ≤ R.trace → ¬ R.y.y < R.x.x → R.z.z < R.y.y → t_q_to_m3 (envL (t_m3_to_quat_yy (envL R.toList)).out) = .okS R.toList) ∧
    (¬ 0 ≤ R.trace → ¬ R.y.y < R.x.x → ¬ R.z.z < R.y.y →
      t_q_to_m3 (envL (t_m3_to_quat_zz (envL R.toList)).out) = .okS R.toList) ∧
    (¬ 0 ≤ R.trace → R.y.y < R.x.x → ¬ R.z.z < R.x.x → ¬ R.z.z < R.y.y →
      t_q_to_m3 (envL (t_m3_to_quat_zz2 (envL R.toList)).out) = .okS R.toList) := by
  obtain ⟨r, -, -, -, p1, p2, p3, p4, p5, hb⟩ := code_reverse_round_trip R hR hdet
  refine ⟨fun h => ?_, fun h h1 h2 => ?_, fun h h1 h2 => ?_, fun h h1 h2 => ?_, fun h h1 h2 h3 => ?_⟩
  · rw [p1 h]; exact hb
  · rw [p2 h h1 h2]; exact hb
  · rw [p3 h h1 h2]; exact hb
  · rw [p4 h h1 h2]; exact hb
  · rw [p5 h h1 h2 h3]; exact hb

/-- the hypotheses are satisfiable (the identity, on the non-negative-trace path; a half turn about `x`, on the `xx` path) -/
example : (M3.one : M3 ℝ).transpose * M3.one = M3.one ∧ (M3.one : M3 ℝ).det = 1 ∧ 0 ≤ (M3.one : M3 ℝ).trace := by
  refine ⟨?_, ?_, ?_⟩
  · ext <;> simp [M3.one, M3.fromValue, M3.new, M3.transpose]
  · simp [M3.one, M3.fromValue, M3.new]
  · norm_num [M3.one, M3.fromValue, M3.new, M3.trace, M3.diagonal, V3.sum]
example : (M3.new 1 0 0 0 (-1) 0 0 0 (-1) : M3 ℝ).transpose * M3.new 1 0 0 0 (-1) 0 0 0 (-1) = M3.one ∧
    (M3.new 1 0 0 0 (-1) 0 0 0 (-1) : M3 ℝ).det = 1 ∧ ¬ 0 ≤ (M3.new 1 0 0 0 (-1) 0 0 0 (-1) : M3 ℝ).trace := by
  refine ⟨?_, ?_, ?_⟩
  · ext <;> simp [M3.one, M3.fromValue, M3.new, M3.transpose]
  · simp [M3.new]
  · norm_num [M3.new, M3.trace, M3.diagonal, V3.sum]

/-- with the sign rule: for a unit `q`, on the non-negative-trace path the traced output of matrix→quaternion applied to the
traced matrix of `q` is `q` itself when `0 ≤ w` and `-q` otherwise -/
theorem code_round_trip_sign (q : Quat ℝ) (hq : q.magnitude2 = 1) (ht : 0 ≤ q.toM3.trace) :
    t_m3_to_quat_trace (envL (t_q_to_m3 (envL q.toList)).out) =
      .okG (if 0 ≤ q.s then q else -q).toList [.le 0 q.toM3.trace true] := by
  rw [Trace.C05.t_q_to_m3]
  show t_m3_to_quat_trace (envL q.toM3.toList) = _
  rw [Trace.C05.t_m3_to_quat_trace _ ht, C05.toQuat_toM3_trace q hq ht]
end real
end Cg.E2E.C05
