import Cgm.Trace.C01
import Cgm.Props.C01
/-!
# C01, end to end: clauses of the property stated about the definitions regenerated from the source
(see `Cgm/E2E/C02.lean` for how these are obtained)
-/
set_option linter.unusedSectionVars false
namespace Cg.E2E.C01
open Cg Cg.Gen.C01 Matrix
variable {K : Type} [Field K] [Transc K] [FRem K] [Lits K]

/-- the product the code computes is the matrix product of Mathlib's matrices with the same (column c, row r) entries,
and its column c is `A * (column c of B)` -/
theorem code_m4_mul (a b : M4 K) :
    ∃ p : M4 K, t_m4_mul (envL (a.toList ++ b.toList)) = .okS p.toList ∧ p.toMatrix = a.toMatrix * b.toMatrix ∧
      p.x = a * b.x ∧ p.y = a * b.y ∧ p.z = a * b.z ∧ p.w = a * b.w :=
  ⟨a * b, Trace.C01.t_m4_mul a b, (C01.M4.bridge a b b.x).1, C01.M4.mul_col a b⟩
theorem code_m3_mul (a b : M3 K) :
    ∃ p : M3 K, t_m3_mul (envL (a.toList ++ b.toList)) = .okS p.toList ∧ p.toMatrix = a.toMatrix * b.toMatrix ∧
      p.x = a * b.x ∧ p.y = a * b.y ∧ p.z = a * b.z :=
  ⟨a * b, Trace.C01.t_m3_mul a b, (C01.M3.bridge a b b.x).1, C01.M3.mul_col a b⟩
theorem code_m2_mul (a b : M2 K) :
    ∃ p : M2 K, t_m2_mul (envL (a.toList ++ b.toList)) = .okS p.toList ∧ p.toMatrix = a.toMatrix * b.toMatrix ∧
      p.x = a * b.x ∧ p.y = a * b.y :=
  ⟨a * b, Trace.C01.t_m2_mul a b, (C01.M2.bridge a b b.x).1, C01.M2.mul_col a b⟩

/-- `A * v` as computed is the sum over c of column c scaled by `v[c]` (and Mathlib's `mulVec`) -/
theorem code_m4_mul_v (a : M4 K) (v : V4 K) :
    ∃ w : V4 K, t_m4_mul_v (envL (a.toList ++ v.toList)) = .okS w.toList ∧
      w = a.x * v.x + a.y * v.y + a.z * v.z + a.w * v.w ∧ w.toFun = a.toMatrix *ᵥ v.toFun :=
  ⟨a * v, Trace.C01.t_m4_mul_v a v, C01.M4.mulVec_eq_sum_cols a v, (C01.M4.bridge a a v).2⟩
theorem code_m3_mul_v (a : M3 K) (v : V3 K) :
    ∃ w : V3 K, t_m3_mul_v (envL (a.toList ++ v.toList)) = .okS w.toList ∧
      w = a.x * v.x + a.y * v.y + a.z * v.z ∧ w.toFun = a.toMatrix *ᵥ v.toFun :=
  ⟨a * v, Trace.C01.t_m3_mul_v a v, C01.M3.mulVec_eq_sum_cols a v, (C01.M3.bridge a a v).2⟩

/-- the constructors as computed: scaling and translation matrices act on points and vectors as scaling by the
given factors and displacement by the given offset; vectors are not displaced (for the non-uniform scale only the action on
points is stated here, not `mn.transformVector`) -/
theorem code_m4_constructors (s x y z : K) (t : V3 K) (p : P3 K) (v : V3 K) :
    ∃ ms mn mt : M4 K,
      t_m4_from_scale (envL [s]) = .okS ms.toList ∧ t_m4_from_nonuniform_scale (envL [x, y, z]) = .okS mn.toList ∧
      t_m4_from_translation (envL t.toList) = .okS mt.toList ∧
      ms.transformPoint p = p * s ∧ ms.transformVector v = v * s ∧ mn.transformPoint p = P3.mulEw ⟨x, y, z⟩ p ∧
      mt.transformPoint p = p + t ∧ mt.transformVector v = v := by
  have h := C01.M4.scale_translation s x y z t p v
  exact ⟨_, _, _, Trace.C01.t_m4_from_scale s, Trace.C01.t_m4_from_nonuniform_scale x y z, Trace.C01.t_m4_from_translation t,
    h.1, h.2.1, h.2.2.1, h.2.2.2.2.1, h.2.2.2.2.2⟩

/-- `transform_vector` of a 4x4 matrix as computed (points: `E2E/C08.lean`): the vector action is linear and ignores the
translation column -/
theorem code_m4_transform_vector_linear (m : M4 K) (u v : V3 K) (s : K) :
    ∃ f : V3 K → V3 K, (∀ w, t_m4_transform_vector (envL (m.toList ++ w.toList)) = .okS (f w).toList) ∧
      f (u + v) = f u + f v ∧ f (u * s) = f u * s := by
  have h := C01.M4.transformVector_linear m u v s
  exact ⟨m.transformVector, fun w => Trace.C01.t_m4_transform_vector m w, h.1, h.2⟩

/-- the embedding of a smaller matrix into a larger one, as computed, reads and writes exactly those elements -/
theorem code_embeddings (a : M2 K) (b : M3 K) :
    t_m2_to_m3 (envL a.toList) = .okS a.toM3.toList ∧ t_m2_to_m4 (envL a.toList) = .okS a.toM4.toList ∧
    t_m3_to_m4 (envL b.toList) = .okS b.toM4.toList :=
  ⟨Trace.C01.t_m2_to_m3 a, Trace.C01.t_m2_to_m4 a, Trace.C01.t_m3_to_m4 b⟩
end Cg.E2E.C01
