import Cgm.E2E.C03
/-!
# C03 (completion), end to end: the component-wise operators, `sum` / `product`, `dot` and `magnitude2` for `Vector1`,
`Vector2`, `Vector3` (`Cgm/E2E/C03.lean` has dimension 4), the element-wise family (vector and scalar forms, including `%`) in
every dimension, `zero()` / `from_value`, and the vector-space laws (right distributivity etc.) with every operation the traced
one -- a macro arm that drops or repeats one field for one dimension would contradict the explicit output lists
-/
set_option linter.unusedSectionVars false
namespace Cg.E2E.C03
open Cg Cg.Gen.C03
variable {K : Type} [Field K] [Transc K] [FRem K] [Lits K]

/-- the operators of `Vector1` as computed act component by component; `sum` / `product` fold every component -/
theorem code_v1_componentwise (u v : V1 K) (s : K) :
    t_v1_add (envL (u.toList ++ v.toList)) = .okS [u.x + v.x] ∧
    t_v1_sub (envL (u.toList ++ v.toList)) = .okS [u.x - v.x] ∧
    t_v1_neg (envL u.toList) = .okS [-u.x] ∧
    t_v1_mul (envL (u.toList ++ [s])) = .okS [u.x * s] ∧
    t_v1_div (envL (u.toList ++ [s])) = .okS [u.x / s] ∧
    t_v1_rem (envL (u.toList ++ [s])) = .okS [FRem.frem u.x s] ∧
    t_v1_sum (envL u.toList) = .okS [u.x] ∧ t_v1_product (envL u.toList) = .okS [u.x] := by
  refine ⟨?_, ?_, ?_, ?_, ?_, ?_, ?_, ?_⟩
  · rw [Trace.C03Auto.t_v1_add]; rfl
  · rw [Trace.C03Auto.t_v1_sub]; rfl
  · rw [Trace.C03Auto.t_v1_neg]; rfl
  · rw [Trace.C03Auto.t_v1_mul]; rfl
  · rw [Trace.C03Auto.t_v1_div]; rfl
  · rw [Trace.C03Auto.t_v1_rem]; rfl
  · rw [Trace.C03Auto.t_v1_sum, (C03.V1.sum_eq u).1]
  · rw [Trace.C03Auto.t_v1_product]; rfl

/-- the operators of `Vector2` as computed act component by component; `sum` / `product` fold every component -/
theorem code_v2_componentwise (u v : V2 K) (s : K) :
    t_v2_add (envL (u.toList ++ v.toList)) = .okS [u.x + v.x, u.y + v.y] ∧
    t_v2_sub (envL (u.toList ++ v.toList)) = .okS [u.x - v.x, u.y - v.y] ∧
    t_v2_neg (envL u.toList) = .okS [-u.x, -u.y] ∧
    t_v2_mul (envL (u.toList ++ [s])) = .okS [u.x * s, u.y * s] ∧
    t_v2_div (envL (u.toList ++ [s])) = .okS [u.x / s, u.y / s] ∧
    t_v2_rem (envL (u.toList ++ [s])) = .okS [FRem.frem u.x s, FRem.frem u.y s] ∧
    t_v2_sum (envL u.toList) = .okS [u.x + u.y] ∧ t_v2_product (envL u.toList) = .okS [u.x * u.y] := by
  refine ⟨?_, ?_, ?_, ?_, ?_, ?_, ?_, ?_⟩
  · rw [Trace.C03Auto.t_v2_add]; rfl
  · rw [Trace.C03Auto.t_v2_sub]; rfl
  · rw [Trace.C03Auto.t_v2_neg]; rfl
  · rw [Trace.C03Auto.t_v2_mul]; rfl
  · rw [Trace.C03.t_v2_div]
  · rw [Trace.C03Auto.t_v2_rem]; rfl
  · rw [Trace.C03Auto.t_v2_sum, (C03.V2.sum_eq u).1]
  · rw [Trace.C03Auto.t_v2_product, (C03.V2.sum_eq u).2]

/-- the operators of `Vector3` as computed act component by component; `sum` / `product` fold every component -/
theorem code_v3_componentwise (u v : V3 K) (s : K) :
    t_v3_add (envL (u.toList ++ v.toList)) = .okS [u.x + v.x, u.y + v.y, u.z + v.z] ∧
    t_v3_sub (envL (u.toList ++ v.toList)) = .okS [u.x - v.x, u.y - v.y, u.z - v.z] ∧
    t_v3_neg (envL u.toList) = .okS [-u.x, -u.y, -u.z] ∧
    t_v3_mul (envL (u.toList ++ [s])) = .okS [u.x * s, u.y * s, u.z * s] ∧
    t_v3_div (envL (u.toList ++ [s])) = .okS [u.x / s, u.y / s, u.z / s] ∧
    t_v3_rem (envL (u.toList ++ [s])) = .okS [FRem.frem u.x s, FRem.frem u.y s, FRem.frem u.z s] ∧
    t_v3_sum (envL u.toList) = .okS [u.x + u.y + u.z] ∧ t_v3_product (envL u.toList) = .okS [u.x * u.y * u.z] := by
  refine ⟨?_, ?_, ?_, ?_, ?_, ?_, ?_, ?_⟩
  · rw [Trace.C03.t_v3_add]; rfl
  · rw [Trace.C03.t_v3_sub]; rfl
  · rw [Trace.C03.t_v3_neg]; rfl
  · rw [Trace.C03.t_v3_mul]; rfl
  · rw [Trace.C03.t_v3_div]
  · rw [Trace.C03Auto.t_v3_rem]; rfl
  · rw [Trace.C03Auto.t_v3_sum, (C03.V3.sum_eq u).1]
  · rw [Trace.C03Auto.t_v3_product, (C03.V3.sum_eq u).2]

/-- the element-wise family of `Vector1` as computed (`add_element_wise` ... `rem_element_wise`, vector and scalar right-hand
sides): `zip` / `map` with the scalar operation, `%` included -/
theorem code_v1_elementwise (u v : V1 K) (s : K) :
    t_v1_add_ew (envL (u.toList ++ v.toList)) = .okS [u.x + v.x] ∧
    t_v1_sub_ew (envL (u.toList ++ v.toList)) = .okS [u.x - v.x] ∧
    t_v1_mul_ew (envL (u.toList ++ v.toList)) = .okS [u.x * v.x] ∧
    t_v1_div_ew (envL (u.toList ++ v.toList)) = .okS [u.x / v.x] ∧
    t_v1_rem_ew (envL (u.toList ++ v.toList)) = .okS [FRem.frem u.x v.x] ∧
    t_v1_add_ews (envL (u.toList ++ [s])) = .okS [u.x + s] ∧
    t_v1_sub_ews (envL (u.toList ++ [s])) = .okS [u.x - s] ∧
    t_v1_mul_ews (envL (u.toList ++ [s])) = .okS [u.x * s] ∧
    t_v1_div_ews (envL (u.toList ++ [s])) = .okS [u.x / s] ∧
    t_v1_rem_ews (envL (u.toList ++ [s])) = .okS [FRem.frem u.x s] ∧
    t_v1_zero (envL ([] : List K)) = .okS [0] ∧
    t_v1_from_value (envL [s]) = .okS [s] := by
  refine ⟨?_, ?_, ?_, ?_, ?_, ?_, ?_, ?_, ?_, ?_, ?_, ?_⟩
  · rw [Trace.C03Auto.t_v1_add_ew]; rfl
  · rw [Trace.C03Auto.t_v1_sub_ew]; rfl
  · rw [Trace.C03Auto.t_v1_mul_ew]; rfl
  · rw [Trace.C03Auto.t_v1_div_ew]; rfl
  · rw [Trace.C03Auto.t_v1_rem_ew]; rfl
  · rw [Trace.C03Auto.t_v1_add_ews]; rfl
  · rw [Trace.C03Auto.t_v1_sub_ews]; rfl
  · rw [Trace.C03Auto.t_v1_mul_ews]; rfl
  · rw [Trace.C03Auto.t_v1_div_ews]; rfl
  · rw [Trace.C03Auto.t_v1_rem_ews]; rfl
  · rw [Trace.C03Auto.t_v1_zero]; rfl
  · rw [Trace.C03Auto.t_v1_from_value]; rfl

/-- the element-wise family of `Vector2` as computed (`add_element_wise` ... `rem_element_wise`, vector and scalar right-hand
sides): `zip` / `map` with the scalar operation, `%` included -/
theorem code_v2_elementwise (u v : V2 K) (s : K) :
    t_v2_add_ew (envL (u.toList ++ v.toList)) = .okS [u.x + v.x, u.y + v.y] ∧
    t_v2_sub_ew (envL (u.toList ++ v.toList)) = .okS [u.x - v.x, u.y - v.y] ∧
    t_v2_mul_ew (envL (u.toList ++ v.toList)) = .okS [u.x * v.x, u.y * v.y] ∧
    t_v2_div_ew (envL (u.toList ++ v.toList)) = .okS [u.x / v.x, u.y / v.y] ∧
    t_v2_rem_ew (envL (u.toList ++ v.toList)) = .okS [FRem.frem u.x v.x, FRem.frem u.y v.y] ∧
    t_v2_add_ews (envL (u.toList ++ [s])) = .okS [u.x + s, u.y + s] ∧
    t_v2_sub_ews (envL (u.toList ++ [s])) = .okS [u.x - s, u.y - s] ∧
    t_v2_mul_ews (envL (u.toList ++ [s])) = .okS [u.x * s, u.y * s] ∧
    t_v2_div_ews (envL (u.toList ++ [s])) = .okS [u.x / s, u.y / s] ∧
    t_v2_rem_ews (envL (u.toList ++ [s])) = .okS [FRem.frem u.x s, FRem.frem u.y s] ∧
    t_v2_zero (envL ([] : List K)) = .okS [0, 0] ∧
    t_v2_from_value (envL [s]) = .okS [s, s] := by
  refine ⟨?_, ?_, ?_, ?_, ?_, ?_, ?_, ?_, ?_, ?_, ?_, ?_⟩
  · rw [Trace.C03Auto.t_v2_add_ew]; rfl
  · rw [Trace.C03Auto.t_v2_sub_ew]; rfl
  · rw [Trace.C03Auto.t_v2_mul_ew]; rfl
  · rw [Trace.C03Auto.t_v2_div_ew]; rfl
  · rw [Trace.C03Auto.t_v2_rem_ew]; rfl
  · rw [Trace.C03Auto.t_v2_add_ews]; rfl
  · rw [Trace.C03Auto.t_v2_sub_ews]; rfl
  · rw [Trace.C03Auto.t_v2_mul_ews]; rfl
  · rw [Trace.C03Auto.t_v2_div_ews]; rfl
  · rw [Trace.C03Auto.t_v2_rem_ews]; rfl
  · rw [Trace.C03Auto.t_v2_zero]; rfl
  · rw [Trace.C03Auto.t_v2_from_value]; rfl

/-- the element-wise family of `Vector3` as computed (`add_element_wise` ... `rem_element_wise`, vector and scalar right-hand
sides): `zip` / `map` with the scalar operation, `%` included -/
theorem code_v3_elementwise (u v : V3 K) (s : K) :
    t_v3_add_ew (envL (u.toList ++ v.toList)) = .okS [u.x + v.x, u.y + v.y, u.z + v.z] ∧
    t_v3_sub_ew (envL (u.toList ++ v.toList)) = .okS [u.x - v.x, u.y - v.y, u.z - v.z] ∧
    t_v3_mul_ew (envL (u.toList ++ v.toList)) = .okS [u.x * v.x, u.y * v.y, u.z * v.z] ∧
    t_v3_div_ew (envL (u.toList ++ v.toList)) = .okS [u.x / v.x, u.y / v.y, u.z / v.z] ∧
    t_v3_rem_ew (envL (u.toList ++ v.toList)) = .okS [FRem.frem u.x v.x, FRem.frem u.y v.y, FRem.frem u.z v.z] ∧
    t_v3_add_ews (envL (u.toList ++ [s])) = .okS [u.x + s, u.y + s, u.z + s] ∧
    t_v3_sub_ews (envL (u.toList ++ [s])) = .okS [u.x - s, u.y - s, u.z - s] ∧
    t_v3_mul_ews (envL (u.toList ++ [s])) = .okS [u.x * s, u.y * s, u.z * s] ∧
    t_v3_div_ews (envL (u.toList ++ [s])) = .okS [u.x / s, u.y / s, u.z / s] ∧
    t_v3_rem_ews (envL (u.toList ++ [s])) = .okS [FRem.frem u.x s, FRem.frem u.y s, FRem.frem u.z s] ∧
    t_v3_zero (envL ([] : List K)) = .okS [0, 0, 0] ∧
    t_v3_from_value (envL [s]) = .okS [s, s, s] := by
  refine ⟨?_, ?_, ?_, ?_, ?_, ?_, ?_, ?_, ?_, ?_, ?_, ?_⟩
  · rw [Trace.C03Auto.t_v3_add_ew]; rfl
  · rw [Trace.C03Auto.t_v3_sub_ew]; rfl
  · rw [Trace.C03.t_v3_mul_ew]; rfl
  · rw [Trace.C03Auto.t_v3_div_ew]; rfl
  · rw [Trace.C03Auto.t_v3_rem_ew]; rfl
  · rw [Trace.C03Auto.t_v3_add_ews]; rfl
  · rw [Trace.C03Auto.t_v3_sub_ews]; rfl
  · rw [Trace.C03Auto.t_v3_mul_ews]; rfl
  · rw [Trace.C03Auto.t_v3_div_ews]; rfl
  · rw [Trace.C03Auto.t_v3_rem_ews]; rfl
  · rw [Trace.C03Auto.t_v3_zero]; rfl
  · rw [Trace.C03Auto.t_v3_from_value]; rfl

/-- the element-wise family of `Vector4` as computed (`add_element_wise` ... `rem_element_wise`, vector and scalar right-hand
sides): `zip` / `map` with the scalar operation, `%` included -/
theorem code_v4_elementwise (u v : V4 K) (s : K) :
    t_v4_add_ew (envL (u.toList ++ v.toList)) = .okS [u.x + v.x, u.y + v.y, u.z + v.z, u.w + v.w] ∧
    t_v4_sub_ew (envL (u.toList ++ v.toList)) = .okS [u.x - v.x, u.y - v.y, u.z - v.z, u.w - v.w] ∧
    t_v4_mul_ew (envL (u.toList ++ v.toList)) = .okS [u.x * v.x, u.y * v.y, u.z * v.z, u.w * v.w] ∧
    t_v4_div_ew (envL (u.toList ++ v.toList)) = .okS [u.x / v.x, u.y / v.y, u.z / v.z, u.w / v.w] ∧
    t_v4_rem_ew (envL (u.toList ++ v.toList)) = .okS [FRem.frem u.x v.x, FRem.frem u.y v.y, FRem.frem u.z v.z, FRem.frem u.w v.w] ∧
    t_v4_add_ews (envL (u.toList ++ [s])) = .okS [u.x + s, u.y + s, u.z + s, u.w + s] ∧
    t_v4_sub_ews (envL (u.toList ++ [s])) = .okS [u.x - s, u.y - s, u.z - s, u.w - s] ∧
    t_v4_mul_ews (envL (u.toList ++ [s])) = .okS [u.x * s, u.y * s, u.z * s, u.w * s] ∧
    t_v4_div_ews (envL (u.toList ++ [s])) = .okS [u.x / s, u.y / s, u.z / s, u.w / s] ∧
    t_v4_rem_ews (envL (u.toList ++ [s])) = .okS [FRem.frem u.x s, FRem.frem u.y s, FRem.frem u.z s, FRem.frem u.w s] ∧
    t_v4_zero (envL ([] : List K)) = .okS [0, 0, 0, 0] ∧
    t_v4_from_value (envL [s]) = .okS [s, s, s, s] := by
  refine ⟨?_, ?_, ?_, ?_, ?_, ?_, ?_, ?_, ?_, ?_, ?_, ?_⟩
  · rw [Trace.C03Auto.t_v4_add_ew]; rfl
  · rw [Trace.C03Auto.t_v4_sub_ew]; rfl
  · rw [Trace.C03Auto.t_v4_mul_ew]; rfl
  · rw [Trace.C03Auto.t_v4_div_ew]; rfl
  · rw [Trace.C03Auto.t_v4_rem_ew]; rfl
  · rw [Trace.C03Auto.t_v4_add_ews]; rfl
  · rw [Trace.C03Auto.t_v4_sub_ews]; rfl
  · rw [Trace.C03Auto.t_v4_mul_ews]; rfl
  · rw [Trace.C03Auto.t_v4_div_ews]; rfl
  · rw [Trace.C03Auto.t_v4_rem_ews]; rfl
  · rw [Trace.C03Auto.t_v4_zero]; rfl
  · rw [Trace.C03Auto.t_v4_from_value]; rfl

/-- `dot` of `Vector1` as computed is the sum of the products of the components, symmetric and linear in each argument;
`magnitude2(v) = dot(v, v)` -/
theorem code_dot1_full (u v w : V1 K) (a : K) :
    ∃ d : V1 K → V1 K → K, (∀ x y, t_v1_dot (envL (x.toList ++ y.toList)) = .okS [d x y]) ∧
      (∀ x, t_v1_magnitude2 (envL x.toList) = .okS [d x x]) ∧
      d u v = u.x * v.x ∧
      d u v = d v u ∧ d (u + v) w = d u w + d v w ∧ d (u * a) w = a * d u w ∧
      d w (u + v) = d w u + d w v ∧ d w (u * a) = a * d w u :=
  ⟨V1.dot, fun x y => Trace.C03.t_v1_dot x y, fun x => Trace.C03Auto.t_v1_magnitude2 x, C03.V1.dot_eq u v,
    C03.V1.dot_comm u v, (C03.V1.dot_bilinear u v w a).1, (C03.V1.dot_bilinear u v w a).2.1,
    (C03.V1.dot_bilinear u v w a).2.2.1, (C03.V1.dot_bilinear u v w a).2.2.2⟩

/-- `dot` of `Vector2` as computed is the sum of the products of the components, symmetric and linear in each argument;
`magnitude2(v) = dot(v, v)` -/
theorem code_dot2_full (u v w : V2 K) (a : K) :
    ∃ d : V2 K → V2 K → K, (∀ x y, t_v2_dot (envL (x.toList ++ y.toList)) = .okS [d x y]) ∧
      (∀ x, t_v2_magnitude2 (envL x.toList) = .okS [d x x]) ∧
      d u v = u.x * v.x + u.y * v.y ∧
      d u v = d v u ∧ d (u + v) w = d u w + d v w ∧ d (u * a) w = a * d u w ∧
      d w (u + v) = d w u + d w v ∧ d w (u * a) = a * d w u :=
  ⟨V2.dot, fun x y => Trace.C03.t_v2_dot x y, fun x => Trace.C03Auto.t_v2_magnitude2 x, C03.V2.dot_eq u v,
    C03.V2.dot_comm u v, (C03.V2.dot_bilinear u v w a).1, (C03.V2.dot_bilinear u v w a).2.1,
    (C03.V2.dot_bilinear u v w a).2.2.1, (C03.V2.dot_bilinear u v w a).2.2.2⟩

/-- `dot` of `Vector3` as computed is the sum of the products of the components, symmetric and linear in each argument;
`magnitude2(v) = dot(v, v)` -/
theorem code_dot3_full (u v w : V3 K) (a : K) :
    ∃ d : V3 K → V3 K → K, (∀ x y, t_v3_dot (envL (x.toList ++ y.toList)) = .okS [d x y]) ∧
      (∀ x, t_v3_magnitude2 (envL x.toList) = .okS [d x x]) ∧
      d u v = u.x * v.x + u.y * v.y + u.z * v.z ∧
      d u v = d v u ∧ d (u + v) w = d u w + d v w ∧ d (u * a) w = a * d u w ∧
      d w (u + v) = d w u + d w v ∧ d w (u * a) = a * d w u :=
  ⟨V3.dot, fun x y => Trace.C03.t_v3_dot x y, fun x => Trace.C03Auto.t_v3_magnitude2 x, C03.V3.dot_eq u v,
    C03.V3.dot_comm u v, (C03.V3.dot_bilinear u v w a).1, (C03.V3.dot_bilinear u v w a).2.1,
    (C03.V3.dot_bilinear u v w a).2.2.1, (C03.V3.dot_bilinear u v w a).2.2.2⟩

/-- vector-space laws of `Vector1` with every operation the traced one: commutativity, `zero()` is the identity, `u + (-u)` is
`zero()`, `(u + v) * a = u * a + v * a` (right distributivity), `u * (a + b) = u * a + u * b`, `(u * a) * b = u * (a * b)` -/
theorem code_v1_space (u v : V1 K) (a b : K) :
    t_v1_add (envL (u.toList ++ v.toList)) = t_v1_add (envL (v.toList ++ u.toList)) ∧
    t_v1_add (envL (u.toList ++ (t_v1_zero (envL ([] : List K))).out)) = .okS u.toList ∧
    t_v1_add (envL (u.toList ++ (t_v1_neg (envL u.toList)).out)) = t_v1_zero (envL ([] : List K)) ∧
    t_v1_mul (envL ((t_v1_add (envL (u.toList ++ v.toList))).out ++ [a])) =
      t_v1_add (envL ((t_v1_mul (envL (u.toList ++ [a]))).out ++ (t_v1_mul (envL (v.toList ++ [a]))).out)) ∧
    t_v1_mul (envL (u.toList ++ [a + b])) =
      t_v1_add (envL ((t_v1_mul (envL (u.toList ++ [a]))).out ++ (t_v1_mul (envL (u.toList ++ [b]))).out)) ∧
    t_v1_mul (envL ((t_v1_mul (envL (u.toList ++ [a]))).out ++ [b])) = t_v1_mul (envL (u.toList ++ [a * b])) := by
  obtain ⟨m1, m2, m3, -⟩ := C03.V1.mul_add u v a b
  have hadd := fun x y : V1 K => Trace.C03Auto.t_v1_add x y
  have hmul := fun (x : V1 K) (s : K) => Trace.C03Auto.t_v1_mul x s
  have hz : t_v1_zero (envL ([] : List K)) = .okS (V1.zero : V1 K).toList := Trace.C03Auto.t_v1_zero
  have hn := Trace.C03Auto.t_v1_neg u
  refine ⟨?_, ?_, ?_, ?_, ?_, ?_⟩
  · rw [hadd, hadd, C03.V1.add_comm]
  · rw [hz]
    show t_v1_add (envL (u.toList ++ (V1.zero : V1 K).toList)) = _
    rw [hadd, (C03.V1.add_zero u).1]
  · rw [hn, hz]
    show t_v1_add (envL (u.toList ++ (-u).toList)) = _
    rw [hadd, C03.V1.add_neg]
  · rw [hadd u v, hmul u a, hmul v a]
    show t_v1_mul (envL ((u + v).toList ++ [a])) = t_v1_add (envL ((u * a).toList ++ (v * a).toList))
    rw [hmul, hadd, m1]
  · rw [hmul u a, hmul u b]
    show _ = t_v1_add (envL ((u * a).toList ++ (u * b).toList))
    rw [hmul, hadd, m2]
  · rw [hmul u a]
    show t_v1_mul (envL ((u * a).toList ++ [b])) = _
    rw [hmul, hmul, m3]

/-- vector-space laws of `Vector2` with every operation the traced one: commutativity, `zero()` is the identity, `u + (-u)` is
`zero()`, `(u + v) * a = u * a + v * a` (right distributivity), `u * (a + b) = u * a + u * b`, `(u * a) * b = u * (a * b)` -/
theorem code_v2_space (u v : V2 K) (a b : K) :
    t_v2_add (envL (u.toList ++ v.toList)) = t_v2_add (envL (v.toList ++ u.toList)) ∧
    t_v2_add (envL (u.toList ++ (t_v2_zero (envL ([] : List K))).out)) = .okS u.toList ∧
    t_v2_add (envL (u.toList ++ (t_v2_neg (envL u.toList)).out)) = t_v2_zero (envL ([] : List K)) ∧
    t_v2_mul (envL ((t_v2_add (envL (u.toList ++ v.toList))).out ++ [a])) =
      t_v2_add (envL ((t_v2_mul (envL (u.toList ++ [a]))).out ++ (t_v2_mul (envL (v.toList ++ [a]))).out)) ∧
    t_v2_mul (envL (u.toList ++ [a + b])) =
      t_v2_add (envL ((t_v2_mul (envL (u.toList ++ [a]))).out ++ (t_v2_mul (envL (u.toList ++ [b]))).out)) ∧
    t_v2_mul (envL ((t_v2_mul (envL (u.toList ++ [a]))).out ++ [b])) = t_v2_mul (envL (u.toList ++ [a * b])) := by
  obtain ⟨m1, m2, m3, -⟩ := C03.V2.mul_add u v a b
  have hadd := fun x y : V2 K => Trace.C03Auto.t_v2_add x y
  have hmul := fun (x : V2 K) (s : K) => Trace.C03Auto.t_v2_mul x s
  have hz : t_v2_zero (envL ([] : List K)) = .okS (V2.zero : V2 K).toList := Trace.C03Auto.t_v2_zero
  have hn := Trace.C03Auto.t_v2_neg u
  refine ⟨?_, ?_, ?_, ?_, ?_, ?_⟩
  · rw [hadd, hadd, C03.V2.add_comm]
  · rw [hz]
    show t_v2_add (envL (u.toList ++ (V2.zero : V2 K).toList)) = _
    rw [hadd, (C03.V2.add_zero u).1]
  · rw [hn, hz]
    show t_v2_add (envL (u.toList ++ (-u).toList)) = _
    rw [hadd, C03.V2.add_neg]
  · rw [hadd u v, hmul u a, hmul v a]
    show t_v2_mul (envL ((u + v).toList ++ [a])) = t_v2_add (envL ((u * a).toList ++ (v * a).toList))
    rw [hmul, hadd, m1]
  · rw [hmul u a, hmul u b]
    show _ = t_v2_add (envL ((u * a).toList ++ (u * b).toList))
    rw [hmul, hadd, m2]
  · rw [hmul u a]
    show t_v2_mul (envL ((u * a).toList ++ [b])) = _
    rw [hmul, hmul, m3]

/-- vector-space laws of `Vector3` with every operation the traced one: commutativity, `zero()` is the identity, `u + (-u)` is
`zero()`, `(u + v) * a = u * a + v * a` (right distributivity), `u * (a + b) = u * a + u * b`, `(u * a) * b = u * (a * b)` -/
theorem code_v3_space (u v : V3 K) (a b : K) :
    t_v3_add (envL (u.toList ++ v.toList)) = t_v3_add (envL (v.toList ++ u.toList)) ∧
    t_v3_add (envL (u.toList ++ (t_v3_zero (envL ([] : List K))).out)) = .okS u.toList ∧
    t_v3_add (envL (u.toList ++ (t_v3_neg (envL u.toList)).out)) = t_v3_zero (envL ([] : List K)) ∧
    t_v3_mul (envL ((t_v3_add (envL (u.toList ++ v.toList))).out ++ [a])) =
      t_v3_add (envL ((t_v3_mul (envL (u.toList ++ [a]))).out ++ (t_v3_mul (envL (v.toList ++ [a]))).out)) ∧
    t_v3_mul (envL (u.toList ++ [a + b])) =
      t_v3_add (envL ((t_v3_mul (envL (u.toList ++ [a]))).out ++ (t_v3_mul (envL (u.toList ++ [b]))).out)) ∧
    t_v3_mul (envL ((t_v3_mul (envL (u.toList ++ [a]))).out ++ [b])) = t_v3_mul (envL (u.toList ++ [a * b])) := by
  obtain ⟨m1, m2, m3, -⟩ := C03.V3.mul_add u v a b
  have hadd := fun x y : V3 K => Trace.C03.t_v3_add x y
  have hmul := fun (x : V3 K) (s : K) => Trace.C03.t_v3_mul x s
  have hz : t_v3_zero (envL ([] : List K)) = .okS (V3.zero : V3 K).toList := Trace.C03Auto.t_v3_zero
  have hn := Trace.C03.t_v3_neg u
  refine ⟨?_, ?_, ?_, ?_, ?_, ?_⟩
  · rw [hadd, hadd, C03.V3.add_comm]
  · rw [hz]
    show t_v3_add (envL (u.toList ++ (V3.zero : V3 K).toList)) = _
    rw [hadd, (C03.V3.add_zero u).1]
  · rw [hn, hz]
    show t_v3_add (envL (u.toList ++ (-u).toList)) = _
    rw [hadd, C03.V3.add_neg]
  · rw [hadd u v, hmul u a, hmul v a]
    show t_v3_mul (envL ((u + v).toList ++ [a])) = t_v3_add (envL ((u * a).toList ++ (v * a).toList))
    rw [hmul, hadd, m1]
  · rw [hmul u a, hmul u b]
    show _ = t_v3_add (envL ((u * a).toList ++ (u * b).toList))
    rw [hmul, hadd, m2]
  · rw [hmul u a]
    show t_v3_mul (envL ((u * a).toList ++ [b])) = _
    rw [hmul, hmul, m3]

/-- vector-space laws of `Vector4` with every operation the traced one: commutativity, `zero()` is the identity, `u + (-u)` is
`zero()`, `(u + v) * a = u * a + v * a` (right distributivity), `u * (a + b) = u * a + u * b`, `(u * a) * b = u * (a * b)` -/
theorem code_v4_space (u v : V4 K) (a b : K) :
    t_v4_add (envL (u.toList ++ v.toList)) = t_v4_add (envL (v.toList ++ u.toList)) ∧
    t_v4_add (envL (u.toList ++ (t_v4_zero (envL ([] : List K))).out)) = .okS u.toList ∧
    t_v4_add (envL (u.toList ++ (t_v4_neg (envL u.toList)).out)) = t_v4_zero (envL ([] : List K)) ∧
    t_v4_mul (envL ((t_v4_add (envL (u.toList ++ v.toList))).out ++ [a])) =
      t_v4_add (envL ((t_v4_mul (envL (u.toList ++ [a]))).out ++ (t_v4_mul (envL (v.toList ++ [a]))).out)) ∧
    t_v4_mul (envL (u.toList ++ [a + b])) =
      t_v4_add (envL ((t_v4_mul (envL (u.toList ++ [a]))).out ++ (t_v4_mul (envL (u.toList ++ [b]))).out)) ∧
    t_v4_mul (envL ((t_v4_mul (envL (u.toList ++ [a]))).out ++ [b])) = t_v4_mul (envL (u.toList ++ [a * b])) := by
  obtain ⟨m1, m2, m3, -⟩ := C03.V4.mul_add u v a b
  have hadd := fun x y : V4 K => Trace.C03Auto.t_v4_add x y
  have hmul := fun (x : V4 K) (s : K) => Trace.C03.t_v4_mul x s
  have hz : t_v4_zero (envL ([] : List K)) = .okS (V4.zero : V4 K).toList := Trace.C03Auto.t_v4_zero
  have hn := Trace.C03Auto.t_v4_neg u
  refine ⟨?_, ?_, ?_, ?_, ?_, ?_⟩
  · rw [hadd, hadd, C03.V4.add_comm]
  · rw [hz]
    show t_v4_add (envL (u.toList ++ (V4.zero : V4 K).toList)) = _
    rw [hadd, (C03.V4.add_zero u).1]
  · rw [hn, hz]
    show t_v4_add (envL (u.toList ++ (-u).toList)) = _
    rw [hadd, C03.V4.add_neg]
  · rw [hadd u v, hmul u a, hmul v a]
    show t_v4_mul (envL ((u + v).toList ++ [a])) = t_v4_add (envL ((u * a).toList ++ (v * a).toList))
    rw [hmul, hadd, m1]
  · rw [hmul u a, hmul u b]
    show _ = t_v4_add (envL ((u * a).toList ++ (u * b).toList))
    rw [hmul, hadd, m2]
  · rw [hmul u a]
    show t_v4_mul (envL ((u * a).toList ++ [b])) = _
    rw [hmul, hmul, m3]

end Cg.E2E.C03
