import Cgm.Lemmas.GuardSem
import Cgm.E2E.C11h
import Cgm.Trace.C11Paths
import Cgm.Trace.Cover4
/-!
# C11, end to end, with the guard semantics: the clamped `angle` (`Vector4`, `Quaternion`, `Vector1`)

The default `InnerSpace::angle` (as repaired) clamps the cosine `u·v / (|u||v|)` to `[-1, 1]` before `acos`: two comparisons
`1 < c`, `c < -1`, three paths (unclamped, clamped from above, clamped from below).  With `Tr.Consistent`
(`Cgm/Lemmas/GuardSem.lean`): each kernel is the path the code takes iff its path condition holds; for EVERY input exactly one of the
three kernels of `Vector4::angle` (of `Quaternion::angle`) is; over the reals, for non-zero `u`, `v`, the consistent path outputs ONE
angle `t ∈ [0, π]` with `|u||v| cos t = u·v` -- and it is the unclamped path (Cauchy-Schwarz).  `Vector1::angle` has one traced
kernel (the unclamped path); over the reals it is consistent on every non-degenerate input and, by `Cover4.v1_angle_cover_exact`,
on every input.
-/
set_option linter.unusedSectionVars false
set_option linter.unusedSimpArgs false
namespace Cg.E2E.C11
open Cg Cg.Gen.C11

section field
variable {K : Type} [Field K] [LinearOrder K] [Approx K] [Transc K] [FRem K] [Lits K]
attribute [local simp] V4.magnitude V1.magnitude Quat.magnitude
theorem g_v4_angle (a b : V4 K) :
    (t_v4_angle (envL (a.toList ++ b.toList))).guards =
      [.lt 1 (V4.dot a b / (a.magnitude * b.magnitude)) false, .lt (V4.dot a b / (a.magnitude * b.magnitude)) (-1) false] := by
  simp; tr_auto_nf
theorem v4_angle_consistent (a b : V4 K) :
    (t_v4_angle (envL (a.toList ++ b.toList))).Consistent ↔ ¬ 1 < (V4.dot a b / (a.magnitude * b.magnitude)) ∧ ¬ (V4.dot a b / (a.magnitude * b.magnitude)) < -1 := by
  rw [Tr.Consistent, g_v4_angle]
  simp only [List.mem_cons, List.not_mem_nil, or_false, forall_eq_or_imp, forall_eq, G.holds_lt_true, G.holds_lt_false]
theorem g_v4_angle_clamped (a b : V4 K) :
    (t_v4_angle_clamped (envL (a.toList ++ b.toList))).guards =
      [.lt 1 (V4.dot a b / (a.magnitude * b.magnitude)) true] := by
  simp; tr_auto_nf
theorem v4_angle_clamped_consistent (a b : V4 K) :
    (t_v4_angle_clamped (envL (a.toList ++ b.toList))).Consistent ↔ 1 < (V4.dot a b / (a.magnitude * b.magnitude)) := by
  rw [Tr.Consistent, g_v4_angle_clamped]
  simp only [List.mem_cons, List.not_mem_nil, or_false, forall_eq_or_imp, forall_eq, G.holds_lt_true, G.holds_lt_false]
theorem g_v4_angle_clamped_lo (a b : V4 K) :
    (t_v4_angle_clamped_lo (envL (a.toList ++ b.toList))).guards =
      [.lt 1 (V4.dot a b / (a.magnitude * b.magnitude)) false, .lt (V4.dot a b / (a.magnitude * b.magnitude)) (-1) true] := by
  simp; tr_auto_nf
theorem v4_angle_clamped_lo_consistent (a b : V4 K) :
    (t_v4_angle_clamped_lo (envL (a.toList ++ b.toList))).Consistent ↔ ¬ 1 < (V4.dot a b / (a.magnitude * b.magnitude)) ∧ (V4.dot a b / (a.magnitude * b.magnitude)) < -1 := by
  rw [Tr.Consistent, g_v4_angle_clamped_lo]
  simp only [List.mem_cons, List.not_mem_nil, or_false, forall_eq_or_imp, forall_eq, G.holds_lt_true, G.holds_lt_false]
theorem g_q_angle (a b : Quat K) :
    (t_q_angle (envL (a.toList ++ b.toList))).guards =
      [.lt 1 (Quat.dot a b / (a.magnitude * b.magnitude)) false, .lt (Quat.dot a b / (a.magnitude * b.magnitude)) (-1) false] := by
  simp; tr_auto_nf
theorem q_angle_consistent (a b : Quat K) :
    (t_q_angle (envL (a.toList ++ b.toList))).Consistent ↔ ¬ 1 < (Quat.dot a b / (a.magnitude * b.magnitude)) ∧ ¬ (Quat.dot a b / (a.magnitude * b.magnitude)) < -1 := by
  rw [Tr.Consistent, g_q_angle]
  simp only [List.mem_cons, List.not_mem_nil, or_false, forall_eq_or_imp, forall_eq, G.holds_lt_true, G.holds_lt_false]
theorem g_q_angle_clamped_hi (a b : Quat K) :
    (t_q_angle_clamped_hi (envL (a.toList ++ b.toList))).guards =
      [.lt 1 (Quat.dot a b / (a.magnitude * b.magnitude)) true] := by
  simp; tr_auto_nf
theorem q_angle_clamped_hi_consistent (a b : Quat K) :
    (t_q_angle_clamped_hi (envL (a.toList ++ b.toList))).Consistent ↔ 1 < (Quat.dot a b / (a.magnitude * b.magnitude)) := by
  rw [Tr.Consistent, g_q_angle_clamped_hi]
  simp only [List.mem_cons, List.not_mem_nil, or_false, forall_eq_or_imp, forall_eq, G.holds_lt_true, G.holds_lt_false]
theorem g_q_angle_clamped_lo (a b : Quat K) :
    (t_q_angle_clamped_lo (envL (a.toList ++ b.toList))).guards =
      [.lt 1 (Quat.dot a b / (a.magnitude * b.magnitude)) false, .lt (Quat.dot a b / (a.magnitude * b.magnitude)) (-1) true] := by
  simp; tr_auto_nf
theorem q_angle_clamped_lo_consistent (a b : Quat K) :
    (t_q_angle_clamped_lo (envL (a.toList ++ b.toList))).Consistent ↔ ¬ 1 < (Quat.dot a b / (a.magnitude * b.magnitude)) ∧ (Quat.dot a b / (a.magnitude * b.magnitude)) < -1 := by
  rw [Tr.Consistent, g_q_angle_clamped_lo]
  simp only [List.mem_cons, List.not_mem_nil, or_false, forall_eq_or_imp, forall_eq, G.holds_lt_true, G.holds_lt_false]
theorem g_v1_angle (a b : V1 K) :
    (t_v1_angle (envL (a.toList ++ b.toList))).guards =
      [.lt 1 (V1.dot a b / (a.magnitude * b.magnitude)) false, .lt (V1.dot a b / (a.magnitude * b.magnitude)) (-1) false] := by
  simp; tr_auto_nf
theorem v1_angle_consistent (a b : V1 K) :
    (t_v1_angle (envL (a.toList ++ b.toList))).Consistent ↔ ¬ 1 < (V1.dot a b / (a.magnitude * b.magnitude)) ∧ ¬ (V1.dot a b / (a.magnitude * b.magnitude)) < -1 := by
  rw [Tr.Consistent, g_v1_angle]
  simp only [List.mem_cons, List.not_mem_nil, or_false, forall_eq_or_imp, forall_eq, G.holds_lt_true, G.holds_lt_false]

/-- for every input exactly one of the three paths of `Vector4::angle` is the one the code takes -/
theorem v4_angle_exactly_one (a b : V4 K) :
    Tr.ExactlyOne [t_v4_angle (envL (a.toList ++ b.toList)), t_v4_angle_clamped (envL (a.toList ++ b.toList)),
      t_v4_angle_clamped_lo (envL (a.toList ++ b.toList))] := by
  unfold Tr.ExactlyOne
  simp only [List.pairwise_cons, List.mem_cons, List.not_mem_nil, or_false, forall_eq_or_imp, forall_eq, exists_eq_or_imp,
    exists_eq_left, List.Pairwise.nil, and_true, IsEmpty.forall_iff, implies_true,
    v4_angle_consistent, v4_angle_clamped_consistent, v4_angle_clamped_lo_consistent]
  generalize V4.dot a b / (a.magnitude * b.magnitude) = c
  by_cases h1 : 1 < c <;> by_cases h2 : c < -1 <;> simp [h1, h2]
/-- for every input exactly one of the three paths of `Quaternion::angle` is the one the code takes -/
theorem q_angle_exactly_one (a b : Quat K) :
    Tr.ExactlyOne [t_q_angle (envL (a.toList ++ b.toList)), t_q_angle_clamped_hi (envL (a.toList ++ b.toList)),
      t_q_angle_clamped_lo (envL (a.toList ++ b.toList))] := by
  unfold Tr.ExactlyOne
  simp only [List.pairwise_cons, List.mem_cons, List.not_mem_nil, or_false, forall_eq_or_imp, forall_eq, exists_eq_or_imp,
    exists_eq_left, List.Pairwise.nil, and_true, IsEmpty.forall_iff, implies_true,
    q_angle_consistent, q_angle_clamped_hi_consistent, q_angle_clamped_lo_consistent]
  generalize Quat.dot a b / (a.magnitude * b.magnitude) = c
  by_cases h1 : 1 < c <;> by_cases h2 : c < -1 <;> simp [h1, h2]
/-- the path conditions are the entries of `Cover2.v4AnglePaths` / `v1AnglePaths` (`clampPaths`) -/
theorem v1_angle_consistent_cover (a b : V1 K) :
    (t_v1_angle (envL (a.toList ++ b.toList))).Consistent ↔ Trace.Cover.AnyOf (Trace.Cover2.v1AnglePaths a b) := by
  rw [v1_angle_consistent]
  simp only [Trace.Cover2.v1AnglePaths, Trace.Cover.clampUnclamped, Trace.Cover.AnyOf, or_false]
/-- `Vector1::angle`: its one traced kernel is consistent on every input whenever `sqrt(t·t)² = t·t` (`Cover4.v1_angle_cover_exact`) -/
theorem v1_angle_exactly_one [IsStrictOrderedRing K] (a b : V1 K)
    (hs : ∀ t : K, Transc.sqrt (t * t) * Transc.sqrt (t * t) = t * t) :
    Tr.ExactlyOne [t_v1_angle (envL (a.toList ++ b.toList))] := by
  refine ⟨⟨_, List.mem_singleton.2 rfl, ?_⟩, List.pairwise_singleton _ _⟩
  rw [v1_angle_consistent_cover]
  exact (Trace.Cover4.v1_angle_cover_exact a b hs).2 trivial
end field

section real
open Real
variable [FRem ℝ] [Lits ℝ] [Approx ℝ]

theorem cos_bound {d mu mv : ℝ} (hu : 0 < mu) (hv : 0 < mv) (h : d ^ 2 ≤ mu * mv) :
    ¬ 1 < d / (Real.sqrt mu * Real.sqrt mv) ∧ ¬ d / (Real.sqrt mu * Real.sqrt mv) < -1 := by
  obtain ⟨h1, h2⟩ := Cg.abs_div_le_one d mu mv hu hv h
  exact ⟨not_lt.mpr h2, not_lt.mpr h1⟩

/-- **`Vector4::angle(u, v)`, one statement**: for every input exactly one of the three paths is the one the code takes; for non-zero
`u`, `v` it is the unclamped one, and the consistent path outputs ONE angle `t`, with `|u||v| cos t = u·v`, `0 ≤ t ≤ π`, symmetric -/
theorem code_v4_angle_exact (u v : V4 ℝ) (hu : 0 < u.magnitude2) (hv : 0 < v.magnitude2) :
    Tr.ExactlyOne [t_v4_angle (envL (u.toList ++ v.toList)), t_v4_angle_clamped (envL (u.toList ++ v.toList)),
      t_v4_angle_clamped_lo (envL (u.toList ++ v.toList))] ∧
    (t_v4_angle (envL (u.toList ++ v.toList))).Consistent ∧
    ∃ t : ℝ, (∀ k ∈ [t_v4_angle (envL (u.toList ++ v.toList)), t_v4_angle_clamped (envL (u.toList ++ v.toList)),
        t_v4_angle_clamped_lo (envL (u.toList ++ v.toList))], k.Consistent → k.res = .ok ∧ k.out = [t]) ∧
      u.magnitude * v.magnitude * Real.cos t = V4.dot u v ∧ 0 ≤ t ∧ t ≤ π ∧ t = V4.angle v u := by
  have fin : ∀ (k : Tr ℝ) (g : List (G ℝ)), k = .okG [V4.angle u v] g → k.res = .ok ∧ k.out = [V4.angle u v] := by
    intro k g hk; subst hk; exact ⟨rfl, rfl⟩
  refine ⟨v4_angle_exactly_one u v, ?_, V4.angle u v, ?_, C11.V4.angle_spec u v hu hv⟩
  · rw [v4_angle_consistent]
    simp only [V4.magnitude, transc_sqrt]
    exact cos_bound hu hv (C11.V4.cauchy_schwarz u v)
  · intro k hk
    simp only [List.mem_cons, List.not_mem_nil, or_false] at hk
    rcases hk with rfl | rfl | rfl
    · intro hc; obtain ⟨c1, c2⟩ := (v4_angle_consistent u v).1 hc; exact fin _ _ (Trace.C11.t_v4_angle u v c1 c2)
    · intro hc; exact fin _ _ (Trace.C11.t_v4_angle_clamped u v ((v4_angle_clamped_consistent u v).1 hc))
    · intro hc; obtain ⟨c1, c2⟩ := (v4_angle_clamped_lo_consistent u v).1 hc
      exact fin _ _ (Trace.C11Paths.t_v4_angle_clamped_lo u v c1 c2)

/-- **`Quaternion::angle(p, q)`, one statement** -/
theorem code_q_angle_exact (u v : Quat ℝ) (hu : 0 < u.magnitude2) (hv : 0 < v.magnitude2) :
    Tr.ExactlyOne [t_q_angle (envL (u.toList ++ v.toList)), t_q_angle_clamped_hi (envL (u.toList ++ v.toList)),
      t_q_angle_clamped_lo (envL (u.toList ++ v.toList))] ∧
    (t_q_angle (envL (u.toList ++ v.toList))).Consistent ∧
    ∃ t : ℝ, (∀ k ∈ [t_q_angle (envL (u.toList ++ v.toList)), t_q_angle_clamped_hi (envL (u.toList ++ v.toList)),
        t_q_angle_clamped_lo (envL (u.toList ++ v.toList))], k.Consistent → k.res = .ok ∧ k.out = [t]) ∧
      u.magnitude * v.magnitude * Real.cos t = Quat.dot u v ∧ 0 ≤ t ∧ t ≤ π ∧ t = Quat.angle v u := by
  have fin : ∀ (k : Tr ℝ) (g : List (G ℝ)), k = .okG [Quat.angle u v] g → k.res = .ok ∧ k.out = [Quat.angle u v] := by
    intro k g hk; subst hk; exact ⟨rfl, rfl⟩
  refine ⟨q_angle_exactly_one u v, ?_, Quat.angle u v, ?_, C11.Quat.angle_spec u v hu hv⟩
  · rw [q_angle_consistent]
    simp only [Quat.magnitude, transc_sqrt]
    exact cos_bound hu hv (C11.Quat.cauchy_schwarz u v)
  · intro k hk
    simp only [List.mem_cons, List.not_mem_nil, or_false] at hk
    rcases hk with rfl | rfl | rfl
    · intro hc; obtain ⟨c1, c2⟩ := (q_angle_consistent u v).1 hc; exact fin _ _ (Trace.C11.t_q_angle u v c1 c2)
    · intro hc; exact fin _ _ (Trace.C11Paths.t_q_angle_clamped_hi u v ((q_angle_clamped_hi_consistent u v).1 hc))
    · intro hc; obtain ⟨c1, c2⟩ := (q_angle_clamped_lo_consistent u v).1 hc
      exact fin _ _ (Trace.C11Paths.t_q_angle_clamped_lo u v c1 c2)

/-- **`Vector1::angle(u, v)`, one statement**: the one traced kernel is the path the code takes on EVERY input (the clamped paths are
infeasible: `Cover4.v1_angle_cover_exact` with the real square root); for non-zero `u`, `v` it outputs the angle `t ∈ [0, π]` with
`|u||v| cos t = u·v` -/
theorem code_v1_angle_exact (u v : V1 ℝ) :
    Tr.ExactlyOne [t_v1_angle (envL (u.toList ++ v.toList))] ∧
    (0 < u.magnitude2 → 0 < v.magnitude2 →
      ∃ t : ℝ, (t_v1_angle (envL (u.toList ++ v.toList))).res = .ok ∧ (t_v1_angle (envL (u.toList ++ v.toList))).out = [t] ∧
        u.magnitude * v.magnitude * Real.cos t = V1.dot u v ∧ 0 ≤ t ∧ t ≤ π ∧ t = V1.angle v u) := by
  have hs : ∀ t : ℝ, Transc.sqrt (t * t) * Transc.sqrt (t * t) = t * t := by
    intro t; rw [transc_sqrt]; exact Real.mul_self_sqrt (mul_self_nonneg t)
  have hex := v1_angle_exactly_one u v hs
  refine ⟨hex, fun hu hv => ?_⟩
  obtain ⟨⟨k, hk, hc⟩, -⟩ := hex
  rw [List.mem_singleton] at hk; subst hk
  obtain ⟨c1, c2⟩ := (v1_angle_consistent u v).1 hc
  have e := Trace.C11Paths.t_v1_angle u v c1 c2
  exact ⟨V1.angle u v, by rw [e]; rfl, by rw [e]; rfl, C11.V1.angle_spec u v hu hv⟩

/-- not vacuous -/
example : 0 < (⟨1, 0, 0, 0⟩ : V4 ℝ).magnitude2 ∧ 0 < (⟨0, 1, 0, 0⟩ : V4 ℝ).magnitude2 := by
  constructor <;> simp [V4.magnitude2, V4.dot]
end real
end Cg.E2E.C11
