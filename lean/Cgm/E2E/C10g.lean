import Cgm.Lemmas.GuardSem
import Cgm.E2E.C10b
/-!
# C10, end to end, with the guard semantics: `frustum` panics EXACTLY WHEN `l > r ∨ b > t ∨ n > f`

The four traced paths of `frustum` (accepted; rejected at the 1st, 2nd, 3rd assertion) record the comparisons
`l <= r`, `b <= t`, `n <= f` in the order the code makes them.  `Tr.Consistent` (`Cgm/Lemmas/GuardSem.lean`) gives
them their meaning: for every input exactly one of the four paths is the one the code takes, and it is a panicking
one iff the stated precondition is violated.
-/
set_option linter.unusedSectionVars false
namespace Cg.E2E.C10
open Cg Cg.Gen.C10
variable {K : Type} [Field K] [LinearOrder K] [IsStrictOrderedRing K] [Approx K] [Transc K] [FRem K] [Lits K]

/-! ## the comparisons each path records, for every input -/
theorem g_frustum_ok (l r b t n f : K) :
    (t_frustum_ok (envL [l, r, b, t, n, f])).guards = [.le l r true, .le b t true, .le n f true] := by simp [envL]
theorem g_frustum_bad_lr (l r b t n f : K) :
    (t_frustum_bad_lr (envL [l, r, b, t, n, f])).guards = [.le l r false] := by simp [envL]
theorem g_frustum_bad_bt (l r b t n f : K) :
    (t_frustum_bad_bt (envL [l, r, b, t, n, f])).guards = [.le l r true, .le b t false] := by simp [envL]
theorem g_frustum_bad_nf (l r b t n f : K) :
    (t_frustum_bad_nf (envL [l, r, b, t, n, f])).guards = [.le l r true, .le b t true, .le n f false] := by simp [envL]

/-! ## consistency of a path ↔ its path condition -/
theorem frustum_ok_consistent (l r b t n f : K) :
    (t_frustum_ok (envL [l, r, b, t, n, f])).Consistent ↔ l ≤ r ∧ b ≤ t ∧ n ≤ f := by
  rw [Tr.Consistent, g_frustum_ok]; simp
theorem frustum_bad_lr_consistent (l r b t n f : K) :
    (t_frustum_bad_lr (envL [l, r, b, t, n, f])).Consistent ↔ r < l := by
  rw [Tr.Consistent, g_frustum_bad_lr]; simp
theorem frustum_bad_bt_consistent (l r b t n f : K) :
    (t_frustum_bad_bt (envL [l, r, b, t, n, f])).Consistent ↔ l ≤ r ∧ t < b := by
  rw [Tr.Consistent, g_frustum_bad_bt]; simp
theorem frustum_bad_nf_consistent (l r b t n f : K) :
    (t_frustum_bad_nf (envL [l, r, b, t, n, f])).Consistent ↔ l ≤ r ∧ b ≤ t ∧ f < n := by
  rw [Tr.Consistent, g_frustum_bad_nf]; simp

/-- the three rejecting paths do panic, the accepting one does not -/
theorem frustum_res (l r b t n f : K) :
    (t_frustum_ok (envL [l, r, b, t, n, f])).res = .ok ∧ (t_frustum_bad_lr (envL [l, r, b, t, n, f])).res = .panic ∧
    (t_frustum_bad_bt (envL [l, r, b, t, n, f])).res = .panic ∧ (t_frustum_bad_nf (envL [l, r, b, t, n, f])).res = .panic := by
  simp

/-- for every input exactly one of the four paths of `frustum` is the one the code takes -/
theorem frustum_exactly_one (l r b t n f : K) :
    let A := (t_frustum_ok (envL [l, r, b, t, n, f])).Consistent
    let B := (t_frustum_bad_lr (envL [l, r, b, t, n, f])).Consistent
    let C := (t_frustum_bad_bt (envL [l, r, b, t, n, f])).Consistent
    let D := (t_frustum_bad_nf (envL [l, r, b, t, n, f])).Consistent
    (A ∨ B ∨ C ∨ D) ∧ ¬ (A ∧ B) ∧ ¬ (A ∧ C) ∧ ¬ (A ∧ D) ∧ ¬ (B ∧ C) ∧ ¬ (B ∧ D) ∧ ¬ (C ∧ D) := by
  simp only [frustum_ok_consistent, frustum_bad_lr_consistent, frustum_bad_bt_consistent, frustum_bad_nf_consistent]
  rcases le_or_gt l r with h1 | h1 <;> rcases le_or_gt b t with h2 | h2 <;> rcases le_or_gt n f with h3 | h3 <;>
    simp [h1, h2, h3, not_le.2, not_lt.2]

/-- the same with `Tr.ExactlyOne` -/
theorem frustum_exactlyOne (l r b t n f : K) :
    Tr.ExactlyOne [t_frustum_ok (envL [l, r, b, t, n, f]), t_frustum_bad_lr (envL [l, r, b, t, n, f]),
      t_frustum_bad_bt (envL [l, r, b, t, n, f]), t_frustum_bad_nf (envL [l, r, b, t, n, f])] := by
  unfold Tr.ExactlyOne
  simp only [List.pairwise_cons, List.mem_cons, List.not_mem_nil, or_false, forall_eq_or_imp, forall_eq, exists_eq_or_imp,
    exists_eq_left, List.Pairwise.nil, and_true, IsEmpty.forall_iff, implies_true,
    frustum_ok_consistent, frustum_bad_lr_consistent, frustum_bad_bt_consistent, frustum_bad_nf_consistent]
  rcases le_or_gt l r with h1 | h1 <;> rcases le_or_gt b t with h2 | h2 <;> rcases le_or_gt n f with h3 | h3 <;>
    simp [h1, h2, h3, not_le.2, not_lt.2]

/-- **`frustum` panics exactly when `l > r ∨ b > t ∨ n > f`**: some panicking path is the one the code takes iff the
precondition is violated; the accepting path is iff it holds -/
theorem code_frustum_panics_iff (l r b t n f : K) :
    ((t_frustum_bad_lr (envL [l, r, b, t, n, f])).Consistent ∨ (t_frustum_bad_bt (envL [l, r, b, t, n, f])).Consistent ∨
      (t_frustum_bad_nf (envL [l, r, b, t, n, f])).Consistent ↔ r < l ∨ t < b ∨ f < n) ∧
    ((t_frustum_ok (envL [l, r, b, t, n, f])).Consistent ↔ ¬ (r < l ∨ t < b ∨ f < n)) := by
  simp only [frustum_ok_consistent, frustum_bad_lr_consistent, frustum_bad_bt_consistent, frustum_bad_nf_consistent]
  rcases le_or_gt l r with h1 | h1 <;> rcases le_or_gt b t with h2 | h2 <;> rcases le_or_gt n f with h3 | h3 <;>
    simp [h1, h2, h3, not_le.2, not_lt.2]

/-- one statement: the code's accepting path is taken iff `l ≤ r ∧ b ≤ t ∧ n ≤ f`, and then (non-degenerate box, planes off
the eye) the output is the flattening of THE matrix (pinned) mapping the frustum's faces onto the cube's; otherwise a
panicking path is taken -/
theorem code_frustum_exact (l r b t n f : K) :
    ((t_frustum_ok (envL [l, r, b, t, n, f])).Consistent ↔ l ≤ r ∧ b ≤ t ∧ n ≤ f) ∧
    (¬ (t_frustum_ok (envL [l, r, b, t, n, f])).Consistent ↔
      (t_frustum_bad_lr (envL [l, r, b, t, n, f])).Consistent ∨ (t_frustum_bad_bt (envL [l, r, b, t, n, f])).Consistent ∨
      (t_frustum_bad_nf (envL [l, r, b, t, n, f])).Consistent) ∧
    ((t_frustum_ok (envL [l, r, b, t, n, f])).Consistent → r - l ≠ 0 → t - b ≠ 0 → f - n ≠ 0 → n ≠ 0 → f ≠ 0 →
      ∃ m : M4 K, t_frustum_ok (envL [l, r, b, t, n, f]) = .okG m.toList [.le l r true, .le b t true, .le n f true] ∧
        (∀ x y z : K, (m * P3.toHomogeneous (⟨x, y, z⟩ : P3 K)).w = -z) ∧
        m.transformPoint ⟨l, b, -n⟩ = ⟨-1, -1, -1⟩ ∧ m.transformPoint ⟨r, t, -n⟩ = ⟨1, 1, -1⟩ ∧
        m.transformPoint ⟨l * (f / n), b * (f / n), -f⟩ = ⟨-1, -1, 1⟩ ∧
        ∀ m' : M4 K, (t_frustum_ok (envL [l, r, b, t, n, f])).out = m'.toList → m' = m) := by
  refine ⟨frustum_ok_consistent l r b t n f, ?_, fun hc hx hy hz hn hf => ?_⟩
  · have h := code_frustum_panics_iff l r b t n f
    rw [h.2, h.1, not_not]
  · obtain ⟨h1, h2, h3⟩ := (frustum_ok_consistent l r b t n f).1 hc
    obtain ⟨m, hm, hw, c1, c2, c3⟩ := code_frustum l r b t n f h1 h2 h3 hx hy hz hn hf
    refine ⟨m, hm, hw, c1, c2, c3, fun m' hm' => ?_⟩
    rw [hm] at hm'
    exact (M4.toList_injective hm').symm

/-! ## `perspective(fovy, aspect, near, far)` (`From<PerspectiveFov>`): nine traced paths

`fovy > 0` and `fovy < half turn` go through `partial_cmp` (a three-way comparison), the aspect and `far - near` tests are
`abs_diff_eq` with the tolerance `2^-52` recorded in the guard. -/
section perspective
open Cg.Trace.C10
theorem g_perspective_ok (fovy a n f : K) :
    (t_perspective_ok (envL [fovy, a, n, f])).guards =
      [.cmp fovy 0 .gt, .cmp fovy (Lits.radFull / 2) .lt, .lt a 0 false, .absDiff a 0 eps52 false,
       .lt 0 n true, .lt 0 f true, .absDiff f n eps52 false] := by
  simp [envL, eps52]
theorem g_perspective_ok_neg_aspect (fovy a n f : K) :
    (t_perspective_ok_neg_aspect (envL [fovy, a, n, f])).guards =
      [.cmp fovy 0 .gt, .cmp fovy (Lits.radFull / 2) .lt, .lt a 0 true, .absDiff (-a) 0 eps52 false,
       .lt 0 n true, .lt 0 f true, .absDiff f n eps52 false] := by
  simp [envL, eps52]
theorem g_perspective_bad_fovy (fovy a n f : K) :
    (t_perspective_bad_fovy (envL [fovy, a, n, f])).guards =
      [.cmp fovy 0 .lt] := by
  simp [envL, eps52]
theorem g_perspective_bad_fovy_zero (fovy a n f : K) :
    (t_perspective_bad_fovy_zero (envL [fovy, a, n, f])).guards =
      [.cmp fovy 0 .eq] := by
  simp [envL, eps52]
theorem g_perspective_bad_fovy_hi (fovy a n f : K) :
    (t_perspective_bad_fovy_hi (envL [fovy, a, n, f])).guards =
      [.cmp fovy 0 .gt, .cmp fovy (Lits.radFull / 2) .gt] := by
  simp [envL, eps52]
theorem g_perspective_bad_aspect (fovy a n f : K) :
    (t_perspective_bad_aspect (envL [fovy, a, n, f])).guards =
      [.cmp fovy 0 .gt, .cmp fovy (Lits.radFull / 2) .lt, .lt a 0 false, .absDiff a 0 eps52 true, .lt a 0 false] := by
  simp [envL, eps52]
theorem g_perspective_bad_near (fovy a n f : K) :
    (t_perspective_bad_near (envL [fovy, a, n, f])).guards =
      [.cmp fovy 0 .gt, .cmp fovy (Lits.radFull / 2) .lt, .lt a 0 false, .absDiff a 0 eps52 false, .lt 0 n false] := by
  simp [envL, eps52]
theorem g_perspective_bad_far (fovy a n f : K) :
    (t_perspective_bad_far (envL [fovy, a, n, f])).guards =
      [.cmp fovy 0 .gt, .cmp fovy (Lits.radFull / 2) .lt, .lt a 0 false, .absDiff a 0 eps52 false,
       .lt 0 n true, .lt 0 f false] := by
  simp [envL, eps52]
theorem g_perspective_bad_nf (fovy a n f : K) :
    (t_perspective_bad_nf (envL [fovy, a, n, f])).guards =
      [.cmp fovy 0 .gt, .cmp fovy (Lits.radFull / 2) .lt, .lt a 0 false, .absDiff a 0 eps52 false,
       .lt 0 n true, .lt 0 f true, .absDiff f n eps52 true] := by
  simp [envL, eps52]
theorem perspective_ok_consistent (fovy a n f : K) :
    (t_perspective_ok (envL [fovy, a, n, f])).Consistent ↔
      0 < fovy ∧ fovy < Lits.radFull / 2 ∧ ¬ a < 0 ∧ Approx.absDiffEq a 0 (eps52 : K) = false ∧ 0 < n ∧ 0 < f ∧
        Approx.absDiffEq f n (eps52 : K) = false := by
  rw [Tr.Consistent, g_perspective_ok]; simp
theorem perspective_ok_neg_aspect_consistent (fovy a n f : K) :
    (t_perspective_ok_neg_aspect (envL [fovy, a, n, f])).Consistent ↔
      0 < fovy ∧ fovy < Lits.radFull / 2 ∧ a < 0 ∧ Approx.absDiffEq (-a) 0 (eps52 : K) = false ∧ 0 < n ∧ 0 < f ∧
        Approx.absDiffEq f n (eps52 : K) = false := by
  rw [Tr.Consistent, g_perspective_ok_neg_aspect]; simp
theorem perspective_bad_fovy_consistent (fovy a n f : K) :
    (t_perspective_bad_fovy (envL [fovy, a, n, f])).Consistent ↔
      fovy < 0 := by
  rw [Tr.Consistent, g_perspective_bad_fovy]; simp
theorem perspective_bad_fovy_zero_consistent (fovy a n f : K) :
    (t_perspective_bad_fovy_zero (envL [fovy, a, n, f])).Consistent ↔
      fovy = 0 := by
  rw [Tr.Consistent, g_perspective_bad_fovy_zero]; simp
theorem perspective_bad_fovy_hi_consistent (fovy a n f : K) :
    (t_perspective_bad_fovy_hi (envL [fovy, a, n, f])).Consistent ↔
      0 < fovy ∧ Lits.radFull / 2 < fovy := by
  rw [Tr.Consistent, g_perspective_bad_fovy_hi]; simp
theorem perspective_bad_aspect_consistent (fovy a n f : K) :
    (t_perspective_bad_aspect (envL [fovy, a, n, f])).Consistent ↔
      0 < fovy ∧ fovy < Lits.radFull / 2 ∧ ¬ a < 0 ∧ Approx.absDiffEq a 0 (eps52 : K) = true := by
  rw [Tr.Consistent, g_perspective_bad_aspect]; simp
  intro _ _ h _; exact h
theorem perspective_bad_near_consistent (fovy a n f : K) :
    (t_perspective_bad_near (envL [fovy, a, n, f])).Consistent ↔
      0 < fovy ∧ fovy < Lits.radFull / 2 ∧ ¬ a < 0 ∧ Approx.absDiffEq a 0 (eps52 : K) = false ∧ ¬ 0 < n := by
  rw [Tr.Consistent, g_perspective_bad_near]; simp
theorem perspective_bad_far_consistent (fovy a n f : K) :
    (t_perspective_bad_far (envL [fovy, a, n, f])).Consistent ↔
      0 < fovy ∧ fovy < Lits.radFull / 2 ∧ ¬ a < 0 ∧ Approx.absDiffEq a 0 (eps52 : K) = false ∧ 0 < n ∧ ¬ 0 < f := by
  rw [Tr.Consistent, g_perspective_bad_far]; simp
theorem perspective_bad_nf_consistent (fovy a n f : K) :
    (t_perspective_bad_nf (envL [fovy, a, n, f])).Consistent ↔
      0 < fovy ∧ fovy < Lits.radFull / 2 ∧ ¬ a < 0 ∧ Approx.absDiffEq a 0 (eps52 : K) = false ∧ 0 < n ∧ 0 < f ∧
        Approx.absDiffEq f n (eps52 : K) = true := by
  rw [Tr.Consistent, g_perspective_bad_nf]; simp

/-- the precondition `perspective` asserts, as the code tests it (`|aspect|` and `far - near` against the tolerance `2^-52`) -/
def PerspPre (fovy a n f : K) : Prop :=
  0 < fovy ∧ fovy < Lits.radFull / 2 ∧ Approx.absDiffEq (sabs a) 0 (eps52 : K) = false ∧ 0 < n ∧ 0 < f ∧
    Approx.absDiffEq f n (eps52 : K) = false

/-- an accepting path is the one the code takes exactly when the precondition holds -/
theorem perspective_accepts_iff (fovy a n f : K) :
    ((t_perspective_ok (envL [fovy, a, n, f])).Consistent ∨ (t_perspective_ok_neg_aspect (envL [fovy, a, n, f])).Consistent) ↔
      PerspPre fovy a n f := by
  rw [perspective_ok_consistent, perspective_ok_neg_aspect_consistent]
  unfold PerspPre sabs
  by_cases ha : a < 0 <;> simp [ha]
/-- every traced rejecting path is taken only when the precondition is violated -/
theorem perspective_rejects_only_bad (fovy a n f : K) :
    ∀ k ∈ [t_perspective_bad_fovy (envL [fovy, a, n, f]), t_perspective_bad_fovy_zero (envL [fovy, a, n, f]),
        t_perspective_bad_fovy_hi (envL [fovy, a, n, f]), t_perspective_bad_aspect (envL [fovy, a, n, f]),
        t_perspective_bad_near (envL [fovy, a, n, f]), t_perspective_bad_far (envL [fovy, a, n, f]),
        t_perspective_bad_nf (envL [fovy, a, n, f])], k.Consistent → k.res = .panic ∧ ¬ PerspPre fovy a n f := by
  intro k hk
  simp only [List.mem_cons, List.not_mem_nil, or_false] at hk
  unfold PerspPre sabs
  rcases hk with rfl | rfl | rfl | rfl | rfl | rfl | rfl
  · rw [perspective_bad_fovy_consistent]; intro h; exact ⟨rfl, fun p => absurd p.1 (not_lt_of_gt h)⟩
  · rw [perspective_bad_fovy_zero_consistent]; intro h; exact ⟨rfl, fun p => absurd h (ne_of_gt p.1)⟩
  · rw [perspective_bad_fovy_hi_consistent]; intro h; exact ⟨rfl, fun p => absurd p.2.1 (not_lt_of_gt h.2)⟩
  · rw [perspective_bad_aspect_consistent]; rintro ⟨-, -, ha, ht⟩
    refine ⟨rfl, fun p => ?_⟩
    have := p.2.2.1; rw [if_neg ha, ht] at this; exact absurd this (by decide)
  · rw [perspective_bad_near_consistent]; rintro ⟨-, -, -, -, hn⟩; exact ⟨rfl, fun p => hn p.2.2.2.1⟩
  · rw [perspective_bad_far_consistent]; rintro ⟨-, -, -, -, -, hf⟩; exact ⟨rfl, fun p => hf p.2.2.2.2.1⟩
  · rw [perspective_bad_nf_consistent]; rintro ⟨-, -, -, -, -, -, ht⟩
    refine ⟨rfl, fun p => ?_⟩
    have := p.2.2.2.2.2; rw [ht] at this; exact absurd this (by decide)

/-- no two of the nine traced paths are consistent together; and for a non-negative aspect and `fovy` other than exactly the
half turn one of them is (the rejections of a negative aspect with a bad `near`/`far`, and `fovy = half turn`, have no traced
kernel) -/
theorem perspective_exactly_one (fovy a n f : K) (ha : ¬ a < 0) (hf : fovy ≠ Lits.radFull / 2) :
    Tr.ExactlyOne [t_perspective_ok (envL [fovy, a, n, f]), t_perspective_ok_neg_aspect (envL [fovy, a, n, f]), t_perspective_bad_fovy (envL [fovy, a, n, f]), t_perspective_bad_fovy_zero (envL [fovy, a, n, f]), t_perspective_bad_fovy_hi (envL [fovy, a, n, f]), t_perspective_bad_aspect (envL [fovy, a, n, f]), t_perspective_bad_near (envL [fovy, a, n, f]), t_perspective_bad_far (envL [fovy, a, n, f]), t_perspective_bad_nf (envL [fovy, a, n, f])] := by
  unfold Tr.ExactlyOne
  simp only [List.pairwise_cons, List.mem_cons, List.not_mem_nil, or_false, forall_eq_or_imp, forall_eq, exists_eq_or_imp,
    exists_eq_left, List.Pairwise.nil, and_true, IsEmpty.forall_iff, implies_true,
    perspective_ok_consistent, perspective_ok_neg_aspect_consistent, perspective_bad_fovy_consistent, perspective_bad_fovy_zero_consistent, perspective_bad_fovy_hi_consistent, perspective_bad_aspect_consistent, perspective_bad_near_consistent, perspective_bad_far_consistent, perspective_bad_nf_consistent]
  generalize (Lits.radFull / 2 : K) = H at hf ⊢
  generalize Approx.absDiffEq a 0 (eps52 : K) = t1
  generalize Approx.absDiffEq (-a) 0 (eps52 : K) = t1'
  generalize Approx.absDiffEq f n (eps52 : K) = t2
  rcases lt_trichotomy fovy 0 with h0 | h0 | h0
  · have := not_lt_of_gt h0; have := ne_of_lt h0; simp [*]
  · have : ¬ fovy < 0 := by rw [h0]; exact lt_irrefl _
    have : ¬ 0 < fovy := by rw [h0]; exact lt_irrefl _
    simp [*]
  · have := not_lt_of_gt h0; have := ne_of_gt h0
    rcases lt_trichotomy fovy H with h1 | h1 | h1
    · have := not_lt_of_gt h1
      cases t1 <;> cases t2 <;> by_cases hn : 0 < n <;> by_cases hfa : 0 < f <;> simp [*]
    · exact absurd h1 hf
    · have := not_lt_of_gt h1; simp [*]
end perspective

/-- not vacuous: the traced inputs themselves -/
example : (t_frustum_ok (envL [(-1 : K), 3, -2, 5, 1, 10])).Consistent := by
  rw [frustum_ok_consistent]; norm_num
example : (t_frustum_bad_nf (envL [(-1 : K), 3, -2, 5, 10, 1])).Consistent := by
  rw [frustum_bad_nf_consistent]; norm_num
/-! ## with the real relations and literals: the precondition in the property's vocabulary -/
section concrete
open scoped Cg.RealApprox

/-- over the reals (`abs_diff_eq(x, y, 2^-52)` iff `|x - y| ≤ 2^-52`, half turn `= π`): the code accepts exactly when
`0 < fovy < π`, `|aspect| > 2^-52`, `near > 0`, `far > 0`, `|far - near| > 2^-52` -/
theorem perspPre_real (fovy a n f : ℝ) :
    PerspPre fovy a n f ↔ 0 < fovy ∧ fovy < Real.pi ∧ eps52R < |a| ∧ 0 < n ∧ 0 < f ∧ eps52R < |f - n| := by
  have e : (Trace.C10.eps52 : ℝ) = eps52R := rfl
  have t : ∀ x y : ℝ, Approx.absDiffEq x y eps52R = false ↔ eps52R < |x - y| := by
    intro x y; rw [← not_le, ← real_absDiffEq, Bool.not_eq_true]
  unfold PerspPre
  rw [e, t, t, sabs_eq_abs, sub_zero, abs_abs, lits_radFull]
  have : (2 * Real.pi / 2 : ℝ) = Real.pi := by ring
  rw [this]
theorem code_perspective_accepts_iff_real (fovy a n f : ℝ) :
    ((t_perspective_ok (envL [fovy, a, n, f])).Consistent ∨ (t_perspective_ok_neg_aspect (envL [fovy, a, n, f])).Consistent) ↔
      0 < fovy ∧ fovy < Real.pi ∧ eps52R < |a| ∧ 0 < n ∧ 0 < f ∧ eps52R < |f - n| := by
  rw [perspective_accepts_iff, perspPre_real]
/-- not vacuous: the traced input `perspective 1 3/2 1 10` -/
example : (t_perspective_ok (envL [(1 : ℝ), 3 / 2, 1, 10])).Consistent := by
  have h : PerspPre (1 : ℝ) (3 / 2) 1 10 := by
    rw [perspPre_real]
    refine ⟨by norm_num, by linarith [Real.two_le_pi], ?_, by norm_num, by norm_num, ?_⟩
    · rw [abs_of_pos (by norm_num : (0 : ℝ) < 3 / 2)]; unfold eps52R; norm_num
    · rw [abs_of_pos (by norm_num : (0 : ℝ) < 10 - 1)]; unfold eps52R; norm_num
  rcases (perspective_accepts_iff _ _ _ _).2 h with h | h
  · exact h
  · rw [perspective_ok_neg_aspect_consistent] at h; norm_num at h
end concrete
end Cg.E2E.C10
