import Cgm.Trace.C04
import Cgm.Trace.C04Auto
import Cgm.Props.C04
/-!
# C04, end to end: Hamilton's algebra and the rotation action, stated about the definitions regenerated
from the source (see `Cgm/E2E/C02.lean` for how these are obtained)
-/
set_option linter.unusedSectionVars false
namespace Cg.E2E.C04
open Cg Cg.Gen.C04
variable {K : Type} [Field K] [Transc K] [FRem K] [Lits K]

/-- the product the code computes is the product of Mathlib's quaternions `ℍ[K]` with the same components; hence it is
associative, distributes over addition, has `one()` as identity, and the norm is multiplicative -/
theorem code_mul_is_hamilton (p q r : Quat K) :
    ∃ m : Quat K → Quat K → Quat K, (∀ a b, t_q_mul (envL (a.toList ++ b.toList)) = .okS (m a b).toList) ∧
      (∀ a b, (m a b).toH = a.toH * b.toH) ∧ m (m p q) r = m p (m q r) ∧ m p (q + r) = m p q + m p r ∧
      m Quat.one p = p ∧ m p Quat.one = p ∧ (m p q).magnitude2 = p.magnitude2 * q.magnitude2 ∧
      (m p q).conjugate = m q.conjugate p.conjugate :=
  ⟨(· * ·), fun a b => Trace.C04.t_q_mul a b, C04.toH_mul, C04.mul_assoc p q r, (C04.mul_add p q r).1,
    (C04.one_mul p).1, (C04.one_mul p).2, C04.magnitude2_mul p q, C04.conj_mul p q⟩

/-- `invert` as computed is a two-sided inverse of every quaternion of non-zero norm -/
theorem code_invert (q : Quat K) (h : q.magnitude2 ≠ 0) :
    ∃ i : Quat K, t_q_invert (envL q.toList) = .okS i.toList ∧ q * i = Quat.one ∧ i * q = Quat.one :=
  ⟨q.invert, Trace.C04.t_q_invert q, C04.mul_invert q h⟩

/-- `q * v` as computed is `v + 2 qv x (qv x v + s v)`; for unit `q` it is the vector part of `q (0,v) q*`, preserves
length and composes -/
theorem code_rotate (p q : Quat K) (v : V3 K) :
    ∃ r : Quat K → V3 K → V3 K, (∀ a w, t_q_mul_v (envL (a.toList ++ w.toList)) = .okS (r a w).toList) ∧
      (∀ a w, t_q_rotate_vector (envL (a.toList ++ w.toList)) = .okS (r a w).toList) ∧
      r q v = v + (V3.cross q.v (V3.cross q.v v + v * q.s)) * (2 : K) ∧
      (q.magnitude2 = 1 → q * Quat.fromSv 0 v * q.conjugate = Quat.fromSv 0 (r q v) ∧ (r q v).magnitude2 = v.magnitude2) ∧
      (p.magnitude2 = 1 → q.magnitude2 = 1 → r (p * q) v = r p (r q v)) :=
  ⟨fun a w => a * w, fun a w => Trace.C04.t_q_mul_v a w, fun a w => Trace.C04.t_q_rotate_vector a w, C04.rotate_def q v,
    fun hq => ⟨C04.rotate_sandwich q hq v, C04.rotate_norm q hq v⟩, fun hp hq => C04.mul_rotate p q hp hq v⟩
end Cg.E2E.C04
