import Cgm.Trace.C09Rest
import Cgm.Trace.C09
import Cgm.Trace.C08Paths
import Cgm.E2E.C09h
import Cgm.Lemmas.GuardSem
/-!
# C09, end to end, remaining kernels: the deprecated `Transform::look_at` entry points (`tlook_at*`) and
`Decomposed<Vector2, Basis2>::look_at` / `look_at_rh`, both sides of `Matrix2::look_at`'s comparison

* `Transform<Point3>::look_at` as computed agrees with the named entry point it forwards to: `Matrix3`: `look_at_lh`
  (= `Matrix3::look_to_lh(center - eye, up)`); `Matrix4`: `look_at_rh` (= `Matrix4::look_to_rh(eye, center - eye, up)`) -- so the
  clauses of `code_m3_look_at` / `code_look_at` hold for them;
* `Transform<Point2>::look_at` of `Matrix3` as computed is the homogeneous embedding of `Matrix2::look_at(center - eye, up)` as
  computed, on each side of its comparison `up.y * dir.x ≤ up.x * dir.y`; exactly one of the two paths is taken;
* `Decomposed<Vector2, Basis2>::look_at` as computed agrees with `look_at_lh`; both sides and the `_rh` variant (direction
  `eye - center`) are the model's `lookAtDir`: unit scale, rotation `Matrix2::look_at(dir, up)` (orthonormal, first column the
  normalised direction, determinant `-1` on the flip side, `+1` otherwise), and the eye goes to the origin.
-/
set_option linter.unusedSectionVars false
set_option linter.unusedVariables false
set_option linter.unusedSimpArgs false
namespace Cg.E2E.C09
open Cg Cg.Gen.C09

section field
variable {K : Type} [Field K] [LinearOrder K] [Transc K] [FRem K] [Lits K]

/-- the deprecated `Transform<Point3>::look_at` as computed is the entry point it forwards to, as computed -/
theorem code_tlook_at_agree (e c : P3 K) (u : V3 K) :
    t_m3_tlook_at (envL (e.toList ++ c.toList ++ u.toList)) = t_m3_tlook_at_lh (envL (e.toList ++ c.toList ++ u.toList)) ∧
    t_m3_tlook_at (envL (e.toList ++ c.toList ++ u.toList)) = t_m3_look_to_lh (envL ((c - e : V3 K).toList ++ u.toList)) ∧
    t_m4_tlook_at (envL (e.toList ++ c.toList ++ u.toList)) = t_m4_tlook_at_rh (envL (e.toList ++ c.toList ++ u.toList)) ∧
    t_m4_tlook_at (envL (e.toList ++ c.toList ++ u.toList)) = t_m4_look_at_rh (envL (e.toList ++ c.toList ++ u.toList)) ∧
    t_m4_tlook_at (envL (e.toList ++ c.toList ++ u.toList)) =
      t_m4_look_to_rh (envL (e.toList ++ (c - e : V3 K).toList ++ u.toList)) := by
  refine ⟨?_, ?_, ?_, ?_, ?_⟩
  · rw [Trace.C09Rest.t_m3_tlook_at, Trace.C09.t_m3_tlook_at_lh]
  · rw [Trace.C09Rest.t_m3_tlook_at, Trace.C09.t_m3_look_to_lh]; rfl
  · rw [Trace.C09Rest.t_m4_tlook_at, Trace.C09.t_m4_tlook_at_rh]
  · rw [Trace.C09Rest.t_m4_tlook_at, Trace.C09.t_m4_look_at_rh]
  · rw [Trace.C09Rest.t_m4_tlook_at, Trace.C09.t_m4_look_to_rh]; rfl

/-- `Transform<Point2>::look_at` of `Matrix3`, no-flip side: the embedding of `Matrix2::look_at(center - eye, up)` as computed (same
comparison recorded), and the same as `look_at_lh` as computed -/
theorem code_m3_tlook_at2_noflip (e c : P2 K) (u : V2 K) (h : ¬ u.y * (c - e : V2 K).x ≤ u.x * (c - e : V2 K).y) :
    ∃ (m : M2 K) (g : List (G K)), t_m2_look_at_noflip (envL ((c - e : V2 K).toList ++ u.toList)) = .okG m.toList g ∧
      t_m3_tlook_at2_noflip (envL (e.toList ++ c.toList ++ u.toList)) = .okG m.toM3.toList g ∧
      m = M2.lookAt (c - e) u ∧
      t_m3_tlook_at2_noflip (envL (e.toList ++ c.toList ++ u.toList)) = t_m3_tlook_at2_lh (envL (e.toList ++ c.toList ++ u.toList)) :=
  ⟨M2.lookAt (c - e) u, _, Trace.C09.t_m2_look_at_noflip (c - e) u h, Trace.C09Rest.t_m3_tlook_at2_noflip e c u h, rfl,
    by rw [Trace.C09Rest.t_m3_tlook_at2_noflip e c u h, Trace.C09.t_m3_tlook_at2_lh e c u h]⟩
/-- flip side -/
theorem code_m3_tlook_at2_flip (e c : P2 K) (u : V2 K) (h : u.y * (c - e : V2 K).x ≤ u.x * (c - e : V2 K).y) :
    ∃ (m : M2 K) (g : List (G K)), t_m2_look_at_flip (envL ((c - e : V2 K).toList ++ u.toList)) = .okG m.toList g ∧
      t_m3_tlook_at2_flip (envL (e.toList ++ c.toList ++ u.toList)) = .okG m.toM3.toList g ∧ m = M2.lookAt (c - e) u :=
  ⟨M2.lookAt (c - e) u, _, Trace.C09.t_m2_look_at_flip (c - e) u h, Trace.C09Rest.t_m3_tlook_at2_flip e c u h, rfl⟩

end field

section guards
variable {K : Type} [Field K] [LinearOrder K] [Approx K] [Transc K] [FRem K] [Lits K]
/-- `Decomposed<Vector2, Basis2>::look_at` (deprecated alias) as computed is `look_at_lh` as computed (no-flip side, the one
`look_at_lh` was traced on) -/
theorem code_db2_look_at_agree (e c : P2 K) (u : V2 K) (h : ¬ u.y * (c - e : V2 K).x ≤ u.x * (c - e : V2 K).y) :
    t_db2_look_at_noflip (envL (e.toList ++ c.toList ++ u.toList)) =
      Gen.C08.t_db2_look_at_lh (envL (e.toList ++ c.toList ++ u.toList)) := by
  rw [Trace.C09Rest.t_db2_look_at_noflip e c u h, Trace.C08Paths.t_db2_look_at_lh e c u h]; rfl
/-- the comparison each 2-D path records, for every input -/
theorem g_tlook_at2 (e c : P2 K) (u : V2 K) :
    (t_m3_tlook_at2_noflip (envL (e.toList ++ c.toList ++ u.toList))).guards =
      [.le (u.y * (c - e : V2 K).x) (u.x * (c - e : V2 K).y) false] ∧
    (t_m3_tlook_at2_flip (envL (e.toList ++ c.toList ++ u.toList))).guards =
      [.le (u.y * (c - e : V2 K).x) (u.x * (c - e : V2 K).y) true] ∧
    (t_db2_look_at_noflip (envL (e.toList ++ c.toList ++ u.toList))).guards =
      [.le (u.y * (c - e : V2 K).x) (u.x * (c - e : V2 K).y) false] ∧
    (t_db2_look_at_flip (envL (e.toList ++ c.toList ++ u.toList))).guards =
      [.le (u.y * (c - e : V2 K).x) (u.x * (c - e : V2 K).y) true] ∧
    (t_db2_look_at_rh_noflip (envL (e.toList ++ c.toList ++ u.toList))).guards =
      [.le (u.y * (e - c : V2 K).x) (u.x * (e - c : V2 K).y) false] ∧
    (t_db2_look_at_rh_flip (envL (e.toList ++ c.toList ++ u.toList))).guards =
      [.le (u.y * (e - c : V2 K).x) (u.x * (e - c : V2 K).y) true] := by
  refine ⟨?_, ?_, ?_, ?_, ?_, ?_⟩ <;> tr_auto_nf

/-- which side: the flip path is the one taken iff `up.y * dir.x ≤ up.x * dir.y`, the no-flip path iff not; exactly one is -/
theorem code_tlook_at2_paths (e c : P2 K) (u : V2 K) :
    ((t_m3_tlook_at2_flip (envL (e.toList ++ c.toList ++ u.toList))).Consistent ↔
      u.y * (c - e : V2 K).x ≤ u.x * (c - e : V2 K).y) ∧
    ((t_m3_tlook_at2_noflip (envL (e.toList ++ c.toList ++ u.toList))).Consistent ↔
      ¬ u.y * (c - e : V2 K).x ≤ u.x * (c - e : V2 K).y) ∧
    ((t_db2_look_at_flip (envL (e.toList ++ c.toList ++ u.toList))).Consistent ↔
      u.y * (c - e : V2 K).x ≤ u.x * (c - e : V2 K).y) ∧
    ((t_db2_look_at_noflip (envL (e.toList ++ c.toList ++ u.toList))).Consistent ↔
      ¬ u.y * (c - e : V2 K).x ≤ u.x * (c - e : V2 K).y) ∧
    ((t_db2_look_at_rh_flip (envL (e.toList ++ c.toList ++ u.toList))).Consistent ↔
      u.y * (e - c : V2 K).x ≤ u.x * (e - c : V2 K).y) ∧
    ((t_db2_look_at_rh_noflip (envL (e.toList ++ c.toList ++ u.toList))).Consistent ↔
      ¬ u.y * (e - c : V2 K).x ≤ u.x * (e - c : V2 K).y) ∧
    Tr.ExactlyOne [t_m3_tlook_at2_flip (envL (e.toList ++ c.toList ++ u.toList)),
      t_m3_tlook_at2_noflip (envL (e.toList ++ c.toList ++ u.toList))] ∧
    Tr.ExactlyOne [t_db2_look_at_flip (envL (e.toList ++ c.toList ++ u.toList)),
      t_db2_look_at_noflip (envL (e.toList ++ c.toList ++ u.toList))] ∧
    Tr.ExactlyOne [t_db2_look_at_rh_flip (envL (e.toList ++ c.toList ++ u.toList)),
      t_db2_look_at_rh_noflip (envL (e.toList ++ c.toList ++ u.toList))] := by
  obtain ⟨g1, g2, g3, g4, g5, g6⟩ := g_tlook_at2 e c u
  have c1 := show _ ↔ _ from (by rw [Tr.Consistent, g2]; simp :
    (t_m3_tlook_at2_flip (envL (e.toList ++ c.toList ++ u.toList))).Consistent ↔ u.y * (c - e : V2 K).x ≤ u.x * (c - e : V2 K).y)
  have c2 := show _ ↔ _ from (by rw [Tr.Consistent, g1]; simp :
    (t_m3_tlook_at2_noflip (envL (e.toList ++ c.toList ++ u.toList))).Consistent ↔ ¬ u.y * (c - e : V2 K).x ≤ u.x * (c - e : V2 K).y)
  have c3 := show _ ↔ _ from (by rw [Tr.Consistent, g4]; simp :
    (t_db2_look_at_flip (envL (e.toList ++ c.toList ++ u.toList))).Consistent ↔ u.y * (c - e : V2 K).x ≤ u.x * (c - e : V2 K).y)
  have c4 := show _ ↔ _ from (by rw [Tr.Consistent, g3]; simp :
    (t_db2_look_at_noflip (envL (e.toList ++ c.toList ++ u.toList))).Consistent ↔ ¬ u.y * (c - e : V2 K).x ≤ u.x * (c - e : V2 K).y)
  have c5 := show _ ↔ _ from (by rw [Tr.Consistent, g6]; simp :
    (t_db2_look_at_rh_flip (envL (e.toList ++ c.toList ++ u.toList))).Consistent ↔ u.y * (e - c : V2 K).x ≤ u.x * (e - c : V2 K).y)
  have c6 := show _ ↔ _ from (by rw [Tr.Consistent, g5]; simp :
    (t_db2_look_at_rh_noflip (envL (e.toList ++ c.toList ++ u.toList))).Consistent ↔ ¬ u.y * (e - c : V2 K).x ≤ u.x * (e - c : V2 K).y)
  refine ⟨c1, c2, c3, c4, c5, c6, ?_, ?_, ?_⟩ <;>
  · unfold Tr.ExactlyOne
    simp only [List.pairwise_cons, List.mem_cons, List.not_mem_nil, or_false, forall_eq_or_imp, forall_eq, exists_eq_or_imp,
      exists_eq_left, List.Pairwise.nil, and_true, IsEmpty.forall_iff, implies_true, false_imp_iff, exists_false,
      c1, c2, c3, c4, c5, c6]
    tauto
end guards

section real
variable [FRem ℝ] [Lits ℝ]
/-- **`Decomposed::<Vector2, Basis2>::look_at` / `look_at_rh` as computed**, on either side of the comparison (`dir = center - eye`
for `look_at`, `eye - center` for `look_at_rh`): unit scale, rotation `Matrix2::look_at(dir, up)` -- orthonormal, first column the
normalised direction, determinant `-1` on the flip side and `+1` otherwise --, and the eye goes to the origin -/
theorem code_db2_look_at_sides (eye center : P2 ℝ) (up : V2 ℝ) :
    ∀ (rh : Bool) (dir : V2 ℝ), dir = (if rh then (eye - center : V2 ℝ) else (center - eye : V2 ℝ)) → 0 < dir.magnitude2 →
    ∀ k : Tr ℝ, k = (if up.y * dir.x ≤ up.x * dir.y
        then (if rh then t_db2_look_at_rh_flip else t_db2_look_at_flip) (envL (eye.toList ++ center.toList ++ up.toList))
        else (if rh then t_db2_look_at_rh_noflip else t_db2_look_at_noflip) (envL (eye.toList ++ center.toList ++ up.toList))) →
    ∃ t : Trace.C09Rest.DB2 ℝ, k = .okG (Trace.C09Rest.flb2 t) [.le (up.y * dir.x) (up.x * dir.y) (decide (up.y * dir.x ≤ up.x * dir.y))] ∧
      t.scale = 1 ∧ t.rot.mat = M2.lookAt dir up ∧ t.rot.mat.x = dir * (1 / dir.magnitude) ∧
      t.rot.mat.transpose * t.rot.mat = M2.one ∧
      t.rot.mat.det = (if up.y * dir.x ≤ up.x * dir.y then -1 else 1) ∧ 0 ≤ V2.dot t.rot.mat.y up ∧
      t.transformPointV basis2Ops eye.toVec = V2.zero := by
  intro rh dir hdir hd k hk
  obtain ⟨s1, -, -, -, s5⟩ := C09.lookAt2_spec dir up hd
  obtain ⟨h1, h2, -, -⟩ := C09.lookAt2_det dir up hd
  refine ⟨Decomposed.lookAtDir basis2Ops dir up V2.zero eye.toVec, ?_, rfl, rfl, s1, h1, h2, s5, ?_⟩
  · by_cases h : up.y * dir.x ≤ up.x * dir.y
    · rw [hk, if_pos h, decide_eq_true h]
      cases rh
      · simp only [Bool.false_eq_true, if_false] at hdir ⊢; subst hdir
        exact Trace.C09Rest.t_db2_look_at_flip eye center up h
      · simp only [if_true] at hdir ⊢; subst hdir
        exact Trace.C09Rest.t_db2_look_at_rh_flip eye center up h
    · rw [hk, if_neg h, decide_eq_false h]
      cases rh
      · simp only [Bool.false_eq_true, if_false] at hdir ⊢; subst hdir
        exact Trace.C09Rest.t_db2_look_at_noflip eye center up h
      · simp only [if_true] at hdir ⊢; subst hdir
        exact Trace.C09Rest.t_db2_look_at_rh_noflip eye center up h
  · show (Basis2.lookAt dir up).rotateVector (eye.toVec * (1 : ℝ)) +
      (Basis2.lookAt dir up).rotateVector (V2.zero - eye.toVec) = V2.zero
    simp only [Basis2.rotateVector]
    ext <;> simp [V2.zero] <;> ring
/-- both sides occur: `up = (0, 1)`, direction `(1, 0)` is on the no-flip side, direction `(-1, 0)` on the flip side -/
example : ¬ ((1 : ℝ) * 1 ≤ 0 * 0) ∧ ((1 : ℝ) * (-1) ≤ 0 * 0) := by norm_num
end real
end Cg.E2E.C09
