import Cgm.Lemmas.GuardSem
import Cgm.E2E.C14b
/-!
# C14, end to end, with the guard semantics: the two paths of `nlerp` and the four of `slerp`

`nlerp` records `a.b < 0`; `slerp` records `a.b < 0`, the hand-over test `0.9995 < |a.b|` (written on `±a.b`), and either the
two clamp comparisons (far paths) or `nlerp`'s own sign test (near paths).  With `Tr.Consistent`
(`Cgm/Lemmas/GuardSem.lean`): each path is the one the code takes iff its path condition holds; exactly one of `nlerp`'s two
is, for every input; exactly one of `slerp`'s four is whenever `|a.b| ≤ 1`, in particular for unit quaternions.
-/
set_option linter.unusedSectionVars false
namespace Cg.E2E.C14
open Cg Cg.Gen.C14

section field
variable {K : Type} [Field K] [LinearOrder K] [IsStrictOrderedRing K] [Approx K] [Transc K] [FRem K] [Lits K]

theorem dot_neg (a b : Quat K) : Quat.dot a (-b) = -Quat.dot a b := by simp; ring

/-! ## the comparisons each path records, for every input -/
theorem g_q_nlerp_pos (a b : Quat K) (t : K) :
    (t_q_nlerp_pos (envL (a.toList ++ b.toList ++ [t]))).guards = [.lt (Quat.dot a b) 0 false] := by tr_auto_nf
theorem g_q_nlerp_neg (a b : Quat K) (t : K) :
    (t_q_nlerp_neg (envL (a.toList ++ b.toList ++ [t]))).guards = [.lt (Quat.dot a b) 0 true] := by tr_auto_nf
theorem g_q_slerp_far_pos (a b : Quat K) (t : K) :
    (t_q_slerp_far_pos (envL (a.toList ++ b.toList ++ [t]))).guards =
      [.lt (Quat.dot a b) 0 false, .lt Lits.thr (Quat.dot a b) false, .lt 1 (Quat.dot a b) false,
       .lt (Quat.dot a b) (-1) false] := by tr_auto_nf
theorem g_q_slerp_far_neg (a b : Quat K) (t : K) :
    (t_q_slerp_far_neg (envL (a.toList ++ b.toList ++ [t]))).guards =
      [.lt (Quat.dot a b) 0 true, .lt Lits.thr (-Quat.dot a b) false, .lt 1 (-Quat.dot a b) false,
       .lt (-Quat.dot a b) (-1) false] := by tr_auto_nf
theorem g_q_slerp_near (a b : Quat K) (t : K) :
    (t_q_slerp_near (envL (a.toList ++ b.toList ++ [t]))).guards =
      [.lt (Quat.dot a b) 0 false, .lt Lits.thr (Quat.dot a b) true, .lt (Quat.dot a b) 0 false] := by tr_auto_nf
theorem g_q_slerp_near_neg (a b : Quat K) (t : K) :
    (t_q_slerp_near_neg (envL (a.toList ++ b.toList ++ [t]))).guards =
      [.lt (Quat.dot a b) 0 true, .lt Lits.thr (-Quat.dot a b) true, .lt (Quat.dot a (-b)) 0 false] := by tr_auto_nf

/-! ## consistency of a path ↔ its path condition -/
theorem q_nlerp_pos_consistent (a b : Quat K) (t : K) :
    (t_q_nlerp_pos (envL (a.toList ++ b.toList ++ [t]))).Consistent ↔ ¬ Quat.dot a b < 0 := by
  rw [Tr.Consistent, g_q_nlerp_pos]; simp [-Quat.dot]
theorem q_nlerp_neg_consistent (a b : Quat K) (t : K) :
    (t_q_nlerp_neg (envL (a.toList ++ b.toList ++ [t]))).Consistent ↔ Quat.dot a b < 0 := by
  rw [Tr.Consistent, g_q_nlerp_neg]; simp [-Quat.dot]
/-- for every input exactly one of the two paths of `nlerp` is the one the code takes -/
theorem q_nlerp_exactly_one (a b : Quat K) (t : K) :
    Tr.ExactlyOne [t_q_nlerp_pos (envL (a.toList ++ b.toList ++ [t])), t_q_nlerp_neg (envL (a.toList ++ b.toList ++ [t]))] := by
  unfold Tr.ExactlyOne
  simp only [List.pairwise_cons, List.mem_cons, List.not_mem_nil, or_false, forall_eq_or_imp, forall_eq, exists_eq_or_imp,
    exists_eq_left, List.Pairwise.nil, and_true, IsEmpty.forall_iff, implies_true,
    q_nlerp_pos_consistent, q_nlerp_neg_consistent]
  by_cases h : Quat.dot a b < 0 <;> simp [h, -Quat.dot]

theorem q_slerp_far_pos_consistent (a b : Quat K) (t : K) :
    (t_q_slerp_far_pos (envL (a.toList ++ b.toList ++ [t]))).Consistent ↔
      ¬ Quat.dot a b < 0 ∧ ¬ Lits.thr < Quat.dot a b ∧ ¬ 1 < Quat.dot a b ∧ ¬ Quat.dot a b < -1 := by
  rw [Tr.Consistent, g_q_slerp_far_pos]; simp [-Quat.dot]
theorem q_slerp_far_neg_consistent (a b : Quat K) (t : K) :
    (t_q_slerp_far_neg (envL (a.toList ++ b.toList ++ [t]))).Consistent ↔
      Quat.dot a b < 0 ∧ ¬ Lits.thr < -Quat.dot a b ∧ ¬ 1 < -Quat.dot a b ∧ ¬ -Quat.dot a b < -1 := by
  rw [Tr.Consistent, g_q_slerp_far_neg]; simp [-Quat.dot]
theorem q_slerp_near_consistent (a b : Quat K) (t : K) :
    (t_q_slerp_near (envL (a.toList ++ b.toList ++ [t]))).Consistent ↔ ¬ Quat.dot a b < 0 ∧ Lits.thr < Quat.dot a b := by
  rw [Tr.Consistent, g_q_slerp_near]; simp [-Quat.dot]
  intro h _; exact h
theorem q_slerp_near_neg_consistent (a b : Quat K) (t : K) :
    (t_q_slerp_near_neg (envL (a.toList ++ b.toList ++ [t]))).Consistent ↔ Quat.dot a b < 0 ∧ Lits.thr < -Quat.dot a b := by
  rw [Tr.Consistent, g_q_slerp_near_neg, dot_neg]
  simp only [List.mem_cons, List.not_mem_nil, or_false, forall_eq_or_imp, forall_eq, G.holds_lt_true, G.holds_lt_false]
  constructor
  · rintro ⟨h1, h2, -⟩; exact ⟨h1, h2⟩
  · rintro ⟨h1, h2⟩; exact ⟨h1, h2, not_lt.2 (neg_nonneg.2 h1.le)⟩

/-- with `|a.b| ≤ 1` the clamp comparisons are determined, so the path conditions reduce to the two decisions -/
theorem q_slerp_far_pos_consistent' (a b : Quat K) (t : K) (hd : |Quat.dot a b| ≤ 1) :
    (t_q_slerp_far_pos (envL (a.toList ++ b.toList ++ [t]))).Consistent ↔ ¬ Quat.dot a b < 0 ∧ ¬ Lits.thr < Quat.dot a b := by
  rw [q_slerp_far_pos_consistent]
  obtain ⟨l1, l2⟩ := abs_le.mp hd
  exact ⟨fun h => ⟨h.1, h.2.1⟩, fun h => ⟨h.1, h.2, not_lt.2 l2, not_lt.2 l1⟩⟩
theorem q_slerp_far_neg_consistent' (a b : Quat K) (t : K) (hd : |Quat.dot a b| ≤ 1) :
    (t_q_slerp_far_neg (envL (a.toList ++ b.toList ++ [t]))).Consistent ↔ Quat.dot a b < 0 ∧ ¬ Lits.thr < -Quat.dot a b := by
  rw [q_slerp_far_neg_consistent]
  obtain ⟨l1, l2⟩ := abs_le.mp hd
  exact ⟨fun h => ⟨h.1, h.2.1⟩, fun h => ⟨h.1, h.2, not_lt.2 (by linarith), not_lt.2 (by linarith)⟩⟩

/-- whenever `|a.b| ≤ 1` exactly one of the four paths of `slerp` is the one the code takes -/
theorem q_slerp_exactly_one (a b : Quat K) (t : K) (hd : |Quat.dot a b| ≤ 1) :
    Tr.ExactlyOne [t_q_slerp_far_pos (envL (a.toList ++ b.toList ++ [t])), t_q_slerp_far_neg (envL (a.toList ++ b.toList ++ [t])),
      t_q_slerp_near (envL (a.toList ++ b.toList ++ [t])), t_q_slerp_near_neg (envL (a.toList ++ b.toList ++ [t]))] := by
  unfold Tr.ExactlyOne
  simp only [List.pairwise_cons, List.mem_cons, List.not_mem_nil, or_false, forall_eq_or_imp, forall_eq, exists_eq_or_imp,
    exists_eq_left, List.Pairwise.nil, and_true, IsEmpty.forall_iff, implies_true,
    q_slerp_far_pos_consistent' a b t hd, q_slerp_far_neg_consistent' a b t hd, q_slerp_near_consistent,
    q_slerp_near_neg_consistent]
  generalize Quat.dot a b = d
  by_cases h0 : d < 0 <;> by_cases h1 : Lits.thr < d <;> by_cases h2 : Lits.thr < -d <;> simp [h0, h1, h2]
end field

section real
variable [Approx ℝ]

/-- **`nlerp`, one statement**: for unit `a`, `b` and `t ∈ [0, 1]` exactly one of the two paths is the one the code takes (the
`neg` one iff `a.b < 0`), and on it the output is the flattening of ONE unit quaternion `r`, a non-negative combination of `a`
and `b' = ±b` with `a.b' = |a.b|` -/
theorem code_nlerp_exact (a b : Quat ℝ) (ha : a.magnitude2 = 1) (hb : b.magnitude2 = 1) (t : ℝ) (h0 : 0 ≤ t) (h1 : t ≤ 1) :
    Tr.ExactlyOne [t_q_nlerp_pos (envL (a.toList ++ b.toList ++ [t])), t_q_nlerp_neg (envL (a.toList ++ b.toList ++ [t]))] ∧
    ((t_q_nlerp_neg (envL (a.toList ++ b.toList ++ [t]))).Consistent ↔ Quat.dot a b < 0) ∧
    ∃ r : Quat ℝ, r.magnitude2 = 1 ∧ (∃ α β : ℝ, 0 ≤ α ∧ 0 ≤ β ∧ r = a * α + C14.flip a b * β) ∧
      (C14.flip a b = b ∨ C14.flip a b = -b) ∧ Quat.dot a (C14.flip a b) = |Quat.dot a b| ∧
      ∀ k ∈ [t_q_nlerp_pos (envL (a.toList ++ b.toList ++ [t])), t_q_nlerp_neg (envL (a.toList ++ b.toList ++ [t]))],
        k.Consistent → k.res = .ok ∧ k.out = r.toList ∧ ∀ r' : Quat ℝ, k.out = r'.toList → r' = r := by
  refine ⟨q_nlerp_exactly_one a b t, q_nlerp_neg_consistent a b t, ?_⟩
  obtain ⟨r, p1, p2, hu, hc, hf, hd⟩ := code_nlerp a b ha hb t h0 h1
  refine ⟨r, hu, hc, hf, hd, ?_⟩
  have fin : ∀ (k : Tr ℝ) (g : List (G ℝ)), k = .okG r.toList g →
      k.res = .ok ∧ k.out = r.toList ∧ ∀ r' : Quat ℝ, k.out = r'.toList → r' = r := by
    intro k g hk
    subst hk
    exact ⟨rfl, rfl, fun r' h => (Quat.toList_injective h).symm⟩
  intro k hk
  simp only [List.mem_cons, List.not_mem_nil, or_false] at hk
  rcases hk with rfl | rfl
  · intro hc; exact fin _ _ (p1 ((q_nlerp_pos_consistent a b t).1 hc))
  · intro hc; exact fin _ _ (p2 ((q_nlerp_neg_consistent a b t).1 hc))

/-- for unit quaternions: a far path is the one the code takes iff `|a.b| ≤ 0.9995`, a near path iff `0.9995 < |a.b|` -/
theorem q_slerp_far_iff (a b : Quat ℝ) (ha : a.magnitude2 = 1) (hb : b.magnitude2 = 1) (t : ℝ) :
    ((t_q_slerp_far_pos (envL (a.toList ++ b.toList ++ [t]))).Consistent ∨
      (t_q_slerp_far_neg (envL (a.toList ++ b.toList ++ [t]))).Consistent ↔ |Quat.dot a b| ≤ (0.9995 : ℝ)) ∧
    ((t_q_slerp_near (envL (a.toList ++ b.toList ++ [t]))).Consistent ∨
      (t_q_slerp_near_neg (envL (a.toList ++ b.toList ++ [t]))).Consistent ↔ (0.9995 : ℝ) < |Quat.dot a b|) := by
  have hd := C14.abs_dot_le_one a b ha hb
  rw [q_slerp_far_pos_consistent' a b t hd, q_slerp_far_neg_consistent' a b t hd, q_slerp_near_consistent,
    q_slerp_near_neg_consistent]
  exact slerp_paths_exhaustive a b

/-- **`slerp`, one statement**: for unit `a`, `b` and `t ∈ [0, 1]` exactly one of the four paths is the one the code takes (a far
one iff `|a.b| ≤ 0.9995`); on it the output is the flattening of ONE unit quaternion `r`, a non-negative combination of `a` and
`b' = ±b` with `a.b' = |a.b|`, equal to `a` at `t = 0` and to `b'` at `t = 1`; the arc from `a` to `r` is `t` times the whole arc
exactly when a far path is taken, and within `1e-5` rad in every case -/
theorem code_slerp_exact (a b : Quat ℝ) (ha : a.magnitude2 = 1) (hb : b.magnitude2 = 1) (t : ℝ) (h0 : 0 ≤ t) (h1 : t ≤ 1) :
    Tr.ExactlyOne [t_q_slerp_far_pos (envL (a.toList ++ b.toList ++ [t])), t_q_slerp_far_neg (envL (a.toList ++ b.toList ++ [t])),
      t_q_slerp_near (envL (a.toList ++ b.toList ++ [t])), t_q_slerp_near_neg (envL (a.toList ++ b.toList ++ [t]))] ∧
    ∃ r : Quat ℝ, r.magnitude2 = 1 ∧ (∃ α β : ℝ, 0 ≤ α ∧ 0 ≤ β ∧ r = a * α + C14.flip a b * β) ∧
      (C14.flip a b = b ∨ C14.flip a b = -b) ∧ Quat.dot a (C14.flip a b) = |Quat.dot a b| ∧
      (t = 0 → r = a) ∧ (t = 1 → r = C14.flip a b) ∧
      abs (Real.arccos (Quat.dot a r) - t * Real.arccos (abs (Quat.dot a b))) ≤ 1e-5 ∧
      ((t_q_slerp_far_pos (envL (a.toList ++ b.toList ++ [t]))).Consistent ∨
        (t_q_slerp_far_neg (envL (a.toList ++ b.toList ++ [t]))).Consistent →
          Real.arccos (Quat.dot a r) = t * Real.arccos |Quat.dot a b|) ∧
      ∀ k ∈ [t_q_slerp_far_pos (envL (a.toList ++ b.toList ++ [t])), t_q_slerp_far_neg (envL (a.toList ++ b.toList ++ [t])),
          t_q_slerp_near (envL (a.toList ++ b.toList ++ [t])), t_q_slerp_near_neg (envL (a.toList ++ b.toList ++ [t]))],
        k.Consistent → k.res = .ok ∧ k.out = r.toList ∧ ∀ r' : Quat ℝ, k.out = r'.toList → r' = r := by
  have hd := C14.abs_dot_le_one a b ha hb
  refine ⟨q_slerp_exactly_one a b t hd, ?_⟩
  obtain ⟨r, p1, p2, p3, p4, hu, hc, hf, hdd, e0, e1, harc⟩ := code_slerp_spec a b ha hb t h0 h1
  refine ⟨r, hu, hc, hf, hdd, e0, e1, harc, ?_, ?_⟩
  · rintro (h | h)
    · obtain ⟨k0, k1⟩ := (q_slerp_far_pos_consistent' a b t hd).1 h; exact (p1 k0 k1).2
    · obtain ⟨k0, k1⟩ := (q_slerp_far_neg_consistent' a b t hd).1 h; exact (p2 k0 k1).2
  have fin : ∀ (k : Tr ℝ) (g : List (G ℝ)), k = .okG r.toList g →
      k.res = .ok ∧ k.out = r.toList ∧ ∀ r' : Quat ℝ, k.out = r'.toList → r' = r := by
    intro k g hk
    subst hk
    exact ⟨rfl, rfl, fun r' h => (Quat.toList_injective h).symm⟩
  intro k hk
  simp only [List.mem_cons, List.not_mem_nil, or_false] at hk
  rcases hk with rfl | rfl | rfl | rfl
  · intro hc; obtain ⟨k0, k1⟩ := (q_slerp_far_pos_consistent' a b t hd).1 hc; exact fin _ _ (p1 k0 k1).1
  · intro hc; obtain ⟨k0, k1⟩ := (q_slerp_far_neg_consistent' a b t hd).1 hc; exact fin _ _ (p2 k0 k1).1
  · intro hc; obtain ⟨k0, k1⟩ := (q_slerp_near_consistent a b t).1 hc; exact fin _ _ (p3 k0 k1)
  · intro hc; obtain ⟨k0, k1⟩ := (q_slerp_near_neg_consistent a b t).1 hc; exact fin _ _ (p4 k0 k1)

/-- not vacuous: a far pair (`a.b = 0`) takes `far_pos`, a near pair (`a.b = 9999/10001`) takes `near` -/
example : let a : Quat ℝ := ⟨⟨0, 0, 0⟩, 1⟩
    let b : Quat ℝ := ⟨⟨1, 0, 0⟩, 0⟩
    let d : Quat ℝ := ⟨⟨200 / 10001, 0, 0⟩, 9999 / 10001⟩
    (t_q_slerp_far_pos (envL (a.toList ++ b.toList ++ [1 / 2]))).Consistent ∧
    (t_q_slerp_near (envL (a.toList ++ d.toList ++ [1 / 2]))).Consistent := by
  intro a b d
  rw [q_slerp_far_pos_consistent, q_slerp_near_consistent, lits_thr]
  refine ⟨?_, ?_⟩ <;> norm_num [a, b, d, Quat.dot]
end real
end Cg.E2E.C14
