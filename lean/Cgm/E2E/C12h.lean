import Cgm.E2E.C12
import Cgm.Trace.C12Auto
/-!
# C12 (completion), end to end: the affine laws for `Point1` / `Point2`, the component-wise scaling and element-wise family
(incl. `%`) and the point-vector `dot` for all three point types, `origin` / `from_vec` / `to_vec`, midpoint and centroid for
`Point2` (and `Point1`)
-/
set_option linter.unusedSectionVars false
namespace Cg.E2E.C12
open Cg Cg.Gen.C12
variable {K : Type} [Field K] [Transc K] [FRem K] [Lits K]

/-- `(p + v) - p = v`, `p + (q - p) = q`, `(p + v) + w = p + (v + w)`, `p - v = p + (-v)` for the `Point1` operators as computed -/
theorem code_affine1 (p q : P1 K) (v w : V1 K) :
    ∃ (add : P1 K → V1 K → P1 K) (sub : P1 K → P1 K → V1 K) (subv : P1 K → V1 K → P1 K),
      (∀ a b, t_p1_add_v (envL (a.toList ++ b.toList)) = .okS (add a b).toList) ∧
      (∀ a b, t_p1_sub_p (envL (a.toList ++ b.toList)) = .okS (sub a b).toList) ∧
      (∀ a b, t_p1_sub_v (envL (a.toList ++ b.toList)) = .okS (subv a b).toList) ∧
      sub (add p v) p = v ∧ add p (sub q p) = q ∧ add (add p v) w = add p (v + w) ∧ subv p v = add p (-v) := by
  have h := C12.P1.affine p q v w
  exact ⟨(· + ·), (· - ·), (· - ·), fun a b => Trace.C12Auto.t_p1_add_v a b, fun a b => Trace.C12Auto.t_p1_sub_p a b,
    fun a b => Trace.C12Auto.t_p1_sub_v a b, h.1, h.2.1, h.2.2.1, h.2.2.2⟩

/-- `(p + v) - p = v`, `p + (q - p) = q`, `(p + v) + w = p + (v + w)`, `p - v = p + (-v)` for the `Point2` operators as computed -/
theorem code_affine2 (p q : P2 K) (v w : V2 K) :
    ∃ (add : P2 K → V2 K → P2 K) (sub : P2 K → P2 K → V2 K) (subv : P2 K → V2 K → P2 K),
      (∀ a b, t_p2_add_v (envL (a.toList ++ b.toList)) = .okS (add a b).toList) ∧
      (∀ a b, t_p2_sub_p (envL (a.toList ++ b.toList)) = .okS (sub a b).toList) ∧
      (∀ a b, t_p2_sub_v (envL (a.toList ++ b.toList)) = .okS (subv a b).toList) ∧
      sub (add p v) p = v ∧ add p (sub q p) = q ∧ add (add p v) w = add p (v + w) ∧ subv p v = add p (-v) := by
  have h := C12.P2.affine p q v w
  exact ⟨(· + ·), (· - ·), (· - ·), fun a b => Trace.C12Auto.t_p2_add_v a b, fun a b => Trace.C12Auto.t_p2_sub_p a b,
    fun a b => Trace.C12Auto.t_p2_sub_v a b, h.1, h.2.1, h.2.2.1, h.2.2.2⟩

/-- `Point1`: scaling, the element-wise family (`%` included), `origin()`, `from_vec` / `to_vec`, `from_value` and the point-vector
`dot` as computed act on exactly the documented components -/
theorem code_p1_componentwise (p q : P1 K) (v : V1 K) (s : K) :
    t_p1_mul (envL (p.toList ++ [s])) = .okS [p.x * s] ∧
    t_p1_div (envL (p.toList ++ [s])) = .okS [p.x / s] ∧
    t_p1_rem (envL (p.toList ++ [s])) = .okS [FRem.frem p.x s] ∧
    t_p1_add_ew (envL (p.toList ++ q.toList)) = .okS [p.x + q.x] ∧
    t_p1_sub_ew (envL (p.toList ++ q.toList)) = .okS [p.x - q.x] ∧
    t_p1_mul_ew (envL (p.toList ++ q.toList)) = .okS [p.x * q.x] ∧
    t_p1_div_ew (envL (p.toList ++ q.toList)) = .okS [p.x / q.x] ∧
    t_p1_rem_ew (envL (p.toList ++ q.toList)) = .okS [FRem.frem p.x q.x] ∧
    t_p1_add_ews (envL (p.toList ++ [s])) = .okS [p.x + s] ∧
    t_p1_sub_ews (envL (p.toList ++ [s])) = .okS [p.x - s] ∧
    t_p1_mul_ews (envL (p.toList ++ [s])) = .okS [p.x * s] ∧
    t_p1_div_ews (envL (p.toList ++ [s])) = .okS [p.x / s] ∧
    t_p1_rem_ews (envL (p.toList ++ [s])) = .okS [FRem.frem p.x s] ∧
    t_p1_origin (envL ([] : List K)) = .okS [0] ∧
    t_p1_from_vec (envL v.toList) = .okS v.toList ∧
    t_p1_to_vec (envL p.toList) = .okS p.toList ∧
    t_p1_from_value (envL [s]) = .okS [s] ∧
    t_p1_dot (envL (p.toList ++ v.toList)) = .okS [p.x * v.x] := by
  refine ⟨?_, ?_, ?_, ?_, ?_, ?_, ?_, ?_, ?_, ?_, ?_, ?_, ?_, ?_, ?_, ?_, ?_, ?_⟩
  · rw [Trace.C12Auto.t_p1_mul]; rfl
  · rw [Trace.C12Auto.t_p1_div]; rfl
  · rw [Trace.C12Auto.t_p1_rem]; rfl
  · rw [Trace.C12Auto.t_p1_add_ew]; rfl
  · rw [Trace.C12Auto.t_p1_sub_ew]; rfl
  · rw [Trace.C12Auto.t_p1_mul_ew]; rfl
  · rw [Trace.C12Auto.t_p1_div_ew]; rfl
  · rw [Trace.C12Auto.t_p1_rem_ew]; rfl
  · rw [Trace.C12Auto.t_p1_add_ews]; rfl
  · rw [Trace.C12Auto.t_p1_sub_ews]; rfl
  · rw [Trace.C12Auto.t_p1_mul_ews]; rfl
  · rw [Trace.C12Auto.t_p1_div_ews]; rfl
  · rw [Trace.C12Auto.t_p1_rem_ews]; rfl
  · rw [Trace.C12Auto.t_p1_origin]; rfl
  · rw [Trace.C12Auto.t_p1_from_vec]; rfl
  · rw [Trace.C12Auto.t_p1_to_vec]; rfl
  · rw [Trace.C12Auto.t_p1_from_value]; rfl
  · rw [Trace.C12Auto.t_p1_dot]; rfl

/-- `Point2`: scaling, the element-wise family (`%` included), `origin()`, `from_vec` / `to_vec`, `from_value` and the point-vector
`dot` as computed act on exactly the documented components -/
theorem code_p2_componentwise (p q : P2 K) (v : V2 K) (s : K) :
    t_p2_mul (envL (p.toList ++ [s])) = .okS [p.x * s, p.y * s] ∧
    t_p2_div (envL (p.toList ++ [s])) = .okS [p.x / s, p.y / s] ∧
    t_p2_rem (envL (p.toList ++ [s])) = .okS [FRem.frem p.x s, FRem.frem p.y s] ∧
    t_p2_add_ew (envL (p.toList ++ q.toList)) = .okS [p.x + q.x, p.y + q.y] ∧
    t_p2_sub_ew (envL (p.toList ++ q.toList)) = .okS [p.x - q.x, p.y - q.y] ∧
    t_p2_mul_ew (envL (p.toList ++ q.toList)) = .okS [p.x * q.x, p.y * q.y] ∧
    t_p2_div_ew (envL (p.toList ++ q.toList)) = .okS [p.x / q.x, p.y / q.y] ∧
    t_p2_rem_ew (envL (p.toList ++ q.toList)) = .okS [FRem.frem p.x q.x, FRem.frem p.y q.y] ∧
    t_p2_add_ews (envL (p.toList ++ [s])) = .okS [p.x + s, p.y + s] ∧
    t_p2_sub_ews (envL (p.toList ++ [s])) = .okS [p.x - s, p.y - s] ∧
    t_p2_mul_ews (envL (p.toList ++ [s])) = .okS [p.x * s, p.y * s] ∧
    t_p2_div_ews (envL (p.toList ++ [s])) = .okS [p.x / s, p.y / s] ∧
    t_p2_rem_ews (envL (p.toList ++ [s])) = .okS [FRem.frem p.x s, FRem.frem p.y s] ∧
    t_p2_origin (envL ([] : List K)) = .okS [0, 0] ∧
    t_p2_from_vec (envL v.toList) = .okS v.toList ∧
    t_p2_to_vec (envL p.toList) = .okS p.toList ∧
    t_p2_from_value (envL [s]) = .okS [s, s] ∧
    t_p2_dot (envL (p.toList ++ v.toList)) = .okS [p.x * v.x + p.y * v.y] := by
  refine ⟨?_, ?_, ?_, ?_, ?_, ?_, ?_, ?_, ?_, ?_, ?_, ?_, ?_, ?_, ?_, ?_, ?_, ?_⟩
  · rw [Trace.C12Auto.t_p2_mul]; rfl
  · rw [Trace.C12Auto.t_p2_div]; rfl
  · rw [Trace.C12Auto.t_p2_rem]; rfl
  · rw [Trace.C12Auto.t_p2_add_ew]; rfl
  · rw [Trace.C12Auto.t_p2_sub_ew]; rfl
  · rw [Trace.C12Auto.t_p2_mul_ew]; rfl
  · rw [Trace.C12Auto.t_p2_div_ew]; rfl
  · rw [Trace.C12Auto.t_p2_rem_ew]; rfl
  · rw [Trace.C12Auto.t_p2_add_ews]; rfl
  · rw [Trace.C12Auto.t_p2_sub_ews]; rfl
  · rw [Trace.C12Auto.t_p2_mul_ews]; rfl
  · rw [Trace.C12Auto.t_p2_div_ews]; rfl
  · rw [Trace.C12Auto.t_p2_rem_ews]; rfl
  · rw [Trace.C12Auto.t_p2_origin]; rfl
  · rw [Trace.C12Auto.t_p2_from_vec]; rfl
  · rw [Trace.C12Auto.t_p2_to_vec]; rfl
  · rw [Trace.C12Auto.t_p2_from_value]; rfl
  · rw [Trace.C12Auto.t_p2_dot]; rfl

/-- `Point3`: scaling, the element-wise family (`%` included), `origin()`, `from_vec` / `to_vec`, `from_value` and the point-vector
`dot` as computed act on exactly the documented components -/
theorem code_p3_componentwise (p q : P3 K) (v : V3 K) (s : K) :
    t_p3_mul (envL (p.toList ++ [s])) = .okS [p.x * s, p.y * s, p.z * s] ∧
    t_p3_div (envL (p.toList ++ [s])) = .okS [p.x / s, p.y / s, p.z / s] ∧
    t_p3_rem (envL (p.toList ++ [s])) = .okS [FRem.frem p.x s, FRem.frem p.y s, FRem.frem p.z s] ∧
    t_p3_add_ew (envL (p.toList ++ q.toList)) = .okS [p.x + q.x, p.y + q.y, p.z + q.z] ∧
    t_p3_sub_ew (envL (p.toList ++ q.toList)) = .okS [p.x - q.x, p.y - q.y, p.z - q.z] ∧
    t_p3_mul_ew (envL (p.toList ++ q.toList)) = .okS [p.x * q.x, p.y * q.y, p.z * q.z] ∧
    t_p3_div_ew (envL (p.toList ++ q.toList)) = .okS [p.x / q.x, p.y / q.y, p.z / q.z] ∧
    t_p3_rem_ew (envL (p.toList ++ q.toList)) = .okS [FRem.frem p.x q.x, FRem.frem p.y q.y, FRem.frem p.z q.z] ∧
    t_p3_add_ews (envL (p.toList ++ [s])) = .okS [p.x + s, p.y + s, p.z + s] ∧
    t_p3_sub_ews (envL (p.toList ++ [s])) = .okS [p.x - s, p.y - s, p.z - s] ∧
    t_p3_mul_ews (envL (p.toList ++ [s])) = .okS [p.x * s, p.y * s, p.z * s] ∧
    t_p3_div_ews (envL (p.toList ++ [s])) = .okS [p.x / s, p.y / s, p.z / s] ∧
    t_p3_rem_ews (envL (p.toList ++ [s])) = .okS [FRem.frem p.x s, FRem.frem p.y s, FRem.frem p.z s] ∧
    t_p3_origin (envL ([] : List K)) = .okS [0, 0, 0] ∧
    t_p3_from_vec (envL v.toList) = .okS v.toList ∧
    t_p3_to_vec (envL p.toList) = .okS p.toList ∧
    t_p3_from_value (envL [s]) = .okS [s, s, s] ∧
    t_p3_dot (envL (p.toList ++ v.toList)) = .okS [p.x * v.x + p.y * v.y + p.z * v.z] := by
  refine ⟨?_, ?_, ?_, ?_, ?_, ?_, ?_, ?_, ?_, ?_, ?_, ?_, ?_, ?_, ?_, ?_, ?_, ?_⟩
  · rw [Trace.C12Auto.t_p3_mul]; rfl
  · rw [Trace.C12Auto.t_p3_div]; rfl
  · rw [Trace.C12Auto.t_p3_rem]; rfl
  · rw [Trace.C12Auto.t_p3_add_ew]; rfl
  · rw [Trace.C12Auto.t_p3_sub_ew]; rfl
  · rw [Trace.C12Auto.t_p3_mul_ew]; rfl
  · rw [Trace.C12Auto.t_p3_div_ew]; rfl
  · rw [Trace.C12Auto.t_p3_rem_ew]; rfl
  · rw [Trace.C12Auto.t_p3_add_ews]; rfl
  · rw [Trace.C12Auto.t_p3_sub_ews]; rfl
  · rw [Trace.C12Auto.t_p3_mul_ews]; rfl
  · rw [Trace.C12Auto.t_p3_div_ews]; rfl
  · rw [Trace.C12Auto.t_p3_rem_ews]; rfl
  · rw [Trace.C12Auto.t_p3_origin]; rfl
  · rw [Trace.C12Auto.t_p3_from_vec]; rfl
  · rw [Trace.C12Auto.t_p3_to_vec]; rfl
  · rw [Trace.C12Auto.t_p3_from_value]; rfl
  · rw [Trace.C12Auto.t_p3_dot]; exact congrArg (fun t : K => Tr.okS [t]) (add_assoc _ _ _).symm

/-- `midpoint` and `centroid` for `Point2` and `Point1` as computed: `midpoint(p, q) = p + (q - p)/2`; the centroid of a list
is the sum of the position vectors divided by the length (traced at lengths 1 and 2 in 2-D, 3 in 1-D) -/
theorem code_midpoint_centroid2 (p q : P2 K) (a b c : P1 K) :
    t_p2_midpoint (envL (p.toList ++ q.toList)) = .okS (p + (q - p : V2 K) / (2 : K)).toList ∧
    t_p1_midpoint (envL (a.toList ++ b.toList)) = .okS (a + (b - a : V1 K) / (2 : K)).toList ∧
    t_p2_centroid_1 (envL p.toList) = .okS [p.x / 1, p.y / 1] ∧
    (∃ m : P2 K, t_p2_centroid_2 (envL (p.toList ++ q.toList)) = .okS m.toList ∧
      m.x = (p.x + q.x) / 2 ∧ m.y = (p.y + q.y) / 2) ∧
    (∃ m : P1 K, t_p1_centroid (envL (a.toList ++ b.toList ++ c.toList)) = .okS m.toList ∧ m.x = (a.x + b.x + c.x) / 3) := by
  refine ⟨by rw [Trace.C12.t_p2_midpoint, C12.P2.midpoint_eq], by rw [Trace.C12Auto.t_p1_midpoint, C12.P1.midpoint_eq], ?_,
    ⟨P2.centroid [p, q], Trace.C12.t_p2_centroid_2 p q, ?_⟩, ⟨P1.centroid [a, b, c], Trace.C12Auto.t_p1_centroid a b c, ?_⟩⟩
  · rw [Trace.C12.t_p2_centroid_1]
    have h := C12.P2.centroid_eq [p]
    simp only [List.map, List.sum_cons, List.sum_nil, List.length, add_zero] at h
    norm_num at h
    simp [P2.toList, h.1, h.2]
  · have h := C12.P2.centroid_eq [p, q]
    simp only [List.map, List.sum_cons, List.sum_nil, List.length, add_zero] at h
    norm_num at h
    exact ⟨by rw [h.1], by rw [h.2]⟩
  · have h := C12.P1.centroid_eq [a, b, c]
    simp only [List.map, List.sum_cons, List.sum_nil, List.length, add_zero] at h
    norm_num at h
    rw [h]; ring
end Cg.E2E.C12
