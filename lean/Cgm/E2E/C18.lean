import Cgm.Trace.C18Rest
import Cgm.Props.C18c
import Cgm.Lemmas.GuardSem
/-!
# C18, end to end: `is_zero` of vectors and angles, `is_perpendicular`, as computed

The kernels `Cg.Gen.C18.t_*` return one boolean (`Tr.bools`) after the comparisons they record (`Tr.guards`).  A kernel is a
closed term: it "is the path the code takes on this input" iff its recorded comparisons come out as recorded
(`Tr.Consistent`, `Cgm/Lemmas/GuardSem.lean`).

* `VectorN::is_zero` (derived `PartialEq` against `zero()`, stopping at the first field that differs): the `true` kernel is
  consistent iff the vector is exactly zero, the `false_k` kernel iff component `k` is the first non-zero one; for every vector
  exactly one is consistent, and the consistent kernel's boolean is the model's `isZero`, which is `true` iff `u = zero`
  (`Props/C18b.lean`).
* `is_perpendicular`, `Rad::is_zero`, `Deg::is_zero`: one `ulps_eq!` against zero with the tolerances the recording scalar reports
  (`2^-52`, `4`): the `true` / `false` kernel is consistent iff that test comes out `true` / `false`; when these are the
  type's defaults the boolean is the model's predicate with `ulpsEqD`; over the reals (`open scoped Cg.RealApprox`) the
  `true` kernel is consistent iff `|u · v| ≤ 2^-52` -- what `real_ulpsEqD_zero` gives: four units in the last place of `x`
  never exceed `2^-52` when compared with `0`, so the ulps clause adds nothing.
-/
set_option linter.unusedSectionVars false
set_option linter.unusedVariables false
set_option linter.unusedSimpArgs false
namespace Cg.E2E.C18
open Cg Cg.Gen.C18 Cg.Trace.C18Rest

section field
variable {K : Type} [Field K] [LinearOrder K] [Approx K] [Transc K] [FRem K] [Lits K]

/-- the recording scalar's default tolerances are the type's: `default_epsilon = 2^-52`, `default_max_ulps = 4` -/
def DefaultTol (K : Type) [Field K] [Approx K] : Prop := (Approx.eps : K) = eps52 ∧ Approx.maxUlps K = 4
theorem ulpsEqD_of_defaultTol (h : DefaultTol K) (a b : K) : ulpsEqD a b = Approx.ulpsEq a b eps52 4 := by
  unfold ulpsEqD; rw [h.1, h.2]

/-! ## `is_zero` of vectors: the comparisons each path records, for every input -/
/-! ### `Vector1` -/
theorem g_v1_is_zero_true (u : V1 K) :
    (t_v1_is_zero_true (envL u.toList)).guards = [.eq u.x 0 true] := by simp [okB, envL, V1.toList, V2.toList, V3.toList, V4.toList]
theorem g_v1_is_zero_false_0 (u : V1 K) :
    (t_v1_is_zero_false_0 (envL u.toList)).guards = [.eq u.x 0 false] := by simp [okB, envL, V1.toList, V2.toList, V3.toList, V4.toList]
/-- this path is the one taken iff every component is zero -/
theorem v1_is_zero_true_consistent (u : V1 K) :
    (t_v1_is_zero_true (envL u.toList)).Consistent ↔ u.x = 0 := by
  rw [Tr.Consistent, g_v1_is_zero_true]; simp
/-- this path is the one taken iff component `x` is the first non-zero one -/
theorem v1_is_zero_false_0_consistent (u : V1 K) :
    (t_v1_is_zero_false_0 (envL u.toList)).Consistent ↔ u.x ≠ 0 := by
  rw [Tr.Consistent, g_v1_is_zero_false_0]; simp
/-- the `true` path is the one taken iff the vector is exactly `zero()` -/
theorem v1_is_zero_true_consistent_iff_zero (u : V1 K) :
    (t_v1_is_zero_true (envL u.toList)).Consistent ↔ u = V1.zero := by
  rw [v1_is_zero_true_consistent, ← Cg.C18.V1.isZero_iff, Cg.C18.V1.isZero_iff_eq]
/-- the traced paths of `Vector1::is_zero` on the input `u` -/
def v1IsZero (u : V1 K) : List (Tr K) :=
    [t_v1_is_zero_true (envL u.toList), t_v1_is_zero_false_0 (envL u.toList)]
/-- for every vector exactly one of the paths is the one taken -/
theorem v1_is_zero_exactly_one (u : V1 K) : Tr.ExactlyOne (v1IsZero u) := by
  unfold Tr.ExactlyOne v1IsZero
  simp only [List.pairwise_cons, List.mem_cons, List.not_mem_nil, or_false, forall_eq_or_imp, forall_eq, exists_eq_or_imp,
    exists_eq_left, List.Pairwise.nil, and_true, IsEmpty.forall_iff, implies_true, false_imp_iff, exists_false,
    v1_is_zero_true_consistent, v1_is_zero_false_0_consistent]
  by_cases hx : u.x = 0 <;> simp [hx]
/-- **`Vector1::is_zero` as computed**: exactly one traced path is taken; the path taken returns normally one boolean, the
model's `isZero`; and that is `true` iff the vector is exactly `zero()` (`false` as soon as one component is non-zero) -/
theorem code_v1_is_zero (u : V1 K) :
    Tr.ExactlyOne (v1IsZero u) ∧
    (∀ t ∈ v1IsZero u, t.Consistent → t.res = .ok ∧ t.out = [] ∧ t.bools = [u.isZero]) ∧
    (u.isZero = true ↔ u = V1.zero) ∧ (u.isZero = false ↔ u.x ≠ 0) := by
  refine ⟨v1_is_zero_exactly_one u, ?_, Cg.C18.V1.isZero_iff_eq u, ?_⟩
  · intro t ht
    simp only [v1IsZero, List.mem_cons, List.not_mem_nil, or_false] at ht
    rcases ht with rfl | rfl
    · intro hc
      have h0 := (v1_is_zero_true_consistent u).1 hc
      rw [(Trace.C18Rest.t_v1_is_zero_true u h0).1]; exact ⟨rfl, rfl, rfl⟩
    · intro hc
      have h0 := (v1_is_zero_false_0_consistent u).1 hc
      rw [(Trace.C18Rest.t_v1_is_zero_false_0 u h0).1]; exact ⟨rfl, rfl, rfl⟩
  · rw [← Bool.not_eq_true, Cg.C18.V1.isZero_iff]

/-! ### `Vector2` -/
theorem g_v2_is_zero_true (u : V2 K) :
    (t_v2_is_zero_true (envL u.toList)).guards = [.eq u.x 0 true, .eq u.y 0 true] := by simp [okB, envL, V1.toList, V2.toList, V3.toList, V4.toList]
theorem g_v2_is_zero_false_0 (u : V2 K) :
    (t_v2_is_zero_false_0 (envL u.toList)).guards = [.eq u.x 0 false] := by simp [okB, envL, V1.toList, V2.toList, V3.toList, V4.toList]
theorem g_v2_is_zero_false_1 (u : V2 K) :
    (t_v2_is_zero_false_1 (envL u.toList)).guards = [.eq u.x 0 true, .eq u.y 0 false] := by simp [okB, envL, V1.toList, V2.toList, V3.toList, V4.toList]
/-- this path is the one taken iff every component is zero -/
theorem v2_is_zero_true_consistent (u : V2 K) :
    (t_v2_is_zero_true (envL u.toList)).Consistent ↔ u.x = 0 ∧ u.y = 0 := by
  rw [Tr.Consistent, g_v2_is_zero_true]; simp
/-- this path is the one taken iff component `x` is the first non-zero one -/
theorem v2_is_zero_false_0_consistent (u : V2 K) :
    (t_v2_is_zero_false_0 (envL u.toList)).Consistent ↔ u.x ≠ 0 := by
  rw [Tr.Consistent, g_v2_is_zero_false_0]; simp
/-- this path is the one taken iff component `y` is the first non-zero one -/
theorem v2_is_zero_false_1_consistent (u : V2 K) :
    (t_v2_is_zero_false_1 (envL u.toList)).Consistent ↔ u.x = 0 ∧ u.y ≠ 0 := by
  rw [Tr.Consistent, g_v2_is_zero_false_1]; simp
/-- the `true` path is the one taken iff the vector is exactly `zero()` -/
theorem v2_is_zero_true_consistent_iff_zero (u : V2 K) :
    (t_v2_is_zero_true (envL u.toList)).Consistent ↔ u = V2.zero := by
  rw [v2_is_zero_true_consistent, ← Cg.C18.V2.isZero_iff, Cg.C18.V2.isZero_iff_eq]
/-- the traced paths of `Vector2::is_zero` on the input `u` -/
def v2IsZero (u : V2 K) : List (Tr K) :=
    [t_v2_is_zero_true (envL u.toList), t_v2_is_zero_false_0 (envL u.toList), t_v2_is_zero_false_1 (envL u.toList)]
/-- for every vector exactly one of the paths is the one taken -/
theorem v2_is_zero_exactly_one (u : V2 K) : Tr.ExactlyOne (v2IsZero u) := by
  unfold Tr.ExactlyOne v2IsZero
  simp only [List.pairwise_cons, List.mem_cons, List.not_mem_nil, or_false, forall_eq_or_imp, forall_eq, exists_eq_or_imp,
    exists_eq_left, List.Pairwise.nil, and_true, IsEmpty.forall_iff, implies_true, false_imp_iff, exists_false,
    v2_is_zero_true_consistent, v2_is_zero_false_0_consistent, v2_is_zero_false_1_consistent]
  by_cases hx : u.x = 0 <;> by_cases hy : u.y = 0 <;> simp [hx, hy]
/-- **`Vector2::is_zero` as computed**: exactly one traced path is taken; the path taken returns normally one boolean, the
model's `isZero`; and that is `true` iff the vector is exactly `zero()` (`false` as soon as one component is non-zero) -/
theorem code_v2_is_zero (u : V2 K) :
    Tr.ExactlyOne (v2IsZero u) ∧
    (∀ t ∈ v2IsZero u, t.Consistent → t.res = .ok ∧ t.out = [] ∧ t.bools = [u.isZero]) ∧
    (u.isZero = true ↔ u = V2.zero) ∧ (u.isZero = false ↔ u.x ≠ 0 ∨ u.y ≠ 0) := by
  refine ⟨v2_is_zero_exactly_one u, ?_, Cg.C18.V2.isZero_iff_eq u, ?_⟩
  · intro t ht
    simp only [v2IsZero, List.mem_cons, List.not_mem_nil, or_false] at ht
    rcases ht with rfl | rfl | rfl
    · intro hc
      have ⟨h0, h1⟩ := (v2_is_zero_true_consistent u).1 hc
      rw [(Trace.C18Rest.t_v2_is_zero_true u h0 h1).1]; exact ⟨rfl, rfl, rfl⟩
    · intro hc
      have h0 := (v2_is_zero_false_0_consistent u).1 hc
      rw [(Trace.C18Rest.t_v2_is_zero_false_0 u h0).1]; exact ⟨rfl, rfl, rfl⟩
    · intro hc
      have ⟨h0, h1⟩ := (v2_is_zero_false_1_consistent u).1 hc
      rw [(Trace.C18Rest.t_v2_is_zero_false_1 u h0 h1).1]; exact ⟨rfl, rfl, rfl⟩
  · rw [← Bool.not_eq_true, Cg.C18.V2.isZero_iff]
    tauto

/-! ### `Vector3` -/
theorem g_v3_is_zero_true (u : V3 K) :
    (t_v3_is_zero_true (envL u.toList)).guards = [.eq u.x 0 true, .eq u.y 0 true, .eq u.z 0 true] := by simp [okB, envL, V1.toList, V2.toList, V3.toList, V4.toList]
theorem g_v3_is_zero_false_0 (u : V3 K) :
    (t_v3_is_zero_false_0 (envL u.toList)).guards = [.eq u.x 0 false] := by simp [okB, envL, V1.toList, V2.toList, V3.toList, V4.toList]
theorem g_v3_is_zero_false_1 (u : V3 K) :
    (t_v3_is_zero_false_1 (envL u.toList)).guards = [.eq u.x 0 true, .eq u.y 0 false] := by simp [okB, envL, V1.toList, V2.toList, V3.toList, V4.toList]
theorem g_v3_is_zero_false_2 (u : V3 K) :
    (t_v3_is_zero_false_2 (envL u.toList)).guards = [.eq u.x 0 true, .eq u.y 0 true, .eq u.z 0 false] := by simp [okB, envL, V1.toList, V2.toList, V3.toList, V4.toList]
/-- this path is the one taken iff every component is zero -/
theorem v3_is_zero_true_consistent (u : V3 K) :
    (t_v3_is_zero_true (envL u.toList)).Consistent ↔ u.x = 0 ∧ u.y = 0 ∧ u.z = 0 := by
  rw [Tr.Consistent, g_v3_is_zero_true]; simp
/-- this path is the one taken iff component `x` is the first non-zero one -/
theorem v3_is_zero_false_0_consistent (u : V3 K) :
    (t_v3_is_zero_false_0 (envL u.toList)).Consistent ↔ u.x ≠ 0 := by
  rw [Tr.Consistent, g_v3_is_zero_false_0]; simp
/-- this path is the one taken iff component `y` is the first non-zero one -/
theorem v3_is_zero_false_1_consistent (u : V3 K) :
    (t_v3_is_zero_false_1 (envL u.toList)).Consistent ↔ u.x = 0 ∧ u.y ≠ 0 := by
  rw [Tr.Consistent, g_v3_is_zero_false_1]; simp
/-- this path is the one taken iff component `z` is the first non-zero one -/
theorem v3_is_zero_false_2_consistent (u : V3 K) :
    (t_v3_is_zero_false_2 (envL u.toList)).Consistent ↔ u.x = 0 ∧ u.y = 0 ∧ u.z ≠ 0 := by
  rw [Tr.Consistent, g_v3_is_zero_false_2]; simp
/-- the `true` path is the one taken iff the vector is exactly `zero()` -/
theorem v3_is_zero_true_consistent_iff_zero (u : V3 K) :
    (t_v3_is_zero_true (envL u.toList)).Consistent ↔ u = V3.zero := by
  rw [v3_is_zero_true_consistent, ← Cg.C18.V3.isZero_iff, Cg.C18.V3.isZero_iff_eq]
/-- the traced paths of `Vector3::is_zero` on the input `u` -/
def v3IsZero (u : V3 K) : List (Tr K) :=
    [t_v3_is_zero_true (envL u.toList), t_v3_is_zero_false_0 (envL u.toList), t_v3_is_zero_false_1 (envL u.toList), t_v3_is_zero_false_2 (envL u.toList)]
/-- for every vector exactly one of the paths is the one taken -/
theorem v3_is_zero_exactly_one (u : V3 K) : Tr.ExactlyOne (v3IsZero u) := by
  unfold Tr.ExactlyOne v3IsZero
  simp only [List.pairwise_cons, List.mem_cons, List.not_mem_nil, or_false, forall_eq_or_imp, forall_eq, exists_eq_or_imp,
    exists_eq_left, List.Pairwise.nil, and_true, IsEmpty.forall_iff, implies_true, false_imp_iff, exists_false,
    v3_is_zero_true_consistent, v3_is_zero_false_0_consistent, v3_is_zero_false_1_consistent, v3_is_zero_false_2_consistent]
  by_cases hx : u.x = 0 <;> by_cases hy : u.y = 0 <;> by_cases hz : u.z = 0 <;> simp [hx, hy, hz]
/-- **`Vector3::is_zero` as computed**: exactly one traced path is taken; the path taken returns normally one boolean, the
model's `isZero`; and that is `true` iff the vector is exactly `zero()` (`false` as soon as one component is non-zero) -/
theorem code_v3_is_zero (u : V3 K) :
    Tr.ExactlyOne (v3IsZero u) ∧
    (∀ t ∈ v3IsZero u, t.Consistent → t.res = .ok ∧ t.out = [] ∧ t.bools = [u.isZero]) ∧
    (u.isZero = true ↔ u = V3.zero) ∧ (u.isZero = false ↔ u.x ≠ 0 ∨ u.y ≠ 0 ∨ u.z ≠ 0) := by
  refine ⟨v3_is_zero_exactly_one u, ?_, Cg.C18.V3.isZero_iff_eq u, ?_⟩
  · intro t ht
    simp only [v3IsZero, List.mem_cons, List.not_mem_nil, or_false] at ht
    rcases ht with rfl | rfl | rfl | rfl
    · intro hc
      have ⟨h0, h1, h2⟩ := (v3_is_zero_true_consistent u).1 hc
      rw [(Trace.C18Rest.t_v3_is_zero_true u h0 h1 h2).1]; exact ⟨rfl, rfl, rfl⟩
    · intro hc
      have h0 := (v3_is_zero_false_0_consistent u).1 hc
      rw [(Trace.C18Rest.t_v3_is_zero_false_0 u h0).1]; exact ⟨rfl, rfl, rfl⟩
    · intro hc
      have ⟨h0, h1⟩ := (v3_is_zero_false_1_consistent u).1 hc
      rw [(Trace.C18Rest.t_v3_is_zero_false_1 u h0 h1).1]; exact ⟨rfl, rfl, rfl⟩
    · intro hc
      have ⟨h0, h1, h2⟩ := (v3_is_zero_false_2_consistent u).1 hc
      rw [(Trace.C18Rest.t_v3_is_zero_false_2 u h0 h1 h2).1]; exact ⟨rfl, rfl, rfl⟩
  · rw [← Bool.not_eq_true, Cg.C18.V3.isZero_iff]
    tauto

/-! ### `Vector4` -/
theorem g_v4_is_zero_true (u : V4 K) :
    (t_v4_is_zero_true (envL u.toList)).guards = [.eq u.x 0 true, .eq u.y 0 true, .eq u.z 0 true, .eq u.w 0 true] := by simp [okB, envL, V1.toList, V2.toList, V3.toList, V4.toList]
theorem g_v4_is_zero_false_0 (u : V4 K) :
    (t_v4_is_zero_false_0 (envL u.toList)).guards = [.eq u.x 0 false] := by simp [okB, envL, V1.toList, V2.toList, V3.toList, V4.toList]
theorem g_v4_is_zero_false_1 (u : V4 K) :
    (t_v4_is_zero_false_1 (envL u.toList)).guards = [.eq u.x 0 true, .eq u.y 0 false] := by simp [okB, envL, V1.toList, V2.toList, V3.toList, V4.toList]
theorem g_v4_is_zero_false_2 (u : V4 K) :
    (t_v4_is_zero_false_2 (envL u.toList)).guards = [.eq u.x 0 true, .eq u.y 0 true, .eq u.z 0 false] := by simp [okB, envL, V1.toList, V2.toList, V3.toList, V4.toList]
theorem g_v4_is_zero_false_3 (u : V4 K) :
    (t_v4_is_zero_false_3 (envL u.toList)).guards = [.eq u.x 0 true, .eq u.y 0 true, .eq u.z 0 true, .eq u.w 0 false] := by simp [okB, envL, V1.toList, V2.toList, V3.toList, V4.toList]
/-- this path is the one taken iff every component is zero -/
theorem v4_is_zero_true_consistent (u : V4 K) :
    (t_v4_is_zero_true (envL u.toList)).Consistent ↔ u.x = 0 ∧ u.y = 0 ∧ u.z = 0 ∧ u.w = 0 := by
  rw [Tr.Consistent, g_v4_is_zero_true]; simp
/-- this path is the one taken iff component `x` is the first non-zero one -/
theorem v4_is_zero_false_0_consistent (u : V4 K) :
    (t_v4_is_zero_false_0 (envL u.toList)).Consistent ↔ u.x ≠ 0 := by
  rw [Tr.Consistent, g_v4_is_zero_false_0]; simp
/-- this path is the one taken iff component `y` is the first non-zero one -/
theorem v4_is_zero_false_1_consistent (u : V4 K) :
    (t_v4_is_zero_false_1 (envL u.toList)).Consistent ↔ u.x = 0 ∧ u.y ≠ 0 := by
  rw [Tr.Consistent, g_v4_is_zero_false_1]; simp
/-- this path is the one taken iff component `z` is the first non-zero one -/
theorem v4_is_zero_false_2_consistent (u : V4 K) :
    (t_v4_is_zero_false_2 (envL u.toList)).Consistent ↔ u.x = 0 ∧ u.y = 0 ∧ u.z ≠ 0 := by
  rw [Tr.Consistent, g_v4_is_zero_false_2]; simp
/-- this path is the one taken iff component `w` is the first non-zero one -/
theorem v4_is_zero_false_3_consistent (u : V4 K) :
    (t_v4_is_zero_false_3 (envL u.toList)).Consistent ↔ u.x = 0 ∧ u.y = 0 ∧ u.z = 0 ∧ u.w ≠ 0 := by
  rw [Tr.Consistent, g_v4_is_zero_false_3]; simp
/-- the `true` path is the one taken iff the vector is exactly `zero()` -/
theorem v4_is_zero_true_consistent_iff_zero (u : V4 K) :
    (t_v4_is_zero_true (envL u.toList)).Consistent ↔ u = V4.zero := by
  rw [v4_is_zero_true_consistent, ← Cg.C18.V4.isZero_iff, Cg.C18.V4.isZero_iff_eq]
/-- the traced paths of `Vector4::is_zero` on the input `u` -/
def v4IsZero (u : V4 K) : List (Tr K) :=
    [t_v4_is_zero_true (envL u.toList), t_v4_is_zero_false_0 (envL u.toList), t_v4_is_zero_false_1 (envL u.toList), t_v4_is_zero_false_2 (envL u.toList), t_v4_is_zero_false_3 (envL u.toList)]
/-- for every vector exactly one of the paths is the one taken -/
theorem v4_is_zero_exactly_one (u : V4 K) : Tr.ExactlyOne (v4IsZero u) := by
  unfold Tr.ExactlyOne v4IsZero
  simp only [List.pairwise_cons, List.mem_cons, List.not_mem_nil, or_false, forall_eq_or_imp, forall_eq, exists_eq_or_imp,
    exists_eq_left, List.Pairwise.nil, and_true, IsEmpty.forall_iff, implies_true, false_imp_iff, exists_false,
    v4_is_zero_true_consistent, v4_is_zero_false_0_consistent, v4_is_zero_false_1_consistent, v4_is_zero_false_2_consistent, v4_is_zero_false_3_consistent]
  by_cases hx : u.x = 0 <;> by_cases hy : u.y = 0 <;> by_cases hz : u.z = 0 <;> by_cases hw : u.w = 0 <;> simp [hx, hy, hz, hw]
/-- **`Vector4::is_zero` as computed**: exactly one traced path is taken; the path taken returns normally one boolean, the
model's `isZero`; and that is `true` iff the vector is exactly `zero()` (`false` as soon as one component is non-zero) -/
theorem code_v4_is_zero (u : V4 K) :
    Tr.ExactlyOne (v4IsZero u) ∧
    (∀ t ∈ v4IsZero u, t.Consistent → t.res = .ok ∧ t.out = [] ∧ t.bools = [u.isZero]) ∧
    (u.isZero = true ↔ u = V4.zero) ∧ (u.isZero = false ↔ u.x ≠ 0 ∨ u.y ≠ 0 ∨ u.z ≠ 0 ∨ u.w ≠ 0) := by
  refine ⟨v4_is_zero_exactly_one u, ?_, Cg.C18.V4.isZero_iff_eq u, ?_⟩
  · intro t ht
    simp only [v4IsZero, List.mem_cons, List.not_mem_nil, or_false] at ht
    rcases ht with rfl | rfl | rfl | rfl | rfl
    · intro hc
      have ⟨h0, h1, h2, h3⟩ := (v4_is_zero_true_consistent u).1 hc
      rw [(Trace.C18Rest.t_v4_is_zero_true u h0 h1 h2 h3).1]; exact ⟨rfl, rfl, rfl⟩
    · intro hc
      have h0 := (v4_is_zero_false_0_consistent u).1 hc
      rw [(Trace.C18Rest.t_v4_is_zero_false_0 u h0).1]; exact ⟨rfl, rfl, rfl⟩
    · intro hc
      have ⟨h0, h1⟩ := (v4_is_zero_false_1_consistent u).1 hc
      rw [(Trace.C18Rest.t_v4_is_zero_false_1 u h0 h1).1]; exact ⟨rfl, rfl, rfl⟩
    · intro hc
      have ⟨h0, h1, h2⟩ := (v4_is_zero_false_2_consistent u).1 hc
      rw [(Trace.C18Rest.t_v4_is_zero_false_2 u h0 h1 h2).1]; exact ⟨rfl, rfl, rfl⟩
    · intro hc
      have ⟨h0, h1, h2, h3⟩ := (v4_is_zero_false_3_consistent u).1 hc
      rw [(Trace.C18Rest.t_v4_is_zero_false_3 u h0 h1 h2 h3).1]; exact ⟨rfl, rfl, rfl⟩
  · rw [← Bool.not_eq_true, Cg.C18.V4.isZero_iff]
    tauto

/-! ## `is_perpendicular`: one `ulps_eq!(dot, 0)` with the recording scalar's tolerances -/
/-! ### `Vector1` -/
theorem g_v1_is_perpendicular_true (u v : V1 K) :
    (t_v1_is_perpendicular_true (envL (u.toList ++ v.toList))).guards = [.ulps (u.dot v) 0 eps52 4 true] := by
  simp [eps52, envL, V1.toList, V1.dot]
theorem g_v1_is_perpendicular_false (u v : V1 K) :
    (t_v1_is_perpendicular_false (envL (u.toList ++ v.toList))).guards = [.ulps (u.dot v) 0 eps52 4 false] := by
  simp [eps52, envL, V1.toList, V1.dot]
/-- the `true` path is the one taken iff the approximate test on the dot product comes out `true` -/
theorem v1_is_perpendicular_true_consistent (u v : V1 K) :
    (t_v1_is_perpendicular_true (envL (u.toList ++ v.toList))).Consistent ↔ Approx.ulpsEq (u.dot v) 0 eps52 4 = true := by
  rw [Tr.Consistent, g_v1_is_perpendicular_true]; simp [-V1.dot]
/-- the `false` path is the one taken iff the approximate test on the dot product comes out `false` -/
theorem v1_is_perpendicular_false_consistent (u v : V1 K) :
    (t_v1_is_perpendicular_false (envL (u.toList ++ v.toList))).Consistent ↔ Approx.ulpsEq (u.dot v) 0 eps52 4 = false := by
  rw [Tr.Consistent, g_v1_is_perpendicular_false]; simp [-V1.dot]
/-- the two traced paths of `Vector1::is_perpendicular` -/
def v1IsPerp (u v : V1 K) : List (Tr K) :=
  [t_v1_is_perpendicular_true (envL (u.toList ++ v.toList)), t_v1_is_perpendicular_false (envL (u.toList ++ v.toList))]
theorem v1_is_perpendicular_exactly_one (u v : V1 K) : Tr.ExactlyOne (v1IsPerp u v) := by
  unfold Tr.ExactlyOne v1IsPerp
  simp only [List.pairwise_cons, List.mem_cons, List.not_mem_nil, or_false, forall_eq_or_imp, forall_eq, exists_eq_or_imp,
    exists_eq_left, List.Pairwise.nil, and_true, IsEmpty.forall_iff, implies_true, false_imp_iff, exists_false,
    v1_is_perpendicular_true_consistent, v1_is_perpendicular_false_consistent]
  cases Approx.ulpsEq (u.dot v) 0 eps52 4 <;> simp
/-- **`Vector1::is_perpendicular` as computed**, when the recording scalar's tolerances are the type's defaults: exactly one
path is taken, it returns the model's predicate (`ulps_eq!(u · v, 0)`), and the `true` path is taken iff that predicate holds -/
theorem code_v1_is_perpendicular (hd : DefaultTol K) (u v : V1 K) :
    Tr.ExactlyOne (v1IsPerp u v) ∧
    (∀ t ∈ v1IsPerp u v, t.Consistent → t.res = .ok ∧ t.out = [] ∧ t.bools = [V1.isPerpendicular ulpsEqD u v]) ∧
    ((t_v1_is_perpendicular_true (envL (u.toList ++ v.toList))).Consistent ↔ V1.isPerpendicular ulpsEqD u v = true) ∧
    ((t_v1_is_perpendicular_false (envL (u.toList ++ v.toList))).Consistent ↔ V1.isPerpendicular ulpsEqD u v = false) ∧
    (V1.isPerpendicular ulpsEqD u v = true ↔ ulpsEqD (u.dot v) 0 = true) := by
  have hp : V1.isPerpendicular ulpsEqD u v = Approx.ulpsEq (u.dot v) 0 eps52 4 := by
    rw [← ulpsEqD_of_defaultTol hd]; rfl
  refine ⟨v1_is_perpendicular_exactly_one u v, ?_, ?_, ?_, ?_⟩
  · intro t ht
    simp only [v1IsPerp, List.mem_cons, List.not_mem_nil, or_false] at ht
    rcases ht with rfl | rfl
    · intro hc
      have h := (v1_is_perpendicular_true_consistent u v).1 hc
      rw [← ulpsEqD_of_defaultTol hd] at h
      rw [(Trace.C18Rest.t_v1_is_perpendicular_true u v h).1]; exact ⟨rfl, rfl, rfl⟩
    · intro hc
      have h := (v1_is_perpendicular_false_consistent u v).1 hc
      rw [← ulpsEqD_of_defaultTol hd] at h
      rw [(Trace.C18Rest.t_v1_is_perpendicular_false u v h).1]; exact ⟨rfl, rfl, rfl⟩
  · rw [v1_is_perpendicular_true_consistent, hp]
  · rw [v1_is_perpendicular_false_consistent, hp]
  · exact (Cg.C18.isPerpendicular_iff_dot ulpsEqD (a1 := u) (b1 := v) (a2 := V2.zero) (b2 := V2.zero)
      (a3 := V3.zero) (b3 := V3.zero) (a4 := V4.zero) (b4 := V4.zero) (p := Quat.zero) (q := Quat.zero)).1

/-! ### `Vector2` -/
theorem g_v2_is_perpendicular_true (u v : V2 K) :
    (t_v2_is_perpendicular_true (envL (u.toList ++ v.toList))).guards = [.ulps (u.dot v) 0 eps52 4 true] := by
  simp [eps52, envL, V2.toList, V2.dot]
theorem g_v2_is_perpendicular_false (u v : V2 K) :
    (t_v2_is_perpendicular_false (envL (u.toList ++ v.toList))).guards = [.ulps (u.dot v) 0 eps52 4 false] := by
  simp [eps52, envL, V2.toList, V2.dot]
/-- the `true` path is the one taken iff the approximate test on the dot product comes out `true` -/
theorem v2_is_perpendicular_true_consistent (u v : V2 K) :
    (t_v2_is_perpendicular_true (envL (u.toList ++ v.toList))).Consistent ↔ Approx.ulpsEq (u.dot v) 0 eps52 4 = true := by
  rw [Tr.Consistent, g_v2_is_perpendicular_true]; simp [-V2.dot]
/-- the `false` path is the one taken iff the approximate test on the dot product comes out `false` -/
theorem v2_is_perpendicular_false_consistent (u v : V2 K) :
    (t_v2_is_perpendicular_false (envL (u.toList ++ v.toList))).Consistent ↔ Approx.ulpsEq (u.dot v) 0 eps52 4 = false := by
  rw [Tr.Consistent, g_v2_is_perpendicular_false]; simp [-V2.dot]
/-- the two traced paths of `Vector2::is_perpendicular` -/
def v2IsPerp (u v : V2 K) : List (Tr K) :=
  [t_v2_is_perpendicular_true (envL (u.toList ++ v.toList)), t_v2_is_perpendicular_false (envL (u.toList ++ v.toList))]
theorem v2_is_perpendicular_exactly_one (u v : V2 K) : Tr.ExactlyOne (v2IsPerp u v) := by
  unfold Tr.ExactlyOne v2IsPerp
  simp only [List.pairwise_cons, List.mem_cons, List.not_mem_nil, or_false, forall_eq_or_imp, forall_eq, exists_eq_or_imp,
    exists_eq_left, List.Pairwise.nil, and_true, IsEmpty.forall_iff, implies_true, false_imp_iff, exists_false,
    v2_is_perpendicular_true_consistent, v2_is_perpendicular_false_consistent]
  cases Approx.ulpsEq (u.dot v) 0 eps52 4 <;> simp
/-- **`Vector2::is_perpendicular` as computed**, when the recording scalar's tolerances are the type's defaults: exactly one
path is taken, it returns the model's predicate (`ulps_eq!(u · v, 0)`), and the `true` path is taken iff that predicate holds -/
theorem code_v2_is_perpendicular (hd : DefaultTol K) (u v : V2 K) :
    Tr.ExactlyOne (v2IsPerp u v) ∧
    (∀ t ∈ v2IsPerp u v, t.Consistent → t.res = .ok ∧ t.out = [] ∧ t.bools = [V2.isPerpendicular ulpsEqD u v]) ∧
    ((t_v2_is_perpendicular_true (envL (u.toList ++ v.toList))).Consistent ↔ V2.isPerpendicular ulpsEqD u v = true) ∧
    ((t_v2_is_perpendicular_false (envL (u.toList ++ v.toList))).Consistent ↔ V2.isPerpendicular ulpsEqD u v = false) ∧
    (V2.isPerpendicular ulpsEqD u v = true ↔ ulpsEqD (u.dot v) 0 = true) := by
  have hp : V2.isPerpendicular ulpsEqD u v = Approx.ulpsEq (u.dot v) 0 eps52 4 := by
    rw [← ulpsEqD_of_defaultTol hd]; rfl
  refine ⟨v2_is_perpendicular_exactly_one u v, ?_, ?_, ?_, ?_⟩
  · intro t ht
    simp only [v2IsPerp, List.mem_cons, List.not_mem_nil, or_false] at ht
    rcases ht with rfl | rfl
    · intro hc
      have h := (v2_is_perpendicular_true_consistent u v).1 hc
      rw [← ulpsEqD_of_defaultTol hd] at h
      rw [(Trace.C18Rest.t_v2_is_perpendicular_true u v h).1]; exact ⟨rfl, rfl, rfl⟩
    · intro hc
      have h := (v2_is_perpendicular_false_consistent u v).1 hc
      rw [← ulpsEqD_of_defaultTol hd] at h
      rw [(Trace.C18Rest.t_v2_is_perpendicular_false u v h).1]; exact ⟨rfl, rfl, rfl⟩
  · rw [v2_is_perpendicular_true_consistent, hp]
  · rw [v2_is_perpendicular_false_consistent, hp]
  · exact (Cg.C18.isPerpendicular_iff_dot ulpsEqD (a1 := V1.zero) (b1 := V1.zero) (a2 := u) (b2 := v)
      (a3 := V3.zero) (b3 := V3.zero) (a4 := V4.zero) (b4 := V4.zero) (p := Quat.zero) (q := Quat.zero)).2.1

/-! ### `Vector3` -/
theorem g_v3_is_perpendicular_true (u v : V3 K) :
    (t_v3_is_perpendicular_true (envL (u.toList ++ v.toList))).guards = [.ulps (u.dot v) 0 eps52 4 true] := by
  simp [eps52, envL, V3.toList, V3.dot]
theorem g_v3_is_perpendicular_false (u v : V3 K) :
    (t_v3_is_perpendicular_false (envL (u.toList ++ v.toList))).guards = [.ulps (u.dot v) 0 eps52 4 false] := by
  simp [eps52, envL, V3.toList, V3.dot]
/-- the `true` path is the one taken iff the approximate test on the dot product comes out `true` -/
theorem v3_is_perpendicular_true_consistent (u v : V3 K) :
    (t_v3_is_perpendicular_true (envL (u.toList ++ v.toList))).Consistent ↔ Approx.ulpsEq (u.dot v) 0 eps52 4 = true := by
  rw [Tr.Consistent, g_v3_is_perpendicular_true]; simp [-V3.dot]
/-- the `false` path is the one taken iff the approximate test on the dot product comes out `false` -/
theorem v3_is_perpendicular_false_consistent (u v : V3 K) :
    (t_v3_is_perpendicular_false (envL (u.toList ++ v.toList))).Consistent ↔ Approx.ulpsEq (u.dot v) 0 eps52 4 = false := by
  rw [Tr.Consistent, g_v3_is_perpendicular_false]; simp [-V3.dot]
/-- the two traced paths of `Vector3::is_perpendicular` -/
def v3IsPerp (u v : V3 K) : List (Tr K) :=
  [t_v3_is_perpendicular_true (envL (u.toList ++ v.toList)), t_v3_is_perpendicular_false (envL (u.toList ++ v.toList))]
theorem v3_is_perpendicular_exactly_one (u v : V3 K) : Tr.ExactlyOne (v3IsPerp u v) := by
  unfold Tr.ExactlyOne v3IsPerp
  simp only [List.pairwise_cons, List.mem_cons, List.not_mem_nil, or_false, forall_eq_or_imp, forall_eq, exists_eq_or_imp,
    exists_eq_left, List.Pairwise.nil, and_true, IsEmpty.forall_iff, implies_true, false_imp_iff, exists_false,
    v3_is_perpendicular_true_consistent, v3_is_perpendicular_false_consistent]
  cases Approx.ulpsEq (u.dot v) 0 eps52 4 <;> simp
/-- **`Vector3::is_perpendicular` as computed**, when the recording scalar's tolerances are the type's defaults: exactly one
path is taken, it returns the model's predicate (`ulps_eq!(u · v, 0)`), and the `true` path is taken iff that predicate holds -/
theorem code_v3_is_perpendicular (hd : DefaultTol K) (u v : V3 K) :
    Tr.ExactlyOne (v3IsPerp u v) ∧
    (∀ t ∈ v3IsPerp u v, t.Consistent → t.res = .ok ∧ t.out = [] ∧ t.bools = [V3.isPerpendicular ulpsEqD u v]) ∧
    ((t_v3_is_perpendicular_true (envL (u.toList ++ v.toList))).Consistent ↔ V3.isPerpendicular ulpsEqD u v = true) ∧
    ((t_v3_is_perpendicular_false (envL (u.toList ++ v.toList))).Consistent ↔ V3.isPerpendicular ulpsEqD u v = false) ∧
    (V3.isPerpendicular ulpsEqD u v = true ↔ ulpsEqD (u.dot v) 0 = true) := by
  have hp : V3.isPerpendicular ulpsEqD u v = Approx.ulpsEq (u.dot v) 0 eps52 4 := by
    rw [← ulpsEqD_of_defaultTol hd]; rfl
  refine ⟨v3_is_perpendicular_exactly_one u v, ?_, ?_, ?_, ?_⟩
  · intro t ht
    simp only [v3IsPerp, List.mem_cons, List.not_mem_nil, or_false] at ht
    rcases ht with rfl | rfl
    · intro hc
      have h := (v3_is_perpendicular_true_consistent u v).1 hc
      rw [← ulpsEqD_of_defaultTol hd] at h
      rw [(Trace.C18Rest.t_v3_is_perpendicular_true u v h).1]; exact ⟨rfl, rfl, rfl⟩
    · intro hc
      have h := (v3_is_perpendicular_false_consistent u v).1 hc
      rw [← ulpsEqD_of_defaultTol hd] at h
      rw [(Trace.C18Rest.t_v3_is_perpendicular_false u v h).1]; exact ⟨rfl, rfl, rfl⟩
  · rw [v3_is_perpendicular_true_consistent, hp]
  · rw [v3_is_perpendicular_false_consistent, hp]
  · exact (Cg.C18.isPerpendicular_iff_dot ulpsEqD (a1 := V1.zero) (b1 := V1.zero) (a2 := V2.zero) (b2 := V2.zero)
      (a3 := u) (b3 := v) (a4 := V4.zero) (b4 := V4.zero) (p := Quat.zero) (q := Quat.zero)).2.2.1

/-! ### `Vector4` -/
theorem g_v4_is_perpendicular_true (u v : V4 K) :
    (t_v4_is_perpendicular_true (envL (u.toList ++ v.toList))).guards = [.ulps (u.dot v) 0 eps52 4 true] := by
  simp [eps52, envL, V4.toList, V4.dot]
theorem g_v4_is_perpendicular_false (u v : V4 K) :
    (t_v4_is_perpendicular_false (envL (u.toList ++ v.toList))).guards = [.ulps (u.dot v) 0 eps52 4 false] := by
  simp [eps52, envL, V4.toList, V4.dot]
/-- the `true` path is the one taken iff the approximate test on the dot product comes out `true` -/
theorem v4_is_perpendicular_true_consistent (u v : V4 K) :
    (t_v4_is_perpendicular_true (envL (u.toList ++ v.toList))).Consistent ↔ Approx.ulpsEq (u.dot v) 0 eps52 4 = true := by
  rw [Tr.Consistent, g_v4_is_perpendicular_true]; simp [-V4.dot]
/-- the `false` path is the one taken iff the approximate test on the dot product comes out `false` -/
theorem v4_is_perpendicular_false_consistent (u v : V4 K) :
    (t_v4_is_perpendicular_false (envL (u.toList ++ v.toList))).Consistent ↔ Approx.ulpsEq (u.dot v) 0 eps52 4 = false := by
  rw [Tr.Consistent, g_v4_is_perpendicular_false]; simp [-V4.dot]
/-- the two traced paths of `Vector4::is_perpendicular` -/
def v4IsPerp (u v : V4 K) : List (Tr K) :=
  [t_v4_is_perpendicular_true (envL (u.toList ++ v.toList)), t_v4_is_perpendicular_false (envL (u.toList ++ v.toList))]
theorem v4_is_perpendicular_exactly_one (u v : V4 K) : Tr.ExactlyOne (v4IsPerp u v) := by
  unfold Tr.ExactlyOne v4IsPerp
  simp only [List.pairwise_cons, List.mem_cons, List.not_mem_nil, or_false, forall_eq_or_imp, forall_eq, exists_eq_or_imp,
    exists_eq_left, List.Pairwise.nil, and_true, IsEmpty.forall_iff, implies_true, false_imp_iff, exists_false,
    v4_is_perpendicular_true_consistent, v4_is_perpendicular_false_consistent]
  cases Approx.ulpsEq (u.dot v) 0 eps52 4 <;> simp
/-- **`Vector4::is_perpendicular` as computed**, when the recording scalar's tolerances are the type's defaults: exactly one
path is taken, it returns the model's predicate (`ulps_eq!(u · v, 0)`), and the `true` path is taken iff that predicate holds -/
theorem code_v4_is_perpendicular (hd : DefaultTol K) (u v : V4 K) :
    Tr.ExactlyOne (v4IsPerp u v) ∧
    (∀ t ∈ v4IsPerp u v, t.Consistent → t.res = .ok ∧ t.out = [] ∧ t.bools = [V4.isPerpendicular ulpsEqD u v]) ∧
    ((t_v4_is_perpendicular_true (envL (u.toList ++ v.toList))).Consistent ↔ V4.isPerpendicular ulpsEqD u v = true) ∧
    ((t_v4_is_perpendicular_false (envL (u.toList ++ v.toList))).Consistent ↔ V4.isPerpendicular ulpsEqD u v = false) ∧
    (V4.isPerpendicular ulpsEqD u v = true ↔ ulpsEqD (u.dot v) 0 = true) := by
  have hp : V4.isPerpendicular ulpsEqD u v = Approx.ulpsEq (u.dot v) 0 eps52 4 := by
    rw [← ulpsEqD_of_defaultTol hd]; rfl
  refine ⟨v4_is_perpendicular_exactly_one u v, ?_, ?_, ?_, ?_⟩
  · intro t ht
    simp only [v4IsPerp, List.mem_cons, List.not_mem_nil, or_false] at ht
    rcases ht with rfl | rfl
    · intro hc
      have h := (v4_is_perpendicular_true_consistent u v).1 hc
      rw [← ulpsEqD_of_defaultTol hd] at h
      rw [(Trace.C18Rest.t_v4_is_perpendicular_true u v h).1]; exact ⟨rfl, rfl, rfl⟩
    · intro hc
      have h := (v4_is_perpendicular_false_consistent u v).1 hc
      rw [← ulpsEqD_of_defaultTol hd] at h
      rw [(Trace.C18Rest.t_v4_is_perpendicular_false u v h).1]; exact ⟨rfl, rfl, rfl⟩
  · rw [v4_is_perpendicular_true_consistent, hp]
  · rw [v4_is_perpendicular_false_consistent, hp]
  · exact (Cg.C18.isPerpendicular_iff_dot ulpsEqD (a1 := V1.zero) (b1 := V1.zero) (a2 := V2.zero) (b2 := V2.zero)
      (a3 := V3.zero) (b3 := V3.zero) (a4 := u) (b4 := v) (p := Quat.zero) (q := Quat.zero)).2.2.2.1

/-! ## `Rad::is_zero`, `Deg::is_zero` -/
theorem g_rad_is_zero_true (x : K) : (t_rad_is_zero_true (envL [x])).guards = [.ulps x 0 eps52 4 true] := by
  simp [eps52, envL]
theorem g_rad_is_zero_false (x : K) : (t_rad_is_zero_false (envL [x])).guards = [.ulps x 0 eps52 4 false] := by
  simp [eps52, envL]
theorem rad_is_zero_true_consistent (x : K) :
    (t_rad_is_zero_true (envL [x])).Consistent ↔ Approx.ulpsEq x 0 eps52 4 = true := by
  rw [Tr.Consistent, g_rad_is_zero_true]; simp
theorem rad_is_zero_false_consistent (x : K) :
    (t_rad_is_zero_false (envL [x])).Consistent ↔ Approx.ulpsEq x 0 eps52 4 = false := by
  rw [Tr.Consistent, g_rad_is_zero_false]; simp
/-- **`Rad::is_zero` as computed** (tolerances = the type's defaults): exactly one of the two paths is taken, it returns the
model's `angleIsZero ulpsEqD`, i.e. `ulps_eq!(x, 0)` on the wrapped scalar -/
theorem code_rad_is_zero (hd : DefaultTol K) (x : K) :
    Tr.ExactlyOne [t_rad_is_zero_true (envL [x]), t_rad_is_zero_false (envL [x])] ∧
    (∀ t ∈ [t_rad_is_zero_true (envL [x]), t_rad_is_zero_false (envL [x])],
      t.Consistent → t.res = .ok ∧ t.out = [] ∧ t.bools = [angleIsZero ulpsEqD x]) ∧
    ((t_rad_is_zero_true (envL [x])).Consistent ↔ angleIsZero ulpsEqD x = true) ∧
    (angleIsZero ulpsEqD x = true ↔ ulpsEqD x 0 = true) := by
  have hp : angleIsZero ulpsEqD x = Approx.ulpsEq x 0 eps52 4 := by
    rw [← ulpsEqD_of_defaultTol hd]; rfl
  refine ⟨?_, ?_, ?_, Cg.C18.angleIsZero_iff ulpsEqD x⟩
  · unfold Tr.ExactlyOne
    simp only [List.pairwise_cons, List.mem_cons, List.not_mem_nil, or_false, forall_eq_or_imp, forall_eq, exists_eq_or_imp,
      exists_eq_left, List.Pairwise.nil, and_true, IsEmpty.forall_iff, implies_true, false_imp_iff, exists_false,
      rad_is_zero_true_consistent, rad_is_zero_false_consistent]
    cases Approx.ulpsEq x 0 eps52 4 <;> simp
  · intro t ht
    simp only [List.mem_cons, List.not_mem_nil, or_false] at ht
    rcases ht with rfl | rfl
    · intro hc
      have h := (rad_is_zero_true_consistent x).1 hc
      rw [← ulpsEqD_of_defaultTol hd] at h
      rw [(Trace.C18Rest.t_rad_is_zero_true x h).1]; exact ⟨rfl, rfl, rfl⟩
    · intro hc
      have h := (rad_is_zero_false_consistent x).1 hc
      rw [← ulpsEqD_of_defaultTol hd] at h
      rw [(Trace.C18Rest.t_rad_is_zero_false x h).1]; exact ⟨rfl, rfl, rfl⟩
  · rw [rad_is_zero_true_consistent, hp]

theorem g_deg_is_zero_true (x : K) : (t_deg_is_zero_true (envL [x])).guards = [.ulps x 0 eps52 4 true] := by
  simp [eps52, envL]
theorem g_deg_is_zero_false (x : K) : (t_deg_is_zero_false (envL [x])).guards = [.ulps x 0 eps52 4 false] := by
  simp [eps52, envL]
theorem deg_is_zero_true_consistent (x : K) :
    (t_deg_is_zero_true (envL [x])).Consistent ↔ Approx.ulpsEq x 0 eps52 4 = true := by
  rw [Tr.Consistent, g_deg_is_zero_true]; simp
theorem deg_is_zero_false_consistent (x : K) :
    (t_deg_is_zero_false (envL [x])).Consistent ↔ Approx.ulpsEq x 0 eps52 4 = false := by
  rw [Tr.Consistent, g_deg_is_zero_false]; simp
/-- **`Deg::is_zero` as computed** (tolerances = the type's defaults): exactly one of the two paths is taken, it returns the
model's `angleIsZero ulpsEqD`, i.e. `ulps_eq!(x, 0)` on the wrapped scalar -/
theorem code_deg_is_zero (hd : DefaultTol K) (x : K) :
    Tr.ExactlyOne [t_deg_is_zero_true (envL [x]), t_deg_is_zero_false (envL [x])] ∧
    (∀ t ∈ [t_deg_is_zero_true (envL [x]), t_deg_is_zero_false (envL [x])],
      t.Consistent → t.res = .ok ∧ t.out = [] ∧ t.bools = [angleIsZero ulpsEqD x]) ∧
    ((t_deg_is_zero_true (envL [x])).Consistent ↔ angleIsZero ulpsEqD x = true) ∧
    (angleIsZero ulpsEqD x = true ↔ ulpsEqD x 0 = true) := by
  have hp : angleIsZero ulpsEqD x = Approx.ulpsEq x 0 eps52 4 := by
    rw [← ulpsEqD_of_defaultTol hd]; rfl
  refine ⟨?_, ?_, ?_, Cg.C18.angleIsZero_iff ulpsEqD x⟩
  · unfold Tr.ExactlyOne
    simp only [List.pairwise_cons, List.mem_cons, List.not_mem_nil, or_false, forall_eq_or_imp, forall_eq, exists_eq_or_imp,
      exists_eq_left, List.Pairwise.nil, and_true, IsEmpty.forall_iff, implies_true, false_imp_iff, exists_false,
      deg_is_zero_true_consistent, deg_is_zero_false_consistent]
    cases Approx.ulpsEq x 0 eps52 4 <;> simp
  · intro t ht
    simp only [List.mem_cons, List.not_mem_nil, or_false] at ht
    rcases ht with rfl | rfl
    · intro hc
      have h := (deg_is_zero_true_consistent x).1 hc
      rw [← ulpsEqD_of_defaultTol hd] at h
      rw [(Trace.C18Rest.t_deg_is_zero_true x h).1]; exact ⟨rfl, rfl, rfl⟩
    · intro hc
      have h := (deg_is_zero_false_consistent x).1 hc
      rw [← ulpsEqD_of_defaultTol hd] at h
      rw [(Trace.C18Rest.t_deg_is_zero_false x h).1]; exact ⟨rfl, rfl, rfl⟩
  · rw [deg_is_zero_true_consistent, hp]

end field

/-! ## over the reals, with the `approx` relations of `Cgm/Lemmas/RealApprox.lean` -/
section real
open scoped Cg.RealApprox

/-- the real instance has the recording scalar's default tolerances -/
theorem real_defaultTol : DefaultTol ℝ := ⟨rfl, rfl⟩
theorem real_eps52 : (eps52 : ℝ) = eps52R := rfl
/-- `2^-52` -/
example : eps52R = (2 : ℝ)⁻¹ ^ 52 := eps52R_eq

/-- **`Vector1::is_perpendicular` over the reals**: the `true` path is taken iff `|u · v| ≤ 2^-52`, the `false` path iff
`2^-52 < |u · v|`; exactly one is taken and its boolean is the model's predicate, which is `true` iff `|u · v| ≤ 2^-52` -/
theorem real_code_v1_is_perpendicular (u v : V1 ℝ) :
    ((t_v1_is_perpendicular_true (envL (u.toList ++ v.toList))).Consistent ↔ |u.dot v| ≤ eps52R) ∧
    ((t_v1_is_perpendicular_false (envL (u.toList ++ v.toList))).Consistent ↔ eps52R < |u.dot v|) ∧
    Tr.ExactlyOne (v1IsPerp u v) ∧
    (∀ t ∈ v1IsPerp u v, t.Consistent → t.res = .ok ∧ t.out = [] ∧ t.bools = [V1.isPerpendicular ulpsEqD u v]) ∧
    (V1.isPerpendicular ulpsEqD u v = true ↔ |u.dot v| ≤ eps52R) := by
  obtain ⟨h1, h2, h3, h4, h5⟩ := code_v1_is_perpendicular real_defaultTol u v
  have h6 : V1.isPerpendicular ulpsEqD u v = true ↔ |u.dot v| ≤ eps52R := by rw [h5, real_ulpsEqD_zero]
  refine ⟨h3.trans h6, ?_, h1, h2, h6⟩
  rw [h4, ← not_le, ← h6, Bool.not_eq_true]
/-- **`Vector2::is_perpendicular` over the reals**: the `true` path is taken iff `|u · v| ≤ 2^-52`, the `false` path iff
`2^-52 < |u · v|`; exactly one is taken and its boolean is the model's predicate, which is `true` iff `|u · v| ≤ 2^-52` -/
theorem real_code_v2_is_perpendicular (u v : V2 ℝ) :
    ((t_v2_is_perpendicular_true (envL (u.toList ++ v.toList))).Consistent ↔ |u.dot v| ≤ eps52R) ∧
    ((t_v2_is_perpendicular_false (envL (u.toList ++ v.toList))).Consistent ↔ eps52R < |u.dot v|) ∧
    Tr.ExactlyOne (v2IsPerp u v) ∧
    (∀ t ∈ v2IsPerp u v, t.Consistent → t.res = .ok ∧ t.out = [] ∧ t.bools = [V2.isPerpendicular ulpsEqD u v]) ∧
    (V2.isPerpendicular ulpsEqD u v = true ↔ |u.dot v| ≤ eps52R) := by
  obtain ⟨h1, h2, h3, h4, h5⟩ := code_v2_is_perpendicular real_defaultTol u v
  have h6 : V2.isPerpendicular ulpsEqD u v = true ↔ |u.dot v| ≤ eps52R := by rw [h5, real_ulpsEqD_zero]
  refine ⟨h3.trans h6, ?_, h1, h2, h6⟩
  rw [h4, ← not_le, ← h6, Bool.not_eq_true]
/-- **`Vector3::is_perpendicular` over the reals**: the `true` path is taken iff `|u · v| ≤ 2^-52`, the `false` path iff
`2^-52 < |u · v|`; exactly one is taken and its boolean is the model's predicate, which is `true` iff `|u · v| ≤ 2^-52` -/
theorem real_code_v3_is_perpendicular (u v : V3 ℝ) :
    ((t_v3_is_perpendicular_true (envL (u.toList ++ v.toList))).Consistent ↔ |u.dot v| ≤ eps52R) ∧
    ((t_v3_is_perpendicular_false (envL (u.toList ++ v.toList))).Consistent ↔ eps52R < |u.dot v|) ∧
    Tr.ExactlyOne (v3IsPerp u v) ∧
    (∀ t ∈ v3IsPerp u v, t.Consistent → t.res = .ok ∧ t.out = [] ∧ t.bools = [V3.isPerpendicular ulpsEqD u v]) ∧
    (V3.isPerpendicular ulpsEqD u v = true ↔ |u.dot v| ≤ eps52R) := by
  obtain ⟨h1, h2, h3, h4, h5⟩ := code_v3_is_perpendicular real_defaultTol u v
  have h6 : V3.isPerpendicular ulpsEqD u v = true ↔ |u.dot v| ≤ eps52R := by rw [h5, real_ulpsEqD_zero]
  refine ⟨h3.trans h6, ?_, h1, h2, h6⟩
  rw [h4, ← not_le, ← h6, Bool.not_eq_true]
/-- **`Vector4::is_perpendicular` over the reals**: the `true` path is taken iff `|u · v| ≤ 2^-52`, the `false` path iff
`2^-52 < |u · v|`; exactly one is taken and its boolean is the model's predicate, which is `true` iff `|u · v| ≤ 2^-52` -/
theorem real_code_v4_is_perpendicular (u v : V4 ℝ) :
    ((t_v4_is_perpendicular_true (envL (u.toList ++ v.toList))).Consistent ↔ |u.dot v| ≤ eps52R) ∧
    ((t_v4_is_perpendicular_false (envL (u.toList ++ v.toList))).Consistent ↔ eps52R < |u.dot v|) ∧
    Tr.ExactlyOne (v4IsPerp u v) ∧
    (∀ t ∈ v4IsPerp u v, t.Consistent → t.res = .ok ∧ t.out = [] ∧ t.bools = [V4.isPerpendicular ulpsEqD u v]) ∧
    (V4.isPerpendicular ulpsEqD u v = true ↔ |u.dot v| ≤ eps52R) := by
  obtain ⟨h1, h2, h3, h4, h5⟩ := code_v4_is_perpendicular real_defaultTol u v
  have h6 : V4.isPerpendicular ulpsEqD u v = true ↔ |u.dot v| ≤ eps52R := by rw [h5, real_ulpsEqD_zero]
  refine ⟨h3.trans h6, ?_, h1, h2, h6⟩
  rw [h4, ← not_le, ← h6, Bool.not_eq_true]

/-- **`Rad::is_zero` / `Deg::is_zero` over the reals**: the `true` path is taken iff `|x| ≤ 2^-52` -/
theorem real_code_angle_is_zero (x : ℝ) :
    ((t_rad_is_zero_true (envL [x])).Consistent ↔ |x| ≤ eps52R) ∧
    ((t_deg_is_zero_true (envL [x])).Consistent ↔ |x| ≤ eps52R) ∧
    ((t_rad_is_zero_false (envL [x])).Consistent ↔ eps52R < |x|) ∧
    ((t_deg_is_zero_false (envL [x])).Consistent ↔ eps52R < |x|) ∧
    (angleIsZero ulpsEqD x = true ↔ |x| ≤ eps52R) := by
  have key : Approx.ulpsEq x 0 eps52 4 = true ↔ |x| ≤ eps52R := by
    rw [← ulpsEqD_of_defaultTol real_defaultTol, real_ulpsEqD_zero]
  have keyf : Approx.ulpsEq x 0 eps52 4 = false ↔ eps52R < |x| := by
    rw [← not_le, ← key, Bool.not_eq_true]
  refine ⟨?_, ?_, ?_, ?_, ?_⟩
  · rw [rad_is_zero_true_consistent, key]
  · rw [deg_is_zero_true_consistent, key]
  · rw [rad_is_zero_false_consistent, keyf]
  · rw [deg_is_zero_false_consistent, keyf]
  · rw [Cg.C18.angleIsZero_iff, real_ulpsEqD_zero]

/-- concrete instances: the perpendicular pair the kernel was traced on takes the `true` path, a pair with dot product `1e-3`
the `false` path, a pair with dot product `1e-16` still the `true` path (so the test is not exact equality) -/
example :
    (t_v2_is_perpendicular_true (envL ((⟨1, 2⟩ : V2 ℝ).toList ++ (⟨-2, 1⟩ : V2 ℝ).toList))).Consistent ∧
    (t_v2_is_perpendicular_false (envL ((⟨1, 2⟩ : V2 ℝ).toList ++ (⟨-2, 1.0005⟩ : V2 ℝ).toList))).Consistent ∧
    (t_v2_is_perpendicular_true (envL ((⟨1, 0⟩ : V2 ℝ).toList ++ (⟨1e-16, 1⟩ : V2 ℝ).toList))).Consistent := by
  refine ⟨?_, ?_, ?_⟩
  · rw [(real_code_v2_is_perpendicular _ _).1]; norm_num [V2.dot, eps52R]
  · rw [(real_code_v2_is_perpendicular _ _).2.1]; norm_num [V2.dot, eps52R, abs_of_pos]
  · rw [(real_code_v2_is_perpendicular _ _).1]; norm_num [V2.dot, eps52R, abs_of_pos]
end real

end Cg.E2E.C18
