import Cgm.E2E.C07g
import Cgm.E2E.C07i
import Cgm.Trace.C07Auto
import Cgm.Props.C07c
import Cgm.Trace.C06
import Cgm.Trace.C06Auto
import Cgm.Trace.C01
import Cgm.Trace.C04
import Cgm.Trace.C05
import Cgm.Trace.C05Auto
/-!
# C07, end to end, remaining clauses about the kernels

* every `From<Euler>` kernel (`Matrix3`, `Matrix4`, `Basis3`, `Quaternion`) is the TRACED product of the three TRACED
  `from_angle_x/y/z` kernels of the same type (kernel on kernel; `Cgm/E2E/C07.lean` has the model's factors);
* main branch (`|sin y| ≤ 0.998`): the traced `Matrix4::from(Euler)` / `Basis3::from(Euler)` of the traced extracted angles are
  the traced `Matrix4::from(q)` / `Basis3::from(q)` (the `Matrix3` / quaternion round trips are in `C07b.lean`);
* gimbal-lock cones: the traced `Matrix3::from(Euler)` of the traced reported angles is within `0.13` of the traced
  `Matrix3::from(q)` in every element (kernel on kernel; `C07g.lean` has the model's `M3.ofEuler` of the kernel output).
-/
set_option linter.unusedSectionVars false
set_option linter.unusedVariables false
namespace Cg.E2E.C07
open Cg Cg.Gen.C07 Cg.Trace.C07 Real

theorem okS_out {K : Type} (l : List K) : (Tr.okS l).out = l := rfl
theorem okG_out {K : Type} (l : List K) (g : List (G K)) : (Tr.okG l g).out = l := rfl

section field
variable {K : Type} [Field K] [LinearOrder K] [CharZero K] [Transc K] [FRem K] [Lits K]

/-- **`From<Euler>` as computed = `from_angle_x(x) * from_angle_y(y) * from_angle_z(z)` as computed**, for `Matrix3`,
`Matrix4`, `Basis3` (whose product is the product of the underlying matrices) and `Quaternion` (Hamilton product): every
factor and every product is the traced kernel; `Basis3::from(Euler)` as computed is `Matrix3::from(Euler)` as computed -/
theorem code_from_euler_kernels (x y z : K) :
    t_m3_from_euler (envL [x, y, z]) =
      Gen.C01.t_m3_mul (envL ((Gen.C01.t_m3_mul (envL ((Gen.C06.t_m3_from_angle_x (envL [x])).out ++
        (Gen.C06.t_m3_from_angle_y (envL [y])).out))).out ++ (Gen.C06.t_m3_from_angle_z (envL [z])).out)) ∧
    t_m4_from_euler (envL [x, y, z]) =
      Gen.C01.t_m4_mul (envL ((Gen.C01.t_m4_mul (envL ((Gen.C06.t_m4_from_angle_x (envL [x])).out ++
        (Gen.C06.t_m4_from_angle_y (envL [y])).out))).out ++ (Gen.C06.t_m4_from_angle_z (envL [z])).out)) ∧
    t_b3_from_euler (envL [x, y, z]) =
      Gen.C01.t_m3_mul (envL ((Gen.C01.t_m3_mul (envL ((Gen.C06.t_b3_from_angle_x (envL [x])).out ++
        (Gen.C06.t_b3_from_angle_y (envL [y])).out))).out ++ (Gen.C06.t_b3_from_angle_z (envL [z])).out)) ∧
    t_q_from_euler (envL [x, y, z]) =
      Gen.C04.t_q_mul (envL ((Gen.C04.t_q_mul (envL ((Gen.C06.t_q_from_angle_x (envL [x])).out ++
        (Gen.C06.t_q_from_angle_y (envL [y])).out))).out ++ (Gen.C06.t_q_from_angle_z (envL [z])).out)) ∧
    t_b3_from_euler (envL [x, y, z]) = t_m3_from_euler (envL [x, y, z]) := by
  obtain ⟨h3, h4, -⟩ := C07.ofEuler_eq_product x y z
  have hb : t_b3_from_euler (envL [x, y, z]) = .okS (M3.ofEuler x y z).toList := Trace.C07Auto.t_b3_from_euler x y z
  refine ⟨?_, ?_, ?_, ?_, ?_⟩
  · simp only [Trace.C06.t_m3_from_angle_x, Trace.C06.t_m3_from_angle_y, Trace.C06.t_m3_from_angle_z, okS_out,
      Trace.C01.t_m3_mul, Trace.C07.t_m3_from_euler]
    rw [h3]
  · simp only [Trace.C06.t_m4_from_angle_x, Trace.C06.t_m4_from_angle_y, Trace.C06.t_m4_from_angle_z, okS_out,
      Trace.C01.t_m4_mul, Trace.C07.t_m4_from_euler]
    rw [h4]
  · simp only [Trace.C06Auto.t_b3_from_angle_x, Trace.C06Auto.t_b3_from_angle_y, Trace.C06Auto.t_b3_from_angle_z, okS_out,
      Trace.C01.t_m3_mul, hb]
    rw [h3]
  · simp only [Trace.C06.t_q_from_angle_x, Trace.C06.t_q_from_angle_y, Trace.C06.t_q_from_angle_z, okS_out,
      Trace.C04.t_q_mul, Trace.C07.t_q_from_euler]
    rw [C07.quat_ofEuler_eq_product]
  · rw [hb, Trace.C07.t_m3_from_euler]
end field

section real
variable [Approx ℝ]

/-- **main branch, every representation, kernel on kernel** (unit `q`; the main path is the one the code takes, i.e.
`|sin y| = |2(xz + yw)| ≤ 0.998`, see `q_to_euler_main_consistent_real`): the traced `Matrix4::from(Euler)`,
`Basis3::from(Euler)`, `Matrix3::from(Euler)` of the traced extracted angles are the traced `Matrix4::from(q)`,
`Basis3::from(q)`, `Matrix3::from(q)` -- the rotation is rebuilt exactly -- and the traced `Quaternion::from(Euler)` returns
`q` or `-q` -/
theorem code_euler_round_trip_all (q : Quat ℝ) (hq : q.magnitude2 = 1)
    (hc : (t_q_to_euler_main (envL q.toList)).Consistent) :
    t_m4_from_euler (envL (t_q_to_euler_main (envL q.toList)).out) = Gen.C05.t_q_to_m4 (envL q.toList) ∧
    t_b3_from_euler (envL (t_q_to_euler_main (envL q.toList)).out) = Gen.C05.t_q_to_basis3 (envL q.toList) ∧
    t_m3_from_euler (envL (t_q_to_euler_main (envL q.toList)).out) = Gen.C05.t_q_to_m3 (envL q.toList) ∧
    (∃ r : Quat ℝ, t_q_from_euler (envL (t_q_to_euler_main (envL q.toList)).out) = .okS r.toList ∧ (r = q ∨ r = -q)) := by
  obtain ⟨h1, h2⟩ := (q_to_euler_main_consistent q).1 hc
  have ht := (main_path_iff q hq).1 ⟨h1, h2⟩
  have hm := (C07.toEuler_main_spec' lits_sig q hq ht).2.2.2.2
  have ho : (t_q_to_euler_main (envL q.toList)).out = [q.toEuler.1, q.toEuler.2.1, q.toEuler.2.2] := by
    rw [Trace.C07.t_q_to_euler_main q h1 h2]; rfl
  rw [ho]
  refine ⟨?_, ?_, ?_, ?_⟩
  · rw [Trace.C07.t_m4_from_euler, C07.m4_ofEuler_toEuler lits_sig q hq ht, Trace.C05.t_q_to_m4]
  · have hb : t_b3_from_euler (envL [q.toEuler.1, q.toEuler.2.1, q.toEuler.2.2]) = _ :=
      Trace.C07Auto.t_b3_from_euler q.toEuler.1 q.toEuler.2.1 q.toEuler.2.2
    rw [hb, hm, Trace.C05Auto.t_q_to_basis3]; rfl
  · rw [Trace.C07.t_m3_from_euler, hm, Trace.C05.t_q_to_m3]
  · obtain ⟨r, hr, hpm, -, -⟩ := code_euler_round_trip_quat q hq h1 h2
    rw [ho] at hr
    exact ⟨r, hr, hpm⟩

/-- **gimbal-lock cones, kernel on kernel** (unit `q`): on either cone path the traced `Matrix3::from(Euler)` (and
`Basis3::from(Euler)`, the same matrix) of the traced reported angles is within `0.13`, in every element, of the traced
`Matrix3::from(q)` -/
theorem code_to_euler_cone_kernels (q : Quat ℝ) (hq : q.magnitude2 = 1) :
    ((t_q_to_euler_pos (envL q.toList)).Consistent →
      ∃ m n : M3 ℝ, t_m3_from_euler (envL (t_q_to_euler_pos (envL q.toList)).out) = .okS m.toList ∧
        t_b3_from_euler (envL (t_q_to_euler_pos (envL q.toList)).out) = .okS m.toList ∧
        Gen.C05.t_q_to_m3 (envL q.toList) = .okS n.toList ∧ ∀ c r : Fin 3, |m.toMatrix r c - n.toMatrix r c| ≤ 0.13) ∧
    ((t_q_to_euler_neg (envL q.toList)).Consistent →
      ∃ m n : M3 ℝ, t_m3_from_euler (envL (t_q_to_euler_neg (envL q.toList)).out) = .okS m.toList ∧
        t_b3_from_euler (envL (t_q_to_euler_neg (envL q.toList)).out) = .okS m.toList ∧
        Gen.C05.t_q_to_m3 (envL q.toList) = .okS n.toList ∧ ∀ c r : Fin 3, |m.toMatrix r c - n.toMatrix r c| ≤ 0.13) := by
  refine ⟨fun hc => ?_, fun hc => ?_⟩
  · have h1 := (q_to_euler_pos_consistent q).1 hc
    obtain ⟨e, he, -, -, g3⟩ := (code_to_euler_gimbal_real q hq).1 h1
    refine ⟨M3.ofEuler e.1 e.2.1 e.2.2, q.toM3, ?_, ?_, Trace.C05.t_q_to_m3 q, g3⟩
    · rw [he, okG_out, Trace.C07.t_m3_from_euler]
    · rw [he, okG_out]; exact Trace.C07Auto.t_b3_from_euler e.1 e.2.1 e.2.2
  · obtain ⟨h1, h2⟩ := (q_to_euler_neg_consistent q).1 hc
    obtain ⟨e, he, -, -, g3⟩ := (code_to_euler_gimbal_real q hq).2 h1 h2
    refine ⟨M3.ofEuler e.1 e.2.1 e.2.2, q.toM3, ?_, ?_, Trace.C05.t_q_to_m3 q, g3⟩
    · rw [he, okG_out, Trace.C07.t_m3_from_euler]
    · rw [he, okG_out]; exact Trace.C07Auto.t_b3_from_euler e.1 e.2.1 e.2.2

/-- not vacuous: `q = (w = 4/5; 0, 3/5, 0)` takes the main path; `q = (w = 20/29; 0, -21/29, 0)` is a unit quaternion in the
NEGATIVE cone (`yw = -420/841 < -0.499`) -/
example : let q : Quat ℝ := ⟨⟨0, 3 / 5, 0⟩, 4 / 5⟩
    q.magnitude2 = 1 ∧ (t_q_to_euler_main (envL q.toList)).Consistent := by
  intro q
  have hq : q.magnitude2 = 1 := by norm_num [q, Quat.magnitude2]
  refine ⟨hq, (q_to_euler_main_consistent_real q hq).2 ?_⟩
  norm_num [q, abs_le]
example : let q : Quat ℝ := ⟨⟨0, -21 / 29, 0⟩, 20 / 29⟩
    q.magnitude2 = 1 ∧ (t_q_to_euler_neg (envL q.toList)).Consistent := by
  intro q
  have hq : q.magnitude2 = 1 := by norm_num [q, Quat.magnitude2]
  refine ⟨hq, (q_to_euler_neg_consistent_real q hq).2 ?_⟩
  norm_num [q]
end real
end Cg.E2E.C07
