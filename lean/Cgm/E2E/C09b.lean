import Cgm.E2E.C09
import Cgm.Trace.C08
import Cgm.Props.C09b
import Cgm.Props.C09c
/-!
# C09 (continued), end to end: the left-handed, Matrix3, look-at and `Decomposed` view constructors as the code computes
them, over the reals, with the natural non-degeneracy hypotheses (`d ≠ 0`, `d × up ≠ 0`)
-/
set_option linter.unusedSectionVars false
namespace Cg.E2E.C09
open Cg Cg.Gen.C09
variable [FRem ℝ] [Lits ℝ]

/-- `Matrix4::look_to_lh(eye, d, up)` as computed: a rigid motion sending the eye to the origin, `d` onto the **+z** axis and
`up` into the half plane `x = 0, y ≥ 0` -/
theorem code_look_to_lh (eye : P3 ℝ) (d up : V3 ℝ) (hd : 0 < d.magnitude2) (hup : 0 < (V3.cross d up).magnitude2) :
    ∃ m : M4 ℝ, t_m4_look_to_lh (envL (eye.toList ++ d.toList ++ up.toList)) = .okS m.toList ∧
      (C09.upper3 m).transpose * C09.upper3 m = M3.one ∧ (C09.upper3 m).det = 1 ∧ Cg.C08.M4.Affine m ∧
      m.transformPoint eye = P3.origin ∧ m.transformVector d = ⟨0, 0, d.magnitude⟩ ∧
      (m.transformVector up).x = 0 ∧ 0 ≤ (m.transformVector up).y :=
  ⟨M4.lookToLh eye d up, Trace.C09.t_m4_look_to_lh eye d up, C09.lookToLh_spec eye d up hd hup⟩

/-- the right-handed one with the same natural hypothesis (`d × up ≠ 0` instead of `d/|d| × up ≠ 0`) -/
theorem code_look_to_rh' (eye : P3 ℝ) (d up : V3 ℝ) (hd : 0 < d.magnitude2) (hup : 0 < (V3.cross d up).magnitude2) :
    ∃ m : M4 ℝ, t_m4_look_to_rh (envL (eye.toList ++ d.toList ++ up.toList)) = .okS m.toList ∧
      (C09.upper3 m).transpose * C09.upper3 m = M3.one ∧ (C09.upper3 m).det = 1 ∧ Cg.C08.M4.Affine m ∧
      m.transformPoint eye = P3.origin ∧ m.transformVector d = ⟨0, 0, -d.magnitude⟩ ∧
      (m.transformVector up).x = 0 ∧ 0 ≤ (m.transformVector up).y :=
  ⟨M4.lookToRh eye d up, Trace.C09.t_m4_look_to_rh eye d up, C09.lookToRh_spec' eye d up hd hup⟩

/-- `Matrix3::look_to_lh(d, up)` and `Matrix3::look_to_rh(d, up)` as computed: rotation matrices (orthonormal, determinant +1)
with `d ↦ (0, 0, ±|d|)` and `up ↦ (0, y ≥ 0, ·)`; `Basis3::look_at` as computed is the left-handed one -/
theorem code_m3_look_to (d up : V3 ℝ) (hd : 0 < d.magnitude2) (hup : 0 < (V3.cross d up).magnitude2) :
    (∃ m : M3 ℝ, t_m3_look_to_lh (envL (d.toList ++ up.toList)) = .okS m.toList ∧
      t_b3_look_at (envL (d.toList ++ up.toList)) = .okS m.toList ∧
      m.transpose * m = M3.one ∧ m.det = 1 ∧ m * d = ⟨0, 0, d.magnitude⟩ ∧ (m * up).x = 0 ∧ 0 ≤ (m * up).y) ∧
    (∃ m : M3 ℝ, t_m3_look_to_rh (envL (d.toList ++ up.toList)) = .okS m.toList ∧
      m.transpose * m = M3.one ∧ m.det = 1 ∧ m * d = ⟨0, 0, -d.magnitude⟩ ∧ (m * up).x = 0 ∧ 0 ≤ (m * up).y) :=
  ⟨⟨M3.lookToLh d up, Trace.C09.t_m3_look_to_lh d up, Trace.C09.t_b3_look_at d up, C09.lookToLh3_spec d up hd hup⟩,
   ⟨M3.lookToRh d up, Trace.C09.t_m3_look_to_rh d up, C09.lookToRh3_spec d up hd hup⟩⟩

/-- right-handed agreement: the rotation part of the 4x4 right-handed view matrix as computed is the 3x3 right-handed one as
computed (although the two constructors orthonormalise differently); and the left-handed agreement with the natural hypothesis -/
theorem code_m4_m3_agree_rh (eye : P3 ℝ) (d up : V3 ℝ) (hd : 0 < d.magnitude2) (hup : 0 < (V3.cross d up).magnitude2) :
    (∃ (m4 : M4 ℝ) (m3 : M3 ℝ), t_m4_look_to_rh (envL (eye.toList ++ d.toList ++ up.toList)) = .okS m4.toList ∧
      t_m3_look_to_rh (envL (d.toList ++ up.toList)) = .okS m3.toList ∧ C09.upper3 m4 = m3) ∧
    (∃ (m4 : M4 ℝ) (m3 : M3 ℝ), t_m4_look_to_lh (envL (eye.toList ++ d.toList ++ up.toList)) = .okS m4.toList ∧
      t_m3_look_to_lh (envL (d.toList ++ up.toList)) = .okS m3.toList ∧ C09.upper3 m4 = m3) :=
  ⟨⟨_, _, Trace.C09.t_m4_look_to_rh eye d up, Trace.C09.t_m3_look_to_rh d up, C09.m4_m3_agree_rh eye d up hd hup⟩,
   ⟨_, _, Trace.C09.t_m4_look_to_lh eye d up, Trace.C09.t_m3_look_to_lh d up, C09.m4_m3_agree_lh' eye d up hd hup⟩⟩

/-- `Matrix4::look_at_rh / look_at_lh(eye, center, up)` as computed (both the inherent constructors and the `Transform` trait
methods): rigid, eye to the origin, the target `center` on the `∓z` axis at distance `|center - eye|`, `up ↦ (0, y ≥ 0, ·)` -/
theorem code_look_at (eye center : P3 ℝ) (up : V3 ℝ) (hd : 0 < (center - eye : V3 ℝ).magnitude2)
    (hup : 0 < (V3.cross (center - eye) up).magnitude2) :
    (∃ m : M4 ℝ, t_m4_look_at_rh (envL (eye.toList ++ center.toList ++ up.toList)) = .okS m.toList ∧
      t_m4_tlook_at_rh (envL (eye.toList ++ center.toList ++ up.toList)) = .okS m.toList ∧
      (C09.upper3 m).transpose * C09.upper3 m = M3.one ∧ (C09.upper3 m).det = 1 ∧ Cg.C08.M4.Affine m ∧
      m.transformPoint eye = P3.origin ∧
      m.transformVector (center - eye) = ⟨0, 0, -(center - eye : V3 ℝ).magnitude⟩ ∧
      m.transformPoint center = ⟨0, 0, -(center - eye : V3 ℝ).magnitude⟩ ∧
      (m.transformVector up).x = 0 ∧ 0 ≤ (m.transformVector up).y) ∧
    (∃ m : M4 ℝ, t_m4_look_at_lh (envL (eye.toList ++ center.toList ++ up.toList)) = .okS m.toList ∧
      t_m4_tlook_at_lh (envL (eye.toList ++ center.toList ++ up.toList)) = .okS m.toList ∧
      (C09.upper3 m).transpose * C09.upper3 m = M3.one ∧ (C09.upper3 m).det = 1 ∧ Cg.C08.M4.Affine m ∧
      m.transformPoint eye = P3.origin ∧
      m.transformVector (center - eye) = ⟨0, 0, (center - eye : V3 ℝ).magnitude⟩ ∧
      m.transformPoint center = ⟨0, 0, (center - eye : V3 ℝ).magnitude⟩ ∧
      (m.transformVector up).x = 0 ∧ 0 ≤ (m.transformVector up).y) :=
  ⟨⟨M4.lookAtRh eye center up, Trace.C09.t_m4_look_at_rh eye center up, Trace.C09.t_m4_tlook_at_rh eye center up,
     C09.lookAtRh_spec eye center up hd hup⟩,
   ⟨M4.lookAtLh eye center up, Trace.C09.t_m4_look_at_lh eye center up, Trace.C09.t_m4_tlook_at_lh eye center up,
     C09.lookAtLh_spec eye center up hd hup⟩⟩

/-- `Transform<Point3> for Matrix3`: `look_at_lh` (+z) and `look_at_rh` (-z) as computed are rotation matrices -/
theorem code_m3_look_at (eye center : P3 ℝ) (up : V3 ℝ) (hd : 0 < (center - eye : V3 ℝ).magnitude2)
    (hup : 0 < (V3.cross (center - eye) up).magnitude2) :
    (∃ m : M3 ℝ, t_m3_tlook_at_lh (envL (eye.toList ++ center.toList ++ up.toList)) = .okS m.toList ∧
      m.transpose * m = M3.one ∧ m.det = 1 ∧ m * (center - eye : V3 ℝ) = ⟨0, 0, (center - eye : V3 ℝ).magnitude⟩ ∧
      (m * up).x = 0 ∧ 0 ≤ (m * up).y) ∧
    (∃ m : M3 ℝ, t_m3_tlook_at_rh (envL (eye.toList ++ center.toList ++ up.toList)) = .okS m.toList ∧
      m.transpose * m = M3.one ∧ m.det = 1 ∧ m * (center - eye : V3 ℝ) = ⟨0, 0, -(center - eye : V3 ℝ).magnitude⟩ ∧
      (m * up).x = 0 ∧ 0 ≤ (m * up).y) :=
  ⟨⟨M3.lookAtLh eye center up, Trace.C09.t_m3_tlook_at_lh eye center up, (C09.lookAt3_spec eye center up hd hup).1⟩,
   ⟨M3.lookAtRh eye center up, Trace.C09.t_m3_tlook_at_rh eye center up, (C09.lookAt3_spec eye center up hd hup).2⟩⟩

/-- 2-D: `Matrix2::look_at(d, up)` as computed is orthogonal, a **reflection** (determinant -1) on the path where the code's
comparison `up.y d.x ≤ up.x d.y` is true and a rotation (determinant +1) on the other -/
theorem code_look_at_2d_det (d up : V2 ℝ) (hd : 0 < d.magnitude2) :
    ∃ m : M2 ℝ, (up.y * d.x ≤ up.x * d.y → t_m2_look_at_flip (envL (d.toList ++ up.toList)) =
        .okG m.toList [.le (up.y * d.x) (up.x * d.y) true] ∧ m.det = -1) ∧
      (¬ up.y * d.x ≤ up.x * d.y → t_m2_look_at_noflip (envL (d.toList ++ up.toList)) =
        .okG m.toList [.le (up.y * d.x) (up.x * d.y) false] ∧ m.det = 1) ∧
      m.transpose * m = M2.one := by
  obtain ⟨h1, h2, -, -⟩ := C09.lookAt2_det d up hd
  exact ⟨M2.lookAt d up, fun hh => ⟨Trace.C09.t_m2_look_at_flip d up hh, by rw [h2, if_pos hh]⟩,
    fun hh => ⟨Trace.C09.t_m2_look_at_noflip d up hh, by rw [h2, if_neg hh]⟩, h1⟩

section decomposed
variable [Approx ℝ]
open Cg.Gen.C08 Cg.Trace.C08

/-- `Decomposed::<Vector3, Quaternion>::look_at_lh(eye, center, up)` as computed, on the traced path (non-negative trace in
`From<Matrix3> for Quaternion`): the transform whose matrix -- also as computed by `Matrix4::from(Decomposed)` from the output
list -- is `Matrix4::look_at_lh(eye, center, up)` as computed; it sends the eye to the origin -/
theorem code_dq_look_at_lh (eye center : P3 ℝ) (up : V3 ℝ) (hd : 0 < (center - eye : V3 ℝ).magnitude2)
    (hup : 0 < (V3.cross (center - eye) up).magnitude2) (h : 0 ≤ (M3.lookToLh (center - eye) up).trace) :
    ∃ t : DQ ℝ, t_dq_look_at_lh (envL (eye.toList ++ center.toList ++ up.toList)) =
        .okG (flq t) [.le 0 (M3.lookToLh (center - eye) up).trace true] ∧
      t.scale = 1 ∧ t.rot.magnitude2 = 1 ∧
      Decomposed.toM4 quatOps t = M4.lookAtLh eye center up ∧
      t_dq_to_matrix (envL (flq t)) = t_m4_look_at_lh (envL (eye.toList ++ center.toList ++ up.toList)) ∧
      t.transformPointV quatOps eye.toVec = V3.zero := by
  obtain ⟨⟨k1, k2⟩, -⟩ := C09.decomposed_quat_lookAt eye center up hd hup
  refine ⟨Decomposed.lookAtDir quatOps (center - eye) up V3.zero eye.toVec, Trace.C08.t_dq_look_at_lh eye center up h, rfl,
    (C09.quat_lookAt_spec (center - eye) up hd hup).1, k1, ?_, k2⟩
  rw [Trace.C08.t_dq_to_matrix, Trace.C09.t_m4_look_at_lh, k1]

/-- `Decomposed::look_at_rh` as computed, on the traced path (negative trace, `yy` largest): its matrix is
`Matrix4::look_at_rh(eye, center, up)` as computed -/
theorem code_dq_look_at_rh (eye center : P3 ℝ) (up : V3 ℝ) (hd : 0 < (center - eye : V3 ℝ).magnitude2)
    (hup : 0 < (V3.cross (center - eye) up).magnitude2) (h : ¬ 0 ≤ (M3.lookToLh (eye - center) up).trace)
    (h1 : ¬ (M3.lookToLh (eye - center) up).y.y < (M3.lookToLh (eye - center) up).x.x)
    (h2 : (M3.lookToLh (eye - center) up).z.z < (M3.lookToLh (eye - center) up).y.y) :
    ∃ t : DQ ℝ, t_dq_look_at_rh (envL (eye.toList ++ center.toList ++ up.toList)) =
        .okG (flq t) [.le 0 (M3.lookToLh (eye - center) up).trace false,
         .lt (M3.lookToLh (eye - center) up).y.y (M3.lookToLh (eye - center) up).x.x false,
         .lt (M3.lookToLh (eye - center) up).z.z (M3.lookToLh (eye - center) up).y.y true] ∧
      t.scale = 1 ∧ t.rot.magnitude2 = 1 ∧
      Decomposed.toM4 quatOps t = M4.lookAtRh eye center up ∧
      t_dq_to_matrix (envL (flq t)) = t_m4_look_at_rh (envL (eye.toList ++ center.toList ++ up.toList)) ∧
      t.transformPointV quatOps eye.toVec = V3.zero := by
  obtain ⟨-, k1, k2⟩ := C09.decomposed_quat_lookAt eye center up hd hup
  have hdir : (eye - center : V3 ℝ) = -(center - eye : V3 ℝ) := (C09.neg_psub center eye).symm
  have hd' : 0 < (eye - center : V3 ℝ).magnitude2 := by
    rw [hdir]; exact (C09.nondeg _ up hd hup).2.2.1
  have hup' : 0 < (V3.cross (eye - center) up).magnitude2 := by
    rw [hdir, C09.cross_neg_mag]; exact hup
  refine ⟨Decomposed.lookAtDir quatOps (eye - center) up V3.zero eye.toVec, Trace.C08.t_dq_look_at_rh eye center up h h1 h2, rfl,
    (C09.quat_lookAt_spec (eye - center) up hd' hup').1, k1, ?_, k2⟩
  rw [Trace.C08.t_dq_to_matrix, Trace.C09.t_m4_look_at_rh, k1]
/-- the hypotheses and path conditions of both `Decomposed` theorems are satisfiable: looking from the origin along `+z` with
`up = +y`, `look_at_lh` builds the identity rotation (trace 3, the non-negative-trace path) and `look_at_rh` the half turn about
`y` (diagonal `(-1, 1, -1)`: negative trace, `yy` largest) -/
example : let eye : P3 ℝ := ⟨0, 0, 0⟩; let center : P3 ℝ := ⟨0, 0, 1⟩; let up : V3 ℝ := ⟨0, 1, 0⟩
    0 < (center - eye : V3 ℝ).magnitude2 ∧ 0 < (V3.cross (center - eye) up).magnitude2 ∧
      0 ≤ (M3.lookToLh (center - eye) up).trace ∧
      ¬ 0 ≤ (M3.lookToLh (eye - center) up).trace ∧
      ¬ (M3.lookToLh (eye - center) up).y.y < (M3.lookToLh (eye - center) up).x.x ∧
      (M3.lookToLh (eye - center) up).z.z < (M3.lookToLh (eye - center) up).y.y := by
  intro eye center up
  have e : (center - eye : V3 ℝ) = ⟨0, 0, 1⟩ := by ext <;> simp [eye, center]
  have e' : (eye - center : V3 ℝ) = ⟨0, 0, -1⟩ := by ext <;> simp [eye, center]
  rw [e, e']
  have n1 : (⟨0, 0, 1⟩ : V3 ℝ).normalize = ⟨0, 0, 1⟩ := by
    ext <;> simp [V3.normalize, V3.normalizeTo, V3.magnitude, transc_sqrt]
  have n2 : (⟨1, 0, 0⟩ : V3 ℝ).normalize = ⟨1, 0, 0⟩ := by
    ext <;> simp [V3.normalize, V3.normalizeTo, V3.magnitude, transc_sqrt]
  have n3 : (⟨0, 1, 0⟩ : V3 ℝ).normalize = ⟨0, 1, 0⟩ := by
    ext <;> simp [V3.normalize, V3.normalizeTo, V3.magnitude, transc_sqrt]
  have n4 : (⟨0, 0, -1⟩ : V3 ℝ).normalize = ⟨0, 0, -1⟩ := by
    ext <;> simp [V3.normalize, V3.normalizeTo, V3.magnitude, transc_sqrt]
  have n5 : (⟨-1, 0, 0⟩ : V3 ℝ).normalize = ⟨-1, 0, 0⟩ := by
    ext <;> simp [V3.normalize, V3.normalizeTo, V3.magnitude, transc_sqrt]
  have c1 : V3.cross up (⟨0, 0, 1⟩ : V3 ℝ) = ⟨1, 0, 0⟩ := by ext <;> simp [up]
  have c2 : V3.cross (⟨0, 0, 1⟩ : V3 ℝ) ⟨1, 0, 0⟩ = ⟨0, 1, 0⟩ := by ext <;> simp
  have c3 : V3.cross up (⟨0, 0, -1⟩ : V3 ℝ) = ⟨-1, 0, 0⟩ := by ext <;> simp [up]
  have c4 : V3.cross (⟨0, 0, -1⟩ : V3 ℝ) ⟨-1, 0, 0⟩ = ⟨0, 1, 0⟩ := by ext <;> simp
  refine ⟨by simp, by simp [up], ?_, ?_, ?_, ?_⟩
  · simp only [M3.lookToLh, n1, c1, n2, c2, n3]
    norm_num [M3.transpose, M3.trace, M3.diagonal, V3.sum]
  · simp only [M3.lookToLh, n4, c3, n5, c4, n3]
    norm_num [M3.transpose, M3.trace, M3.diagonal, V3.sum]
  · simp only [M3.lookToLh, n4, c3, n5, c4, n3]
    norm_num [M3.transpose]
  · simp only [M3.lookToLh, n4, c3, n5, c4, n3]
    norm_num [M3.transpose]
end decomposed

/-- the non-degeneracy hypotheses are satisfiable -/
example : 0 < ((⟨4, 6, 7⟩ : P3 ℝ) - (⟨3, 4, 5⟩ : P3 ℝ) : V3 ℝ).magnitude2 ∧
    0 < (V3.cross ((⟨4, 6, 7⟩ : P3 ℝ) - (⟨3, 4, 5⟩ : P3 ℝ)) ⟨0, 1, 0⟩ : V3 ℝ).magnitude2 := by
  constructor <;> (simp; norm_num)
end Cg.E2E.C09
