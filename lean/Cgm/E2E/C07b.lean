import Cgm.E2E.C07
import Cgm.Props.C07b
import Cgm.Lemmas.RealInst2
/-!
# C07 (continued), end to end: Euler extraction with the concrete literals (`sig = 0.499`, full turn `2π`), no auxiliary
hypothesis on the sine, and the quaternion round trip through the two kernels
-/
set_option linter.unusedSectionVars false
namespace Cg.E2E.C07
open Cg Cg.Gen.C07 Real

/-- the path condition of the main path (both comparisons false) is the model's branch predicate -/
theorem main_branch_of_path (q : Quat ℝ)
    (h1 : ¬ Lits.sig * Trace.C07.eUnit q < Trace.C07.eTest q) (h2 : ¬ Trace.C07.eTest q < -Lits.sig * Trace.C07.eUnit q) :
    q.toEulerBranch = .main := by
  simp only [Trace.C07.eTest, Trace.C07.eUnit] at h1 h2
  unfold Quat.toEulerBranch
  simp only [if_neg h1, if_neg h2]

/-- for a unit quaternion the main path's condition is `|2(xz + yw)| ≤ 0.998` (i.e. `|sin y| ≤ 0.998`) -/
theorem main_path_iff (q : Quat ℝ) (hq : q.magnitude2 = 1) :
    (¬ Lits.sig * Trace.C07.eUnit q < Trace.C07.eTest q ∧ ¬ Trace.C07.eTest q < -Lits.sig * Trace.C07.eUnit q) ↔
      |2 * (q.v.x * q.v.z + q.v.y * q.s)| ≤ 0.998 := by
  have hu : Trace.C07.eUnit q = 1 := by
    have : q.s * q.s + (q.v.x * q.v.x + (q.v.y * q.v.y + q.v.z * q.v.z)) = 1 := by simpa using hq
    simp only [Trace.C07.eUnit]; linarith
  rw [hu, lits_sig, abs_le]
  simp only [Trace.C07.eTest, not_lt]
  constructor
  · rintro ⟨a, b⟩; constructor <;> linarith
  · rintro ⟨a, b⟩; constructor <;> linarith

/-- **main path, unconditionally** (literals instantiated: `sig = 0.499`): on the path where both of the code's comparisons are
false, the angles `Euler::from(q)` outputs for a unit `q` lie in the documented ranges and rebuild `q`'s rotation matrix exactly;
no hypothesis on the sine is needed (the path condition gives `|2(xz+yw)| ≤ 0.998 < 1`) -/
theorem code_to_euler_main_real (q : Quat ℝ) (hq : q.magnitude2 = 1)
    (h1 : ¬ Lits.sig * Trace.C07.eUnit q < Trace.C07.eTest q) (h2 : ¬ Trace.C07.eTest q < -Lits.sig * Trace.C07.eUnit q) :
    ∃ e : ℝ × ℝ × ℝ, t_q_to_euler_main (envL q.toList) =
        .okG [e.1, e.2.1, e.2.2] [.lt (Lits.sig * Trace.C07.eUnit q) (Trace.C07.eTest q) false,
                                   .lt (Trace.C07.eTest q) (-Lits.sig * Trace.C07.eUnit q) false] ∧
      (-π < e.1 ∧ e.1 ≤ π) ∧ (-(π / 2) ≤ e.2.1 ∧ e.2.1 ≤ π / 2) ∧ (-π < e.2.2 ∧ e.2.2 ≤ π) ∧
      Real.sin e.2.1 = 2 * (q.v.x * q.v.z + q.v.y * q.s) ∧
      M3.ofEuler e.1 e.2.1 e.2.2 = q.toM3 := by
  have hb := main_branch_of_path q h1 h2
  have ht := (main_path_iff q hq).1 ⟨h1, h2⟩
  obtain ⟨hs, r1, r2, r3, hm⟩ := C07.toEuler_main_spec' lits_sig q hq ht
  exact ⟨q.toEuler, Trace.C07.t_q_to_euler_main q h1 h2, r1, r2, r3, hs, hm⟩

/-- **quaternion round trip through the two kernels**: on the main path, feeding the angles output by the traced
`Euler::from(q)` to the traced `Quaternion::from(Euler)` returns the flattening of `q` or of `-q` (the same rotation), a
unit quaternion whose matrix is `q`'s -/
theorem code_euler_round_trip_quat (q : Quat ℝ) (hq : q.magnitude2 = 1)
    (h1 : ¬ Lits.sig * Trace.C07.eUnit q < Trace.C07.eTest q) (h2 : ¬ Trace.C07.eTest q < -Lits.sig * Trace.C07.eUnit q) :
    ∃ r : Quat ℝ, t_q_from_euler (envL (t_q_to_euler_main (envL q.toList)).out) = .okS r.toList ∧ (r = q ∨ r = -q) ∧
      r.magnitude2 = 1 ∧ r.toM3 = q.toM3 := by
  have hb := main_branch_of_path q h1 h2
  refine ⟨Quat.ofEuler q.toEuler.1 q.toEuler.2.1 q.toEuler.2.2, ?_, C07.toEuler_roundtrip_quat lits_sig q hq hb,
    C07.quat_ofEuler_unit _ _ _, ?_⟩
  · rw [Trace.C07.t_q_to_euler_main q h1 h2]
    exact Trace.C07.t_q_from_euler _ _ _
  · rw [C07.quat_ofEuler_toM3]
    exact (C07.toEuler_main_spec lits_sig q hq hb).2.2.2

/-- the same with the matrix kernels: the traced `Matrix3::from(Euler)` of the traced angles is the traced `Matrix3::from(q)` -/
theorem code_euler_round_trip_m3 (q : Quat ℝ) (hq : q.magnitude2 = 1)
    (h1 : ¬ Lits.sig * Trace.C07.eUnit q < Trace.C07.eTest q) (h2 : ¬ Trace.C07.eTest q < -Lits.sig * Trace.C07.eUnit q) :
    t_m3_from_euler (envL (t_q_to_euler_main (envL q.toList)).out) = .okS q.toM3.toList := by
  have hb := main_branch_of_path q h1 h2
  rw [Trace.C07.t_q_to_euler_main q h1 h2]
  show t_m3_from_euler (envL [q.toEuler.1, q.toEuler.2.1, q.toEuler.2.2]) = _
  rw [Trace.C07.t_m3_from_euler, (C07.toEuler_main_spec lits_sig q hq hb).2.2.2]

/-- the gimbal paths with the literals instantiated: `x = 0`, `y = ±π/2`, and the 0.13 envelope -/
theorem code_to_euler_gimbal_real (q : Quat ℝ) (hq : q.magnitude2 = 1) :
    (Lits.sig * Trace.C07.eUnit q < Trace.C07.eTest q →
      ∃ e : ℝ × ℝ × ℝ, t_q_to_euler_pos (envL q.toList) =
        .okG [e.1, e.2.1, e.2.2] [.lt (Lits.sig * Trace.C07.eUnit q) (Trace.C07.eTest q) true] ∧
      e.1 = 0 ∧ e.2.1 = π / 2 ∧
      ∀ c r : Fin 3, |(M3.ofEuler e.1 e.2.1 e.2.2).toMatrix r c - q.toM3.toMatrix r c| ≤ 0.13) ∧
    (¬ Lits.sig * Trace.C07.eUnit q < Trace.C07.eTest q → Trace.C07.eTest q < -Lits.sig * Trace.C07.eUnit q →
      ∃ e : ℝ × ℝ × ℝ, t_q_to_euler_neg (envL q.toList) =
        .okG [e.1, e.2.1, e.2.2] [.lt (Lits.sig * Trace.C07.eUnit q) (Trace.C07.eTest q) false,
                                   .lt (Trace.C07.eTest q) (-Lits.sig * Trace.C07.eUnit q) true] ∧
      e.1 = 0 ∧ e.2.1 = -(π / 2) ∧
      ∀ c r : Fin 3, |(M3.ofEuler e.1 e.2.1 e.2.2).toMatrix r c - q.toM3.toMatrix r c| ≤ 0.13) := by
  refine ⟨fun h1 => ?_, fun h1 h2 => ?_⟩
  · have hb : q.toEulerBranch = .pos := by
      simp only [Trace.C07.eTest, Trace.C07.eUnit] at h1
      unfold Quat.toEulerBranch
      simp only [if_pos h1]
    obtain ⟨g1, g2, g3⟩ := C07.toEuler_gimbal_spec lits_radFull lits_sig q hq (by rw [hb]; decide)
    refine ⟨q.toEuler, Trace.C07.t_q_to_euler_pos q h1, g1, ?_, g3⟩
    rcases g2 with g2 | g2
    · exact g2.2
    · rw [hb] at g2; exact absurd g2.1 (by decide)
  · have hb : q.toEulerBranch = .neg := by
      simp only [Trace.C07.eTest, Trace.C07.eUnit] at h1 h2
      unfold Quat.toEulerBranch
      simp only [if_neg h1, if_pos h2]
    obtain ⟨g1, g2, g3⟩ := C07.toEuler_gimbal_spec lits_radFull lits_sig q hq (by rw [hb]; decide)
    refine ⟨q.toEuler, Trace.C07.t_q_to_euler_neg q h1 h2, g1, ?_, g3⟩
    rcases g2 with g2 | g2
    · rw [hb] at g2; exact absurd g2.1 (by decide)
    · exact g2.2

/-- the hypotheses of the main path are satisfiable: `q = (w = 4/5; 0, 3/5, 0)` is a unit quaternion on it -/
example : let q : Quat ℝ := ⟨⟨0, 3 / 5, 0⟩, 4 / 5⟩
    q.magnitude2 = 1 ∧ ¬ Lits.sig * Trace.C07.eUnit q < Trace.C07.eTest q ∧
      ¬ Trace.C07.eTest q < -Lits.sig * Trace.C07.eUnit q := by
  intro q
  have hq : q.magnitude2 = 1 := by norm_num [q, Quat.magnitude2]
  refine ⟨hq, (main_path_iff q hq).2 ?_⟩
  norm_num [q, abs_le]
end Cg.E2E.C07
