import Cgm.E2E.C04
import Cgm.Trace.C04Auto
/-!
# C04 (completion), end to end: right distributivity, conjugate / `one()` / norm tied to their own kernels, the `(p * q) * v`
composition with every operation the traced one, `rotate_point`, the linear operations
-/
set_option linter.unusedSectionVars false
namespace Cg.E2E.C04
open Cg Cg.Gen.C04
variable {K : Type} [Field K] [Transc K] [FRem K] [Lits K]

/-- distributivity on both sides, associativity, `one()` as identity -- every product, sum and `one()` the traced kernel applied
to traced outputs -/
theorem code_ring (p q r : Quat K) :
    t_q_mul (envL ((t_q_add (envL (p.toList ++ q.toList))).out ++ r.toList)) =
      t_q_add (envL ((t_q_mul (envL (p.toList ++ r.toList))).out ++ (t_q_mul (envL (q.toList ++ r.toList))).out)) ∧
    t_q_mul (envL (p.toList ++ (t_q_add (envL (q.toList ++ r.toList))).out)) =
      t_q_add (envL ((t_q_mul (envL (p.toList ++ q.toList))).out ++ (t_q_mul (envL (p.toList ++ r.toList))).out)) ∧
    t_q_mul (envL ((t_q_mul (envL (p.toList ++ q.toList))).out ++ r.toList)) =
      t_q_mul (envL (p.toList ++ (t_q_mul (envL (q.toList ++ r.toList))).out)) ∧
    t_q_mul (envL ((t_q_one (envL ([] : List K))).out ++ p.toList)) = .okS p.toList ∧
    t_q_mul (envL (p.toList ++ (t_q_one (envL ([] : List K))).out)) = .okS p.toList := by
  have hm := fun a b : Quat K => Trace.C04.t_q_mul a b
  have ha := fun a b : Quat K => Trace.C04.t_q_add a b
  have h1 : t_q_one (envL ([] : List K)) = .okS (Quat.one : Quat K).toList := Trace.C04Auto.t_q_one
  obtain ⟨d1, d2⟩ := C04.mul_add p q r
  refine ⟨?_, ?_, ?_, ?_, ?_⟩
  · rw [ha p q, hm p r, hm q r]
    show t_q_mul (envL ((p + q).toList ++ r.toList)) = t_q_add (envL ((p * r).toList ++ (q * r).toList))
    rw [hm, ha, (C04.mul_add p q r).2]
  · rw [ha q r, hm p q, hm p r]
    show t_q_mul (envL (p.toList ++ (q + r).toList)) = t_q_add (envL ((p * q).toList ++ (p * r).toList))
    rw [hm, ha, d1]
  · rw [hm p q, hm q r]
    show t_q_mul (envL ((p * q).toList ++ r.toList)) = t_q_mul (envL (p.toList ++ (q * r).toList))
    rw [hm, hm, C04.mul_assoc]
  · rw [h1]
    show t_q_mul (envL ((Quat.one : Quat K).toList ++ p.toList)) = _
    rw [hm, (C04.one_mul p).1]
  · rw [h1]
    show t_q_mul (envL (p.toList ++ (Quat.one : Quat K).toList)) = _
    rw [hm, (C04.one_mul p).2]

/-- conjugation as computed negates the vector part, reverses products (`(p q)* = q* p*`, every operation traced), and
`|p q|² = |p|² |q|²` with the traced `magnitude2`; `magnitude2` is `dot` with itself -/
theorem code_conjugate (p q : Quat K) :
    t_q_conjugate (envL p.toList) = .okS [p.s, -p.v.x, -p.v.y, -p.v.z] ∧
    t_q_conjugate (envL (t_q_mul (envL (p.toList ++ q.toList))).out) =
      t_q_mul (envL ((t_q_conjugate (envL q.toList)).out ++ (t_q_conjugate (envL p.toList)).out)) ∧
    (∃ a b c : K, t_q_magnitude2 (envL p.toList) = .okS [a] ∧ t_q_magnitude2 (envL q.toList) = .okS [b] ∧
      t_q_magnitude2 (envL (t_q_mul (envL (p.toList ++ q.toList))).out) = .okS [c] ∧ c = a * b ∧
      a = p.s * p.s + (p.v.x * p.v.x + p.v.y * p.v.y + p.v.z * p.v.z) ∧ t_q_dot (envL (p.toList ++ p.toList)) = .okS [a]) := by
  have hm := fun a b : Quat K => Trace.C04.t_q_mul a b
  have hc := fun a : Quat K => Trace.C04.t_q_conjugate a
  refine ⟨?_, ?_, ?_⟩
  · rw [hc]; simp [Quat.toList, Quat.conjugate, V3.toList]
  · rw [hm p q, hc p, hc q]
    show t_q_conjugate (envL (p * q).toList) = t_q_mul (envL (q.conjugate.toList ++ p.conjugate.toList))
    rw [hc, hm, C04.conj_mul]
  · refine ⟨p.magnitude2, q.magnitude2, (p * q).magnitude2, Trace.C04.t_q_magnitude2 p, Trace.C04.t_q_magnitude2 q, ?_,
      C04.magnitude2_mul p q, (C04.magnitude2_eq p).1, ?_⟩
    · rw [hm p q]
      show t_q_magnitude2 (envL (p * q).toList) = _
      rw [Trace.C04.t_q_magnitude2]
    · rw [Trace.C04.t_q_dot, ← (C04.magnitude2_eq p).2]

/-- **composition of rotations**: for unit `p`, `q`, rotating by the traced product `p * q` is rotating by `q` and then by `p`,
with the traced `q * v` / `rotate_vector` / `rotate_point` throughout -/
theorem code_rotate_compose (p q : Quat K) (hp : p.magnitude2 = 1) (hq : q.magnitude2 = 1) (v : V3 K) (x : P3 K) :
    t_q_mul_v (envL ((t_q_mul (envL (p.toList ++ q.toList))).out ++ v.toList)) =
      t_q_mul_v (envL (p.toList ++ (t_q_mul_v (envL (q.toList ++ v.toList))).out)) ∧
    t_q_rotate_vector (envL ((t_q_mul (envL (p.toList ++ q.toList))).out ++ v.toList)) =
      t_q_rotate_vector (envL (p.toList ++ (t_q_rotate_vector (envL (q.toList ++ v.toList))).out)) ∧
    t_q_rotate_point (envL ((t_q_mul (envL (p.toList ++ q.toList))).out ++ x.toList)) =
      t_q_rotate_point (envL (p.toList ++ (t_q_rotate_point (envL (q.toList ++ x.toList))).out)) ∧
    t_q_rotate_point (envL (q.toList ++ x.toList)) = .okS (P3.fromVec (q * x.toVec)).toList := by
  have hm := Trace.C04.t_q_mul p q
  have hc := C04.mul_rotate p q hp hq
  refine ⟨?_, ?_, ?_, ?_⟩
  · rw [hm, Trace.C04.t_q_mul_v q v]
    show t_q_mul_v (envL ((p * q).toList ++ v.toList)) = t_q_mul_v (envL (p.toList ++ (q.mulVec v).toList))
    rw [Trace.C04.t_q_mul_v, Trace.C04.t_q_mul_v]
    exact congrArg (fun w : V3 K => Tr.okS w.toList) (hc v)
  · rw [hm, Trace.C04.t_q_rotate_vector q v]
    show t_q_rotate_vector (envL ((p * q).toList ++ v.toList)) = t_q_rotate_vector (envL (p.toList ++ (q.rotateVector v).toList))
    rw [Trace.C04.t_q_rotate_vector, Trace.C04.t_q_rotate_vector]
    exact congrArg (fun w : V3 K => Tr.okS w.toList) (hc v)
  · rw [hm, Trace.C04.t_q_rotate_point q x]
    show t_q_rotate_point (envL ((p * q).toList ++ x.toList)) = t_q_rotate_point (envL (p.toList ++ (q.rotatePoint x).toList))
    rw [Trace.C04.t_q_rotate_point, Trace.C04.t_q_rotate_point]
    exact congrArg (fun w : V3 K => Tr.okS (P3.fromVec w).toList) (hc x.toVec)
  · rw [Trace.C04.t_q_rotate_point]; rfl

/-- the hypotheses are satisfiable (two unit quaternions: the identity and the half turn about `x`) -/
example : (Quat.one : Quat ℚ).magnitude2 = 1 ∧ (Quat.new 0 1 0 0 : Quat ℚ).magnitude2 = 1 := by
  constructor <;> simp [Quat.one, Quat.new, Quat.fromSv, Quat.magnitude2, Quat.dot, V3.dot]

/-- the linear operations as computed are those of `ℍ[K]` on the same components; `/ s` is `* s⁻¹` -/
theorem code_linear (p q : Quat K) (k : K) :
    ∃ a b n m d : Quat K, t_q_add (envL (p.toList ++ q.toList)) = .okS a.toList ∧
      t_q_sub (envL (p.toList ++ q.toList)) = .okS b.toList ∧ t_q_neg (envL p.toList) = .okS n.toList ∧
      t_q_mul_s (envL (p.toList ++ [k])) = .okS m.toList ∧ t_q_div_s (envL (p.toList ++ [k])) = .okS d.toList ∧
      a.toH = p.toH + q.toH ∧ b.toH = p.toH - q.toH ∧ n.toH = -p.toH ∧ m.toH = k • p.toH ∧ d = p * k⁻¹ := by
  obtain ⟨h1, h2, h3, h4, h5⟩ := C04.linear_ops p q k
  exact ⟨p + q, p - q, -p, p * k, p / k, Trace.C04.t_q_add p q, Trace.C04Auto.t_q_sub p q, Trace.C04Auto.t_q_neg p,
    Trace.C04.t_q_mul_s p k, Trace.C04.t_q_div_s p k, h1, h2, h3, h4, h5⟩
end Cg.E2E.C04
