import Cgm.E2E.C09b
import Cgm.Trace.C09Paths
import Cgm.Trace.C08Paths
/-!
# C09 (completion), end to end: `Quaternion::look_at`, `Basis2::look_at` / `look_at_stable` (both flip outcomes),
`Decomposed<_, Basis3>::look_at*`, `Decomposed<_, Basis2>::look_at_lh`, and the deprecated entry points
-/
set_option linter.unusedSectionVars false
namespace Cg.E2E.C09
open Cg Cg.Gen.C09
variable [FRem ℝ] [Lits ℝ]

/-- **`Quaternion::look_at(d, up)`** as computed (`Matrix3::look_to_lh(d, up).into()`, on the traced path: non-negative trace in
`From<Matrix3> for Quaternion`), for a non-zero direction and an `up` not parallel to it: a unit quaternion whose matrix is
`Matrix3::look_to_lh(d, up)` as computed; it rotates `d` onto `(0, 0, +|d|)` and `up` into the half-plane `x = 0, y ≥ 0` -/
theorem code_q_look_at (d up : V3 ℝ) (hd : 0 < d.magnitude2) (hup : 0 < (V3.cross d up).magnitude2)
    (h : 0 ≤ (M3.lookToLh d up).trace) :
    ∃ q : Quat ℝ, t_q_look_at (envL (d.toList ++ up.toList)) = .okG q.toList [.le 0 (M3.lookToLh d up).trace true] ∧
      q.magnitude2 = 1 ∧ t_m3_look_to_lh (envL (d.toList ++ up.toList)) = .okS q.toM3.toList ∧
      t_b3_look_at (envL (d.toList ++ up.toList)) = .okS q.toM3.toList ∧
      q.rotateVector d = ⟨0, 0, d.magnitude⟩ ∧ (q.rotateVector up).x = 0 ∧ 0 ≤ (q.rotateVector up).y ∧
      q.toM3.transpose * q.toM3 = M3.one ∧ q.toM3.det = 1 := by
  obtain ⟨q1, q2, -, -, q5, q6, q7⟩ := C09.quat_lookAt_spec d up hd hup
  obtain ⟨a1, a2, -⟩ := C09.lookToLh3_spec d up hd hup
  refine ⟨Quat.lookAt d up, Trace.C09Paths.t_q_look_at d up h, q1, ?_, ?_, q5, q6, q7, ?_, ?_⟩
  · rw [Trace.C09.t_m3_look_to_lh, q2]
  · rw [Trace.C09.t_b3_look_at, q2]; rfl
  · rw [q2]; exact a1
  · rw [q2]; exact a2

/-- the hypotheses are satisfiable: looking along `+z` with `up = +y` gives the identity rotation (trace 3) -/
example : 0 < (⟨0, 0, 1⟩ : V3 ℝ).magnitude2 ∧ 0 < (V3.cross (⟨0, 0, 1⟩ : V3 ℝ) ⟨0, 1, 0⟩).magnitude2 ∧
    0 ≤ (M3.lookToLh (⟨0, 0, 1⟩ : V3 ℝ) ⟨0, 1, 0⟩).trace := by
  have n1 : (⟨0, 0, 1⟩ : V3 ℝ).normalize = ⟨0, 0, 1⟩ := by
    ext <;> simp [V3.normalize, V3.normalizeTo, V3.magnitude, transc_sqrt]
  have n2 : (⟨1, 0, 0⟩ : V3 ℝ).normalize = ⟨1, 0, 0⟩ := by
    ext <;> simp [V3.normalize, V3.normalizeTo, V3.magnitude, transc_sqrt]
  have n3 : (⟨0, 1, 0⟩ : V3 ℝ).normalize = ⟨0, 1, 0⟩ := by
    ext <;> simp [V3.normalize, V3.normalizeTo, V3.magnitude, transc_sqrt]
  have c1 : V3.cross (⟨0, 1, 0⟩ : V3 ℝ) (⟨0, 0, 1⟩ : V3 ℝ) = ⟨1, 0, 0⟩ := by ext <;> simp
  have c2 : V3.cross (⟨0, 0, 1⟩ : V3 ℝ) ⟨1, 0, 0⟩ = ⟨0, 1, 0⟩ := by ext <;> simp
  refine ⟨by simp, by simp, ?_⟩
  simp only [M3.lookToLh, n1, c1, n2, c2, n3]
  norm_num [M3.transpose, M3.trace, M3.diagonal, V3.sum]

/-- **`Basis2::look_at(d, up)`** as computed, both outcomes of the flip comparison `up.y d.x ≤ up.x d.y`: the same matrix as
`Matrix2::look_at` as computed; orthonormal columns, the first equal to `d/|d|`, the second on the side of `up`; determinant
`-1` (a reflection) on the flip path and `+1` on the other -/
theorem code_b2_look_at (d up : V2 ℝ) (hd : 0 < d.magnitude2) :
    ∃ m : M2 ℝ,
      (up.y * d.x ≤ up.x * d.y → t_b2_look_at_flip (envL (d.toList ++ up.toList)) =
          .okG m.toList [.le (up.y * d.x) (up.x * d.y) true] ∧
        t_m2_look_at_flip (envL (d.toList ++ up.toList)) = t_b2_look_at_flip (envL (d.toList ++ up.toList)) ∧ m.det = -1) ∧
      (¬ up.y * d.x ≤ up.x * d.y → t_b2_look_at_noflip (envL (d.toList ++ up.toList)) =
          .okG m.toList [.le (up.y * d.x) (up.x * d.y) false] ∧
        t_m2_look_at_noflip (envL (d.toList ++ up.toList)) = t_b2_look_at_noflip (envL (d.toList ++ up.toList)) ∧ m.det = 1) ∧
      m.x = d * (1 / d.magnitude) ∧ V2.dot m.x m.x = 1 ∧ V2.dot m.y m.y = 1 ∧ V2.dot m.x m.y = 0 ∧ 0 ≤ V2.dot m.y up ∧
      m.transpose * m = M2.one := by
  obtain ⟨s1, s2, s3, s4, s5⟩ := C09.lookAt2_spec d up hd
  obtain ⟨h1, h2, -, -⟩ := C09.lookAt2_det d up hd
  refine ⟨M2.lookAt d up, fun hh => ⟨Trace.C09Paths.t_b2_look_at_flip d up hh, ?_, by rw [h2, if_pos hh]⟩,
    fun hh => ⟨Trace.C09Paths.t_b2_look_at_noflip d up hh, ?_, by rw [h2, if_neg hh]⟩, s1, s2, s3, s4, s5, h1⟩
  · rw [Trace.C09.t_m2_look_at_flip d up hh, Trace.C09Paths.t_b2_look_at_flip d up hh]; rfl
  · rw [Trace.C09.t_m2_look_at_noflip d up hh, Trace.C09Paths.t_b2_look_at_noflip d up hh]; rfl

/-- **`look_at_stable(d, flip)`** (`Matrix2` both values of `flip`, `Basis2` with `flip = true`): no comparison; orthonormal
columns, the first `d/|d|`; determinant `+1` without the flip and `-1` with it -/
theorem code_look_at_stable (d : V2 ℝ) (hd : 0 < d.magnitude2) :
    ∃ m0 m1 : M2 ℝ, t_m2_look_at_stable_noflip (envL d.toList) = .okS m0.toList ∧
      t_m2_look_at_stable_flip (envL d.toList) = .okS m1.toList ∧ t_b2_look_at_stable_flip (envL d.toList) = .okS m1.toList ∧
      m0.x = d * (1 / d.magnitude) ∧ m1.x = d * (1 / d.magnitude) ∧
      m0.transpose * m0 = M2.one ∧ m1.transpose * m1 = M2.one ∧ m0.det = 1 ∧ m1.det = -1 := by
  obtain ⟨a1, a2⟩ := C09.lookAtStable_det d false hd
  obtain ⟨b1, b2⟩ := C09.lookAtStable_det d true hd
  obtain ⟨-, n2, -⟩ := C09.normalize_unit2 d hd
  exact ⟨M2.lookAtStable d false, M2.lookAtStable d true, Trace.C09Paths.t_m2_look_at_stable_noflip d,
    Trace.C09Paths.t_m2_look_at_stable_flip d, Trace.C09Paths.t_b2_look_at_stable_flip d, n2, n2, a1, b1, by simpa using a2,
    by simpa using b2⟩

/-- the hypothesis is satisfiable, and both sides of the comparison occur -/
example : 0 < (⟨1, 0⟩ : V2 ℝ).magnitude2 ∧ ((⟨0, -1⟩ : V2 ℝ).y * (1 : ℝ) ≤ (⟨0, -1⟩ : V2 ℝ).x * 0) ∧
    ¬ ((⟨0, 1⟩ : V2 ℝ).y * (1 : ℝ) ≤ (⟨0, 1⟩ : V2 ℝ).x * 0) := by
  refine ⟨by simp, by norm_num, by norm_num⟩

/-- **deprecated entry points** agree with the non-deprecated ones as computed: `Matrix3::look_at(dir, up)` is `look_to_lh`,
`Matrix4::look_at(eye, center, up)` is `look_at_rh`, `Matrix4::look_at_dir(eye, dir, up)` is `look_to_rh` -- so every
statement about the latter (`Cgm/E2E/C09.lean`, `C09b.lean`) holds for the former -/
theorem code_deprecated_agree (e c : P3 ℝ) (d u : V3 ℝ) :
    t_m3_look_at_dep (envL (d.toList ++ u.toList)) = t_m3_look_to_lh (envL (d.toList ++ u.toList)) ∧
    t_m4_look_at_dep (envL (e.toList ++ c.toList ++ u.toList)) = t_m4_look_at_rh (envL (e.toList ++ c.toList ++ u.toList)) ∧
    t_m4_look_at_dir_dep (envL (e.toList ++ d.toList ++ u.toList)) = t_m4_look_to_rh (envL (e.toList ++ d.toList ++ u.toList)) := by
  refine ⟨?_, ?_, ?_⟩
  · rw [Trace.C09Paths.t_m3_look_at_dep, Trace.C09.t_m3_look_to_lh]
  · rw [Trace.C09Paths.t_m4_look_at_dep, Trace.C09.t_m4_look_at_rh]
  · rw [Trace.C09Paths.t_m4_look_at_dir_dep, Trace.C09.t_m4_look_to_rh]

/-- consequently the deprecated `Matrix4::look_at_dir` as computed is the right-handed view matrix of the property -/
theorem code_look_at_dir_dep (eye : P3 ℝ) (d up : V3 ℝ) (hd : 0 < d.magnitude2) (hup : 0 < (V3.cross d up).magnitude2) :
    ∃ m : M4 ℝ, t_m4_look_at_dir_dep (envL (eye.toList ++ d.toList ++ up.toList)) = .okS m.toList ∧
      m = M4.lookToRh eye d up ∧ m.transformPoint eye = P3.origin ∧ m.transformVector d = ⟨0, 0, -d.magnitude⟩ ∧
      (m.transformVector up).x = 0 ∧ 0 ≤ (m.transformVector up).y :=
  ⟨_, Trace.C09Paths.t_m4_look_at_dir_dep eye d up, rfl, (C09.lookToRh_spec' eye d up hd hup).2.2.2.1,
    (C09.lookToRh_spec' eye d up hd hup).2.2.2.2.1, (C09.lookToRh_spec' eye d up hd hup).2.2.2.2.2⟩

section decomposed
variable [Approx ℝ]
open Cg.Gen.C08 Cg.Trace.C08 Cg.Trace.C08Paths

/-- **`Decomposed::<Vector3, Basis3>::look_at_lh(eye, center, up)`** and the deprecated `look_at` as computed (no comparison):
unit scale, rotation `Matrix3::look_to_lh(center - eye, up)`; the eye goes to the origin, the target onto `+z` at its distance;
converting to a `Matrix4` -- as computed from the output -- gives `Matrix4::look_at_lh(eye, center, up)` as computed -/
theorem code_db3_look_at_lh (eye center : P3 ℝ) (up : V3 ℝ) (hd : 0 < (center - eye : V3 ℝ).magnitude2)
    (hup : 0 < (V3.cross (center - eye) up).magnitude2) :
    ∃ t : DB3 ℝ, t_db3_look_at_lh (envL (eye.toList ++ center.toList ++ up.toList)) = .okS (flb3 t) ∧
      t_db3_look_at (envL (eye.toList ++ center.toList ++ up.toList)) = .okS (flb3 t) ∧
      t.scale = 1 ∧ t.rot.mat = M3.lookToLh (center - eye) up ∧
      t.rot.mat.transpose * t.rot.mat = M3.one ∧ t.rot.mat.det = 1 ∧
      t.transformPointV basis3Ops eye.toVec = V3.zero ∧
      t.transformPointV basis3Ops center.toVec = ⟨0, 0, (center - eye : V3 ℝ).magnitude⟩ ∧
      Decomposed.toM4 basis3Ops t = M4.lookAtLh eye center up ∧
      t_m4_look_at_lh (envL (eye.toList ++ center.toList ++ up.toList)) = .okS (Decomposed.toM4 basis3Ops t).toList := by
  obtain ⟨k1, k2, k3, k4, k5⟩ := C09.decomposed_lookAtLh eye center up hd hup
  obtain ⟨a1, a2, -⟩ := C09.lookToLh3_spec (center - eye) up hd hup
  refine ⟨Decomposed.lookAtDir basis3Ops (center - eye) up V3.zero eye.toVec, Trace.C08Paths.t_db3_look_at_lh eye center up,
    Trace.C08Paths.t_db3_look_at eye center up, k1, k2, ?_, ?_, k3, k5, k4, ?_⟩
  · rw [k2]; exact a1
  · rw [k2]; exact a2
  · rw [Trace.C09.t_m4_look_at_lh, k4]

/-- **`Decomposed::<Vector3, Basis3>::look_at_rh(eye, center, up)`** as computed: rotation `Matrix3::look_to_rh(center - eye,
up)`; the eye goes to the origin, the target onto `-z`; its matrix is `Matrix4::look_at_rh(eye, center, up)` as computed -/
theorem code_db3_look_at_rh (eye center : P3 ℝ) (up : V3 ℝ) (hd : 0 < (center - eye : V3 ℝ).magnitude2)
    (hup : 0 < (V3.cross (center - eye) up).magnitude2) :
    ∃ t : DB3 ℝ, t_db3_look_at_rh (envL (eye.toList ++ center.toList ++ up.toList)) = .okS (flb3 t) ∧
      t.scale = 1 ∧ t.rot.mat = M3.lookToRh (center - eye) up ∧
      t.rot.mat.transpose * t.rot.mat = M3.one ∧ t.rot.mat.det = 1 ∧
      t.transformPointV basis3Ops eye.toVec = V3.zero ∧
      t.transformPointV basis3Ops center.toVec = ⟨0, 0, -(center - eye : V3 ℝ).magnitude⟩ ∧
      Decomposed.toM4 basis3Ops t = M4.lookAtRh eye center up ∧
      t_m4_look_at_rh (envL (eye.toList ++ center.toList ++ up.toList)) = .okS (Decomposed.toM4 basis3Ops t).toList := by
  obtain ⟨k1, k2, k3, k4, k5⟩ := C09.decomposed_lookAtRh eye center up hd hup
  obtain ⟨a1, a2, -⟩ := C09.lookToRh3_spec (center - eye) up hd hup
  refine ⟨Decomposed.lookAtDir basis3Ops (eye - center) up V3.zero eye.toVec, Trace.C08Paths.t_db3_look_at_rh eye center up,
    k1, k2, ?_, ?_, k3, k5, k4, ?_⟩
  · rw [k2]; exact a1
  · rw [k2]; exact a2
  · rw [Trace.C09.t_m4_look_at_rh, k4]

/-- **`Decomposed::<Vector3, Quaternion>::look_at`** (deprecated alias) as computed returns what `look_at_lh` returns, on the
same path -/
theorem code_dq_look_at_dep (eye center : P3 ℝ) (up : V3 ℝ) (h : 0 ≤ (M3.lookToLh (center - eye) up).trace) :
    t_dq_look_at (envL (eye.toList ++ center.toList ++ up.toList)) =
      t_dq_look_at_lh (envL (eye.toList ++ center.toList ++ up.toList)) := by
  rw [Trace.C08Paths.t_dq_look_at eye center up h, Trace.C08.t_dq_look_at_lh eye center up h]

/-- **`Decomposed::<Vector2, Basis2>::look_at_lh(eye, center, up)`** as computed, on the traced (no-flip) side of
`Matrix2::look_at`'s comparison: unit scale, rotation `Matrix2::look_at(center - eye, up)` -- orthonormal, first column the
normalised direction, determinant `+1` on this path --, and the eye goes to the origin -/
theorem code_db2_look_at_lh (eye center : P2 ℝ) (up : V2 ℝ) (hd : 0 < (center - eye : V2 ℝ).magnitude2)
    (h : ¬ up.y * (center - eye : V2 ℝ).x ≤ up.x * (center - eye : V2 ℝ).y) :
    ∃ t : DB2 ℝ, t_db2_look_at_lh (envL (eye.toList ++ center.toList ++ up.toList)) =
        .okG (flb2 t) [.le (up.y * (center - eye : V2 ℝ).x) (up.x * (center - eye : V2 ℝ).y) false] ∧
      t.scale = 1 ∧ t.rot.mat = M2.lookAt (center - eye) up ∧
      t.rot.mat.x = (center - eye : V2 ℝ) * (1 / (center - eye : V2 ℝ).magnitude) ∧
      t.rot.mat.transpose * t.rot.mat = M2.one ∧ t.rot.mat.det = 1 ∧ 0 ≤ V2.dot t.rot.mat.y up ∧
      t.transformPointV basis2Ops eye.toVec = V2.zero := by
  obtain ⟨s1, -, -, -, s5⟩ := C09.lookAt2_spec (center - eye) up hd
  obtain ⟨h1, h2, -, -⟩ := C09.lookAt2_det (center - eye) up hd
  refine ⟨Decomposed.lookAtDir basis2Ops (center - eye) up V2.zero eye.toVec, Trace.C08Paths.t_db2_look_at_lh eye center up h,
    rfl, rfl, s1, h1, by rw [show (Decomposed.lookAtDir basis2Ops (center - eye) up V2.zero eye.toVec : DB2 ℝ).rot.mat =
      M2.lookAt (center - eye) up from rfl, h2, if_neg h], s5, ?_⟩
  show (Basis2.lookAt (center - eye) up).rotateVector (eye.toVec * (1 : ℝ)) +
    (Basis2.lookAt (center - eye) up).rotateVector (V2.zero - eye.toVec) = V2.zero
  simp only [Basis2.rotateVector]
  ext <;> simp [V2.zero] <;> ring
end decomposed
end Cg.E2E.C09
