import Cgm.Trace.C02
import Cgm.Props.C02
/-!
# C02, end to end: the property clauses stated about what the code computes

`Cg.Gen.C02.*` are the definitions regenerated from `/repo`'s source on every run (the real
`determinant` / `invert` / `transpose` executed on symbolic inputs).  Each theorem below states a clause
of the property about such a definition directly -- "the list of outputs the code produced is the
flattening of a matrix `n` with `m * n = n * m = 1`" -- by composing the trace obligation
(`Cgm/Trace/C02.lean`: traced kernel = model) with the property theorem (`Cgm/Props/C02.lean`: the model
satisfies the clause).  They are re-checked against the regenerated definitions on every run.
-/
set_option linter.unusedSectionVars false
namespace Cg.E2E.C02
open Cg Cg.Gen.C02
variable {K : Type} [Field K] [DecidableEq K] [Transc K] [FRem K] [Lits K]

/-- the value `determinant()` computes is the Leibniz sum (Mathlib's `Matrix.det` of the same entries), 2x2 .. 4x4 -/
theorem code_det_is_leibniz (a2 : M2 K) (a3 : M3 K) (a4 : M4 K) :
    t_m2_det (envL a2.toList) = .okS [a2.toMatrix.det] ∧ t_m3_det (envL a3.toList) = .okS [a3.toMatrix.det] ∧
    t_m4_det (envL a4.toList) = .okS [a4.toMatrix.det] := by
  rw [Trace.C02.t_m2_det, Trace.C02.t_m3_det, Trace.C02.t_m4_det, C02.M2.det_leibniz, C02.M3.det_leibniz, C02.M4.det_leibniz]
  exact ⟨rfl, rfl, rfl⟩

/-- on the path where the code's only comparison `det == 0` is false, `Matrix4::invert` returns the flattening of a
two-sided inverse -/
theorem code_m4_invert_two_sided (a : M4 K) (h : a.det ≠ 0) :
    ∃ n : M4 K, t_m4_invert_some (envL a.toList) = .okG n.toList [.eq a.det 0 false] ∧ a * n = M4.one ∧ n * a = M4.one := by
  obtain ⟨n, hn⟩ : ∃ n, a.invert = some n := by
    cases hi : a.invert with
    | none => exact absurd ((C02.M4.invert_none_iff a).1 hi) h
    | some n => exact ⟨n, rfl⟩
  exact ⟨n, by rw [Trace.C02.t_m4_invert_some a h, hn]; rfl, C02.M4.invert_spec a n hn⟩
theorem code_m3_invert_two_sided (a : M3 K) (h : a.det ≠ 0) :
    ∃ n : M3 K, t_m3_invert_some (envL a.toList) = .okG n.toList [.eq a.det 0 false] ∧ a * n = M3.one ∧ n * a = M3.one := by
  obtain ⟨n, hn⟩ : ∃ n, a.invert = some n := by
    cases hi : a.invert with
    | none => exact absurd ((C02.M3.invert_none_iff a).1 hi) h
    | some n => exact ⟨n, rfl⟩
  exact ⟨n, by rw [Trace.C02.t_m3_invert_some a h, hn]; rfl, C02.M3.invert_spec a n hn⟩
theorem code_m2_invert_two_sided (a : M2 K) (h : a.det ≠ 0) :
    ∃ n : M2 K, t_m2_invert_some (envL a.toList) = .okG n.toList [.eq a.det 0 false] ∧ a * n = M2.one ∧ n * a = M2.one := by
  obtain ⟨n, hn⟩ : ∃ n, a.invert = some n := by
    cases hi : a.invert with
    | none => exact absurd ((C02.M2.invert_none_iff a).1 hi) h
    | some n => exact ⟨n, rfl⟩
  exact ⟨n, by rw [Trace.C02.t_m2_invert_some a h, hn]; rfl, C02.M2.invert_spec a n hn⟩

/-- on the other path the code returns `None`, and the comparison it RECORDED is `det == 0` (came out true).  The statement holds for every
matrix (the kernel is the path, not the function); the reading "`None` exactly when the determinant is zero" is made formal in
`E2E/C02g.lean` through `Tr.Consistent` (guard semantics, `Lemmas/GuardSem.lean`). -/
theorem code_invert_none_path (a2 : M2 K) (a3 : M3 K) (a4 : M4 K) :
    t_m2_invert_none (envL a2.toList) = .noneG [.eq a2.det 0 true] ∧ t_m3_invert_none (envL a3.toList) = .noneG [.eq a3.det 0 true] ∧
    t_m4_invert_none (envL a4.toList) = .noneG [.eq a4.det 0 true] :=
  ⟨Trace.C02.t_m2_invert_none a2, Trace.C02.t_m3_invert_none a3, Trace.C02.t_m4_invert_none a4⟩

/-- `inverse_transform()` of a matrix used as a transform is that same inverse -/
theorem code_m4_inverse_transform_two_sided (a : M4 K) (h : a.det ≠ 0) :
    ∃ n : M4 K, t_m4_inverse_transform_some (envL a.toList) = .okG n.toList [.eq a.det 0 false] ∧ a * n = M4.one ∧ n * a = M4.one ∧
      a.invert = some n := by
  obtain ⟨n, hn⟩ : ∃ n, a.invert = some n := by
    cases hi : a.invert with
    | none => exact absurd ((C02.M4.invert_none_iff a).1 hi) h
    | some n => exact ⟨n, rfl⟩
  have := C02.M4.invert_spec a n hn
  have he : a.inverseTransform = a.invert := rfl
  exact ⟨n, by rw [Trace.C02.t_m4_inverse_transform_some a h, he, hn]; rfl, this.1, this.2, hn⟩

/-- transposing (in the model) the transpose the code computed gives the matrix back, and the computed transpose reverses products -/
theorem code_m4_transpose (a b : M4 K) :
    ∃ t : M4 K, t_m4_transpose (envL a.toList) = .okS t.toList ∧ t.transpose = a ∧ (a * b).transpose = b.transpose * t :=
  ⟨a.transpose, Trace.C02.t_m4_transpose a, rfl, C02.M4.transpose_mul a b⟩
end Cg.E2E.C02
