import Cgm.E2E.C05b
import Cgm.Trace.C05Paths
import Cgm.Props.C05c
/-!
# C05 (third part), end to end: quaternion → matrix → quaternion on ALL five traced paths

`code_round_trip` (E2E/C05.lean) lists four of the five traced paths of `From<Matrix3> for Quaternion`; the fifth (`zz2`:
negative trace, `m11 < m00`, `¬ m22 < m00`, `¬ m22 < m11` — the second way into the "third diagonal element largest" case,
through the short-circuited `&&`) is added here, together with the proof that the five path conditions are exhaustive, so
that for EVERY unit quaternion exactly one premise holds and the statement pins the kernel's output.

* `code_round_trip_all_paths`        : the five implications + exhaustiveness, the matrix being the traced kernel's output
* `code_round_trip_selected`         : the same as ONE disjunction "path condition ∧ run of that kernel on the output list
                                       of the traced quaternion→matrix kernel", with the sign rule (`q` or `-q` by the sign of
                                       the pivot component)
* `code_basis3_round_trip_all_paths` : the same for `Quaternion::from(Basis3)` (kernels `t_b3_to_quat_*`, whose `Basis3` the
                                       harness builds from `q`), with the value named by the model's `Quat.ofBasis3`
* `code_basis3_round_trip_selected`  : its one-disjunction form with the sign rule
-/
set_option linter.unusedSectionVars false
namespace Cg.E2E.C05
open Cg Cg.Gen.C05
section field
variable {K : Type} [Field K] [LinearOrder K] [Transc K] [FRem K] [Lits K]

/-- **the Matrix4 the code converts a unit `q` to is orthonormal with determinant `+1`** — the 4x4 matrix itself: both
products with its transpose are `Matrix4::one` and the 4x4 determinant is `1` (missing from `code_to_m4`) -/
theorem code_to_m4_orthonormal (q : Quat K) (hq : q.magnitude2 = 1) :
    ∃ f : Quat K → M4 K, (∀ a, t_q_to_m4 (envL a.toList) = .okS (f a).toList) ∧
      (f q).transpose * f q = M4.one ∧ f q * (f q).transpose = M4.one ∧ (f q).det = 1 :=
  ⟨Quat.toM4, fun a => Trace.C05.t_q_to_m4 a, C05.toM4_orthonormal_full q hq⟩

/-- **`Basis3::from(q)` and its `rotate_vector`, as computed**: the traced `Basis3` is `Matrix3::from(q)` (`t_b3_to_m3`
returns the same entries), rotating by it gives `q * v`, and for a unit `q` it is orthonormal with determinant `+1` -/
theorem code_basis3_rotate (q : Quat K) (v : V3 K) :
    ∃ f : Quat K → Basis3 K, (∀ a, t_q_to_basis3 (envL a.toList) = .okS (f a).mat.toList) ∧
      (∀ a, t_b3_to_m3 (envL a.toList) = .okS (f a).mat.toList) ∧
      (∀ a w, t_b3_rotate_vector (envL (a.toList ++ w.toList)) = .okS ((f a).rotateVector w).toList) ∧
      (f q).rotateVector v = q * v ∧ (f q).mat = q.toM3 ∧
      (q.magnitude2 = 1 → (f q).mat.transpose * (f q).mat = M3.one ∧ (f q).mat * (f q).mat.transpose = M3.one ∧
        (f q).mat.det = 1) :=
  ⟨Basis3.fromQuaternion, fun a => Trace.C05Auto.t_q_to_basis3 a, fun a => Trace.C05Auto.t_b3_to_m3 a,
    fun a w => Trace.C05Auto.t_b3_rotate_vector a w, (C05.basis3_rotate q v).1, rfl,
    fun hq => C05.basis3_fromQuaternion_rotation q hq⟩
end field

section real
variable [FRem ℝ] [Lits ℝ]

/-- which model case each traced path belongs to (`zz` is entered by two paths) -/
theorem branch_of_path (m : M3 ℝ) :
    (0 ≤ m.trace → m.toQuatBranch = .trace) ∧
    (¬ 0 ≤ m.trace → m.y.y < m.x.x → m.z.z < m.x.x → m.toQuatBranch = .xx) ∧
    (¬ 0 ≤ m.trace → ¬ m.y.y < m.x.x → m.z.z < m.y.y → m.toQuatBranch = .yy) ∧
    (¬ 0 ≤ m.trace → ¬ m.y.y < m.x.x → ¬ m.z.z < m.y.y → m.toQuatBranch = .zz) ∧
    (¬ 0 ≤ m.trace → m.y.y < m.x.x → ¬ m.z.z < m.x.x → ¬ m.z.z < m.y.y → m.toQuatBranch = .zz) := by
  refine ⟨fun h => ?_, fun h h1 h2 => ?_, fun h h1 h2 => ?_, fun h h1 h2 => ?_, fun h h1 h2 h3 => ?_⟩ <;>
    unfold M3.toQuatBranch
  · rw [if_pos h]
  · rw [if_neg h, if_pos ⟨h1, h2⟩]
  · rw [if_neg h, if_neg (fun hh => h1 hh.1), if_pos h2]
  · rw [if_neg h, if_neg (fun hh => h1 hh.1), if_neg h2]
  · rw [if_neg h, if_neg (fun hh => h2 hh.2), if_neg h3]

/-- **forward round trip, all five paths**: for a unit quaternion `q` let `m` be the matrix the traced
`From<Quaternion> for Matrix3` outputs.  There is ONE quaternion `r ∈ {q, -q}` (with the same matrix) such that whichever of
the five traced paths of `From<Matrix3> for Quaternion` the comparisons select, that kernel, run on `m`, outputs `r` having
made exactly those comparisons; and the five path conditions are exhaustive, so one of the runs is always pinned. -/
theorem code_round_trip_all_paths (q : Quat ℝ) (hq : q.magnitude2 = 1) :
    ∃ r : Quat ℝ, (r = q ∨ r = -q) ∧ r.toM3 = q.toM3 ∧
      (let m := q.toM3
       t_q_to_m3 (envL q.toList) = .okS m.toList ∧
       (0 ≤ m.trace → t_m3_to_quat_trace (envL m.toList) = .okG r.toList [.le 0 m.trace true]) ∧
       (¬ 0 ≤ m.trace → m.y.y < m.x.x → m.z.z < m.x.x → t_m3_to_quat_xx (envL m.toList) =
          .okG r.toList [.le 0 m.trace false, .lt m.y.y m.x.x true, .lt m.z.z m.x.x true]) ∧
       (¬ 0 ≤ m.trace → ¬ m.y.y < m.x.x → m.z.z < m.y.y → t_m3_to_quat_yy (envL m.toList) =
          .okG r.toList [.le 0 m.trace false, .lt m.y.y m.x.x false, .lt m.z.z m.y.y true]) ∧
       (¬ 0 ≤ m.trace → ¬ m.y.y < m.x.x → ¬ m.z.z < m.y.y → t_m3_to_quat_zz (envL m.toList) =
          .okG r.toList [.le 0 m.trace false, .lt m.y.y m.x.x false, .lt m.z.z m.y.y false]) ∧
       (¬ 0 ≤ m.trace → m.y.y < m.x.x → ¬ m.z.z < m.x.x → ¬ m.z.z < m.y.y → t_m3_to_quat_zz2 (envL m.toList) =
          .okG r.toList [.le 0 m.trace false, .lt m.y.y m.x.x true, .lt m.z.z m.x.x false, .lt m.z.z m.y.y false]) ∧
       (0 ≤ m.trace ∨ (¬ 0 ≤ m.trace ∧ m.y.y < m.x.x ∧ m.z.z < m.x.x) ∨
        (¬ 0 ≤ m.trace ∧ ¬ m.y.y < m.x.x ∧ m.z.z < m.y.y) ∨ (¬ 0 ≤ m.trace ∧ ¬ m.y.y < m.x.x ∧ ¬ m.z.z < m.y.y) ∨
        (¬ 0 ≤ m.trace ∧ m.y.y < m.x.x ∧ ¬ m.z.z < m.x.x ∧ ¬ m.z.z < m.y.y))) :=
  ⟨q.toM3.toQuat, C05.toQuat_toM3 q hq, C05.toM3_toQuat_toM3 q hq, Trace.C05.t_q_to_m3 q,
    fun h => Trace.C05.t_m3_to_quat_trace _ h, fun h h1 h2 => Trace.C05.t_m3_to_quat_xx _ h h1 h2,
    fun h h1 h2 => Trace.C05.t_m3_to_quat_yy _ h h1 h2, fun h h1 h2 => Trace.C05.t_m3_to_quat_zz _ h h1 h2,
    fun h h1 h2 h3 => Trace.C05.t_m3_to_quat_zz2 _ h h1 h2 h3, paths_exhaustive q.toM3⟩

/-- **the selected path, kernels composed, with the sign**: for every unit quaternion one of five things happens (stated as an inclusive
`∨`; that exactly one path is consistent is `m3_to_quat_exactly_one`, `E2E/C05g.lean`) —
the path condition of a kernel holds and that kernel, fed the output list of the traced quaternion→matrix kernel, returns `q`
if the component it computes first (`w`, `x`, `y`, `z`, `z`) is positive and `-q` if negative (it is never zero) -/
theorem code_round_trip_selected (q : Quat ℝ) (hq : q.magnitude2 = 1) :
    let m := q.toM3
    let l := (t_q_to_m3 (envL q.toList)).out
    (0 ≤ m.trace ∧ q.s ≠ 0 ∧
      t_m3_to_quat_trace (envL l) = .okG (if 0 ≤ q.s then q else -q).toList [.le 0 m.trace true]) ∨
    (¬ 0 ≤ m.trace ∧ m.y.y < m.x.x ∧ m.z.z < m.x.x ∧ q.v.x ≠ 0 ∧
      t_m3_to_quat_xx (envL l) = .okG (if 0 ≤ q.v.x then q else -q).toList
        [.le 0 m.trace false, .lt m.y.y m.x.x true, .lt m.z.z m.x.x true]) ∨
    (¬ 0 ≤ m.trace ∧ ¬ m.y.y < m.x.x ∧ m.z.z < m.y.y ∧ q.v.y ≠ 0 ∧
      t_m3_to_quat_yy (envL l) = .okG (if 0 ≤ q.v.y then q else -q).toList
        [.le 0 m.trace false, .lt m.y.y m.x.x false, .lt m.z.z m.y.y true]) ∨
    (¬ 0 ≤ m.trace ∧ ¬ m.y.y < m.x.x ∧ ¬ m.z.z < m.y.y ∧ q.v.z ≠ 0 ∧
      t_m3_to_quat_zz (envL l) = .okG (if 0 ≤ q.v.z then q else -q).toList
        [.le 0 m.trace false, .lt m.y.y m.x.x false, .lt m.z.z m.y.y false]) ∨
    (¬ 0 ≤ m.trace ∧ m.y.y < m.x.x ∧ ¬ m.z.z < m.x.x ∧ ¬ m.z.z < m.y.y ∧ q.v.z ≠ 0 ∧
      t_m3_to_quat_zz2 (envL l) = .okG (if 0 ≤ q.v.z then q else -q).toList
        [.le 0 m.trace false, .lt m.y.y m.x.x true, .lt m.z.z m.x.x false, .lt m.z.z m.y.y false]) := by
  intro m l
  have hl : l = m.toList := by
    show (t_q_to_m3 (envL q.toList)).out = _
    rw [Trace.C05.t_q_to_m3]; rfl
  rw [hl]
  obtain ⟨c0, c1, c2, c3⟩ := C05.toQuat_toM3_cases q hq
  obtain ⟨b0, b1, b2, b3, b4⟩ := branch_of_path m
  rcases paths_exhaustive m with h | ⟨h, h1, h2⟩ | ⟨h, h1, h2⟩ | ⟨h, h1, h2⟩ | ⟨h, h1, h2, h3⟩
  · obtain ⟨n, e⟩ := c0 (b0 h)
    exact Or.inl ⟨h, n, by rw [Trace.C05.t_m3_to_quat_trace _ h, e]⟩
  · obtain ⟨n, e⟩ := c1 (b1 h h1 h2)
    exact Or.inr (Or.inl ⟨h, h1, h2, n, by rw [Trace.C05.t_m3_to_quat_xx _ h h1 h2, e]⟩)
  · obtain ⟨n, e⟩ := c2 (b2 h h1 h2)
    exact Or.inr (Or.inr (Or.inl ⟨h, h1, h2, n, by rw [Trace.C05.t_m3_to_quat_yy _ h h1 h2, e]⟩))
  · obtain ⟨n, e⟩ := c3 (b3 h h1 h2)
    exact Or.inr (Or.inr (Or.inr (Or.inl ⟨h, h1, h2, n, by rw [Trace.C05.t_m3_to_quat_zz _ h h1 h2, e]⟩)))
  · obtain ⟨n, e⟩ := c3 (b4 h h1 h2 h3)
    exact Or.inr (Or.inr (Or.inr (Or.inr ⟨h, h1, h2, h3, n,
      by rw [Trace.C05.t_m3_to_quat_zz2 _ h h1 h2 h3, e]⟩)))

/-! ## `Quaternion::from(Basis3)` -/

/-- **`Quaternion::from(Basis3::from(q))`, all five paths**: the traced kernels take `q` (the harness builds the `Basis3` from
it; `t_q_to_basis3` is that construction) and, on whichever path the comparisons on the `Basis3`'s matrix select, output the
model's `Quat.ofBasis3 (Basis3.fromQuaternion q)`, which is `q` or `-q`; the path conditions are exhaustive -/
theorem code_basis3_round_trip_all_paths (q : Quat ℝ) (hq : q.magnitude2 = 1) :
    ∃ r : Quat ℝ, (r = q ∨ r = -q) ∧ r = Quat.ofBasis3 (Basis3.fromQuaternion q) ∧
      Basis3.fromQuaternion r = Basis3.fromQuaternion q ∧
      (let m := (Basis3.fromQuaternion q).mat
       t_q_to_basis3 (envL q.toList) = .okS m.toList ∧
       (0 ≤ m.trace → t_b3_to_quat_trace (envL q.toList) = .okG r.toList [.le 0 m.trace true]) ∧
       (¬ 0 ≤ m.trace → m.y.y < m.x.x → m.z.z < m.x.x → t_b3_to_quat_xx (envL q.toList) =
          .okG r.toList [.le 0 m.trace false, .lt m.y.y m.x.x true, .lt m.z.z m.x.x true]) ∧
       (¬ 0 ≤ m.trace → ¬ m.y.y < m.x.x → m.z.z < m.y.y → t_b3_to_quat_yy (envL q.toList) =
          .okG r.toList [.le 0 m.trace false, .lt m.y.y m.x.x false, .lt m.z.z m.y.y true]) ∧
       (¬ 0 ≤ m.trace → ¬ m.y.y < m.x.x → ¬ m.z.z < m.y.y → t_b3_to_quat_zz (envL q.toList) =
          .okG r.toList [.le 0 m.trace false, .lt m.y.y m.x.x false, .lt m.z.z m.y.y false]) ∧
       (¬ 0 ≤ m.trace → m.y.y < m.x.x → ¬ m.z.z < m.x.x → ¬ m.z.z < m.y.y → t_b3_to_quat_zz2 (envL q.toList) =
          .okG r.toList [.le 0 m.trace false, .lt m.y.y m.x.x true, .lt m.z.z m.x.x false, .lt m.z.z m.y.y false]) ∧
       (0 ≤ m.trace ∨ (¬ 0 ≤ m.trace ∧ m.y.y < m.x.x ∧ m.z.z < m.x.x) ∨
        (¬ 0 ≤ m.trace ∧ ¬ m.y.y < m.x.x ∧ m.z.z < m.y.y) ∨ (¬ 0 ≤ m.trace ∧ ¬ m.y.y < m.x.x ∧ ¬ m.z.z < m.y.y) ∨
        (¬ 0 ≤ m.trace ∧ m.y.y < m.x.x ∧ ¬ m.z.z < m.x.x ∧ ¬ m.z.z < m.y.y))) :=
  ⟨Quat.ofBasis3 (Basis3.fromQuaternion q), C05.ofBasis3_fromQuaternion q hq, rfl,
    (C05.ofBasis3_fromQuaternion_same_rotation q hq ⟨0, 0, 0⟩).1, Trace.C05Auto.t_q_to_basis3 q,
    fun h => Trace.C05Paths.t_b3_to_quat_trace q h, fun h h1 h2 => Trace.C05Paths.t_b3_to_quat_xx q h h1 h2,
    fun h h1 h2 => Trace.C05Paths.t_b3_to_quat_yy q h h1 h2, fun h h1 h2 => Trace.C05Paths.t_b3_to_quat_zz q h h1 h2,
    fun h h1 h2 h3 => Trace.C05Paths.t_b3_to_quat_zz2 q h h1 h2 h3, paths_exhaustive _⟩

/-- … as one disjunction, with the sign rule -/
theorem code_basis3_round_trip_selected (q : Quat ℝ) (hq : q.magnitude2 = 1) :
    let m := (Basis3.fromQuaternion q).mat
    (0 ≤ m.trace ∧ q.s ≠ 0 ∧
      t_b3_to_quat_trace (envL q.toList) = .okG (if 0 ≤ q.s then q else -q).toList [.le 0 m.trace true]) ∨
    (¬ 0 ≤ m.trace ∧ m.y.y < m.x.x ∧ m.z.z < m.x.x ∧ q.v.x ≠ 0 ∧
      t_b3_to_quat_xx (envL q.toList) = .okG (if 0 ≤ q.v.x then q else -q).toList
        [.le 0 m.trace false, .lt m.y.y m.x.x true, .lt m.z.z m.x.x true]) ∨
    (¬ 0 ≤ m.trace ∧ ¬ m.y.y < m.x.x ∧ m.z.z < m.y.y ∧ q.v.y ≠ 0 ∧
      t_b3_to_quat_yy (envL q.toList) = .okG (if 0 ≤ q.v.y then q else -q).toList
        [.le 0 m.trace false, .lt m.y.y m.x.x false, .lt m.z.z m.y.y true]) ∨
    (¬ 0 ≤ m.trace ∧ ¬ m.y.y < m.x.x ∧ ¬ m.z.z < m.y.y ∧ q.v.z ≠ 0 ∧
      t_b3_to_quat_zz (envL q.toList) = .okG (if 0 ≤ q.v.z then q else -q).toList
        [.le 0 m.trace false, .lt m.y.y m.x.x false, .lt m.z.z m.y.y false]) ∨
    (¬ 0 ≤ m.trace ∧ m.y.y < m.x.x ∧ ¬ m.z.z < m.x.x ∧ ¬ m.z.z < m.y.y ∧ q.v.z ≠ 0 ∧
      t_b3_to_quat_zz2 (envL q.toList) = .okG (if 0 ≤ q.v.z then q else -q).toList
        [.le 0 m.trace false, .lt m.y.y m.x.x true, .lt m.z.z m.x.x false, .lt m.z.z m.y.y false]) := by
  intro m
  obtain ⟨c0, c1, c2, c3⟩ := C05.toQuat_toM3_cases q hq
  obtain ⟨b0, b1, b2, b3, b4⟩ := branch_of_path m
  have hm : m = q.toM3 := rfl
  rw [hm] at b0 b1 b2 b3 b4
  rcases paths_exhaustive m with h | ⟨h, h1, h2⟩ | ⟨h, h1, h2⟩ | ⟨h, h1, h2⟩ | ⟨h, h1, h2, h3⟩
  · obtain ⟨n, e⟩ := c0 (b0 h)
    exact Or.inl ⟨h, n, by rw [Trace.C05Paths.t_b3_to_quat_trace q h]; exact congrArg (fun r : Quat ℝ => Tr.okG r.toList _) e⟩
  · obtain ⟨n, e⟩ := c1 (b1 h h1 h2)
    exact Or.inr (Or.inl ⟨h, h1, h2, n,
      by rw [Trace.C05Paths.t_b3_to_quat_xx q h h1 h2]; exact congrArg (fun r : Quat ℝ => Tr.okG r.toList _) e⟩)
  · obtain ⟨n, e⟩ := c2 (b2 h h1 h2)
    exact Or.inr (Or.inr (Or.inl ⟨h, h1, h2, n,
      by rw [Trace.C05Paths.t_b3_to_quat_yy q h h1 h2]; exact congrArg (fun r : Quat ℝ => Tr.okG r.toList _) e⟩))
  · obtain ⟨n, e⟩ := c3 (b3 h h1 h2)
    exact Or.inr (Or.inr (Or.inr (Or.inl ⟨h, h1, h2, n,
      by rw [Trace.C05Paths.t_b3_to_quat_zz q h h1 h2]; exact congrArg (fun r : Quat ℝ => Tr.okG r.toList _) e⟩)))
  · obtain ⟨n, e⟩ := c3 (b4 h h1 h2 h3)
    exact Or.inr (Or.inr (Or.inr (Or.inr ⟨h, h1, h2, h3, n,
      by rw [Trace.C05Paths.t_b3_to_quat_zz2 q h h1 h2 h3]; exact congrArg (fun r : Quat ℝ => Tr.okG r.toList _) e⟩)))

/-! ## non-vacuity: a unit quaternion on the `zz2` path (`code_round_trip` said nothing about it) -/

/-- `(w; x, y, z) = (1; 4, 0, 8)/9`: unit, negative trace, `m11 < m00 ≤ m22` -/
example :
    let q : Quat ℝ := Quat.new (1/9) (4/9) 0 (8/9)
    q.magnitude2 = 1 ∧ ¬ 0 ≤ q.toM3.trace ∧ q.toM3.y.y < q.toM3.x.x ∧ ¬ q.toM3.z.z < q.toM3.x.x ∧
      ¬ q.toM3.z.z < q.toM3.y.y := by
  norm_num [Quat.new, Quat.fromSv, Quat.magnitude2, Quat.dot, Quat.toM3, M3.new, M3.trace, M3.diagonal, V3.sum]

end real
end Cg.E2E.C05
