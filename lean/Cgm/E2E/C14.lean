import Cgm.Trace.C14
import Cgm.Props.C14
/-!
# C14, end to end: `lerp`, `nlerp`, `slerp` as the code computes them, over the reals (see `Cgm/E2E/C02.lean`)
-/
set_option linter.unusedSectionVars false
namespace Cg.E2E.C14
open Cg Cg.Gen.C14
variable [FRem ℝ] [Lits ℝ]

/-- `lerp(a, b, t) = a + (b - a) t` for vectors and quaternions, hence `a` at 0 and `b` at 1 (no comparison is made) -/
theorem code_lerp (a b : Quat ℝ) (u v : V3 ℝ) (t : ℝ) :
    t_q_lerp (envL (a.toList ++ b.toList ++ [t])) = .okS (a + (b - a) * t).toList ∧
    t_v3_lerp (envL (u.toList ++ v.toList ++ [t])) = .okS (u + (v - u) * t).toList ∧
    t_q_lerp (envL (a.toList ++ b.toList ++ [0])) = .okS a.toList ∧ t_q_lerp (envL (a.toList ++ b.toList ++ [1])) = .okS b.toList := by
  refine ⟨by rw [Trace.C14.t_q_lerp, (C14.Quat.lerp_spec a b t).1], by rw [Trace.C14.t_v3_lerp, (C14.V3.lerp_spec u v t).1],
    by rw [Trace.C14.t_q_lerp, (C14.Quat.lerp_spec a b t).2.1], by rw [Trace.C14.t_q_lerp, (C14.Quat.lerp_spec a b t).2.2]⟩

/-- `nlerp` as computed (either outcome of its comparison `a.b < 0`): a unit quaternion in the plane of `a` and `b' = +-b` with
non-negative weights (the shorter arc), `a` at `t = 0` and `b'` at `t = 1` -/
theorem code_nlerp (a b : Quat ℝ) (ha : a.magnitude2 = 1) (hb : b.magnitude2 = 1) (t : ℝ) (h0 : 0 ≤ t) (h1 : t ≤ 1) :
    ∃ r : Quat ℝ, (¬ Quat.dot a b < 0 → t_q_nlerp_pos (envL (a.toList ++ b.toList ++ [t])) = .okG r.toList [.lt (Quat.dot a b) 0 false]) ∧
      (Quat.dot a b < 0 → t_q_nlerp_neg (envL (a.toList ++ b.toList ++ [t])) = .okG r.toList [.lt (Quat.dot a b) 0 true]) ∧
      r.magnitude2 = 1 ∧ (∃ α β : ℝ, 0 ≤ α ∧ 0 ≤ β ∧ r = a * α + C14.flip a b * β) ∧
      (C14.flip a b = b ∨ C14.flip a b = -b) ∧ Quat.dot a (C14.flip a b) = |Quat.dot a b| := by
  have h := C14.nlerp_spec a b ha hb t h0 h1
  have f := C14.flip_spec a b hb
  exact ⟨a.nlerp b t, fun hh => Trace.C14.t_q_nlerp_pos a b t hh, fun hh => Trace.C14.t_q_nlerp_neg a b t hh, h.1, h.2.1, f.2.2, f.2.1⟩

/-- `slerp` as computed on the far path (`|a.b| <= 0.9995`, here with `a.b >= 0`): a unit quaternion at constant angular speed --
the arc from `a` to the result is `t` times the whole arc, exactly -/
theorem code_slerp_far (a b : Quat ℝ) (ha : a.magnitude2 = 1) (hb : b.magnitude2 = 1) (t : ℝ) (h0 : 0 ≤ t) (h1 : t ≤ 1)
    (hthr : (Lits.thr : ℝ) < 1) (hp : ¬ Quat.dot a b < 0) (hfar : ¬ Lits.thr < Quat.dot a b)
    (h2 : ¬ (1 : ℝ) < Quat.dot a b) (h3 : ¬ Quat.dot a b < -1) :
    ∃ r : Quat ℝ, t_q_slerp_far_pos (envL (a.toList ++ b.toList ++ [t])) = .okG r.toList
        [.lt (Quat.dot a b) 0 false, .lt Lits.thr (Quat.dot a b) false, .lt 1 (Quat.dot a b) false, .lt (Quat.dot a b) (-1) false] ∧
      r.magnitude2 = 1 ∧ Quat.dot a r = Real.cos (t * Real.arccos |Quat.dot a b|) := by
  have habs : |Quat.dot a b| = Quat.dot a b := abs_of_nonneg (not_lt.mp hp)
  have hs := C14.slerp_far_spec a b ha hb t h0 h1 hthr (by rw [habs]; exact hfar)
  exact ⟨a.slerp b t, Trace.C14.t_q_slerp_far_pos a b t hp hfar h2 h3, hs.1, hs.2.1⟩

/-- ... and on the near path (`a.b > 0.9995`) it is within 1e-5 rad of constant angular speed -/
theorem code_slerp_near (a b : Quat ℝ) (ha : a.magnitude2 = 1) (hb : b.magnitude2 = 1) (t : ℝ) (h0 : 0 ≤ t) (h1 : t ≤ 1)
    (hthr : (Lits.thr : ℝ) = 0.9995) (hp : ¬ Quat.dot a b < 0) (hnear : Lits.thr < Quat.dot a b) :
    ∃ r : Quat ℝ, t_q_slerp_near (envL (a.toList ++ b.toList ++ [t])) = .okG r.toList
        [.lt (Quat.dot a b) 0 false, .lt Lits.thr (Quat.dot a b) true, .lt (Quat.dot a b) 0 false] ∧
      abs (Real.arccos (Quat.dot a r) - t * Real.arccos (abs (Quat.dot a b))) ≤ 1e-5 := by
  have habs : |Quat.dot a b| = Quat.dot a b := abs_of_nonneg (not_lt.mp hp)
  exact ⟨a.slerp b t, Trace.C14.t_q_slerp_near a b t hp hnear,
    C14.slerp_near_bound a b t ha hb h0 h1 hthr (by rw [habs]; exact hnear)⟩
end Cg.E2E.C14
