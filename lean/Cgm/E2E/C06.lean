import Cgm.Trace.C06
import Cgm.Props.C06
/-!
# C06, end to end: axis-angle constructors as the code computes them, over the reals (`sin`, `cos` the real
functions; see `Cgm/E2E/C02.lean` for how these statements are obtained)
-/
set_option linter.unusedSectionVars false
namespace Cg.E2E.C06
open Cg Cg.Gen.C06
variable [FRem ℝ] [Lits ℝ]

/-- `Matrix3::from_axis_angle(a, t)` as computed maps every `v` to `v cos t + (a x v) sin t + a (a.v)(1 - cos t)`; for a unit
axis it fixes the axis, satisfies `MᵀM = 1` with determinant +1 (only this order of the product is stated here; `M Mᵀ = 1` is at
model level, `m3_axisAngle_orthonormal_real`, `Props/C06c.lean`), and angles add under composition -/
theorem code_m3_from_axis_angle (a v : V3 ℝ) (t t' : ℝ) :
    ∃ f : V3 ℝ → ℝ → M3 ℝ, (∀ b s, t_m3_from_axis_angle (envL (b.toList ++ [s])) = .okS (f b s).toList) ∧
      f a t * v = C06.rodrigues a (Real.cos t) (Real.sin t) v ∧
      (a.magnitude2 = 1 → f a t * a = a ∧ (f a t).transpose * f a t = M3.one ∧ (f a t).det = 1 ∧ f a t * f a t' = f a (t + t')) :=
  ⟨M3.fromAxisAngle, fun b s => Trace.C06.t_m3_from_axis_angle b s, C06.m3_axisAngle_real a v t,
    fun ha => ⟨(C06.m3_axisAngle_rotation_real a t ha).1, (C06.m3_axisAngle_rotation_real a t ha).2.1,
      (C06.m3_axisAngle_rotation_real a t ha).2.2, C06.axisAngle_add_real a t t' ha⟩⟩

/-- the quaternion constructor as computed: a unit quaternion with the same action -/
theorem code_q_from_axis_angle (a v : V3 ℝ) (t : ℝ) (ha : a.magnitude2 = 1) :
    ∃ q : Quat ℝ, t_q_from_axis_angle (envL (a.toList ++ [t])) = .okS q.toList ∧
      q * v = C06.rodrigues a (Real.cos t) (Real.sin t) v ∧ q.magnitude2 = 1 :=
  ⟨Quat.fromAxisAngle a t, Trace.C06.t_q_from_axis_angle a t, C06.quat_axisAngle_real a v t ha⟩

/-- two of the four 4x4 constructors (`Matrix4::from_axis_angle`, `Matrix4::from_angle_x`; not `from_angle_y/z`) are the embeddings
of the 3x3 ones, and `Matrix3::from_angle_x/y/z` are `from_axis_angle` about the unit axes -/
theorem code_m4_and_axes (a : V3 ℝ) (t : ℝ) :
    t_m4_from_axis_angle (envL (a.toList ++ [t])) = .okS (M3.fromAxisAngle a t).toM4.toList ∧
    t_m3_from_angle_x (envL [t]) = .okS (M3.fromAxisAngle V3.unitX t).toList ∧
    t_m3_from_angle_y (envL [t]) = .okS (M3.fromAxisAngle V3.unitY t).toList ∧
    t_m3_from_angle_z (envL [t]) = .okS (M3.fromAxisAngle V3.unitZ t).toList ∧
    t_m4_from_angle_x (envL [t]) = .okS (M3.fromAxisAngle V3.unitX t).toM4.toList := by
  have e := C06.fromAngle_eq_axisAngle t
  have m := C06.m4_eq_embed a t
  refine ⟨?_, ?_, ?_, ?_, ?_⟩
  · rw [Trace.C06.t_m4_from_axis_angle, m.1]
  · rw [Trace.C06.t_m3_from_angle_x, e.1]
  · rw [Trace.C06.t_m3_from_angle_y, e.2.1]
  · rw [Trace.C06.t_m3_from_angle_z, e.2.2]
  · rw [Trace.C06.t_m4_from_angle_x, m.2.1, e.1]

/-- 2-D: `from_angle(t)` as computed maps (1,0) to (cos t, sin t) and (0,1) to (-sin t, cos t); angles add -/
theorem code_m2_from_angle (t t' : ℝ) :
    ∃ f : ℝ → M2 ℝ, (∀ s, t_m2_from_angle (envL [s]) = .okS (f s).toList) ∧ (∀ s, t_b2_from_angle (envL [s]) = .okS (f s).toList) ∧
      f t * (⟨1, 0⟩ : V2 ℝ) = ⟨Real.cos t, Real.sin t⟩ ∧ f t * (⟨0, 1⟩ : V2 ℝ) = ⟨-Real.sin t, Real.cos t⟩ ∧ f t * f t' = f (t + t') :=
  ⟨M2.fromAngle, fun s => Trace.C06.t_m2_from_angle s, fun s => Trace.C06.t_b2_from_angle s,
    (C06.m2_fromAngle_real t t').1, (C06.m2_fromAngle_real t t').2.1, (C06.m2_fromAngle_real t t').2.2.1⟩
end Cg.E2E.C06
