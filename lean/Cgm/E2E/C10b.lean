import Cgm.E2E.C10
import Cgm.Props.C10b
import Cgm.Lemmas.RealInst2
import Cgm.Lemmas.RealApprox
/-!
# C10 (continued), end to end over the reals with the full turn `2π`: every tuple `perspective` accepts yields the `frustum`
matrix of the symmetric window (and `frustum` as computed on the window `to_perspective` computes returns the same list);
`planar` on its accepted path maps the window and the two planes as documented
-/
set_option linter.unusedSectionVars false
namespace Cg.E2E.C10
open Cg Cg.Gen.C10

section anyApprox
variable [Approx ℝ]

/-- on the accepting path of `perspective` the model returns `perspectiveMat` -/
theorem perspective_of_path (fovy a n f : ℝ) (h1 : 0 < fovy) (h2 : fovy < Lits.radFull / 2) (h3 : ¬ a < 0)
    (h4 : absDiffEqD a (0 : ℝ) = false) (h5 : 0 < n) (h6 : 0 < f) (h7 : absDiffEqD f n = false) :
    perspective fovy a n f = some (perspectiveMat fovy a n f) := by
  apply C10.perspective_some
  refine ⟨h1, by rw [C10.turnDiv_two]; exact h2, ?_, h5, h6, h7⟩
  simp only [sabs, if_neg h3]; exact h4

/-- **`perspective` as computed, accepted path**: for every tuple that passes all the code's assertions (`0 < fovy < π`,
aspect not approximately 0 -- here on the traced path `aspect ≥ 0` --, `0 < near`, `0 < far`, far not approximately near) the
traced matrix is `frustum`'s matrix for the symmetric window of half-height `near tan(fovy/2)` and half-width `aspect` times that;
`to_perspective` as computed returns that window, and when `near ≤ far` the traced `frustum` run on the window gives the same
output list -/
theorem code_perspective_accept (S : ApproxLaws ℝ) (fovy a n f : ℝ) (h1 : 0 < fovy) (h2 : fovy < Lits.radFull / 2) (h3 : ¬ a < 0)
    (h4 : absDiffEqD a (0 : ℝ) = false) (h5 : 0 < n) (h6 : 0 < f) (h7 : absDiffEqD f n = false) :
    ∃ (m : M4 ℝ) (y : ℝ), t_perspective_ok (envL [fovy, a, n, f]) =
        .okG m.toList [.cmp fovy 0 .gt, .cmp fovy (Lits.radFull / 2) .lt, .lt a 0 false, .absDiff a 0 Trace.C10.eps52 false,
          .lt 0 n true, .lt 0 f true, .absDiff f n Trace.C10.eps52 false] ∧
      y = n * Real.tan (fovy / 2) ∧ 0 < y ∧ 0 < a ∧ fovy < Real.pi ∧
      m = frustumMat (-(y * a)) (y * a) (-y) y n f ∧
      t_to_perspective (envL [fovy, a, n, f]) = .okS [-(y * a), y * a, -y, y, n, f] ∧
      (n ≤ f → t_frustum_ok (envL [-(y * a), y * a, -y, y, n, f]) =
        .okG m.toList [.le (-(y * a)) (y * a) true, .le (-y) y true, .le n f true]) := by
  have hp := perspective_of_path fovy a n f h1 h2 h3 h4 h5 h6 h7
  obtain ⟨e1, e2, htan⟩ := C10.perspective_accept_eq_frustum S lits_radFull fovy a n f _ hp
  obtain ⟨-, -, g2, -, ga, -⟩ := C10.perspective_some_guards S fovy a n f _ hp
  have hk := Trace.C10.t_perspective_ok fovy a n f h1 h2 h3 h4 h5 h6 h7
  rw [hp] at hk
  have ha : 0 < a := lt_of_le_of_ne (not_lt.mp h3) (Ne.symm ga)
  have hy : 0 < n * Real.tan (fovy / 2) := mul_pos h5 htan
  refine ⟨perspectiveMat fovy a n f, n * Real.tan (fovy / 2), hk, rfl, hy, ha, ?_, e1, ?_, fun hnf => ?_⟩
  · rw [lits_radFull] at g2; linarith
  · rw [Trace.C10.t_to_perspective, e2]
  · have hx : 0 < n * Real.tan (fovy / 2) * a := mul_pos hy ha
    have hc := C10.perspective_accept_eq_frustum_call S lits_radFull fovy a n f _ hp ha.le hnf
    have hf := Trace.C10.t_frustum_ok (-(n * Real.tan (fovy / 2) * a)) (n * Real.tan (fovy / 2) * a)
      (-(n * Real.tan (fovy / 2))) (n * Real.tan (fovy / 2)) n f (by linarith) (by linarith) hnf
    rw [hc] at hf
    exact hf

/-- consequently the traced `perspective` matrix maps, after division by `w = -z`, the corners of the near window to the
`z = -1` face of the cube (the clauses of `frustum`) -/
theorem code_perspective_maps (S : ApproxLaws ℝ) (fovy a n f : ℝ) (h1 : 0 < fovy) (h2 : fovy < Lits.radFull / 2) (h3 : ¬ a < 0)
    (h4 : absDiffEqD a (0 : ℝ) = false) (h5 : 0 < n) (h6 : 0 < f) (h7 : absDiffEqD f n = false) :
    ∃ (m : M4 ℝ) (y : ℝ), t_perspective_ok (envL [fovy, a, n, f]) =
        .okG m.toList [.cmp fovy 0 .gt, .cmp fovy (Lits.radFull / 2) .lt, .lt a 0 false, .absDiff a 0 Trace.C10.eps52 false,
          .lt 0 n true, .lt 0 f true, .absDiff f n Trace.C10.eps52 false] ∧
      y = n * Real.tan (fovy / 2) ∧
      (∀ x' y' z' : ℝ, (m * P3.toHomogeneous (⟨x', y', z'⟩ : P3 ℝ)).w = -z') ∧
      m.transformPoint ⟨-(y * a), -y, -n⟩ = ⟨-1, -1, -1⟩ ∧ m.transformPoint ⟨y * a, y, -n⟩ = ⟨1, 1, -1⟩ ∧
      m.transformPoint ⟨-(y * a) * (f / n), -y * (f / n), -f⟩ = ⟨-1, -1, 1⟩ := by
  obtain ⟨m, y, hk, hy, hy0, ha, -, hm, -, -⟩ := code_perspective_accept S fovy a n f h1 h2 h3 h4 h5 h6 h7
  have hnf : f - n ≠ 0 := sub_ne_zero.mpr (S.ne_of_absDiffEqD_false h7)
  have hya : 0 < y * a := mul_pos hy0 ha
  have hfc := C10.frustum_faces (-(y * a)) (y * a) (-y) y n f (by linarith) (by linarith) hnf h5.ne' h6.ne'
  refine ⟨m, y, hk, hy, ?_, ?_, ?_, ?_⟩
  · intro x' y' z'; rw [hm]; exact C10.frustum_w _ _ _ _ _ _ x' y' z'
  · rw [hm]; exact hfc.1
  · rw [hm]; exact hfc.2.1
  · rw [hm]; exact hfc.2.2.1

/-- **`planar` as computed, accepted path** (aspect ≥ 0, near < far, focal point in front of the near plane) with a positive
height: the corners `(±aspect h/2, ±h/2)` of the window in the plane `z = 0` go to `(±1, ±1)`, the plane `z = -near` goes to
depth `-1` and `z = -far` to depth `+1` -/
theorem code_planar_accept (S : ApproxLaws ℝ) (fovy a h n f : ℝ) (h1 : -(Lits.radFull / 2) < fovy) (h2 : fovy < Lits.radFull / 2)
    (h3 : 0 ≤ h) (h4 : ¬ a < 0) (h5 : absDiffEqD a (0 : ℝ) = false) (h6 : absDiffEqD f n = false) (h7 : n < f)
    (h8 : -(1 / planarInvF fovy h) < n) (hh : h ≠ 0) :
    have hreg : ¬ ((¬ Rad.tan (fovy / (two : ℝ)) < 0 ∧ ¬ 0 < Rad.tan (fovy / (two : ℝ))) ∧ ¬ 0 < h) :=
      fun hc => hc.2 (lt_of_le_of_ne h3 (Ne.symm hh))
    ∃ m : M4 ℝ, t_planar_ok (envL [fovy, a, h, n, f]) =
        .okG m.toList [.cmp fovy (-(Lits.radFull / 2)) .gt, .cmp fovy (Lits.radFull / 2) .lt, .le 0 h true, .lt a 0 false,
          .absDiff a 0 Trace.C10.eps52 false, .absDiff f n Trace.C10.eps52 false, .lt n f true,
          .lt (-(1 / planarInvF fovy h)) n true] ∧
      (m.transformPoint ⟨a * h / 2, h / 2, 0⟩).x = 1 ∧ (m.transformPoint ⟨a * h / 2, h / 2, 0⟩).y = 1 ∧
      (m.transformPoint ⟨-(a * h / 2), -(h / 2), 0⟩).x = -1 ∧ (m.transformPoint ⟨-(a * h / 2), -(h / 2), 0⟩).y = -1 ∧
      (∀ x y : ℝ, (m.transformPoint ⟨x, y, -n⟩).z = -1 ∧ (m.transformPoint ⟨x, y, -f⟩).z = 1) := by
  intro hreg
  have hp : planar fovy a h n f = some (planarMat fovy a h n f) := by
    apply C10.planar_some
    refine ⟨by rw [C10.turnDiv_two]; exact h1, by rw [C10.turnDiv_two]; exact h2, h3, ?_, h6, hreg, Or.inr (Or.inl ?_)⟩
    · simp only [sabs, if_neg h4]; exact h5
    · simp only [smin, if_pos h7]; exact h8
  have hk := Trace.C10.t_planar_ok fovy a h n f h1 h2 h3 h4 h5 h6 h7 h8 hreg
  rw [hp] at hk
  have ha : a ≠ 0 := S.ne_of_absDiffEqD_false h5
  have hnf : n - f ≠ 0 := by intro e; linarith
  -- the focal-point condition keeps both planes on the same side of the focal point
  obtain ⟨hkn, hkf⟩ : planarInvF fovy h * n + 1 ≠ 0 ∧ planarInvF fovy h * f + 1 ≠ 0 := by
    rcases lt_trichotomy (planarInvF fovy h) 0 with hk0 | hk0 | hk0
    · have e : planarInvF fovy h * (-(1 / planarInvF fovy h)) = -1 := by
        have := hk0.ne; field_simp
      have : planarInvF fovy h * n < -1 := by rw [← e]; exact mul_lt_mul_of_neg_left h8 hk0
      have : planarInvF fovy h * f < planarInvF fovy h * n := mul_lt_mul_of_neg_left h7 hk0
      exact ⟨by intro e'; linarith, by intro e'; linarith⟩
    · rw [hk0]; norm_num
    · have e : planarInvF fovy h * (-(1 / planarInvF fovy h)) = -1 := by
        have := hk0.ne'; field_simp
      have : -1 < planarInvF fovy h * n := by rw [← e]; exact mul_lt_mul_of_pos_left h8 hk0
      have : planarInvF fovy h * n < planarInvF fovy h * f := mul_lt_mul_of_pos_left h7 hk0
      exact ⟨by intro e'; linarith, by intro e'; linarith⟩
  obtain ⟨w1, w2, w3, w4⟩ := C10.planar_window fovy a h n f ha hh
  exact ⟨planarMat fovy a h n f, hk, w1, w2, w3, w4, fun x y => C10.planar_depth fovy a h n f x y hnf hkn hkf⟩
end anyApprox

section concrete
open scoped Cg.RealApprox

/-- with the real `approx` relations the path condition of the accepted path is `0 < fovy < π`, `aspect > 2^-52`, `0 < near`,
`0 < far`, `|far - near| > 2^-52` -/
theorem perspective_path_iff (fovy a n f : ℝ) :
    (0 < fovy ∧ fovy < Lits.radFull / 2 ∧ ¬ a < 0 ∧ absDiffEqD a (0 : ℝ) = false ∧ 0 < n ∧ 0 < f ∧ absDiffEqD f n = false) ↔
      (0 < fovy ∧ fovy < Real.pi ∧ eps52R < a ∧ 0 < n ∧ 0 < f ∧ eps52R < |f - n|) := by
  have hpi : (Lits.radFull : ℝ) / 2 = Real.pi := by rw [lits_radFull]; ring
  have e1 : absDiffEqD a (0 : ℝ) = false ↔ eps52R < |a| := by
    rw [← Bool.not_eq_true, real_absDiffEqD, sub_zero, not_le]
  have e2 : absDiffEqD f n = false ↔ eps52R < |f - n| := by
    rw [← Bool.not_eq_true, real_absDiffEqD, not_le]
  rw [hpi, e1, e2]
  constructor
  · rintro ⟨k1, k2, k3, k4, k5, k6, k7⟩
    rw [abs_of_nonneg (not_lt.mp k3)] at k4
    exact ⟨k1, k2, k4, k5, k6, k7⟩
  · rintro ⟨k1, k2, k3, k5, k6, k7⟩
    have h0 : 0 < a := lt_trans eps52R_pos k3
    exact ⟨k1, k2, not_lt.mpr h0.le, by rw [abs_of_pos h0]; exact k3, k5, k6, k7⟩

/-- `perspective` as computed, fully concrete: in the property's vocabulary -/
theorem code_perspective_real (fovy a n f : ℝ) (h1 : 0 < fovy) (h2 : fovy < Real.pi) (ha : eps52R < a) (hn : 0 < n) (hf : 0 < f)
    (hnf : eps52R < |f - n|) :
    ∃ (m : M4 ℝ) (y : ℝ) (g : List (G ℝ)), t_perspective_ok (envL [fovy, a, n, f]) = .okG m.toList g ∧
      y = n * Real.tan (fovy / 2) ∧ 0 < y ∧ m = frustumMat (-(y * a)) (y * a) (-y) y n f ∧
      t_to_perspective (envL [fovy, a, n, f]) = .okS [-(y * a), y * a, -y, y, n, f] := by
  obtain ⟨k1, k2, k3, k4, k5, k6, k7⟩ := (perspective_path_iff fovy a n f).2 ⟨h1, h2, ha, hn, hf, hnf⟩
  obtain ⟨m, y, hk, hy, hy0, -, -, hm, ht, -⟩ := code_perspective_accept realApproxLaws fovy a n f k1 k2 k3 k4 k5 k6 k7
  exact ⟨m, y, _, hk, hy, hy0, hm, ht⟩

/-- the hypotheses are satisfiable (fovy = 1 rad, aspect 4/3, near 1, far 100) -/
example : (0 : ℝ) < 1 ∧ (1 : ℝ) < Real.pi ∧ eps52R < (4 / 3 : ℝ) ∧ (0 : ℝ) < 1 ∧ (0 : ℝ) < 100 ∧ eps52R < |(100 - 1 : ℝ)| := by
  have hpi := Real.two_le_pi
  have he : eps52R < 1 := by unfold eps52R; norm_num
  have h2 : |(100 - 1 : ℝ)| = 99 := by norm_num
  rw [h2]
  refine ⟨by norm_num, by linarith, by linarith, by norm_num, by norm_num, by linarith⟩
/-- the hypotheses of `code_planar_accept` are satisfiable with the real relations (fovy = π/2, height 2, aspect 1, near 1,
far 2: `inv_f = tan(π/4) * 2 / 2 = 1`, focal point `-1`, in front of the near plane) -/
example : -((Lits.radFull : ℝ) / 2) < Real.pi / 2 ∧ Real.pi / 2 < (Lits.radFull : ℝ) / 2 ∧ (0 : ℝ) ≤ 2 ∧ ¬ (1 : ℝ) < 0 ∧
    absDiffEqD (1 : ℝ) 0 = false ∧ absDiffEqD (2 : ℝ) 1 = false ∧ (1 : ℝ) < 2 ∧ -(1 / planarInvF (Real.pi / 2) 2) < 1 ∧
    (2 : ℝ) ≠ 0 := by
  have hpi := Real.pi_pos
  have he : eps52R < 1 := by unfold eps52R; norm_num
  have hk : planarInvF (Real.pi / 2) 2 = 1 := by
    have e : Real.pi / 2 / 2 = Real.pi / 4 := by ring
    simp [planarInvF, Rad.tan, transc_tan, two, e, Real.tan_pi_div_four]
  refine ⟨by rw [lits_radFull]; linarith, by rw [lits_radFull]; linarith, by norm_num, by norm_num, ?_, ?_, by norm_num, ?_,
    by norm_num⟩
  · rw [← Bool.not_eq_true, real_absDiffEqD]; norm_num; exact he
  · rw [← Bool.not_eq_true, real_absDiffEqD]; norm_num; exact he
  · rw [hk]; norm_num
end concrete
end Cg.E2E.C10
