import Cgm.Lemmas.GuardSem
import Cgm.E2E.C13d
/-!
# C13, end to end, with the guard semantics: the vocabulary of `Cgm/E2E/C13c.lean` IS the formal one

`Cgm/E2E/C13c.lean` / `C13d.lean` state "this traced kernel is the run of the code on this input" with a local predicate
(`GuardHolds` / `GuardsHold` / `ValidRun`, given a meaning on the comparison kinds that occur in the C13 kernels: three-way, `==`,
`<`, `<=`).  `Cgm/Lemmas/GuardSem.lean` has the project-wide one (`G.holds` / `Tr.Consistent`).  Here:

* `guardHolds_iff_holds`: on those comparison kinds (`IsExact`) `GuardHolds g ↔ g.holds`, whatever the `approx` relations;
  hence `validRun_iff_consistent`: `ValidRun t ↔ t.Consistent` for a kernel value all of whose comparisons are of those kinds --
  which is every kernel of `bisect`, `normalize`, `normalize_signed`, `opposite` in both units (`…_exact`);
* `…_pairwise`: no two kernels of one function are runs on the same input; with `…_someRun` of `C13d.lean`:
  `Tr.ExactlyOne` of the kernels of each function, for EVERY input (`…_exactly_one`);
* `code_…_exact`: the theorems `code_…_total` of `C13d.lean` (and `code_…_run` of `C13c.lean`) restated with
  `Tr.ExactlyOne` / `Tr.Consistent`: for every input exactly one of the kernels is consistent, and the consistent one succeeds and
  outputs the one angle `r` with the property clause (midway angle; in range and whole turns away; half a turn away).
-/
set_option linter.unusedSectionVars false
set_option linter.unusedSimpArgs false
set_option linter.unusedVariables false
namespace Cg.E2E.C13
open Cg Cg.Gen.C13

/-- the comparison kinds that occur in the C13 kernels: three-way, `==`, `<`, `<=` (no tolerance comparison) -/
def IsExact : G ℝ → Prop
  | .cmp _ _ _ => True
  | .eq _ _ _ => True
  | .lt _ _ _ => True
  | .le _ _ _ => True
  | _ => False

section vocabulary
variable [Approx ℝ]
/-- on the exact comparison kinds the local meaning of a recorded comparison is the formal one (real order) -/
theorem guardHolds_iff_holds (g : G ℝ) (hg : IsExact g) : GuardHolds g ↔ g.holds := by
  cases g with
  | cmp x y o => cases o <;> simp [GuardHolds]
  | eq x y r => simp only [GuardHolds, G.holds]; exact iff_comm
  | lt x y r => simp only [GuardHolds, G.holds]; exact iff_comm
  | le x y r => simp only [GuardHolds, G.holds]; exact iff_comm
  | absDiff => exact absurd hg (by simp [IsExact])
  | rel => exact absurd hg (by simp [IsExact])
  | ulps => exact absurd hg (by simp [IsExact])
/-- on the other kinds (tolerance comparisons) the local predicate never holds -- it is the stricter one -/
theorem guardHolds_of_not_exact (g : G ℝ) (hg : ¬ IsExact g) : ¬ GuardHolds g := by
  cases g <;> simp_all [GuardHolds, IsExact]
theorem guardsHold_iff_forall (l : List (G ℝ)) : GuardsHold l ↔ ∀ g ∈ l, GuardHolds g := by
  induction l with
  | nil => simp [GuardsHold]
  | cons g l ih =>
    cases l with
    | nil => simp [GuardsHold]
    | cons g' l' =>
      have e : GuardsHold (g :: g' :: l') ↔ GuardHolds g ∧ GuardsHold (g' :: l') := Iff.rfl
      rw [e, ih]
      simp only [List.mem_cons, forall_eq_or_imp]
/-- **`ValidRun t ↔ t.Consistent`** for a kernel value all of whose comparisons are exact ones -/
theorem validRun_iff_consistent (t : Tr ℝ) (hex : ∀ g ∈ t.guards, IsExact g) : ValidRun t ↔ t.Consistent := by
  unfold ValidRun Tr.Consistent
  rw [guardsHold_iff_forall]
  exact forall₂_congr fun g hg => guardHolds_iff_holds g (hex g hg)
/-- in general a valid run is a consistent path (a kernel with a tolerance comparison is never declared a run) -/
theorem consistent_of_validRun (t : Tr ℝ) (h : ValidRun t) : t.Consistent := by
  unfold ValidRun at h
  rw [guardsHold_iff_forall] at h
  intro g hg
  by_cases he : IsExact g
  · exact (guardHolds_iff_holds g he).1 (h g hg)
  · exact absurd (h g hg) (guardHolds_of_not_exact g he)

/-- from the C13c/C13d vocabulary to `Tr.ExactlyOne`: kernels with exact comparisons, some one a run, no two runs together -/
theorem exactlyOne_of_runs (ks : List ((Nat → ℝ) → Tr ℝ)) (inp : List ℝ)
    (hex : ∀ k ∈ ks, ∀ g ∈ (k (envL inp)).guards, IsExact g) (hs : SomeRun ks inp)
    (hp : ks.Pairwise (fun k k' => ¬ (ValidRun (k (envL inp)) ∧ ValidRun (k' (envL inp))))) :
    Tr.ExactlyOne (ks.map (fun k => k (envL inp))) := by
  constructor
  · obtain ⟨k, hk, hv⟩ := hs
    exact ⟨k (envL inp), List.mem_map.2 ⟨k, hk, rfl⟩, (validRun_iff_consistent _ (hex k hk)).1 hv⟩
  · rw [List.pairwise_map]
    refine hp.imp_of_mem ?_
    intro k k' hk hk' hn hc
    exact hn ⟨(validRun_iff_consistent _ (hex k hk)).2 hc.1, (validRun_iff_consistent _ (hex k' hk')).2 hc.2⟩
/-- `RunsTo` in the formal vocabulary: whichever kernel of the list is consistent, it succeeds and outputs `[r]` -/
theorem runsTo_consistent (ks : List ((Nat → ℝ) → Tr ℝ)) (inp : List ℝ) (r : ℝ)
    (hex : ∀ k ∈ ks, ∀ g ∈ (k (envL inp)).guards, IsExact g) (hr : RunsTo ks inp r) :
    ∀ t ∈ ks.map (fun k => k (envL inp)), t.Consistent → t.res = .ok ∧ t.out = [r] := by
  intro t ht hc
  obtain ⟨k, hk, rfl⟩ := List.mem_map.1 ht
  exact hr k hk ((validRun_iff_consistent _ (hex k hk)).2 hc)
end vocabulary

/-! ## the kernels of each function: exact comparisons, pairwise exclusive -/
/-- every comparison recorded by a kernel of `degBisectKernelsAll` is an exact one -/
theorem deg_bisect_exact (a b : ℝ) : ∀ k ∈ degBisectKernelsAll, ∀ g ∈ (k (envL [a, b])).guards, IsExact g := by
  simp [degBisectKernelsAll, IsExact]
/-- no two kernels of `degBisectKernelsAll` are runs of the code on the same input -/
theorem deg_bisect_pairwise (a b : ℝ) :
    degBisectKernelsAll.Pairwise (fun k k' => ¬ (ValidRun (k (envL [a, b])) ∧ ValidRun (k' (envL [a, b])))) := by
  simp only [degBisectKernelsAll, List.pairwise_cons, List.mem_cons, List.not_mem_nil, or_false, forall_eq_or_imp, forall_eq,
    List.Pairwise.nil, and_true, IsEmpty.forall_iff, implies_true]
  simp [ValidRun, GuardsHold, GuardHolds, envL]
  (repeat' apply And.intro) <;> (intros; linarith)
/-- every comparison recorded by a kernel of `radBisectKernelsAll` is an exact one -/
theorem rad_bisect_exact (a b : ℝ) : ∀ k ∈ radBisectKernelsAll, ∀ g ∈ (k (envL [a, b])).guards, IsExact g := by
  simp [radBisectKernelsAll, IsExact]
/-- no two kernels of `radBisectKernelsAll` are runs of the code on the same input -/
theorem rad_bisect_pairwise (a b : ℝ) :
    radBisectKernelsAll.Pairwise (fun k k' => ¬ (ValidRun (k (envL [a, b])) ∧ ValidRun (k' (envL [a, b])))) := by
  simp only [radBisectKernelsAll, List.pairwise_cons, List.mem_cons, List.not_mem_nil, or_false, forall_eq_or_imp, forall_eq,
    List.Pairwise.nil, and_true, IsEmpty.forall_iff, implies_true]
  simp [ValidRun, GuardsHold, GuardHolds, envL]
  (repeat' apply And.intro) <;> (intros; linarith)
/-- every comparison recorded by a kernel of `degNormalizeSignedKernelsAll` is an exact one -/
theorem deg_normalize_signed_exact (a : ℝ) : ∀ k ∈ degNormalizeSignedKernelsAll, ∀ g ∈ (k (envL [a])).guards, IsExact g := by
  simp [degNormalizeSignedKernelsAll, IsExact]
/-- no two kernels of `degNormalizeSignedKernelsAll` are runs of the code on the same input -/
theorem deg_normalize_signed_pairwise (a : ℝ) :
    degNormalizeSignedKernelsAll.Pairwise (fun k k' => ¬ (ValidRun (k (envL [a])) ∧ ValidRun (k' (envL [a])))) := by
  simp only [degNormalizeSignedKernelsAll, List.pairwise_cons, List.mem_cons, List.not_mem_nil, or_false, forall_eq_or_imp, forall_eq,
    List.Pairwise.nil, and_true, IsEmpty.forall_iff, implies_true]
  simp [ValidRun, GuardsHold, GuardHolds, envL]
  (repeat' apply And.intro) <;> (intros; linarith)
/-- every comparison recorded by a kernel of `radNormalizeSignedKernelsAll` is an exact one -/
theorem rad_normalize_signed_exact (a : ℝ) : ∀ k ∈ radNormalizeSignedKernelsAll, ∀ g ∈ (k (envL [a])).guards, IsExact g := by
  simp [radNormalizeSignedKernelsAll, IsExact]
/-- no two kernels of `radNormalizeSignedKernelsAll` are runs of the code on the same input -/
theorem rad_normalize_signed_pairwise (a : ℝ) :
    radNormalizeSignedKernelsAll.Pairwise (fun k k' => ¬ (ValidRun (k (envL [a])) ∧ ValidRun (k' (envL [a])))) := by
  simp only [radNormalizeSignedKernelsAll, List.pairwise_cons, List.mem_cons, List.not_mem_nil, or_false, forall_eq_or_imp, forall_eq,
    List.Pairwise.nil, and_true, IsEmpty.forall_iff, implies_true]
  simp [ValidRun, GuardsHold, GuardHolds, envL]
  (repeat' apply And.intro) <;> (intros; linarith)
/-- every comparison recorded by a kernel of `degOppositeKernels` is an exact one -/
theorem deg_opposite_exact (a : ℝ) : ∀ k ∈ degOppositeKernels, ∀ g ∈ (k (envL [a])).guards, IsExact g := by
  simp [degOppositeKernels, IsExact]
/-- no two kernels of `degOppositeKernels` are runs of the code on the same input -/
theorem deg_opposite_pairwise (a : ℝ) :
    degOppositeKernels.Pairwise (fun k k' => ¬ (ValidRun (k (envL [a])) ∧ ValidRun (k' (envL [a])))) := by
  simp only [degOppositeKernels, List.pairwise_cons, List.mem_cons, List.not_mem_nil, or_false, forall_eq_or_imp, forall_eq,
    List.Pairwise.nil, and_true, IsEmpty.forall_iff, implies_true]
  simp [ValidRun, GuardsHold, GuardHolds, envL]
  (repeat' apply And.intro) <;> (intros; linarith)
/-- every comparison recorded by a kernel of `radOppositeKernelsAll` is an exact one -/
theorem rad_opposite_exact (a : ℝ) : ∀ k ∈ radOppositeKernelsAll, ∀ g ∈ (k (envL [a])).guards, IsExact g := by
  simp [radOppositeKernelsAll, IsExact]
/-- no two kernels of `radOppositeKernelsAll` are runs of the code on the same input -/
theorem rad_opposite_pairwise (a : ℝ) :
    radOppositeKernelsAll.Pairwise (fun k k' => ¬ (ValidRun (k (envL [a])) ∧ ValidRun (k' (envL [a])))) := by
  simp only [radOppositeKernelsAll, List.pairwise_cons, List.mem_cons, List.not_mem_nil, or_false, forall_eq_or_imp, forall_eq,
    List.Pairwise.nil, and_true, IsEmpty.forall_iff, implies_true]
  simp [ValidRun, GuardsHold, GuardHolds, envL]
  (repeat' apply And.intro) <;> (intros; linarith)
/-- every comparison recorded by a kernel of `degNormalizeKernels` is an exact one -/
theorem deg_normalize_exact (a : ℝ) : ∀ k ∈ degNormalizeKernels, ∀ g ∈ (k (envL [a])).guards, IsExact g := by
  simp [degNormalizeKernels, IsExact]
/-- no two kernels of `degNormalizeKernels` are runs of the code on the same input -/
theorem deg_normalize_pairwise (a : ℝ) :
    degNormalizeKernels.Pairwise (fun k k' => ¬ (ValidRun (k (envL [a])) ∧ ValidRun (k' (envL [a])))) := by
  simp only [degNormalizeKernels, List.pairwise_cons, List.mem_cons, List.not_mem_nil, or_false, forall_eq_or_imp, forall_eq,
    List.Pairwise.nil, and_true, IsEmpty.forall_iff, implies_true]
  simp [ValidRun, GuardsHold, GuardHolds, envL]
  (repeat' apply And.intro) <;> (intros; linarith)
/-- every comparison recorded by a kernel of `radNormalizeKernels` is an exact one -/
theorem rad_normalize_exact (a : ℝ) : ∀ k ∈ radNormalizeKernels, ∀ g ∈ (k (envL [a])).guards, IsExact g := by
  simp [radNormalizeKernels, IsExact]
/-- no two kernels of `radNormalizeKernels` are runs of the code on the same input -/
theorem rad_normalize_pairwise (a : ℝ) :
    radNormalizeKernels.Pairwise (fun k k' => ¬ (ValidRun (k (envL [a])) ∧ ValidRun (k' (envL [a])))) := by
  simp only [radNormalizeKernels, List.pairwise_cons, List.mem_cons, List.not_mem_nil, or_false, forall_eq_or_imp, forall_eq,
    List.Pairwise.nil, and_true, IsEmpty.forall_iff, implies_true]
  simp [ValidRun, GuardsHold, GuardHolds, envL]
  (repeat' apply And.intro) <;> (intros; linarith)

/-! ## the property clauses with `Tr.ExactlyOne` / `Tr.Consistent`, for every input (any `approx` relations: none is consulted) -/
section statements
variable [Approx ℝ]

/-- the kernel values of a list on an input -/
noncomputable def runsOn (ks : List ((Nat → ℝ) → Tr ℝ)) (inp : List ℝ) : List (Tr ℝ) := ks.map (fun k => k (envL inp))
theorem runsOn_length (ks : List ((Nat → ℝ) → Tr ℝ)) (inp : List ℝ) : (runsOn ks inp).length = ks.length := by
  simp [runsOn]

theorem deg_bisect_exactly_one (a b : ℝ) : Tr.ExactlyOne (runsOn degBisectKernelsAll [a, b]) :=
  exactlyOne_of_runs _ _ (deg_bisect_exact a b) (deg_bisect_someRun a b) (deg_bisect_pairwise a b)
theorem rad_bisect_exactly_one (a b : ℝ) : Tr.ExactlyOne (runsOn radBisectKernelsAll [a, b]) :=
  exactlyOne_of_runs _ _ (rad_bisect_exact a b) (rad_bisect_someRun a b) (rad_bisect_pairwise a b)
theorem deg_normalize_signed_exactly_one (a : ℝ) : Tr.ExactlyOne (runsOn degNormalizeSignedKernelsAll [a]) :=
  exactlyOne_of_runs _ _ (deg_normalize_signed_exact a) (deg_normalize_signed_someRun a) (deg_normalize_signed_pairwise a)
theorem rad_normalize_signed_exactly_one (a : ℝ) : Tr.ExactlyOne (runsOn radNormalizeSignedKernelsAll [a]) :=
  exactlyOne_of_runs _ _ (rad_normalize_signed_exact a) (rad_normalize_signed_someRun a) (rad_normalize_signed_pairwise a)
theorem deg_opposite_exactly_one (a : ℝ) : Tr.ExactlyOne (runsOn degOppositeKernels [a]) :=
  exactlyOne_of_runs _ _ (deg_opposite_exact a) (code_deg_opposite_run a).1 (deg_opposite_pairwise a)
theorem rad_opposite_exactly_one (a : ℝ) : Tr.ExactlyOne (runsOn radOppositeKernelsAll [a]) :=
  exactlyOne_of_runs _ _ (rad_opposite_exact a) (rad_opposite_someRun a) (rad_opposite_pairwise a)
theorem deg_normalize_exactly_one (a : ℝ) : Tr.ExactlyOne (runsOn degNormalizeKernels [a]) :=
  exactlyOne_of_runs _ _ (deg_normalize_exact a) (code_deg_normalize_run a).1 (deg_normalize_pairwise a)
theorem rad_normalize_exactly_one (a : ℝ) : Tr.ExactlyOne (runsOn radNormalizeKernels [a]) :=
  exactlyOne_of_runs _ _ (rad_normalize_exact a) (code_rad_normalize_run a).1 (rad_normalize_pairwise a)

/-- **`Deg::bisect(a, b)`, for EVERY `(a, b)`**: exactly one of the twenty-one traced kernels is consistent (is the path the code
takes); the consistent one succeeds and outputs the one angle `r`, midway between `a` and `b` (equal signed distances, at most 90°
from each), in `[0, 360)` -/
theorem code_deg_bisect_exact (a b : ℝ) :
    Tr.ExactlyOne (runsOn degBisectKernelsAll [a, b]) ∧
    ∃ r : ℝ, (∀ t ∈ runsOn degBisectKernelsAll [a, b], t.Consistent → t.res = .ok ∧ t.out = [r]) ∧
      Angle.normalizeSigned (degFull : ℝ) (r - a) = Angle.normalizeSigned (degFull : ℝ) (b - r) ∧
      |Angle.normalizeSigned (degFull : ℝ) (r - a)| ≤ 90 ∧ |Angle.normalizeSigned (degFull : ℝ) (b - r)| ≤ 90 ∧
      0 ≤ r ∧ r < 360 := by
  obtain ⟨r, -, hr, -, h⟩ := code_deg_bisect_total a b
  exact ⟨deg_bisect_exactly_one a b, r, runsTo_consistent _ _ r (deg_bisect_exact a b) hr, h⟩
/-- **`Rad::bisect(a, b)`, for EVERY `(a, b)`** -/
theorem code_rad_bisect_exact (a b : ℝ) :
    Tr.ExactlyOne (runsOn radBisectKernelsAll [a, b]) ∧
    ∃ r : ℝ, (∀ t ∈ runsOn radBisectKernelsAll [a, b], t.Consistent → t.res = .ok ∧ t.out = [r]) ∧
      Angle.normalizeSigned (Lits.radFull : ℝ) (r - a) = Angle.normalizeSigned (Lits.radFull : ℝ) (b - r) ∧
      |Angle.normalizeSigned (Lits.radFull : ℝ) (r - a)| ≤ Real.pi / 2 ∧
      |Angle.normalizeSigned (Lits.radFull : ℝ) (b - r)| ≤ Real.pi / 2 ∧ 0 ≤ r ∧ r < 2 * Real.pi := by
  obtain ⟨r, -, hr, -, h⟩ := code_rad_bisect_total a b
  exact ⟨rad_bisect_exactly_one a b, r, runsTo_consistent _ _ r (rad_bisect_exact a b) hr, h⟩
/-- **`Deg::normalize_signed(a)`, for EVERY `a`**: exactly one of the seven kernels is consistent; it outputs the one angle in
`(-180, 180]` a whole number of turns from `a` -/
theorem code_deg_normalize_signed_exact (a : ℝ) :
    Tr.ExactlyOne (runsOn degNormalizeSignedKernelsAll [a]) ∧
    ∃ r : ℝ, (∀ t ∈ runsOn degNormalizeSignedKernelsAll [a], t.Consistent → t.res = .ok ∧ t.out = [r]) ∧
      -180 < r ∧ r ≤ 180 ∧ ∃ k : ℤ, r = a + k * 360 := by
  obtain ⟨r, -, hr, -, h⟩ := code_deg_normalize_signed_total a
  exact ⟨deg_normalize_signed_exactly_one a, r, runsTo_consistent _ _ r (deg_normalize_signed_exact a) hr, h⟩
/-- **`Rad::normalize_signed(a)`, for EVERY `a`** -/
theorem code_rad_normalize_signed_exact (a : ℝ) :
    Tr.ExactlyOne (runsOn radNormalizeSignedKernelsAll [a]) ∧
    ∃ r : ℝ, (∀ t ∈ runsOn radNormalizeSignedKernelsAll [a], t.Consistent → t.res = .ok ∧ t.out = [r]) ∧
      -Real.pi < r ∧ r ≤ Real.pi ∧ ∃ k : ℤ, r = a + k * (2 * Real.pi) := by
  obtain ⟨r, -, hr, -, h⟩ := code_rad_normalize_signed_total a
  exact ⟨rad_normalize_signed_exactly_one a, r, runsTo_consistent _ _ r (rad_normalize_signed_exact a) hr, h⟩
/-- **`Deg::opposite(a)`, for EVERY `a`**: exactly one of the three kernels is consistent; it outputs `normalize(a + 180)`, in
`[0, 360)`, half a turn plus whole turns from `a` -/
theorem code_deg_opposite_exact (a : ℝ) :
    Tr.ExactlyOne (runsOn degOppositeKernels [a]) ∧
    ∃ r : ℝ, (∀ t ∈ runsOn degOppositeKernels [a], t.Consistent → t.res = .ok ∧ t.out = [r]) ∧
      r = Angle.normalize (degFull : ℝ) (a + 180) ∧ 0 ≤ r ∧ r < 360 ∧ ∃ k : ℤ, r = a + 180 + k * 360 := by
  obtain ⟨-, r, hr, h⟩ := code_deg_opposite_run a
  exact ⟨deg_opposite_exactly_one a, r, runsTo_consistent _ _ r (deg_opposite_exact a) hr, h⟩
/-- **`Rad::opposite(a)`, for EVERY `a`** -/
theorem code_rad_opposite_exact (a : ℝ) :
    Tr.ExactlyOne (runsOn radOppositeKernelsAll [a]) ∧
    ∃ r : ℝ, (∀ t ∈ runsOn radOppositeKernelsAll [a], t.Consistent → t.res = .ok ∧ t.out = [r]) ∧
      r = Angle.normalize (Lits.radFull : ℝ) (a + Real.pi) ∧ 0 ≤ r ∧ r < 2 * Real.pi ∧
      ∃ k : ℤ, r = a + Real.pi + k * (2 * Real.pi) := by
  obtain ⟨r, -, hr, -, h⟩ := code_rad_opposite_total a
  exact ⟨rad_opposite_exactly_one a, r, runsTo_consistent _ _ r (rad_opposite_exact a) hr, h⟩
/-- **`Deg::normalize(a)`, for EVERY `a`**: exactly one of the three kernels is consistent; it outputs the one angle in `[0, 360)` a
whole number of turns from `a` -/
theorem code_deg_normalize_exact (a : ℝ) :
    Tr.ExactlyOne (runsOn degNormalizeKernels [a]) ∧
    ∃ r : ℝ, (∀ t ∈ runsOn degNormalizeKernels [a], t.Consistent → t.res = .ok ∧ t.out = [r]) ∧
      0 ≤ r ∧ r < 360 ∧ ∃ k : ℤ, r = a + k * 360 := by
  obtain ⟨-, r, hr, h⟩ := code_deg_normalize_run a
  exact ⟨deg_normalize_exactly_one a, r, runsTo_consistent _ _ r (deg_normalize_exact a) hr, h⟩
/-- **`Rad::normalize(a)`, for EVERY `a`** -/
theorem code_rad_normalize_exact (a : ℝ) :
    Tr.ExactlyOne (runsOn radNormalizeKernels [a]) ∧
    ∃ r : ℝ, (∀ t ∈ runsOn radNormalizeKernels [a], t.Consistent → t.res = .ok ∧ t.out = [r]) ∧
      0 ≤ r ∧ r < 2 * Real.pi ∧ ∃ k : ℤ, r = a + k * (2 * Real.pi) := by
  obtain ⟨-, r, hr, h⟩ := code_rad_normalize_run a
  exact ⟨rad_normalize_exactly_one a, r, runsTo_consistent _ _ r (rad_normalize_exact a) hr, h⟩

end statements
end Cg.E2E.C13
