import Cgm.Trace.C09Paths
/-! # T obligations for C09, the remaining paths: `Quaternion::look_at` on the four negative-trace paths of
`From<Matrix3> for Quaternion`, `Basis2::look_at_stable` with `flip = false` -/
set_option linter.unusedSectionVars false
namespace Cg.Trace.C09More
open Cg Cg.Gen.C09
variable {K : Type} [Field K] [LinearOrder K] [Transc K] [FRem K] [Lits K]
attribute [local simp] M4.lookToRh M4.lookToLh M4.lookAtRh M4.lookAtLh M3.lookToLh M3.lookToRh
  V3.normalize V3.normalizeTo V3.magnitude M2.lookAtStable V2.normalize V2.normalizeTo V2.magnitude
  Basis2.lookAt Basis2.lookAtStable

/-- the matrix that `Quaternion::look_at(dir, up)` converts -/
abbrev lm (d u : V3 K) : M3 K := M3.lookToLh d u

/-- negative trace, `m.x.x` the largest diagonal entry -/
theorem t_q_look_at_xx (d u : V3 K) (h : ¬ 0 ≤ (lm d u).trace) (h1 : (lm d u).y.y < (lm d u).x.x)
    (h2 : (lm d u).z.z < (lm d u).x.x) :
    t_q_look_at_xx (envL (d.toList ++ u.toList)) =
      .okG (Quat.lookAt d u).toList
        [.le 0 (lm d u).trace false, .lt (lm d u).y.y (lm d u).x.x true, .lt (lm d u).z.z (lm d u).x.x true] := by
  simp only [Quat.lookAt, lm] at *
  unfold M3.toQuat; simp only [if_neg h, h1, h2, and_self, if_true]; tr_auto_nf
/-- negative trace, `m.y.y` the largest -/
theorem t_q_look_at_yy (d u : V3 K) (h : ¬ 0 ≤ (lm d u).trace) (h1 : ¬ (lm d u).y.y < (lm d u).x.x)
    (h2 : (lm d u).z.z < (lm d u).y.y) :
    t_q_look_at_yy (envL (d.toList ++ u.toList)) =
      .okG (Quat.lookAt d u).toList
        [.le 0 (lm d u).trace false, .lt (lm d u).y.y (lm d u).x.x false, .lt (lm d u).z.z (lm d u).y.y true] := by
  simp only [Quat.lookAt, lm] at *
  unfold M3.toQuat; simp only [if_neg h, h1, h2, false_and, if_false, if_true]; tr_auto_nf
/-- negative trace, `m.z.z` the largest (first test fails at its first conjunct) -/
theorem t_q_look_at_zz (d u : V3 K) (h : ¬ 0 ≤ (lm d u).trace) (h1 : ¬ (lm d u).y.y < (lm d u).x.x)
    (h2 : ¬ (lm d u).z.z < (lm d u).y.y) :
    t_q_look_at_zz (envL (d.toList ++ u.toList)) =
      .okG (Quat.lookAt d u).toList
        [.le 0 (lm d u).trace false, .lt (lm d u).y.y (lm d u).x.x false, .lt (lm d u).z.z (lm d u).y.y false] := by
  simp only [Quat.lookAt, lm] at *
  unfold M3.toQuat; simp only [if_neg h, h1, h2, false_and, if_false]; tr_auto_nf
/-- negative trace, `m.z.z` the largest (first test fails at its second conjunct: one more comparison) -/
theorem t_q_look_at_zz2 (d u : V3 K) (h : ¬ 0 ≤ (lm d u).trace) (h1 : (lm d u).y.y < (lm d u).x.x)
    (h2 : ¬ (lm d u).z.z < (lm d u).x.x) (h3 : ¬ (lm d u).z.z < (lm d u).y.y) :
    t_q_look_at_zz2 (envL (d.toList ++ u.toList)) =
      .okG (Quat.lookAt d u).toList
        [.le 0 (lm d u).trace false, .lt (lm d u).y.y (lm d u).x.x true, .lt (lm d u).z.z (lm d u).x.x false,
         .lt (lm d u).z.z (lm d u).y.y false] := by
  simp only [Quat.lookAt, lm] at *
  unfold M3.toQuat; simp only [if_neg h, h1, h2, h3, and_false, true_and, if_false]; tr_auto_nf

/-- `Basis2::look_at_stable(dir, false)` (the flag is an argument: a kernel constant, no comparison) -/
theorem t_b2_look_at_stable_noflip (d : V2 K) :
    t_b2_look_at_stable_noflip (envL d.toList) = .okS (Basis2.lookAtStable d false).mat.toList := by tr_auto_nf
end Cg.Trace.C09More
