import Cgm.Gen.C09
import Cgm.Model.Transform
/-! # T obligations for C09, remaining kernels: the deprecated `Transform::look_at` of `Matrix3` (2-D and 3-D) and
`Matrix4`, `Decomposed<Vector2, Basis2>::look_at` / `look_at_rh`

`Transform<Point2>::look_at` (Matrix3, Decomposed with Basis2) goes through `Matrix2::look_at`, whose one comparison
`up.x * dir.y >= up.y * dir.x` is traced with both outcomes; `dir` is `center - eye` (`look_at`, the alias of
`look_at_lh`) or `eye - center` (`look_at_rh`).  `Matrix4::look_at` is `Matrix4::look_at_rh`. -/
set_option linter.unusedSectionVars false
namespace Cg.Trace.C09Rest
open Cg Cg.Gen.C09
variable {K : Type} [Field K] [LinearOrder K] [Transc K] [FRem K] [Lits K]
attribute [local simp] M4.lookToRh M4.lookToLh M4.lookAtRh M4.lookAtLh M3.lookToLh M3.lookToRh M3.lookAtLh
  V3.normalize V3.normalizeTo V3.magnitude

abbrev DB2 (K : Type) := Decomposed (Basis2 K) (V2 K) K
/-- the harness's flat output of a `Decomposed<Vector2, Basis2>`: scale, rotation matrix, displacement -/
def flb2 (d : DB2 K) : List K := d.scale :: d.rot.mat.toList ++ d.disp.toList

attribute [local simp] M2.lookAtStable V2.normalize V2.normalizeTo V2.magnitude M2.toM3
theorem t_m3_tlook_at2_noflip (e c : P2 K) (u : V2 K) (h : ¬ u.y * (c - e).x ≤ u.x * (c - e).y) :
    t_m3_tlook_at2_noflip (envL (e.toList ++ c.toList ++ u.toList)) =
      .okG (M3.lookAt2Lh e c u).toList [.le (u.y * (c - e).x) (u.x * (c - e).y) false] := by
  simp only [M3.lookAt2Lh, M2.lookAt, h, decide_false]; tr_auto_nf
theorem t_m3_tlook_at2_flip (e c : P2 K) (u : V2 K) (h : u.y * (c - e).x ≤ u.x * (c - e).y) :
    t_m3_tlook_at2_flip (envL (e.toList ++ c.toList ++ u.toList)) =
      .okG (M3.lookAt2Lh e c u).toList [.le (u.y * (c - e).x) (u.x * (c - e).y) true] := by
  simp only [M3.lookAt2Lh, M2.lookAt, h, decide_true]; tr_auto_nf
theorem t_m3_tlook_at (e c : P3 K) (u : V3 K) :
    t_m3_tlook_at (envL (e.toList ++ c.toList ++ u.toList)) = .okS (M3.lookAtLh e c u).toList := by tr_auto_nf
theorem t_m4_tlook_at (e c : P3 K) (u : V3 K) :
    t_m4_tlook_at (envL (e.toList ++ c.toList ++ u.toList)) = .okS (M4.lookAtRh e c u).toList := by tr_auto_nf

attribute [local simp] Decomposed.lookAtDir basis2Ops flb2 Basis2.rotateVector Basis2.lookAt
theorem t_db2_look_at_noflip (e c : P2 K) (u : V2 K) (h : ¬ u.y * (c - e).x ≤ u.x * (c - e).y) :
    t_db2_look_at_noflip (envL (e.toList ++ c.toList ++ u.toList)) =
      .okG (flb2 (Decomposed.lookAtDir basis2Ops (c - e) u V2.zero e.toVec))
        [.le (u.y * (c - e).x) (u.x * (c - e).y) false] := by
  simp only [Decomposed.lookAtDir, basis2Ops, Basis2.lookAt, M2.lookAt, h, decide_false]
  tr_auto_nf
theorem t_db2_look_at_flip (e c : P2 K) (u : V2 K) (h : u.y * (c - e).x ≤ u.x * (c - e).y) :
    t_db2_look_at_flip (envL (e.toList ++ c.toList ++ u.toList)) =
      .okG (flb2 (Decomposed.lookAtDir basis2Ops (c - e) u V2.zero e.toVec))
        [.le (u.y * (c - e).x) (u.x * (c - e).y) true] := by
  simp only [Decomposed.lookAtDir, basis2Ops, Basis2.lookAt, M2.lookAt, h, decide_true]
  tr_auto_nf
theorem t_db2_look_at_rh_noflip (e c : P2 K) (u : V2 K) (h : ¬ u.y * (e - c).x ≤ u.x * (e - c).y) :
    t_db2_look_at_rh_noflip (envL (e.toList ++ c.toList ++ u.toList)) =
      .okG (flb2 (Decomposed.lookAtDir basis2Ops (e - c) u V2.zero e.toVec))
        [.le (u.y * (e - c).x) (u.x * (e - c).y) false] := by
  simp only [Decomposed.lookAtDir, basis2Ops, Basis2.lookAt, M2.lookAt, h, decide_false]
  tr_auto_nf
theorem t_db2_look_at_rh_flip (e c : P2 K) (u : V2 K) (h : u.y * (e - c).x ≤ u.x * (e - c).y) :
    t_db2_look_at_rh_flip (envL (e.toList ++ c.toList ++ u.toList)) =
      .okG (flb2 (Decomposed.lookAtDir basis2Ops (e - c) u V2.zero e.toVec))
        [.le (u.y * (e - c).x) (u.x * (e - c).y) true] := by
  simp only [Decomposed.lookAtDir, basis2Ops, Basis2.lookAt, M2.lookAt, h, decide_true]
  tr_auto_nf
end Cg.Trace.C09Rest
