import Cgm.Trace.Cover2
/-!
# Layer T: which inputs the traced paths cover -- wave 4

`Cgm/Trace/Cover2.lean` listed, for every branching function outside C13, the traced paths and the exact
untraced remainder.  The kernels of `lib/cgv/tracetab_more.py` (obligations `Cgm/Trace/C08More.lean`,
`C09More.lean`, `C10More.lean`, `C15More.lean`) take most of those remainders.  This file restates the
UPDATED lists (over the model only: no generated code is imported; `Cgm/Trace/CoverLink4.lean` checks every
entry against the hypotheses of the cited obligation) and proves `…_excl` (pairwise exclusive) and
`…_cover` (`AnyOf paths ↔ True` where the paths are now exhaustive, otherwise the exact remainder).

What remains untraced after this wave, and why (nothing else does, outside C13):

* `from_arc(.., None)`, opposite vectors, the component-wise test stopping at `v.x`: infeasible
  (`(unit_x × src).x` is `0·z - 0·y`), discharged here by `ulps_eq!(0, 0)` (`from_arc_cover_refl`);
* `planar` with `near = far` exactly but `far` not `abs_diff_eq` to `near`: infeasible for a reflexive
  `abs_diff_eq` (`planar_cover_regular`); and the two IEEE-divergent input classes `¬ hreg` / `¬ hfin`
  (`tan(fovy/2) = 0`), on which no comparison tells exact from IEEE arithmetic;
* `Vector1::angle` clamped from above / below: infeasible whenever `sqrt(t·t)² = t·t`, which holds of the
  harness's exact shadow arithmetic (`v1_angle_cover_exact`);
* the `unwrap` panic of `Basis2::invert` under `Decomposed<_, Basis2>::inverse_transform{,_vector}`:
  infeasible whenever `cos² + sin² = 1` (`db2_inverse_transform_vector_cover_pythagoras`).
-/
set_option linter.unusedSectionVars false
set_option linter.unusedSimpArgs false
set_option linter.unusedVariables false
namespace Cg.Trace.Cover4
open Cg Cg.Trace.Cover Cg.Trace.Cover2

variable {K : Type} [Field K] [LinearOrder K]

/-! ## C15: `Quaternion::from_arc(.., None)`, `Basis3::between_vectors` -/
section C15
variable [Approx K] [Transc K] [Lits K]

/-- `from_arc(src, dst, None)`: the four paths of `Cover2.fromArcPaths` (`t_q_from_arc_same`, `…_general`,
`C15Paths.t_q_from_arc_opp_x`, `…_opp_y`) and `C15More.t_q_from_arc_opp_x_y`: opposite vectors, the component-wise
`ulps_eq!(unit_x × src, 0)` stops at the `y` component -/
def fromArcPaths (a b : V3 K) : List Prop :=
  Cover2.fromArcPaths a b ++
  [ ulpsEqD (V3.dot a b) (Transc.sqrt (a.magnitude2 * b.magnitude2)) = false ∧
      ulpsEqD (V3.dot a b) (-Transc.sqrt (a.magnitude2 * b.magnitude2)) = true ∧
      ulpsEqD (V3.cross V3.unitX a).x 0 = true ∧ ulpsEqD (V3.cross V3.unitX a).y 0 = false ]
/-- the one syntactic path left: the test stops at `v.x` -/
def fromArcUntraced (a b : V3 K) : List Prop :=
  [ ulpsEqD (V3.dot a b) (Transc.sqrt (a.magnitude2 * b.magnitude2)) = false ∧
      ulpsEqD (V3.dot a b) (-Transc.sqrt (a.magnitude2 * b.magnitude2)) = true ∧
      ulpsEqD (V3.cross V3.unitX a).x 0 = false ]
theorem from_arc_partition_excl (a b : V3 K) : Excl (fromArcPaths a b ++ fromArcUntraced a b) := by
  simp only [fromArcPaths, Cover2.fromArcPaths, fromArcUntraced, List.cons_append, List.nil_append, AnyOf, Excl]
  generalize ulpsEqD (V3.dot a b) (Transc.sqrt (a.magnitude2 * b.magnitude2)) = t1
  generalize ulpsEqD (V3.dot a b) (-Transc.sqrt (a.magnitude2 * b.magnitude2)) = t2
  generalize ulpsEqD (V3.cross V3.unitX a).x 0 = tx
  generalize ulpsEqD (V3.cross V3.unitX a).y 0 = ty
  generalize ulpsEqD (V3.cross V3.unitX a).z 0 = tz
  cases t1 <;> cases t2 <;> cases tx <;> cases ty <;> cases tz <;> simp
theorem from_arc_partition_all (a b : V3 K) : AnyOf (fromArcPaths a b ++ fromArcUntraced a b) := by
  simp only [fromArcPaths, Cover2.fromArcPaths, fromArcUntraced, List.cons_append, List.nil_append, AnyOf, Excl]
  generalize ulpsEqD (V3.dot a b) (Transc.sqrt (a.magnitude2 * b.magnitude2)) = t1
  generalize ulpsEqD (V3.dot a b) (-Transc.sqrt (a.magnitude2 * b.magnitude2)) = t2
  generalize ulpsEqD (V3.cross V3.unitX a).x 0 = tx
  generalize ulpsEqD (V3.cross V3.unitX a).y 0 = ty
  generalize ulpsEqD (V3.cross V3.unitX a).z 0 = tz
  cases t1 <;> cases t2 <;> cases tx <;> cases ty <;> cases tz <;> simp
theorem from_arc_excl (a b : V3 K) : Excl (fromArcPaths a b) :=
  excl_append_left _ _ (from_arc_partition_excl a b)
/-- the covered set is the complement of the single (infeasible) path … -/
theorem from_arc_cover_syntactic (a b : V3 K) : AnyOf (fromArcPaths a b) ↔ ¬ AnyOf (fromArcUntraced a b) :=
  cover_of_partition _ _ (from_arc_partition_excl a b) (from_arc_partition_all a b)
/-- … which no input takes once `ulps_eq!(0, 0)` holds (reflexivity of the approximate test at zero, as in
`Cover2.from_arc_cover_refl`): the five paths are exhaustive.  Nothing remains untraced. -/
theorem from_arc_cover (a b : V3 K) (h00 : ulpsEqD (0 : K) 0 = true) : AnyOf (fromArcPaths a b) ↔ True := by
  rw [from_arc_cover_syntactic]
  simp only [fromArcUntraced, AnyOf, or_false, cross_unitX_x, h00]
  simp

/-- `Basis3::between_vectors`: `C15More.t_b3_between_vectors_same`, `C15Paths.t_b3_between_vectors_general`,
`C15More.t_b3_between_vectors_opp_x`, `C15More.t_b3_between_vectors_opp_y`: the four paths of
`Quaternion::between_vectors`, of which it is `.into()` -/
def b3BetweenVectorsPaths (a b : V3 K) : List Prop := Cover2.betweenVectorsPaths a b
theorem b3_between_vectors_excl (a b : V3 K) : Excl (b3BetweenVectorsPaths a b) := Cover2.between_vectors_excl a b
/-- exhaustive (was: the `general` branch only).  Nothing remains untraced.
(`Basis2::between_vectors` makes no comparison: its kernel `t_b2_between_vectors` is every path.) -/
theorem b3_between_vectors_cover (a b : V3 K) : AnyOf (b3BetweenVectorsPaths a b) ↔ True :=
  Cover2.between_vectors_cover a b
end C15

/-! ## C10: `PerspectiveFov`, `PlanarFov` under every entry point -/
section C10
variable [Approx K] [Transc K] [Lits K]

/-- `From<PerspectiveFov> for Matrix4`: the nine paths of `Cover2.perspectivePaths`, then
`C10More.t_perspective_bad_fovy_pi` (`fovy ? turn_div_2` is `Equal`), `C10More.t_perspective_neg_bad_aspect`,
`…_neg_bad_near`, `…_neg_bad_far`, `…_neg_bad_nf` (every rejection after a negative aspect) -/
def perspectivePaths (fovy a n f : K) : List Prop :=
  Cover2.perspectivePaths fovy a n f ++
  [ 0 < fovy ∧ fovy = Lits.radFull / 2,
    0 < fovy ∧ fovy < Lits.radFull / 2 ∧ a < 0 ∧ absDiffEqD (-a) (0 : K) = true,
    0 < fovy ∧ fovy < Lits.radFull / 2 ∧ a < 0 ∧ absDiffEqD (-a) (0 : K) = false ∧ ¬ 0 < n,
    0 < fovy ∧ fovy < Lits.radFull / 2 ∧ a < 0 ∧ absDiffEqD (-a) (0 : K) = false ∧ 0 < n ∧ ¬ 0 < f,
    0 < fovy ∧ fovy < Lits.radFull / 2 ∧ a < 0 ∧ absDiffEqD (-a) (0 : K) = false ∧ 0 < n ∧ 0 < f ∧
      absDiffEqD f n = true ]
theorem perspective_excl (fovy a n f : K) : Excl (perspectivePaths fovy a n f) := by
  simp only [perspectivePaths, Cover2.perspectivePaths, List.cons_append, List.nil_append, AnyOf, Excl]
  generalize (Lits.radFull : K) / 2 = P
  generalize absDiffEqD (-a) (0 : K) = za'
  generalize absDiffEqD a (0 : K) = za
  generalize absDiffEqD f n = zf
  excl_tac
/-- exhaustive: all fourteen syntactic paths are traced.  Nothing remains untraced. -/
theorem perspective_cover (fovy a n f : K) : AnyOf (perspectivePaths fovy a n f) ↔ True := by
  simp only [perspectivePaths, Cover2.perspectivePaths, List.cons_append, List.nil_append, AnyOf, Excl]
  generalize (Lits.radFull : K) / 2 = P
  generalize absDiffEqD (-a) (0 : K) = za'
  generalize absDiffEqD a (0 : K) = za
  generalize absDiffEqD f n = zf
  grind (splits := 60)

/-- struct form `PerspectiveFov { .. }.into()`: the same fourteen paths, `C10Paths.t_perspective_s_ok` and
`C10More.t_perspective_s_*` -/
def perspectiveSPaths (fovy a n f : K) : List Prop := perspectivePaths fovy a n f
theorem perspective_s_excl (fovy a n f : K) : Excl (perspectiveSPaths fovy a n f) := perspective_excl fovy a n f
/-- exhaustive -/
theorem perspective_s_cover (fovy a n f : K) : AnyOf (perspectiveSPaths fovy a n f) ↔ True :=
  perspective_cover fovy a n f
/-- `perspective(Deg(fovy), …)`: the same fourteen paths at the converted angle, `C10Paths.t_perspective_deg_ok`,
`C10Paths.t_perspective_deg_bad_fovy` and `C10More.t_perspective_deg_*` -/
def perspectiveDegPaths (fovy a n f : K) : List Prop := perspectivePaths (degToRad fovy) a n f
theorem perspective_deg_excl (fovy a n f : K) : Excl (perspectiveDegPaths fovy a n f) :=
  perspective_excl (degToRad fovy) a n f
/-- exhaustive -/
theorem perspective_deg_cover (fovy a n f : K) : AnyOf (perspectiveDegPaths fovy a n f) ↔ True :=
  perspective_cover (degToRad fovy) a n f
/-- struct form `Perspective { .. }.into()`: the four paths of `frustum`, `C10Paths.t_frustum_s_ok`,
`C10More.t_frustum_s_bad_lr`, `…_bad_bt`, `…_bad_nf` -/
def frustumSPaths (l r b t n f : K) : List Prop := Cover.frustumPaths l r b t n f
theorem frustum_s_excl (l r b t n f : K) : Excl (frustumSPaths l r b t n f) := Cover.frustum_excl l r b t n f
/-- exhaustive -/
theorem frustum_s_cover (l r b t n f : K) : AnyOf (frustumSPaths l r b t n f) ↔ True := Cover.frustum_cover l r b t n f

/-- `From<PlanarFov> for Matrix4`: the twelve paths of `Cover2.planarPaths`, then `C10More.t_planar_bad_fovy_npi`
(`fovy = -π`), `…_bad_fovy_pi` (`fovy = π`), and with a negative aspect `…_neg_bad_aspect`, `…_neg_bad_nf`,
`…_neg_ok_rev`, `…_neg_ok_behind`, `…_neg_ok_behind_rev`, `…_neg_bad_focal`, `…_neg_bad_focal_rev` -/
def planarPaths (fovy a h n f : K) : List Prop :=
  Cover2.planarPaths fovy a h n f ++
  [ fovy = -(Lits.radFull / 2),
    -(Lits.radFull / 2) < fovy ∧ fovy = Lits.radFull / 2,
    -(Lits.radFull / 2) < fovy ∧ fovy < Lits.radFull / 2 ∧ 0 ≤ h ∧ a < 0 ∧ absDiffEqD (-a) (0 : K) = true,
    -(Lits.radFull / 2) < fovy ∧ fovy < Lits.radFull / 2 ∧ 0 ≤ h ∧ a < 0 ∧ absDiffEqD (-a) (0 : K) = false ∧
      absDiffEqD f n = true,
    -(Lits.radFull / 2) < fovy ∧ fovy < Lits.radFull / 2 ∧ 0 ≤ h ∧ a < 0 ∧ absDiffEqD (-a) (0 : K) = false ∧
      absDiffEqD f n = false ∧ ¬ n < f ∧ focal fovy h < f ∧ planarReg fovy h,
    -(Lits.radFull / 2) < fovy ∧ fovy < Lits.radFull / 2 ∧ 0 ≤ h ∧ a < 0 ∧ absDiffEqD (-a) (0 : K) = false ∧
      absDiffEqD f n = false ∧ n < f ∧ ¬ focal fovy h < n ∧ f < focal fovy h ∧ planarReg fovy h,
    -(Lits.radFull / 2) < fovy ∧ fovy < Lits.radFull / 2 ∧ 0 ≤ h ∧ a < 0 ∧ absDiffEqD (-a) (0 : K) = false ∧
      absDiffEqD f n = false ∧ f < n ∧ ¬ focal fovy h < f ∧ n < focal fovy h ∧ planarReg fovy h,
    -(Lits.radFull / 2) < fovy ∧ fovy < Lits.radFull / 2 ∧ 0 ≤ h ∧ a < 0 ∧ absDiffEqD (-a) (0 : K) = false ∧
      absDiffEqD f n = false ∧ n < f ∧ ¬ focal fovy h < n ∧ ¬ f < focal fovy h ∧ planarFin fovy h,
    -(Lits.radFull / 2) < fovy ∧ fovy < Lits.radFull / 2 ∧ 0 ≤ h ∧ a < 0 ∧ absDiffEqD (-a) (0 : K) = false ∧
      absDiffEqD f n = false ∧ f < n ∧ ¬ focal fovy h < f ∧ ¬ n < focal fovy h ∧ planarFin fovy h ]
/-- `|aspect|` is not `abs_diff_eq` to zero, through either side of the `abs` -/
def aspectOk (a : K) : Prop := (¬ a < 0 ∧ absDiffEqD a (0 : K) = false) ∨ (a < 0 ∧ absDiffEqD (-a) (0 : K) = false)
/-- what remains untraced of `From<PlanarFov>`:
* `near = far` not ≈ (impossible for a reflexive `abs_diff_eq`) with the focal point not in front;
* the two input classes on which exact and IEEE arithmetic part ways without a comparison:
  `¬ hreg` on the inputs the exact comparisons would accept, `¬ hfin` on those they would reject. -/
def planarUntraced (fovy a h n f : K) : List Prop :=
  [ -(Lits.radFull / 2) < fovy ∧ fovy < Lits.radFull / 2 ∧ 0 ≤ h ∧ aspectOk a ∧
      absDiffEqD f n = false ∧ ¬ n < f ∧ ¬ f < n ∧ ¬ focal fovy h < f,
    -(Lits.radFull / 2) < fovy ∧ fovy < Lits.radFull / 2 ∧ 0 ≤ h ∧ aspectOk a ∧
      absDiffEqD f n = false ∧ ¬ planarReg fovy h ∧
      ((n < f ∧ focal fovy h < n) ∨ (¬ n < f ∧ focal fovy h < f) ∨ (n < f ∧ ¬ focal fovy h < n ∧ f < focal fovy h) ∨
        (f < n ∧ ¬ focal fovy h < f ∧ n < focal fovy h)),
    -(Lits.radFull / 2) < fovy ∧ fovy < Lits.radFull / 2 ∧ 0 ≤ h ∧ aspectOk a ∧
      absDiffEqD f n = false ∧ ¬ planarFin fovy h ∧
      ((n < f ∧ ¬ focal fovy h < n ∧ ¬ f < focal fovy h) ∨ (f < n ∧ ¬ focal fovy h < f ∧ ¬ n < focal fovy h)) ]
theorem planar_partition_excl (fovy a h n f : K) : Excl (planarPaths fovy a h n f ++ planarUntraced fovy a h n f) := by
  simp only [planarPaths, Cover2.planarPaths, planarUntraced, aspectOk, List.cons_append, List.nil_append, AnyOf, Excl]
  generalize focal fovy h = fp
  generalize planarReg fovy h = hreg
  generalize planarFin fovy h = hfin
  generalize -((Lits.radFull : K) / 2) = nP
  generalize (Lits.radFull : K) / 2 = P
  generalize absDiffEqD (-a) (0 : K) = za'
  generalize absDiffEqD a (0 : K) = za
  generalize absDiffEqD f n = zf
  excl_tac
theorem planar_partition_all (fovy a h n f : K) : AnyOf (planarPaths fovy a h n f ++ planarUntraced fovy a h n f) := by
  simp only [planarPaths, Cover2.planarPaths, planarUntraced, aspectOk, List.cons_append, List.nil_append, AnyOf, Excl]
  generalize focal fovy h = fp
  generalize planarReg fovy h = hreg
  generalize planarFin fovy h = hfin
  generalize -((Lits.radFull : K) / 2) = nP
  generalize (Lits.radFull : K) / 2 = P
  generalize absDiffEqD (-a) (0 : K) = za'
  generalize absDiffEqD a (0 : K) = za
  generalize absDiffEqD f n = zf
  grind (splits := 80)
theorem planar_excl (fovy a h n f : K) : Excl (planarPaths fovy a h n f) :=
  excl_append_left _ _ (planar_partition_excl fovy a h n f)
/-- the covered set is the complement of the three remaining classes -/
theorem planar_cover (fovy a h n f : K) :
    AnyOf (planarPaths fovy a h n f) ↔ ¬ AnyOf (planarUntraced fovy a h n f) :=
  cover_of_partition _ _ (planar_partition_excl fovy a h n f) (planar_partition_all fovy a h n f)
/-- EVERY `fovy` and EVERY aspect (was: `fovy` strictly inside `(-π, π)`, aspect ≥ 0): away from the two IEEE-divergent
classes (`tan(fovy/2) = 0`) the twenty-one paths are exhaustive once `near = far` implies `far ≈ near`
(reflexivity of `abs_diff_eq`) -/
theorem planar_cover_regular (fovy a h n f : K) (hreg : planarReg fovy h) (hfin : planarFin fovy h)
    (hrefl : f = n → absDiffEqD f n = true) :
    AnyOf (planarPaths fovy a h n f) ↔ True := by
  rw [planar_cover]
  simp only [planarUntraced, AnyOf, or_false, iff_true]
  have hnf : ¬ n < f → ¬ f < n → absDiffEqD f n = true := fun h3 h4 => hrefl (le_antisymm (not_lt.mp h3) (not_lt.mp h4))
  generalize focal fovy h = fp at *
  generalize planarReg fovy h = hreg' at *
  generalize planarFin fovy h = hfin' at *
  generalize absDiffEqD f n = zf at *
  grind
/-- the same with the single hypothesis `tan(fovy/2) ≠ 0` (written with the order only, as the model does) -/
theorem planar_cover_tan (fovy a h n f : K) (ht : ¬ tanZero fovy) (hrefl : f = n → absDiffEqD f n = true) :
    AnyOf (planarPaths fovy a h n f) ↔ True :=
  planar_cover_regular fovy a h n f (fun hc => ht hc.1) (fun hc => ht hc.1) hrefl

/-- struct form `PlanarFov { .. }.into()`: the same twenty-one paths, `C10Paths.t_planar_s_ok` and `C10More.t_planar_s_*` -/
def planarSPaths (fovy a h n f : K) : List Prop := planarPaths fovy a h n f
theorem planar_s_excl (fovy a h n f : K) : Excl (planarSPaths fovy a h n f) := planar_excl fovy a h n f
theorem planar_s_cover (fovy a h n f : K) :
    AnyOf (planarSPaths fovy a h n f) ↔ ¬ AnyOf (planarUntraced fovy a h n f) := planar_cover fovy a h n f
theorem planar_s_cover_regular (fovy a h n f : K) (hreg : planarReg fovy h) (hfin : planarFin fovy h)
    (hrefl : f = n → absDiffEqD f n = true) : AnyOf (planarSPaths fovy a h n f) ↔ True :=
  planar_cover_regular fovy a h n f hreg hfin hrefl
end C10

/-! ## C11: `Vector1::angle` -/
section C11
variable [Transc K]
/-- the two clamped paths of `Vector1::angle` (`Cover2.v1AngleUntraced`) stay untraced: they are infeasible in exact
arithmetic.  Whenever `sqrt(t·t)² = t·t` -- true of the real square root, and of the harness's shadow arithmetic, whose
`sqrt` is exact on squares of rationals -- the cosine `a·b / (|a| |b|)` of two 1-vectors squares to `1` or `0`, so the
unclamped path `C11Paths.t_v1_angle` is the only one: exhaustive. -/
theorem v1_angle_cover_exact [IsStrictOrderedRing K] (a b : V1 K)
    (hs : ∀ t : K, Transc.sqrt (t * t) * Transc.sqrt (t * t) = t * t) :
    AnyOf (v1AnglePaths a b) ↔ True := by
  rw [v1_angle_cover]
  have hc : V1.dot a b / (a.magnitude * b.magnitude) = a.x * b.x / (Transc.sqrt (a.x * a.x) * Transc.sqrt (b.x * b.x)) := by
    simp [V1.dot, V1.mulEw, V1.sum, V1.magnitude, V1.magnitude2]
  rw [hc]
  set c := a.x * b.x / (Transc.sqrt (a.x * a.x) * Transc.sqrt (b.x * b.x)) with hcdef
  have h2 : c * c = 1 ∨ c * c = 0 := by
    by_cases hd : Transc.sqrt (a.x * a.x) * Transc.sqrt (b.x * b.x) = 0
    · right; rw [hcdef, hd]; simp
    · left
      rw [hcdef, div_mul_div_comm]
      have : Transc.sqrt (a.x * a.x) * Transc.sqrt (b.x * b.x) * (Transc.sqrt (a.x * a.x) * Transc.sqrt (b.x * b.x)) =
          a.x * b.x * (a.x * b.x) := by
        calc _ = (Transc.sqrt (a.x * a.x) * Transc.sqrt (a.x * a.x)) * (Transc.sqrt (b.x * b.x) * Transc.sqrt (b.x * b.x)) := by ring
          _ = a.x * a.x * (b.x * b.x) := by rw [hs, hs]
          _ = _ := by ring
      rw [← this]
      exact div_self (mul_ne_zero hd hd)
  refine iff_true_intro ⟨?_, ?_⟩ <;> rcases h2 with h2 | h2 <;> nlinarith [sq_nonneg (c - 1), sq_nonneg (c + 1)]
end C11

/-! ## C09: `Quaternion::look_at`, `Basis2::look_at_stable` -/
section C09
variable [Transc K]
/-- `Quaternion::look_at(dir, up) = Matrix3::look_to_lh(dir, up).into()`: `C09Paths.t_q_look_at` (trace),
`C09More.t_q_look_at_xx`, `…_yy`, `…_zz`, `…_zz2` -/
def qLookAtPaths (d u : V3 K) : List Prop := Cover.toQuatPaths (M3.lookToLh d u)
theorem q_look_at_excl (d u : V3 K) : Excl (qLookAtPaths d u) := Cover.to_quat_excl _
/-- exhaustive (was: the `trace` path only; the sixth syntactic path is infeasible: `Cover.to_quat_sixth_infeasible`) -/
theorem q_look_at_cover (d u : V3 K) : AnyOf (qLookAtPaths d u) ↔ True := Cover.to_quat_cover _
/-- `Basis2::look_at_stable(dir, flip)`: `C09More.t_b2_look_at_stable_noflip`, `C09Paths.t_b2_look_at_stable_flip`
(the flag is a constant of each kernel) -/
def b2LookAtStablePaths (flip : Bool) : List Prop := Cover2.m2LookAtStablePaths flip
theorem b2_look_at_stable_excl (flip : Bool) : Excl (b2LookAtStablePaths flip) := Cover2.m2_look_at_stable_excl flip
/-- exhaustive (was: `flip = true` only) -/
theorem b2_look_at_stable_cover (flip : Bool) : AnyOf (b2LookAtStablePaths flip) ↔ True :=
  Cover2.m2_look_at_stable_cover flip
end C09

/-! ## C08: `Decomposed::look_at*`, `inverse_transform_vector` -/
section C08
variable [Approx K] [Transc K] [Lits K]
/-- `Decomposed<_, Quaternion>::look_at` (deprecated alias of `look_at_lh`): `C08Paths.t_dq_look_at` (trace),
`C08More.t_dq_look_at_xx`, `…_yy`, `…_zz`, `…_zz2` -/
def dqLookAtPaths (e c : P3 K) (u : V3 K) : List Prop := Cover.toQuatPaths (M3.lookToLh (c - e) u)
theorem dq_look_at_excl (e c : P3 K) (u : V3 K) : Excl (dqLookAtPaths e c u) := Cover.to_quat_excl _
/-- exhaustive (was: the `trace` path only) -/
theorem dq_look_at_cover (e c : P3 K) (u : V3 K) : AnyOf (dqLookAtPaths e c u) ↔ True := Cover.to_quat_cover _
/-- `Decomposed<_, Basis2>::look_at_lh`: `C08Paths.t_db2_look_at_lh` (no flip), `C08More.t_db2_look_at_lh_flip` -/
def db2LookAtLhPaths (e c : P2 K) (u : V2 K) : List Prop :=
  [ ¬ u.y * (c - e).x ≤ u.x * (c - e).y, u.y * (c - e).x ≤ u.x * (c - e).y ]
theorem db2_look_at_lh_excl (e c : P2 K) (u : V2 K) : Excl (db2LookAtLhPaths e c u) := by
  simp only [db2LookAtLhPaths, AnyOf, Excl]; tauto
/-- exhaustive (was: the no-flip side only) -/
theorem db2_look_at_lh_cover (e c : P2 K) (u : V2 K) : AnyOf (db2LookAtLhPaths e c u) ↔ True := by
  simp only [db2LookAtLhPaths, AnyOf, Excl]; tauto
/-- `Decomposed<_, Basis3>::inverse_transform_vector`: `C08Paths.t_db3_inverse_transform_vector` (`Some`),
`C08More.t_db3_inverse_transform_vector_none`, `C08More.t_db3_inverse_transform_vector_panic` -/
def db3InverseTransformVectorPaths (s : K) (q : Quat K) : List Prop := Cover2.db3InverseTransformPaths s q
theorem db3_inverse_transform_vector_excl (s : K) (q : Quat K) : Excl (db3InverseTransformVectorPaths s q) :=
  Cover2.db3_inverse_transform_excl s q
/-- exhaustive (was: `Some` only) -/
theorem db3_inverse_transform_vector_cover (s : K) (q : Quat K) : AnyOf (db3InverseTransformVectorPaths s q) ↔ True :=
  Cover2.db3_inverse_transform_cover s q
/-- `Decomposed<_, Basis2>::inverse_transform_vector`: `C08Paths.t_db2_inverse_transform_vector` (`Some`),
`C08More.t_db2_inverse_transform_vector_none` -/
def db2InverseTransformVectorPaths (s a : K) : List Prop := Cover2.db2InverseTransformPaths s a
theorem db2_inverse_transform_vector_excl (s a : K) : Excl (db2InverseTransformVectorPaths s a) :=
  Cover2.db2_inverse_transform_excl s a
/-- NOT exhaustive in general: the `unwrap` panic on a singular `from_angle` matrix stays untraced (as for
`inverse_transform`: `Cover2.db2InverseTransformUntraced`) … -/
theorem db2_inverse_transform_vector_cover (s a : K) :
    AnyOf (db2InverseTransformVectorPaths s a) ↔ ¬ AnyOf (Cover2.db2InverseTransformUntraced s a) :=
  Cover2.db2_inverse_transform_cover s a
/-- … it is infeasible, and the two paths exhaustive, as soon as `cos² + sin² = 1` at the angle: true of the real
functions and of the harness's shadow `sin`/`cos` (rational parametrisation of the circle), which is why no input
drives that path -/
theorem db2_inverse_transform_vector_cover_pythagoras (s a : K)
    (h : Transc.cos a * Transc.cos a + Transc.sin a * Transc.sin a = (1 : K)) :
    AnyOf (db2InverseTransformVectorPaths s a) ↔ True :=
  Cover2.db2_inverse_transform_cover_pythagoras s a h
end C08

/-! ## non-vacuity

The hypotheses of the conditional theorems are satisfiable and the new paths are inhabited: witnesses over `ℚ`
with toy parameters as in `Cover2.lean` (exact equality for the approximate comparisons, `tan = 1`, `π = 3`). -/
section Witness
local instance toyApprox : Approx ℚ :=
  ⟨fun a b _ => decide (a = b), fun a b _ _ => decide (a = b), fun a b _ _ => decide (a = b), 0, 0, 0⟩
open Classical in
/-- `sqrt` picks a rational root when there is one; `sin = 0`, `cos = 1`, `tan = 1`, the inverse functions `0` -/
noncomputable local instance toyTransc : Transc ℚ :=
  ⟨fun x => if h : ∃ r : ℚ, r * r = x then h.choose else 0, fun _ => 0, fun _ => 1, fun _ => 1, fun _ => 0, fun _ => 0,
   fun _ => 0, fun _ _ => 0⟩
local instance toyLits : Lits ℚ := ⟨9995 / 10000, 499 / 1000, 6, 1, 1, 1 / 1000000⟩

/-- the hypothesis of `from_arc_cover` -/
example : ulpsEqD (0 : ℚ) 0 = true := by simp [ulpsEqD, Approx.ulpsEq]
/-- the hypothesis of `v1_angle_cover_exact` -/
example : ∀ t : ℚ, Transc.sqrt (t * t) * Transc.sqrt (t * t) = t * t := by
  intro t
  have h : ∃ r : ℚ, r * r = t * t := ⟨t, rfl⟩
  simp only [Transc.sqrt, dif_pos h]
  exact h.choose_spec
/-- the hypotheses of `planar_cover_regular` / `planar_cover_tan` (`tan = 1 ≠ 0`) -/
example : ¬ tanZero (1 : ℚ) ∧ planarReg (1 : ℚ) 2 ∧ planarFin (1 : ℚ) 2 ∧ ((2 : ℚ) = 1 → absDiffEqD (2 : ℚ) 1 = true) := by
  simp [planarReg, planarFin, tanZero, Rad.tan, Transc.tan]
/-- the hypothesis of `db2_inverse_transform_vector_cover_pythagoras` -/
example : Transc.cos (0 : ℚ) * Transc.cos (0 : ℚ) + Transc.sin (0 : ℚ) * Transc.sin (0 : ℚ) = 1 := by
  simp [Transc.cos, Transc.sin]
/-- new paths are inhabited: `perspective` at `fovy = π` (toy `π = 3`), and with a negative aspect and `near ≤ 0` -/
example : nth (perspectivePaths (3 : ℚ) 1 1 2) 9 := by
  simp [perspectivePaths, Cover2.perspectivePaths, nth, Lits.radFull]; norm_num
example : nth (perspectivePaths (1 : ℚ) (-1) (-1) 2) 11 := by
  simp [perspectivePaths, Cover2.perspectivePaths, nth, Lits.radFull, absDiffEqD, Approx.absDiffEq]; norm_num
/-- `planar` at `fovy = -π`, at `fovy = π`, and with a negative aspect that is (exactly) zero-tested -/
example : nth (planarPaths (-3 : ℚ) 1 2 1 2) 12 := by
  simp [planarPaths, Cover2.planarPaths, nth, Lits.radFull]; norm_num
example : nth (planarPaths (3 : ℚ) 1 2 1 2) 13 := by
  simp [planarPaths, Cover2.planarPaths, nth, Lits.radFull]; norm_num
example : nth (planarPaths (1 : ℚ) (-1) 2 5 5) 15 := by
  simp [planarPaths, Cover2.planarPaths, nth, Lits.radFull, absDiffEqD, Approx.absDiffEq]; norm_num
/-- `from_arc`: the new path at `src = (0, 0, 1)`, `dst = -src` (`sqrt 1 = ±1`: either root makes the vectors opposite
or equal; the witness fixes the conditions that do not mention `sqrt`) -/
example : ulpsEqD (V3.cross V3.unitX (⟨0, 0, 1⟩ : V3 ℚ)).x 0 = true ∧
    ulpsEqD (V3.cross V3.unitX (⟨0, 0, 1⟩ : V3 ℚ)).y 0 = false := by
  simp [ulpsEqD, Approx.ulpsEq, V3.cross, V3.unitX]
end Witness

end Cg.Trace.Cover4
