import Cgm.Gen.C16
import Cgm.Lemmas.TraceIdx
/-!
# T obligations for C16: `Index<usize>` of vectors and points at every index, `Vector4::truncate_n` at every `n`

Each kernel was traced from the real function at the literal index in its name, on symbolic components; the
obligation says it is the model's function at that index for every vector: `Tr.ofPanic` reads the model's `none` as
the code's panic.  In range the second conjunct writes out the value the model returns; out of range (`_oob`) the
kernel is the bare panic and the model is `none`.
-/
set_option linter.unusedSectionVars false
set_option linter.unusedSimpArgs false
set_option linter.unusedVariables false
namespace Cg.Trace.C16Rest
open Cg Cg.Gen.C16
variable {K : Type} [Field K] [Transc K] [FRem K] [Lits K]

/-- unfold the kernel, the model's accessor at the literal index, and the flat lists -/
local macro "tr_ix" : tactic =>
  `(tactic| (simp [envL, Tr.okS, Tr.panicG, Tr.ofPanic, V1.get?, V2.get?, V3.get?, V4.get?, P1.get?, P2.get?, P3.get?,
      V4.truncateN?, V1.toList, V2.toList, V3.toList, V4.toList, P1.toList, P2.toList, P3.toList]))

theorem t_v1_index_0 (u : V1 K) :
    t_v1_index_0 (envL u.toList) = .ofPanic ((u.get? 0).map fun a => [a]) ∧ u.get? 0 = some u.x := by
  constructor <;> tr_ix

theorem t_v1_index_1_oob (u : V1 K) :
    t_v1_index_1_oob (envL u.toList) = .ofPanic ((u.get? 1).map fun a => [a]) ∧
      t_v1_index_1_oob (envL u.toList) = .panicG [] ∧ u.get? 1 = none := by
  refine ⟨?_, ?_, ?_⟩ <;> tr_ix

theorem t_v2_index_0 (u : V2 K) :
    t_v2_index_0 (envL u.toList) = .ofPanic ((u.get? 0).map fun a => [a]) ∧ u.get? 0 = some u.x := by
  constructor <;> tr_ix

theorem t_v2_index_1 (u : V2 K) :
    t_v2_index_1 (envL u.toList) = .ofPanic ((u.get? 1).map fun a => [a]) ∧ u.get? 1 = some u.y := by
  constructor <;> tr_ix

theorem t_v2_index_2_oob (u : V2 K) :
    t_v2_index_2_oob (envL u.toList) = .ofPanic ((u.get? 2).map fun a => [a]) ∧
      t_v2_index_2_oob (envL u.toList) = .panicG [] ∧ u.get? 2 = none := by
  refine ⟨?_, ?_, ?_⟩ <;> tr_ix

theorem t_v3_index_0 (u : V3 K) :
    t_v3_index_0 (envL u.toList) = .ofPanic ((u.get? 0).map fun a => [a]) ∧ u.get? 0 = some u.x := by
  constructor <;> tr_ix

theorem t_v3_index_1 (u : V3 K) :
    t_v3_index_1 (envL u.toList) = .ofPanic ((u.get? 1).map fun a => [a]) ∧ u.get? 1 = some u.y := by
  constructor <;> tr_ix

theorem t_v3_index_2 (u : V3 K) :
    t_v3_index_2 (envL u.toList) = .ofPanic ((u.get? 2).map fun a => [a]) ∧ u.get? 2 = some u.z := by
  constructor <;> tr_ix

theorem t_v3_index_3_oob (u : V3 K) :
    t_v3_index_3_oob (envL u.toList) = .ofPanic ((u.get? 3).map fun a => [a]) ∧
      t_v3_index_3_oob (envL u.toList) = .panicG [] ∧ u.get? 3 = none := by
  refine ⟨?_, ?_, ?_⟩ <;> tr_ix

theorem t_v4_index_0 (u : V4 K) :
    t_v4_index_0 (envL u.toList) = .ofPanic ((u.get? 0).map fun a => [a]) ∧ u.get? 0 = some u.x := by
  constructor <;> tr_ix

theorem t_v4_index_1 (u : V4 K) :
    t_v4_index_1 (envL u.toList) = .ofPanic ((u.get? 1).map fun a => [a]) ∧ u.get? 1 = some u.y := by
  constructor <;> tr_ix

theorem t_v4_index_2 (u : V4 K) :
    t_v4_index_2 (envL u.toList) = .ofPanic ((u.get? 2).map fun a => [a]) ∧ u.get? 2 = some u.z := by
  constructor <;> tr_ix

theorem t_v4_index_3 (u : V4 K) :
    t_v4_index_3 (envL u.toList) = .ofPanic ((u.get? 3).map fun a => [a]) ∧ u.get? 3 = some u.w := by
  constructor <;> tr_ix

theorem t_v4_index_4_oob (u : V4 K) :
    t_v4_index_4_oob (envL u.toList) = .ofPanic ((u.get? 4).map fun a => [a]) ∧
      t_v4_index_4_oob (envL u.toList) = .panicG [] ∧ u.get? 4 = none := by
  refine ⟨?_, ?_, ?_⟩ <;> tr_ix

theorem t_p1_index_0 (u : P1 K) :
    t_p1_index_0 (envL u.toList) = .ofPanic ((u.get? 0).map fun a => [a]) ∧ u.get? 0 = some u.x := by
  constructor <;> tr_ix

theorem t_p1_index_1_oob (u : P1 K) :
    t_p1_index_1_oob (envL u.toList) = .ofPanic ((u.get? 1).map fun a => [a]) ∧
      t_p1_index_1_oob (envL u.toList) = .panicG [] ∧ u.get? 1 = none := by
  refine ⟨?_, ?_, ?_⟩ <;> tr_ix

theorem t_p2_index_0 (u : P2 K) :
    t_p2_index_0 (envL u.toList) = .ofPanic ((u.get? 0).map fun a => [a]) ∧ u.get? 0 = some u.x := by
  constructor <;> tr_ix

theorem t_p2_index_1 (u : P2 K) :
    t_p2_index_1 (envL u.toList) = .ofPanic ((u.get? 1).map fun a => [a]) ∧ u.get? 1 = some u.y := by
  constructor <;> tr_ix

theorem t_p2_index_2_oob (u : P2 K) :
    t_p2_index_2_oob (envL u.toList) = .ofPanic ((u.get? 2).map fun a => [a]) ∧
      t_p2_index_2_oob (envL u.toList) = .panicG [] ∧ u.get? 2 = none := by
  refine ⟨?_, ?_, ?_⟩ <;> tr_ix

theorem t_p3_index_0 (u : P3 K) :
    t_p3_index_0 (envL u.toList) = .ofPanic ((u.get? 0).map fun a => [a]) ∧ u.get? 0 = some u.x := by
  constructor <;> tr_ix

theorem t_p3_index_1 (u : P3 K) :
    t_p3_index_1 (envL u.toList) = .ofPanic ((u.get? 1).map fun a => [a]) ∧ u.get? 1 = some u.y := by
  constructor <;> tr_ix

theorem t_p3_index_2 (u : P3 K) :
    t_p3_index_2 (envL u.toList) = .ofPanic ((u.get? 2).map fun a => [a]) ∧ u.get? 2 = some u.z := by
  constructor <;> tr_ix

theorem t_p3_index_3_oob (u : P3 K) :
    t_p3_index_3_oob (envL u.toList) = .ofPanic ((u.get? 3).map fun a => [a]) ∧
      t_p3_index_3_oob (envL u.toList) = .panicG [] ∧ u.get? 3 = none := by
  refine ⟨?_, ?_, ?_⟩ <;> tr_ix

theorem t_v4_truncate_n_0 (u : V4 K) :
    t_v4_truncate_n_0 (envL u.toList) = .ofPanic ((u.truncateN? 0).map V3.toList) ∧ u.truncateN? 0 = some ⟨u.y, u.z, u.w⟩ := by
  constructor <;> tr_ix

theorem t_v4_truncate_n_1 (u : V4 K) :
    t_v4_truncate_n_1 (envL u.toList) = .ofPanic ((u.truncateN? 1).map V3.toList) ∧ u.truncateN? 1 = some ⟨u.x, u.z, u.w⟩ := by
  constructor <;> tr_ix

theorem t_v4_truncate_n_2 (u : V4 K) :
    t_v4_truncate_n_2 (envL u.toList) = .ofPanic ((u.truncateN? 2).map V3.toList) ∧ u.truncateN? 2 = some ⟨u.x, u.y, u.w⟩ := by
  constructor <;> tr_ix

theorem t_v4_truncate_n_3 (u : V4 K) :
    t_v4_truncate_n_3 (envL u.toList) = .ofPanic ((u.truncateN? 3).map V3.toList) ∧ u.truncateN? 3 = some ⟨u.x, u.y, u.z⟩ := by
  constructor <;> tr_ix

theorem t_v4_truncate_n_4_oob (u : V4 K) :
    t_v4_truncate_n_4_oob (envL u.toList) = .ofPanic ((u.truncateN? 4).map V3.toList) ∧
      t_v4_truncate_n_4_oob (envL u.toList) = .panicG [] ∧ u.truncateN? 4 = none := by
  refine ⟨?_, ?_, ?_⟩ <;> tr_ix

end Cg.Trace.C16Rest
