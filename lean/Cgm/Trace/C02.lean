import Cgm.Gen.C02
/-!
# T obligations for C02: determinant and inverse as the code computes them, on every path
-/
set_option linter.unusedSectionVars false
namespace Cg.Trace.C02
open Cg Cg.Gen.C02
variable {K : Type} [Field K] [DecidableEq K] [Transc K] [FRem K] [Lits K]

theorem t_m2_det (a : M2 K) : t_m2_det (envL a.toList) = .okS [a.det] := by tr_auto
theorem t_m3_det (a : M3 K) : t_m3_det (envL a.toList) = .okS [a.det] := by tr_auto
theorem t_m4_det (a : M4 K) : t_m4_det (envL a.toList) = .okS [a.det] := by
  simp [envL, Tr.okS, M4.toList, V4.toList, M4.det, M4.detSubProc]
  tr_fin

/-- the only comparison `invert` makes is `det == 0`; on the path where it is false the result is
the model's `some` branch -/
theorem t_m2_invert_some (a : M2 K) (h : a.det ≠ 0) :
    t_m2_invert_some (envL a.toList) = .okG ((a.invert.map M2.toList).getD []) [.eq a.det 0 false] := by
  have h' : ¬ (a.x.x * a.y.y - a.y.x * a.x.y = 0) := by simpa using h
  simp [envL, Tr.okG, M2.toList, V2.toList, M2.invert, h']
  tr_fin
theorem t_m3_invert_some (a : M3 K) (h : a.det ≠ 0) :
    t_m3_invert_some (envL a.toList) = .okG ((a.invert.map M3.toList).getD []) [.eq a.det 0 false] := by
  have h' := h
  simp only [M3.det] at h'
  simp [envL, Tr.okG, M3.toList, V3.toList, M3.invert, h']
  tr_fin
theorem t_m2_invert_none (a : M2 K) : t_m2_invert_none (envL a.toList) = .noneG [.eq a.det 0 true] := by tr_auto
theorem t_m3_invert_none (a : M3 K) : t_m3_invert_none (envL a.toList) = .noneG [.eq a.det 0 true] := by tr_auto
theorem t_m4_invert_none (a : M4 K) : t_m4_invert_none (envL a.toList) = .noneG [.eq a.det 0 true] := by
  simp [envL, Tr.noneG, M4.toList, V4.toList, M4.det, M4.detSubProc]
  tr_fin
theorem t_m4_invert_some (a : M4 K) (h : a.det ≠ 0) :
    t_m4_invert_some (envL a.toList) = .okG ((a.invert.map M4.toList).getD []) [.eq a.det 0 false] := by
  have hi : a.invert = some (M4.new (M4.cf a.transpose (1 / a.det) 0 0) (M4.cf a.transpose (1 / a.det) 0 1)
      (M4.cf a.transpose (1 / a.det) 0 2) (M4.cf a.transpose (1 / a.det) 0 3)
      (M4.cf a.transpose (1 / a.det) 1 0) (M4.cf a.transpose (1 / a.det) 1 1)
      (M4.cf a.transpose (1 / a.det) 1 2) (M4.cf a.transpose (1 / a.det) 1 3)
      (M4.cf a.transpose (1 / a.det) 2 0) (M4.cf a.transpose (1 / a.det) 2 1)
      (M4.cf a.transpose (1 / a.det) 2 2) (M4.cf a.transpose (1 / a.det) 2 3)
      (M4.cf a.transpose (1 / a.det) 3 0) (M4.cf a.transpose (1 / a.det) 3 1)
      (M4.cf a.transpose (1 / a.det) 3 2) (M4.cf a.transpose (1 / a.det) 3 3)) := by
    simp only [M4.invert, if_neg h]
  rw [hi]
  simp [envL, Tr.okG, M4.toList, V4.toList, M4.cf, M4.det, M4.detSubProc]
  tr_fin
theorem t_m4_inverse_transform_vector_none (a : M4 K) (u : V3 K) :
    t_m4_inverse_transform_vector_none (envL (a.toList ++ u.toList)) = .noneG [.eq a.det 0 true] := by
  simp [envL, Tr.noneG, M4.toList, V4.toList, V3.toList, M4.det, M4.detSubProc]
  tr_fin
/-! `inverse_transform` of the matrix transforms is `invert`: one comparison, `det == 0` -/
theorem t_m3_inverse_transform2_some (a : M3 K) (h : a.det ≠ 0) :
    t_m3_inverse_transform2_some (envL a.toList) = .okG ((a.inverseTransform.map M3.toList).getD []) [.eq a.det 0 false] := by
  have h' := h
  simp only [M3.det] at h'
  simp [envL, Tr.okG, M3.toList, V3.toList, M3.inverseTransform, M3.invert, h']
  tr_fin
theorem t_m3_inverse_transform_some (a : M3 K) (h : a.det ≠ 0) :
    t_m3_inverse_transform_some (envL a.toList) = .okG ((a.inverseTransform.map M3.toList).getD []) [.eq a.det 0 false] := by
  have h' := h
  simp only [M3.det] at h'
  simp [envL, Tr.okG, M3.toList, V3.toList, M3.inverseTransform, M3.invert, h']
  tr_fin
theorem t_m4_inverse_transform_some (a : M4 K) (h : a.det ≠ 0) :
    t_m4_inverse_transform_some (envL a.toList) = .okG ((a.inverseTransform.map M4.toList).getD []) [.eq a.det 0 false] := by
  have hi : a.invert = some (M4.new (M4.cf a.transpose (1 / a.det) 0 0) (M4.cf a.transpose (1 / a.det) 0 1)
      (M4.cf a.transpose (1 / a.det) 0 2) (M4.cf a.transpose (1 / a.det) 0 3)
      (M4.cf a.transpose (1 / a.det) 1 0) (M4.cf a.transpose (1 / a.det) 1 1)
      (M4.cf a.transpose (1 / a.det) 1 2) (M4.cf a.transpose (1 / a.det) 1 3)
      (M4.cf a.transpose (1 / a.det) 2 0) (M4.cf a.transpose (1 / a.det) 2 1)
      (M4.cf a.transpose (1 / a.det) 2 2) (M4.cf a.transpose (1 / a.det) 2 3)
      (M4.cf a.transpose (1 / a.det) 3 0) (M4.cf a.transpose (1 / a.det) 3 1)
      (M4.cf a.transpose (1 / a.det) 3 2) (M4.cf a.transpose (1 / a.det) 3 3)) := by
    simp only [M4.invert, if_neg h]
  rw [M4.inverseTransform, hi]
  simp [envL, Tr.okG, M4.toList, V4.toList, M4.cf, M4.det, M4.detSubProc]
  tr_fin
theorem t_m3_inverse_transform_vector_some (a : M3 K) (u : V3 K) (h : a.det ≠ 0) :
    t_m3_inverse_transform_vector_some (envL (a.toList ++ u.toList)) =
      .okG (((a.inverseTransformVector u).map V3.toList).getD []) [.eq a.det 0 false] := by
  have h' := h
  simp only [M3.det] at h'
  simp [envL, Tr.okG, M3.toList, V3.toList, M3.inverseTransformVector, M3.inverseTransform, M3.invert, h']
  tr_fin
theorem t_m2_transpose (a : M2 K) : t_m2_transpose (envL a.toList) = .okS a.transpose.toList := by tr_auto
theorem t_m3_transpose (a : M3 K) : t_m3_transpose (envL a.toList) = .okS a.transpose.toList := by tr_auto
theorem t_m4_transpose (a : M4 K) : t_m4_transpose (envL a.toList) = .okS a.transpose.toList := by tr_auto
end Cg.Trace.C02
