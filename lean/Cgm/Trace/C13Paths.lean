import Cgm.Trace.C13
/-! # T obligations for C13, further paths: `bisect` in radians, `bisect` through negative remainders, the
zero-remainder (`Equal`) outcomes of the three-way comparisons -/
set_option linter.unusedSectionVars false
namespace Cg.Trace.C13Paths
open Cg Cg.Gen.C13
variable {K : Type} [Field K] [LinearOrder K] [Transc K] [FRem K] [Lits K]
attribute [local simp] radToDeg degToRad degFull Angle.turnDiv Angle.opposite

/-! `Rad::bisect` (as repaired): the difference does not wrap / wraps -/
theorem t_rad_bisect_near (a b : K) (h : 0 < FRem.frem (b - a) (Lits.radFull : K))
    (h2 : FRem.frem (b - a) Lits.radFull < (Lits.radFull : K) / 2)
    (h3 : 0 < FRem.frem (a + FRem.frem (b - a) Lits.radFull * (1 / 2)) (Lits.radFull : K)) :
    t_rad_bisect_near (envL [a, b]) =
      .okG [Angle.bisect Lits.radFull a b]
        [.cmp (FRem.frem (b - a) Lits.radFull) 0 .gt, .cmp (Lits.radFull / 2) (FRem.frem (b - a) Lits.radFull) .gt,
         .cmp (FRem.frem (a + FRem.frem (b - a) Lits.radFull * (1 / 2)) Lits.radFull) 0 .gt] := by
  simp only [one_div] at h3
  simp [Angle.bisect, Angle.normalizeSigned, Angle.normalize, not_lt.mpr h.le, not_lt.mpr h2.le, not_lt.mpr h3.le]; tr_auto
theorem t_rad_bisect_wrap (a b : K) (h : 0 < FRem.frem (b - a) (Lits.radFull : K))
    (h2 : (Lits.radFull : K) / 2 < FRem.frem (b - a) Lits.radFull)
    (h3 : 0 < FRem.frem (a + (FRem.frem (b - a) Lits.radFull - Lits.radFull) * (1 / 2)) (Lits.radFull : K)) :
    t_rad_bisect_wrap (envL [a, b]) =
      .okG [Angle.bisect Lits.radFull a b]
        [.cmp (FRem.frem (b - a) Lits.radFull) 0 .gt, .cmp (Lits.radFull / 2) (FRem.frem (b - a) Lits.radFull) .lt,
         .cmp (FRem.frem (a + (FRem.frem (b - a) Lits.radFull - Lits.radFull) * (1 / 2)) Lits.radFull) 0 .gt] := by
  simp only [one_div] at h3
  simp [Angle.bisect, Angle.normalizeSigned, Angle.normalize, not_lt.mpr h.le, h2, not_lt.mpr h3.le]; tr_auto

/-! `Deg::bisect` when `(other - self) % 360` is negative: it is lifted by a full turn before the half-turn test -/
theorem t_deg_bisect_neg_near (a b : K) (h : FRem.frem (b - a) (360 : K) < 0)
    (h2 : FRem.frem (b - a) 360 + 360 < (360 : K) / 2)
    (h3 : 0 < FRem.frem (a + (FRem.frem (b - a) 360 + 360) * (1 / 2)) (360 : K)) :
    t_deg_bisect_neg_near (envL [a, b]) =
      .okG [Angle.bisect degFull a b]
        [.cmp (FRem.frem (b - a) 360) 0 .lt, .cmp (360 / 2) (FRem.frem (b - a) 360 + 360) .gt,
         .cmp (FRem.frem (a + (FRem.frem (b - a) 360 + 360) * (1 / 2)) 360) 0 .gt] := by
  simp only [one_div] at h3
  simp [Angle.bisect, Angle.normalizeSigned, Angle.normalize, h, not_lt.mpr h2.le, not_lt.mpr h3.le]; tr_auto
theorem t_deg_bisect_neg_wrap (a b : K) (h : FRem.frem (b - a) (360 : K) < 0)
    (h2 : (360 : K) / 2 < FRem.frem (b - a) 360 + 360)
    (h3 : 0 < FRem.frem (a + (FRem.frem (b - a) 360 + 360 - 360) * (1 / 2)) (360 : K)) :
    t_deg_bisect_neg_wrap (envL [a, b]) =
      .okG [Angle.bisect degFull a b]
        [.cmp (FRem.frem (b - a) 360) 0 .lt, .cmp (360 / 2) (FRem.frem (b - a) 360 + 360) .lt,
         .cmp (FRem.frem (a + (FRem.frem (b - a) 360 + 360 - 360) * (1 / 2)) 360) 0 .gt] := by
  simp at h3
  simp [Angle.bisect, Angle.normalizeSigned, Angle.normalize, h, h2, not_lt.mpr h3.le]; tr_auto
/-- … and the final `normalize` sees a negative remainder too -/
theorem t_deg_bisect_neg_wrap_neg (a b : K) (h : FRem.frem (b - a) (360 : K) < 0)
    (h2 : (360 : K) / 2 < FRem.frem (b - a) 360 + 360)
    (h3 : FRem.frem (a + (FRem.frem (b - a) 360 + 360 - 360) * (1 / 2)) (360 : K) < 0) :
    t_deg_bisect_neg_wrap_neg (envL [a, b]) =
      .okG [Angle.bisect degFull a b]
        [.cmp (FRem.frem (b - a) 360) 0 .lt, .cmp (360 / 2) (FRem.frem (b - a) 360 + 360) .lt,
         .cmp (FRem.frem (a + (FRem.frem (b - a) 360 + 360 - 360) * (1 / 2)) 360) 0 .lt] := by
  simp at h3
  simp [Angle.bisect, Angle.normalizeSigned, Angle.normalize, h, h2, h3]; tr_auto
theorem t_deg_bisect_near_neg (a b : K) (h : 0 < FRem.frem (b - a) (360 : K)) (h2 : FRem.frem (b - a) 360 < (360 : K) / 2)
    (h3 : FRem.frem (a + FRem.frem (b - a) 360 * (1 / 2)) (360 : K) < 0) :
    t_deg_bisect_near_neg (envL [a, b]) =
      .okG [Angle.bisect degFull a b]
        [.cmp (FRem.frem (b - a) 360) 0 .gt, .cmp (360 / 2) (FRem.frem (b - a) 360) .gt,
         .cmp (FRem.frem (a + FRem.frem (b - a) 360 * (1 / 2)) 360) 0 .lt] := by
  simp only [one_div] at h3
  simp [Angle.bisect, Angle.normalizeSigned, Angle.normalize, not_lt.mpr h.le, not_lt.mpr h2.le, h3]; tr_auto
/-- equal directions: the first comparison is `Equal` -/
theorem t_deg_bisect_same (a b : K) (h : FRem.frem (b - a) (360 : K) = 0) (h2 : (0 : K) < 360 / 2)
    (h3 : 0 < FRem.frem (a + 0 * (1 / 2)) (360 : K)) :
    t_deg_bisect_same (envL [a, b]) =
      .okG [Angle.bisect degFull a b]
        [.cmp (FRem.frem (b - a) 360) 0 .eq, .cmp (360 / 2) (FRem.frem (b - a) 360) .gt,
         .cmp (FRem.frem (a + FRem.frem (b - a) 360 * (1 / 2)) 360) 0 .gt] := by
  simp only [one_div, zero_mul, add_zero] at h3
  simp [Angle.bisect, Angle.normalizeSigned, Angle.normalize, envL, Tr.okG, h, not_lt.mpr h2.le, not_lt.mpr h3.le]

/-! zero remainders -/
theorem t_rad_normalize_zero (a : K) (h : FRem.frem a (Lits.radFull : K) = 0) :
    t_rad_normalize_zero (envL [a]) = .okG [Angle.normalize Lits.radFull a] [.cmp (FRem.frem a Lits.radFull) 0 .eq] := by
  simp [Angle.normalize, envL, Tr.okG]; simp [h]
theorem t_deg_normalize_signed_zero (a : K) (h : FRem.frem a (360 : K) = 0) (h2 : (0 : K) < 360 / 2) :
    t_deg_normalize_signed_zero (envL [a]) =
      .okG [Angle.normalizeSigned degFull a] [.cmp (FRem.frem a 360) 0 .eq, .cmp (360 / 2) (FRem.frem a 360) .gt] := by
  simp [Angle.normalizeSigned, Angle.normalize, envL, Tr.okG, h, not_lt.mpr h2.le]
/-- exactly a half turn: `Equal` on the second comparison, the remainder is kept -/
theorem t_deg_normalize_signed_half (a : K) (h : 0 < FRem.frem a (360 : K)) (h2 : FRem.frem a 360 = (360 : K) / 2) :
    t_deg_normalize_signed_half (envL [a]) =
      .okG [Angle.normalizeSigned degFull a] [.cmp (FRem.frem a 360) 0 .gt, .cmp (360 / 2) (FRem.frem a 360) .eq] := by
  simp [Angle.normalizeSigned, Angle.normalize, envL, Tr.okG, not_lt.mpr h.le, not_lt.mpr h2.le]
theorem t_deg_opposite_zero (a : K) (h : FRem.frem (a + 360 / 2) (360 : K) = 0) :
    t_deg_opposite_zero (envL [a]) = .okG [Angle.opposite degFull a] [.cmp (FRem.frem (a + 360 / 2) 360) 0 .eq] := by
  simp [Angle.normalize, envL, Tr.okG]; simp [h]
end Cg.Trace.C13Paths
