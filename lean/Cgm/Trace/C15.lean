import Cgm.Gen.C15
import Cgm.Model.Rot
/-! # T obligations for C15: rotations between vectors, on the general and the parallel path -/
set_option linter.unusedSectionVars false
namespace Cg.Trace.C15
open Cg Cg.Gen.C15
variable {K : Type} [Field K] [LinearOrder K] [Approx K] [Transc K] [FRem K] [Lits K]
def eps52 : K := (1 : K) / (4503599627370496 : K)
attribute [local simp] Basis2.betweenVectors M2.fromAngle Quat.normalize Quat.normalizeTo Quat.magnitude eps52

/-- `Basis2::between_vectors` (as repaired): `from_angle(atan2(perp_dot, dot))`, no comparison -/
theorem t_b2_between_vectors (a b : V2 K) :
    t_b2_between_vectors (envL (a.toList ++ b.toList)) = .okS (Basis2.betweenVectors a b).mat.toList := by tr_auto

theorem t_q_between_vectors_general (a b : V3 K) (h1 : ulpsEqD (V3.dot a b) 1 = false)
    (h2 : ulpsEqD (V3.dot a b / Transc.sqrt (a.magnitude2 * b.magnitude2)) (-1) = false) :
    t_q_between_vectors_general (envL (a.toList ++ b.toList)) =
      .okG (Quat.betweenVectors a b).toList
        [.ulps (V3.dot a b) 1 eps52 4 false,
         .ulps (V3.dot a b / Transc.sqrt (a.magnitude2 * b.magnitude2)) (-1) eps52 4 false] := by
  simp only [Quat.betweenVectors, h1, h2]; tr_auto_nf
theorem t_q_between_vectors_same (a b : V3 K) (h1 : ulpsEqD (V3.dot a b) 1 = true) :
    t_q_between_vectors_same (envL (a.toList ++ b.toList)) =
      .okG (Quat.betweenVectors a b).toList [.ulps (V3.dot a b) 1 eps52 4 true] := by
  simp only [Quat.betweenVectors, h1]; tr_auto
theorem t_q_from_arc_general (a b : V3 K)
    (h1 : ulpsEqD (V3.dot a b) (Transc.sqrt (a.magnitude2 * b.magnitude2)) = false)
    (h2 : ulpsEqD (V3.dot a b) (-Transc.sqrt (a.magnitude2 * b.magnitude2)) = false) :
    t_q_from_arc_general (envL (a.toList ++ b.toList)) =
      .okG (Quat.fromArc a b none).toList
        [.ulps (V3.dot a b) (Transc.sqrt (a.magnitude2 * b.magnitude2)) eps52 4 false,
         .ulps (V3.dot a b) (-Transc.sqrt (a.magnitude2 * b.magnitude2)) eps52 4 false] := by
  simp only [Quat.fromArc, h1, h2]; tr_auto_nf
theorem t_q_from_arc_same (a b : V3 K)
    (h1 : ulpsEqD (V3.dot a b) (Transc.sqrt (a.magnitude2 * b.magnitude2)) = true) :
    t_q_from_arc_same (envL (a.toList ++ b.toList)) =
      .okG (Quat.fromArc a b none).toList
        [.ulps (V3.dot a b) (Transc.sqrt (a.magnitude2 * b.magnitude2)) eps52 4 true] := by
  simp only [Quat.fromArc, h1]; tr_auto_nf
end Cg.Trace.C15
