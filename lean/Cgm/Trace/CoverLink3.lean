import Cgm.Trace.Cover3
import Cgm.Trace.C13More
/-!
# The path conditions of `Cgm/Trace/Cover3.lean` are the hypotheses of the T obligations

As `CoverLink2.lean` does for `Cover2.lean`: for every path listed in `Cover3.lean` (old entries and new ones, so that this file
alone accounts for every entry of every list there), the path condition at that position implies the hypotheses of the cited
obligation of `Cgm/Trace/C13.lean` / `C13Paths.lean` / `C13More.lean` -- i.e. every input of the covered set of `…_cover` really is
in the scope of an obligation.  Each `example` has as its (inferred) statement the conclusion of that obligation.
(GENERATED together with `C13More.lean` from `lib/gen_c13more.py`.)
-/
set_option linter.unusedSectionVars false
set_option linter.unusedVariables false
namespace Cg.Trace.CoverLink3
open Cg Cg.Trace.Cover Cg.Trace.Cover2

section
variable {K : Type} [Field K] [LinearOrder K] [Transc K] [FRem K] [Lits K]

/-! `Deg::normalize_signed` -/
example (a : K) (h : nth (Cover3.degNormalizeSignedPaths a) 0) := C13.t_deg_normalize_signed_hi a h.1 h.2
example (a : K) (h : nth (Cover3.degNormalizeSignedPaths a) 1) := C13.t_deg_normalize_signed_lo a h.1 h.2
example (a : K) (h : nth (Cover3.degNormalizeSignedPaths a) 2) := C13.t_deg_normalize_signed_neg_hi a h.1 h.2
example (a : K) (h : nth (Cover3.degNormalizeSignedPaths a) 3) := C13.t_deg_normalize_signed_neg_lo a h.1 h.2
example (a : K) (h : nth (Cover3.degNormalizeSignedPaths a) 4) := C13Paths.t_deg_normalize_signed_zero a h.1 h.2
example (a : K) (h : nth (Cover3.degNormalizeSignedPaths a) 5) := C13Paths.t_deg_normalize_signed_half a h.1 h.2
example (a : K) (h : nth (Cover3.degNormalizeSignedPaths a) 6) := C13More.t_deg_normalize_signed_neg_half a h.1 h.2
/-! `Rad::normalize_signed` -/
example (a : K) (h : nth (Cover3.radNormalizeSignedPaths a) 0) := C13.t_rad_normalize_signed_hi a h.1 h.2
example (a : K) (h : nth (Cover3.radNormalizeSignedPaths a) 1) := C13.t_rad_normalize_signed_lo a h.1 h.2
example (a : K) (h : nth (Cover3.radNormalizeSignedPaths a) 2) := C13More.t_rad_normalize_signed_neg_hi a h.1 h.2
example (a : K) (h : nth (Cover3.radNormalizeSignedPaths a) 3) := C13More.t_rad_normalize_signed_neg_lo a h.1 h.2
example (a : K) (h : nth (Cover3.radNormalizeSignedPaths a) 4) := C13More.t_rad_normalize_signed_zero a h.1 h.2
example (a : K) (h : nth (Cover3.radNormalizeSignedPaths a) 5) := C13More.t_rad_normalize_signed_half a h.1 h.2
example (a : K) (h : nth (Cover3.radNormalizeSignedPaths a) 6) := C13More.t_rad_normalize_signed_neg_half a h.1 h.2
/-! `Deg::opposite` -/
example (a : K) (h : nth (Cover3.degOppositePaths a) 0) := C13.t_deg_opposite a h
example (a : K) (h : nth (Cover3.degOppositePaths a) 1) := C13.t_deg_opposite_neg a h
example (a : K) (h : nth (Cover3.degOppositePaths a) 2) := C13Paths.t_deg_opposite_zero a h
/-! `Rad::opposite` -/
example (a : K) (h : nth (Cover3.radOppositePaths a) 0) := C13.t_rad_opposite a h
example (a : K) (h : nth (Cover3.radOppositePaths a) 1) := C13More.t_rad_opposite_neg a h
example (a : K) (h : nth (Cover3.radOppositePaths a) 2) := C13More.t_rad_opposite_zero a h
/-! `Deg::bisect` -/
example (a b : K) (h : nth (Cover3.degBisectPaths a b) 0) := C13.t_deg_bisect_near a b h.1 h.2.1 h.2.2
example (a b : K) (h : nth (Cover3.degBisectPaths a b) 1) := C13.t_deg_bisect_wrap a b h.1 h.2.1 h.2.2
example (a b : K) (h : nth (Cover3.degBisectPaths a b) 2) := C13Paths.t_deg_bisect_neg_near a b h.1 h.2.1 h.2.2
example (a b : K) (h : nth (Cover3.degBisectPaths a b) 3) := C13Paths.t_deg_bisect_neg_wrap a b h.1 h.2.1 h.2.2
example (a b : K) (h : nth (Cover3.degBisectPaths a b) 4) := C13Paths.t_deg_bisect_neg_wrap_neg a b h.1 h.2.1 h.2.2
example (a b : K) (h : nth (Cover3.degBisectPaths a b) 5) := C13Paths.t_deg_bisect_near_neg a b h.1 h.2.1 h.2.2
example (a b : K) (h : nth (Cover3.degBisectPaths a b) 6) := C13Paths.t_deg_bisect_same a b h.1 h.2.1 h.2.2
example (a b : K) (h : nth (Cover3.degBisectPaths a b) 7) := C13More.t_deg_bisect_near_zero a b h.1 h.2.1 h.2.2
example (a b : K) (h : nth (Cover3.degBisectPaths a b) 8) := C13More.t_deg_bisect_wrap_neg a b h.1 h.2.1 h.2.2
example (a b : K) (h : nth (Cover3.degBisectPaths a b) 9) := C13More.t_deg_bisect_wrap_zero a b h.1 h.2.1 h.2.2
example (a b : K) (h : nth (Cover3.degBisectPaths a b) 10) := C13More.t_deg_bisect_half a b h.1 h.2.1 h.2.2
example (a b : K) (h : nth (Cover3.degBisectPaths a b) 11) := C13More.t_deg_bisect_half_neg a b h.1 h.2.1 h.2.2
example (a b : K) (h : nth (Cover3.degBisectPaths a b) 12) := C13More.t_deg_bisect_half_zero a b h.1 h.2.1 h.2.2
example (a b : K) (h : nth (Cover3.degBisectPaths a b) 13) := C13More.t_deg_bisect_neg_near_neg a b h.1 h.2.1 h.2.2
example (a b : K) (h : nth (Cover3.degBisectPaths a b) 14) := C13More.t_deg_bisect_neg_near_zero a b h.1 h.2.1 h.2.2
example (a b : K) (h : nth (Cover3.degBisectPaths a b) 15) := C13More.t_deg_bisect_neg_wrap_zero a b h.1 h.2.1 h.2.2
example (a b : K) (h : nth (Cover3.degBisectPaths a b) 16) := C13More.t_deg_bisect_neg_half a b h.1 h.2.1 h.2.2
example (a b : K) (h : nth (Cover3.degBisectPaths a b) 17) := C13More.t_deg_bisect_neg_half_neg a b h.1 h.2.1 h.2.2
example (a b : K) (h : nth (Cover3.degBisectPaths a b) 18) := C13More.t_deg_bisect_neg_half_zero a b h.1 h.2.1 h.2.2
example (a b : K) (h : nth (Cover3.degBisectPaths a b) 19) := C13More.t_deg_bisect_same_neg a b h.1 h.2.1 h.2.2
example (a b : K) (h : nth (Cover3.degBisectPaths a b) 20) := C13More.t_deg_bisect_same_zero a b h.1 h.2.1 h.2.2
/-! `Rad::bisect` -/
example (a b : K) (h : nth (Cover3.radBisectPaths a b) 0) := C13Paths.t_rad_bisect_near a b h.1 h.2.1 h.2.2
example (a b : K) (h : nth (Cover3.radBisectPaths a b) 1) := C13Paths.t_rad_bisect_wrap a b h.1 h.2.1 h.2.2
example (a b : K) (h : nth (Cover3.radBisectPaths a b) 2) := C13More.t_rad_bisect_neg_near a b h.1 h.2.1 h.2.2
example (a b : K) (h : nth (Cover3.radBisectPaths a b) 3) := C13More.t_rad_bisect_neg_wrap a b h.1 h.2.1 h.2.2
example (a b : K) (h : nth (Cover3.radBisectPaths a b) 4) := C13More.t_rad_bisect_neg_wrap_neg a b h.1 h.2.1 h.2.2
example (a b : K) (h : nth (Cover3.radBisectPaths a b) 5) := C13More.t_rad_bisect_near_neg a b h.1 h.2.1 h.2.2
example (a b : K) (h : nth (Cover3.radBisectPaths a b) 6) := C13More.t_rad_bisect_same a b h.1 h.2.1 h.2.2
example (a b : K) (h : nth (Cover3.radBisectPaths a b) 7) := C13More.t_rad_bisect_near_zero a b h.1 h.2.1 h.2.2
example (a b : K) (h : nth (Cover3.radBisectPaths a b) 8) := C13More.t_rad_bisect_wrap_neg a b h.1 h.2.1 h.2.2
example (a b : K) (h : nth (Cover3.radBisectPaths a b) 9) := C13More.t_rad_bisect_wrap_zero a b h.1 h.2.1 h.2.2
example (a b : K) (h : nth (Cover3.radBisectPaths a b) 10) := C13More.t_rad_bisect_half a b h.1 h.2.1 h.2.2
example (a b : K) (h : nth (Cover3.radBisectPaths a b) 11) := C13More.t_rad_bisect_half_neg a b h.1 h.2.1 h.2.2
example (a b : K) (h : nth (Cover3.radBisectPaths a b) 12) := C13More.t_rad_bisect_half_zero a b h.1 h.2.1 h.2.2
example (a b : K) (h : nth (Cover3.radBisectPaths a b) 13) := C13More.t_rad_bisect_neg_near_neg a b h.1 h.2.1 h.2.2
example (a b : K) (h : nth (Cover3.radBisectPaths a b) 14) := C13More.t_rad_bisect_neg_near_zero a b h.1 h.2.1 h.2.2
example (a b : K) (h : nth (Cover3.radBisectPaths a b) 15) := C13More.t_rad_bisect_neg_wrap_zero a b h.1 h.2.1 h.2.2
example (a b : K) (h : nth (Cover3.radBisectPaths a b) 16) := C13More.t_rad_bisect_neg_half a b h.1 h.2.1 h.2.2
example (a b : K) (h : nth (Cover3.radBisectPaths a b) 17) := C13More.t_rad_bisect_neg_half_neg a b h.1 h.2.1 h.2.2
example (a b : K) (h : nth (Cover3.radBisectPaths a b) 18) := C13More.t_rad_bisect_neg_half_zero a b h.1 h.2.1 h.2.2
example (a b : K) (h : nth (Cover3.radBisectPaths a b) 19) := C13More.t_rad_bisect_same_neg a b h.1 h.2.1 h.2.2
example (a b : K) (h : nth (Cover3.radBisectPaths a b) 20) := C13More.t_rad_bisect_same_zero a b h.1 h.2.1 h.2.2
end
end Cg.Trace.CoverLink3
