import Cgm.Gen.C18
import Cgm.Trace.C18Rest
import Cgm.Model.Book4
/-!
# T obligations for C18: the three approx relations of vectors, points, the quaternion and the angles, explicit tolerances

GENERATED once by `tools/gen_ops_obl.py` from the kernel table `lib/cgv/tracetab_ops.py`; kept as an ordinary source file.

Each kernel was traced from the real `abs_diff_eq` / `relative_eq` / `ulps_eq` of the type at the recording scalar, whose own
relations record ONE comparison each (`G.absDiff a b eps r`, `G.rel a b eps max_rel r`, `G.ulps a b eps max_ulps r`).  The
`&&` chain over the components short-circuits: `_true` is the path on which every component pair is within tolerance,
`_false_k` the path on which the pairs `0 .. k-1` (flattening order) are and pair `k` is not.  Each obligation says: under
that path condition the kernel returns the model's boolean (`Book4.lean`) after exactly the comparisons listed -- the
component pairs in order, every one with the tolerance ARGUMENTS the call was given -- with the outcomes recorded, and
writes out the boolean.  `max_ulps` is a literal of the traced kernel (`4`).
-/
set_option linter.unusedSectionVars false
set_option linter.unusedSimpArgs false
set_option linter.unusedVariables false
namespace Cg.Trace.C18Ops
open Cg Cg.Gen.C18 Cg.Trace.C18Rest
variable {K : Type} [Field K] [LinearOrder K] [Approx K] [Transc K] [FRem K] [Lits K]

/-! ## `v1` -/
theorem t_v1_abs_diff_eq_true (a b : V1 K) (e : K) (h0 : Approx.absDiffEq a.x b.x e = true) :
    t_v1_abs_diff_eq_true (envL (a.toList ++ b.toList ++ [e])) =
      okB (V1.absDiffEq a b e) [.absDiff a.x b.x e true] ∧
      V1.absDiffEq a b e = true := by
  constructor <;> simp [V1.absDiffEq, V1.toList, okB, eps52, envL, *]

theorem t_v1_abs_diff_eq_false_0 (a b : V1 K) (e : K) (h0 : Approx.absDiffEq a.x b.x e = false) :
    t_v1_abs_diff_eq_false_0 (envL (a.toList ++ b.toList ++ [e])) =
      okB (V1.absDiffEq a b e) [.absDiff a.x b.x e false] ∧
      V1.absDiffEq a b e = false := by
  constructor <;> simp [V1.absDiffEq, V1.toList, okB, eps52, envL, *]

theorem t_v1_relative_eq_true (a b : V1 K) (e m : K) (h0 : Approx.relEq a.x b.x e m = true) :
    t_v1_relative_eq_true (envL (a.toList ++ b.toList ++ [e, m])) =
      okB (V1.relEq a b e m) [.rel a.x b.x e m true] ∧
      V1.relEq a b e m = true := by
  constructor <;> simp [V1.relEq, V1.toList, okB, eps52, envL, *]

theorem t_v1_relative_eq_false_0 (a b : V1 K) (e m : K) (h0 : Approx.relEq a.x b.x e m = false) :
    t_v1_relative_eq_false_0 (envL (a.toList ++ b.toList ++ [e, m])) =
      okB (V1.relEq a b e m) [.rel a.x b.x e m false] ∧
      V1.relEq a b e m = false := by
  constructor <;> simp [V1.relEq, V1.toList, okB, eps52, envL, *]

theorem t_v1_ulps_eq_true (a b : V1 K) (e : K) (h0 : Approx.ulpsEq a.x b.x e 4 = true) :
    t_v1_ulps_eq_true (envL (a.toList ++ b.toList ++ [e])) =
      okB (V1.ulpsEq a b e 4) [.ulps a.x b.x e 4 true] ∧
      V1.ulpsEq a b e 4 = true := by
  constructor <;> simp [V1.ulpsEq, V1.toList, okB, eps52, envL, *]

theorem t_v1_ulps_eq_false_0 (a b : V1 K) (e : K) (h0 : Approx.ulpsEq a.x b.x e 4 = false) :
    t_v1_ulps_eq_false_0 (envL (a.toList ++ b.toList ++ [e])) =
      okB (V1.ulpsEq a b e 4) [.ulps a.x b.x e 4 false] ∧
      V1.ulpsEq a b e 4 = false := by
  constructor <;> simp [V1.ulpsEq, V1.toList, okB, eps52, envL, *]

/-! ## `v2` -/
theorem t_v2_abs_diff_eq_true (a b : V2 K) (e : K) (h0 : Approx.absDiffEq a.x b.x e = true) (h1 : Approx.absDiffEq a.y b.y e = true) :
    t_v2_abs_diff_eq_true (envL (a.toList ++ b.toList ++ [e])) =
      okB (V2.absDiffEq a b e) [.absDiff a.x b.x e true, .absDiff a.y b.y e true] ∧
      V2.absDiffEq a b e = true := by
  constructor <;> simp [V2.absDiffEq, V2.toList, okB, eps52, envL, *]

theorem t_v2_abs_diff_eq_false_0 (a b : V2 K) (e : K) (h0 : Approx.absDiffEq a.x b.x e = false) :
    t_v2_abs_diff_eq_false_0 (envL (a.toList ++ b.toList ++ [e])) =
      okB (V2.absDiffEq a b e) [.absDiff a.x b.x e false] ∧
      V2.absDiffEq a b e = false := by
  constructor <;> simp [V2.absDiffEq, V2.toList, okB, eps52, envL, *]

theorem t_v2_abs_diff_eq_false_1 (a b : V2 K) (e : K) (h0 : Approx.absDiffEq a.x b.x e = true) (h1 : Approx.absDiffEq a.y b.y e = false) :
    t_v2_abs_diff_eq_false_1 (envL (a.toList ++ b.toList ++ [e])) =
      okB (V2.absDiffEq a b e) [.absDiff a.x b.x e true, .absDiff a.y b.y e false] ∧
      V2.absDiffEq a b e = false := by
  constructor <;> simp [V2.absDiffEq, V2.toList, okB, eps52, envL, *]

theorem t_v2_relative_eq_true (a b : V2 K) (e m : K) (h0 : Approx.relEq a.x b.x e m = true) (h1 : Approx.relEq a.y b.y e m = true) :
    t_v2_relative_eq_true (envL (a.toList ++ b.toList ++ [e, m])) =
      okB (V2.relEq a b e m) [.rel a.x b.x e m true, .rel a.y b.y e m true] ∧
      V2.relEq a b e m = true := by
  constructor <;> simp [V2.relEq, V2.toList, okB, eps52, envL, *]

theorem t_v2_relative_eq_false_0 (a b : V2 K) (e m : K) (h0 : Approx.relEq a.x b.x e m = false) :
    t_v2_relative_eq_false_0 (envL (a.toList ++ b.toList ++ [e, m])) =
      okB (V2.relEq a b e m) [.rel a.x b.x e m false] ∧
      V2.relEq a b e m = false := by
  constructor <;> simp [V2.relEq, V2.toList, okB, eps52, envL, *]

theorem t_v2_relative_eq_false_1 (a b : V2 K) (e m : K) (h0 : Approx.relEq a.x b.x e m = true) (h1 : Approx.relEq a.y b.y e m = false) :
    t_v2_relative_eq_false_1 (envL (a.toList ++ b.toList ++ [e, m])) =
      okB (V2.relEq a b e m) [.rel a.x b.x e m true, .rel a.y b.y e m false] ∧
      V2.relEq a b e m = false := by
  constructor <;> simp [V2.relEq, V2.toList, okB, eps52, envL, *]

theorem t_v2_ulps_eq_true (a b : V2 K) (e : K) (h0 : Approx.ulpsEq a.x b.x e 4 = true) (h1 : Approx.ulpsEq a.y b.y e 4 = true) :
    t_v2_ulps_eq_true (envL (a.toList ++ b.toList ++ [e])) =
      okB (V2.ulpsEq a b e 4) [.ulps a.x b.x e 4 true, .ulps a.y b.y e 4 true] ∧
      V2.ulpsEq a b e 4 = true := by
  constructor <;> simp [V2.ulpsEq, V2.toList, okB, eps52, envL, *]

theorem t_v2_ulps_eq_false_0 (a b : V2 K) (e : K) (h0 : Approx.ulpsEq a.x b.x e 4 = false) :
    t_v2_ulps_eq_false_0 (envL (a.toList ++ b.toList ++ [e])) =
      okB (V2.ulpsEq a b e 4) [.ulps a.x b.x e 4 false] ∧
      V2.ulpsEq a b e 4 = false := by
  constructor <;> simp [V2.ulpsEq, V2.toList, okB, eps52, envL, *]

theorem t_v2_ulps_eq_false_1 (a b : V2 K) (e : K) (h0 : Approx.ulpsEq a.x b.x e 4 = true) (h1 : Approx.ulpsEq a.y b.y e 4 = false) :
    t_v2_ulps_eq_false_1 (envL (a.toList ++ b.toList ++ [e])) =
      okB (V2.ulpsEq a b e 4) [.ulps a.x b.x e 4 true, .ulps a.y b.y e 4 false] ∧
      V2.ulpsEq a b e 4 = false := by
  constructor <;> simp [V2.ulpsEq, V2.toList, okB, eps52, envL, *]

/-! ## `v3` -/
theorem t_v3_abs_diff_eq_true (a b : V3 K) (e : K) (h0 : Approx.absDiffEq a.x b.x e = true) (h1 : Approx.absDiffEq a.y b.y e = true) (h2 : Approx.absDiffEq a.z b.z e = true) :
    t_v3_abs_diff_eq_true (envL (a.toList ++ b.toList ++ [e])) =
      okB (V3.absDiffEq a b e) [.absDiff a.x b.x e true, .absDiff a.y b.y e true, .absDiff a.z b.z e true] ∧
      V3.absDiffEq a b e = true := by
  constructor <;> simp [V3.absDiffEq, V3.toList, okB, eps52, envL, *]

theorem t_v3_abs_diff_eq_false_0 (a b : V3 K) (e : K) (h0 : Approx.absDiffEq a.x b.x e = false) :
    t_v3_abs_diff_eq_false_0 (envL (a.toList ++ b.toList ++ [e])) =
      okB (V3.absDiffEq a b e) [.absDiff a.x b.x e false] ∧
      V3.absDiffEq a b e = false := by
  constructor <;> simp [V3.absDiffEq, V3.toList, okB, eps52, envL, *]

theorem t_v3_abs_diff_eq_false_1 (a b : V3 K) (e : K) (h0 : Approx.absDiffEq a.x b.x e = true) (h1 : Approx.absDiffEq a.y b.y e = false) :
    t_v3_abs_diff_eq_false_1 (envL (a.toList ++ b.toList ++ [e])) =
      okB (V3.absDiffEq a b e) [.absDiff a.x b.x e true, .absDiff a.y b.y e false] ∧
      V3.absDiffEq a b e = false := by
  constructor <;> simp [V3.absDiffEq, V3.toList, okB, eps52, envL, *]

theorem t_v3_abs_diff_eq_false_2 (a b : V3 K) (e : K) (h0 : Approx.absDiffEq a.x b.x e = true) (h1 : Approx.absDiffEq a.y b.y e = true) (h2 : Approx.absDiffEq a.z b.z e = false) :
    t_v3_abs_diff_eq_false_2 (envL (a.toList ++ b.toList ++ [e])) =
      okB (V3.absDiffEq a b e) [.absDiff a.x b.x e true, .absDiff a.y b.y e true, .absDiff a.z b.z e false] ∧
      V3.absDiffEq a b e = false := by
  constructor <;> simp [V3.absDiffEq, V3.toList, okB, eps52, envL, *]

theorem t_v3_relative_eq_true (a b : V3 K) (e m : K) (h0 : Approx.relEq a.x b.x e m = true) (h1 : Approx.relEq a.y b.y e m = true) (h2 : Approx.relEq a.z b.z e m = true) :
    t_v3_relative_eq_true (envL (a.toList ++ b.toList ++ [e, m])) =
      okB (V3.relEq a b e m) [.rel a.x b.x e m true, .rel a.y b.y e m true, .rel a.z b.z e m true] ∧
      V3.relEq a b e m = true := by
  constructor <;> simp [V3.relEq, V3.toList, okB, eps52, envL, *]

theorem t_v3_relative_eq_false_0 (a b : V3 K) (e m : K) (h0 : Approx.relEq a.x b.x e m = false) :
    t_v3_relative_eq_false_0 (envL (a.toList ++ b.toList ++ [e, m])) =
      okB (V3.relEq a b e m) [.rel a.x b.x e m false] ∧
      V3.relEq a b e m = false := by
  constructor <;> simp [V3.relEq, V3.toList, okB, eps52, envL, *]

theorem t_v3_relative_eq_false_1 (a b : V3 K) (e m : K) (h0 : Approx.relEq a.x b.x e m = true) (h1 : Approx.relEq a.y b.y e m = false) :
    t_v3_relative_eq_false_1 (envL (a.toList ++ b.toList ++ [e, m])) =
      okB (V3.relEq a b e m) [.rel a.x b.x e m true, .rel a.y b.y e m false] ∧
      V3.relEq a b e m = false := by
  constructor <;> simp [V3.relEq, V3.toList, okB, eps52, envL, *]

theorem t_v3_relative_eq_false_2 (a b : V3 K) (e m : K) (h0 : Approx.relEq a.x b.x e m = true) (h1 : Approx.relEq a.y b.y e m = true) (h2 : Approx.relEq a.z b.z e m = false) :
    t_v3_relative_eq_false_2 (envL (a.toList ++ b.toList ++ [e, m])) =
      okB (V3.relEq a b e m) [.rel a.x b.x e m true, .rel a.y b.y e m true, .rel a.z b.z e m false] ∧
      V3.relEq a b e m = false := by
  constructor <;> simp [V3.relEq, V3.toList, okB, eps52, envL, *]

theorem t_v3_ulps_eq_true (a b : V3 K) (e : K) (h0 : Approx.ulpsEq a.x b.x e 4 = true) (h1 : Approx.ulpsEq a.y b.y e 4 = true) (h2 : Approx.ulpsEq a.z b.z e 4 = true) :
    t_v3_ulps_eq_true (envL (a.toList ++ b.toList ++ [e])) =
      okB (V3.ulpsEq a b e 4) [.ulps a.x b.x e 4 true, .ulps a.y b.y e 4 true, .ulps a.z b.z e 4 true] ∧
      V3.ulpsEq a b e 4 = true := by
  constructor <;> simp [V3.ulpsEq, V3.toList, okB, eps52, envL, *]

theorem t_v3_ulps_eq_false_0 (a b : V3 K) (e : K) (h0 : Approx.ulpsEq a.x b.x e 4 = false) :
    t_v3_ulps_eq_false_0 (envL (a.toList ++ b.toList ++ [e])) =
      okB (V3.ulpsEq a b e 4) [.ulps a.x b.x e 4 false] ∧
      V3.ulpsEq a b e 4 = false := by
  constructor <;> simp [V3.ulpsEq, V3.toList, okB, eps52, envL, *]

theorem t_v3_ulps_eq_false_1 (a b : V3 K) (e : K) (h0 : Approx.ulpsEq a.x b.x e 4 = true) (h1 : Approx.ulpsEq a.y b.y e 4 = false) :
    t_v3_ulps_eq_false_1 (envL (a.toList ++ b.toList ++ [e])) =
      okB (V3.ulpsEq a b e 4) [.ulps a.x b.x e 4 true, .ulps a.y b.y e 4 false] ∧
      V3.ulpsEq a b e 4 = false := by
  constructor <;> simp [V3.ulpsEq, V3.toList, okB, eps52, envL, *]

theorem t_v3_ulps_eq_false_2 (a b : V3 K) (e : K) (h0 : Approx.ulpsEq a.x b.x e 4 = true) (h1 : Approx.ulpsEq a.y b.y e 4 = true) (h2 : Approx.ulpsEq a.z b.z e 4 = false) :
    t_v3_ulps_eq_false_2 (envL (a.toList ++ b.toList ++ [e])) =
      okB (V3.ulpsEq a b e 4) [.ulps a.x b.x e 4 true, .ulps a.y b.y e 4 true, .ulps a.z b.z e 4 false] ∧
      V3.ulpsEq a b e 4 = false := by
  constructor <;> simp [V3.ulpsEq, V3.toList, okB, eps52, envL, *]

/-! ## `v4` -/
theorem t_v4_abs_diff_eq_true (a b : V4 K) (e : K) (h0 : Approx.absDiffEq a.x b.x e = true) (h1 : Approx.absDiffEq a.y b.y e = true) (h2 : Approx.absDiffEq a.z b.z e = true) (h3 : Approx.absDiffEq a.w b.w e = true) :
    t_v4_abs_diff_eq_true (envL (a.toList ++ b.toList ++ [e])) =
      okB (V4.absDiffEq a b e) [.absDiff a.x b.x e true, .absDiff a.y b.y e true, .absDiff a.z b.z e true, .absDiff a.w b.w e true] ∧
      V4.absDiffEq a b e = true := by
  constructor <;> simp [V4.absDiffEq, V4.toList, okB, eps52, envL, *]

theorem t_v4_abs_diff_eq_false_0 (a b : V4 K) (e : K) (h0 : Approx.absDiffEq a.x b.x e = false) :
    t_v4_abs_diff_eq_false_0 (envL (a.toList ++ b.toList ++ [e])) =
      okB (V4.absDiffEq a b e) [.absDiff a.x b.x e false] ∧
      V4.absDiffEq a b e = false := by
  constructor <;> simp [V4.absDiffEq, V4.toList, okB, eps52, envL, *]

theorem t_v4_abs_diff_eq_false_1 (a b : V4 K) (e : K) (h0 : Approx.absDiffEq a.x b.x e = true) (h1 : Approx.absDiffEq a.y b.y e = false) :
    t_v4_abs_diff_eq_false_1 (envL (a.toList ++ b.toList ++ [e])) =
      okB (V4.absDiffEq a b e) [.absDiff a.x b.x e true, .absDiff a.y b.y e false] ∧
      V4.absDiffEq a b e = false := by
  constructor <;> simp [V4.absDiffEq, V4.toList, okB, eps52, envL, *]

theorem t_v4_abs_diff_eq_false_2 (a b : V4 K) (e : K) (h0 : Approx.absDiffEq a.x b.x e = true) (h1 : Approx.absDiffEq a.y b.y e = true) (h2 : Approx.absDiffEq a.z b.z e = false) :
    t_v4_abs_diff_eq_false_2 (envL (a.toList ++ b.toList ++ [e])) =
      okB (V4.absDiffEq a b e) [.absDiff a.x b.x e true, .absDiff a.y b.y e true, .absDiff a.z b.z e false] ∧
      V4.absDiffEq a b e = false := by
  constructor <;> simp [V4.absDiffEq, V4.toList, okB, eps52, envL, *]

theorem t_v4_abs_diff_eq_false_3 (a b : V4 K) (e : K) (h0 : Approx.absDiffEq a.x b.x e = true) (h1 : Approx.absDiffEq a.y b.y e = true) (h2 : Approx.absDiffEq a.z b.z e = true) (h3 : Approx.absDiffEq a.w b.w e = false) :
    t_v4_abs_diff_eq_false_3 (envL (a.toList ++ b.toList ++ [e])) =
      okB (V4.absDiffEq a b e) [.absDiff a.x b.x e true, .absDiff a.y b.y e true, .absDiff a.z b.z e true, .absDiff a.w b.w e false] ∧
      V4.absDiffEq a b e = false := by
  constructor <;> simp [V4.absDiffEq, V4.toList, okB, eps52, envL, *]

theorem t_v4_relative_eq_true (a b : V4 K) (e m : K) (h0 : Approx.relEq a.x b.x e m = true) (h1 : Approx.relEq a.y b.y e m = true) (h2 : Approx.relEq a.z b.z e m = true) (h3 : Approx.relEq a.w b.w e m = true) :
    t_v4_relative_eq_true (envL (a.toList ++ b.toList ++ [e, m])) =
      okB (V4.relEq a b e m) [.rel a.x b.x e m true, .rel a.y b.y e m true, .rel a.z b.z e m true, .rel a.w b.w e m true] ∧
      V4.relEq a b e m = true := by
  constructor <;> simp [V4.relEq, V4.toList, okB, eps52, envL, *]

theorem t_v4_relative_eq_false_0 (a b : V4 K) (e m : K) (h0 : Approx.relEq a.x b.x e m = false) :
    t_v4_relative_eq_false_0 (envL (a.toList ++ b.toList ++ [e, m])) =
      okB (V4.relEq a b e m) [.rel a.x b.x e m false] ∧
      V4.relEq a b e m = false := by
  constructor <;> simp [V4.relEq, V4.toList, okB, eps52, envL, *]

theorem t_v4_relative_eq_false_1 (a b : V4 K) (e m : K) (h0 : Approx.relEq a.x b.x e m = true) (h1 : Approx.relEq a.y b.y e m = false) :
    t_v4_relative_eq_false_1 (envL (a.toList ++ b.toList ++ [e, m])) =
      okB (V4.relEq a b e m) [.rel a.x b.x e m true, .rel a.y b.y e m false] ∧
      V4.relEq a b e m = false := by
  constructor <;> simp [V4.relEq, V4.toList, okB, eps52, envL, *]

theorem t_v4_relative_eq_false_2 (a b : V4 K) (e m : K) (h0 : Approx.relEq a.x b.x e m = true) (h1 : Approx.relEq a.y b.y e m = true) (h2 : Approx.relEq a.z b.z e m = false) :
    t_v4_relative_eq_false_2 (envL (a.toList ++ b.toList ++ [e, m])) =
      okB (V4.relEq a b e m) [.rel a.x b.x e m true, .rel a.y b.y e m true, .rel a.z b.z e m false] ∧
      V4.relEq a b e m = false := by
  constructor <;> simp [V4.relEq, V4.toList, okB, eps52, envL, *]

theorem t_v4_relative_eq_false_3 (a b : V4 K) (e m : K) (h0 : Approx.relEq a.x b.x e m = true) (h1 : Approx.relEq a.y b.y e m = true) (h2 : Approx.relEq a.z b.z e m = true) (h3 : Approx.relEq a.w b.w e m = false) :
    t_v4_relative_eq_false_3 (envL (a.toList ++ b.toList ++ [e, m])) =
      okB (V4.relEq a b e m) [.rel a.x b.x e m true, .rel a.y b.y e m true, .rel a.z b.z e m true, .rel a.w b.w e m false] ∧
      V4.relEq a b e m = false := by
  constructor <;> simp [V4.relEq, V4.toList, okB, eps52, envL, *]

theorem t_v4_ulps_eq_true (a b : V4 K) (e : K) (h0 : Approx.ulpsEq a.x b.x e 4 = true) (h1 : Approx.ulpsEq a.y b.y e 4 = true) (h2 : Approx.ulpsEq a.z b.z e 4 = true) (h3 : Approx.ulpsEq a.w b.w e 4 = true) :
    t_v4_ulps_eq_true (envL (a.toList ++ b.toList ++ [e])) =
      okB (V4.ulpsEq a b e 4) [.ulps a.x b.x e 4 true, .ulps a.y b.y e 4 true, .ulps a.z b.z e 4 true, .ulps a.w b.w e 4 true] ∧
      V4.ulpsEq a b e 4 = true := by
  constructor <;> simp [V4.ulpsEq, V4.toList, okB, eps52, envL, *]

theorem t_v4_ulps_eq_false_0 (a b : V4 K) (e : K) (h0 : Approx.ulpsEq a.x b.x e 4 = false) :
    t_v4_ulps_eq_false_0 (envL (a.toList ++ b.toList ++ [e])) =
      okB (V4.ulpsEq a b e 4) [.ulps a.x b.x e 4 false] ∧
      V4.ulpsEq a b e 4 = false := by
  constructor <;> simp [V4.ulpsEq, V4.toList, okB, eps52, envL, *]

theorem t_v4_ulps_eq_false_1 (a b : V4 K) (e : K) (h0 : Approx.ulpsEq a.x b.x e 4 = true) (h1 : Approx.ulpsEq a.y b.y e 4 = false) :
    t_v4_ulps_eq_false_1 (envL (a.toList ++ b.toList ++ [e])) =
      okB (V4.ulpsEq a b e 4) [.ulps a.x b.x e 4 true, .ulps a.y b.y e 4 false] ∧
      V4.ulpsEq a b e 4 = false := by
  constructor <;> simp [V4.ulpsEq, V4.toList, okB, eps52, envL, *]

theorem t_v4_ulps_eq_false_2 (a b : V4 K) (e : K) (h0 : Approx.ulpsEq a.x b.x e 4 = true) (h1 : Approx.ulpsEq a.y b.y e 4 = true) (h2 : Approx.ulpsEq a.z b.z e 4 = false) :
    t_v4_ulps_eq_false_2 (envL (a.toList ++ b.toList ++ [e])) =
      okB (V4.ulpsEq a b e 4) [.ulps a.x b.x e 4 true, .ulps a.y b.y e 4 true, .ulps a.z b.z e 4 false] ∧
      V4.ulpsEq a b e 4 = false := by
  constructor <;> simp [V4.ulpsEq, V4.toList, okB, eps52, envL, *]

theorem t_v4_ulps_eq_false_3 (a b : V4 K) (e : K) (h0 : Approx.ulpsEq a.x b.x e 4 = true) (h1 : Approx.ulpsEq a.y b.y e 4 = true) (h2 : Approx.ulpsEq a.z b.z e 4 = true) (h3 : Approx.ulpsEq a.w b.w e 4 = false) :
    t_v4_ulps_eq_false_3 (envL (a.toList ++ b.toList ++ [e])) =
      okB (V4.ulpsEq a b e 4) [.ulps a.x b.x e 4 true, .ulps a.y b.y e 4 true, .ulps a.z b.z e 4 true, .ulps a.w b.w e 4 false] ∧
      V4.ulpsEq a b e 4 = false := by
  constructor <;> simp [V4.ulpsEq, V4.toList, okB, eps52, envL, *]

/-! ## `p1` -/
theorem t_p1_abs_diff_eq_true (a b : P1 K) (e : K) (h0 : Approx.absDiffEq a.x b.x e = true) :
    t_p1_abs_diff_eq_true (envL (a.toList ++ b.toList ++ [e])) =
      okB (P1.absDiffEq a b e) [.absDiff a.x b.x e true] ∧
      P1.absDiffEq a b e = true := by
  constructor <;> simp [P1.absDiffEq, P1.toList, okB, eps52, envL, *]

theorem t_p1_abs_diff_eq_false_0 (a b : P1 K) (e : K) (h0 : Approx.absDiffEq a.x b.x e = false) :
    t_p1_abs_diff_eq_false_0 (envL (a.toList ++ b.toList ++ [e])) =
      okB (P1.absDiffEq a b e) [.absDiff a.x b.x e false] ∧
      P1.absDiffEq a b e = false := by
  constructor <;> simp [P1.absDiffEq, P1.toList, okB, eps52, envL, *]

theorem t_p1_relative_eq_true (a b : P1 K) (e m : K) (h0 : Approx.relEq a.x b.x e m = true) :
    t_p1_relative_eq_true (envL (a.toList ++ b.toList ++ [e, m])) =
      okB (P1.relEq a b e m) [.rel a.x b.x e m true] ∧
      P1.relEq a b e m = true := by
  constructor <;> simp [P1.relEq, P1.toList, okB, eps52, envL, *]

theorem t_p1_relative_eq_false_0 (a b : P1 K) (e m : K) (h0 : Approx.relEq a.x b.x e m = false) :
    t_p1_relative_eq_false_0 (envL (a.toList ++ b.toList ++ [e, m])) =
      okB (P1.relEq a b e m) [.rel a.x b.x e m false] ∧
      P1.relEq a b e m = false := by
  constructor <;> simp [P1.relEq, P1.toList, okB, eps52, envL, *]

theorem t_p1_ulps_eq_true (a b : P1 K) (e : K) (h0 : Approx.ulpsEq a.x b.x e 4 = true) :
    t_p1_ulps_eq_true (envL (a.toList ++ b.toList ++ [e])) =
      okB (P1.ulpsEq a b e 4) [.ulps a.x b.x e 4 true] ∧
      P1.ulpsEq a b e 4 = true := by
  constructor <;> simp [P1.ulpsEq, P1.toList, okB, eps52, envL, *]

theorem t_p1_ulps_eq_false_0 (a b : P1 K) (e : K) (h0 : Approx.ulpsEq a.x b.x e 4 = false) :
    t_p1_ulps_eq_false_0 (envL (a.toList ++ b.toList ++ [e])) =
      okB (P1.ulpsEq a b e 4) [.ulps a.x b.x e 4 false] ∧
      P1.ulpsEq a b e 4 = false := by
  constructor <;> simp [P1.ulpsEq, P1.toList, okB, eps52, envL, *]

/-! ## `p2` -/
theorem t_p2_abs_diff_eq_true (a b : P2 K) (e : K) (h0 : Approx.absDiffEq a.x b.x e = true) (h1 : Approx.absDiffEq a.y b.y e = true) :
    t_p2_abs_diff_eq_true (envL (a.toList ++ b.toList ++ [e])) =
      okB (P2.absDiffEq a b e) [.absDiff a.x b.x e true, .absDiff a.y b.y e true] ∧
      P2.absDiffEq a b e = true := by
  constructor <;> simp [P2.absDiffEq, P2.toList, okB, eps52, envL, *]

theorem t_p2_abs_diff_eq_false_0 (a b : P2 K) (e : K) (h0 : Approx.absDiffEq a.x b.x e = false) :
    t_p2_abs_diff_eq_false_0 (envL (a.toList ++ b.toList ++ [e])) =
      okB (P2.absDiffEq a b e) [.absDiff a.x b.x e false] ∧
      P2.absDiffEq a b e = false := by
  constructor <;> simp [P2.absDiffEq, P2.toList, okB, eps52, envL, *]

theorem t_p2_abs_diff_eq_false_1 (a b : P2 K) (e : K) (h0 : Approx.absDiffEq a.x b.x e = true) (h1 : Approx.absDiffEq a.y b.y e = false) :
    t_p2_abs_diff_eq_false_1 (envL (a.toList ++ b.toList ++ [e])) =
      okB (P2.absDiffEq a b e) [.absDiff a.x b.x e true, .absDiff a.y b.y e false] ∧
      P2.absDiffEq a b e = false := by
  constructor <;> simp [P2.absDiffEq, P2.toList, okB, eps52, envL, *]

theorem t_p2_relative_eq_true (a b : P2 K) (e m : K) (h0 : Approx.relEq a.x b.x e m = true) (h1 : Approx.relEq a.y b.y e m = true) :
    t_p2_relative_eq_true (envL (a.toList ++ b.toList ++ [e, m])) =
      okB (P2.relEq a b e m) [.rel a.x b.x e m true, .rel a.y b.y e m true] ∧
      P2.relEq a b e m = true := by
  constructor <;> simp [P2.relEq, P2.toList, okB, eps52, envL, *]

theorem t_p2_relative_eq_false_0 (a b : P2 K) (e m : K) (h0 : Approx.relEq a.x b.x e m = false) :
    t_p2_relative_eq_false_0 (envL (a.toList ++ b.toList ++ [e, m])) =
      okB (P2.relEq a b e m) [.rel a.x b.x e m false] ∧
      P2.relEq a b e m = false := by
  constructor <;> simp [P2.relEq, P2.toList, okB, eps52, envL, *]

theorem t_p2_relative_eq_false_1 (a b : P2 K) (e m : K) (h0 : Approx.relEq a.x b.x e m = true) (h1 : Approx.relEq a.y b.y e m = false) :
    t_p2_relative_eq_false_1 (envL (a.toList ++ b.toList ++ [e, m])) =
      okB (P2.relEq a b e m) [.rel a.x b.x e m true, .rel a.y b.y e m false] ∧
      P2.relEq a b e m = false := by
  constructor <;> simp [P2.relEq, P2.toList, okB, eps52, envL, *]

theorem t_p2_ulps_eq_true (a b : P2 K) (e : K) (h0 : Approx.ulpsEq a.x b.x e 4 = true) (h1 : Approx.ulpsEq a.y b.y e 4 = true) :
    t_p2_ulps_eq_true (envL (a.toList ++ b.toList ++ [e])) =
      okB (P2.ulpsEq a b e 4) [.ulps a.x b.x e 4 true, .ulps a.y b.y e 4 true] ∧
      P2.ulpsEq a b e 4 = true := by
  constructor <;> simp [P2.ulpsEq, P2.toList, okB, eps52, envL, *]

theorem t_p2_ulps_eq_false_0 (a b : P2 K) (e : K) (h0 : Approx.ulpsEq a.x b.x e 4 = false) :
    t_p2_ulps_eq_false_0 (envL (a.toList ++ b.toList ++ [e])) =
      okB (P2.ulpsEq a b e 4) [.ulps a.x b.x e 4 false] ∧
      P2.ulpsEq a b e 4 = false := by
  constructor <;> simp [P2.ulpsEq, P2.toList, okB, eps52, envL, *]

theorem t_p2_ulps_eq_false_1 (a b : P2 K) (e : K) (h0 : Approx.ulpsEq a.x b.x e 4 = true) (h1 : Approx.ulpsEq a.y b.y e 4 = false) :
    t_p2_ulps_eq_false_1 (envL (a.toList ++ b.toList ++ [e])) =
      okB (P2.ulpsEq a b e 4) [.ulps a.x b.x e 4 true, .ulps a.y b.y e 4 false] ∧
      P2.ulpsEq a b e 4 = false := by
  constructor <;> simp [P2.ulpsEq, P2.toList, okB, eps52, envL, *]

/-! ## `p3` -/
theorem t_p3_abs_diff_eq_true (a b : P3 K) (e : K) (h0 : Approx.absDiffEq a.x b.x e = true) (h1 : Approx.absDiffEq a.y b.y e = true) (h2 : Approx.absDiffEq a.z b.z e = true) :
    t_p3_abs_diff_eq_true (envL (a.toList ++ b.toList ++ [e])) =
      okB (P3.absDiffEq a b e) [.absDiff a.x b.x e true, .absDiff a.y b.y e true, .absDiff a.z b.z e true] ∧
      P3.absDiffEq a b e = true := by
  constructor <;> simp [P3.absDiffEq, P3.toList, okB, eps52, envL, *]

theorem t_p3_abs_diff_eq_false_0 (a b : P3 K) (e : K) (h0 : Approx.absDiffEq a.x b.x e = false) :
    t_p3_abs_diff_eq_false_0 (envL (a.toList ++ b.toList ++ [e])) =
      okB (P3.absDiffEq a b e) [.absDiff a.x b.x e false] ∧
      P3.absDiffEq a b e = false := by
  constructor <;> simp [P3.absDiffEq, P3.toList, okB, eps52, envL, *]

theorem t_p3_abs_diff_eq_false_1 (a b : P3 K) (e : K) (h0 : Approx.absDiffEq a.x b.x e = true) (h1 : Approx.absDiffEq a.y b.y e = false) :
    t_p3_abs_diff_eq_false_1 (envL (a.toList ++ b.toList ++ [e])) =
      okB (P3.absDiffEq a b e) [.absDiff a.x b.x e true, .absDiff a.y b.y e false] ∧
      P3.absDiffEq a b e = false := by
  constructor <;> simp [P3.absDiffEq, P3.toList, okB, eps52, envL, *]

theorem t_p3_abs_diff_eq_false_2 (a b : P3 K) (e : K) (h0 : Approx.absDiffEq a.x b.x e = true) (h1 : Approx.absDiffEq a.y b.y e = true) (h2 : Approx.absDiffEq a.z b.z e = false) :
    t_p3_abs_diff_eq_false_2 (envL (a.toList ++ b.toList ++ [e])) =
      okB (P3.absDiffEq a b e) [.absDiff a.x b.x e true, .absDiff a.y b.y e true, .absDiff a.z b.z e false] ∧
      P3.absDiffEq a b e = false := by
  constructor <;> simp [P3.absDiffEq, P3.toList, okB, eps52, envL, *]

theorem t_p3_relative_eq_true (a b : P3 K) (e m : K) (h0 : Approx.relEq a.x b.x e m = true) (h1 : Approx.relEq a.y b.y e m = true) (h2 : Approx.relEq a.z b.z e m = true) :
    t_p3_relative_eq_true (envL (a.toList ++ b.toList ++ [e, m])) =
      okB (P3.relEq a b e m) [.rel a.x b.x e m true, .rel a.y b.y e m true, .rel a.z b.z e m true] ∧
      P3.relEq a b e m = true := by
  constructor <;> simp [P3.relEq, P3.toList, okB, eps52, envL, *]

theorem t_p3_relative_eq_false_0 (a b : P3 K) (e m : K) (h0 : Approx.relEq a.x b.x e m = false) :
    t_p3_relative_eq_false_0 (envL (a.toList ++ b.toList ++ [e, m])) =
      okB (P3.relEq a b e m) [.rel a.x b.x e m false] ∧
      P3.relEq a b e m = false := by
  constructor <;> simp [P3.relEq, P3.toList, okB, eps52, envL, *]

theorem t_p3_relative_eq_false_1 (a b : P3 K) (e m : K) (h0 : Approx.relEq a.x b.x e m = true) (h1 : Approx.relEq a.y b.y e m = false) :
    t_p3_relative_eq_false_1 (envL (a.toList ++ b.toList ++ [e, m])) =
      okB (P3.relEq a b e m) [.rel a.x b.x e m true, .rel a.y b.y e m false] ∧
      P3.relEq a b e m = false := by
  constructor <;> simp [P3.relEq, P3.toList, okB, eps52, envL, *]

theorem t_p3_relative_eq_false_2 (a b : P3 K) (e m : K) (h0 : Approx.relEq a.x b.x e m = true) (h1 : Approx.relEq a.y b.y e m = true) (h2 : Approx.relEq a.z b.z e m = false) :
    t_p3_relative_eq_false_2 (envL (a.toList ++ b.toList ++ [e, m])) =
      okB (P3.relEq a b e m) [.rel a.x b.x e m true, .rel a.y b.y e m true, .rel a.z b.z e m false] ∧
      P3.relEq a b e m = false := by
  constructor <;> simp [P3.relEq, P3.toList, okB, eps52, envL, *]

theorem t_p3_ulps_eq_true (a b : P3 K) (e : K) (h0 : Approx.ulpsEq a.x b.x e 4 = true) (h1 : Approx.ulpsEq a.y b.y e 4 = true) (h2 : Approx.ulpsEq a.z b.z e 4 = true) :
    t_p3_ulps_eq_true (envL (a.toList ++ b.toList ++ [e])) =
      okB (P3.ulpsEq a b e 4) [.ulps a.x b.x e 4 true, .ulps a.y b.y e 4 true, .ulps a.z b.z e 4 true] ∧
      P3.ulpsEq a b e 4 = true := by
  constructor <;> simp [P3.ulpsEq, P3.toList, okB, eps52, envL, *]

theorem t_p3_ulps_eq_false_0 (a b : P3 K) (e : K) (h0 : Approx.ulpsEq a.x b.x e 4 = false) :
    t_p3_ulps_eq_false_0 (envL (a.toList ++ b.toList ++ [e])) =
      okB (P3.ulpsEq a b e 4) [.ulps a.x b.x e 4 false] ∧
      P3.ulpsEq a b e 4 = false := by
  constructor <;> simp [P3.ulpsEq, P3.toList, okB, eps52, envL, *]

theorem t_p3_ulps_eq_false_1 (a b : P3 K) (e : K) (h0 : Approx.ulpsEq a.x b.x e 4 = true) (h1 : Approx.ulpsEq a.y b.y e 4 = false) :
    t_p3_ulps_eq_false_1 (envL (a.toList ++ b.toList ++ [e])) =
      okB (P3.ulpsEq a b e 4) [.ulps a.x b.x e 4 true, .ulps a.y b.y e 4 false] ∧
      P3.ulpsEq a b e 4 = false := by
  constructor <;> simp [P3.ulpsEq, P3.toList, okB, eps52, envL, *]

theorem t_p3_ulps_eq_false_2 (a b : P3 K) (e : K) (h0 : Approx.ulpsEq a.x b.x e 4 = true) (h1 : Approx.ulpsEq a.y b.y e 4 = true) (h2 : Approx.ulpsEq a.z b.z e 4 = false) :
    t_p3_ulps_eq_false_2 (envL (a.toList ++ b.toList ++ [e])) =
      okB (P3.ulpsEq a b e 4) [.ulps a.x b.x e 4 true, .ulps a.y b.y e 4 true, .ulps a.z b.z e 4 false] ∧
      P3.ulpsEq a b e 4 = false := by
  constructor <;> simp [P3.ulpsEq, P3.toList, okB, eps52, envL, *]

/-! ## `q` -/
theorem t_q_abs_diff_eq_true (a b : Quat K) (e : K) (h0 : Approx.absDiffEq a.s b.s e = true) (h1 : Approx.absDiffEq a.v.x b.v.x e = true) (h2 : Approx.absDiffEq a.v.y b.v.y e = true) (h3 : Approx.absDiffEq a.v.z b.v.z e = true) :
    t_q_abs_diff_eq_true (envL (a.toList ++ b.toList ++ [e])) =
      okB (Quat.absDiffEq a b e) [.absDiff a.s b.s e true, .absDiff a.v.x b.v.x e true, .absDiff a.v.y b.v.y e true, .absDiff a.v.z b.v.z e true] ∧
      Quat.absDiffEq a b e = true := by
  constructor <;> simp [Quat.absDiffEq, Quat.toList, V3.absDiffEq, V3.toList, okB, eps52, envL, *]

theorem t_q_abs_diff_eq_false_0 (a b : Quat K) (e : K) (h0 : Approx.absDiffEq a.s b.s e = false) :
    t_q_abs_diff_eq_false_0 (envL (a.toList ++ b.toList ++ [e])) =
      okB (Quat.absDiffEq a b e) [.absDiff a.s b.s e false] ∧
      Quat.absDiffEq a b e = false := by
  constructor <;> simp [Quat.absDiffEq, Quat.toList, V3.absDiffEq, V3.toList, okB, eps52, envL, *]

theorem t_q_abs_diff_eq_false_1 (a b : Quat K) (e : K) (h0 : Approx.absDiffEq a.s b.s e = true) (h1 : Approx.absDiffEq a.v.x b.v.x e = false) :
    t_q_abs_diff_eq_false_1 (envL (a.toList ++ b.toList ++ [e])) =
      okB (Quat.absDiffEq a b e) [.absDiff a.s b.s e true, .absDiff a.v.x b.v.x e false] ∧
      Quat.absDiffEq a b e = false := by
  constructor <;> simp [Quat.absDiffEq, Quat.toList, V3.absDiffEq, V3.toList, okB, eps52, envL, *]

theorem t_q_abs_diff_eq_false_2 (a b : Quat K) (e : K) (h0 : Approx.absDiffEq a.s b.s e = true) (h1 : Approx.absDiffEq a.v.x b.v.x e = true) (h2 : Approx.absDiffEq a.v.y b.v.y e = false) :
    t_q_abs_diff_eq_false_2 (envL (a.toList ++ b.toList ++ [e])) =
      okB (Quat.absDiffEq a b e) [.absDiff a.s b.s e true, .absDiff a.v.x b.v.x e true, .absDiff a.v.y b.v.y e false] ∧
      Quat.absDiffEq a b e = false := by
  constructor <;> simp [Quat.absDiffEq, Quat.toList, V3.absDiffEq, V3.toList, okB, eps52, envL, *]

theorem t_q_abs_diff_eq_false_3 (a b : Quat K) (e : K) (h0 : Approx.absDiffEq a.s b.s e = true) (h1 : Approx.absDiffEq a.v.x b.v.x e = true) (h2 : Approx.absDiffEq a.v.y b.v.y e = true) (h3 : Approx.absDiffEq a.v.z b.v.z e = false) :
    t_q_abs_diff_eq_false_3 (envL (a.toList ++ b.toList ++ [e])) =
      okB (Quat.absDiffEq a b e) [.absDiff a.s b.s e true, .absDiff a.v.x b.v.x e true, .absDiff a.v.y b.v.y e true, .absDiff a.v.z b.v.z e false] ∧
      Quat.absDiffEq a b e = false := by
  constructor <;> simp [Quat.absDiffEq, Quat.toList, V3.absDiffEq, V3.toList, okB, eps52, envL, *]

theorem t_q_relative_eq_true (a b : Quat K) (e m : K) (h0 : Approx.relEq a.s b.s e m = true) (h1 : Approx.relEq a.v.x b.v.x e m = true) (h2 : Approx.relEq a.v.y b.v.y e m = true) (h3 : Approx.relEq a.v.z b.v.z e m = true) :
    t_q_relative_eq_true (envL (a.toList ++ b.toList ++ [e, m])) =
      okB (Quat.relEq a b e m) [.rel a.s b.s e m true, .rel a.v.x b.v.x e m true, .rel a.v.y b.v.y e m true, .rel a.v.z b.v.z e m true] ∧
      Quat.relEq a b e m = true := by
  constructor <;> simp [Quat.relEq, Quat.toList, V3.relEq, V3.toList, okB, eps52, envL, *]

theorem t_q_relative_eq_false_0 (a b : Quat K) (e m : K) (h0 : Approx.relEq a.s b.s e m = false) :
    t_q_relative_eq_false_0 (envL (a.toList ++ b.toList ++ [e, m])) =
      okB (Quat.relEq a b e m) [.rel a.s b.s e m false] ∧
      Quat.relEq a b e m = false := by
  constructor <;> simp [Quat.relEq, Quat.toList, V3.relEq, V3.toList, okB, eps52, envL, *]

theorem t_q_relative_eq_false_1 (a b : Quat K) (e m : K) (h0 : Approx.relEq a.s b.s e m = true) (h1 : Approx.relEq a.v.x b.v.x e m = false) :
    t_q_relative_eq_false_1 (envL (a.toList ++ b.toList ++ [e, m])) =
      okB (Quat.relEq a b e m) [.rel a.s b.s e m true, .rel a.v.x b.v.x e m false] ∧
      Quat.relEq a b e m = false := by
  constructor <;> simp [Quat.relEq, Quat.toList, V3.relEq, V3.toList, okB, eps52, envL, *]

theorem t_q_relative_eq_false_2 (a b : Quat K) (e m : K) (h0 : Approx.relEq a.s b.s e m = true) (h1 : Approx.relEq a.v.x b.v.x e m = true) (h2 : Approx.relEq a.v.y b.v.y e m = false) :
    t_q_relative_eq_false_2 (envL (a.toList ++ b.toList ++ [e, m])) =
      okB (Quat.relEq a b e m) [.rel a.s b.s e m true, .rel a.v.x b.v.x e m true, .rel a.v.y b.v.y e m false] ∧
      Quat.relEq a b e m = false := by
  constructor <;> simp [Quat.relEq, Quat.toList, V3.relEq, V3.toList, okB, eps52, envL, *]

theorem t_q_relative_eq_false_3 (a b : Quat K) (e m : K) (h0 : Approx.relEq a.s b.s e m = true) (h1 : Approx.relEq a.v.x b.v.x e m = true) (h2 : Approx.relEq a.v.y b.v.y e m = true) (h3 : Approx.relEq a.v.z b.v.z e m = false) :
    t_q_relative_eq_false_3 (envL (a.toList ++ b.toList ++ [e, m])) =
      okB (Quat.relEq a b e m) [.rel a.s b.s e m true, .rel a.v.x b.v.x e m true, .rel a.v.y b.v.y e m true, .rel a.v.z b.v.z e m false] ∧
      Quat.relEq a b e m = false := by
  constructor <;> simp [Quat.relEq, Quat.toList, V3.relEq, V3.toList, okB, eps52, envL, *]

theorem t_q_ulps_eq_true (a b : Quat K) (e : K) (h0 : Approx.ulpsEq a.s b.s e 4 = true) (h1 : Approx.ulpsEq a.v.x b.v.x e 4 = true) (h2 : Approx.ulpsEq a.v.y b.v.y e 4 = true) (h3 : Approx.ulpsEq a.v.z b.v.z e 4 = true) :
    t_q_ulps_eq_true (envL (a.toList ++ b.toList ++ [e])) =
      okB (Quat.ulpsEq a b e 4) [.ulps a.s b.s e 4 true, .ulps a.v.x b.v.x e 4 true, .ulps a.v.y b.v.y e 4 true, .ulps a.v.z b.v.z e 4 true] ∧
      Quat.ulpsEq a b e 4 = true := by
  constructor <;> simp [Quat.ulpsEq, Quat.toList, V3.ulpsEq, V3.toList, okB, eps52, envL, *]

theorem t_q_ulps_eq_false_0 (a b : Quat K) (e : K) (h0 : Approx.ulpsEq a.s b.s e 4 = false) :
    t_q_ulps_eq_false_0 (envL (a.toList ++ b.toList ++ [e])) =
      okB (Quat.ulpsEq a b e 4) [.ulps a.s b.s e 4 false] ∧
      Quat.ulpsEq a b e 4 = false := by
  constructor <;> simp [Quat.ulpsEq, Quat.toList, V3.ulpsEq, V3.toList, okB, eps52, envL, *]

theorem t_q_ulps_eq_false_1 (a b : Quat K) (e : K) (h0 : Approx.ulpsEq a.s b.s e 4 = true) (h1 : Approx.ulpsEq a.v.x b.v.x e 4 = false) :
    t_q_ulps_eq_false_1 (envL (a.toList ++ b.toList ++ [e])) =
      okB (Quat.ulpsEq a b e 4) [.ulps a.s b.s e 4 true, .ulps a.v.x b.v.x e 4 false] ∧
      Quat.ulpsEq a b e 4 = false := by
  constructor <;> simp [Quat.ulpsEq, Quat.toList, V3.ulpsEq, V3.toList, okB, eps52, envL, *]

theorem t_q_ulps_eq_false_2 (a b : Quat K) (e : K) (h0 : Approx.ulpsEq a.s b.s e 4 = true) (h1 : Approx.ulpsEq a.v.x b.v.x e 4 = true) (h2 : Approx.ulpsEq a.v.y b.v.y e 4 = false) :
    t_q_ulps_eq_false_2 (envL (a.toList ++ b.toList ++ [e])) =
      okB (Quat.ulpsEq a b e 4) [.ulps a.s b.s e 4 true, .ulps a.v.x b.v.x e 4 true, .ulps a.v.y b.v.y e 4 false] ∧
      Quat.ulpsEq a b e 4 = false := by
  constructor <;> simp [Quat.ulpsEq, Quat.toList, V3.ulpsEq, V3.toList, okB, eps52, envL, *]

theorem t_q_ulps_eq_false_3 (a b : Quat K) (e : K) (h0 : Approx.ulpsEq a.s b.s e 4 = true) (h1 : Approx.ulpsEq a.v.x b.v.x e 4 = true) (h2 : Approx.ulpsEq a.v.y b.v.y e 4 = true) (h3 : Approx.ulpsEq a.v.z b.v.z e 4 = false) :
    t_q_ulps_eq_false_3 (envL (a.toList ++ b.toList ++ [e])) =
      okB (Quat.ulpsEq a b e 4) [.ulps a.s b.s e 4 true, .ulps a.v.x b.v.x e 4 true, .ulps a.v.y b.v.y e 4 true, .ulps a.v.z b.v.z e 4 false] ∧
      Quat.ulpsEq a b e 4 = false := by
  constructor <;> simp [Quat.ulpsEq, Quat.toList, V3.ulpsEq, V3.toList, okB, eps52, envL, *]

/-! ## `rad` -/
theorem t_rad_abs_diff_eq_true (a b : K) (e : K) (h0 : Approx.absDiffEq a b e = true) :
    t_rad_abs_diff_eq_true (envL ([a, b, e])) =
      okB (angleAbsDiffEq a b e) [.absDiff a b e true] ∧
      angleAbsDiffEq a b e = true := by
  constructor <;> simp [angleAbsDiffEq, okB, eps52, envL, *]

theorem t_rad_abs_diff_eq_false_0 (a b : K) (e : K) (h0 : Approx.absDiffEq a b e = false) :
    t_rad_abs_diff_eq_false_0 (envL ([a, b, e])) =
      okB (angleAbsDiffEq a b e) [.absDiff a b e false] ∧
      angleAbsDiffEq a b e = false := by
  constructor <;> simp [angleAbsDiffEq, okB, eps52, envL, *]

theorem t_rad_relative_eq_true (a b : K) (e m : K) (h0 : Approx.relEq a b e m = true) :
    t_rad_relative_eq_true (envL ([a, b, e, m])) =
      okB (angleRelEq a b e m) [.rel a b e m true] ∧
      angleRelEq a b e m = true := by
  constructor <;> simp [angleRelEq, okB, eps52, envL, *]

theorem t_rad_relative_eq_false_0 (a b : K) (e m : K) (h0 : Approx.relEq a b e m = false) :
    t_rad_relative_eq_false_0 (envL ([a, b, e, m])) =
      okB (angleRelEq a b e m) [.rel a b e m false] ∧
      angleRelEq a b e m = false := by
  constructor <;> simp [angleRelEq, okB, eps52, envL, *]

theorem t_rad_ulps_eq_true (a b : K) (e : K) (h0 : Approx.ulpsEq a b e 4 = true) :
    t_rad_ulps_eq_true (envL ([a, b, e])) =
      okB (angleUlpsEq a b e 4) [.ulps a b e 4 true] ∧
      angleUlpsEq a b e 4 = true := by
  constructor <;> simp [angleUlpsEq, okB, eps52, envL, *]

theorem t_rad_ulps_eq_false_0 (a b : K) (e : K) (h0 : Approx.ulpsEq a b e 4 = false) :
    t_rad_ulps_eq_false_0 (envL ([a, b, e])) =
      okB (angleUlpsEq a b e 4) [.ulps a b e 4 false] ∧
      angleUlpsEq a b e 4 = false := by
  constructor <;> simp [angleUlpsEq, okB, eps52, envL, *]

/-! ## `deg` -/
theorem t_deg_abs_diff_eq_true (a b : K) (e : K) (h0 : Approx.absDiffEq a b e = true) :
    t_deg_abs_diff_eq_true (envL ([a, b, e])) =
      okB (angleAbsDiffEq a b e) [.absDiff a b e true] ∧
      angleAbsDiffEq a b e = true := by
  constructor <;> simp [angleAbsDiffEq, okB, eps52, envL, *]

theorem t_deg_abs_diff_eq_false_0 (a b : K) (e : K) (h0 : Approx.absDiffEq a b e = false) :
    t_deg_abs_diff_eq_false_0 (envL ([a, b, e])) =
      okB (angleAbsDiffEq a b e) [.absDiff a b e false] ∧
      angleAbsDiffEq a b e = false := by
  constructor <;> simp [angleAbsDiffEq, okB, eps52, envL, *]

theorem t_deg_relative_eq_true (a b : K) (e m : K) (h0 : Approx.relEq a b e m = true) :
    t_deg_relative_eq_true (envL ([a, b, e, m])) =
      okB (angleRelEq a b e m) [.rel a b e m true] ∧
      angleRelEq a b e m = true := by
  constructor <;> simp [angleRelEq, okB, eps52, envL, *]

theorem t_deg_relative_eq_false_0 (a b : K) (e m : K) (h0 : Approx.relEq a b e m = false) :
    t_deg_relative_eq_false_0 (envL ([a, b, e, m])) =
      okB (angleRelEq a b e m) [.rel a b e m false] ∧
      angleRelEq a b e m = false := by
  constructor <;> simp [angleRelEq, okB, eps52, envL, *]

theorem t_deg_ulps_eq_true (a b : K) (e : K) (h0 : Approx.ulpsEq a b e 4 = true) :
    t_deg_ulps_eq_true (envL ([a, b, e])) =
      okB (angleUlpsEq a b e 4) [.ulps a b e 4 true] ∧
      angleUlpsEq a b e 4 = true := by
  constructor <;> simp [angleUlpsEq, okB, eps52, envL, *]

theorem t_deg_ulps_eq_false_0 (a b : K) (e : K) (h0 : Approx.ulpsEq a b e 4 = false) :
    t_deg_ulps_eq_false_0 (envL ([a, b, e])) =
      okB (angleUlpsEq a b e 4) [.ulps a b e 4 false] ∧
      angleUlpsEq a b e 4 = false := by
  constructor <;> simp [angleUlpsEq, okB, eps52, envL, *]

end Cg.Trace.C18Ops
