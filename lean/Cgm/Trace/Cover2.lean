import Cgm.Trace.Cover
/-!
# Layer T: which inputs the traced paths cover -- refresh

`Cgm/Trace/Cover.lean` was written before `Cgm/Trace/CxxPaths.lean` (and the later hand-written
obligations of `Trace/C13.lean`, `Trace/C14.lean`) existed.  This file restates, for the branching
functions that gained paths, the UPDATED list of path conditions (again over the model only: no
generated code is imported; `Cgm/Trace/CoverLink2.lean` checks each entry against the hypotheses of
the cited obligation) and proves for each list `…Paths`, together with the list `…Untraced` of the
syntactic paths that no kernel takes,

* `…_partition_excl` : traced and untraced paths together are pairwise exclusive,
* `…_partition_all`  : … and exhaustive, hence
* `…_excl`           : the traced paths are pairwise exclusive,
* `…_cover`          : `AnyOf paths ↔ True` when the traced paths are exhaustive; otherwise
                       `AnyOf paths ↔ ¬ AnyOf untraced` and/or an explicit description of the set.

As in `Cover.lean` everything holds in a `Field` with an arbitrary `LinearOrder`; compatibility of
order and arithmetic (`IsStrictOrderedRing`) and reflexivity of the approximate comparisons are
explicit hypotheses of the few theorems (`…_ordered`, `…_refl`) that use them to discard untraced
paths as infeasible.  Untraced paths are tied to the model by the differential layer only.

STATUS: this file describes the SECOND wave.  Its "NOT exhaustive" remarks and `…Untraced` lists are about the path lists of this
file; the remainders were traced in the next waves.  C13 (`normalize_signed`, `opposite`, `bisect`, both units; kernels of
`Cgm/Trace/C13More.lean`) is closed in `Cgm/Trace/Cover3.lean` (exhaustive in an ordered field); `perspective` (all entry points),
`from_arc`, `Basis3::between_vectors`, `Quaternion::look_at`, `Basis2::look_at_stable`, the `Decomposed` `look_at` /
`inverse_transform_vector` of `Basis3` / `Basis2` are exhaustive, and `planar` has its exact remainder, in `Cgm/Trace/Cover4.lean`
(kernels of `Cgm/Trace/C08More.lean`, `C09More.lean`, `C10More.lean`, `C15More.lean`).  Each such docstring names the later theorem.
-/
set_option linter.unusedSectionVars false
set_option linter.unusedSimpArgs false
set_option linter.unusedVariables false
namespace Cg.Trace.Cover2
open Cg Cg.Trace.Cover

/-- pairwise exclusion, one pair-against-the-rest at a time -/
macro "excl_tac" : tactic => `(tactic| ((repeat' apply And.intro) <;> grind))

/-! ## partitions -/

theorem anyOf_append (l u : List Prop) : AnyOf (l ++ u) ↔ AnyOf l ∨ AnyOf u := by
  induction l with
  | nil => simp [AnyOf]
  | cons a l ih => simp only [List.cons_append, AnyOf, ih, or_assoc]
theorem excl_append_left (l u : List Prop) (h : Excl (l ++ u)) : Excl l := by
  induction l with
  | nil => trivial
  | cons a l ih =>
    simp only [List.cons_append, Excl, anyOf_append] at h ⊢
    exact ⟨fun ha hl => h.1 ha (Or.inl hl), ih h.2⟩
theorem excl_append_disjoint (l u : List Prop) (h : Excl (l ++ u)) : AnyOf l → ¬ AnyOf u := by
  induction l with
  | nil => intro h'; exact h'.elim
  | cons a l ih =>
    simp only [List.cons_append, Excl, anyOf_append, AnyOf] at h ⊢
    rintro (ha | hl) hu
    · exact h.1 ha (Or.inr hu)
    · exact ih h.2 hl hu
/-- when traced and untraced paths partition the inputs, the covered set is exactly the complement
of the untraced paths -/
theorem cover_of_partition (l u : List Prop) (hx : Excl (l ++ u)) (ha : AnyOf (l ++ u)) :
    AnyOf l ↔ ¬ AnyOf u := by
  constructor
  · exact excl_append_disjoint l u hx
  · intro hu; exact ((anyOf_append l u).mp ha).resolve_right hu

variable {K : Type} [Field K] [LinearOrder K]

/-! ## C13: `Angle::normalize`, `normalize_signed`, `opposite`, `bisect`

`rem < 0`, `turn_div_2 < rem` on `Rad`/`Deg` go through the derived `partial_cmp`: the traces record
three-way comparisons, so every `Equal` outcome is a path of its own.  All statements are about the
remainder `FRem.frem a T` as an uninterpreted value.  The obligations of the `Equal` paths of
`Deg::normalize_signed` / `Deg::bisect` carry the side condition `0 < 360 / 2` (the recorded outcome
of `turn_div_2 ? 0`), which is part of the path condition here and `True` in an ordered field. -/
section C13
variable [FRem K] [Lits K]

/-! ### `normalize` -/
/-- `Deg::normalize`: `t_deg_normalize_pos`, `t_deg_normalize_neg`, `t_deg_normalize_zero` (unchanged) -/
def degNormalizePaths (a : K) : List Prop := Cover.degNormalizePaths a
theorem deg_normalize_excl (a : K) : Excl (degNormalizePaths a) := Cover.deg_normalize_excl a
/-- exhaustive -/
theorem deg_normalize_cover (a : K) : AnyOf (degNormalizePaths a) ↔ True := Cover.deg_normalize_cover a

/-- `Rad::normalize`: `t_rad_normalize_pos`, `t_rad_normalize_neg`, and now `C13Paths.t_rad_normalize_zero` -/
def radNormalizePaths (a : K) : List Prop :=
  [ 0 < FRem.frem a (Lits.radFull : K), FRem.frem a (Lits.radFull : K) < 0, FRem.frem a (Lits.radFull : K) = 0 ]
theorem rad_normalize_excl (a : K) : Excl (radNormalizePaths a) := by
  simp only [radNormalizePaths, AnyOf, Excl]; grind
/-- exhaustive (was: remainder non-zero).  Nothing remains untraced. -/
theorem rad_normalize_cover (a : K) : AnyOf (radNormalizePaths a) ↔ True := by
  simp only [radNormalizePaths, AnyOf, Excl]; grind

/-! ### `normalize_signed` -/
/-- `Deg::normalize_signed`: `t_deg_normalize_signed_hi`, `…_lo`, `…_neg_hi`, `…_neg_lo` (`Trace/C13.lean`),
`C13Paths.t_deg_normalize_signed_zero`, `C13Paths.t_deg_normalize_signed_half` -/
def degNormalizeSignedPaths (a : K) : List Prop :=
  [ 0 < FRem.frem a (360 : K) ∧ (360 : K) / 2 < FRem.frem a 360,
    0 < FRem.frem a (360 : K) ∧ FRem.frem a 360 < (360 : K) / 2,
    FRem.frem a (360 : K) < 0 ∧ (360 : K) / 2 < FRem.frem a 360 + 360,
    FRem.frem a (360 : K) < 0 ∧ FRem.frem a 360 + 360 < (360 : K) / 2,
    FRem.frem a (360 : K) = 0 ∧ (0 : K) < 360 / 2,
    0 < FRem.frem a (360 : K) ∧ FRem.frem a 360 = (360 : K) / 2 ]
/-- untraced paths of `Deg::normalize_signed`: a negative remainder lifted to exactly the half turn
(`rem = -180`: the second comparison is `Equal`), and remainder zero with the second comparison not
`Greater` (infeasible when the order is compatible with the arithmetic) -/
def degNormalizeSignedUntraced (a : K) : List Prop :=
  [ FRem.frem a (360 : K) < 0 ∧ FRem.frem a 360 + 360 = (360 : K) / 2,
    FRem.frem a (360 : K) = 0 ∧ ¬ (0 : K) < 360 / 2 ]
theorem deg_normalize_signed_partition_excl (a : K) :
    Excl (degNormalizeSignedPaths a ++ degNormalizeSignedUntraced a) := by
  simp only [degNormalizeSignedPaths, degNormalizeSignedUntraced, List.cons_append, List.nil_append, AnyOf, Excl]
  generalize FRem.frem a (360 : K) + 360 = r'
  generalize FRem.frem a (360 : K) = r
  generalize (360 : K) / 2 = H
  excl_tac
theorem deg_normalize_signed_partition_all (a : K) :
    AnyOf (degNormalizeSignedPaths a ++ degNormalizeSignedUntraced a) := by
  simp only [degNormalizeSignedPaths, degNormalizeSignedUntraced, List.cons_append, List.nil_append, AnyOf, Excl]
  generalize FRem.frem a (360 : K) + 360 = r'
  generalize FRem.frem a (360 : K) = r
  generalize (360 : K) / 2 = H
  grind (splits := 40)
theorem deg_normalize_signed_excl (a : K) : Excl (degNormalizeSignedPaths a) :=
  excl_append_left _ _ (deg_normalize_signed_partition_excl a)
/-- NOT exhaustive (this file's path list; the remainder was traced later: exhaustive in `Cover3.deg_normalize_signed_cover_ordered`): the covered set is the complement of the two untraced paths -/
theorem deg_normalize_signed_cover (a : K) :
    AnyOf (degNormalizeSignedPaths a) ↔ ¬ AnyOf (degNormalizeSignedUntraced a) :=
  cover_of_partition _ _ (deg_normalize_signed_partition_excl a) (deg_normalize_signed_partition_all a)
/-- with the order compatible with the arithmetic, exactly one remainder is left out: `-180`
(`(-180).normalize_signed()`: three-way comparison `180 ? 180` is `Equal`) -/
theorem deg_normalize_signed_cover_ordered [IsStrictOrderedRing K] (a : K) :
    AnyOf (degNormalizeSignedPaths a) ↔ FRem.frem a (360 : K) ≠ -180 := by
  rw [deg_normalize_signed_cover]
  simp only [degNormalizeSignedUntraced, AnyOf, or_false]
  have h180 : (0 : K) < 360 / 2 := by norm_num
  constructor
  · intro h he
    apply h; left
    rw [he]; constructor <;> norm_num
  · rintro h (⟨h1, h2⟩ | ⟨h1, h2⟩)
    · apply h; linear_combination h2
    · exact h2 h180

/-- `Rad::normalize_signed`: `t_rad_normalize_signed_hi`, `t_rad_normalize_signed_lo` (unchanged) -/
def radNormalizeSignedPaths (a : K) : List Prop := Cover.radNormalizeSignedPaths a
/-- untraced: remainder negative or zero (every continuation), or positive and equal to the half turn -/
def radNormalizeSignedUntraced (a : K) : List Prop := Cover.radNormalizeSignedUntraced a
theorem rad_normalize_signed_excl (a : K) : Excl (radNormalizeSignedPaths a) := Cover.rad_normalize_signed_excl a
/-- NOT exhaustive (this file's path list; the remainder was traced later: exhaustive in `Cover3.rad_normalize_signed_cover_ordered`): covered exactly: positive remainder different from the half turn -/
theorem rad_normalize_signed_cover (a : K) :
    AnyOf (radNormalizeSignedPaths a) ↔
      (0 < FRem.frem a (Lits.radFull : K) ∧ FRem.frem a Lits.radFull ≠ (Lits.radFull : K) / 2) :=
  Cover.rad_normalize_signed_cover a
theorem rad_normalize_signed_complement (a : K) :
    AnyOf (radNormalizeSignedPaths a) ↔ ¬ AnyOf (radNormalizeSignedUntraced a) :=
  Cover.rad_normalize_signed_complement a

/-! ### `opposite` = `normalize(self + turn_div_2)` -/
/-- `Deg::opposite`: `t_deg_opposite`, `t_deg_opposite_neg`, `C13Paths.t_deg_opposite_zero` -/
def degOppositePaths (a : K) : List Prop :=
  [ 0 < FRem.frem (a + 360 / 2) (360 : K), FRem.frem (a + 360 / 2) (360 : K) < 0,
    FRem.frem (a + 360 / 2) (360 : K) = 0 ]
theorem deg_opposite_excl (a : K) : Excl (degOppositePaths a) := by
  simp only [degOppositePaths, AnyOf, Excl]; grind
/-- exhaustive (was: remainder of `a + 180` non-zero).  Nothing remains untraced. -/
theorem deg_opposite_cover (a : K) : AnyOf (degOppositePaths a) ↔ True := by
  simp only [degOppositePaths, AnyOf, Excl]; grind
/-- `Rad::opposite`: `t_rad_opposite` (unchanged) -/
def radOppositePaths (a : K) : List Prop := Cover.radOppositePaths a
/-- untraced: the remainder of `a + π` is negative, or zero -/
def radOppositeUntraced (a : K) : List Prop :=
  [ FRem.frem (a + Lits.radFull / 2) (Lits.radFull : K) < 0, FRem.frem (a + Lits.radFull / 2) (Lits.radFull : K) = 0 ]
theorem rad_opposite_excl (a : K) : Excl (radOppositePaths a) := Cover.rad_opposite_excl a
/-- NOT exhaustive (this file's path list; the remainder was traced later: exhaustive in `Cover3.rad_opposite_cover`) -/
theorem rad_opposite_cover (a : K) :
    AnyOf (radOppositePaths a) ↔ 0 < FRem.frem (a + Lits.radFull / 2) (Lits.radFull : K) :=
  Cover.rad_opposite_cover a
theorem rad_opposite_complement (a : K) : AnyOf (radOppositePaths a) ↔ ¬ AnyOf (radOppositeUntraced a) := by
  simp only [radOppositePaths, Cover.radOppositePaths, radOppositeUntraced, AnyOf, Excl]; grind

/-! ### `bisect` (as repaired) = `normalize(self + normalize_signed(other - self) * 0.5)` -/
/-- `Deg::bisect`: `t_deg_bisect_near`, `t_deg_bisect_wrap` (`Trace/C13.lean`), `C13Paths.t_deg_bisect_neg_near`,
`…_neg_wrap`, `…_neg_wrap_neg`, `…_near_neg`, `…_same`.
Three three-way comparisons: `d ? 0` with `d = (b - a) % 360`, `180 ? d'` with `d'` the lifted `d`, and
`m ? 0` with `m` the remainder of the midpoint before the last `normalize`. -/
def degBisectPaths (a b : K) : List Prop :=
  [ 0 < FRem.frem (b - a) (360 : K) ∧ FRem.frem (b - a) 360 < (360 : K) / 2 ∧
      0 < FRem.frem (a + FRem.frem (b - a) 360 * (1 / 2)) (360 : K),
    0 < FRem.frem (b - a) (360 : K) ∧ (360 : K) / 2 < FRem.frem (b - a) 360 ∧
      0 < FRem.frem (a + (FRem.frem (b - a) 360 - 360) * (1 / 2)) (360 : K),
    FRem.frem (b - a) (360 : K) < 0 ∧ FRem.frem (b - a) 360 + 360 < (360 : K) / 2 ∧
      0 < FRem.frem (a + (FRem.frem (b - a) 360 + 360) * (1 / 2)) (360 : K),
    FRem.frem (b - a) (360 : K) < 0 ∧ (360 : K) / 2 < FRem.frem (b - a) 360 + 360 ∧
      0 < FRem.frem (a + (FRem.frem (b - a) 360 + 360 - 360) * (1 / 2)) (360 : K),
    FRem.frem (b - a) (360 : K) < 0 ∧ (360 : K) / 2 < FRem.frem (b - a) 360 + 360 ∧
      FRem.frem (a + (FRem.frem (b - a) 360 + 360 - 360) * (1 / 2)) (360 : K) < 0,
    0 < FRem.frem (b - a) (360 : K) ∧ FRem.frem (b - a) 360 < (360 : K) / 2 ∧
      FRem.frem (a + FRem.frem (b - a) 360 * (1 / 2)) (360 : K) < 0,
    FRem.frem (b - a) (360 : K) = 0 ∧ (0 : K) < 360 / 2 ∧ 0 < FRem.frem (a + 0 * (1 / 2)) (360 : K) ]
/-- the untraced paths of `Deg::bisect`, each described by its first deviation from a traced path:
midpoint remainder `Equal` (near), not `Greater` (wrap), not `Greater` (neg_near), `Equal` (neg_wrap),
not `Greater` (same); equal directions with `180 ? 0` not `Greater` (infeasible in an ordered field);
the difference exactly a half turn, reached from a positive or from a negative remainder. -/
def degBisectUntraced (a b : K) : List Prop :=
  [ 0 < FRem.frem (b - a) (360 : K) ∧ FRem.frem (b - a) 360 < (360 : K) / 2 ∧
      FRem.frem (a + FRem.frem (b - a) 360 * (1 / 2)) (360 : K) = 0,
    0 < FRem.frem (b - a) (360 : K) ∧ (360 : K) / 2 < FRem.frem (b - a) 360 ∧
      ¬ 0 < FRem.frem (a + (FRem.frem (b - a) 360 - 360) * (1 / 2)) (360 : K),
    FRem.frem (b - a) (360 : K) < 0 ∧ FRem.frem (b - a) 360 + 360 < (360 : K) / 2 ∧
      ¬ 0 < FRem.frem (a + (FRem.frem (b - a) 360 + 360) * (1 / 2)) (360 : K),
    FRem.frem (b - a) (360 : K) < 0 ∧ (360 : K) / 2 < FRem.frem (b - a) 360 + 360 ∧
      FRem.frem (a + (FRem.frem (b - a) 360 + 360 - 360) * (1 / 2)) (360 : K) = 0,
    FRem.frem (b - a) (360 : K) = 0 ∧ (0 : K) < 360 / 2 ∧ ¬ 0 < FRem.frem (a + 0 * (1 / 2)) (360 : K),
    FRem.frem (b - a) (360 : K) = 0 ∧ ¬ (0 : K) < 360 / 2,
    0 < FRem.frem (b - a) (360 : K) ∧ FRem.frem (b - a) 360 = (360 : K) / 2,
    FRem.frem (b - a) (360 : K) < 0 ∧ FRem.frem (b - a) 360 + 360 = (360 : K) / 2 ]
theorem deg_bisect_partition_excl (a b : K) : Excl (degBisectPaths a b ++ degBisectUntraced a b) := by
  simp only [degBisectPaths, degBisectUntraced, List.cons_append, List.nil_append, AnyOf, Excl]
  generalize FRem.frem (a + FRem.frem (b - a) 360 * (1 / 2)) (360 : K) = m1
  generalize FRem.frem (a + (FRem.frem (b - a) 360 - 360) * (1 / 2)) (360 : K) = m2
  generalize FRem.frem (a + (FRem.frem (b - a) 360 + 360) * (1 / 2)) (360 : K) = m3
  generalize FRem.frem (a + (FRem.frem (b - a) 360 + 360 - 360) * (1 / 2)) (360 : K) = m4
  generalize FRem.frem (a + 0 * (1 / 2)) (360 : K) = m5
  generalize FRem.frem (b - a) (360 : K) + 360 = r'
  generalize FRem.frem (b - a) (360 : K) = r
  generalize (360 : K) / 2 = H
  excl_tac
theorem deg_bisect_partition_all (a b : K) : AnyOf (degBisectPaths a b ++ degBisectUntraced a b) := by
  simp only [degBisectPaths, degBisectUntraced, List.cons_append, List.nil_append, AnyOf, Excl]
  generalize FRem.frem (a + FRem.frem (b - a) 360 * (1 / 2)) (360 : K) = m1
  generalize FRem.frem (a + (FRem.frem (b - a) 360 - 360) * (1 / 2)) (360 : K) = m2
  generalize FRem.frem (a + (FRem.frem (b - a) 360 + 360) * (1 / 2)) (360 : K) = m3
  generalize FRem.frem (a + (FRem.frem (b - a) 360 + 360 - 360) * (1 / 2)) (360 : K) = m4
  generalize FRem.frem (a + 0 * (1 / 2)) (360 : K) = m5
  generalize FRem.frem (b - a) (360 : K) + 360 = r'
  generalize FRem.frem (b - a) (360 : K) = r
  generalize (360 : K) / 2 = H
  grind (splits := 40)
theorem deg_bisect_excl (a b : K) : Excl (degBisectPaths a b) :=
  excl_append_left _ _ (deg_bisect_partition_excl a b)
/-- NOT exhaustive (this file's path list; the remainder was traced later: exhaustive in `Cover3.deg_bisect_cover_ordered`): the covered set is the complement of the eight untraced paths -/
theorem deg_bisect_cover (a b : K) : AnyOf (degBisectPaths a b) ↔ ¬ AnyOf (degBisectUntraced a b) :=
  cover_of_partition _ _ (deg_bisect_partition_excl a b) (deg_bisect_partition_all a b)

/-- `Rad::bisect`: `C13Paths.t_rad_bisect_near`, `C13Paths.t_rad_bisect_wrap` (was: not traced at all) -/
def radBisectPaths (a b : K) : List Prop :=
  [ 0 < FRem.frem (b - a) (Lits.radFull : K) ∧ FRem.frem (b - a) Lits.radFull < (Lits.radFull : K) / 2 ∧
      0 < FRem.frem (a + FRem.frem (b - a) Lits.radFull * (1 / 2)) (Lits.radFull : K),
    0 < FRem.frem (b - a) (Lits.radFull : K) ∧ (Lits.radFull : K) / 2 < FRem.frem (b - a) Lits.radFull ∧
      0 < FRem.frem (a + (FRem.frem (b - a) Lits.radFull - Lits.radFull) * (1 / 2)) (Lits.radFull : K) ]
/-- the signed difference on the paths where the remainder of `b - a` is positive -/
def radBisectSigned (a b : K) : K :=
  if (Lits.radFull : K) / 2 < FRem.frem (b - a) Lits.radFull then FRem.frem (b - a) Lits.radFull - Lits.radFull
  else FRem.frem (b - a) Lits.radFull
theorem rad_bisect_excl (a b : K) : Excl (radBisectPaths a b) := by
  simp only [radBisectPaths, AnyOf, Excl]; grind
/-- NOT exhaustive (this file's path list; the remainder was traced later: exhaustive in `Cover3.rad_bisect_cover_ordered`): covered exactly: the remainder of the difference is positive and not the half turn,
and the remainder of the midpoint before the last `normalize` is positive.
Untraced: remainder of `b - a` negative or zero (all continuations); equal to `π`; midpoint remainder
negative or zero. -/
theorem rad_bisect_cover (a b : K) :
    AnyOf (radBisectPaths a b) ↔
      (0 < FRem.frem (b - a) (Lits.radFull : K) ∧ FRem.frem (b - a) Lits.radFull ≠ (Lits.radFull : K) / 2 ∧
        0 < FRem.frem (a + radBisectSigned a b * (1 / 2)) (Lits.radFull : K)) := by
  simp only [radBisectPaths, radBisectSigned, AnyOf, Excl]
  split_ifs <;> grind
/-- on the covered set `radBisectSigned` is the model's `normalize_signed(b - a)` -/
theorem radBisectSigned_eq_model (a b : K) (h : 0 < FRem.frem (b - a) (Lits.radFull : K)) :
    radBisectSigned a b = Angle.normalizeSigned Lits.radFull (b - a) := by
  have h' : ¬ FRem.frem (b - a) (Lits.radFull : K) < 0 := not_lt.mpr h.le
  simp [radBisectSigned, Angle.normalizeSigned, Angle.normalize, Angle.turnDiv, h']
end C13

/-! ## C11: the default `InnerSpace::angle` (as repaired: clamp before `acos`) -/
section C11
variable [Transc K]

/-- the three outcomes of the two comparisons of `clampUnit c` (`1 < c`, then `c < -1`) partition -/
def clampPaths (c : K) : List Prop := [ clampUnclamped c, clampHigh c, clampLow c ]
theorem clamp_excl (c : K) : Excl (clampPaths c) := by
  simp only [clampPaths, clampUnclamped, clampHigh, clampLow, AnyOf, Excl]; tauto
theorem clamp_cover (c : K) : AnyOf (clampPaths c) ↔ True := by
  simp only [clampPaths, clampUnclamped, clampHigh, clampLow, AnyOf, Excl]; tauto

/-- `Vector1::angle`: `C11Paths.t_v1_angle` (unclamped) only -/
def v1AnglePaths (a b : V1 K) : List Prop := [ clampUnclamped (V1.dot a b / (a.magnitude * b.magnitude)) ]
def v1AngleUntraced (a b : V1 K) : List Prop :=
  [ clampHigh (V1.dot a b / (a.magnitude * b.magnitude)), clampLow (V1.dot a b / (a.magnitude * b.magnitude)) ]
theorem v1_angle_excl (a b : V1 K) : Excl (v1AnglePaths a b) := by
  simp only [v1AnglePaths, AnyOf, Excl]; tauto
theorem v1_angle_complement (a b : V1 K) : AnyOf (v1AnglePaths a b) ↔ ¬ AnyOf (v1AngleUntraced a b) := by
  simp only [v1AnglePaths, v1AngleUntraced, clampUnclamped, clampHigh, clampLow, AnyOf, Excl]; tauto
/-- NOT exhaustive: covered exactly the pairs whose cosine is in `[-1, 1]`; both clamped paths are untraced
(they need a rounded quotient: over an exact field the cosine of two 1-vectors is `±1` or `0/0 = 0`; they stay untraced, and are
shown infeasible whenever `sqrt(t·t)² = t·t` in `Cover4.v1_angle_cover_exact`) -/
theorem v1_angle_cover (a b : V1 K) :
    AnyOf (v1AnglePaths a b) ↔
      (-1 ≤ V1.dot a b / (a.magnitude * b.magnitude) ∧ V1.dot a b / (a.magnitude * b.magnitude) ≤ 1) := by
  simp only [v1AnglePaths, clampUnclamped, AnyOf, Excl, not_lt, or_false]; tauto

/-- `Vector4::angle`: `t_v4_angle` (unclamped), `t_v4_angle_clamped` (from above), `C11Paths.t_v4_angle_clamped_lo` -/
def v4AnglePaths (a b : V4 K) : List Prop := clampPaths (V4.dot a b / (a.magnitude * b.magnitude))
theorem v4_angle_excl (a b : V4 K) : Excl (v4AnglePaths a b) := clamp_excl _
/-- exhaustive (was: cosine at least `-1`).  Nothing remains untraced. -/
theorem v4_angle_cover (a b : V4 K) : AnyOf (v4AnglePaths a b) ↔ True := clamp_cover _

/-- `Quaternion::angle`: `t_q_angle` (unclamped), `C11Paths.t_q_angle_clamped_hi`, `C11Paths.t_q_angle_clamped_lo` -/
def qAnglePaths (a b : Quat K) : List Prop := clampPaths (Quat.dot a b / (a.magnitude * b.magnitude))
theorem q_angle_excl (a b : Quat K) : Excl (qAnglePaths a b) := clamp_excl _
/-- exhaustive (was: cosine in `[-1, 1]`).  Nothing remains untraced. -/
theorem q_angle_cover (a b : Quat K) : AnyOf (qAnglePaths a b) ↔ True := clamp_cover _
end C11

/-! ## C10: `PerspectiveFov`, `PlanarFov` (and the `Deg` / struct-form entry points)

`frustum` is unchanged (`Cover.frustumPaths`, exhaustive). -/
section C10
variable [Approx K] [Transc K] [Lits K]

/-- `tan(fovy/2)` is zero, as the model writes it (with the order relation only) -/
def tanZero (fovy : K) : Prop := ¬ Rad.tan (fovy / (two : K)) < 0 ∧ ¬ 0 < Rad.tan (fovy / (two : K))
/-- the hypothesis `hreg` of the accepting `planar` obligations: not (`tan(fovy/2) = 0` and `height = 0`),
the class on which the code's `inv_f` is `0/0` -/
def planarReg (fovy h : K) : Prop := ¬ (tanZero fovy ∧ ¬ 0 < h)
/-- the hypothesis `hfin` of the rejecting `planar` obligations `bad_focal{,_rev}`: not (`tan(fovy/2) = 0` and
`height > 0`), the class on which the code's focal point is an infinity -/
def planarFin (fovy h : K) : Prop := ¬ (tanZero fovy ∧ 0 < h)
/-- `focal_point = -inv_f.recip()` -/
def focal (fovy h : K) : K := -(1 / planarInvF fovy h)

/-- `From<PlanarFov> for Matrix4`, in this order: `t_planar_ok` (`Trace/C10.lean`); `C10Paths.t_planar_ok_rev`,
`…_ok_behind`, `…_ok_behind_rev`, `…_ok_neg_aspect`, `…_bad_fovy_lo`, `…_bad_fovy_hi`, `…_bad_height`,
`…_bad_aspect`, `…_bad_nf`, `…_bad_focal`, `…_bad_focal_rev`.
Comparisons in program order: `fovy ? -π`, `fovy ? π` (three-way), `0 ≤ height`, `aspect < 0` (inside `abs`),
`|aspect| ≈ 0`, `far ≈ near`, `near < far` (inside `min`), `focal < min`, and when that fails
`far < near` (inside `max`), `max < focal`.  The last conjunct of the accepting paths is `hreg`, of the two
`bad_focal` paths `hfin`: they are part of the path condition although no comparison records them. -/
def planarPaths (fovy a h n f : K) : List Prop :=
  [ -(Lits.radFull / 2) < fovy ∧ fovy < Lits.radFull / 2 ∧ 0 ≤ h ∧ ¬ a < 0 ∧ absDiffEqD a (0 : K) = false ∧
      absDiffEqD f n = false ∧ n < f ∧ focal fovy h < n ∧ planarReg fovy h,
    -(Lits.radFull / 2) < fovy ∧ fovy < Lits.radFull / 2 ∧ 0 ≤ h ∧ ¬ a < 0 ∧ absDiffEqD a (0 : K) = false ∧
      absDiffEqD f n = false ∧ ¬ n < f ∧ focal fovy h < f ∧ planarReg fovy h,
    -(Lits.radFull / 2) < fovy ∧ fovy < Lits.radFull / 2 ∧ 0 ≤ h ∧ ¬ a < 0 ∧ absDiffEqD a (0 : K) = false ∧
      absDiffEqD f n = false ∧ n < f ∧ ¬ focal fovy h < n ∧ f < focal fovy h ∧ planarReg fovy h,
    -(Lits.radFull / 2) < fovy ∧ fovy < Lits.radFull / 2 ∧ 0 ≤ h ∧ ¬ a < 0 ∧ absDiffEqD a (0 : K) = false ∧
      absDiffEqD f n = false ∧ f < n ∧ ¬ focal fovy h < f ∧ n < focal fovy h ∧ planarReg fovy h,
    -(Lits.radFull / 2) < fovy ∧ fovy < Lits.radFull / 2 ∧ 0 ≤ h ∧ a < 0 ∧ absDiffEqD (-a) (0 : K) = false ∧
      absDiffEqD f n = false ∧ n < f ∧ focal fovy h < n ∧ planarReg fovy h,
    fovy < -(Lits.radFull / 2),
    -(Lits.radFull / 2) < fovy ∧ Lits.radFull / 2 < fovy,
    -(Lits.radFull / 2) < fovy ∧ fovy < Lits.radFull / 2 ∧ ¬ 0 ≤ h,
    -(Lits.radFull / 2) < fovy ∧ fovy < Lits.radFull / 2 ∧ 0 ≤ h ∧ ¬ a < 0 ∧ absDiffEqD a (0 : K) = true,
    -(Lits.radFull / 2) < fovy ∧ fovy < Lits.radFull / 2 ∧ 0 ≤ h ∧ ¬ a < 0 ∧ absDiffEqD a (0 : K) = false ∧
      absDiffEqD f n = true,
    -(Lits.radFull / 2) < fovy ∧ fovy < Lits.radFull / 2 ∧ 0 ≤ h ∧ ¬ a < 0 ∧ absDiffEqD a (0 : K) = false ∧
      absDiffEqD f n = false ∧ n < f ∧ ¬ focal fovy h < n ∧ ¬ f < focal fovy h ∧ planarFin fovy h,
    -(Lits.radFull / 2) < fovy ∧ fovy < Lits.radFull / 2 ∧ 0 ≤ h ∧ ¬ a < 0 ∧ absDiffEqD a (0 : K) = false ∧
      absDiffEqD f n = false ∧ f < n ∧ ¬ focal fovy h < f ∧ ¬ n < focal fovy h ∧ planarFin fovy h ]
/-- what remains untraced of `From<PlanarFov>`:
* `fovy = -π` and `fovy = π` (the `Equal` outcomes of the two three-way comparisons; both panic);
* a negative aspect that is ≈ 0 (panic), and every continuation with a negative aspect other than the accepted
  one with `near < far` and the focal point in front (`ok_neg_aspect`);
* `near = far` not ≈ (impossible for a reflexive `abs_diff_eq`) with the focal point not in front;
* the two input classes on which exact and IEEE arithmetic part ways without a comparison:
  `¬ hreg` on the inputs the exact comparisons would accept, `¬ hfin` on those they would reject. -/
def planarUntraced (fovy a h n f : K) : List Prop :=
  [ ¬ fovy < -(Lits.radFull / 2) ∧ ¬ -(Lits.radFull / 2) < fovy,
    -(Lits.radFull / 2) < fovy ∧ ¬ fovy < Lits.radFull / 2 ∧ ¬ Lits.radFull / 2 < fovy,
    -(Lits.radFull / 2) < fovy ∧ fovy < Lits.radFull / 2 ∧ 0 ≤ h ∧ a < 0 ∧ absDiffEqD (-a) (0 : K) = true,
    -(Lits.radFull / 2) < fovy ∧ fovy < Lits.radFull / 2 ∧ 0 ≤ h ∧ a < 0 ∧ absDiffEqD (-a) (0 : K) = false ∧
      ¬ (absDiffEqD f n = false ∧ n < f ∧ focal fovy h < n ∧ planarReg fovy h),
    -(Lits.radFull / 2) < fovy ∧ fovy < Lits.radFull / 2 ∧ 0 ≤ h ∧ ¬ a < 0 ∧ absDiffEqD a (0 : K) = false ∧
      absDiffEqD f n = false ∧ ¬ n < f ∧ ¬ f < n ∧ ¬ focal fovy h < f,
    -(Lits.radFull / 2) < fovy ∧ fovy < Lits.radFull / 2 ∧ 0 ≤ h ∧ ¬ a < 0 ∧ absDiffEqD a (0 : K) = false ∧
      absDiffEqD f n = false ∧ ¬ planarReg fovy h ∧
      ((n < f ∧ focal fovy h < n) ∨ (¬ n < f ∧ focal fovy h < f) ∨ (n < f ∧ ¬ focal fovy h < n ∧ f < focal fovy h) ∨
        (f < n ∧ ¬ focal fovy h < f ∧ n < focal fovy h)),
    -(Lits.radFull / 2) < fovy ∧ fovy < Lits.radFull / 2 ∧ 0 ≤ h ∧ ¬ a < 0 ∧ absDiffEqD a (0 : K) = false ∧
      absDiffEqD f n = false ∧ ¬ planarFin fovy h ∧
      ((n < f ∧ ¬ focal fovy h < n ∧ ¬ f < focal fovy h) ∨ (f < n ∧ ¬ focal fovy h < f ∧ ¬ n < focal fovy h)) ]
theorem planar_partition_excl (fovy a h n f : K) : Excl (planarPaths fovy a h n f ++ planarUntraced fovy a h n f) := by
  simp only [planarPaths, planarUntraced, List.cons_append, List.nil_append, AnyOf, Excl]
  generalize focal fovy h = fp
  generalize planarReg fovy h = hreg
  generalize planarFin fovy h = hfin
  generalize -((Lits.radFull : K) / 2) = nP
  generalize (Lits.radFull : K) / 2 = P
  generalize absDiffEqD (-a) (0 : K) = za'
  generalize absDiffEqD a (0 : K) = za
  generalize absDiffEqD f n = zf
  excl_tac
theorem planar_partition_all (fovy a h n f : K) : AnyOf (planarPaths fovy a h n f ++ planarUntraced fovy a h n f) := by
  simp only [planarPaths, planarUntraced, List.cons_append, List.nil_append, AnyOf, Excl]
  generalize focal fovy h = fp
  generalize planarReg fovy h = hreg
  generalize planarFin fovy h = hfin
  generalize -((Lits.radFull : K) / 2) = nP
  generalize (Lits.radFull : K) / 2 = P
  generalize absDiffEqD (-a) (0 : K) = za'
  generalize absDiffEqD a (0 : K) = za
  generalize absDiffEqD f n = zf
  grind (splits := 60)
theorem planar_excl (fovy a h n f : K) : Excl (planarPaths fovy a h n f) :=
  excl_append_left _ _ (planar_partition_excl fovy a h n f)
/-- NOT exhaustive (this file's path list; the remainder was traced later: exact remainder in `Cover4.planar_cover`, exhaustive away from it in `Cover4.planar_cover_regular`): the covered set is the complement of the seven untraced classes -/
theorem planar_cover (fovy a h n f : K) :
    AnyOf (planarPaths fovy a h n f) ↔ ¬ AnyOf (planarUntraced fovy a h n f) :=
  cover_of_partition _ _ (planar_partition_excl fovy a h n f) (planar_partition_all fovy a h n f)
/-- on the part of the input space that the property statement (C10) is about -- `fovy` strictly inside
`(-π, π)`, a non-negative aspect, and away from the two IEEE-divergent classes -- the twelve paths are
exhaustive once `near = far` implies `far ≈ near` (reflexivity of `abs_diff_eq`) -/
theorem planar_cover_regular (fovy a h n f : K) (h1 : -(Lits.radFull / 2) < fovy) (h2 : fovy < Lits.radFull / 2)
    (ha : ¬ a < 0) (hreg : planarReg fovy h) (hfin : planarFin fovy h)
    (hrefl : f = n → absDiffEqD f n = true) :
    AnyOf (planarPaths fovy a h n f) ↔ True := by
  rw [planar_cover]
  simp only [planarUntraced, AnyOf, or_false, iff_true]
  have hnf : ¬ n < f → ¬ f < n → absDiffEqD f n = true := fun h3 h4 => hrefl (le_antisymm (not_lt.mp h3) (not_lt.mp h4))
  generalize focal fovy h = fp at *
  generalize planarReg fovy h = hreg' at *
  generalize planarFin fovy h = hfin' at *
  generalize -((Lits.radFull : K) / 2) = nP at *
  generalize (Lits.radFull : K) / 2 = P at *
  generalize absDiffEqD (-a) (0 : K) = za' at *
  generalize absDiffEqD a (0 : K) = za at *
  generalize absDiffEqD f n = zf at *
  grind

/-- `From<PerspectiveFov> for Matrix4` (`fovy` in radians), in this order: `t_perspective_ok`, `t_perspective_bad_fovy`,
`t_perspective_bad_near` (`Trace/C10.lean`); `C10Paths.t_perspective_bad_fovy_zero`, `…_bad_fovy_hi`, `…_bad_aspect`,
`…_bad_far`, `…_bad_nf`, `…_ok_neg_aspect` -/
def perspectivePaths (fovy a n f : K) : List Prop :=
  [ 0 < fovy ∧ fovy < Lits.radFull / 2 ∧ ¬ a < 0 ∧ absDiffEqD a (0 : K) = false ∧ 0 < n ∧ 0 < f ∧
      absDiffEqD f n = false,
    fovy < 0,
    0 < fovy ∧ fovy < Lits.radFull / 2 ∧ ¬ a < 0 ∧ absDiffEqD a (0 : K) = false ∧ ¬ 0 < n,
    fovy = 0,
    0 < fovy ∧ Lits.radFull / 2 < fovy,
    0 < fovy ∧ fovy < Lits.radFull / 2 ∧ ¬ a < 0 ∧ absDiffEqD a (0 : K) = true,
    0 < fovy ∧ fovy < Lits.radFull / 2 ∧ ¬ a < 0 ∧ absDiffEqD a (0 : K) = false ∧ 0 < n ∧ ¬ 0 < f,
    0 < fovy ∧ fovy < Lits.radFull / 2 ∧ ¬ a < 0 ∧ absDiffEqD a (0 : K) = false ∧ 0 < n ∧ 0 < f ∧
      absDiffEqD f n = true,
    0 < fovy ∧ fovy < Lits.radFull / 2 ∧ a < 0 ∧ absDiffEqD (-a) (0 : K) = false ∧ 0 < n ∧ 0 < f ∧
      absDiffEqD f n = false ]
/-- what remains untraced of `From<PerspectiveFov>`: `fovy = π` (the `Equal` outcome of `fovy ? turn_div_2`; panic),
and every rejected input with a negative aspect (`|aspect| ≈ 0`, `near ≤ 0`, `far ≤ 0`, `far ≈ near`; all panic) -/
def perspectiveUntraced (fovy a n f : K) : List Prop :=
  [ 0 < fovy ∧ ¬ fovy < Lits.radFull / 2 ∧ ¬ Lits.radFull / 2 < fovy,
    0 < fovy ∧ fovy < Lits.radFull / 2 ∧ a < 0 ∧
      ¬ (absDiffEqD (-a) (0 : K) = false ∧ 0 < n ∧ 0 < f ∧ absDiffEqD f n = false) ]
theorem perspective_partition_excl (fovy a n f : K) :
    Excl (perspectivePaths fovy a n f ++ perspectiveUntraced fovy a n f) := by
  simp only [perspectivePaths, perspectiveUntraced, List.cons_append, List.nil_append, AnyOf, Excl]
  generalize (Lits.radFull : K) / 2 = P
  generalize absDiffEqD (-a) (0 : K) = za'
  generalize absDiffEqD a (0 : K) = za
  generalize absDiffEqD f n = zf
  excl_tac
theorem perspective_partition_all (fovy a n f : K) :
    AnyOf (perspectivePaths fovy a n f ++ perspectiveUntraced fovy a n f) := by
  simp only [perspectivePaths, perspectiveUntraced, List.cons_append, List.nil_append, AnyOf, Excl]
  generalize (Lits.radFull : K) / 2 = P
  generalize absDiffEqD (-a) (0 : K) = za'
  generalize absDiffEqD a (0 : K) = za
  generalize absDiffEqD f n = zf
  grind (splits := 60)
theorem perspective_excl (fovy a n f : K) : Excl (perspectivePaths fovy a n f) :=
  excl_append_left _ _ (perspective_partition_excl fovy a n f)
/-- NOT exhaustive (this file's path list; the remainder was traced later: exhaustive in `Cover4.perspective_cover`): the covered set is the complement of the two untraced classes -/
theorem perspective_cover (fovy a n f : K) :
    AnyOf (perspectivePaths fovy a n f) ↔ ¬ AnyOf (perspectiveUntraced fovy a n f) :=
  cover_of_partition _ _ (perspective_partition_excl fovy a n f) (perspective_partition_all fovy a n f)
/-- the same, readable: everything except `fovy = π` and the rejected inputs with a negative aspect -/
theorem perspective_cover_explicit (fovy a n f : K) :
    AnyOf (perspectivePaths fovy a n f) ↔
      (¬ (0 < fovy ∧ fovy = Lits.radFull / 2) ∧
       (0 < fovy → fovy < Lits.radFull / 2 → a < 0 →
          (absDiffEqD (-a) (0 : K) = false ∧ 0 < n ∧ 0 < f ∧ absDiffEqD f n = false))) := by
  rw [perspective_cover]
  simp only [perspectiveUntraced, AnyOf, or_false]
  generalize (Lits.radFull : K) / 2 = P
  generalize absDiffEqD (-a) (0 : K) = za'
  generalize absDiffEqD f n = zf
  grind
/-- with a non-negative aspect and `fovy ≠ π` (in particular on every input that the assertions accept with a
non-negative aspect) the nine paths are exhaustive -/
theorem perspective_cover_nonneg_aspect (fovy a n f : K) (ha : ¬ a < 0) (hπ : fovy ≠ Lits.radFull / 2) :
    AnyOf (perspectivePaths fovy a n f) ↔ True := by
  rw [perspective_cover_explicit]
  exact iff_true_intro ⟨fun h => hπ h.2, fun _ _ h => absurd h ha⟩

/-- `perspective(Deg(fovy), …)`: `C10Paths.t_perspective_deg_ok`, `C10Paths.t_perspective_deg_bad_fovy`: paths 0 and 1
of `perspectivePaths` at the converted angle -/
def perspectiveDegPaths (fovy a n f : K) : List Prop :=
  [ nth (perspectivePaths (degToRad fovy) a n f) 0, nth (perspectivePaths (degToRad fovy) a n f) 1 ]
theorem perspective_deg_excl (fovy a n f : K) : Excl (perspectiveDegPaths fovy a n f) := by
  simp only [perspectiveDegPaths, perspectivePaths, nth, AnyOf, Excl]
  generalize degToRad fovy = d
  excl_tac
/-- NOT exhaustive (this file's path list; the remainder was traced later: exhaustive in `Cover4.perspective_deg_cover`): negative angle (panic), or everything accepted with a non-negative aspect.
Untraced under this entry point: the other seven paths of `perspectivePaths` and its two untraced classes. -/
theorem perspective_deg_cover (fovy a n f : K) :
    AnyOf (perspectiveDegPaths fovy a n f) ↔
      (degToRad fovy < 0 ∨
       (0 < degToRad fovy ∧ degToRad fovy < Lits.radFull / 2 ∧ 0 ≤ a ∧ absDiffEqD a (0 : K) = false ∧ 0 < n ∧ 0 < f ∧
         absDiffEqD f n = false)) := by
  simp only [perspectiveDegPaths, perspectivePaths, nth, AnyOf, or_false, not_lt]
  tauto

/-- struct-form entry points, one accepting path each: `C10Paths.t_frustum_s_ok` (`Perspective { .. }.into()`),
`C10Paths.t_perspective_s_ok` (`PerspectiveFov { .. }.into()`), `C10Paths.t_planar_s_ok` (`PlanarFov { .. }.into()`);
`C10Paths.t_ortho_s` makes no comparison.  Untraced under these entry points: every other path of the function
(the code is the same `From` impl that the free functions call). -/
def frustumSPaths (l r b t n f : K) : List Prop := [ nth (Cover.frustumPaths l r b t n f) 0 ]
def perspectiveSPaths (fovy a n f : K) : List Prop := [ nth (perspectivePaths fovy a n f) 0 ]
def planarSPaths (fovy a h n f : K) : List Prop := [ nth (planarPaths fovy a h n f) 0 ]
/-- NOT exhaustive (this file's path list; the remainder was traced later: exhaustive in `Cover4.frustum_s_cover`) -/
theorem frustum_s_cover (l r b t n f : K) : AnyOf (frustumSPaths l r b t n f) ↔ (l ≤ r ∧ b ≤ t ∧ n ≤ f) := by
  simp only [frustumSPaths, Cover.frustumPaths, nth, AnyOf, or_false]
/-- NOT exhaustive (this file's path list; the remainder was traced later: exhaustive in `Cover4.perspective_s_cover`) -/
theorem perspective_s_cover (fovy a n f : K) :
    AnyOf (perspectiveSPaths fovy a n f) ↔ nth (perspectivePaths fovy a n f) 0 := by
  simp only [perspectiveSPaths, AnyOf, or_false]
/-- NOT exhaustive (this file's path list; the remainder was traced later: `Cover4.planar_s_cover`, `Cover4.planar_s_cover_regular`) -/
theorem planar_s_cover (fovy a h n f : K) :
    AnyOf (planarSPaths fovy a h n f) ↔ nth (planarPaths fovy a h n f) 0 := by
  simp only [planarSPaths, AnyOf, or_false]
end C10

/-! ## C15: `Quaternion::between_vectors`, `Quaternion::from_arc`, `Basis3::between_vectors` -/
section C15
variable [Approx K] [Transc K] [Lits K]

/-- `t_q_between_vectors_same`, `t_q_between_vectors_general` (`Trace/C15.lean`), `C15Paths.t_q_between_vectors_opp_x`,
`C15Paths.t_q_between_vectors_opp_y`.  Three `ulps_eq!`: `dot ≈ 1`, `dot / k ≈ -1`, `|a × x|² ≈ 0`. -/
def betweenVectorsPaths (a b : V3 K) : List Prop :=
  [ ulpsEqD (V3.dot a b) 1 = true,
    ulpsEqD (V3.dot a b) 1 = false ∧
      ulpsEqD (V3.dot a b / Transc.sqrt (a.magnitude2 * b.magnitude2)) (-1) = false,
    ulpsEqD (V3.dot a b) 1 = false ∧
      ulpsEqD (V3.dot a b / Transc.sqrt (a.magnitude2 * b.magnitude2)) (-1) = true ∧
      ulpsEqD (V3.cross a V3.unitX).magnitude2 0 = false,
    ulpsEqD (V3.dot a b) 1 = false ∧
      ulpsEqD (V3.dot a b / Transc.sqrt (a.magnitude2 * b.magnitude2)) (-1) = true ∧
      ulpsEqD (V3.cross a V3.unitX).magnitude2 0 = true ]
theorem between_vectors_excl (a b : V3 K) : Excl (betweenVectorsPaths a b) := by
  simp only [betweenVectorsPaths, AnyOf, Excl]
  generalize ulpsEqD (V3.dot a b) 1 = t1
  generalize ulpsEqD (V3.dot a b / Transc.sqrt (a.magnitude2 * b.magnitude2)) (-1) = t2
  generalize ulpsEqD (V3.cross a V3.unitX).magnitude2 0 = t3
  cases t1 <;> cases t2 <;> cases t3 <;> simp
/-- exhaustive (was: all but the model's `opposite` branch).  Nothing remains untraced. -/
theorem between_vectors_cover (a b : V3 K) : AnyOf (betweenVectorsPaths a b) ↔ True := by
  simp only [betweenVectorsPaths, AnyOf, Excl]
  generalize ulpsEqD (V3.dot a b) 1 = t1
  generalize ulpsEqD (V3.dot a b / Transc.sqrt (a.magnitude2 * b.magnitude2)) (-1) = t2
  generalize ulpsEqD (V3.cross a V3.unitX).magnitude2 0 = t3
  cases t1 <;> cases t2 <;> cases t3 <;> simp
/-- the four paths in the model's vocabulary: the two new ones are its `opposite` branch -/
theorem between_vectors_branch_opposite (a b : V3 K) :
    Quat.betweenVectorsBranch a b = .opposite ↔
      (nth (betweenVectorsPaths a b) 2 ∨ nth (betweenVectorsPaths a b) 3) := by
  simp only [betweenVectorsPaths, nth, Quat.betweenVectorsBranch]
  generalize ulpsEqD (V3.dot a b) 1 = t1
  generalize ulpsEqD (V3.dot a b / Transc.sqrt (a.magnitude2 * b.magnitude2)) (-1) = t2
  generalize ulpsEqD (V3.cross a V3.unitX).magnitude2 0 = t3
  cases t1 <;> cases t2 <;> cases t3 <;> simp

/-- `Basis3::between_vectors`: only `C15Paths.t_b3_between_vectors_general` -/
def b3BetweenVectorsPaths (a b : V3 K) : List Prop := [ nth (betweenVectorsPaths a b) 1 ]
/-- NOT exhaustive (this file's path list; the remainder was traced later: exhaustive in `Cover4.b3_between_vectors_cover`): the model's `general` branch only; untraced under this entry point: `same` and both
`opposite` paths (traced as `Quaternion::between_vectors`, of which this is `.into()`) -/
theorem b3_between_vectors_cover (a b : V3 K) :
    AnyOf (b3BetweenVectorsPaths a b) ↔ Quat.betweenVectorsBranch a b = .general := by
  simp only [b3BetweenVectorsPaths, betweenVectorsPaths, nth, AnyOf, or_false, Quat.betweenVectorsBranch]
  generalize ulpsEqD (V3.dot a b) 1 = t1
  generalize ulpsEqD (V3.dot a b / Transc.sqrt (a.magnitude2 * b.magnitude2)) (-1) = t2
  cases t1 <;> cases t2 <;> simp

/-- `from_arc(src, dst, None)`: `t_q_from_arc_same`, `t_q_from_arc_general` (`Trace/C15.lean`),
`C15Paths.t_q_from_arc_opp_x`, `C15Paths.t_q_from_arc_opp_y`.  On the opposite branch the derived
`UlpsEq for Vector3` tests `v = unit_x × src` component by component with short-circuiting `&&`:
both traced paths have `v.x ≈ 0` and `v.y ≈ 0` and differ in `v.z ≈ 0`. -/
def fromArcPaths (a b : V3 K) : List Prop :=
  [ ulpsEqD (V3.dot a b) (Transc.sqrt (a.magnitude2 * b.magnitude2)) = true,
    ulpsEqD (V3.dot a b) (Transc.sqrt (a.magnitude2 * b.magnitude2)) = false ∧
      ulpsEqD (V3.dot a b) (-Transc.sqrt (a.magnitude2 * b.magnitude2)) = false,
    ulpsEqD (V3.dot a b) (Transc.sqrt (a.magnitude2 * b.magnitude2)) = false ∧
      ulpsEqD (V3.dot a b) (-Transc.sqrt (a.magnitude2 * b.magnitude2)) = true ∧
      ulpsEqD (V3.cross V3.unitX a).x 0 = true ∧ ulpsEqD (V3.cross V3.unitX a).y 0 = true ∧
      ulpsEqD (V3.cross V3.unitX a).z 0 = false,
    ulpsEqD (V3.dot a b) (Transc.sqrt (a.magnitude2 * b.magnitude2)) = false ∧
      ulpsEqD (V3.dot a b) (-Transc.sqrt (a.magnitude2 * b.magnitude2)) = true ∧
      ulpsEqD (V3.cross V3.unitX a).x 0 = true ∧ ulpsEqD (V3.cross V3.unitX a).y 0 = true ∧
      ulpsEqD (V3.cross V3.unitX a).z 0 = true ]
/-- untraced paths of `from_arc(.., None)`: opposite vectors and the component-wise test stops at `v.x`
(infeasible: `v.x = 0·z - 0·y`), or stops at `v.y = -src.z` (FEASIBLE: e.g. `src = (0, 0, 1)`, `dst = -src`;
the value computed is that of path `opp_x`, the trace is one comparison shorter) -/
def fromArcUntraced (a b : V3 K) : List Prop :=
  [ ulpsEqD (V3.dot a b) (Transc.sqrt (a.magnitude2 * b.magnitude2)) = false ∧
      ulpsEqD (V3.dot a b) (-Transc.sqrt (a.magnitude2 * b.magnitude2)) = true ∧
      ulpsEqD (V3.cross V3.unitX a).x 0 = false,
    ulpsEqD (V3.dot a b) (Transc.sqrt (a.magnitude2 * b.magnitude2)) = false ∧
      ulpsEqD (V3.dot a b) (-Transc.sqrt (a.magnitude2 * b.magnitude2)) = true ∧
      ulpsEqD (V3.cross V3.unitX a).x 0 = true ∧ ulpsEqD (V3.cross V3.unitX a).y 0 = false ]
theorem from_arc_partition_excl (a b : V3 K) : Excl (fromArcPaths a b ++ fromArcUntraced a b) := by
  simp only [fromArcPaths, fromArcUntraced, List.cons_append, List.nil_append, AnyOf, Excl]
  generalize ulpsEqD (V3.dot a b) (Transc.sqrt (a.magnitude2 * b.magnitude2)) = t1
  generalize ulpsEqD (V3.dot a b) (-Transc.sqrt (a.magnitude2 * b.magnitude2)) = t2
  generalize ulpsEqD (V3.cross V3.unitX a).x 0 = tx
  generalize ulpsEqD (V3.cross V3.unitX a).y 0 = ty
  generalize ulpsEqD (V3.cross V3.unitX a).z 0 = tz
  cases t1 <;> cases t2 <;> cases tx <;> cases ty <;> cases tz <;> simp
theorem from_arc_partition_all (a b : V3 K) : AnyOf (fromArcPaths a b ++ fromArcUntraced a b) := by
  simp only [fromArcPaths, fromArcUntraced, List.cons_append, List.nil_append, AnyOf, Excl]
  generalize ulpsEqD (V3.dot a b) (Transc.sqrt (a.magnitude2 * b.magnitude2)) = t1
  generalize ulpsEqD (V3.dot a b) (-Transc.sqrt (a.magnitude2 * b.magnitude2)) = t2
  generalize ulpsEqD (V3.cross V3.unitX a).x 0 = tx
  generalize ulpsEqD (V3.cross V3.unitX a).y 0 = ty
  generalize ulpsEqD (V3.cross V3.unitX a).z 0 = tz
  cases t1 <;> cases t2 <;> cases tx <;> cases ty <;> cases tz <;> simp
theorem from_arc_excl (a b : V3 K) : Excl (fromArcPaths a b) :=
  excl_append_left _ _ (from_arc_partition_excl a b)
/-- NOT exhaustive (this file's path list; the remainder was traced later: exhaustive in `Cover4.from_arc_cover` given `ulps_eq!(0, 0)`): the covered set is the complement of the two untraced paths -/
theorem from_arc_cover (a b : V3 K) : AnyOf (fromArcPaths a b) ↔ ¬ AnyOf (fromArcUntraced a b) :=
  cover_of_partition _ _ (from_arc_partition_excl a b) (from_arc_partition_all a b)
omit [LinearOrder K] [Approx K] [Transc K] [Lits K] in
theorem cross_unitX_x (a : V3 K) : (V3.cross V3.unitX a).x = 0 := by simp [V3.cross, V3.unitX]
omit [LinearOrder K] [Approx K] [Transc K] [Lits K] in
theorem cross_unitX_y (a : V3 K) : (V3.cross V3.unitX a).y = -a.z := by simp [V3.cross, V3.unitX]
/-- with `ulps_eq!(0, 0)` (reflexivity at zero) exactly one input class is left out: opposite vectors whose
`src.z` is not `ulps_eq` to zero -/
theorem from_arc_cover_refl (a b : V3 K) (h00 : ulpsEqD (0 : K) 0 = true) :
    AnyOf (fromArcPaths a b) ↔
      ¬ (Quat.fromArcBranch a b = .opposite ∧ ulpsEqD (-a.z) 0 = false) := by
  rw [from_arc_cover]
  simp only [fromArcUntraced, AnyOf, or_false, cross_unitX_x, cross_unitX_y, h00, Quat.fromArcBranch]
  generalize ulpsEqD (V3.dot a b) (Transc.sqrt (a.magnitude2 * b.magnitude2)) = t1
  generalize ulpsEqD (V3.dot a b) (-Transc.sqrt (a.magnitude2 * b.magnitude2)) = t2
  generalize ulpsEqD (-a.z) 0 = ty
  cases t1 <;> cases t2 <;> cases ty <;> simp

/-- `from_arc(src, dst, Some(f))`: `C15Paths.t_q_from_arc_fb_same`, `…_fb_general`, `…_fb_opp` (no comparison after
the branch: the fallback axis is used as given) -/
def fromArcFbPaths (a b : V3 K) : List Prop :=
  [ ulpsEqD (V3.dot a b) (Transc.sqrt (a.magnitude2 * b.magnitude2)) = true,
    ulpsEqD (V3.dot a b) (Transc.sqrt (a.magnitude2 * b.magnitude2)) = false ∧
      ulpsEqD (V3.dot a b) (-Transc.sqrt (a.magnitude2 * b.magnitude2)) = false,
    ulpsEqD (V3.dot a b) (Transc.sqrt (a.magnitude2 * b.magnitude2)) = false ∧
      ulpsEqD (V3.dot a b) (-Transc.sqrt (a.magnitude2 * b.magnitude2)) = true ]
theorem from_arc_fb_excl (a b : V3 K) : Excl (fromArcFbPaths a b) := by
  simp only [fromArcFbPaths, AnyOf, Excl]
  generalize ulpsEqD (V3.dot a b) (Transc.sqrt (a.magnitude2 * b.magnitude2)) = t1
  generalize ulpsEqD (V3.dot a b) (-Transc.sqrt (a.magnitude2 * b.magnitude2)) = t2
  cases t1 <;> cases t2 <;> simp
/-- exhaustive (was: every call with a fallback untraced).  Nothing remains untraced. -/
theorem from_arc_fb_cover (a b : V3 K) : AnyOf (fromArcFbPaths a b) ↔ True := by
  simp only [fromArcFbPaths, AnyOf, Excl]
  generalize ulpsEqD (V3.dot a b) (Transc.sqrt (a.magnitude2 * b.magnitude2)) = t1
  generalize ulpsEqD (V3.dot a b) (-Transc.sqrt (a.magnitude2 * b.magnitude2)) = t2
  cases t1 <;> cases t2 <;> simp
end C15

/-! ## C08: `Decomposed<_, Basis3>` / `Decomposed<_, Basis2>`: `inverse_transform`, `inverse_transform_vector`, `look_at*`

The harness builds the `Basis3` from a quaternion `q` and the `Basis2` from an angle `a`: the path
conditions mention `q.toM3.det` and `(M2.fromAngle a).det`.  `Basis{2,3}::invert` is
`Matrix::invert().unwrap()`: a singular rotation matrix is a panic.
`Decomposed<_, Quaternion>` is unchanged (`Cover.dqInverseTransformPaths`, exhaustive). -/
section C08
variable [Approx K] [Transc K] [Lits K]

/-- `C08Paths.t_db3_inverse_transform_some`, `…_none`, `…_panic` -/
def db3InverseTransformPaths (s : K) (q : Quat K) : List Prop :=
  [ ulpsEqD s 0 = false ∧ q.toM3.det ≠ 0, ulpsEqD s 0 = true, ulpsEqD s 0 = false ∧ q.toM3.det = 0 ]
theorem db3_inverse_transform_excl (s : K) (q : Quat K) : Excl (db3InverseTransformPaths s q) := by
  simp only [db3InverseTransformPaths, AnyOf, Excl]
  generalize ulpsEqD s 0 = t
  cases t <;> simp
/-- exhaustive: all three outcomes of the model (`.ok`, `.none`, `.panic`).  Nothing remains untraced. -/
theorem db3_inverse_transform_cover (s : K) (q : Quat K) : AnyOf (db3InverseTransformPaths s q) ↔ True := by
  simp only [db3InverseTransformPaths, AnyOf, Excl]
  generalize ulpsEqD s 0 = t
  cases t <;> simp [em']

/-- `C08Paths.t_db2_inverse_transform_some`, `…_none` -/
def db2InverseTransformPaths (s a : K) : List Prop :=
  [ ulpsEqD s 0 = false ∧ (M2.fromAngle a).det ≠ 0, ulpsEqD s 0 = true ]
/-- untraced: the `unwrap` panic on a singular `from_angle` matrix -/
def db2InverseTransformUntraced (s a : K) : List Prop := [ ulpsEqD s 0 = false ∧ (M2.fromAngle a).det = 0 ]
theorem db2_inverse_transform_excl (s a : K) : Excl (db2InverseTransformPaths s a) := by
  simp only [db2InverseTransformPaths, AnyOf, Excl]
  generalize ulpsEqD s 0 = t
  cases t <;> simp
/-- NOT exhaustive in general … -/
theorem db2_inverse_transform_cover (s a : K) :
    AnyOf (db2InverseTransformPaths s a) ↔ ¬ AnyOf (db2InverseTransformUntraced s a) := by
  simp only [db2InverseTransformPaths, db2InverseTransformUntraced, AnyOf, Excl]
  generalize ulpsEqD s 0 = t
  cases t <;> simp
/-- … but the untraced panic is infeasible, and the two paths exhaustive, as soon as `cos² + sin² = 1` at `a`
(true of the real functions; false only through rounding) -/
theorem db2_inverse_transform_cover_pythagoras (s a : K)
    (h : Transc.cos a * Transc.cos a + Transc.sin a * Transc.sin a = (1 : K)) :
    AnyOf (db2InverseTransformPaths s a) ↔ True := by
  rw [db2_inverse_transform_cover]
  simp only [db2InverseTransformUntraced, AnyOf, or_false, iff_true, not_and]
  intro _ hd
  have : (M2.fromAngle a).det = (1 : K) := by
    rw [← h]; simp [M2.fromAngle, M2.det, M2.new]
  rw [this] at hd; exact one_ne_zero hd

/-- `inverse_transform_vector`: only the `Some` path: `C08Paths.t_db3_inverse_transform_vector`,
`C08Paths.t_db2_inverse_transform_vector` -/
def db3InverseTransformVectorPaths (s : K) (q : Quat K) : List Prop := [ ulpsEqD s 0 = false ∧ q.toM3.det ≠ 0 ]
def db2InverseTransformVectorPaths (s a : K) : List Prop := [ ulpsEqD s 0 = false ∧ (M2.fromAngle a).det ≠ 0 ]
/-- NOT exhaustive (this file's path list; the remainder was traced later: exhaustive in `Cover4.db3_inverse_transform_vector_cover`): untraced: `ulps_eq!(scale, 0)` true (`None`), singular rotation matrix (panic) -/
theorem db3_inverse_transform_vector_cover (s : K) (q : Quat K) :
    AnyOf (db3InverseTransformVectorPaths s q) ↔ (ulpsEqD s 0 = false ∧ q.toM3.det ≠ 0) := by
  simp only [db3InverseTransformVectorPaths, AnyOf, or_false]
/-- NOT exhaustive (this file's path list; the remainder was traced later: `Cover4.db2_inverse_transform_vector_cover`, exhaustive given `cos² + sin² = 1` in `Cover4.db2_inverse_transform_vector_cover_pythagoras`): untraced: `ulps_eq!(scale, 0)` true (`None`), singular rotation matrix (panic) -/
theorem db2_inverse_transform_vector_cover (s a : K) :
    AnyOf (db2InverseTransformVectorPaths s a) ↔ (ulpsEqD s 0 = false ∧ (M2.fromAngle a).det ≠ 0) := by
  simp only [db2InverseTransformVectorPaths, AnyOf, or_false]

/-- `Decomposed<_, Quaternion>::look_at` (deprecated alias of `look_at_lh`): `C08Paths.t_dq_look_at`, the `trace`
path of `From<Matrix3> for Quaternion` only -/
def dqLookAtPaths (e c : P3 K) (u : V3 K) : List Prop := Cover.dqLookAtLhPaths e c u
/-- NOT exhaustive (this file's path list; the remainder was traced later: exhaustive in `Cover4.dq_look_at_cover`): one of the five paths of the conversion -/
theorem dq_look_at_cover (e c : P3 K) (u : V3 K) :
    AnyOf (dqLookAtPaths e c u) ↔ (M3.lookToLh (c - e) u).toQuatBranch = .trace := Cover.dq_look_at_lh_cover e c u
/-- `Decomposed<_, Basis2>::look_at_lh`: `C08Paths.t_db2_look_at_lh`, the no-flip side of `Matrix2::look_at` only.
(`Decomposed<_, Basis3>::look_at{,_lh,_rh}` make no comparison: `C08Paths.t_db3_look_at*`.) -/
def db2LookAtLhPaths (e c : P2 K) (u : V2 K) : List Prop := [ ¬ u.y * (c - e).x ≤ u.x * (c - e).y ]
/-- NOT exhaustive (this file's path list; the remainder was traced later: exhaustive in `Cover4.db2_look_at_lh_cover`): untraced: the flip side -/
theorem db2_look_at_lh_cover (e c : P2 K) (u : V2 K) :
    AnyOf (db2LookAtLhPaths e c u) ↔ u.x * (c.y - e.y) < u.y * (c.x - e.x) := by
  simp only [db2LookAtLhPaths, AnyOf, or_false, not_le, P2.subp_def]
end C08

/-! ## C05: `Quaternion::from(Basis3)` -/
section C05
variable [Transc K]
/-- `C05Paths.t_b3_to_quat_trace`, `…_xx`, `…_yy`, `…_zz`, `…_zz2`: the five paths of `From<Matrix3> for Quaternion`
at the matrix of `Basis3::from(q)` -/
def b3ToQuatPaths (q : Quat K) : List Prop := Cover.toQuatPaths (Basis3.fromQuaternion q).mat
theorem b3_to_quat_excl (q : Quat K) : Excl (b3ToQuatPaths q) := Cover.to_quat_excl _
/-- exhaustive (the sixth syntactic path is infeasible: `Cover.to_quat_sixth_infeasible`).  Nothing remains untraced. -/
theorem b3_to_quat_cover (q : Quat K) : AnyOf (b3ToQuatPaths q) ↔ True := Cover.to_quat_cover _
end C05

/-! ## C09: `Matrix2::look_at_stable`, `Basis2::look_at_stable`, `Basis2::look_at`, `Quaternion::look_at` -/
section C09
variable [Transc K]
/-- `Matrix2::look_at_stable(dir, flip)`: the flag is a constant of each kernel, not a comparison:
`C09Paths.t_m2_look_at_stable_noflip`, `C09Paths.t_m2_look_at_stable_flip` -/
def m2LookAtStablePaths (flip : Bool) : List Prop := [ flip = false, flip = true ]
theorem m2_look_at_stable_excl (flip : Bool) : Excl (m2LookAtStablePaths flip) := by
  simp only [m2LookAtStablePaths, AnyOf, Excl]; cases flip <;> simp
/-- exhaustive -/
theorem m2_look_at_stable_cover (flip : Bool) : AnyOf (m2LookAtStablePaths flip) ↔ True := by
  simp only [m2LookAtStablePaths, AnyOf, Excl]; cases flip <;> simp
/-- `Basis2::look_at_stable`: only `C09Paths.t_b2_look_at_stable_flip` -/
def b2LookAtStablePaths (flip : Bool) : List Prop := [ flip = true ]
/-- NOT exhaustive (this file's path list; the remainder was traced later: exhaustive in `Cover4.b2_look_at_stable_cover`): untraced: `flip = false` (same code as `Matrix2::look_at_stable`, traced there) -/
theorem b2_look_at_stable_cover (flip : Bool) : AnyOf (b2LookAtStablePaths flip) ↔ flip = true := by
  simp only [b2LookAtStablePaths, AnyOf, or_false]
/-- `Basis2::look_at`: `C09Paths.t_b2_look_at_flip`, `C09Paths.t_b2_look_at_noflip`: the comparison of `Matrix2::look_at` -/
def b2LookAtPaths (d u : V2 K) : List Prop := Cover.m2LookAtPaths d u
theorem b2_look_at_excl (d u : V2 K) : Excl (b2LookAtPaths d u) := Cover.m2_look_at_excl d u
/-- exhaustive -/
theorem b2_look_at_cover (d u : V2 K) : AnyOf (b2LookAtPaths d u) ↔ True := Cover.m2_look_at_cover d u
/-- `Quaternion::look_at`: `C09Paths.t_q_look_at`, the `trace` path of the conversion only -/
def qLookAtPaths (d u : V3 K) : List Prop := [ 0 ≤ (M3.lookToLh d u).trace ]
/-- NOT exhaustive (this file's path list; the remainder was traced later: exhaustive in `Cover4.q_look_at_cover`): one of the five paths of `From<Matrix3> for Quaternion`; the other four are untraced under this
entry point (they are traced as `m3.to_quat` and as `Quaternion::from(Basis3)`) -/
theorem q_look_at_cover (d u : V3 K) :
    AnyOf (qLookAtPaths d u) ↔ (M3.lookToLh d u).toQuatBranch = .trace := by
  rw [Cover.to_quat_branch_trace]; simp only [qLookAtPaths, AnyOf, or_false]
end C09

/-! ## non-vacuity

The hypotheses of the conditional theorems above are satisfiable, and the untraced paths called
"feasible" in the doc comments are inhabited: witnesses over `ℚ` with toy parameters (exact equality
for the approximate comparisons, constant functions for `sqrt`/`tan`/…, `a % T = a`). -/
section Witness
/-- exact equality as `abs_diff_eq` / `relative_eq` / `ulps_eq` -/
local instance toyApprox : Approx ℚ :=
  ⟨fun a b _ => decide (a = b), fun a b _ _ => decide (a = b), fun a b _ _ => decide (a = b), 0, 0, 0⟩
/-- `sqrt = 1`, `sin = 0`, `cos = 1`, `tan = 1`, the inverse functions `0` -/
local instance toyTransc : Transc ℚ := ⟨fun _ => 1, fun _ => 0, fun _ => 1, fun _ => 1, fun _ => 0, fun _ => 0, fun _ => 0, fun _ _ => 0⟩
local instance toyLits : Lits ℚ := ⟨9995 / 10000, 499 / 1000, 6, 1, 1, 1 / 1000000⟩
local instance toyFRem : FRem ℚ := ⟨fun a _ => a⟩

example : nth (clampPaths (0 : ℚ)) 0 := by simp [clampPaths, nth, clampUnclamped]
example : nth (clampPaths (2 : ℚ)) 1 := by simp [clampPaths, nth, clampHigh]
example : nth (clampPaths (-2 : ℚ)) 2 := by simp [clampPaths, nth, clampLow]; norm_num

/-- the remainder `-180` that `deg_normalize_signed_cover_ordered` leaves out is an untraced path -/
example : nth (degNormalizeSignedUntraced (-180 : ℚ)) 0 := by
  simp [degNormalizeSignedUntraced, nth, FRem.frem]; norm_num
/-- the new `Equal` paths of `Deg::normalize_signed` are inhabited -/
example : nth (degNormalizeSignedPaths (0 : ℚ)) 4 := by simp [degNormalizeSignedPaths, nth, FRem.frem]
example : nth (degNormalizeSignedPaths (180 : ℚ)) 5 := by simp [degNormalizeSignedPaths, nth, FRem.frem]; norm_num

/-- the hypotheses of `planar_cover_regular` hold at `fovy = 1, aspect = 1, height = 2, near = 1, far = 2` … -/
example : (-(Lits.radFull / 2) < (1 : ℚ)) ∧ ((1 : ℚ) < Lits.radFull / 2) ∧ ¬ (1 : ℚ) < 0 ∧ planarReg (1 : ℚ) 2 ∧
    planarFin (1 : ℚ) 2 ∧ ((2 : ℚ) = 1 → absDiffEqD (2 : ℚ) 1 = true) := by
  simp [planarReg, planarFin, tanZero, Rad.tan, Transc.tan, Lits.radFull]; norm_num
/-- … and that input takes the path `ok` -/
example : nth (planarPaths (1 : ℚ) 1 2 1 2) 0 := by
  simp [planarPaths, nth, planarReg, tanZero, focal, planarInvF, Rad.tan, Transc.tan, Lits.radFull, absDiffEqD,
    Approx.absDiffEq]
  norm_num
/-- the hypotheses of `perspective_cover_nonneg_aspect` hold at `fovy = 1, aspect = 1` -/
example : ¬ (1 : ℚ) < 0 ∧ (1 : ℚ) ≠ Lits.radFull / 2 := by simp [Lits.radFull]; norm_num
/-- the hypothesis of `from_arc_cover_refl` -/
example : ulpsEqD (0 : ℚ) 0 = true := by simp [ulpsEqD, Approx.ulpsEq]
/-- the FEASIBLE untraced path of `from_arc(.., None)`: `src = (0, 0, 1)`, `dst = -src` -/
example : nth (fromArcUntraced (⟨0, 0, 1⟩ : V3 ℚ) ⟨0, 0, -1⟩) 1 := by
  simp [fromArcUntraced, nth, ulpsEqD, Approx.ulpsEq, V3.dot, V3.mulEw, V3.sum, V3.cross, V3.unitX, Transc.sqrt]
  norm_num
/-- the hypothesis of `db2_inverse_transform_cover_pythagoras` -/
example : Transc.cos (0 : ℚ) * Transc.cos (0 : ℚ) + Transc.sin (0 : ℚ) * Transc.sin (0 : ℚ) = 1 := by
  simp [Transc.cos, Transc.sin]
end Witness

end Cg.Trace.Cover2
