import Cgm.Gen.C08
import Cgm.Model.Transform
/-! # T obligations for C08: `Decomposed` transforms as the code computes them -/
set_option linter.unusedSectionVars false
namespace Cg.Trace.C08
open Cg Cg.Gen.C08
variable {K : Type} [Field K] [LinearOrder K] [Approx K] [Transc K] [FRem K] [Lits K]

abbrev DQ (K : Type) := Decomposed (Quat K) (V3 K) K
abbrev DB2 (K : Type) := Decomposed (Basis2 K) (V2 K) K
def flq (d : DQ K) : List K := d.scale :: d.rot.toList ++ d.disp.toList
/-- the harness's `default_epsilon` for the exact scalar: 2^-52 -/
def eps52 : K := (1 : K) / (4503599627370496 : K)

attribute [local simp] Decomposed.concat Decomposed.transformVector Decomposed.transformPointV quatOps basis2Ops
  Decomposed.toM4 Decomposed.toM3 flq Basis2.rotateVector Basis2.mul M2.fromAngle

theorem t_dq_concat (d e : DQ K) :
    t_dq_concat (envL (flq d ++ flq e)) = .okS (flq (Decomposed.concat quatOps d e)) := by tr_auto
theorem t_dq_transform_point (d : DQ K) (p : P3 K) :
    t_dq_transform_point (envL (flq d ++ p.toList)) =
      .okS (P3.fromVec (Decomposed.transformPointV quatOps d p.toVec)).toList := by tr_auto
theorem t_dq_transform_vector (d : DQ K) (u : V3 K) :
    t_dq_transform_vector (envL (flq d ++ u.toList)) = .okS (Decomposed.transformVector quatOps d u).toList := by tr_auto
theorem t_dq_to_matrix (d : DQ K) : t_dq_to_matrix (envL (flq d)) = .okS (Decomposed.toM4 quatOps d).toList := by tr_auto
/-- `inverse_transform`: the only comparison is `ulps_eq!(scale, 0)`; when it is false the result is the model's -/
theorem t_dq_inverse_transform_some (d : DQ K) (h : ulpsEqD d.scale 0 = false) :
    (match Decomposed.inverseTransform quatOps d with
      | .ok r => t_dq_inverse_transform_some (envL (flq d)) = .okG (flq r) [.ulps d.scale 0 eps52 4 false]
      | _ => False) := by
  simp only [Decomposed.inverseTransform, h]
  simp [eps52]; tr_auto
theorem t_dq_inverse_transform_none (d : DQ K) :
    t_dq_inverse_transform_none (envL (flq d)) = .noneG [.ulps d.scale 0 eps52 4 true] := by simp [eps52]; tr_auto
/-- 2-D: `Basis2` values travel as their angle -/
theorem t_db2_concat (s t : K) (a b : K) (u w : V2 K) :
    t_db2_concat (envL ([s, a] ++ u.toList ++ [t, b] ++ w.toList)) =
      (let d : DB2 K := ⟨s, ⟨M2.fromAngle a⟩, u⟩
       let e : DB2 K := ⟨t, ⟨M2.fromAngle b⟩, w⟩
       let r := Decomposed.concat basis2Ops d e
       .okS (r.scale :: r.rot.mat.toList ++ r.disp.toList)) := by tr_auto
theorem t_db2_to_matrix (s a : K) (u : V2 K) :
    t_db2_to_matrix (envL ([s, a] ++ u.toList)) =
      .okS (Decomposed.toM3 basis2Ops (⟨s, ⟨M2.fromAngle a⟩, u⟩ : DB2 K)).toList := by tr_auto

/-! matrices as transforms: `concat` is the product in this order; `inverse_transform` is `invert`
(one comparison, `det == 0`) -/
theorem t_m3_concat2 (a b : M3 K) : t_m3_concat2 (envL (a.toList ++ b.toList)) = .okS (a * b).toList := by tr_auto
theorem t_m3_concat (a b : M3 K) : t_m3_concat (envL (a.toList ++ b.toList)) = .okS (a * b).toList := by tr_auto
theorem t_m4_concat (a b : M4 K) : t_m4_concat (envL (a.toList ++ b.toList)) = .okS (a * b).toList := by tr_auto
theorem t_m3_concat_self2 (a b : M3 K) : t_m3_concat_self2 (envL (a.toList ++ b.toList)) = .okS (a * b).toList := by tr_auto
/-- `<Matrix3 as Transform<Point3>>::concat_self` (the default method of the 3-D impl) -/
theorem t_m3_concat_self (a b : M3 K) : t_m3_concat_self (envL (a.toList ++ b.toList)) = .okS (a * b).toList := by tr_auto
theorem t_m4_concat_self (a b : M4 K) : t_m4_concat_self (envL (a.toList ++ b.toList)) = .okS (a * b).toList := by tr_auto
theorem t_dq_concat_self (d e : DQ K) :
    t_dq_concat_self (envL (flq d ++ flq e)) = .okS (flq (Decomposed.concat quatOps d e)) := by tr_auto
theorem t_dq_mul (d e : DQ K) :
    t_dq_mul (envL (flq d ++ flq e)) = .okS (flq (Decomposed.concat quatOps d e)) := by tr_auto
theorem t_dq_inverse_transform_vector (d : DQ K) (u : V3 K) (h : ulpsEqD d.scale 0 = false) :
    (match Decomposed.inverseTransformVector quatOps d u with
      | .ok r => t_dq_inverse_transform_vector (envL (flq d ++ u.toList)) = .okG r.toList [.ulps d.scale 0 eps52 4 false]
      | _ => False) := by
  simp only [Decomposed.inverseTransformVector, h]
  simp [eps52]; tr_auto
theorem t_m3_inverse_transform2_some (a : M3 K) (h : a.det ≠ 0) :
    t_m3_inverse_transform2_some (envL a.toList) = .okG ((a.inverseTransform.map M3.toList).getD []) [.eq a.det 0 false] := by
  have h' := h
  simp only [M3.det] at h'
  simp [envL, Tr.okG, M3.toList, V3.toList, M3.inverseTransform, M3.invert, h']
  tr_fin
theorem t_m3_inverse_transform_some (a : M3 K) (h : a.det ≠ 0) :
    t_m3_inverse_transform_some (envL a.toList) = .okG ((a.inverseTransform.map M3.toList).getD []) [.eq a.det 0 false] := by
  have h' := h
  simp only [M3.det] at h'
  simp [envL, Tr.okG, M3.toList, V3.toList, M3.inverseTransform, M3.invert, h']
  tr_fin
theorem t_m4_inverse_transform_some (a : M4 K) (h : a.det ≠ 0) :
    t_m4_inverse_transform_some (envL a.toList) = .okG ((a.inverseTransform.map M4.toList).getD []) [.eq a.det 0 false] := by
  have hi : a.invert = some (M4.new (M4.cf a.transpose (1 / a.det) 0 0) (M4.cf a.transpose (1 / a.det) 0 1)
      (M4.cf a.transpose (1 / a.det) 0 2) (M4.cf a.transpose (1 / a.det) 0 3)
      (M4.cf a.transpose (1 / a.det) 1 0) (M4.cf a.transpose (1 / a.det) 1 1)
      (M4.cf a.transpose (1 / a.det) 1 2) (M4.cf a.transpose (1 / a.det) 1 3)
      (M4.cf a.transpose (1 / a.det) 2 0) (M4.cf a.transpose (1 / a.det) 2 1)
      (M4.cf a.transpose (1 / a.det) 2 2) (M4.cf a.transpose (1 / a.det) 2 3)
      (M4.cf a.transpose (1 / a.det) 3 0) (M4.cf a.transpose (1 / a.det) 3 1)
      (M4.cf a.transpose (1 / a.det) 3 2) (M4.cf a.transpose (1 / a.det) 3 3)) := by
    simp only [M4.invert, if_neg h]
  rw [M4.inverseTransform, hi]
  simp [envL, Tr.okG, M4.toList, V4.toList, M4.cf, M4.det, M4.detSubProc]
  tr_fin
theorem t_m3_transform_point2 (a : M3 K) (p : P2 K) :
    t_m3_transform_point2 (envL (a.toList ++ p.toList)) = .okS (a.transformPoint2 p).toList := by tr_auto
theorem t_m3_transform_vector2 (a : M3 K) (u : V2 K) :
    t_m3_transform_vector2 (envL (a.toList ++ u.toList)) = .okS (a.transformVector2 u).toList := by tr_auto
theorem t_m4_transform_point (a : M4 K) (p : P3 K) :
    t_m4_transform_point (envL (a.toList ++ p.toList)) = .okS (a.transformPoint p).toList := by tr_auto
theorem t_m4_transform_vector (a : M4 K) (u : V3 K) :
    t_m4_transform_vector (envL (a.toList ++ u.toList)) = .okS (a.transformVector u).toList := by tr_auto

/-! `Decomposed::look_at_{lh,rh}` with a quaternion rotation, on the path the shadow input takes through
`From<Matrix3> for Quaternion`: the displacement is the rotated `origin - eye`, the direction is
`center - eye` (lh) resp. `eye - center` (rh) -/
attribute [local simp] Decomposed.lookAtDir Quat.lookAt M3.lookToLh V3.normalize V3.normalizeTo V3.magnitude
theorem t_dq_look_at_lh (e c : P3 K) (u : V3 K) (h : 0 ≤ (M3.lookToLh (c - e) u).trace) :
    t_dq_look_at_lh (envL (e.toList ++ c.toList ++ u.toList)) =
      .okG (flq (Decomposed.lookAtDir quatOps (c - e) u V3.zero e.toVec))
        [.le 0 (M3.lookToLh (c - e) u).trace true] := by
  have h' := h
  simp only [Decomposed.lookAtDir, quatOps, Quat.lookAt]
  unfold M3.toQuat
  simp only [if_pos h']
  tr_auto_nf
theorem t_dq_look_at_rh (e c : P3 K) (u : V3 K) (h : ¬ 0 ≤ (M3.lookToLh (e - c) u).trace)
    (h1 : ¬ (M3.lookToLh (e - c) u).y.y < (M3.lookToLh (e - c) u).x.x)
    (h2 : (M3.lookToLh (e - c) u).z.z < (M3.lookToLh (e - c) u).y.y) :
    t_dq_look_at_rh (envL (e.toList ++ c.toList ++ u.toList)) =
      .okG (flq (Decomposed.lookAtDir quatOps (e - c) u V3.zero e.toVec))
        [.le 0 (M3.lookToLh (e - c) u).trace false,
         .lt (M3.lookToLh (e - c) u).y.y (M3.lookToLh (e - c) u).x.x false,
         .lt (M3.lookToLh (e - c) u).z.z (M3.lookToLh (e - c) u).y.y true] := by
  simp only [Decomposed.lookAtDir, quatOps, Quat.lookAt]
  unfold M3.toQuat
  simp only [if_neg h, h1, h2, false_and, if_false, if_true]
  tr_auto_nf
end Cg.Trace.C08
