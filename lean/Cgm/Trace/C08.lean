import Cgm.Gen.C08
import Cgm.Model.Transform
/-! # T obligations for C08: `Decomposed` transforms as the code computes them -/
set_option linter.unusedSectionVars false
namespace Cg.Trace.C08
open Cg Cg.Gen.C08
variable {K : Type} [Field K] [LinearOrder K] [Approx K] [Transc K] [FRem K] [Lits K]

abbrev DQ (K : Type) := Decomposed (Quat K) (V3 K) K
abbrev DB2 (K : Type) := Decomposed (Basis2 K) (V2 K) K
def flq (d : DQ K) : List K := d.scale :: d.rot.toList ++ d.disp.toList
/-- the harness's `default_epsilon` for the exact scalar: 2^-52 -/
def eps52 : K := (1 : K) / (4503599627370496 : K)

attribute [local simp] Decomposed.concat Decomposed.transformVector Decomposed.transformPointV quatOps basis2Ops
  Decomposed.toM4 Decomposed.toM3 flq Basis2.rotateVector Basis2.mul M2.fromAngle

theorem t_dq_concat (d e : DQ K) :
    t_dq_concat (envL (flq d ++ flq e)) = .okS (flq (Decomposed.concat quatOps d e)) := by tr_auto
theorem t_dq_transform_point (d : DQ K) (p : P3 K) :
    t_dq_transform_point (envL (flq d ++ p.toList)) =
      .okS (P3.fromVec (Decomposed.transformPointV quatOps d p.toVec)).toList := by tr_auto
theorem t_dq_transform_vector (d : DQ K) (u : V3 K) :
    t_dq_transform_vector (envL (flq d ++ u.toList)) = .okS (Decomposed.transformVector quatOps d u).toList := by tr_auto
theorem t_dq_to_matrix (d : DQ K) : t_dq_to_matrix (envL (flq d)) = .okS (Decomposed.toM4 quatOps d).toList := by tr_auto
/-- `inverse_transform`: the only comparison is `ulps_eq!(scale, 0)`; when it is false the result is the model's -/
theorem t_dq_inverse_transform_some (d : DQ K) (h : ulpsEqD d.scale 0 = false) :
    (match Decomposed.inverseTransform quatOps d with
      | .ok r => t_dq_inverse_transform_some (envL (flq d)) = .okG (flq r) [.ulps d.scale 0 eps52 4 false]
      | _ => False) := by
  simp only [Decomposed.inverseTransform, h]
  simp [eps52]; tr_auto
theorem t_dq_inverse_transform_none (d : DQ K) :
    t_dq_inverse_transform_none (envL (flq d)) = .noneG [.ulps d.scale 0 eps52 4 true] := by simp [eps52]; tr_auto
/-- 2-D: `Basis2` values travel as their angle -/
theorem t_db2_concat (s t : K) (a b : K) (u w : V2 K) :
    t_db2_concat (envL ([s, a] ++ u.toList ++ [t, b] ++ w.toList)) =
      (let d : DB2 K := ⟨s, ⟨M2.fromAngle a⟩, u⟩
       let e : DB2 K := ⟨t, ⟨M2.fromAngle b⟩, w⟩
       let r := Decomposed.concat basis2Ops d e
       .okS (r.scale :: r.rot.mat.toList ++ r.disp.toList)) := by tr_auto
theorem t_db2_to_matrix (s a : K) (u : V2 K) :
    t_db2_to_matrix (envL ([s, a] ++ u.toList)) =
      .okS (Decomposed.toM3 basis2Ops (⟨s, ⟨M2.fromAngle a⟩, u⟩ : DB2 K)).toList := by tr_auto
end Cg.Trace.C08
