import Cgm.Gen.C17
import Cgm.Model.Assign
/-!
# T obligations for C17: the operand forms of the operators of the angle types

GENERATED once by `tools/gen_c17_forms.py` from `lib/cgv/sigs.py` (`FORM_FAMILIES`) / `lib/cgv/tracetab_ops2.py`; kept as an
ordinary source file.

Each kernel `t_<t>_<op>_<form>` was traced from the `impl` the call-site spelling selects (`rv` = `&a op b`, `vr` = `a op &b`,
`rr` = `&a op &b`, `r` = `-&a`, `asg` = `a op= b`) on symbolic operands.  For the reference forms the obligation says the
kernel is the model's by-value operator (the model has one function per operator); for `asg` it says the kernel is the
field-by-field definition of `Cgm/Model/Assign.lean`, which `Cgm/Props/C17c.lean` proves equal to the by-value operator
(composed in `Cgm/E2E/C17b.lean`).
-/
set_option linter.unusedSectionVars false
set_option linter.unusedSimpArgs false
set_option linter.unusedVariables false
namespace Cg.Trace.C17OpsA
open Cg Cg.Gen.C17
variable {K : Type} [Field K] [Transc K] [FRem K] [Lits K]

/-- unfold the kernel and the model operator (for `asg`: the chain of single-field updates), then field identities -/
local macro "tr_form" : tactic =>
  `(tactic| first
    | (tr_auto; done)
    | (simp [Angle.addAssign, Angle.subAssign, Angle.remAssign, Angle.mulAssignS, Angle.divAssignS, envL, Tr.okS,
        V1.toList, V2.toList, V3.toList, V4.toList, P1.toList, P2.toList, P3.toList, M2.toList, M3.toList, M4.toList, Quat.toList] <;>
       (repeat' apply And.intro) <;> first | ring1 | (ring_nf; done)))

theorem t_rad_add_rv (u v : K) :
    t_rad_add_rv (envL [u, v]) = .okS [u + v] := by
  tr_form
theorem t_rad_add_vr (u v : K) :
    t_rad_add_vr (envL [u, v]) = .okS [u + v] := by
  tr_form
theorem t_rad_add_rr (u v : K) :
    t_rad_add_rr (envL [u, v]) = .okS [u + v] := by
  tr_form
theorem t_rad_add_asg (u v : K) :
    t_rad_add_asg (envL [u, v]) = .okS [Angle.addAssign u v] := by
  tr_form
theorem t_deg_add_rv (u v : K) :
    t_deg_add_rv (envL [u, v]) = .okS [u + v] := by
  tr_form
theorem t_deg_add_vr (u v : K) :
    t_deg_add_vr (envL [u, v]) = .okS [u + v] := by
  tr_form
theorem t_deg_add_rr (u v : K) :
    t_deg_add_rr (envL [u, v]) = .okS [u + v] := by
  tr_form
theorem t_deg_add_asg (u v : K) :
    t_deg_add_asg (envL [u, v]) = .okS [Angle.addAssign u v] := by
  tr_form
theorem t_rad_sub_rv (u v : K) :
    t_rad_sub_rv (envL [u, v]) = .okS [u - v] := by
  tr_form
theorem t_rad_sub_vr (u v : K) :
    t_rad_sub_vr (envL [u, v]) = .okS [u - v] := by
  tr_form
theorem t_rad_sub_rr (u v : K) :
    t_rad_sub_rr (envL [u, v]) = .okS [u - v] := by
  tr_form
theorem t_rad_sub_asg (u v : K) :
    t_rad_sub_asg (envL [u, v]) = .okS [Angle.subAssign u v] := by
  tr_form
theorem t_deg_sub_rv (u v : K) :
    t_deg_sub_rv (envL [u, v]) = .okS [u - v] := by
  tr_form
theorem t_deg_sub_vr (u v : K) :
    t_deg_sub_vr (envL [u, v]) = .okS [u - v] := by
  tr_form
theorem t_deg_sub_rr (u v : K) :
    t_deg_sub_rr (envL [u, v]) = .okS [u - v] := by
  tr_form
theorem t_deg_sub_asg (u v : K) :
    t_deg_sub_asg (envL [u, v]) = .okS [Angle.subAssign u v] := by
  tr_form
theorem t_rad_rem_rv (u v : K) :
    t_rad_rem_rv (envL [u, v]) = .okS [FRem.frem u v] := by
  tr_form
theorem t_rad_rem_vr (u v : K) :
    t_rad_rem_vr (envL [u, v]) = .okS [FRem.frem u v] := by
  tr_form
theorem t_rad_rem_rr (u v : K) :
    t_rad_rem_rr (envL [u, v]) = .okS [FRem.frem u v] := by
  tr_form
theorem t_rad_rem_asg (u v : K) :
    t_rad_rem_asg (envL [u, v]) = .okS [Angle.remAssign u v] := by
  tr_form
theorem t_deg_rem_rv (u v : K) :
    t_deg_rem_rv (envL [u, v]) = .okS [FRem.frem u v] := by
  tr_form
theorem t_deg_rem_vr (u v : K) :
    t_deg_rem_vr (envL [u, v]) = .okS [FRem.frem u v] := by
  tr_form
theorem t_deg_rem_rr (u v : K) :
    t_deg_rem_rr (envL [u, v]) = .okS [FRem.frem u v] := by
  tr_form
theorem t_deg_rem_asg (u v : K) :
    t_deg_rem_asg (envL [u, v]) = .okS [Angle.remAssign u v] := by
  tr_form
theorem t_rad_mul_s_rv (u : K) (v : K) :
    t_rad_mul_s_rv (envL [u, v]) = .okS [u * v] := by
  tr_form
theorem t_rad_mul_s_asg (u : K) (v : K) :
    t_rad_mul_s_asg (envL [u, v]) = .okS [Angle.mulAssignS u v] := by
  tr_form
theorem t_deg_mul_s_rv (u : K) (v : K) :
    t_deg_mul_s_rv (envL [u, v]) = .okS [u * v] := by
  tr_form
theorem t_deg_mul_s_asg (u : K) (v : K) :
    t_deg_mul_s_asg (envL [u, v]) = .okS [Angle.mulAssignS u v] := by
  tr_form
theorem t_rad_div_s_rv (u : K) (v : K) :
    t_rad_div_s_rv (envL [u, v]) = .okS [u / v] := by
  tr_form
theorem t_rad_div_s_asg (u : K) (v : K) :
    t_rad_div_s_asg (envL [u, v]) = .okS [Angle.divAssignS u v] := by
  tr_form
theorem t_deg_div_s_rv (u : K) (v : K) :
    t_deg_div_s_rv (envL [u, v]) = .okS [u / v] := by
  tr_form
theorem t_deg_div_s_asg (u : K) (v : K) :
    t_deg_div_s_asg (envL [u, v]) = .okS [Angle.divAssignS u v] := by
  tr_form
theorem t_rad_div_a_rv (u v : K) :
    t_rad_div_a_rv (envL [u, v]) = .okS [u / v] := by
  tr_form
theorem t_rad_div_a_vr (u v : K) :
    t_rad_div_a_vr (envL [u, v]) = .okS [u / v] := by
  tr_form
theorem t_rad_div_a_rr (u v : K) :
    t_rad_div_a_rr (envL [u, v]) = .okS [u / v] := by
  tr_form
theorem t_deg_div_a_rv (u v : K) :
    t_deg_div_a_rv (envL [u, v]) = .okS [u / v] := by
  tr_form
theorem t_deg_div_a_vr (u v : K) :
    t_deg_div_a_vr (envL [u, v]) = .okS [u / v] := by
  tr_form
theorem t_deg_div_a_rr (u v : K) :
    t_deg_div_a_rr (envL [u, v]) = .okS [u / v] := by
  tr_form
theorem t_rad_neg_r (u : K) :
    t_rad_neg_r (envL [u]) = .okS [-u] := by
  tr_form
theorem t_deg_neg_r (u : K) :
    t_deg_neg_r (envL [u]) = .okS [-u] := by
  tr_form
end Cg.Trace.C17OpsA
