import Cgm.Gen.C09
import Cgm.Model.Rot
/-! # T obligations for C09: view matrices (sqrt stays an atom on both sides) -/
set_option linter.unusedSectionVars false
namespace Cg.Trace.C09
open Cg Cg.Gen.C09
variable {K : Type} [Field K] [LinearOrder K] [Transc K] [FRem K] [Lits K]
attribute [local simp] M4.lookToRh M4.lookToLh M4.lookAtRh M4.lookAtLh M3.lookToLh M3.lookToRh
  V3.normalize V3.normalizeTo V3.magnitude

theorem t_m4_look_to_rh (e : P3 K) (d u : V3 K) :
    t_m4_look_to_rh (envL (e.toList ++ d.toList ++ u.toList)) = .okS (M4.lookToRh e d u).toList := by tr_auto_nf
theorem t_m4_look_to_lh (e : P3 K) (d u : V3 K) :
    t_m4_look_to_lh (envL (e.toList ++ d.toList ++ u.toList)) = .okS (M4.lookToLh e d u).toList := by tr_auto_nf
theorem t_m4_look_at_rh (e c : P3 K) (u : V3 K) :
    t_m4_look_at_rh (envL (e.toList ++ c.toList ++ u.toList)) = .okS (M4.lookAtRh e c u).toList := by tr_auto_nf
theorem t_m4_look_at_lh (e c : P3 K) (u : V3 K) :
    t_m4_look_at_lh (envL (e.toList ++ c.toList ++ u.toList)) = .okS (M4.lookAtLh e c u).toList := by tr_auto_nf
theorem t_m3_look_to_lh (d u : V3 K) :
    t_m3_look_to_lh (envL (d.toList ++ u.toList)) = .okS (M3.lookToLh d u).toList := by tr_auto_nf
theorem t_m3_look_to_rh (d u : V3 K) :
    t_m3_look_to_rh (envL (d.toList ++ u.toList)) = .okS (M3.lookToRh d u).toList := by tr_auto_nf

/-! `Matrix2::look_at`: one comparison, `up.y * dir.x ≤ up.x * dir.y`, chooses which perpendicular
of the normalised direction becomes the second column -/
attribute [local simp] M2.lookAt M2.lookAtStable V2.normalize V2.normalizeTo V2.magnitude M3.lookAt2Lh M3.lookAt2Rh
  M3.lookAtLh M3.lookAtRh Basis3.lookAt
theorem t_m2_look_at_flip (d u : V2 K) (h : u.y * d.x ≤ u.x * d.y) :
    t_m2_look_at_flip (envL (d.toList ++ u.toList)) = .okG (M2.lookAt d u).toList [.le (u.y * d.x) (u.x * d.y) true] := by
  simp [M2.lookAt, M2.lookAtStable, h]; tr_auto_nf
theorem t_m2_look_at_noflip (d u : V2 K) (h : ¬ u.y * d.x ≤ u.x * d.y) :
    t_m2_look_at_noflip (envL (d.toList ++ u.toList)) = .okG (M2.lookAt d u).toList [.le (u.y * d.x) (u.x * d.y) false] := by
  simp [M2.lookAt, M2.lookAtStable, h]; tr_auto_nf
/-- `Transform<Point2> for Matrix3`: `look_at_lh` looks along `center - eye`, `look_at_rh` along `eye - center` -/
theorem t_m3_tlook_at2_lh (e c : P2 K) (u : V2 K) (h : ¬ u.y * (c - e).x ≤ u.x * (c - e).y) :
    t_m3_tlook_at2_lh (envL (e.toList ++ c.toList ++ u.toList)) =
      .okG (M3.lookAt2Lh e c u).toList [.le (u.y * (c - e).x) (u.x * (c - e).y) false] := by
  simp only [M3.lookAt2Lh, M2.lookAt, h, decide_false]; tr_auto_nf
theorem t_m3_tlook_at2_rh (e c : P2 K) (u : V2 K) (h : u.y * (e - c).x ≤ u.x * (e - c).y) :
    t_m3_tlook_at2_rh (envL (e.toList ++ c.toList ++ u.toList)) =
      .okG (M3.lookAt2Rh e c u).toList [.le (u.y * (e - c).x) (u.x * (e - c).y) true] := by
  simp only [M3.lookAt2Rh, M2.lookAt, h, decide_true]; tr_auto_nf
/-- `Transform<Point3> for Matrix3` and `Matrix4`: the direction is `center - eye` -/
theorem t_m3_tlook_at_lh (e c : P3 K) (u : V3 K) :
    t_m3_tlook_at_lh (envL (e.toList ++ c.toList ++ u.toList)) = .okS (M3.lookAtLh e c u).toList := by tr_auto_nf
theorem t_m3_tlook_at_rh (e c : P3 K) (u : V3 K) :
    t_m3_tlook_at_rh (envL (e.toList ++ c.toList ++ u.toList)) = .okS (M3.lookAtRh e c u).toList := by tr_auto_nf
theorem t_m4_tlook_at_lh (e c : P3 K) (u : V3 K) :
    t_m4_tlook_at_lh (envL (e.toList ++ c.toList ++ u.toList)) = .okS (M4.lookAtLh e c u).toList := by tr_auto_nf
theorem t_m4_tlook_at_rh (e c : P3 K) (u : V3 K) :
    t_m4_tlook_at_rh (envL (e.toList ++ c.toList ++ u.toList)) = .okS (M4.lookAtRh e c u).toList := by tr_auto_nf
theorem t_b3_look_at (d u : V3 K) :
    t_b3_look_at (envL (d.toList ++ u.toList)) = .okS (Basis3.lookAt d u).mat.toList := by tr_auto_nf
end Cg.Trace.C09
