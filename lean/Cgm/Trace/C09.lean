import Cgm.Gen.C09
import Cgm.Model.Rot
/-! # T obligations for C09: view matrices (sqrt stays an atom on both sides) -/
set_option linter.unusedSectionVars false
namespace Cg.Trace.C09
open Cg Cg.Gen.C09
variable {K : Type} [Field K] [Transc K] [FRem K] [Lits K]
attribute [local simp] M4.lookToRh M4.lookToLh M4.lookAtRh M4.lookAtLh M3.lookToLh M3.lookToRh
  V3.normalize V3.normalizeTo V3.magnitude

theorem t_m4_look_to_rh (e : P3 K) (d u : V3 K) :
    t_m4_look_to_rh (envL (e.toList ++ d.toList ++ u.toList)) = .okS (M4.lookToRh e d u).toList := by tr_auto_nf
theorem t_m4_look_to_lh (e : P3 K) (d u : V3 K) :
    t_m4_look_to_lh (envL (e.toList ++ d.toList ++ u.toList)) = .okS (M4.lookToLh e d u).toList := by tr_auto_nf
theorem t_m4_look_at_rh (e c : P3 K) (u : V3 K) :
    t_m4_look_at_rh (envL (e.toList ++ c.toList ++ u.toList)) = .okS (M4.lookAtRh e c u).toList := by tr_auto_nf
theorem t_m4_look_at_lh (e c : P3 K) (u : V3 K) :
    t_m4_look_at_lh (envL (e.toList ++ c.toList ++ u.toList)) = .okS (M4.lookAtLh e c u).toList := by tr_auto_nf
theorem t_m3_look_to_lh (d u : V3 K) :
    t_m3_look_to_lh (envL (d.toList ++ u.toList)) = .okS (M3.lookToLh d u).toList := by tr_auto_nf
theorem t_m3_look_to_rh (d u : V3 K) :
    t_m3_look_to_rh (envL (d.toList ++ u.toList)) = .okS (M3.lookToRh d u).toList := by tr_auto_nf
end Cg.Trace.C09
