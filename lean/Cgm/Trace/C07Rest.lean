import Cgm.Gen.C07
import Cgm.Model.Rot
/-! # T obligations for C07, remaining kernels: the Euler-angle constructors given angles in degrees
(`From<Euler<Deg>>`: each angle is converted with `Rad::from(Deg)` = `degToRad` first) -/
set_option linter.unusedSectionVars false
namespace Cg.Trace.C07Rest
open Cg Cg.Gen.C07
variable {K : Type} [Field K] [LinearOrder K] [Transc K] [FRem K] [Lits K]
attribute [local simp] M3.eulerSC M3.ofEuler Quat.eulerSC Quat.ofEuler degToRad

theorem t_m3_from_euler_deg (x y z : K) :
    t_m3_from_euler_deg (envL [x, y, z]) = .okS (M3.ofEuler (degToRad x) (degToRad y) (degToRad z)).toList := by tr_any
theorem t_q_from_euler_deg (x y z : K) :
    t_q_from_euler_deg (envL [x, y, z]) = .okS (Quat.ofEuler (degToRad x) (degToRad y) (degToRad z)).toList := by tr_any
end Cg.Trace.C07Rest
