import Cgm.Gen.C02
import Cgm.Lemmas.TraceIdx
/-!
# T obligations for C02: `swap_rows`, `swap_columns`, `swap_elements` (Matrix2, Matrix3, out-of-range Matrix4), `replace_col`, `transpose_self` at every index tuple

Static text (written once by lib/gen_idx_lean.py from the kernel table `cgv.tracetab_paths.IDX`).  Each kernel was traced
from the real function at the literal index tuple in its name, on symbolic matrix entries; the obligation says it is
the model's function at that tuple for every matrix: `Tr.ofPanic` reads the model's `none` as the code's panic.
In range the second conjunct says the model does return (`isSome`, or the value written out); out of range (`_oob`)
the kernel is the bare panic and the model is `none`.
-/
set_option linter.unusedSectionVars false
set_option linter.unusedSimpArgs false
set_option linter.unusedVariables false
namespace Cg.Trace.C02Idx
open Cg Cg.Gen.C02
variable {K : Type} [Field K] [Transc K] [FRem K] [Lits K]

theorem t_m2_swap_rows_0_0 (m : M2 K) :
    t_m2_swap_rows_0_0 (envL m.toList) = .ofPanic ((m.swapRows? 0 0).map M2.toList) ∧
      (m.swapRows? 0 0).isSome := by
  constructor <;> tr_idx

theorem t_m2_swap_rows_0_1 (m : M2 K) :
    t_m2_swap_rows_0_1 (envL m.toList) = .ofPanic ((m.swapRows? 0 1).map M2.toList) ∧
      (m.swapRows? 0 1).isSome := by
  constructor <;> tr_idx

theorem t_m2_swap_rows_1_0 (m : M2 K) :
    t_m2_swap_rows_1_0 (envL m.toList) = .ofPanic ((m.swapRows? 1 0).map M2.toList) ∧
      (m.swapRows? 1 0).isSome := by
  constructor <;> tr_idx

theorem t_m2_swap_rows_1_1 (m : M2 K) :
    t_m2_swap_rows_1_1 (envL m.toList) = .ofPanic ((m.swapRows? 1 1).map M2.toList) ∧
      (m.swapRows? 1 1).isSome := by
  constructor <;> tr_idx

theorem t_m2_swap_rows_0_2_oob (m : M2 K) :
    t_m2_swap_rows_0_2_oob (envL m.toList) = .ofPanic ((m.swapRows? 0 2).map M2.toList) ∧
      t_m2_swap_rows_0_2_oob (envL m.toList) = .panicG [] ∧ m.swapRows? 0 2 = none := by
  refine ⟨?_, ?_, ?_⟩ <;> tr_idx

theorem t_m2_swap_rows_2_0_oob (m : M2 K) :
    t_m2_swap_rows_2_0_oob (envL m.toList) = .ofPanic ((m.swapRows? 2 0).map M2.toList) ∧
      t_m2_swap_rows_2_0_oob (envL m.toList) = .panicG [] ∧ m.swapRows? 2 0 = none := by
  refine ⟨?_, ?_, ?_⟩ <;> tr_idx

theorem t_m2_swap_rows_2_2_oob (m : M2 K) :
    t_m2_swap_rows_2_2_oob (envL m.toList) = .ofPanic ((m.swapRows? 2 2).map M2.toList) ∧
      t_m2_swap_rows_2_2_oob (envL m.toList) = .panicG [] ∧ m.swapRows? 2 2 = none := by
  refine ⟨?_, ?_, ?_⟩ <;> tr_idx

theorem t_m2_swap_columns_0_0 (m : M2 K) :
    t_m2_swap_columns_0_0 (envL m.toList) = .ofPanic ((m.swapColumns? 0 0).map M2.toList) ∧
      (m.swapColumns? 0 0).isSome := by
  constructor <;> tr_idx

theorem t_m2_swap_columns_0_1 (m : M2 K) :
    t_m2_swap_columns_0_1 (envL m.toList) = .ofPanic ((m.swapColumns? 0 1).map M2.toList) ∧
      (m.swapColumns? 0 1).isSome := by
  constructor <;> tr_idx

theorem t_m2_swap_columns_1_0 (m : M2 K) :
    t_m2_swap_columns_1_0 (envL m.toList) = .ofPanic ((m.swapColumns? 1 0).map M2.toList) ∧
      (m.swapColumns? 1 0).isSome := by
  constructor <;> tr_idx

theorem t_m2_swap_columns_1_1 (m : M2 K) :
    t_m2_swap_columns_1_1 (envL m.toList) = .ofPanic ((m.swapColumns? 1 1).map M2.toList) ∧
      (m.swapColumns? 1 1).isSome := by
  constructor <;> tr_idx

theorem t_m2_swap_columns_0_2_oob (m : M2 K) :
    t_m2_swap_columns_0_2_oob (envL m.toList) = .ofPanic ((m.swapColumns? 0 2).map M2.toList) ∧
      t_m2_swap_columns_0_2_oob (envL m.toList) = .panicG [] ∧ m.swapColumns? 0 2 = none := by
  refine ⟨?_, ?_, ?_⟩ <;> tr_idx

theorem t_m2_swap_columns_2_0_oob (m : M2 K) :
    t_m2_swap_columns_2_0_oob (envL m.toList) = .ofPanic ((m.swapColumns? 2 0).map M2.toList) ∧
      t_m2_swap_columns_2_0_oob (envL m.toList) = .panicG [] ∧ m.swapColumns? 2 0 = none := by
  refine ⟨?_, ?_, ?_⟩ <;> tr_idx

theorem t_m2_swap_columns_2_2_oob (m : M2 K) :
    t_m2_swap_columns_2_2_oob (envL m.toList) = .ofPanic ((m.swapColumns? 2 2).map M2.toList) ∧
      t_m2_swap_columns_2_2_oob (envL m.toList) = .panicG [] ∧ m.swapColumns? 2 2 = none := by
  refine ⟨?_, ?_, ?_⟩ <;> tr_idx

theorem t_m2_swap_elements_00_00 (m : M2 K) :
    t_m2_swap_elements_00_00 (envL m.toList) = .ofPanic ((m.swapElements? 0 0 0 0).map M2.toList) ∧
      (m.swapElements? 0 0 0 0).isSome := by
  constructor <;> tr_idx

theorem t_m2_swap_elements_00_01 (m : M2 K) :
    t_m2_swap_elements_00_01 (envL m.toList) = .ofPanic ((m.swapElements? 0 0 0 1).map M2.toList) ∧
      (m.swapElements? 0 0 0 1).isSome := by
  constructor <;> tr_idx

theorem t_m2_swap_elements_00_10 (m : M2 K) :
    t_m2_swap_elements_00_10 (envL m.toList) = .ofPanic ((m.swapElements? 0 0 1 0).map M2.toList) ∧
      (m.swapElements? 0 0 1 0).isSome := by
  constructor <;> tr_idx

theorem t_m2_swap_elements_00_11 (m : M2 K) :
    t_m2_swap_elements_00_11 (envL m.toList) = .ofPanic ((m.swapElements? 0 0 1 1).map M2.toList) ∧
      (m.swapElements? 0 0 1 1).isSome := by
  constructor <;> tr_idx

theorem t_m2_swap_elements_01_00 (m : M2 K) :
    t_m2_swap_elements_01_00 (envL m.toList) = .ofPanic ((m.swapElements? 0 1 0 0).map M2.toList) ∧
      (m.swapElements? 0 1 0 0).isSome := by
  constructor <;> tr_idx

theorem t_m2_swap_elements_01_01 (m : M2 K) :
    t_m2_swap_elements_01_01 (envL m.toList) = .ofPanic ((m.swapElements? 0 1 0 1).map M2.toList) ∧
      (m.swapElements? 0 1 0 1).isSome := by
  constructor <;> tr_idx

theorem t_m2_swap_elements_01_10 (m : M2 K) :
    t_m2_swap_elements_01_10 (envL m.toList) = .ofPanic ((m.swapElements? 0 1 1 0).map M2.toList) ∧
      (m.swapElements? 0 1 1 0).isSome := by
  constructor <;> tr_idx

theorem t_m2_swap_elements_01_11 (m : M2 K) :
    t_m2_swap_elements_01_11 (envL m.toList) = .ofPanic ((m.swapElements? 0 1 1 1).map M2.toList) ∧
      (m.swapElements? 0 1 1 1).isSome := by
  constructor <;> tr_idx

theorem t_m2_swap_elements_10_00 (m : M2 K) :
    t_m2_swap_elements_10_00 (envL m.toList) = .ofPanic ((m.swapElements? 1 0 0 0).map M2.toList) ∧
      (m.swapElements? 1 0 0 0).isSome := by
  constructor <;> tr_idx

theorem t_m2_swap_elements_10_01 (m : M2 K) :
    t_m2_swap_elements_10_01 (envL m.toList) = .ofPanic ((m.swapElements? 1 0 0 1).map M2.toList) ∧
      (m.swapElements? 1 0 0 1).isSome := by
  constructor <;> tr_idx

theorem t_m2_swap_elements_10_10 (m : M2 K) :
    t_m2_swap_elements_10_10 (envL m.toList) = .ofPanic ((m.swapElements? 1 0 1 0).map M2.toList) ∧
      (m.swapElements? 1 0 1 0).isSome := by
  constructor <;> tr_idx

theorem t_m2_swap_elements_10_11 (m : M2 K) :
    t_m2_swap_elements_10_11 (envL m.toList) = .ofPanic ((m.swapElements? 1 0 1 1).map M2.toList) ∧
      (m.swapElements? 1 0 1 1).isSome := by
  constructor <;> tr_idx

theorem t_m2_swap_elements_11_00 (m : M2 K) :
    t_m2_swap_elements_11_00 (envL m.toList) = .ofPanic ((m.swapElements? 1 1 0 0).map M2.toList) ∧
      (m.swapElements? 1 1 0 0).isSome := by
  constructor <;> tr_idx

theorem t_m2_swap_elements_11_01 (m : M2 K) :
    t_m2_swap_elements_11_01 (envL m.toList) = .ofPanic ((m.swapElements? 1 1 0 1).map M2.toList) ∧
      (m.swapElements? 1 1 0 1).isSome := by
  constructor <;> tr_idx

theorem t_m2_swap_elements_11_10 (m : M2 K) :
    t_m2_swap_elements_11_10 (envL m.toList) = .ofPanic ((m.swapElements? 1 1 1 0).map M2.toList) ∧
      (m.swapElements? 1 1 1 0).isSome := by
  constructor <;> tr_idx

theorem t_m2_swap_elements_11_11 (m : M2 K) :
    t_m2_swap_elements_11_11 (envL m.toList) = .ofPanic ((m.swapElements? 1 1 1 1).map M2.toList) ∧
      (m.swapElements? 1 1 1 1).isSome := by
  constructor <;> tr_idx

theorem t_m2_swap_elements_02_11_oob (m : M2 K) :
    t_m2_swap_elements_02_11_oob (envL m.toList) = .ofPanic ((m.swapElements? 0 2 1 1).map M2.toList) ∧
      t_m2_swap_elements_02_11_oob (envL m.toList) = .panicG [] ∧ m.swapElements? 0 2 1 1 = none := by
  refine ⟨?_, ?_, ?_⟩ <;> tr_idx

theorem t_m2_swap_elements_11_02_oob (m : M2 K) :
    t_m2_swap_elements_11_02_oob (envL m.toList) = .ofPanic ((m.swapElements? 1 1 0 2).map M2.toList) ∧
      t_m2_swap_elements_11_02_oob (envL m.toList) = .panicG [] ∧ m.swapElements? 1 1 0 2 = none := by
  refine ⟨?_, ?_, ?_⟩ <;> tr_idx

theorem t_m2_swap_elements_20_00_oob (m : M2 K) :
    t_m2_swap_elements_20_00_oob (envL m.toList) = .ofPanic ((m.swapElements? 2 0 0 0).map M2.toList) ∧
      t_m2_swap_elements_20_00_oob (envL m.toList) = .panicG [] ∧ m.swapElements? 2 0 0 0 = none := by
  refine ⟨?_, ?_, ?_⟩ <;> tr_idx

theorem t_m2_swap_elements_00_20_oob (m : M2 K) :
    t_m2_swap_elements_00_20_oob (envL m.toList) = .ofPanic ((m.swapElements? 0 0 2 0).map M2.toList) ∧
      t_m2_swap_elements_00_20_oob (envL m.toList) = .panicG [] ∧ m.swapElements? 0 0 2 0 = none := by
  refine ⟨?_, ?_, ?_⟩ <;> tr_idx

theorem t_m2_swap_elements_02_02_oob (m : M2 K) :
    t_m2_swap_elements_02_02_oob (envL m.toList) = .ofPanic ((m.swapElements? 0 2 0 2).map M2.toList) ∧
      t_m2_swap_elements_02_02_oob (envL m.toList) = .panicG [] ∧ m.swapElements? 0 2 0 2 = none := by
  refine ⟨?_, ?_, ?_⟩ <;> tr_idx

theorem t_m2_swap_elements_22_22_oob (m : M2 K) :
    t_m2_swap_elements_22_22_oob (envL m.toList) = .ofPanic ((m.swapElements? 2 2 2 2).map M2.toList) ∧
      t_m2_swap_elements_22_22_oob (envL m.toList) = .panicG [] ∧ m.swapElements? 2 2 2 2 = none := by
  refine ⟨?_, ?_, ?_⟩ <;> tr_idx

theorem t_m2_swap_elements_11_15_oob (m : M2 K) :
    t_m2_swap_elements_11_15_oob (envL m.toList) = .ofPanic ((m.swapElements? 1 1 1 5).map M2.toList) ∧
      t_m2_swap_elements_11_15_oob (envL m.toList) = .panicG [] ∧ m.swapElements? 1 1 1 5 = none := by
  refine ⟨?_, ?_, ?_⟩ <;> tr_idx

theorem t_m2_replace_col_0 (m : M2 K) (u : V2 K) :
    t_m2_replace_col_0 (envL (m.toList ++ u.toList)) = .ofPanic ((m.replaceCol? 0 u).map fun (m', o) => m'.toList ++ o.toList) ∧
      m.replaceCol? 0 u = some ({ m with x := u }, m.x) := by
  constructor <;> tr_idx

theorem t_m2_replace_col_1 (m : M2 K) (u : V2 K) :
    t_m2_replace_col_1 (envL (m.toList ++ u.toList)) = .ofPanic ((m.replaceCol? 1 u).map fun (m', o) => m'.toList ++ o.toList) ∧
      m.replaceCol? 1 u = some ({ m with y := u }, m.y) := by
  constructor <;> tr_idx

theorem t_m2_replace_col_2_oob (m : M2 K) (u : V2 K) :
    t_m2_replace_col_2_oob (envL (m.toList ++ u.toList)) = .ofPanic ((m.replaceCol? 2 u).map fun (m', o) => m'.toList ++ o.toList) ∧
      t_m2_replace_col_2_oob (envL (m.toList ++ u.toList)) = .panicG [] ∧ m.replaceCol? 2 u = none := by
  refine ⟨?_, ?_, ?_⟩ <;> tr_idx

theorem t_m2_transpose_self (m : M2 K) :
    t_m2_transpose_self (envL m.toList) = .ofPanic (m.transposeSelf?.map M2.toList) ∧
      m.transposeSelf? = some m.transpose := by
  constructor <;> tr_idx

theorem t_m3_swap_rows_0_0 (m : M3 K) :
    t_m3_swap_rows_0_0 (envL m.toList) = .ofPanic ((m.swapRows? 0 0).map M3.toList) ∧
      (m.swapRows? 0 0).isSome := by
  constructor <;> tr_idx

theorem t_m3_swap_rows_0_1 (m : M3 K) :
    t_m3_swap_rows_0_1 (envL m.toList) = .ofPanic ((m.swapRows? 0 1).map M3.toList) ∧
      (m.swapRows? 0 1).isSome := by
  constructor <;> tr_idx

theorem t_m3_swap_rows_0_2 (m : M3 K) :
    t_m3_swap_rows_0_2 (envL m.toList) = .ofPanic ((m.swapRows? 0 2).map M3.toList) ∧
      (m.swapRows? 0 2).isSome := by
  constructor <;> tr_idx

theorem t_m3_swap_rows_1_0 (m : M3 K) :
    t_m3_swap_rows_1_0 (envL m.toList) = .ofPanic ((m.swapRows? 1 0).map M3.toList) ∧
      (m.swapRows? 1 0).isSome := by
  constructor <;> tr_idx

theorem t_m3_swap_rows_1_1 (m : M3 K) :
    t_m3_swap_rows_1_1 (envL m.toList) = .ofPanic ((m.swapRows? 1 1).map M3.toList) ∧
      (m.swapRows? 1 1).isSome := by
  constructor <;> tr_idx

theorem t_m3_swap_rows_1_2 (m : M3 K) :
    t_m3_swap_rows_1_2 (envL m.toList) = .ofPanic ((m.swapRows? 1 2).map M3.toList) ∧
      (m.swapRows? 1 2).isSome := by
  constructor <;> tr_idx

theorem t_m3_swap_rows_2_0 (m : M3 K) :
    t_m3_swap_rows_2_0 (envL m.toList) = .ofPanic ((m.swapRows? 2 0).map M3.toList) ∧
      (m.swapRows? 2 0).isSome := by
  constructor <;> tr_idx

theorem t_m3_swap_rows_2_1 (m : M3 K) :
    t_m3_swap_rows_2_1 (envL m.toList) = .ofPanic ((m.swapRows? 2 1).map M3.toList) ∧
      (m.swapRows? 2 1).isSome := by
  constructor <;> tr_idx

theorem t_m3_swap_rows_2_2 (m : M3 K) :
    t_m3_swap_rows_2_2 (envL m.toList) = .ofPanic ((m.swapRows? 2 2).map M3.toList) ∧
      (m.swapRows? 2 2).isSome := by
  constructor <;> tr_idx

theorem t_m3_swap_rows_0_3_oob (m : M3 K) :
    t_m3_swap_rows_0_3_oob (envL m.toList) = .ofPanic ((m.swapRows? 0 3).map M3.toList) ∧
      t_m3_swap_rows_0_3_oob (envL m.toList) = .panicG [] ∧ m.swapRows? 0 3 = none := by
  refine ⟨?_, ?_, ?_⟩ <;> tr_idx

theorem t_m3_swap_rows_3_0_oob (m : M3 K) :
    t_m3_swap_rows_3_0_oob (envL m.toList) = .ofPanic ((m.swapRows? 3 0).map M3.toList) ∧
      t_m3_swap_rows_3_0_oob (envL m.toList) = .panicG [] ∧ m.swapRows? 3 0 = none := by
  refine ⟨?_, ?_, ?_⟩ <;> tr_idx

theorem t_m3_swap_rows_3_3_oob (m : M3 K) :
    t_m3_swap_rows_3_3_oob (envL m.toList) = .ofPanic ((m.swapRows? 3 3).map M3.toList) ∧
      t_m3_swap_rows_3_3_oob (envL m.toList) = .panicG [] ∧ m.swapRows? 3 3 = none := by
  refine ⟨?_, ?_, ?_⟩ <;> tr_idx

theorem t_m3_swap_columns_0_0 (m : M3 K) :
    t_m3_swap_columns_0_0 (envL m.toList) = .ofPanic ((m.swapColumns? 0 0).map M3.toList) ∧
      (m.swapColumns? 0 0).isSome := by
  constructor <;> tr_idx

theorem t_m3_swap_columns_0_1 (m : M3 K) :
    t_m3_swap_columns_0_1 (envL m.toList) = .ofPanic ((m.swapColumns? 0 1).map M3.toList) ∧
      (m.swapColumns? 0 1).isSome := by
  constructor <;> tr_idx

theorem t_m3_swap_columns_0_2 (m : M3 K) :
    t_m3_swap_columns_0_2 (envL m.toList) = .ofPanic ((m.swapColumns? 0 2).map M3.toList) ∧
      (m.swapColumns? 0 2).isSome := by
  constructor <;> tr_idx

theorem t_m3_swap_columns_1_0 (m : M3 K) :
    t_m3_swap_columns_1_0 (envL m.toList) = .ofPanic ((m.swapColumns? 1 0).map M3.toList) ∧
      (m.swapColumns? 1 0).isSome := by
  constructor <;> tr_idx

theorem t_m3_swap_columns_1_1 (m : M3 K) :
    t_m3_swap_columns_1_1 (envL m.toList) = .ofPanic ((m.swapColumns? 1 1).map M3.toList) ∧
      (m.swapColumns? 1 1).isSome := by
  constructor <;> tr_idx

theorem t_m3_swap_columns_1_2 (m : M3 K) :
    t_m3_swap_columns_1_2 (envL m.toList) = .ofPanic ((m.swapColumns? 1 2).map M3.toList) ∧
      (m.swapColumns? 1 2).isSome := by
  constructor <;> tr_idx

theorem t_m3_swap_columns_2_0 (m : M3 K) :
    t_m3_swap_columns_2_0 (envL m.toList) = .ofPanic ((m.swapColumns? 2 0).map M3.toList) ∧
      (m.swapColumns? 2 0).isSome := by
  constructor <;> tr_idx

theorem t_m3_swap_columns_2_1 (m : M3 K) :
    t_m3_swap_columns_2_1 (envL m.toList) = .ofPanic ((m.swapColumns? 2 1).map M3.toList) ∧
      (m.swapColumns? 2 1).isSome := by
  constructor <;> tr_idx

theorem t_m3_swap_columns_2_2 (m : M3 K) :
    t_m3_swap_columns_2_2 (envL m.toList) = .ofPanic ((m.swapColumns? 2 2).map M3.toList) ∧
      (m.swapColumns? 2 2).isSome := by
  constructor <;> tr_idx

theorem t_m3_swap_columns_0_3_oob (m : M3 K) :
    t_m3_swap_columns_0_3_oob (envL m.toList) = .ofPanic ((m.swapColumns? 0 3).map M3.toList) ∧
      t_m3_swap_columns_0_3_oob (envL m.toList) = .panicG [] ∧ m.swapColumns? 0 3 = none := by
  refine ⟨?_, ?_, ?_⟩ <;> tr_idx

theorem t_m3_swap_columns_3_0_oob (m : M3 K) :
    t_m3_swap_columns_3_0_oob (envL m.toList) = .ofPanic ((m.swapColumns? 3 0).map M3.toList) ∧
      t_m3_swap_columns_3_0_oob (envL m.toList) = .panicG [] ∧ m.swapColumns? 3 0 = none := by
  refine ⟨?_, ?_, ?_⟩ <;> tr_idx

theorem t_m3_swap_columns_3_3_oob (m : M3 K) :
    t_m3_swap_columns_3_3_oob (envL m.toList) = .ofPanic ((m.swapColumns? 3 3).map M3.toList) ∧
      t_m3_swap_columns_3_3_oob (envL m.toList) = .panicG [] ∧ m.swapColumns? 3 3 = none := by
  refine ⟨?_, ?_, ?_⟩ <;> tr_idx

theorem t_m3_swap_elements_00_00 (m : M3 K) :
    t_m3_swap_elements_00_00 (envL m.toList) = .ofPanic ((m.swapElements? 0 0 0 0).map M3.toList) ∧
      (m.swapElements? 0 0 0 0).isSome := by
  constructor <;> tr_idx

theorem t_m3_swap_elements_00_01 (m : M3 K) :
    t_m3_swap_elements_00_01 (envL m.toList) = .ofPanic ((m.swapElements? 0 0 0 1).map M3.toList) ∧
      (m.swapElements? 0 0 0 1).isSome := by
  constructor <;> tr_idx

theorem t_m3_swap_elements_00_02 (m : M3 K) :
    t_m3_swap_elements_00_02 (envL m.toList) = .ofPanic ((m.swapElements? 0 0 0 2).map M3.toList) ∧
      (m.swapElements? 0 0 0 2).isSome := by
  constructor <;> tr_idx

theorem t_m3_swap_elements_00_10 (m : M3 K) :
    t_m3_swap_elements_00_10 (envL m.toList) = .ofPanic ((m.swapElements? 0 0 1 0).map M3.toList) ∧
      (m.swapElements? 0 0 1 0).isSome := by
  constructor <;> tr_idx

theorem t_m3_swap_elements_00_11 (m : M3 K) :
    t_m3_swap_elements_00_11 (envL m.toList) = .ofPanic ((m.swapElements? 0 0 1 1).map M3.toList) ∧
      (m.swapElements? 0 0 1 1).isSome := by
  constructor <;> tr_idx

theorem t_m3_swap_elements_00_12 (m : M3 K) :
    t_m3_swap_elements_00_12 (envL m.toList) = .ofPanic ((m.swapElements? 0 0 1 2).map M3.toList) ∧
      (m.swapElements? 0 0 1 2).isSome := by
  constructor <;> tr_idx

theorem t_m3_swap_elements_00_20 (m : M3 K) :
    t_m3_swap_elements_00_20 (envL m.toList) = .ofPanic ((m.swapElements? 0 0 2 0).map M3.toList) ∧
      (m.swapElements? 0 0 2 0).isSome := by
  constructor <;> tr_idx

theorem t_m3_swap_elements_00_21 (m : M3 K) :
    t_m3_swap_elements_00_21 (envL m.toList) = .ofPanic ((m.swapElements? 0 0 2 1).map M3.toList) ∧
      (m.swapElements? 0 0 2 1).isSome := by
  constructor <;> tr_idx

theorem t_m3_swap_elements_00_22 (m : M3 K) :
    t_m3_swap_elements_00_22 (envL m.toList) = .ofPanic ((m.swapElements? 0 0 2 2).map M3.toList) ∧
      (m.swapElements? 0 0 2 2).isSome := by
  constructor <;> tr_idx

theorem t_m3_swap_elements_01_00 (m : M3 K) :
    t_m3_swap_elements_01_00 (envL m.toList) = .ofPanic ((m.swapElements? 0 1 0 0).map M3.toList) ∧
      (m.swapElements? 0 1 0 0).isSome := by
  constructor <;> tr_idx

theorem t_m3_swap_elements_01_01 (m : M3 K) :
    t_m3_swap_elements_01_01 (envL m.toList) = .ofPanic ((m.swapElements? 0 1 0 1).map M3.toList) ∧
      (m.swapElements? 0 1 0 1).isSome := by
  constructor <;> tr_idx

theorem t_m3_swap_elements_01_02 (m : M3 K) :
    t_m3_swap_elements_01_02 (envL m.toList) = .ofPanic ((m.swapElements? 0 1 0 2).map M3.toList) ∧
      (m.swapElements? 0 1 0 2).isSome := by
  constructor <;> tr_idx

theorem t_m3_swap_elements_01_10 (m : M3 K) :
    t_m3_swap_elements_01_10 (envL m.toList) = .ofPanic ((m.swapElements? 0 1 1 0).map M3.toList) ∧
      (m.swapElements? 0 1 1 0).isSome := by
  constructor <;> tr_idx

theorem t_m3_swap_elements_01_11 (m : M3 K) :
    t_m3_swap_elements_01_11 (envL m.toList) = .ofPanic ((m.swapElements? 0 1 1 1).map M3.toList) ∧
      (m.swapElements? 0 1 1 1).isSome := by
  constructor <;> tr_idx

theorem t_m3_swap_elements_01_12 (m : M3 K) :
    t_m3_swap_elements_01_12 (envL m.toList) = .ofPanic ((m.swapElements? 0 1 1 2).map M3.toList) ∧
      (m.swapElements? 0 1 1 2).isSome := by
  constructor <;> tr_idx

theorem t_m3_swap_elements_01_20 (m : M3 K) :
    t_m3_swap_elements_01_20 (envL m.toList) = .ofPanic ((m.swapElements? 0 1 2 0).map M3.toList) ∧
      (m.swapElements? 0 1 2 0).isSome := by
  constructor <;> tr_idx

theorem t_m3_swap_elements_01_21 (m : M3 K) :
    t_m3_swap_elements_01_21 (envL m.toList) = .ofPanic ((m.swapElements? 0 1 2 1).map M3.toList) ∧
      (m.swapElements? 0 1 2 1).isSome := by
  constructor <;> tr_idx

theorem t_m3_swap_elements_01_22 (m : M3 K) :
    t_m3_swap_elements_01_22 (envL m.toList) = .ofPanic ((m.swapElements? 0 1 2 2).map M3.toList) ∧
      (m.swapElements? 0 1 2 2).isSome := by
  constructor <;> tr_idx

theorem t_m3_swap_elements_02_00 (m : M3 K) :
    t_m3_swap_elements_02_00 (envL m.toList) = .ofPanic ((m.swapElements? 0 2 0 0).map M3.toList) ∧
      (m.swapElements? 0 2 0 0).isSome := by
  constructor <;> tr_idx

theorem t_m3_swap_elements_02_01 (m : M3 K) :
    t_m3_swap_elements_02_01 (envL m.toList) = .ofPanic ((m.swapElements? 0 2 0 1).map M3.toList) ∧
      (m.swapElements? 0 2 0 1).isSome := by
  constructor <;> tr_idx

theorem t_m3_swap_elements_02_02 (m : M3 K) :
    t_m3_swap_elements_02_02 (envL m.toList) = .ofPanic ((m.swapElements? 0 2 0 2).map M3.toList) ∧
      (m.swapElements? 0 2 0 2).isSome := by
  constructor <;> tr_idx

theorem t_m3_swap_elements_02_10 (m : M3 K) :
    t_m3_swap_elements_02_10 (envL m.toList) = .ofPanic ((m.swapElements? 0 2 1 0).map M3.toList) ∧
      (m.swapElements? 0 2 1 0).isSome := by
  constructor <;> tr_idx

theorem t_m3_swap_elements_02_11 (m : M3 K) :
    t_m3_swap_elements_02_11 (envL m.toList) = .ofPanic ((m.swapElements? 0 2 1 1).map M3.toList) ∧
      (m.swapElements? 0 2 1 1).isSome := by
  constructor <;> tr_idx

theorem t_m3_swap_elements_02_12 (m : M3 K) :
    t_m3_swap_elements_02_12 (envL m.toList) = .ofPanic ((m.swapElements? 0 2 1 2).map M3.toList) ∧
      (m.swapElements? 0 2 1 2).isSome := by
  constructor <;> tr_idx

theorem t_m3_swap_elements_02_20 (m : M3 K) :
    t_m3_swap_elements_02_20 (envL m.toList) = .ofPanic ((m.swapElements? 0 2 2 0).map M3.toList) ∧
      (m.swapElements? 0 2 2 0).isSome := by
  constructor <;> tr_idx

theorem t_m3_swap_elements_02_21 (m : M3 K) :
    t_m3_swap_elements_02_21 (envL m.toList) = .ofPanic ((m.swapElements? 0 2 2 1).map M3.toList) ∧
      (m.swapElements? 0 2 2 1).isSome := by
  constructor <;> tr_idx

theorem t_m3_swap_elements_02_22 (m : M3 K) :
    t_m3_swap_elements_02_22 (envL m.toList) = .ofPanic ((m.swapElements? 0 2 2 2).map M3.toList) ∧
      (m.swapElements? 0 2 2 2).isSome := by
  constructor <;> tr_idx

theorem t_m3_swap_elements_10_00 (m : M3 K) :
    t_m3_swap_elements_10_00 (envL m.toList) = .ofPanic ((m.swapElements? 1 0 0 0).map M3.toList) ∧
      (m.swapElements? 1 0 0 0).isSome := by
  constructor <;> tr_idx

theorem t_m3_swap_elements_10_01 (m : M3 K) :
    t_m3_swap_elements_10_01 (envL m.toList) = .ofPanic ((m.swapElements? 1 0 0 1).map M3.toList) ∧
      (m.swapElements? 1 0 0 1).isSome := by
  constructor <;> tr_idx

theorem t_m3_swap_elements_10_02 (m : M3 K) :
    t_m3_swap_elements_10_02 (envL m.toList) = .ofPanic ((m.swapElements? 1 0 0 2).map M3.toList) ∧
      (m.swapElements? 1 0 0 2).isSome := by
  constructor <;> tr_idx

theorem t_m3_swap_elements_10_10 (m : M3 K) :
    t_m3_swap_elements_10_10 (envL m.toList) = .ofPanic ((m.swapElements? 1 0 1 0).map M3.toList) ∧
      (m.swapElements? 1 0 1 0).isSome := by
  constructor <;> tr_idx

theorem t_m3_swap_elements_10_11 (m : M3 K) :
    t_m3_swap_elements_10_11 (envL m.toList) = .ofPanic ((m.swapElements? 1 0 1 1).map M3.toList) ∧
      (m.swapElements? 1 0 1 1).isSome := by
  constructor <;> tr_idx

theorem t_m3_swap_elements_10_12 (m : M3 K) :
    t_m3_swap_elements_10_12 (envL m.toList) = .ofPanic ((m.swapElements? 1 0 1 2).map M3.toList) ∧
      (m.swapElements? 1 0 1 2).isSome := by
  constructor <;> tr_idx

theorem t_m3_swap_elements_10_20 (m : M3 K) :
    t_m3_swap_elements_10_20 (envL m.toList) = .ofPanic ((m.swapElements? 1 0 2 0).map M3.toList) ∧
      (m.swapElements? 1 0 2 0).isSome := by
  constructor <;> tr_idx

theorem t_m3_swap_elements_10_21 (m : M3 K) :
    t_m3_swap_elements_10_21 (envL m.toList) = .ofPanic ((m.swapElements? 1 0 2 1).map M3.toList) ∧
      (m.swapElements? 1 0 2 1).isSome := by
  constructor <;> tr_idx

theorem t_m3_swap_elements_10_22 (m : M3 K) :
    t_m3_swap_elements_10_22 (envL m.toList) = .ofPanic ((m.swapElements? 1 0 2 2).map M3.toList) ∧
      (m.swapElements? 1 0 2 2).isSome := by
  constructor <;> tr_idx

theorem t_m3_swap_elements_11_00 (m : M3 K) :
    t_m3_swap_elements_11_00 (envL m.toList) = .ofPanic ((m.swapElements? 1 1 0 0).map M3.toList) ∧
      (m.swapElements? 1 1 0 0).isSome := by
  constructor <;> tr_idx

theorem t_m3_swap_elements_11_01 (m : M3 K) :
    t_m3_swap_elements_11_01 (envL m.toList) = .ofPanic ((m.swapElements? 1 1 0 1).map M3.toList) ∧
      (m.swapElements? 1 1 0 1).isSome := by
  constructor <;> tr_idx

theorem t_m3_swap_elements_11_02 (m : M3 K) :
    t_m3_swap_elements_11_02 (envL m.toList) = .ofPanic ((m.swapElements? 1 1 0 2).map M3.toList) ∧
      (m.swapElements? 1 1 0 2).isSome := by
  constructor <;> tr_idx

theorem t_m3_swap_elements_11_10 (m : M3 K) :
    t_m3_swap_elements_11_10 (envL m.toList) = .ofPanic ((m.swapElements? 1 1 1 0).map M3.toList) ∧
      (m.swapElements? 1 1 1 0).isSome := by
  constructor <;> tr_idx

theorem t_m3_swap_elements_11_11 (m : M3 K) :
    t_m3_swap_elements_11_11 (envL m.toList) = .ofPanic ((m.swapElements? 1 1 1 1).map M3.toList) ∧
      (m.swapElements? 1 1 1 1).isSome := by
  constructor <;> tr_idx

theorem t_m3_swap_elements_11_12 (m : M3 K) :
    t_m3_swap_elements_11_12 (envL m.toList) = .ofPanic ((m.swapElements? 1 1 1 2).map M3.toList) ∧
      (m.swapElements? 1 1 1 2).isSome := by
  constructor <;> tr_idx

theorem t_m3_swap_elements_11_20 (m : M3 K) :
    t_m3_swap_elements_11_20 (envL m.toList) = .ofPanic ((m.swapElements? 1 1 2 0).map M3.toList) ∧
      (m.swapElements? 1 1 2 0).isSome := by
  constructor <;> tr_idx

theorem t_m3_swap_elements_11_21 (m : M3 K) :
    t_m3_swap_elements_11_21 (envL m.toList) = .ofPanic ((m.swapElements? 1 1 2 1).map M3.toList) ∧
      (m.swapElements? 1 1 2 1).isSome := by
  constructor <;> tr_idx

theorem t_m3_swap_elements_11_22 (m : M3 K) :
    t_m3_swap_elements_11_22 (envL m.toList) = .ofPanic ((m.swapElements? 1 1 2 2).map M3.toList) ∧
      (m.swapElements? 1 1 2 2).isSome := by
  constructor <;> tr_idx

theorem t_m3_swap_elements_12_00 (m : M3 K) :
    t_m3_swap_elements_12_00 (envL m.toList) = .ofPanic ((m.swapElements? 1 2 0 0).map M3.toList) ∧
      (m.swapElements? 1 2 0 0).isSome := by
  constructor <;> tr_idx

theorem t_m3_swap_elements_12_01 (m : M3 K) :
    t_m3_swap_elements_12_01 (envL m.toList) = .ofPanic ((m.swapElements? 1 2 0 1).map M3.toList) ∧
      (m.swapElements? 1 2 0 1).isSome := by
  constructor <;> tr_idx

theorem t_m3_swap_elements_12_02 (m : M3 K) :
    t_m3_swap_elements_12_02 (envL m.toList) = .ofPanic ((m.swapElements? 1 2 0 2).map M3.toList) ∧
      (m.swapElements? 1 2 0 2).isSome := by
  constructor <;> tr_idx

theorem t_m3_swap_elements_12_10 (m : M3 K) :
    t_m3_swap_elements_12_10 (envL m.toList) = .ofPanic ((m.swapElements? 1 2 1 0).map M3.toList) ∧
      (m.swapElements? 1 2 1 0).isSome := by
  constructor <;> tr_idx

theorem t_m3_swap_elements_12_11 (m : M3 K) :
    t_m3_swap_elements_12_11 (envL m.toList) = .ofPanic ((m.swapElements? 1 2 1 1).map M3.toList) ∧
      (m.swapElements? 1 2 1 1).isSome := by
  constructor <;> tr_idx

theorem t_m3_swap_elements_12_12 (m : M3 K) :
    t_m3_swap_elements_12_12 (envL m.toList) = .ofPanic ((m.swapElements? 1 2 1 2).map M3.toList) ∧
      (m.swapElements? 1 2 1 2).isSome := by
  constructor <;> tr_idx

theorem t_m3_swap_elements_12_20 (m : M3 K) :
    t_m3_swap_elements_12_20 (envL m.toList) = .ofPanic ((m.swapElements? 1 2 2 0).map M3.toList) ∧
      (m.swapElements? 1 2 2 0).isSome := by
  constructor <;> tr_idx

theorem t_m3_swap_elements_12_21 (m : M3 K) :
    t_m3_swap_elements_12_21 (envL m.toList) = .ofPanic ((m.swapElements? 1 2 2 1).map M3.toList) ∧
      (m.swapElements? 1 2 2 1).isSome := by
  constructor <;> tr_idx

theorem t_m3_swap_elements_12_22 (m : M3 K) :
    t_m3_swap_elements_12_22 (envL m.toList) = .ofPanic ((m.swapElements? 1 2 2 2).map M3.toList) ∧
      (m.swapElements? 1 2 2 2).isSome := by
  constructor <;> tr_idx

theorem t_m3_swap_elements_20_00 (m : M3 K) :
    t_m3_swap_elements_20_00 (envL m.toList) = .ofPanic ((m.swapElements? 2 0 0 0).map M3.toList) ∧
      (m.swapElements? 2 0 0 0).isSome := by
  constructor <;> tr_idx

theorem t_m3_swap_elements_20_01 (m : M3 K) :
    t_m3_swap_elements_20_01 (envL m.toList) = .ofPanic ((m.swapElements? 2 0 0 1).map M3.toList) ∧
      (m.swapElements? 2 0 0 1).isSome := by
  constructor <;> tr_idx

theorem t_m3_swap_elements_20_02 (m : M3 K) :
    t_m3_swap_elements_20_02 (envL m.toList) = .ofPanic ((m.swapElements? 2 0 0 2).map M3.toList) ∧
      (m.swapElements? 2 0 0 2).isSome := by
  constructor <;> tr_idx

theorem t_m3_swap_elements_20_10 (m : M3 K) :
    t_m3_swap_elements_20_10 (envL m.toList) = .ofPanic ((m.swapElements? 2 0 1 0).map M3.toList) ∧
      (m.swapElements? 2 0 1 0).isSome := by
  constructor <;> tr_idx

theorem t_m3_swap_elements_20_11 (m : M3 K) :
    t_m3_swap_elements_20_11 (envL m.toList) = .ofPanic ((m.swapElements? 2 0 1 1).map M3.toList) ∧
      (m.swapElements? 2 0 1 1).isSome := by
  constructor <;> tr_idx

theorem t_m3_swap_elements_20_12 (m : M3 K) :
    t_m3_swap_elements_20_12 (envL m.toList) = .ofPanic ((m.swapElements? 2 0 1 2).map M3.toList) ∧
      (m.swapElements? 2 0 1 2).isSome := by
  constructor <;> tr_idx

theorem t_m3_swap_elements_20_20 (m : M3 K) :
    t_m3_swap_elements_20_20 (envL m.toList) = .ofPanic ((m.swapElements? 2 0 2 0).map M3.toList) ∧
      (m.swapElements? 2 0 2 0).isSome := by
  constructor <;> tr_idx

theorem t_m3_swap_elements_20_21 (m : M3 K) :
    t_m3_swap_elements_20_21 (envL m.toList) = .ofPanic ((m.swapElements? 2 0 2 1).map M3.toList) ∧
      (m.swapElements? 2 0 2 1).isSome := by
  constructor <;> tr_idx

theorem t_m3_swap_elements_20_22 (m : M3 K) :
    t_m3_swap_elements_20_22 (envL m.toList) = .ofPanic ((m.swapElements? 2 0 2 2).map M3.toList) ∧
      (m.swapElements? 2 0 2 2).isSome := by
  constructor <;> tr_idx

theorem t_m3_swap_elements_21_00 (m : M3 K) :
    t_m3_swap_elements_21_00 (envL m.toList) = .ofPanic ((m.swapElements? 2 1 0 0).map M3.toList) ∧
      (m.swapElements? 2 1 0 0).isSome := by
  constructor <;> tr_idx

theorem t_m3_swap_elements_21_01 (m : M3 K) :
    t_m3_swap_elements_21_01 (envL m.toList) = .ofPanic ((m.swapElements? 2 1 0 1).map M3.toList) ∧
      (m.swapElements? 2 1 0 1).isSome := by
  constructor <;> tr_idx

theorem t_m3_swap_elements_21_02 (m : M3 K) :
    t_m3_swap_elements_21_02 (envL m.toList) = .ofPanic ((m.swapElements? 2 1 0 2).map M3.toList) ∧
      (m.swapElements? 2 1 0 2).isSome := by
  constructor <;> tr_idx

theorem t_m3_swap_elements_21_10 (m : M3 K) :
    t_m3_swap_elements_21_10 (envL m.toList) = .ofPanic ((m.swapElements? 2 1 1 0).map M3.toList) ∧
      (m.swapElements? 2 1 1 0).isSome := by
  constructor <;> tr_idx

theorem t_m3_swap_elements_21_11 (m : M3 K) :
    t_m3_swap_elements_21_11 (envL m.toList) = .ofPanic ((m.swapElements? 2 1 1 1).map M3.toList) ∧
      (m.swapElements? 2 1 1 1).isSome := by
  constructor <;> tr_idx

theorem t_m3_swap_elements_21_12 (m : M3 K) :
    t_m3_swap_elements_21_12 (envL m.toList) = .ofPanic ((m.swapElements? 2 1 1 2).map M3.toList) ∧
      (m.swapElements? 2 1 1 2).isSome := by
  constructor <;> tr_idx

theorem t_m3_swap_elements_21_20 (m : M3 K) :
    t_m3_swap_elements_21_20 (envL m.toList) = .ofPanic ((m.swapElements? 2 1 2 0).map M3.toList) ∧
      (m.swapElements? 2 1 2 0).isSome := by
  constructor <;> tr_idx

theorem t_m3_swap_elements_21_21 (m : M3 K) :
    t_m3_swap_elements_21_21 (envL m.toList) = .ofPanic ((m.swapElements? 2 1 2 1).map M3.toList) ∧
      (m.swapElements? 2 1 2 1).isSome := by
  constructor <;> tr_idx

theorem t_m3_swap_elements_21_22 (m : M3 K) :
    t_m3_swap_elements_21_22 (envL m.toList) = .ofPanic ((m.swapElements? 2 1 2 2).map M3.toList) ∧
      (m.swapElements? 2 1 2 2).isSome := by
  constructor <;> tr_idx

theorem t_m3_swap_elements_22_00 (m : M3 K) :
    t_m3_swap_elements_22_00 (envL m.toList) = .ofPanic ((m.swapElements? 2 2 0 0).map M3.toList) ∧
      (m.swapElements? 2 2 0 0).isSome := by
  constructor <;> tr_idx

theorem t_m3_swap_elements_22_01 (m : M3 K) :
    t_m3_swap_elements_22_01 (envL m.toList) = .ofPanic ((m.swapElements? 2 2 0 1).map M3.toList) ∧
      (m.swapElements? 2 2 0 1).isSome := by
  constructor <;> tr_idx

theorem t_m3_swap_elements_22_02 (m : M3 K) :
    t_m3_swap_elements_22_02 (envL m.toList) = .ofPanic ((m.swapElements? 2 2 0 2).map M3.toList) ∧
      (m.swapElements? 2 2 0 2).isSome := by
  constructor <;> tr_idx

theorem t_m3_swap_elements_22_10 (m : M3 K) :
    t_m3_swap_elements_22_10 (envL m.toList) = .ofPanic ((m.swapElements? 2 2 1 0).map M3.toList) ∧
      (m.swapElements? 2 2 1 0).isSome := by
  constructor <;> tr_idx

theorem t_m3_swap_elements_22_11 (m : M3 K) :
    t_m3_swap_elements_22_11 (envL m.toList) = .ofPanic ((m.swapElements? 2 2 1 1).map M3.toList) ∧
      (m.swapElements? 2 2 1 1).isSome := by
  constructor <;> tr_idx

theorem t_m3_swap_elements_22_12 (m : M3 K) :
    t_m3_swap_elements_22_12 (envL m.toList) = .ofPanic ((m.swapElements? 2 2 1 2).map M3.toList) ∧
      (m.swapElements? 2 2 1 2).isSome := by
  constructor <;> tr_idx

theorem t_m3_swap_elements_22_20 (m : M3 K) :
    t_m3_swap_elements_22_20 (envL m.toList) = .ofPanic ((m.swapElements? 2 2 2 0).map M3.toList) ∧
      (m.swapElements? 2 2 2 0).isSome := by
  constructor <;> tr_idx

theorem t_m3_swap_elements_22_21 (m : M3 K) :
    t_m3_swap_elements_22_21 (envL m.toList) = .ofPanic ((m.swapElements? 2 2 2 1).map M3.toList) ∧
      (m.swapElements? 2 2 2 1).isSome := by
  constructor <;> tr_idx

theorem t_m3_swap_elements_22_22 (m : M3 K) :
    t_m3_swap_elements_22_22 (envL m.toList) = .ofPanic ((m.swapElements? 2 2 2 2).map M3.toList) ∧
      (m.swapElements? 2 2 2 2).isSome := by
  constructor <;> tr_idx

theorem t_m3_swap_elements_03_22_oob (m : M3 K) :
    t_m3_swap_elements_03_22_oob (envL m.toList) = .ofPanic ((m.swapElements? 0 3 2 2).map M3.toList) ∧
      t_m3_swap_elements_03_22_oob (envL m.toList) = .panicG [] ∧ m.swapElements? 0 3 2 2 = none := by
  refine ⟨?_, ?_, ?_⟩ <;> tr_idx

theorem t_m3_swap_elements_22_03_oob (m : M3 K) :
    t_m3_swap_elements_22_03_oob (envL m.toList) = .ofPanic ((m.swapElements? 2 2 0 3).map M3.toList) ∧
      t_m3_swap_elements_22_03_oob (envL m.toList) = .panicG [] ∧ m.swapElements? 2 2 0 3 = none := by
  refine ⟨?_, ?_, ?_⟩ <;> tr_idx

theorem t_m3_swap_elements_30_00_oob (m : M3 K) :
    t_m3_swap_elements_30_00_oob (envL m.toList) = .ofPanic ((m.swapElements? 3 0 0 0).map M3.toList) ∧
      t_m3_swap_elements_30_00_oob (envL m.toList) = .panicG [] ∧ m.swapElements? 3 0 0 0 = none := by
  refine ⟨?_, ?_, ?_⟩ <;> tr_idx

theorem t_m3_swap_elements_00_30_oob (m : M3 K) :
    t_m3_swap_elements_00_30_oob (envL m.toList) = .ofPanic ((m.swapElements? 0 0 3 0).map M3.toList) ∧
      t_m3_swap_elements_00_30_oob (envL m.toList) = .panicG [] ∧ m.swapElements? 0 0 3 0 = none := by
  refine ⟨?_, ?_, ?_⟩ <;> tr_idx

theorem t_m3_swap_elements_03_03_oob (m : M3 K) :
    t_m3_swap_elements_03_03_oob (envL m.toList) = .ofPanic ((m.swapElements? 0 3 0 3).map M3.toList) ∧
      t_m3_swap_elements_03_03_oob (envL m.toList) = .panicG [] ∧ m.swapElements? 0 3 0 3 = none := by
  refine ⟨?_, ?_, ?_⟩ <;> tr_idx

theorem t_m3_swap_elements_33_33_oob (m : M3 K) :
    t_m3_swap_elements_33_33_oob (envL m.toList) = .ofPanic ((m.swapElements? 3 3 3 3).map M3.toList) ∧
      t_m3_swap_elements_33_33_oob (envL m.toList) = .panicG [] ∧ m.swapElements? 3 3 3 3 = none := by
  refine ⟨?_, ?_, ?_⟩ <;> tr_idx

theorem t_m3_swap_elements_11_16_oob (m : M3 K) :
    t_m3_swap_elements_11_16_oob (envL m.toList) = .ofPanic ((m.swapElements? 1 1 1 6).map M3.toList) ∧
      t_m3_swap_elements_11_16_oob (envL m.toList) = .panicG [] ∧ m.swapElements? 1 1 1 6 = none := by
  refine ⟨?_, ?_, ?_⟩ <;> tr_idx

theorem t_m3_replace_col_0 (m : M3 K) (u : V3 K) :
    t_m3_replace_col_0 (envL (m.toList ++ u.toList)) = .ofPanic ((m.replaceCol? 0 u).map fun (m', o) => m'.toList ++ o.toList) ∧
      m.replaceCol? 0 u = some ({ m with x := u }, m.x) := by
  constructor <;> tr_idx

theorem t_m3_replace_col_1 (m : M3 K) (u : V3 K) :
    t_m3_replace_col_1 (envL (m.toList ++ u.toList)) = .ofPanic ((m.replaceCol? 1 u).map fun (m', o) => m'.toList ++ o.toList) ∧
      m.replaceCol? 1 u = some ({ m with y := u }, m.y) := by
  constructor <;> tr_idx

theorem t_m3_replace_col_2 (m : M3 K) (u : V3 K) :
    t_m3_replace_col_2 (envL (m.toList ++ u.toList)) = .ofPanic ((m.replaceCol? 2 u).map fun (m', o) => m'.toList ++ o.toList) ∧
      m.replaceCol? 2 u = some ({ m with z := u }, m.z) := by
  constructor <;> tr_idx

theorem t_m3_replace_col_3_oob (m : M3 K) (u : V3 K) :
    t_m3_replace_col_3_oob (envL (m.toList ++ u.toList)) = .ofPanic ((m.replaceCol? 3 u).map fun (m', o) => m'.toList ++ o.toList) ∧
      t_m3_replace_col_3_oob (envL (m.toList ++ u.toList)) = .panicG [] ∧ m.replaceCol? 3 u = none := by
  refine ⟨?_, ?_, ?_⟩ <;> tr_idx

theorem t_m3_transpose_self (m : M3 K) :
    t_m3_transpose_self (envL m.toList) = .ofPanic (m.transposeSelf?.map M3.toList) ∧
      m.transposeSelf? = some m.transpose := by
  constructor <;> tr_idx

theorem t_m4_swap_rows_0_0 (m : M4 K) :
    t_m4_swap_rows_0_0 (envL m.toList) = .ofPanic ((m.swapRows? 0 0).map M4.toList) ∧
      (m.swapRows? 0 0).isSome := by
  constructor <;> tr_idx

theorem t_m4_swap_rows_0_1 (m : M4 K) :
    t_m4_swap_rows_0_1 (envL m.toList) = .ofPanic ((m.swapRows? 0 1).map M4.toList) ∧
      (m.swapRows? 0 1).isSome := by
  constructor <;> tr_idx

theorem t_m4_swap_rows_0_2 (m : M4 K) :
    t_m4_swap_rows_0_2 (envL m.toList) = .ofPanic ((m.swapRows? 0 2).map M4.toList) ∧
      (m.swapRows? 0 2).isSome := by
  constructor <;> tr_idx

theorem t_m4_swap_rows_0_3 (m : M4 K) :
    t_m4_swap_rows_0_3 (envL m.toList) = .ofPanic ((m.swapRows? 0 3).map M4.toList) ∧
      (m.swapRows? 0 3).isSome := by
  constructor <;> tr_idx

theorem t_m4_swap_rows_1_0 (m : M4 K) :
    t_m4_swap_rows_1_0 (envL m.toList) = .ofPanic ((m.swapRows? 1 0).map M4.toList) ∧
      (m.swapRows? 1 0).isSome := by
  constructor <;> tr_idx

theorem t_m4_swap_rows_1_1 (m : M4 K) :
    t_m4_swap_rows_1_1 (envL m.toList) = .ofPanic ((m.swapRows? 1 1).map M4.toList) ∧
      (m.swapRows? 1 1).isSome := by
  constructor <;> tr_idx

theorem t_m4_swap_rows_1_2 (m : M4 K) :
    t_m4_swap_rows_1_2 (envL m.toList) = .ofPanic ((m.swapRows? 1 2).map M4.toList) ∧
      (m.swapRows? 1 2).isSome := by
  constructor <;> tr_idx

theorem t_m4_swap_rows_1_3 (m : M4 K) :
    t_m4_swap_rows_1_3 (envL m.toList) = .ofPanic ((m.swapRows? 1 3).map M4.toList) ∧
      (m.swapRows? 1 3).isSome := by
  constructor <;> tr_idx

theorem t_m4_swap_rows_2_0 (m : M4 K) :
    t_m4_swap_rows_2_0 (envL m.toList) = .ofPanic ((m.swapRows? 2 0).map M4.toList) ∧
      (m.swapRows? 2 0).isSome := by
  constructor <;> tr_idx

theorem t_m4_swap_rows_2_1 (m : M4 K) :
    t_m4_swap_rows_2_1 (envL m.toList) = .ofPanic ((m.swapRows? 2 1).map M4.toList) ∧
      (m.swapRows? 2 1).isSome := by
  constructor <;> tr_idx

theorem t_m4_swap_rows_2_2 (m : M4 K) :
    t_m4_swap_rows_2_2 (envL m.toList) = .ofPanic ((m.swapRows? 2 2).map M4.toList) ∧
      (m.swapRows? 2 2).isSome := by
  constructor <;> tr_idx

theorem t_m4_swap_rows_2_3 (m : M4 K) :
    t_m4_swap_rows_2_3 (envL m.toList) = .ofPanic ((m.swapRows? 2 3).map M4.toList) ∧
      (m.swapRows? 2 3).isSome := by
  constructor <;> tr_idx

theorem t_m4_swap_rows_3_0 (m : M4 K) :
    t_m4_swap_rows_3_0 (envL m.toList) = .ofPanic ((m.swapRows? 3 0).map M4.toList) ∧
      (m.swapRows? 3 0).isSome := by
  constructor <;> tr_idx

theorem t_m4_swap_rows_3_1 (m : M4 K) :
    t_m4_swap_rows_3_1 (envL m.toList) = .ofPanic ((m.swapRows? 3 1).map M4.toList) ∧
      (m.swapRows? 3 1).isSome := by
  constructor <;> tr_idx

theorem t_m4_swap_rows_3_2 (m : M4 K) :
    t_m4_swap_rows_3_2 (envL m.toList) = .ofPanic ((m.swapRows? 3 2).map M4.toList) ∧
      (m.swapRows? 3 2).isSome := by
  constructor <;> tr_idx

theorem t_m4_swap_rows_3_3 (m : M4 K) :
    t_m4_swap_rows_3_3 (envL m.toList) = .ofPanic ((m.swapRows? 3 3).map M4.toList) ∧
      (m.swapRows? 3 3).isSome := by
  constructor <;> tr_idx

theorem t_m4_swap_rows_0_4_oob (m : M4 K) :
    t_m4_swap_rows_0_4_oob (envL m.toList) = .ofPanic ((m.swapRows? 0 4).map M4.toList) ∧
      t_m4_swap_rows_0_4_oob (envL m.toList) = .panicG [] ∧ m.swapRows? 0 4 = none := by
  refine ⟨?_, ?_, ?_⟩ <;> tr_idx

theorem t_m4_swap_rows_4_0_oob (m : M4 K) :
    t_m4_swap_rows_4_0_oob (envL m.toList) = .ofPanic ((m.swapRows? 4 0).map M4.toList) ∧
      t_m4_swap_rows_4_0_oob (envL m.toList) = .panicG [] ∧ m.swapRows? 4 0 = none := by
  refine ⟨?_, ?_, ?_⟩ <;> tr_idx

theorem t_m4_swap_rows_4_4_oob (m : M4 K) :
    t_m4_swap_rows_4_4_oob (envL m.toList) = .ofPanic ((m.swapRows? 4 4).map M4.toList) ∧
      t_m4_swap_rows_4_4_oob (envL m.toList) = .panicG [] ∧ m.swapRows? 4 4 = none := by
  refine ⟨?_, ?_, ?_⟩ <;> tr_idx

theorem t_m4_swap_columns_0_0 (m : M4 K) :
    t_m4_swap_columns_0_0 (envL m.toList) = .ofPanic ((m.swapColumns? 0 0).map M4.toList) ∧
      (m.swapColumns? 0 0).isSome := by
  constructor <;> tr_idx

theorem t_m4_swap_columns_0_1 (m : M4 K) :
    t_m4_swap_columns_0_1 (envL m.toList) = .ofPanic ((m.swapColumns? 0 1).map M4.toList) ∧
      (m.swapColumns? 0 1).isSome := by
  constructor <;> tr_idx

theorem t_m4_swap_columns_0_2 (m : M4 K) :
    t_m4_swap_columns_0_2 (envL m.toList) = .ofPanic ((m.swapColumns? 0 2).map M4.toList) ∧
      (m.swapColumns? 0 2).isSome := by
  constructor <;> tr_idx

theorem t_m4_swap_columns_0_3 (m : M4 K) :
    t_m4_swap_columns_0_3 (envL m.toList) = .ofPanic ((m.swapColumns? 0 3).map M4.toList) ∧
      (m.swapColumns? 0 3).isSome := by
  constructor <;> tr_idx

theorem t_m4_swap_columns_1_0 (m : M4 K) :
    t_m4_swap_columns_1_0 (envL m.toList) = .ofPanic ((m.swapColumns? 1 0).map M4.toList) ∧
      (m.swapColumns? 1 0).isSome := by
  constructor <;> tr_idx

theorem t_m4_swap_columns_1_1 (m : M4 K) :
    t_m4_swap_columns_1_1 (envL m.toList) = .ofPanic ((m.swapColumns? 1 1).map M4.toList) ∧
      (m.swapColumns? 1 1).isSome := by
  constructor <;> tr_idx

theorem t_m4_swap_columns_1_2 (m : M4 K) :
    t_m4_swap_columns_1_2 (envL m.toList) = .ofPanic ((m.swapColumns? 1 2).map M4.toList) ∧
      (m.swapColumns? 1 2).isSome := by
  constructor <;> tr_idx

theorem t_m4_swap_columns_1_3 (m : M4 K) :
    t_m4_swap_columns_1_3 (envL m.toList) = .ofPanic ((m.swapColumns? 1 3).map M4.toList) ∧
      (m.swapColumns? 1 3).isSome := by
  constructor <;> tr_idx

theorem t_m4_swap_columns_2_0 (m : M4 K) :
    t_m4_swap_columns_2_0 (envL m.toList) = .ofPanic ((m.swapColumns? 2 0).map M4.toList) ∧
      (m.swapColumns? 2 0).isSome := by
  constructor <;> tr_idx

theorem t_m4_swap_columns_2_1 (m : M4 K) :
    t_m4_swap_columns_2_1 (envL m.toList) = .ofPanic ((m.swapColumns? 2 1).map M4.toList) ∧
      (m.swapColumns? 2 1).isSome := by
  constructor <;> tr_idx

theorem t_m4_swap_columns_2_2 (m : M4 K) :
    t_m4_swap_columns_2_2 (envL m.toList) = .ofPanic ((m.swapColumns? 2 2).map M4.toList) ∧
      (m.swapColumns? 2 2).isSome := by
  constructor <;> tr_idx

theorem t_m4_swap_columns_2_3 (m : M4 K) :
    t_m4_swap_columns_2_3 (envL m.toList) = .ofPanic ((m.swapColumns? 2 3).map M4.toList) ∧
      (m.swapColumns? 2 3).isSome := by
  constructor <;> tr_idx

theorem t_m4_swap_columns_3_0 (m : M4 K) :
    t_m4_swap_columns_3_0 (envL m.toList) = .ofPanic ((m.swapColumns? 3 0).map M4.toList) ∧
      (m.swapColumns? 3 0).isSome := by
  constructor <;> tr_idx

theorem t_m4_swap_columns_3_1 (m : M4 K) :
    t_m4_swap_columns_3_1 (envL m.toList) = .ofPanic ((m.swapColumns? 3 1).map M4.toList) ∧
      (m.swapColumns? 3 1).isSome := by
  constructor <;> tr_idx

theorem t_m4_swap_columns_3_2 (m : M4 K) :
    t_m4_swap_columns_3_2 (envL m.toList) = .ofPanic ((m.swapColumns? 3 2).map M4.toList) ∧
      (m.swapColumns? 3 2).isSome := by
  constructor <;> tr_idx

theorem t_m4_swap_columns_3_3 (m : M4 K) :
    t_m4_swap_columns_3_3 (envL m.toList) = .ofPanic ((m.swapColumns? 3 3).map M4.toList) ∧
      (m.swapColumns? 3 3).isSome := by
  constructor <;> tr_idx

theorem t_m4_swap_columns_0_4_oob (m : M4 K) :
    t_m4_swap_columns_0_4_oob (envL m.toList) = .ofPanic ((m.swapColumns? 0 4).map M4.toList) ∧
      t_m4_swap_columns_0_4_oob (envL m.toList) = .panicG [] ∧ m.swapColumns? 0 4 = none := by
  refine ⟨?_, ?_, ?_⟩ <;> tr_idx

theorem t_m4_swap_columns_4_0_oob (m : M4 K) :
    t_m4_swap_columns_4_0_oob (envL m.toList) = .ofPanic ((m.swapColumns? 4 0).map M4.toList) ∧
      t_m4_swap_columns_4_0_oob (envL m.toList) = .panicG [] ∧ m.swapColumns? 4 0 = none := by
  refine ⟨?_, ?_, ?_⟩ <;> tr_idx

theorem t_m4_swap_columns_4_4_oob (m : M4 K) :
    t_m4_swap_columns_4_4_oob (envL m.toList) = .ofPanic ((m.swapColumns? 4 4).map M4.toList) ∧
      t_m4_swap_columns_4_4_oob (envL m.toList) = .panicG [] ∧ m.swapColumns? 4 4 = none := by
  refine ⟨?_, ?_, ?_⟩ <;> tr_idx

theorem t_m4_swap_elements_04_33_oob (m : M4 K) :
    t_m4_swap_elements_04_33_oob (envL m.toList) = .ofPanic ((m.swapElements? 0 4 3 3).map M4.toList) ∧
      t_m4_swap_elements_04_33_oob (envL m.toList) = .panicG [] ∧ m.swapElements? 0 4 3 3 = none := by
  refine ⟨?_, ?_, ?_⟩ <;> tr_idx

theorem t_m4_swap_elements_33_04_oob (m : M4 K) :
    t_m4_swap_elements_33_04_oob (envL m.toList) = .ofPanic ((m.swapElements? 3 3 0 4).map M4.toList) ∧
      t_m4_swap_elements_33_04_oob (envL m.toList) = .panicG [] ∧ m.swapElements? 3 3 0 4 = none := by
  refine ⟨?_, ?_, ?_⟩ <;> tr_idx

theorem t_m4_swap_elements_40_00_oob (m : M4 K) :
    t_m4_swap_elements_40_00_oob (envL m.toList) = .ofPanic ((m.swapElements? 4 0 0 0).map M4.toList) ∧
      t_m4_swap_elements_40_00_oob (envL m.toList) = .panicG [] ∧ m.swapElements? 4 0 0 0 = none := by
  refine ⟨?_, ?_, ?_⟩ <;> tr_idx

theorem t_m4_swap_elements_00_40_oob (m : M4 K) :
    t_m4_swap_elements_00_40_oob (envL m.toList) = .ofPanic ((m.swapElements? 0 0 4 0).map M4.toList) ∧
      t_m4_swap_elements_00_40_oob (envL m.toList) = .panicG [] ∧ m.swapElements? 0 0 4 0 = none := by
  refine ⟨?_, ?_, ?_⟩ <;> tr_idx

theorem t_m4_swap_elements_04_04_oob (m : M4 K) :
    t_m4_swap_elements_04_04_oob (envL m.toList) = .ofPanic ((m.swapElements? 0 4 0 4).map M4.toList) ∧
      t_m4_swap_elements_04_04_oob (envL m.toList) = .panicG [] ∧ m.swapElements? 0 4 0 4 = none := by
  refine ⟨?_, ?_, ?_⟩ <;> tr_idx

theorem t_m4_swap_elements_44_44_oob (m : M4 K) :
    t_m4_swap_elements_44_44_oob (envL m.toList) = .ofPanic ((m.swapElements? 4 4 4 4).map M4.toList) ∧
      t_m4_swap_elements_44_44_oob (envL m.toList) = .panicG [] ∧ m.swapElements? 4 4 4 4 = none := by
  refine ⟨?_, ?_, ?_⟩ <;> tr_idx

theorem t_m4_swap_elements_11_17_oob (m : M4 K) :
    t_m4_swap_elements_11_17_oob (envL m.toList) = .ofPanic ((m.swapElements? 1 1 1 7).map M4.toList) ∧
      t_m4_swap_elements_11_17_oob (envL m.toList) = .panicG [] ∧ m.swapElements? 1 1 1 7 = none := by
  refine ⟨?_, ?_, ?_⟩ <;> tr_idx

theorem t_m4_replace_col_0 (m : M4 K) (u : V4 K) :
    t_m4_replace_col_0 (envL (m.toList ++ u.toList)) = .ofPanic ((m.replaceCol? 0 u).map fun (m', o) => m'.toList ++ o.toList) ∧
      m.replaceCol? 0 u = some ({ m with x := u }, m.x) := by
  constructor <;> tr_idx

theorem t_m4_replace_col_1 (m : M4 K) (u : V4 K) :
    t_m4_replace_col_1 (envL (m.toList ++ u.toList)) = .ofPanic ((m.replaceCol? 1 u).map fun (m', o) => m'.toList ++ o.toList) ∧
      m.replaceCol? 1 u = some ({ m with y := u }, m.y) := by
  constructor <;> tr_idx

theorem t_m4_replace_col_2 (m : M4 K) (u : V4 K) :
    t_m4_replace_col_2 (envL (m.toList ++ u.toList)) = .ofPanic ((m.replaceCol? 2 u).map fun (m', o) => m'.toList ++ o.toList) ∧
      m.replaceCol? 2 u = some ({ m with z := u }, m.z) := by
  constructor <;> tr_idx

theorem t_m4_replace_col_3 (m : M4 K) (u : V4 K) :
    t_m4_replace_col_3 (envL (m.toList ++ u.toList)) = .ofPanic ((m.replaceCol? 3 u).map fun (m', o) => m'.toList ++ o.toList) ∧
      m.replaceCol? 3 u = some ({ m with w := u }, m.w) := by
  constructor <;> tr_idx

theorem t_m4_replace_col_4_oob (m : M4 K) (u : V4 K) :
    t_m4_replace_col_4_oob (envL (m.toList ++ u.toList)) = .ofPanic ((m.replaceCol? 4 u).map fun (m', o) => m'.toList ++ o.toList) ∧
      t_m4_replace_col_4_oob (envL (m.toList ++ u.toList)) = .panicG [] ∧ m.replaceCol? 4 u = none := by
  refine ⟨?_, ?_, ?_⟩ <;> tr_idx

theorem t_m4_transpose_self (m : M4 K) :
    t_m4_transpose_self (envL m.toList) = .ofPanic (m.transposeSelf?.map M4.toList) ∧
      m.transposeSelf? = some m.transpose := by
  constructor <;> tr_idx
end Cg.Trace.C02Idx
