import Cgm.Gen.C10
import Cgm.Model.Transform
/-! # T obligations for C10: projection constructors — matrices and the `assert!`s, path by path -/
set_option linter.unusedSectionVars false
namespace Cg.Trace.C10
open Cg Cg.Gen.C10
variable {K : Type} [Field K] [LinearOrder K] [Approx K] [Transc K] [FRem K] [Lits K]

/-- the harness's `default_epsilon` for the exact scalar: 2^-52 -/
def eps52 : K := (1 : K) / (4503599627370496 : K)
attribute [local simp] ortho frustumMat perspectiveMat planarMat planarInvF toPerspective Rad.cot Rad.tan
  Angle.turnDiv eps52

theorem t_ortho (l r b t n f : K) : t_ortho (envL [l, r, b, t, n, f]) = .okS (ortho l r b t n f).toList := by tr_auto

theorem t_frustum_ok (l r b t n f : K) (h1 : l ≤ r) (h2 : b ≤ t) (h3 : n ≤ f) :
    t_frustum_ok (envL [l, r, b, t, n, f]) =
      .okG (((frustum l r b t n f).map M4.toList).getD []) [.le l r true, .le b t true, .le n f true] := by
  simp only [frustum, h1, h2, h3, not_true_eq_false, if_false, Option.map_some, Option.getD_some]; tr_auto
theorem t_frustum_bad_lr (l r b t n f : K) (h1 : ¬ l ≤ r) :
    t_frustum_bad_lr (envL [l, r, b, t, n, f]) = .panicG [.le l r false] ∧ frustum l r b t n f = none := by
  refine ⟨by tr_auto, by simp [frustum, h1]⟩
theorem t_frustum_bad_bt (l r b t n f : K) (h1 : l ≤ r) (h2 : ¬ b ≤ t) :
    t_frustum_bad_bt (envL [l, r, b, t, n, f]) = .panicG [.le l r true, .le b t false] ∧ frustum l r b t n f = none := by
  refine ⟨by tr_auto, by simp [frustum, h1, h2]⟩
theorem t_frustum_bad_nf (l r b t n f : K) (h1 : l ≤ r) (h2 : b ≤ t) (h3 : ¬ n ≤ f) :
    t_frustum_bad_nf (envL [l, r, b, t, n, f]) = .panicG [.le l r true, .le b t true, .le n f false] ∧
      frustum l r b t n f = none := by
  refine ⟨by tr_auto, by simp [frustum, h1, h2, h3]⟩

/-- `perspective` on the path `aspect ≥ 0` with every assertion passing -/
theorem t_perspective_ok (fovy a n f : K) (h1 : 0 < fovy) (h2 : fovy < Lits.radFull / 2) (h3 : ¬ a < 0)
    (h4 : absDiffEqD a (0 : K) = false) (h5 : 0 < n) (h6 : 0 < f) (h7 : absDiffEqD f n = false) :
    t_perspective_ok (envL [fovy, a, n, f]) =
      .okG (((perspective fovy a n f).map M4.toList).getD [])
        [.cmp fovy 0 .gt, .cmp fovy (Lits.radFull / 2) .lt, .lt a 0 false, .absDiff a 0 eps52 false,
         .lt 0 n true, .lt 0 f true, .absDiff f n eps52 false] := by
  have hp : perspective fovy a n f = some (perspectiveMat fovy a n f) := by
    simp [perspective, sabs, h1, h2, h3, h4, h5, h6, h7]
  rw [hp]; tr_auto
theorem t_perspective_bad_fovy (fovy a n f : K) (h1 : fovy < 0) :
    t_perspective_bad_fovy (envL [fovy, a, n, f]) = .panicG [.cmp fovy 0 .lt] ∧ perspective fovy a n f = none := by
  refine ⟨by tr_auto, by simp [perspective, not_lt.mpr h1.le]⟩
theorem t_perspective_bad_near (fovy a n f : K) (h1 : 0 < fovy) (h2 : fovy < Lits.radFull / 2) (h3 : ¬ a < 0)
    (h4 : absDiffEqD a (0 : K) = false) (h5 : ¬ 0 < n) :
    t_perspective_bad_near (envL [fovy, a, n, f]) =
      .panicG [.cmp fovy 0 .gt, .cmp fovy (Lits.radFull / 2) .lt, .lt a 0 false, .absDiff a 0 eps52 false, .lt 0 n false] ∧
      perspective fovy a n f = none := by
  refine ⟨by tr_auto, by simp [perspective, sabs, h1, h2, h3, h4, h5]⟩

/-- `planar` on the path `aspect ≥ 0`, `near < far`, focal point in front of the nearer plane.  `hreg` excludes the one input
class on which exact arithmetic and IEEE arithmetic part ways without any comparison being made: `tan(fovy/2) = 0` with
`height = 0`, where `inv_f` is `0/0` (the model follows IEEE there: the assertion fails; see `Cgm/Model/Transform.lean`) -/
theorem t_planar_ok (fovy a h n f : K) (h1 : -(Lits.radFull / 2) < fovy) (h2 : fovy < Lits.radFull / 2) (h3 : 0 ≤ h)
    (h4 : ¬ a < 0) (h5 : absDiffEqD a (0 : K) = false) (h6 : absDiffEqD f n = false) (h7 : n < f)
    (h8 : -(1 / planarInvF fovy h) < n)
    (hreg : ¬ ((¬ Rad.tan (fovy / (two : K)) < 0 ∧ ¬ 0 < Rad.tan (fovy / (two : K))) ∧ ¬ 0 < h)) :
    t_planar_ok (envL [fovy, a, h, n, f]) =
      .okG (((planar fovy a h n f).map M4.toList).getD [])
        [.cmp fovy (-(Lits.radFull / 2)) .gt, .cmp fovy (Lits.radFull / 2) .lt, .le 0 h true, .lt a 0 false,
         .absDiff a 0 eps52 false, .absDiff f n eps52 false, .lt n f true, .lt (-(1 / planarInvF fovy h)) n true] := by
  have hp : planar fovy a h n f = some (planarMat fovy a h n f) := by
    have h8' := h8
    simp at h8'
    have hfocal : -((1 : K) / planarInvF fovy h) < smin f n := by
      simp only [smin, if_pos h7]; exact h8
    unfold planar
    simp only [sabs, if_neg h4, h1, h2, h3, h5, h6, hreg, hfocal, not_true_eq_false, not_false_eq_true, if_false, if_true,
      Bool.false_eq_true, or_true, true_or]
    simp [Angle.turnDiv, h1, h2]
  rw [hp]; tr_auto
theorem t_to_perspective (fovy a n f : K) :
    t_to_perspective (envL [fovy, a, n, f]) = .okS (toPerspective fovy a n f) := by tr_auto
end Cg.Trace.C10
