import Cgm.Gen.C06
import Cgm.Model.Rot
/-! # T obligations for C06: the angle and axis-angle constructors (sin/cos stay atoms on both sides) -/
set_option linter.unusedSectionVars false
namespace Cg.Trace.C06
open Cg Cg.Gen.C06
variable {K : Type} [Field K] [Transc K] [FRem K] [Lits K]
attribute [local simp] M3.axisAngleSC M4.axisAngleSC M3.fromAxisAngle M4.fromAxisAngle M2.fromAngle
  M3.fromAngleX M3.fromAngleY M3.fromAngleZ M4.fromAngleX M4.fromAngleY M4.fromAngleZ
  Quat.fromAxisAngle Quat.fromAngleX Quat.fromAngleY Quat.fromAngleZ

theorem t_m2_from_angle (t : K) : t_m2_from_angle (envL [t]) = .okS (M2.fromAngle t).toList := by tr_auto
theorem t_m3_from_angle_x (t : K) : t_m3_from_angle_x (envL [t]) = .okS (M3.fromAngleX t).toList := by tr_auto
theorem t_m3_from_angle_y (t : K) : t_m3_from_angle_y (envL [t]) = .okS (M3.fromAngleY t).toList := by tr_auto
theorem t_m3_from_angle_z (t : K) : t_m3_from_angle_z (envL [t]) = .okS (M3.fromAngleZ t).toList := by tr_auto
theorem t_m4_from_angle_x (t : K) : t_m4_from_angle_x (envL [t]) = .okS (M4.fromAngleX t).toList := by tr_auto
theorem t_m4_from_angle_y (t : K) : t_m4_from_angle_y (envL [t]) = .okS (M4.fromAngleY t).toList := by tr_auto
theorem t_m4_from_angle_z (t : K) : t_m4_from_angle_z (envL [t]) = .okS (M4.fromAngleZ t).toList := by tr_auto
theorem t_m3_from_axis_angle (a : V3 K) (t : K) :
    t_m3_from_axis_angle (envL (a.toList ++ [t])) = .okS (M3.fromAxisAngle a t).toList := by tr_auto
theorem t_m4_from_axis_angle (a : V3 K) (t : K) :
    t_m4_from_axis_angle (envL (a.toList ++ [t])) = .okS (M4.fromAxisAngle a t).toList := by tr_auto
theorem t_q_from_axis_angle (a : V3 K) (t : K) :
    t_q_from_axis_angle (envL (a.toList ++ [t])) = .okS (Quat.fromAxisAngle a t).toList := by tr_auto_nf
theorem t_q_from_angle_x (t : K) : t_q_from_angle_x (envL [t]) = .okS (Quat.fromAngleX t).toList := by tr_auto_nf
theorem t_q_from_angle_y (t : K) : t_q_from_angle_y (envL [t]) = .okS (Quat.fromAngleY t).toList := by tr_auto_nf
theorem t_q_from_angle_z (t : K) : t_q_from_angle_z (envL [t]) = .okS (Quat.fromAngleZ t).toList := by tr_auto_nf
theorem t_b2_from_angle (t : K) : t_b2_from_angle (envL [t]) = .okS (M2.fromAngle t).toList := by tr_auto
end Cg.Trace.C06
