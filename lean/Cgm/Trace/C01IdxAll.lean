import Cgm.Trace.C01Idx
/-!
# T obligations for C01, collected: one statement per operation for every in-range index tuple

Static text (written once by lib/gen_idx_all.py).  The per-tuple kernels of `Cgm/Trace/C01Idx*.lean` are put into a table
indexed by `Fin n` tuples; `<table>_all` says that at every in-range tuple the traced code is the model's function and
that the model returns there.  (Nothing else is stated in this file; the compositions with the property-level theorems about the
model are in `Cgm/E2E/C01i.lean`.)
-/
set_option linter.unusedSectionVars false
set_option linter.unusedVariables false
namespace Cg.Trace.C01IdxAll
open Cg
variable {K : Type} [Field K] [Transc K] [FRem K] [Lits K]

/-- the `Matrix2::row` kernels by index tuple -/
def kRow2 : Fin 2 → (Nat → K) → Tr K :=
  ![Gen.C01.t_m2_row_0, Gen.C01.t_m2_row_1]
/-- `Matrix2::row` at every in-range index tuple is the model's function, which returns -/
theorem kRow2_all (m : M2 K) (i0 : Fin 2) :
    kRow2 i0 (envL m.toList) = .ofPanic ((m.row? i0).map V2.toList) ∧ (m.row? i0).isSome := by
  fin_cases i0
  · exact ⟨(C01Idx.t_m2_row_0 m).1, by rw [(C01Idx.t_m2_row_0 m).2]; rfl⟩
  · exact ⟨(C01Idx.t_m2_row_1 m).1, by rw [(C01Idx.t_m2_row_1 m).2]; rfl⟩

/-- the `Matrix2::index (column)` kernels by index tuple -/
def kCol2 : Fin 2 → (Nat → K) → Tr K :=
  ![Gen.C01.t_m2_col_0, Gen.C01.t_m2_col_1]
/-- `Matrix2::index (column)` at every in-range index tuple is the model's function, which returns -/
theorem kCol2_all (m : M2 K) (i0 : Fin 2) :
    kCol2 i0 (envL m.toList) = .ofPanic ((m.col? i0).map V2.toList) ∧ (m.col? i0).isSome := by
  fin_cases i0
  · exact ⟨(C01Idx.t_m2_col_0 m).1, by rw [(C01Idx.t_m2_col_0 m).2]; rfl⟩
  · exact ⟨(C01Idx.t_m2_col_1 m).1, by rw [(C01Idx.t_m2_col_1 m).2]; rfl⟩

/-- the `Matrix3::row` kernels by index tuple -/
def kRow3 : Fin 3 → (Nat → K) → Tr K :=
  ![Gen.C01.t_m3_row_0, Gen.C01.t_m3_row_1, Gen.C01.t_m3_row_2]
/-- `Matrix3::row` at every in-range index tuple is the model's function, which returns -/
theorem kRow3_all (m : M3 K) (i0 : Fin 3) :
    kRow3 i0 (envL m.toList) = .ofPanic ((m.row? i0).map V3.toList) ∧ (m.row? i0).isSome := by
  fin_cases i0
  · exact ⟨(C01Idx.t_m3_row_0 m).1, by rw [(C01Idx.t_m3_row_0 m).2]; rfl⟩
  · exact ⟨(C01Idx.t_m3_row_1 m).1, by rw [(C01Idx.t_m3_row_1 m).2]; rfl⟩
  · exact ⟨(C01Idx.t_m3_row_2 m).1, by rw [(C01Idx.t_m3_row_2 m).2]; rfl⟩

/-- the `Matrix3::index (column)` kernels by index tuple -/
def kCol3 : Fin 3 → (Nat → K) → Tr K :=
  ![Gen.C01.t_m3_col_0, Gen.C01.t_m3_col_1, Gen.C01.t_m3_col_2]
/-- `Matrix3::index (column)` at every in-range index tuple is the model's function, which returns -/
theorem kCol3_all (m : M3 K) (i0 : Fin 3) :
    kCol3 i0 (envL m.toList) = .ofPanic ((m.col? i0).map V3.toList) ∧ (m.col? i0).isSome := by
  fin_cases i0
  · exact ⟨(C01Idx.t_m3_col_0 m).1, by rw [(C01Idx.t_m3_col_0 m).2]; rfl⟩
  · exact ⟨(C01Idx.t_m3_col_1 m).1, by rw [(C01Idx.t_m3_col_1 m).2]; rfl⟩
  · exact ⟨(C01Idx.t_m3_col_2 m).1, by rw [(C01Idx.t_m3_col_2 m).2]; rfl⟩

/-- the `Matrix4::row` kernels by index tuple -/
def kRow4 : Fin 4 → (Nat → K) → Tr K :=
  ![Gen.C01.t_m4_row_0, Gen.C01.t_m4_row_1, Gen.C01.t_m4_row_2, Gen.C01.t_m4_row_3]
/-- `Matrix4::row` at every in-range index tuple is the model's function, which returns -/
theorem kRow4_all (m : M4 K) (i0 : Fin 4) :
    kRow4 i0 (envL m.toList) = .ofPanic ((m.row? i0).map V4.toList) ∧ (m.row? i0).isSome := by
  fin_cases i0
  · exact ⟨(C01Idx.t_m4_row_0 m).1, by rw [(C01Idx.t_m4_row_0 m).2]; rfl⟩
  · exact ⟨(C01Idx.t_m4_row_1 m).1, by rw [(C01Idx.t_m4_row_1 m).2]; rfl⟩
  · exact ⟨(C01Idx.t_m4_row_2 m).1, by rw [(C01Idx.t_m4_row_2 m).2]; rfl⟩
  · exact ⟨(C01Idx.t_m4_row_3 m).1, by rw [(C01Idx.t_m4_row_3 m).2]; rfl⟩

/-- the `Matrix4::index (column)` kernels by index tuple -/
def kCol4 : Fin 4 → (Nat → K) → Tr K :=
  ![Gen.C01.t_m4_col_0, Gen.C01.t_m4_col_1, Gen.C01.t_m4_col_2, Gen.C01.t_m4_col_3]
/-- `Matrix4::index (column)` at every in-range index tuple is the model's function, which returns -/
theorem kCol4_all (m : M4 K) (i0 : Fin 4) :
    kCol4 i0 (envL m.toList) = .ofPanic ((m.col? i0).map V4.toList) ∧ (m.col? i0).isSome := by
  fin_cases i0
  · exact ⟨(C01Idx.t_m4_col_0 m).1, by rw [(C01Idx.t_m4_col_0 m).2]; rfl⟩
  · exact ⟨(C01Idx.t_m4_col_1 m).1, by rw [(C01Idx.t_m4_col_1 m).2]; rfl⟩
  · exact ⟨(C01Idx.t_m4_col_2 m).1, by rw [(C01Idx.t_m4_col_2 m).2]; rfl⟩
  · exact ⟨(C01Idx.t_m4_col_3 m).1, by rw [(C01Idx.t_m4_col_3 m).2]; rfl⟩

end Cg.Trace.C01IdxAll
