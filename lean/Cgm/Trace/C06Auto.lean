import Cgm.Gen.C06
/-! # T obligations for C06, generated once by tools/gen_tobl.py from the driver tables
(static text: the statement is `traced kernel = the model function the driver runs for this op`) -/
set_option linter.unusedSectionVars false
set_option linter.unusedVariables false
set_option linter.unusedSimpArgs false
namespace Cg.Trace.C06Auto
open Cg Cg.Gen.C06
variable {K : Type} [Field K] [Transc K] [FRem K] [Lits K]

theorem t_b2_one  :
    t_b2_one (envL (([] : List K))) = .okS (Basis2.one : Basis2 K).mat.toList := by
  first | tr_any | (simp [Basis2.one, List.foldl, envL, Tr.okS, V1.toList, V2.toList, V3.toList, V4.toList, P1.toList, P2.toList, P3.toList, M2.toList, M3.toList, M4.toList, Quat.toList] <;> (repeat' apply And.intro) <;> first | ring1 | (ring_nf; done)) | (simp [Basis2.one, M2.fromValue, M2.new, M2.one, V2.fromValue, one, List.foldl, envL, Tr.okS, V1.toList, V2.toList, V3.toList, V4.toList, P1.toList, P2.toList, P3.toList, M2.toList, M3.toList, M4.toList, Quat.toList] <;> (repeat' apply And.intro) <;> first | ring1 | (ring_nf; done))
theorem t_b2_from_angle_deg (t : K) :
    t_b2_from_angle_deg (envL ([t])) = .okS (M2.fromAngle (degToRad t)).toList := by
  first | tr_any | (simp [M2.fromAngle, degToRad, List.foldl, envL, Tr.okS, V1.toList, V2.toList, V3.toList, V4.toList, P1.toList, P2.toList, P3.toList, M2.toList, M3.toList, M4.toList, Quat.toList] <;> (repeat' apply And.intro) <;> first | ring1 | (ring_nf; done)) | (simp [M2.fromAngle, M2.new, degToRad, List.foldl, envL, Tr.okS, V1.toList, V2.toList, V3.toList, V4.toList, P1.toList, P2.toList, P3.toList, M2.toList, M3.toList, M4.toList, Quat.toList] <;> (repeat' apply And.intro) <;> first | ring1 | (ring_nf; done))
theorem t_b2_mul (pt : K) (qt : K) :
    t_b2_mul (envL ([pt] ++ [qt])) = .okS (let p := ((⟨M2.fromAngle pt⟩ : Basis2 K)); (let q := ((⟨M2.fromAngle qt⟩ : Basis2 K)); (p.mul q).mat.toList)) := by
  first | tr_any | (simp [Basis2.mul, M2.fromAngle, M2.mul, List.foldl, envL, Tr.okS, V1.toList, V2.toList, V3.toList, V4.toList, P1.toList, P2.toList, P3.toList, M2.toList, M3.toList, M4.toList, Quat.toList] <;> (repeat' apply And.intro) <;> first | ring1 | (ring_nf; done)) | (simp [Basis2.mul, M2.fromAngle, M2.mul, M2.new, M2.row0, M2.row1, V2.dot, V2.mulEw, V2.sum, List.foldl, envL, Tr.okS, V1.toList, V2.toList, V3.toList, V4.toList, P1.toList, P2.toList, P3.toList, M2.toList, M3.toList, M4.toList, Quat.toList] <;> (repeat' apply And.intro) <;> first | ring1 | (ring_nf; done))
theorem t_b2_rotate_vector (pt : K) (v : V2 K) :
    t_b2_rotate_vector (envL ([pt] ++ v.toList)) = .okS (let p := ((⟨M2.fromAngle pt⟩ : Basis2 K)); (p.rotateVector v).toList) := by
  first | tr_any | (simp [Basis2.rotateVector, M2.fromAngle, V2.distance2, V2.dot, V2.magnitude, V2.magnitude2, V2.normalizeTo, V2.product, V2.sum, List.foldl, envL, Tr.okS, V1.toList, V2.toList, V3.toList, V4.toList, P1.toList, P2.toList, P3.toList, M2.toList, M3.toList, M4.toList, Quat.toList] <;> (repeat' apply And.intro) <;> first | ring1 | (ring_nf; done)) | (simp [Basis2.rotateVector, M2.fromAngle, M2.new, List.foldl, envL, Tr.okS, V1.toList, V2.toList, V3.toList, V4.toList, P1.toList, P2.toList, P3.toList, M2.toList, M3.toList, M4.toList, Quat.toList] <;> (repeat' apply And.intro) <;> first | ring1 | (ring_nf; done))
theorem t_b2_rotate_point (pt : K) (v : P2 K) :
    t_b2_rotate_point (envL ([pt] ++ v.toList)) = .okS (let p := ((⟨M2.fromAngle pt⟩ : Basis2 K)); (p.rotatePoint v).toList) := by
  first | tr_any | (simp [Basis2.rotatePoint, M2.fromAngle, P2.distance2, P2.dot, P2.fromVec, P2.toVec, V2.distance2, V2.dot, V2.magnitude, V2.magnitude2, V2.normalizeTo, V2.product, V2.sum, List.foldl, envL, Tr.okS, V1.toList, V2.toList, V3.toList, V4.toList, P1.toList, P2.toList, P3.toList, M2.toList, M3.toList, M4.toList, Quat.toList] <;> (repeat' apply And.intro) <;> first | ring1 | (ring_nf; done)) | (simp [Basis2.rotatePoint, Basis2.rotateVector, M2.fromAngle, M2.new, P2.fromVec, P2.toVec, List.foldl, envL, Tr.okS, V1.toList, V2.toList, V3.toList, V4.toList, P1.toList, P2.toList, P3.toList, M2.toList, M3.toList, M4.toList, Quat.toList] <;> (repeat' apply And.intro) <;> first | ring1 | (ring_nf; done))
theorem t_m2_from_angle_deg (t : K) :
    t_m2_from_angle_deg (envL ([t])) = .okS (M2.fromAngle (degToRad t)).toList := by
  first | tr_any | (simp [M2.fromAngle, degToRad, List.foldl, envL, Tr.okS, V1.toList, V2.toList, V3.toList, V4.toList, P1.toList, P2.toList, P3.toList, M2.toList, M3.toList, M4.toList, Quat.toList] <;> (repeat' apply And.intro) <;> first | ring1 | (ring_nf; done)) | (simp [M2.fromAngle, M2.new, degToRad, List.foldl, envL, Tr.okS, V1.toList, V2.toList, V3.toList, V4.toList, P1.toList, P2.toList, P3.toList, M2.toList, M3.toList, M4.toList, Quat.toList] <;> (repeat' apply And.intro) <;> first | ring1 | (ring_nf; done))
theorem t_m4_from_angle_x_deg (t : K) :
    t_m4_from_angle_x_deg (envL ([t])) = .okS (M4.fromAngleX (degToRad t)).toList := by
  first | tr_any | (simp [M4.fromAngleX, degToRad, List.foldl, envL, Tr.okS, V1.toList, V2.toList, V3.toList, V4.toList, P1.toList, P2.toList, P3.toList, M2.toList, M3.toList, M4.toList, Quat.toList] <;> (repeat' apply And.intro) <;> first | ring1 | (ring_nf; done)) | (simp [M4.fromAngleX, M4.new, degToRad, List.foldl, envL, Tr.okS, V1.toList, V2.toList, V3.toList, V4.toList, P1.toList, P2.toList, P3.toList, M2.toList, M3.toList, M4.toList, Quat.toList] <;> (repeat' apply And.intro) <;> first | ring1 | (ring_nf; done))
theorem t_b3_from_angle_x (t : K) :
    t_b3_from_angle_x (envL ([t])) = .okS (M3.fromAngleX t).toList := by
  first | tr_any | (simp [M3.fromAngleX, List.foldl, envL, Tr.okS, V1.toList, V2.toList, V3.toList, V4.toList, P1.toList, P2.toList, P3.toList, M2.toList, M3.toList, M4.toList, Quat.toList] <;> (repeat' apply And.intro) <;> first | ring1 | (ring_nf; done)) | (simp [M3.fromAngleX, M3.new, List.foldl, envL, Tr.okS, V1.toList, V2.toList, V3.toList, V4.toList, P1.toList, P2.toList, P3.toList, M2.toList, M3.toList, M4.toList, Quat.toList] <;> (repeat' apply And.intro) <;> first | ring1 | (ring_nf; done))
theorem t_b3_from_angle_y (t : K) :
    t_b3_from_angle_y (envL ([t])) = .okS (M3.fromAngleY t).toList := by
  first | tr_any | (simp [M3.fromAngleY, List.foldl, envL, Tr.okS, V1.toList, V2.toList, V3.toList, V4.toList, P1.toList, P2.toList, P3.toList, M2.toList, M3.toList, M4.toList, Quat.toList] <;> (repeat' apply And.intro) <;> first | ring1 | (ring_nf; done)) | (simp [M3.fromAngleY, M3.new, List.foldl, envL, Tr.okS, V1.toList, V2.toList, V3.toList, V4.toList, P1.toList, P2.toList, P3.toList, M2.toList, M3.toList, M4.toList, Quat.toList] <;> (repeat' apply And.intro) <;> first | ring1 | (ring_nf; done))
theorem t_b3_from_angle_z (t : K) :
    t_b3_from_angle_z (envL ([t])) = .okS (M3.fromAngleZ t).toList := by
  first | tr_any | (simp [M3.fromAngleZ, List.foldl, envL, Tr.okS, V1.toList, V2.toList, V3.toList, V4.toList, P1.toList, P2.toList, P3.toList, M2.toList, M3.toList, M4.toList, Quat.toList] <;> (repeat' apply And.intro) <;> first | ring1 | (ring_nf; done)) | (simp [M3.fromAngleZ, M3.new, List.foldl, envL, Tr.okS, V1.toList, V2.toList, V3.toList, V4.toList, P1.toList, P2.toList, P3.toList, M2.toList, M3.toList, M4.toList, Quat.toList] <;> (repeat' apply And.intro) <;> first | ring1 | (ring_nf; done))
theorem t_rad_sin_cos (x : K) :
    t_rad_sin_cos (envL ([x])) = .okS [Rad.sin ((id : K → K) x), Rad.cos ((id : K → K) x)] := by
  first | tr_any | (simp [Rad.cos, Rad.sin, List.foldl, envL, Tr.okS, V1.toList, V2.toList, V3.toList, V4.toList, P1.toList, P2.toList, P3.toList, M2.toList, M3.toList, M4.toList, Quat.toList] <;> (repeat' apply And.intro) <;> first | ring1 | (ring_nf; done))
end Cg.Trace.C06Auto
