import Cgm.Gen.C16
import Cgm.Lemmas.TraceIdx
import Cgm.Model.Book3
/-!
# T obligations for C16: `Index<usize>` / `IndexMut<usize>` of the quaternion, `IndexMut<usize>` stores into vectors, points
and matrices (`m[c][r] = a`), `Array::swap_elements` of vectors and points -- every in-range index (tuple), and out of range

GENERATED once by `tools/gen_ops_obl.py` from the kernel table `lib/cgv/tracetab_ops.py`; kept as an ordinary source file.

Each kernel was traced from the real code at the literal indices in its name, on symbolic components; the obligation says it
is the model's function at those indices for every value (`Tr.ofPanic` reads the model's `none` as the code's panic) and
writes out the flattened result: the stored value at exactly the addressed position (quaternion: slots `0..2` are `v.x, v.y,
v.z`, slot `3` is `s`, while the flattening is `s x y z`), every other component unchanged; for `swap_elements` the two
addressed components exchanged.  Out of range (`_oob`) the kernel is the bare panic and the model is `none`.
-/
set_option linter.unusedSectionVars false
set_option linter.unusedSimpArgs false
set_option linter.unusedVariables false
namespace Cg.Trace.C16Ops
open Cg Cg.Gen.C16
variable {K : Type} [Field K] [Transc K] [FRem K] [Lits K]

/-- unfold the kernel, the model's accessor / store at the literal indices, and the flat lists -/
local macro "tr_ix" : tactic =>
  `(tactic| (simp [envL, Tr.okS, Tr.panicG, Tr.ofPanic, V1.get?, V2.get?, V3.get?, V4.get?, P1.get?, P2.get?, P3.get?,
      V1.set?, V2.set?, V3.set?, V4.set?, P1.set?, P2.set?, P3.set?, Quat.get?, Quat.set?, Quat.toArray, Quat.toList,
      V1.swapElements?, V2.swapElements?, V3.swapElements?, V4.swapElements?, P1.swapElements?, P2.swapElements?,
      P3.swapElements?, M2.set?, M3.set?, M4.set?, M2.col?, M3.col?, M4.col?, M2.cols, M3.cols, M4.cols,
      M2.setCol?, M3.setCol?, M4.setCol?, V1.toList, V2.toList, V3.toList, V4.toList,
      P1.toList, P2.toList, P3.toList, M2.toList, M3.toList, M4.toList]))

/-! ## `Quaternion`: `Index<usize>` and `IndexMut<usize>` (order `x, y, z, s`) -/
theorem t_q_index_0 (q : Quat K) :
    t_q_index_0 (envL q.toList) = .ofPanic ((q.get? 0).map fun a => [a]) ∧ q.get? 0 = some q.v.x := by
  constructor <;> tr_ix

theorem t_q_index_1 (q : Quat K) :
    t_q_index_1 (envL q.toList) = .ofPanic ((q.get? 1).map fun a => [a]) ∧ q.get? 1 = some q.v.y := by
  constructor <;> tr_ix

theorem t_q_index_2 (q : Quat K) :
    t_q_index_2 (envL q.toList) = .ofPanic ((q.get? 2).map fun a => [a]) ∧ q.get? 2 = some q.v.z := by
  constructor <;> tr_ix

theorem t_q_index_3 (q : Quat K) :
    t_q_index_3 (envL q.toList) = .ofPanic ((q.get? 3).map fun a => [a]) ∧ q.get? 3 = some q.s := by
  constructor <;> tr_ix

theorem t_q_index_4_oob (q : Quat K) :
    t_q_index_4_oob (envL q.toList) = .ofPanic ((q.get? 4).map fun a => [a]) ∧
      t_q_index_4_oob (envL q.toList) = .panicG [] ∧ q.get? 4 = none := by
  refine ⟨?_, ?_, ?_⟩ <;> tr_ix

theorem t_q_set_0 (q : Quat K) (a : K) :
    t_q_set_0 (envL (q.toList ++ [a])) = .ofPanic ((q.set? 0 a).map Quat.toList) ∧
      (q.set? 0 a).map Quat.toList = some [q.s, a, q.v.y, q.v.z] := by
  constructor <;> tr_ix

theorem t_q_set_1 (q : Quat K) (a : K) :
    t_q_set_1 (envL (q.toList ++ [a])) = .ofPanic ((q.set? 1 a).map Quat.toList) ∧
      (q.set? 1 a).map Quat.toList = some [q.s, q.v.x, a, q.v.z] := by
  constructor <;> tr_ix

theorem t_q_set_2 (q : Quat K) (a : K) :
    t_q_set_2 (envL (q.toList ++ [a])) = .ofPanic ((q.set? 2 a).map Quat.toList) ∧
      (q.set? 2 a).map Quat.toList = some [q.s, q.v.x, q.v.y, a] := by
  constructor <;> tr_ix

theorem t_q_set_3 (q : Quat K) (a : K) :
    t_q_set_3 (envL (q.toList ++ [a])) = .ofPanic ((q.set? 3 a).map Quat.toList) ∧
      (q.set? 3 a).map Quat.toList = some [a, q.v.x, q.v.y, q.v.z] := by
  constructor <;> tr_ix

theorem t_q_set_4_oob (q : Quat K) (a : K) :
    t_q_set_4_oob (envL (q.toList ++ [a])) = .ofPanic ((q.set? 4 a).map Quat.toList) ∧
      t_q_set_4_oob (envL (q.toList ++ [a])) = .panicG [] ∧ (q.set? 4 a).map Quat.toList = none := by
  refine ⟨?_, ?_, ?_⟩ <;> tr_ix

/-! ## `v1`: `IndexMut<usize>` store, `swap_elements` -/
theorem t_v1_set_0 (u : V1 K) (a : K) :
    t_v1_set_0 (envL (u.toList ++ [a])) = .ofPanic ((u.set? 0 a).map V1.toList) ∧
      (u.set? 0 a).map V1.toList = some [a] := by
  constructor <;> tr_ix

theorem t_v1_set_1_oob (u : V1 K) (a : K) :
    t_v1_set_1_oob (envL (u.toList ++ [a])) = .ofPanic ((u.set? 1 a).map V1.toList) ∧
      t_v1_set_1_oob (envL (u.toList ++ [a])) = .panicG [] ∧ (u.set? 1 a).map V1.toList = none := by
  refine ⟨?_, ?_, ?_⟩ <;> tr_ix

theorem t_v1_swap_elements_0_0 (u : V1 K) :
    t_v1_swap_elements_0_0 (envL (u.toList)) = .ofPanic ((u.swapElements? 0 0).map V1.toList) ∧
      (u.swapElements? 0 0).map V1.toList = some [u.x] := by
  constructor <;> tr_ix

theorem t_v1_swap_elements_1_0_oob (u : V1 K) :
    t_v1_swap_elements_1_0_oob (envL (u.toList)) = .ofPanic ((u.swapElements? 1 0).map V1.toList) ∧
      t_v1_swap_elements_1_0_oob (envL (u.toList)) = .panicG [] ∧ (u.swapElements? 1 0).map V1.toList = none := by
  refine ⟨?_, ?_, ?_⟩ <;> tr_ix

theorem t_v1_swap_elements_0_1_oob (u : V1 K) :
    t_v1_swap_elements_0_1_oob (envL (u.toList)) = .ofPanic ((u.swapElements? 0 1).map V1.toList) ∧
      t_v1_swap_elements_0_1_oob (envL (u.toList)) = .panicG [] ∧ (u.swapElements? 0 1).map V1.toList = none := by
  refine ⟨?_, ?_, ?_⟩ <;> tr_ix

/-! ## `v2`: `IndexMut<usize>` store, `swap_elements` -/
theorem t_v2_set_0 (u : V2 K) (a : K) :
    t_v2_set_0 (envL (u.toList ++ [a])) = .ofPanic ((u.set? 0 a).map V2.toList) ∧
      (u.set? 0 a).map V2.toList = some [a, u.y] := by
  constructor <;> tr_ix

theorem t_v2_set_1 (u : V2 K) (a : K) :
    t_v2_set_1 (envL (u.toList ++ [a])) = .ofPanic ((u.set? 1 a).map V2.toList) ∧
      (u.set? 1 a).map V2.toList = some [u.x, a] := by
  constructor <;> tr_ix

theorem t_v2_set_2_oob (u : V2 K) (a : K) :
    t_v2_set_2_oob (envL (u.toList ++ [a])) = .ofPanic ((u.set? 2 a).map V2.toList) ∧
      t_v2_set_2_oob (envL (u.toList ++ [a])) = .panicG [] ∧ (u.set? 2 a).map V2.toList = none := by
  refine ⟨?_, ?_, ?_⟩ <;> tr_ix

theorem t_v2_swap_elements_0_0 (u : V2 K) :
    t_v2_swap_elements_0_0 (envL (u.toList)) = .ofPanic ((u.swapElements? 0 0).map V2.toList) ∧
      (u.swapElements? 0 0).map V2.toList = some [u.x, u.y] := by
  constructor <;> tr_ix

theorem t_v2_swap_elements_0_1 (u : V2 K) :
    t_v2_swap_elements_0_1 (envL (u.toList)) = .ofPanic ((u.swapElements? 0 1).map V2.toList) ∧
      (u.swapElements? 0 1).map V2.toList = some [u.y, u.x] := by
  constructor <;> tr_ix

theorem t_v2_swap_elements_1_0 (u : V2 K) :
    t_v2_swap_elements_1_0 (envL (u.toList)) = .ofPanic ((u.swapElements? 1 0).map V2.toList) ∧
      (u.swapElements? 1 0).map V2.toList = some [u.y, u.x] := by
  constructor <;> tr_ix

theorem t_v2_swap_elements_1_1 (u : V2 K) :
    t_v2_swap_elements_1_1 (envL (u.toList)) = .ofPanic ((u.swapElements? 1 1).map V2.toList) ∧
      (u.swapElements? 1 1).map V2.toList = some [u.x, u.y] := by
  constructor <;> tr_ix

theorem t_v2_swap_elements_2_0_oob (u : V2 K) :
    t_v2_swap_elements_2_0_oob (envL (u.toList)) = .ofPanic ((u.swapElements? 2 0).map V2.toList) ∧
      t_v2_swap_elements_2_0_oob (envL (u.toList)) = .panicG [] ∧ (u.swapElements? 2 0).map V2.toList = none := by
  refine ⟨?_, ?_, ?_⟩ <;> tr_ix

theorem t_v2_swap_elements_0_2_oob (u : V2 K) :
    t_v2_swap_elements_0_2_oob (envL (u.toList)) = .ofPanic ((u.swapElements? 0 2).map V2.toList) ∧
      t_v2_swap_elements_0_2_oob (envL (u.toList)) = .panicG [] ∧ (u.swapElements? 0 2).map V2.toList = none := by
  refine ⟨?_, ?_, ?_⟩ <;> tr_ix

/-! ## `v3`: `IndexMut<usize>` store, `swap_elements` -/
theorem t_v3_set_0 (u : V3 K) (a : K) :
    t_v3_set_0 (envL (u.toList ++ [a])) = .ofPanic ((u.set? 0 a).map V3.toList) ∧
      (u.set? 0 a).map V3.toList = some [a, u.y, u.z] := by
  constructor <;> tr_ix

theorem t_v3_set_1 (u : V3 K) (a : K) :
    t_v3_set_1 (envL (u.toList ++ [a])) = .ofPanic ((u.set? 1 a).map V3.toList) ∧
      (u.set? 1 a).map V3.toList = some [u.x, a, u.z] := by
  constructor <;> tr_ix

theorem t_v3_set_2 (u : V3 K) (a : K) :
    t_v3_set_2 (envL (u.toList ++ [a])) = .ofPanic ((u.set? 2 a).map V3.toList) ∧
      (u.set? 2 a).map V3.toList = some [u.x, u.y, a] := by
  constructor <;> tr_ix

theorem t_v3_set_3_oob (u : V3 K) (a : K) :
    t_v3_set_3_oob (envL (u.toList ++ [a])) = .ofPanic ((u.set? 3 a).map V3.toList) ∧
      t_v3_set_3_oob (envL (u.toList ++ [a])) = .panicG [] ∧ (u.set? 3 a).map V3.toList = none := by
  refine ⟨?_, ?_, ?_⟩ <;> tr_ix

theorem t_v3_swap_elements_0_0 (u : V3 K) :
    t_v3_swap_elements_0_0 (envL (u.toList)) = .ofPanic ((u.swapElements? 0 0).map V3.toList) ∧
      (u.swapElements? 0 0).map V3.toList = some [u.x, u.y, u.z] := by
  constructor <;> tr_ix

theorem t_v3_swap_elements_0_1 (u : V3 K) :
    t_v3_swap_elements_0_1 (envL (u.toList)) = .ofPanic ((u.swapElements? 0 1).map V3.toList) ∧
      (u.swapElements? 0 1).map V3.toList = some [u.y, u.x, u.z] := by
  constructor <;> tr_ix

theorem t_v3_swap_elements_0_2 (u : V3 K) :
    t_v3_swap_elements_0_2 (envL (u.toList)) = .ofPanic ((u.swapElements? 0 2).map V3.toList) ∧
      (u.swapElements? 0 2).map V3.toList = some [u.z, u.y, u.x] := by
  constructor <;> tr_ix

theorem t_v3_swap_elements_1_0 (u : V3 K) :
    t_v3_swap_elements_1_0 (envL (u.toList)) = .ofPanic ((u.swapElements? 1 0).map V3.toList) ∧
      (u.swapElements? 1 0).map V3.toList = some [u.y, u.x, u.z] := by
  constructor <;> tr_ix

theorem t_v3_swap_elements_1_1 (u : V3 K) :
    t_v3_swap_elements_1_1 (envL (u.toList)) = .ofPanic ((u.swapElements? 1 1).map V3.toList) ∧
      (u.swapElements? 1 1).map V3.toList = some [u.x, u.y, u.z] := by
  constructor <;> tr_ix

theorem t_v3_swap_elements_1_2 (u : V3 K) :
    t_v3_swap_elements_1_2 (envL (u.toList)) = .ofPanic ((u.swapElements? 1 2).map V3.toList) ∧
      (u.swapElements? 1 2).map V3.toList = some [u.x, u.z, u.y] := by
  constructor <;> tr_ix

theorem t_v3_swap_elements_2_0 (u : V3 K) :
    t_v3_swap_elements_2_0 (envL (u.toList)) = .ofPanic ((u.swapElements? 2 0).map V3.toList) ∧
      (u.swapElements? 2 0).map V3.toList = some [u.z, u.y, u.x] := by
  constructor <;> tr_ix

theorem t_v3_swap_elements_2_1 (u : V3 K) :
    t_v3_swap_elements_2_1 (envL (u.toList)) = .ofPanic ((u.swapElements? 2 1).map V3.toList) ∧
      (u.swapElements? 2 1).map V3.toList = some [u.x, u.z, u.y] := by
  constructor <;> tr_ix

theorem t_v3_swap_elements_2_2 (u : V3 K) :
    t_v3_swap_elements_2_2 (envL (u.toList)) = .ofPanic ((u.swapElements? 2 2).map V3.toList) ∧
      (u.swapElements? 2 2).map V3.toList = some [u.x, u.y, u.z] := by
  constructor <;> tr_ix

theorem t_v3_swap_elements_3_0_oob (u : V3 K) :
    t_v3_swap_elements_3_0_oob (envL (u.toList)) = .ofPanic ((u.swapElements? 3 0).map V3.toList) ∧
      t_v3_swap_elements_3_0_oob (envL (u.toList)) = .panicG [] ∧ (u.swapElements? 3 0).map V3.toList = none := by
  refine ⟨?_, ?_, ?_⟩ <;> tr_ix

theorem t_v3_swap_elements_0_3_oob (u : V3 K) :
    t_v3_swap_elements_0_3_oob (envL (u.toList)) = .ofPanic ((u.swapElements? 0 3).map V3.toList) ∧
      t_v3_swap_elements_0_3_oob (envL (u.toList)) = .panicG [] ∧ (u.swapElements? 0 3).map V3.toList = none := by
  refine ⟨?_, ?_, ?_⟩ <;> tr_ix

/-! ## `v4`: `IndexMut<usize>` store, `swap_elements` -/
theorem t_v4_set_0 (u : V4 K) (a : K) :
    t_v4_set_0 (envL (u.toList ++ [a])) = .ofPanic ((u.set? 0 a).map V4.toList) ∧
      (u.set? 0 a).map V4.toList = some [a, u.y, u.z, u.w] := by
  constructor <;> tr_ix

theorem t_v4_set_1 (u : V4 K) (a : K) :
    t_v4_set_1 (envL (u.toList ++ [a])) = .ofPanic ((u.set? 1 a).map V4.toList) ∧
      (u.set? 1 a).map V4.toList = some [u.x, a, u.z, u.w] := by
  constructor <;> tr_ix

theorem t_v4_set_2 (u : V4 K) (a : K) :
    t_v4_set_2 (envL (u.toList ++ [a])) = .ofPanic ((u.set? 2 a).map V4.toList) ∧
      (u.set? 2 a).map V4.toList = some [u.x, u.y, a, u.w] := by
  constructor <;> tr_ix

theorem t_v4_set_3 (u : V4 K) (a : K) :
    t_v4_set_3 (envL (u.toList ++ [a])) = .ofPanic ((u.set? 3 a).map V4.toList) ∧
      (u.set? 3 a).map V4.toList = some [u.x, u.y, u.z, a] := by
  constructor <;> tr_ix

theorem t_v4_set_4_oob (u : V4 K) (a : K) :
    t_v4_set_4_oob (envL (u.toList ++ [a])) = .ofPanic ((u.set? 4 a).map V4.toList) ∧
      t_v4_set_4_oob (envL (u.toList ++ [a])) = .panicG [] ∧ (u.set? 4 a).map V4.toList = none := by
  refine ⟨?_, ?_, ?_⟩ <;> tr_ix

theorem t_v4_swap_elements_0_0 (u : V4 K) :
    t_v4_swap_elements_0_0 (envL (u.toList)) = .ofPanic ((u.swapElements? 0 0).map V4.toList) ∧
      (u.swapElements? 0 0).map V4.toList = some [u.x, u.y, u.z, u.w] := by
  constructor <;> tr_ix

theorem t_v4_swap_elements_0_1 (u : V4 K) :
    t_v4_swap_elements_0_1 (envL (u.toList)) = .ofPanic ((u.swapElements? 0 1).map V4.toList) ∧
      (u.swapElements? 0 1).map V4.toList = some [u.y, u.x, u.z, u.w] := by
  constructor <;> tr_ix

theorem t_v4_swap_elements_0_2 (u : V4 K) :
    t_v4_swap_elements_0_2 (envL (u.toList)) = .ofPanic ((u.swapElements? 0 2).map V4.toList) ∧
      (u.swapElements? 0 2).map V4.toList = some [u.z, u.y, u.x, u.w] := by
  constructor <;> tr_ix

theorem t_v4_swap_elements_0_3 (u : V4 K) :
    t_v4_swap_elements_0_3 (envL (u.toList)) = .ofPanic ((u.swapElements? 0 3).map V4.toList) ∧
      (u.swapElements? 0 3).map V4.toList = some [u.w, u.y, u.z, u.x] := by
  constructor <;> tr_ix

theorem t_v4_swap_elements_1_0 (u : V4 K) :
    t_v4_swap_elements_1_0 (envL (u.toList)) = .ofPanic ((u.swapElements? 1 0).map V4.toList) ∧
      (u.swapElements? 1 0).map V4.toList = some [u.y, u.x, u.z, u.w] := by
  constructor <;> tr_ix

theorem t_v4_swap_elements_1_1 (u : V4 K) :
    t_v4_swap_elements_1_1 (envL (u.toList)) = .ofPanic ((u.swapElements? 1 1).map V4.toList) ∧
      (u.swapElements? 1 1).map V4.toList = some [u.x, u.y, u.z, u.w] := by
  constructor <;> tr_ix

theorem t_v4_swap_elements_1_2 (u : V4 K) :
    t_v4_swap_elements_1_2 (envL (u.toList)) = .ofPanic ((u.swapElements? 1 2).map V4.toList) ∧
      (u.swapElements? 1 2).map V4.toList = some [u.x, u.z, u.y, u.w] := by
  constructor <;> tr_ix

theorem t_v4_swap_elements_1_3 (u : V4 K) :
    t_v4_swap_elements_1_3 (envL (u.toList)) = .ofPanic ((u.swapElements? 1 3).map V4.toList) ∧
      (u.swapElements? 1 3).map V4.toList = some [u.x, u.w, u.z, u.y] := by
  constructor <;> tr_ix

theorem t_v4_swap_elements_2_0 (u : V4 K) :
    t_v4_swap_elements_2_0 (envL (u.toList)) = .ofPanic ((u.swapElements? 2 0).map V4.toList) ∧
      (u.swapElements? 2 0).map V4.toList = some [u.z, u.y, u.x, u.w] := by
  constructor <;> tr_ix

theorem t_v4_swap_elements_2_1 (u : V4 K) :
    t_v4_swap_elements_2_1 (envL (u.toList)) = .ofPanic ((u.swapElements? 2 1).map V4.toList) ∧
      (u.swapElements? 2 1).map V4.toList = some [u.x, u.z, u.y, u.w] := by
  constructor <;> tr_ix

theorem t_v4_swap_elements_2_2 (u : V4 K) :
    t_v4_swap_elements_2_2 (envL (u.toList)) = .ofPanic ((u.swapElements? 2 2).map V4.toList) ∧
      (u.swapElements? 2 2).map V4.toList = some [u.x, u.y, u.z, u.w] := by
  constructor <;> tr_ix

theorem t_v4_swap_elements_2_3 (u : V4 K) :
    t_v4_swap_elements_2_3 (envL (u.toList)) = .ofPanic ((u.swapElements? 2 3).map V4.toList) ∧
      (u.swapElements? 2 3).map V4.toList = some [u.x, u.y, u.w, u.z] := by
  constructor <;> tr_ix

theorem t_v4_swap_elements_3_0 (u : V4 K) :
    t_v4_swap_elements_3_0 (envL (u.toList)) = .ofPanic ((u.swapElements? 3 0).map V4.toList) ∧
      (u.swapElements? 3 0).map V4.toList = some [u.w, u.y, u.z, u.x] := by
  constructor <;> tr_ix

theorem t_v4_swap_elements_3_1 (u : V4 K) :
    t_v4_swap_elements_3_1 (envL (u.toList)) = .ofPanic ((u.swapElements? 3 1).map V4.toList) ∧
      (u.swapElements? 3 1).map V4.toList = some [u.x, u.w, u.z, u.y] := by
  constructor <;> tr_ix

theorem t_v4_swap_elements_3_2 (u : V4 K) :
    t_v4_swap_elements_3_2 (envL (u.toList)) = .ofPanic ((u.swapElements? 3 2).map V4.toList) ∧
      (u.swapElements? 3 2).map V4.toList = some [u.x, u.y, u.w, u.z] := by
  constructor <;> tr_ix

theorem t_v4_swap_elements_3_3 (u : V4 K) :
    t_v4_swap_elements_3_3 (envL (u.toList)) = .ofPanic ((u.swapElements? 3 3).map V4.toList) ∧
      (u.swapElements? 3 3).map V4.toList = some [u.x, u.y, u.z, u.w] := by
  constructor <;> tr_ix

theorem t_v4_swap_elements_4_0_oob (u : V4 K) :
    t_v4_swap_elements_4_0_oob (envL (u.toList)) = .ofPanic ((u.swapElements? 4 0).map V4.toList) ∧
      t_v4_swap_elements_4_0_oob (envL (u.toList)) = .panicG [] ∧ (u.swapElements? 4 0).map V4.toList = none := by
  refine ⟨?_, ?_, ?_⟩ <;> tr_ix

theorem t_v4_swap_elements_0_4_oob (u : V4 K) :
    t_v4_swap_elements_0_4_oob (envL (u.toList)) = .ofPanic ((u.swapElements? 0 4).map V4.toList) ∧
      t_v4_swap_elements_0_4_oob (envL (u.toList)) = .panicG [] ∧ (u.swapElements? 0 4).map V4.toList = none := by
  refine ⟨?_, ?_, ?_⟩ <;> tr_ix

/-! ## `p1`: `IndexMut<usize>` store, `swap_elements` -/
theorem t_p1_set_0 (u : P1 K) (a : K) :
    t_p1_set_0 (envL (u.toList ++ [a])) = .ofPanic ((u.set? 0 a).map P1.toList) ∧
      (u.set? 0 a).map P1.toList = some [a] := by
  constructor <;> tr_ix

theorem t_p1_set_1_oob (u : P1 K) (a : K) :
    t_p1_set_1_oob (envL (u.toList ++ [a])) = .ofPanic ((u.set? 1 a).map P1.toList) ∧
      t_p1_set_1_oob (envL (u.toList ++ [a])) = .panicG [] ∧ (u.set? 1 a).map P1.toList = none := by
  refine ⟨?_, ?_, ?_⟩ <;> tr_ix

theorem t_p1_swap_elements_0_0 (u : P1 K) :
    t_p1_swap_elements_0_0 (envL (u.toList)) = .ofPanic ((u.swapElements? 0 0).map P1.toList) ∧
      (u.swapElements? 0 0).map P1.toList = some [u.x] := by
  constructor <;> tr_ix

theorem t_p1_swap_elements_1_0_oob (u : P1 K) :
    t_p1_swap_elements_1_0_oob (envL (u.toList)) = .ofPanic ((u.swapElements? 1 0).map P1.toList) ∧
      t_p1_swap_elements_1_0_oob (envL (u.toList)) = .panicG [] ∧ (u.swapElements? 1 0).map P1.toList = none := by
  refine ⟨?_, ?_, ?_⟩ <;> tr_ix

theorem t_p1_swap_elements_0_1_oob (u : P1 K) :
    t_p1_swap_elements_0_1_oob (envL (u.toList)) = .ofPanic ((u.swapElements? 0 1).map P1.toList) ∧
      t_p1_swap_elements_0_1_oob (envL (u.toList)) = .panicG [] ∧ (u.swapElements? 0 1).map P1.toList = none := by
  refine ⟨?_, ?_, ?_⟩ <;> tr_ix

/-! ## `p2`: `IndexMut<usize>` store, `swap_elements` -/
theorem t_p2_set_0 (u : P2 K) (a : K) :
    t_p2_set_0 (envL (u.toList ++ [a])) = .ofPanic ((u.set? 0 a).map P2.toList) ∧
      (u.set? 0 a).map P2.toList = some [a, u.y] := by
  constructor <;> tr_ix

theorem t_p2_set_1 (u : P2 K) (a : K) :
    t_p2_set_1 (envL (u.toList ++ [a])) = .ofPanic ((u.set? 1 a).map P2.toList) ∧
      (u.set? 1 a).map P2.toList = some [u.x, a] := by
  constructor <;> tr_ix

theorem t_p2_set_2_oob (u : P2 K) (a : K) :
    t_p2_set_2_oob (envL (u.toList ++ [a])) = .ofPanic ((u.set? 2 a).map P2.toList) ∧
      t_p2_set_2_oob (envL (u.toList ++ [a])) = .panicG [] ∧ (u.set? 2 a).map P2.toList = none := by
  refine ⟨?_, ?_, ?_⟩ <;> tr_ix

theorem t_p2_swap_elements_0_0 (u : P2 K) :
    t_p2_swap_elements_0_0 (envL (u.toList)) = .ofPanic ((u.swapElements? 0 0).map P2.toList) ∧
      (u.swapElements? 0 0).map P2.toList = some [u.x, u.y] := by
  constructor <;> tr_ix

theorem t_p2_swap_elements_0_1 (u : P2 K) :
    t_p2_swap_elements_0_1 (envL (u.toList)) = .ofPanic ((u.swapElements? 0 1).map P2.toList) ∧
      (u.swapElements? 0 1).map P2.toList = some [u.y, u.x] := by
  constructor <;> tr_ix

theorem t_p2_swap_elements_1_0 (u : P2 K) :
    t_p2_swap_elements_1_0 (envL (u.toList)) = .ofPanic ((u.swapElements? 1 0).map P2.toList) ∧
      (u.swapElements? 1 0).map P2.toList = some [u.y, u.x] := by
  constructor <;> tr_ix

theorem t_p2_swap_elements_1_1 (u : P2 K) :
    t_p2_swap_elements_1_1 (envL (u.toList)) = .ofPanic ((u.swapElements? 1 1).map P2.toList) ∧
      (u.swapElements? 1 1).map P2.toList = some [u.x, u.y] := by
  constructor <;> tr_ix

theorem t_p2_swap_elements_2_0_oob (u : P2 K) :
    t_p2_swap_elements_2_0_oob (envL (u.toList)) = .ofPanic ((u.swapElements? 2 0).map P2.toList) ∧
      t_p2_swap_elements_2_0_oob (envL (u.toList)) = .panicG [] ∧ (u.swapElements? 2 0).map P2.toList = none := by
  refine ⟨?_, ?_, ?_⟩ <;> tr_ix

theorem t_p2_swap_elements_0_2_oob (u : P2 K) :
    t_p2_swap_elements_0_2_oob (envL (u.toList)) = .ofPanic ((u.swapElements? 0 2).map P2.toList) ∧
      t_p2_swap_elements_0_2_oob (envL (u.toList)) = .panicG [] ∧ (u.swapElements? 0 2).map P2.toList = none := by
  refine ⟨?_, ?_, ?_⟩ <;> tr_ix

/-! ## `p3`: `IndexMut<usize>` store, `swap_elements` -/
theorem t_p3_set_0 (u : P3 K) (a : K) :
    t_p3_set_0 (envL (u.toList ++ [a])) = .ofPanic ((u.set? 0 a).map P3.toList) ∧
      (u.set? 0 a).map P3.toList = some [a, u.y, u.z] := by
  constructor <;> tr_ix

theorem t_p3_set_1 (u : P3 K) (a : K) :
    t_p3_set_1 (envL (u.toList ++ [a])) = .ofPanic ((u.set? 1 a).map P3.toList) ∧
      (u.set? 1 a).map P3.toList = some [u.x, a, u.z] := by
  constructor <;> tr_ix

theorem t_p3_set_2 (u : P3 K) (a : K) :
    t_p3_set_2 (envL (u.toList ++ [a])) = .ofPanic ((u.set? 2 a).map P3.toList) ∧
      (u.set? 2 a).map P3.toList = some [u.x, u.y, a] := by
  constructor <;> tr_ix

theorem t_p3_set_3_oob (u : P3 K) (a : K) :
    t_p3_set_3_oob (envL (u.toList ++ [a])) = .ofPanic ((u.set? 3 a).map P3.toList) ∧
      t_p3_set_3_oob (envL (u.toList ++ [a])) = .panicG [] ∧ (u.set? 3 a).map P3.toList = none := by
  refine ⟨?_, ?_, ?_⟩ <;> tr_ix

theorem t_p3_swap_elements_0_0 (u : P3 K) :
    t_p3_swap_elements_0_0 (envL (u.toList)) = .ofPanic ((u.swapElements? 0 0).map P3.toList) ∧
      (u.swapElements? 0 0).map P3.toList = some [u.x, u.y, u.z] := by
  constructor <;> tr_ix

theorem t_p3_swap_elements_0_1 (u : P3 K) :
    t_p3_swap_elements_0_1 (envL (u.toList)) = .ofPanic ((u.swapElements? 0 1).map P3.toList) ∧
      (u.swapElements? 0 1).map P3.toList = some [u.y, u.x, u.z] := by
  constructor <;> tr_ix

theorem t_p3_swap_elements_0_2 (u : P3 K) :
    t_p3_swap_elements_0_2 (envL (u.toList)) = .ofPanic ((u.swapElements? 0 2).map P3.toList) ∧
      (u.swapElements? 0 2).map P3.toList = some [u.z, u.y, u.x] := by
  constructor <;> tr_ix

theorem t_p3_swap_elements_1_0 (u : P3 K) :
    t_p3_swap_elements_1_0 (envL (u.toList)) = .ofPanic ((u.swapElements? 1 0).map P3.toList) ∧
      (u.swapElements? 1 0).map P3.toList = some [u.y, u.x, u.z] := by
  constructor <;> tr_ix

theorem t_p3_swap_elements_1_1 (u : P3 K) :
    t_p3_swap_elements_1_1 (envL (u.toList)) = .ofPanic ((u.swapElements? 1 1).map P3.toList) ∧
      (u.swapElements? 1 1).map P3.toList = some [u.x, u.y, u.z] := by
  constructor <;> tr_ix

theorem t_p3_swap_elements_1_2 (u : P3 K) :
    t_p3_swap_elements_1_2 (envL (u.toList)) = .ofPanic ((u.swapElements? 1 2).map P3.toList) ∧
      (u.swapElements? 1 2).map P3.toList = some [u.x, u.z, u.y] := by
  constructor <;> tr_ix

theorem t_p3_swap_elements_2_0 (u : P3 K) :
    t_p3_swap_elements_2_0 (envL (u.toList)) = .ofPanic ((u.swapElements? 2 0).map P3.toList) ∧
      (u.swapElements? 2 0).map P3.toList = some [u.z, u.y, u.x] := by
  constructor <;> tr_ix

theorem t_p3_swap_elements_2_1 (u : P3 K) :
    t_p3_swap_elements_2_1 (envL (u.toList)) = .ofPanic ((u.swapElements? 2 1).map P3.toList) ∧
      (u.swapElements? 2 1).map P3.toList = some [u.x, u.z, u.y] := by
  constructor <;> tr_ix

theorem t_p3_swap_elements_2_2 (u : P3 K) :
    t_p3_swap_elements_2_2 (envL (u.toList)) = .ofPanic ((u.swapElements? 2 2).map P3.toList) ∧
      (u.swapElements? 2 2).map P3.toList = some [u.x, u.y, u.z] := by
  constructor <;> tr_ix

theorem t_p3_swap_elements_3_0_oob (u : P3 K) :
    t_p3_swap_elements_3_0_oob (envL (u.toList)) = .ofPanic ((u.swapElements? 3 0).map P3.toList) ∧
      t_p3_swap_elements_3_0_oob (envL (u.toList)) = .panicG [] ∧ (u.swapElements? 3 0).map P3.toList = none := by
  refine ⟨?_, ?_, ?_⟩ <;> tr_ix

theorem t_p3_swap_elements_0_3_oob (u : P3 K) :
    t_p3_swap_elements_0_3_oob (envL (u.toList)) = .ofPanic ((u.swapElements? 0 3).map P3.toList) ∧
      t_p3_swap_elements_0_3_oob (envL (u.toList)) = .panicG [] ∧ (u.swapElements? 0 3).map P3.toList = none := by
  refine ⟨?_, ?_, ?_⟩ <;> tr_ix

/-! ## `m2`: `m[c][r] = a` -/
theorem t_m2_set_0_0 (m : M2 K) (a : K) :
    t_m2_set_0_0 (envL (m.toList ++ [a])) = .ofPanic ((m.set? 0 0 a).map M2.toList) ∧
      (m.set? 0 0 a).map M2.toList = some [a, m.x.y, m.y.x, m.y.y] := by
  constructor <;> tr_ix

theorem t_m2_set_0_1 (m : M2 K) (a : K) :
    t_m2_set_0_1 (envL (m.toList ++ [a])) = .ofPanic ((m.set? 0 1 a).map M2.toList) ∧
      (m.set? 0 1 a).map M2.toList = some [m.x.x, a, m.y.x, m.y.y] := by
  constructor <;> tr_ix

theorem t_m2_set_1_0 (m : M2 K) (a : K) :
    t_m2_set_1_0 (envL (m.toList ++ [a])) = .ofPanic ((m.set? 1 0 a).map M2.toList) ∧
      (m.set? 1 0 a).map M2.toList = some [m.x.x, m.x.y, a, m.y.y] := by
  constructor <;> tr_ix

theorem t_m2_set_1_1 (m : M2 K) (a : K) :
    t_m2_set_1_1 (envL (m.toList ++ [a])) = .ofPanic ((m.set? 1 1 a).map M2.toList) ∧
      (m.set? 1 1 a).map M2.toList = some [m.x.x, m.x.y, m.y.x, a] := by
  constructor <;> tr_ix

theorem t_m2_set_2_0_oob (m : M2 K) (a : K) :
    t_m2_set_2_0_oob (envL (m.toList ++ [a])) = .ofPanic ((m.set? 2 0 a).map M2.toList) ∧
      t_m2_set_2_0_oob (envL (m.toList ++ [a])) = .panicG [] ∧ (m.set? 2 0 a).map M2.toList = none := by
  refine ⟨?_, ?_, ?_⟩ <;> tr_ix

theorem t_m2_set_0_2_oob (m : M2 K) (a : K) :
    t_m2_set_0_2_oob (envL (m.toList ++ [a])) = .ofPanic ((m.set? 0 2 a).map M2.toList) ∧
      t_m2_set_0_2_oob (envL (m.toList ++ [a])) = .panicG [] ∧ (m.set? 0 2 a).map M2.toList = none := by
  refine ⟨?_, ?_, ?_⟩ <;> tr_ix

/-! ## `m3`: `m[c][r] = a` -/
theorem t_m3_set_0_0 (m : M3 K) (a : K) :
    t_m3_set_0_0 (envL (m.toList ++ [a])) = .ofPanic ((m.set? 0 0 a).map M3.toList) ∧
      (m.set? 0 0 a).map M3.toList = some [a, m.x.y, m.x.z, m.y.x, m.y.y, m.y.z, m.z.x, m.z.y, m.z.z] := by
  constructor <;> tr_ix

theorem t_m3_set_0_1 (m : M3 K) (a : K) :
    t_m3_set_0_1 (envL (m.toList ++ [a])) = .ofPanic ((m.set? 0 1 a).map M3.toList) ∧
      (m.set? 0 1 a).map M3.toList = some [m.x.x, a, m.x.z, m.y.x, m.y.y, m.y.z, m.z.x, m.z.y, m.z.z] := by
  constructor <;> tr_ix

theorem t_m3_set_0_2 (m : M3 K) (a : K) :
    t_m3_set_0_2 (envL (m.toList ++ [a])) = .ofPanic ((m.set? 0 2 a).map M3.toList) ∧
      (m.set? 0 2 a).map M3.toList = some [m.x.x, m.x.y, a, m.y.x, m.y.y, m.y.z, m.z.x, m.z.y, m.z.z] := by
  constructor <;> tr_ix

theorem t_m3_set_1_0 (m : M3 K) (a : K) :
    t_m3_set_1_0 (envL (m.toList ++ [a])) = .ofPanic ((m.set? 1 0 a).map M3.toList) ∧
      (m.set? 1 0 a).map M3.toList = some [m.x.x, m.x.y, m.x.z, a, m.y.y, m.y.z, m.z.x, m.z.y, m.z.z] := by
  constructor <;> tr_ix

theorem t_m3_set_1_1 (m : M3 K) (a : K) :
    t_m3_set_1_1 (envL (m.toList ++ [a])) = .ofPanic ((m.set? 1 1 a).map M3.toList) ∧
      (m.set? 1 1 a).map M3.toList = some [m.x.x, m.x.y, m.x.z, m.y.x, a, m.y.z, m.z.x, m.z.y, m.z.z] := by
  constructor <;> tr_ix

theorem t_m3_set_1_2 (m : M3 K) (a : K) :
    t_m3_set_1_2 (envL (m.toList ++ [a])) = .ofPanic ((m.set? 1 2 a).map M3.toList) ∧
      (m.set? 1 2 a).map M3.toList = some [m.x.x, m.x.y, m.x.z, m.y.x, m.y.y, a, m.z.x, m.z.y, m.z.z] := by
  constructor <;> tr_ix

theorem t_m3_set_2_0 (m : M3 K) (a : K) :
    t_m3_set_2_0 (envL (m.toList ++ [a])) = .ofPanic ((m.set? 2 0 a).map M3.toList) ∧
      (m.set? 2 0 a).map M3.toList = some [m.x.x, m.x.y, m.x.z, m.y.x, m.y.y, m.y.z, a, m.z.y, m.z.z] := by
  constructor <;> tr_ix

theorem t_m3_set_2_1 (m : M3 K) (a : K) :
    t_m3_set_2_1 (envL (m.toList ++ [a])) = .ofPanic ((m.set? 2 1 a).map M3.toList) ∧
      (m.set? 2 1 a).map M3.toList = some [m.x.x, m.x.y, m.x.z, m.y.x, m.y.y, m.y.z, m.z.x, a, m.z.z] := by
  constructor <;> tr_ix

theorem t_m3_set_2_2 (m : M3 K) (a : K) :
    t_m3_set_2_2 (envL (m.toList ++ [a])) = .ofPanic ((m.set? 2 2 a).map M3.toList) ∧
      (m.set? 2 2 a).map M3.toList = some [m.x.x, m.x.y, m.x.z, m.y.x, m.y.y, m.y.z, m.z.x, m.z.y, a] := by
  constructor <;> tr_ix

theorem t_m3_set_3_0_oob (m : M3 K) (a : K) :
    t_m3_set_3_0_oob (envL (m.toList ++ [a])) = .ofPanic ((m.set? 3 0 a).map M3.toList) ∧
      t_m3_set_3_0_oob (envL (m.toList ++ [a])) = .panicG [] ∧ (m.set? 3 0 a).map M3.toList = none := by
  refine ⟨?_, ?_, ?_⟩ <;> tr_ix

theorem t_m3_set_0_3_oob (m : M3 K) (a : K) :
    t_m3_set_0_3_oob (envL (m.toList ++ [a])) = .ofPanic ((m.set? 0 3 a).map M3.toList) ∧
      t_m3_set_0_3_oob (envL (m.toList ++ [a])) = .panicG [] ∧ (m.set? 0 3 a).map M3.toList = none := by
  refine ⟨?_, ?_, ?_⟩ <;> tr_ix

/-! ## `m4`: `m[c][r] = a` -/
theorem t_m4_set_0_0 (m : M4 K) (a : K) :
    t_m4_set_0_0 (envL (m.toList ++ [a])) = .ofPanic ((m.set? 0 0 a).map M4.toList) ∧
      (m.set? 0 0 a).map M4.toList = some [a, m.x.y, m.x.z, m.x.w, m.y.x, m.y.y, m.y.z, m.y.w, m.z.x, m.z.y, m.z.z, m.z.w, m.w.x, m.w.y, m.w.z, m.w.w] := by
  constructor <;> tr_ix

theorem t_m4_set_0_1 (m : M4 K) (a : K) :
    t_m4_set_0_1 (envL (m.toList ++ [a])) = .ofPanic ((m.set? 0 1 a).map M4.toList) ∧
      (m.set? 0 1 a).map M4.toList = some [m.x.x, a, m.x.z, m.x.w, m.y.x, m.y.y, m.y.z, m.y.w, m.z.x, m.z.y, m.z.z, m.z.w, m.w.x, m.w.y, m.w.z, m.w.w] := by
  constructor <;> tr_ix

theorem t_m4_set_0_2 (m : M4 K) (a : K) :
    t_m4_set_0_2 (envL (m.toList ++ [a])) = .ofPanic ((m.set? 0 2 a).map M4.toList) ∧
      (m.set? 0 2 a).map M4.toList = some [m.x.x, m.x.y, a, m.x.w, m.y.x, m.y.y, m.y.z, m.y.w, m.z.x, m.z.y, m.z.z, m.z.w, m.w.x, m.w.y, m.w.z, m.w.w] := by
  constructor <;> tr_ix

theorem t_m4_set_0_3 (m : M4 K) (a : K) :
    t_m4_set_0_3 (envL (m.toList ++ [a])) = .ofPanic ((m.set? 0 3 a).map M4.toList) ∧
      (m.set? 0 3 a).map M4.toList = some [m.x.x, m.x.y, m.x.z, a, m.y.x, m.y.y, m.y.z, m.y.w, m.z.x, m.z.y, m.z.z, m.z.w, m.w.x, m.w.y, m.w.z, m.w.w] := by
  constructor <;> tr_ix

theorem t_m4_set_1_0 (m : M4 K) (a : K) :
    t_m4_set_1_0 (envL (m.toList ++ [a])) = .ofPanic ((m.set? 1 0 a).map M4.toList) ∧
      (m.set? 1 0 a).map M4.toList = some [m.x.x, m.x.y, m.x.z, m.x.w, a, m.y.y, m.y.z, m.y.w, m.z.x, m.z.y, m.z.z, m.z.w, m.w.x, m.w.y, m.w.z, m.w.w] := by
  constructor <;> tr_ix

theorem t_m4_set_1_1 (m : M4 K) (a : K) :
    t_m4_set_1_1 (envL (m.toList ++ [a])) = .ofPanic ((m.set? 1 1 a).map M4.toList) ∧
      (m.set? 1 1 a).map M4.toList = some [m.x.x, m.x.y, m.x.z, m.x.w, m.y.x, a, m.y.z, m.y.w, m.z.x, m.z.y, m.z.z, m.z.w, m.w.x, m.w.y, m.w.z, m.w.w] := by
  constructor <;> tr_ix

theorem t_m4_set_1_2 (m : M4 K) (a : K) :
    t_m4_set_1_2 (envL (m.toList ++ [a])) = .ofPanic ((m.set? 1 2 a).map M4.toList) ∧
      (m.set? 1 2 a).map M4.toList = some [m.x.x, m.x.y, m.x.z, m.x.w, m.y.x, m.y.y, a, m.y.w, m.z.x, m.z.y, m.z.z, m.z.w, m.w.x, m.w.y, m.w.z, m.w.w] := by
  constructor <;> tr_ix

theorem t_m4_set_1_3 (m : M4 K) (a : K) :
    t_m4_set_1_3 (envL (m.toList ++ [a])) = .ofPanic ((m.set? 1 3 a).map M4.toList) ∧
      (m.set? 1 3 a).map M4.toList = some [m.x.x, m.x.y, m.x.z, m.x.w, m.y.x, m.y.y, m.y.z, a, m.z.x, m.z.y, m.z.z, m.z.w, m.w.x, m.w.y, m.w.z, m.w.w] := by
  constructor <;> tr_ix

theorem t_m4_set_2_0 (m : M4 K) (a : K) :
    t_m4_set_2_0 (envL (m.toList ++ [a])) = .ofPanic ((m.set? 2 0 a).map M4.toList) ∧
      (m.set? 2 0 a).map M4.toList = some [m.x.x, m.x.y, m.x.z, m.x.w, m.y.x, m.y.y, m.y.z, m.y.w, a, m.z.y, m.z.z, m.z.w, m.w.x, m.w.y, m.w.z, m.w.w] := by
  constructor <;> tr_ix

theorem t_m4_set_2_1 (m : M4 K) (a : K) :
    t_m4_set_2_1 (envL (m.toList ++ [a])) = .ofPanic ((m.set? 2 1 a).map M4.toList) ∧
      (m.set? 2 1 a).map M4.toList = some [m.x.x, m.x.y, m.x.z, m.x.w, m.y.x, m.y.y, m.y.z, m.y.w, m.z.x, a, m.z.z, m.z.w, m.w.x, m.w.y, m.w.z, m.w.w] := by
  constructor <;> tr_ix

theorem t_m4_set_2_2 (m : M4 K) (a : K) :
    t_m4_set_2_2 (envL (m.toList ++ [a])) = .ofPanic ((m.set? 2 2 a).map M4.toList) ∧
      (m.set? 2 2 a).map M4.toList = some [m.x.x, m.x.y, m.x.z, m.x.w, m.y.x, m.y.y, m.y.z, m.y.w, m.z.x, m.z.y, a, m.z.w, m.w.x, m.w.y, m.w.z, m.w.w] := by
  constructor <;> tr_ix

theorem t_m4_set_2_3 (m : M4 K) (a : K) :
    t_m4_set_2_3 (envL (m.toList ++ [a])) = .ofPanic ((m.set? 2 3 a).map M4.toList) ∧
      (m.set? 2 3 a).map M4.toList = some [m.x.x, m.x.y, m.x.z, m.x.w, m.y.x, m.y.y, m.y.z, m.y.w, m.z.x, m.z.y, m.z.z, a, m.w.x, m.w.y, m.w.z, m.w.w] := by
  constructor <;> tr_ix

theorem t_m4_set_3_0 (m : M4 K) (a : K) :
    t_m4_set_3_0 (envL (m.toList ++ [a])) = .ofPanic ((m.set? 3 0 a).map M4.toList) ∧
      (m.set? 3 0 a).map M4.toList = some [m.x.x, m.x.y, m.x.z, m.x.w, m.y.x, m.y.y, m.y.z, m.y.w, m.z.x, m.z.y, m.z.z, m.z.w, a, m.w.y, m.w.z, m.w.w] := by
  constructor <;> tr_ix

theorem t_m4_set_3_1 (m : M4 K) (a : K) :
    t_m4_set_3_1 (envL (m.toList ++ [a])) = .ofPanic ((m.set? 3 1 a).map M4.toList) ∧
      (m.set? 3 1 a).map M4.toList = some [m.x.x, m.x.y, m.x.z, m.x.w, m.y.x, m.y.y, m.y.z, m.y.w, m.z.x, m.z.y, m.z.z, m.z.w, m.w.x, a, m.w.z, m.w.w] := by
  constructor <;> tr_ix

theorem t_m4_set_3_2 (m : M4 K) (a : K) :
    t_m4_set_3_2 (envL (m.toList ++ [a])) = .ofPanic ((m.set? 3 2 a).map M4.toList) ∧
      (m.set? 3 2 a).map M4.toList = some [m.x.x, m.x.y, m.x.z, m.x.w, m.y.x, m.y.y, m.y.z, m.y.w, m.z.x, m.z.y, m.z.z, m.z.w, m.w.x, m.w.y, a, m.w.w] := by
  constructor <;> tr_ix

theorem t_m4_set_3_3 (m : M4 K) (a : K) :
    t_m4_set_3_3 (envL (m.toList ++ [a])) = .ofPanic ((m.set? 3 3 a).map M4.toList) ∧
      (m.set? 3 3 a).map M4.toList = some [m.x.x, m.x.y, m.x.z, m.x.w, m.y.x, m.y.y, m.y.z, m.y.w, m.z.x, m.z.y, m.z.z, m.z.w, m.w.x, m.w.y, m.w.z, a] := by
  constructor <;> tr_ix

theorem t_m4_set_4_0_oob (m : M4 K) (a : K) :
    t_m4_set_4_0_oob (envL (m.toList ++ [a])) = .ofPanic ((m.set? 4 0 a).map M4.toList) ∧
      t_m4_set_4_0_oob (envL (m.toList ++ [a])) = .panicG [] ∧ (m.set? 4 0 a).map M4.toList = none := by
  refine ⟨?_, ?_, ?_⟩ <;> tr_ix

theorem t_m4_set_0_4_oob (m : M4 K) (a : K) :
    t_m4_set_0_4_oob (envL (m.toList ++ [a])) = .ofPanic ((m.set? 0 4 a).map M4.toList) ∧
      t_m4_set_0_4_oob (envL (m.toList ++ [a])) = .panicG [] ∧ (m.set? 0 4 a).map M4.toList = none := by
  refine ⟨?_, ?_, ?_⟩ <;> tr_ix

end Cg.Trace.C16Ops
