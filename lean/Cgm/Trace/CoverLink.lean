import Cgm.Trace.Cover
import Cgm.Trace.C02
import Cgm.Trace.C05
import Cgm.Trace.C07
import Cgm.Trace.C08
import Cgm.Trace.C09
import Cgm.Trace.C10
import Cgm.Trace.C11
import Cgm.Trace.C13
import Cgm.Trace.C14
import Cgm.Trace.C15
/-!
# The path conditions of `Cgm/Trace/Cover.lean` are the hypotheses of the T obligations

`Cover.lean` restates the path conditions without importing generated code.  This file (which does
import it) checks that nothing was lost in the copy: for every traced path, the path condition listed
in `Cover.lean` at that position implies the hypotheses of the cited obligation of `Cgm/Trace/Cxx.lean`
-- i.e. every input of the covered set of `…_cover` really is in the scope of an obligation.
Each `example` below has as its (inferred) statement the conclusion of that obligation.
Paths whose obligation has no hypothesis (`…_none`) need no check.
-/
set_option linter.unusedSectionVars false
set_option linter.unusedVariables false
namespace Cg.Trace.CoverLink
open Cg Cg.Trace.Cover

section
variable {K : Type} [Field K] [LinearOrder K] [Transc K] [FRem K] [Lits K]

/-! C02 (the `Trace/C02.lean` context has `DecidableEq K` instead of an order) -/
section C02
variable {F : Type} [Field F] [DecidableEq F] [Transc F] [FRem F] [Lits F]
example (a : M2 F) (h : nth (m2InvertPaths a) 1) := C02.t_m2_invert_some a h
example (a : M3 F) (h : nth (m3InvertPaths a) 1) := C02.t_m3_invert_some a h
example (a : M4 F) (h : nth (m4InvertPaths a) 1) := C02.t_m4_invert_some a h
example (a : M3 F) (h : nth (m3InverseTransformPaths a) 0) := C02.t_m3_inverse_transform_some a h
example (a : M3 F) (h : nth (m3InverseTransformPaths a) 0) := C02.t_m3_inverse_transform2_some a h
example (a : M4 F) (h : nth (m4InverseTransformPaths a) 0) := C02.t_m4_inverse_transform_some a h
example (a : M3 F) (u : V3 F) (h : nth (m3InverseTransformVectorPaths a) 0) :=
  C02.t_m3_inverse_transform_vector_some a u h
end C02

/-! C05 -/
example (m : M3 K) (h : nth (toQuatPaths m) 0) := C05.t_m3_to_quat_trace m h
example (m : M3 K) (h : nth (toQuatPaths m) 1) := C05.t_m3_to_quat_xx m h.1 h.2.1 h.2.2
example (m : M3 K) (h : nth (toQuatPaths m) 2) := C05.t_m3_to_quat_yy m h.1 h.2.1 h.2.2
example (m : M3 K) (h : nth (toQuatPaths m) 3) := C05.t_m3_to_quat_zz m h.1 h.2.1 h.2.2
example (m : M3 K) (h : nth (toQuatPaths m) 4) := C05.t_m3_to_quat_zz2 m h.1 h.2.1 h.2.2.1 h.2.2.2

/-! C07 -/
example (q : Quat K) (h : nth (toEulerPaths q) 0) := C07.t_q_to_euler_main q h.1 h.2
example (q : Quat K) (h : nth (toEulerPaths q) 1) := C07.t_q_to_euler_pos q h
example (q : Quat K) (h : nth (toEulerPaths q) 2) := C07.t_q_to_euler_neg q h.1 h.2

/-! C13 -/
example (a : K) (h : nth (degNormalizePaths a) 0) := C13.t_deg_normalize_pos a h
example (a : K) (h : nth (degNormalizePaths a) 1) := C13.t_deg_normalize_neg a h
example (a : K) (h : nth (degNormalizePaths a) 2) := C13.t_deg_normalize_zero a h
example (a : K) (h : nth (radNormalizePaths a) 0) := C13.t_rad_normalize_pos a h
example (a : K) (h : nth (radNormalizePaths a) 1) := C13.t_rad_normalize_neg a h
example (a : K) (h : nth (degNormalizeSignedPaths a) 0) := C13.t_deg_normalize_signed_hi a h.1 h.2
example (a : K) (h : nth (degNormalizeSignedPaths a) 1) := C13.t_deg_normalize_signed_lo a h.1 h.2
example (a : K) (h : nth (degNormalizeSignedPaths a) 2) := C13.t_deg_normalize_signed_neg_hi a h.1 h.2
example (a : K) (h : nth (degNormalizeSignedPaths a) 3) := C13.t_deg_normalize_signed_neg_lo a h.1 h.2
example (a : K) (h : nth (radNormalizeSignedPaths a) 0) := C13.t_rad_normalize_signed_hi a h.1 h.2
example (a : K) (h : nth (radNormalizeSignedPaths a) 1) := C13.t_rad_normalize_signed_lo a h.1 h.2
example (a : K) (h : nth (degOppositePaths a) 0) := C13.t_deg_opposite a h
example (a : K) (h : nth (degOppositePaths a) 1) := C13.t_deg_opposite_neg a h
example (a : K) (h : nth (radOppositePaths a) 0) := C13.t_rad_opposite a h
example (a b : K) (h : nth (degBisectPaths a b) 0) := C13.t_deg_bisect_wrap a b h.1 h.2.1 h.2.2
example (a b : K) (h : nth (degBisectPaths a b) 1) := C13.t_deg_bisect_near a b h.1 h.2.1 h.2.2

/-! C14 -/
example (a b : Quat K) (t : K) (h : nth (nlerpPaths a b) 0) := C14.t_q_nlerp_pos a b t h
example (a b : Quat K) (t : K) (h : nth (nlerpPaths a b) 1) := C14.t_q_nlerp_neg a b t h
example (a b : Quat K) (t : K) (h : nth (slerpPaths a b) 0) := C14.t_q_slerp_far_pos a b t h.1 h.2.1 h.2.2.1 h.2.2.2
example (a b : Quat K) (t : K) (h : nth (slerpPaths a b) 1) := C14.t_q_slerp_far_neg a b t h.1 h.2.1 h.2.2.1 h.2.2.2
example (a b : Quat K) (t : K) (h : nth (slerpPaths a b) 2) := C14.t_q_slerp_near a b t h.1 h.2
example (a b : Quat K) (t : K) (h : nth (slerpPaths a b) 3) := C14.t_q_slerp_near_neg a b t h.1 h.2.1 h.2.2

/-! C11 -/
example (a b : V4 K) (h : nth (v4AnglePaths a b) 0) := C11.t_v4_angle a b h.1 h.2
example (a b : V4 K) (h : nth (v4AnglePaths a b) 1) := C11.t_v4_angle_clamped a b h
example (a b : Quat K) (h : nth (qAnglePaths a b) 0) := C11.t_q_angle a b h.1 h.2

/-! C09 -/
example (d u : V2 K) (h : nth (m2LookAtPaths d u) 0) := C09.t_m2_look_at_flip d u h
example (d u : V2 K) (h : nth (m2LookAtPaths d u) 1) := C09.t_m2_look_at_noflip d u h
example (e c : P2 K) (u : V2 K) (h : nth (m3LookAt2LhPaths e c u) 0) := C09.t_m3_tlook_at2_lh e c u h
example (e c : P2 K) (u : V2 K) (h : nth (m3LookAt2RhPaths e c u) 0) := C09.t_m3_tlook_at2_rh e c u h
end

section
variable {K : Type} [Field K] [LinearOrder K] [Approx K] [Transc K] [FRem K] [Lits K]

/-! C10 -/
example (l r b t n f : K) (h : nth (frustumPaths l r b t n f) 0) := C10.t_frustum_ok l r b t n f h.1 h.2.1 h.2.2
example (l r b t n f : K) (h : nth (frustumPaths l r b t n f) 1) := C10.t_frustum_bad_lr l r b t n f h
example (l r b t n f : K) (h : nth (frustumPaths l r b t n f) 2) := C10.t_frustum_bad_bt l r b t n f h.1 h.2
example (l r b t n f : K) (h : nth (frustumPaths l r b t n f) 3) := C10.t_frustum_bad_nf l r b t n f h.1 h.2.1 h.2.2
example (fovy a n f : K) (h : nth (perspectivePaths fovy a n f) 0) :=
  C10.t_perspective_ok fovy a n f h.1 h.2.1 h.2.2.1 h.2.2.2.1 h.2.2.2.2.1 h.2.2.2.2.2.1 h.2.2.2.2.2.2
example (fovy a n f : K) (h : nth (perspectivePaths fovy a n f) 1) := C10.t_perspective_bad_fovy fovy a n f h
example (fovy a n f : K) (h : nth (perspectivePaths fovy a n f) 2) :=
  C10.t_perspective_bad_near fovy a n f h.1 h.2.1 h.2.2.1 h.2.2.2.1 h.2.2.2.2
example (fovy a h' n f : K) (h : nth (planarPaths fovy a h' n f) 0) :=
  C10.t_planar_ok fovy a h' n f h.1 h.2.1 h.2.2.1 h.2.2.2.1 h.2.2.2.2.1 h.2.2.2.2.2.1 h.2.2.2.2.2.2.1 h.2.2.2.2.2.2.2.1
    h.2.2.2.2.2.2.2.2

/-! C08 -/
example (d : Decomposed (Quat K) (V3 K) K) (h : nth (dqInverseTransformPaths d) 0) :=
  C08.t_dq_inverse_transform_some d h
example (d : Decomposed (Quat K) (V3 K) K) (u : V3 K) (h : nth (dqInverseTransformVectorPaths d) 0) :=
  C08.t_dq_inverse_transform_vector d u h
example (e c : P3 K) (u : V3 K) (h : nth (dqLookAtLhPaths e c u) 0) := C08.t_dq_look_at_lh e c u h
example (e c : P3 K) (u : V3 K) (h : nth (dqLookAtRhPaths e c u) 0) := C08.t_dq_look_at_rh e c u h.1 h.2.1 h.2.2

/-! C15 -/
example (a b : V3 K) (h : nth (betweenVectorsPaths a b) 0) := C15.t_q_between_vectors_general a b h.1 h.2
example (a b : V3 K) (h : nth (betweenVectorsPaths a b) 1) := C15.t_q_between_vectors_same a b h
example (a b : V3 K) (h : nth (fromArcPaths a b) 0) := C15.t_q_from_arc_general a b h.1 h.2
example (a b : V3 K) (h : nth (fromArcPaths a b) 1) := C15.t_q_from_arc_same a b h
end
end Cg.Trace.CoverLink
