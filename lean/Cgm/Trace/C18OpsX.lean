import Cgm.Gen.C18
import Cgm.Trace.C18Rest
import Cgm.Model.Book4
/-!
# T obligations for C18: the three approx relations of `Euler`, `Decomposed<Vector3, Quaternion>`, `Basis2`, `Basis3`

GENERATED once by `tools/gen_c18_more.py` from the kernel table `lib/cgv/tracetab_ops3.py`; kept as an ordinary source file.

Same scheme as `C18Ops.lean`: each kernel is one path of the `&&` chain of the real `abs_diff_eq` / `relative_eq` / `ulps_eq`
(`_d`: the macro forms with the type's default tolerances, for all four types the scalar's `2^-52`, `2^-52`, `4`); under the
path condition the kernel returns the model's boolean (`Book4.lean`: `eulerAbsDiffEq`, `Decomposed.absDiffEq Quat.absDiffEq
V3.absDiffEq`, `Basis2.absDiffEq`, `Basis3.absDiffEq`, …) after exactly the comparisons listed, every one with the tolerance
ARGUMENTS the call was given.  `Euler` (components `x y z`) and `Decomposed` (scale, then the rotation's `s x y z`, then the
displacement's `x y z`): every stopping position.  `Basis2` / `Basis3` forward to the rotation MATRIX: the compared
expressions are the elements of `M2.fromAngle a` (`cos a, sin a, -sin a, cos a`) / of `Quat.toM3 a` in column-major order;
only the `true` path and the path that stops at the first element are traced (the argument does not control the elements
one by one).
-/
set_option linter.unusedSectionVars false
set_option linter.unusedSimpArgs false
set_option linter.unusedVariables false
namespace Cg.Trace.C18OpsX
open Cg Cg.Gen.C18 Cg.Trace.C18Rest
variable {K : Type} [Field K] [LinearOrder K] [Approx K] [Transc K] [FRem K] [Lits K]

/-! ## `euler` -/
theorem t_euler_abs_diff_eq_true (x1 y1 z1 x2 y2 z2 : K) (e : K) (h0 : Approx.absDiffEq x1 x2 e = true) (h1 : Approx.absDiffEq y1 y2 e = true) (h2 : Approx.absDiffEq z1 z2 e = true) :
    t_euler_abs_diff_eq_true (envL ([x1, y1, z1, x2, y2, z2] ++ [e])) =
      okB (eulerAbsDiffEq (x1, y1, z1) (x2, y2, z2) e) [.absDiff x1 x2 e true, .absDiff y1 y2 e true, .absDiff z1 z2 e true] ∧
      eulerAbsDiffEq (x1, y1, z1) (x2, y2, z2) e = true := by
  constructor <;> simp [eulerAbsDiffEq, angleAbsDiffEq, okB, eps52, envL, *]

theorem t_euler_abs_diff_eq_false_0 (x1 y1 z1 x2 y2 z2 : K) (e : K) (h0 : Approx.absDiffEq x1 x2 e = false) :
    t_euler_abs_diff_eq_false_0 (envL ([x1, y1, z1, x2, y2, z2] ++ [e])) =
      okB (eulerAbsDiffEq (x1, y1, z1) (x2, y2, z2) e) [.absDiff x1 x2 e false] ∧
      eulerAbsDiffEq (x1, y1, z1) (x2, y2, z2) e = false := by
  constructor <;> simp [eulerAbsDiffEq, angleAbsDiffEq, okB, eps52, envL, *]

theorem t_euler_abs_diff_eq_false_1 (x1 y1 z1 x2 y2 z2 : K) (e : K) (h0 : Approx.absDiffEq x1 x2 e = true) (h1 : Approx.absDiffEq y1 y2 e = false) :
    t_euler_abs_diff_eq_false_1 (envL ([x1, y1, z1, x2, y2, z2] ++ [e])) =
      okB (eulerAbsDiffEq (x1, y1, z1) (x2, y2, z2) e) [.absDiff x1 x2 e true, .absDiff y1 y2 e false] ∧
      eulerAbsDiffEq (x1, y1, z1) (x2, y2, z2) e = false := by
  constructor <;> simp [eulerAbsDiffEq, angleAbsDiffEq, okB, eps52, envL, *]

theorem t_euler_abs_diff_eq_false_2 (x1 y1 z1 x2 y2 z2 : K) (e : K) (h0 : Approx.absDiffEq x1 x2 e = true) (h1 : Approx.absDiffEq y1 y2 e = true) (h2 : Approx.absDiffEq z1 z2 e = false) :
    t_euler_abs_diff_eq_false_2 (envL ([x1, y1, z1, x2, y2, z2] ++ [e])) =
      okB (eulerAbsDiffEq (x1, y1, z1) (x2, y2, z2) e) [.absDiff x1 x2 e true, .absDiff y1 y2 e true, .absDiff z1 z2 e false] ∧
      eulerAbsDiffEq (x1, y1, z1) (x2, y2, z2) e = false := by
  constructor <;> simp [eulerAbsDiffEq, angleAbsDiffEq, okB, eps52, envL, *]

theorem t_euler_relative_eq_true (x1 y1 z1 x2 y2 z2 : K) (e m : K) (h0 : Approx.relEq x1 x2 e m = true) (h1 : Approx.relEq y1 y2 e m = true) (h2 : Approx.relEq z1 z2 e m = true) :
    t_euler_relative_eq_true (envL ([x1, y1, z1, x2, y2, z2] ++ [e, m])) =
      okB (eulerRelEq (x1, y1, z1) (x2, y2, z2) e m) [.rel x1 x2 e m true, .rel y1 y2 e m true, .rel z1 z2 e m true] ∧
      eulerRelEq (x1, y1, z1) (x2, y2, z2) e m = true := by
  constructor <;> simp [eulerRelEq, angleRelEq, okB, eps52, envL, *]

theorem t_euler_relative_eq_false_0 (x1 y1 z1 x2 y2 z2 : K) (e m : K) (h0 : Approx.relEq x1 x2 e m = false) :
    t_euler_relative_eq_false_0 (envL ([x1, y1, z1, x2, y2, z2] ++ [e, m])) =
      okB (eulerRelEq (x1, y1, z1) (x2, y2, z2) e m) [.rel x1 x2 e m false] ∧
      eulerRelEq (x1, y1, z1) (x2, y2, z2) e m = false := by
  constructor <;> simp [eulerRelEq, angleRelEq, okB, eps52, envL, *]

theorem t_euler_relative_eq_false_1 (x1 y1 z1 x2 y2 z2 : K) (e m : K) (h0 : Approx.relEq x1 x2 e m = true) (h1 : Approx.relEq y1 y2 e m = false) :
    t_euler_relative_eq_false_1 (envL ([x1, y1, z1, x2, y2, z2] ++ [e, m])) =
      okB (eulerRelEq (x1, y1, z1) (x2, y2, z2) e m) [.rel x1 x2 e m true, .rel y1 y2 e m false] ∧
      eulerRelEq (x1, y1, z1) (x2, y2, z2) e m = false := by
  constructor <;> simp [eulerRelEq, angleRelEq, okB, eps52, envL, *]

theorem t_euler_relative_eq_false_2 (x1 y1 z1 x2 y2 z2 : K) (e m : K) (h0 : Approx.relEq x1 x2 e m = true) (h1 : Approx.relEq y1 y2 e m = true) (h2 : Approx.relEq z1 z2 e m = false) :
    t_euler_relative_eq_false_2 (envL ([x1, y1, z1, x2, y2, z2] ++ [e, m])) =
      okB (eulerRelEq (x1, y1, z1) (x2, y2, z2) e m) [.rel x1 x2 e m true, .rel y1 y2 e m true, .rel z1 z2 e m false] ∧
      eulerRelEq (x1, y1, z1) (x2, y2, z2) e m = false := by
  constructor <;> simp [eulerRelEq, angleRelEq, okB, eps52, envL, *]

theorem t_euler_ulps_eq_true (x1 y1 z1 x2 y2 z2 : K) (e : K) (h0 : Approx.ulpsEq x1 x2 e 4 = true) (h1 : Approx.ulpsEq y1 y2 e 4 = true) (h2 : Approx.ulpsEq z1 z2 e 4 = true) :
    t_euler_ulps_eq_true (envL ([x1, y1, z1, x2, y2, z2] ++ [e])) =
      okB (eulerUlpsEq (x1, y1, z1) (x2, y2, z2) e 4) [.ulps x1 x2 e 4 true, .ulps y1 y2 e 4 true, .ulps z1 z2 e 4 true] ∧
      eulerUlpsEq (x1, y1, z1) (x2, y2, z2) e 4 = true := by
  constructor <;> simp [eulerUlpsEq, angleUlpsEq, okB, eps52, envL, *]

theorem t_euler_ulps_eq_false_0 (x1 y1 z1 x2 y2 z2 : K) (e : K) (h0 : Approx.ulpsEq x1 x2 e 4 = false) :
    t_euler_ulps_eq_false_0 (envL ([x1, y1, z1, x2, y2, z2] ++ [e])) =
      okB (eulerUlpsEq (x1, y1, z1) (x2, y2, z2) e 4) [.ulps x1 x2 e 4 false] ∧
      eulerUlpsEq (x1, y1, z1) (x2, y2, z2) e 4 = false := by
  constructor <;> simp [eulerUlpsEq, angleUlpsEq, okB, eps52, envL, *]

theorem t_euler_ulps_eq_false_1 (x1 y1 z1 x2 y2 z2 : K) (e : K) (h0 : Approx.ulpsEq x1 x2 e 4 = true) (h1 : Approx.ulpsEq y1 y2 e 4 = false) :
    t_euler_ulps_eq_false_1 (envL ([x1, y1, z1, x2, y2, z2] ++ [e])) =
      okB (eulerUlpsEq (x1, y1, z1) (x2, y2, z2) e 4) [.ulps x1 x2 e 4 true, .ulps y1 y2 e 4 false] ∧
      eulerUlpsEq (x1, y1, z1) (x2, y2, z2) e 4 = false := by
  constructor <;> simp [eulerUlpsEq, angleUlpsEq, okB, eps52, envL, *]

theorem t_euler_ulps_eq_false_2 (x1 y1 z1 x2 y2 z2 : K) (e : K) (h0 : Approx.ulpsEq x1 x2 e 4 = true) (h1 : Approx.ulpsEq y1 y2 e 4 = true) (h2 : Approx.ulpsEq z1 z2 e 4 = false) :
    t_euler_ulps_eq_false_2 (envL ([x1, y1, z1, x2, y2, z2] ++ [e])) =
      okB (eulerUlpsEq (x1, y1, z1) (x2, y2, z2) e 4) [.ulps x1 x2 e 4 true, .ulps y1 y2 e 4 true, .ulps z1 z2 e 4 false] ∧
      eulerUlpsEq (x1, y1, z1) (x2, y2, z2) e 4 = false := by
  constructor <;> simp [eulerUlpsEq, angleUlpsEq, okB, eps52, envL, *]

theorem t_euler_abs_diff_eq_d_true (x1 y1 z1 x2 y2 z2 : K) (h0 : Approx.absDiffEq x1 x2 eps52 = true) (h1 : Approx.absDiffEq y1 y2 eps52 = true) (h2 : Approx.absDiffEq z1 z2 eps52 = true) :
    t_euler_abs_diff_eq_d_true (envL ([x1, y1, z1, x2, y2, z2])) =
      okB (eulerAbsDiffEq (x1, y1, z1) (x2, y2, z2) eps52) [.absDiff x1 x2 eps52 true, .absDiff y1 y2 eps52 true, .absDiff z1 z2 eps52 true] ∧
      eulerAbsDiffEq (x1, y1, z1) (x2, y2, z2) eps52 = true := by
  try simp only [eps52, one_div] at *
  constructor <;> simp [eulerAbsDiffEq, angleAbsDiffEq, okB, eps52, envL, *]

theorem t_euler_abs_diff_eq_d_false_0 (x1 y1 z1 x2 y2 z2 : K) (h0 : Approx.absDiffEq x1 x2 eps52 = false) :
    t_euler_abs_diff_eq_d_false_0 (envL ([x1, y1, z1, x2, y2, z2])) =
      okB (eulerAbsDiffEq (x1, y1, z1) (x2, y2, z2) eps52) [.absDiff x1 x2 eps52 false] ∧
      eulerAbsDiffEq (x1, y1, z1) (x2, y2, z2) eps52 = false := by
  try simp only [eps52, one_div] at *
  constructor <;> simp [eulerAbsDiffEq, angleAbsDiffEq, okB, eps52, envL, *]

theorem t_euler_relative_eq_d_true (x1 y1 z1 x2 y2 z2 : K) (h0 : Approx.relEq x1 x2 eps52 eps52 = true) (h1 : Approx.relEq y1 y2 eps52 eps52 = true) (h2 : Approx.relEq z1 z2 eps52 eps52 = true) :
    t_euler_relative_eq_d_true (envL ([x1, y1, z1, x2, y2, z2])) =
      okB (eulerRelEq (x1, y1, z1) (x2, y2, z2) eps52 eps52) [.rel x1 x2 eps52 eps52 true, .rel y1 y2 eps52 eps52 true, .rel z1 z2 eps52 eps52 true] ∧
      eulerRelEq (x1, y1, z1) (x2, y2, z2) eps52 eps52 = true := by
  try simp only [eps52, one_div] at *
  constructor <;> simp [eulerRelEq, angleRelEq, okB, eps52, envL, *]

theorem t_euler_relative_eq_d_false_0 (x1 y1 z1 x2 y2 z2 : K) (h0 : Approx.relEq x1 x2 eps52 eps52 = false) :
    t_euler_relative_eq_d_false_0 (envL ([x1, y1, z1, x2, y2, z2])) =
      okB (eulerRelEq (x1, y1, z1) (x2, y2, z2) eps52 eps52) [.rel x1 x2 eps52 eps52 false] ∧
      eulerRelEq (x1, y1, z1) (x2, y2, z2) eps52 eps52 = false := by
  try simp only [eps52, one_div] at *
  constructor <;> simp [eulerRelEq, angleRelEq, okB, eps52, envL, *]

theorem t_euler_ulps_eq_d_true (x1 y1 z1 x2 y2 z2 : K) (h0 : Approx.ulpsEq x1 x2 eps52 4 = true) (h1 : Approx.ulpsEq y1 y2 eps52 4 = true) (h2 : Approx.ulpsEq z1 z2 eps52 4 = true) :
    t_euler_ulps_eq_d_true (envL ([x1, y1, z1, x2, y2, z2])) =
      okB (eulerUlpsEq (x1, y1, z1) (x2, y2, z2) eps52 4) [.ulps x1 x2 eps52 4 true, .ulps y1 y2 eps52 4 true, .ulps z1 z2 eps52 4 true] ∧
      eulerUlpsEq (x1, y1, z1) (x2, y2, z2) eps52 4 = true := by
  try simp only [eps52, one_div] at *
  constructor <;> simp [eulerUlpsEq, angleUlpsEq, okB, eps52, envL, *]

theorem t_euler_ulps_eq_d_false_0 (x1 y1 z1 x2 y2 z2 : K) (h0 : Approx.ulpsEq x1 x2 eps52 4 = false) :
    t_euler_ulps_eq_d_false_0 (envL ([x1, y1, z1, x2, y2, z2])) =
      okB (eulerUlpsEq (x1, y1, z1) (x2, y2, z2) eps52 4) [.ulps x1 x2 eps52 4 false] ∧
      eulerUlpsEq (x1, y1, z1) (x2, y2, z2) eps52 4 = false := by
  try simp only [eps52, one_div] at *
  constructor <;> simp [eulerUlpsEq, angleUlpsEq, okB, eps52, envL, *]

/-! ## `dq` -/
theorem t_dq_abs_diff_eq_true (a b : Decomposed (Quat K) (V3 K) K) (e : K) (h0 : Approx.absDiffEq a.scale b.scale e = true) (h1 : Approx.absDiffEq a.rot.s b.rot.s e = true) (h2 : Approx.absDiffEq a.rot.v.x b.rot.v.x e = true) (h3 : Approx.absDiffEq a.rot.v.y b.rot.v.y e = true) (h4 : Approx.absDiffEq a.rot.v.z b.rot.v.z e = true) (h5 : Approx.absDiffEq a.disp.x b.disp.x e = true) (h6 : Approx.absDiffEq a.disp.y b.disp.y e = true) (h7 : Approx.absDiffEq a.disp.z b.disp.z e = true) :
    t_dq_abs_diff_eq_true (envL ([a.scale] ++ a.rot.toList ++ a.disp.toList ++ ([b.scale] ++ b.rot.toList ++ b.disp.toList) ++ [e])) =
      okB (Decomposed.absDiffEq Quat.absDiffEq V3.absDiffEq a b e) [.absDiff a.scale b.scale e true, .absDiff a.rot.s b.rot.s e true, .absDiff a.rot.v.x b.rot.v.x e true, .absDiff a.rot.v.y b.rot.v.y e true, .absDiff a.rot.v.z b.rot.v.z e true, .absDiff a.disp.x b.disp.x e true, .absDiff a.disp.y b.disp.y e true, .absDiff a.disp.z b.disp.z e true] ∧
      Decomposed.absDiffEq Quat.absDiffEq V3.absDiffEq a b e = true := by
  constructor <;> simp [Decomposed.absDiffEq, Quat.absDiffEq, V3.absDiffEq, Quat.toList, V3.toList, okB, eps52, envL, *]

theorem t_dq_abs_diff_eq_false_0 (a b : Decomposed (Quat K) (V3 K) K) (e : K) (h0 : Approx.absDiffEq a.scale b.scale e = false) :
    t_dq_abs_diff_eq_false_0 (envL ([a.scale] ++ a.rot.toList ++ a.disp.toList ++ ([b.scale] ++ b.rot.toList ++ b.disp.toList) ++ [e])) =
      okB (Decomposed.absDiffEq Quat.absDiffEq V3.absDiffEq a b e) [.absDiff a.scale b.scale e false] ∧
      Decomposed.absDiffEq Quat.absDiffEq V3.absDiffEq a b e = false := by
  constructor <;> simp [Decomposed.absDiffEq, Quat.absDiffEq, V3.absDiffEq, Quat.toList, V3.toList, okB, eps52, envL, *]

theorem t_dq_abs_diff_eq_false_1 (a b : Decomposed (Quat K) (V3 K) K) (e : K) (h0 : Approx.absDiffEq a.scale b.scale e = true) (h1 : Approx.absDiffEq a.rot.s b.rot.s e = false) :
    t_dq_abs_diff_eq_false_1 (envL ([a.scale] ++ a.rot.toList ++ a.disp.toList ++ ([b.scale] ++ b.rot.toList ++ b.disp.toList) ++ [e])) =
      okB (Decomposed.absDiffEq Quat.absDiffEq V3.absDiffEq a b e) [.absDiff a.scale b.scale e true, .absDiff a.rot.s b.rot.s e false] ∧
      Decomposed.absDiffEq Quat.absDiffEq V3.absDiffEq a b e = false := by
  constructor <;> simp [Decomposed.absDiffEq, Quat.absDiffEq, V3.absDiffEq, Quat.toList, V3.toList, okB, eps52, envL, *]

theorem t_dq_abs_diff_eq_false_2 (a b : Decomposed (Quat K) (V3 K) K) (e : K) (h0 : Approx.absDiffEq a.scale b.scale e = true) (h1 : Approx.absDiffEq a.rot.s b.rot.s e = true) (h2 : Approx.absDiffEq a.rot.v.x b.rot.v.x e = false) :
    t_dq_abs_diff_eq_false_2 (envL ([a.scale] ++ a.rot.toList ++ a.disp.toList ++ ([b.scale] ++ b.rot.toList ++ b.disp.toList) ++ [e])) =
      okB (Decomposed.absDiffEq Quat.absDiffEq V3.absDiffEq a b e) [.absDiff a.scale b.scale e true, .absDiff a.rot.s b.rot.s e true, .absDiff a.rot.v.x b.rot.v.x e false] ∧
      Decomposed.absDiffEq Quat.absDiffEq V3.absDiffEq a b e = false := by
  constructor <;> simp [Decomposed.absDiffEq, Quat.absDiffEq, V3.absDiffEq, Quat.toList, V3.toList, okB, eps52, envL, *]

theorem t_dq_abs_diff_eq_false_3 (a b : Decomposed (Quat K) (V3 K) K) (e : K) (h0 : Approx.absDiffEq a.scale b.scale e = true) (h1 : Approx.absDiffEq a.rot.s b.rot.s e = true) (h2 : Approx.absDiffEq a.rot.v.x b.rot.v.x e = true) (h3 : Approx.absDiffEq a.rot.v.y b.rot.v.y e = false) :
    t_dq_abs_diff_eq_false_3 (envL ([a.scale] ++ a.rot.toList ++ a.disp.toList ++ ([b.scale] ++ b.rot.toList ++ b.disp.toList) ++ [e])) =
      okB (Decomposed.absDiffEq Quat.absDiffEq V3.absDiffEq a b e) [.absDiff a.scale b.scale e true, .absDiff a.rot.s b.rot.s e true, .absDiff a.rot.v.x b.rot.v.x e true, .absDiff a.rot.v.y b.rot.v.y e false] ∧
      Decomposed.absDiffEq Quat.absDiffEq V3.absDiffEq a b e = false := by
  constructor <;> simp [Decomposed.absDiffEq, Quat.absDiffEq, V3.absDiffEq, Quat.toList, V3.toList, okB, eps52, envL, *]

theorem t_dq_abs_diff_eq_false_4 (a b : Decomposed (Quat K) (V3 K) K) (e : K) (h0 : Approx.absDiffEq a.scale b.scale e = true) (h1 : Approx.absDiffEq a.rot.s b.rot.s e = true) (h2 : Approx.absDiffEq a.rot.v.x b.rot.v.x e = true) (h3 : Approx.absDiffEq a.rot.v.y b.rot.v.y e = true) (h4 : Approx.absDiffEq a.rot.v.z b.rot.v.z e = false) :
    t_dq_abs_diff_eq_false_4 (envL ([a.scale] ++ a.rot.toList ++ a.disp.toList ++ ([b.scale] ++ b.rot.toList ++ b.disp.toList) ++ [e])) =
      okB (Decomposed.absDiffEq Quat.absDiffEq V3.absDiffEq a b e) [.absDiff a.scale b.scale e true, .absDiff a.rot.s b.rot.s e true, .absDiff a.rot.v.x b.rot.v.x e true, .absDiff a.rot.v.y b.rot.v.y e true, .absDiff a.rot.v.z b.rot.v.z e false] ∧
      Decomposed.absDiffEq Quat.absDiffEq V3.absDiffEq a b e = false := by
  constructor <;> simp [Decomposed.absDiffEq, Quat.absDiffEq, V3.absDiffEq, Quat.toList, V3.toList, okB, eps52, envL, *]

theorem t_dq_abs_diff_eq_false_5 (a b : Decomposed (Quat K) (V3 K) K) (e : K) (h0 : Approx.absDiffEq a.scale b.scale e = true) (h1 : Approx.absDiffEq a.rot.s b.rot.s e = true) (h2 : Approx.absDiffEq a.rot.v.x b.rot.v.x e = true) (h3 : Approx.absDiffEq a.rot.v.y b.rot.v.y e = true) (h4 : Approx.absDiffEq a.rot.v.z b.rot.v.z e = true) (h5 : Approx.absDiffEq a.disp.x b.disp.x e = false) :
    t_dq_abs_diff_eq_false_5 (envL ([a.scale] ++ a.rot.toList ++ a.disp.toList ++ ([b.scale] ++ b.rot.toList ++ b.disp.toList) ++ [e])) =
      okB (Decomposed.absDiffEq Quat.absDiffEq V3.absDiffEq a b e) [.absDiff a.scale b.scale e true, .absDiff a.rot.s b.rot.s e true, .absDiff a.rot.v.x b.rot.v.x e true, .absDiff a.rot.v.y b.rot.v.y e true, .absDiff a.rot.v.z b.rot.v.z e true, .absDiff a.disp.x b.disp.x e false] ∧
      Decomposed.absDiffEq Quat.absDiffEq V3.absDiffEq a b e = false := by
  constructor <;> simp [Decomposed.absDiffEq, Quat.absDiffEq, V3.absDiffEq, Quat.toList, V3.toList, okB, eps52, envL, *]

theorem t_dq_abs_diff_eq_false_6 (a b : Decomposed (Quat K) (V3 K) K) (e : K) (h0 : Approx.absDiffEq a.scale b.scale e = true) (h1 : Approx.absDiffEq a.rot.s b.rot.s e = true) (h2 : Approx.absDiffEq a.rot.v.x b.rot.v.x e = true) (h3 : Approx.absDiffEq a.rot.v.y b.rot.v.y e = true) (h4 : Approx.absDiffEq a.rot.v.z b.rot.v.z e = true) (h5 : Approx.absDiffEq a.disp.x b.disp.x e = true) (h6 : Approx.absDiffEq a.disp.y b.disp.y e = false) :
    t_dq_abs_diff_eq_false_6 (envL ([a.scale] ++ a.rot.toList ++ a.disp.toList ++ ([b.scale] ++ b.rot.toList ++ b.disp.toList) ++ [e])) =
      okB (Decomposed.absDiffEq Quat.absDiffEq V3.absDiffEq a b e) [.absDiff a.scale b.scale e true, .absDiff a.rot.s b.rot.s e true, .absDiff a.rot.v.x b.rot.v.x e true, .absDiff a.rot.v.y b.rot.v.y e true, .absDiff a.rot.v.z b.rot.v.z e true, .absDiff a.disp.x b.disp.x e true, .absDiff a.disp.y b.disp.y e false] ∧
      Decomposed.absDiffEq Quat.absDiffEq V3.absDiffEq a b e = false := by
  constructor <;> simp [Decomposed.absDiffEq, Quat.absDiffEq, V3.absDiffEq, Quat.toList, V3.toList, okB, eps52, envL, *]

theorem t_dq_abs_diff_eq_false_7 (a b : Decomposed (Quat K) (V3 K) K) (e : K) (h0 : Approx.absDiffEq a.scale b.scale e = true) (h1 : Approx.absDiffEq a.rot.s b.rot.s e = true) (h2 : Approx.absDiffEq a.rot.v.x b.rot.v.x e = true) (h3 : Approx.absDiffEq a.rot.v.y b.rot.v.y e = true) (h4 : Approx.absDiffEq a.rot.v.z b.rot.v.z e = true) (h5 : Approx.absDiffEq a.disp.x b.disp.x e = true) (h6 : Approx.absDiffEq a.disp.y b.disp.y e = true) (h7 : Approx.absDiffEq a.disp.z b.disp.z e = false) :
    t_dq_abs_diff_eq_false_7 (envL ([a.scale] ++ a.rot.toList ++ a.disp.toList ++ ([b.scale] ++ b.rot.toList ++ b.disp.toList) ++ [e])) =
      okB (Decomposed.absDiffEq Quat.absDiffEq V3.absDiffEq a b e) [.absDiff a.scale b.scale e true, .absDiff a.rot.s b.rot.s e true, .absDiff a.rot.v.x b.rot.v.x e true, .absDiff a.rot.v.y b.rot.v.y e true, .absDiff a.rot.v.z b.rot.v.z e true, .absDiff a.disp.x b.disp.x e true, .absDiff a.disp.y b.disp.y e true, .absDiff a.disp.z b.disp.z e false] ∧
      Decomposed.absDiffEq Quat.absDiffEq V3.absDiffEq a b e = false := by
  constructor <;> simp [Decomposed.absDiffEq, Quat.absDiffEq, V3.absDiffEq, Quat.toList, V3.toList, okB, eps52, envL, *]

theorem t_dq_relative_eq_true (a b : Decomposed (Quat K) (V3 K) K) (e m : K) (h0 : Approx.relEq a.scale b.scale e m = true) (h1 : Approx.relEq a.rot.s b.rot.s e m = true) (h2 : Approx.relEq a.rot.v.x b.rot.v.x e m = true) (h3 : Approx.relEq a.rot.v.y b.rot.v.y e m = true) (h4 : Approx.relEq a.rot.v.z b.rot.v.z e m = true) (h5 : Approx.relEq a.disp.x b.disp.x e m = true) (h6 : Approx.relEq a.disp.y b.disp.y e m = true) (h7 : Approx.relEq a.disp.z b.disp.z e m = true) :
    t_dq_relative_eq_true (envL ([a.scale] ++ a.rot.toList ++ a.disp.toList ++ ([b.scale] ++ b.rot.toList ++ b.disp.toList) ++ [e, m])) =
      okB (Decomposed.relEq Quat.relEq V3.relEq a b e m) [.rel a.scale b.scale e m true, .rel a.rot.s b.rot.s e m true, .rel a.rot.v.x b.rot.v.x e m true, .rel a.rot.v.y b.rot.v.y e m true, .rel a.rot.v.z b.rot.v.z e m true, .rel a.disp.x b.disp.x e m true, .rel a.disp.y b.disp.y e m true, .rel a.disp.z b.disp.z e m true] ∧
      Decomposed.relEq Quat.relEq V3.relEq a b e m = true := by
  constructor <;> simp [Decomposed.relEq, Quat.relEq, V3.relEq, Quat.toList, V3.toList, okB, eps52, envL, *]

theorem t_dq_relative_eq_false_0 (a b : Decomposed (Quat K) (V3 K) K) (e m : K) (h0 : Approx.relEq a.scale b.scale e m = false) :
    t_dq_relative_eq_false_0 (envL ([a.scale] ++ a.rot.toList ++ a.disp.toList ++ ([b.scale] ++ b.rot.toList ++ b.disp.toList) ++ [e, m])) =
      okB (Decomposed.relEq Quat.relEq V3.relEq a b e m) [.rel a.scale b.scale e m false] ∧
      Decomposed.relEq Quat.relEq V3.relEq a b e m = false := by
  constructor <;> simp [Decomposed.relEq, Quat.relEq, V3.relEq, Quat.toList, V3.toList, okB, eps52, envL, *]

theorem t_dq_relative_eq_false_1 (a b : Decomposed (Quat K) (V3 K) K) (e m : K) (h0 : Approx.relEq a.scale b.scale e m = true) (h1 : Approx.relEq a.rot.s b.rot.s e m = false) :
    t_dq_relative_eq_false_1 (envL ([a.scale] ++ a.rot.toList ++ a.disp.toList ++ ([b.scale] ++ b.rot.toList ++ b.disp.toList) ++ [e, m])) =
      okB (Decomposed.relEq Quat.relEq V3.relEq a b e m) [.rel a.scale b.scale e m true, .rel a.rot.s b.rot.s e m false] ∧
      Decomposed.relEq Quat.relEq V3.relEq a b e m = false := by
  constructor <;> simp [Decomposed.relEq, Quat.relEq, V3.relEq, Quat.toList, V3.toList, okB, eps52, envL, *]

theorem t_dq_relative_eq_false_2 (a b : Decomposed (Quat K) (V3 K) K) (e m : K) (h0 : Approx.relEq a.scale b.scale e m = true) (h1 : Approx.relEq a.rot.s b.rot.s e m = true) (h2 : Approx.relEq a.rot.v.x b.rot.v.x e m = false) :
    t_dq_relative_eq_false_2 (envL ([a.scale] ++ a.rot.toList ++ a.disp.toList ++ ([b.scale] ++ b.rot.toList ++ b.disp.toList) ++ [e, m])) =
      okB (Decomposed.relEq Quat.relEq V3.relEq a b e m) [.rel a.scale b.scale e m true, .rel a.rot.s b.rot.s e m true, .rel a.rot.v.x b.rot.v.x e m false] ∧
      Decomposed.relEq Quat.relEq V3.relEq a b e m = false := by
  constructor <;> simp [Decomposed.relEq, Quat.relEq, V3.relEq, Quat.toList, V3.toList, okB, eps52, envL, *]

theorem t_dq_relative_eq_false_3 (a b : Decomposed (Quat K) (V3 K) K) (e m : K) (h0 : Approx.relEq a.scale b.scale e m = true) (h1 : Approx.relEq a.rot.s b.rot.s e m = true) (h2 : Approx.relEq a.rot.v.x b.rot.v.x e m = true) (h3 : Approx.relEq a.rot.v.y b.rot.v.y e m = false) :
    t_dq_relative_eq_false_3 (envL ([a.scale] ++ a.rot.toList ++ a.disp.toList ++ ([b.scale] ++ b.rot.toList ++ b.disp.toList) ++ [e, m])) =
      okB (Decomposed.relEq Quat.relEq V3.relEq a b e m) [.rel a.scale b.scale e m true, .rel a.rot.s b.rot.s e m true, .rel a.rot.v.x b.rot.v.x e m true, .rel a.rot.v.y b.rot.v.y e m false] ∧
      Decomposed.relEq Quat.relEq V3.relEq a b e m = false := by
  constructor <;> simp [Decomposed.relEq, Quat.relEq, V3.relEq, Quat.toList, V3.toList, okB, eps52, envL, *]

theorem t_dq_relative_eq_false_4 (a b : Decomposed (Quat K) (V3 K) K) (e m : K) (h0 : Approx.relEq a.scale b.scale e m = true) (h1 : Approx.relEq a.rot.s b.rot.s e m = true) (h2 : Approx.relEq a.rot.v.x b.rot.v.x e m = true) (h3 : Approx.relEq a.rot.v.y b.rot.v.y e m = true) (h4 : Approx.relEq a.rot.v.z b.rot.v.z e m = false) :
    t_dq_relative_eq_false_4 (envL ([a.scale] ++ a.rot.toList ++ a.disp.toList ++ ([b.scale] ++ b.rot.toList ++ b.disp.toList) ++ [e, m])) =
      okB (Decomposed.relEq Quat.relEq V3.relEq a b e m) [.rel a.scale b.scale e m true, .rel a.rot.s b.rot.s e m true, .rel a.rot.v.x b.rot.v.x e m true, .rel a.rot.v.y b.rot.v.y e m true, .rel a.rot.v.z b.rot.v.z e m false] ∧
      Decomposed.relEq Quat.relEq V3.relEq a b e m = false := by
  constructor <;> simp [Decomposed.relEq, Quat.relEq, V3.relEq, Quat.toList, V3.toList, okB, eps52, envL, *]

theorem t_dq_relative_eq_false_5 (a b : Decomposed (Quat K) (V3 K) K) (e m : K) (h0 : Approx.relEq a.scale b.scale e m = true) (h1 : Approx.relEq a.rot.s b.rot.s e m = true) (h2 : Approx.relEq a.rot.v.x b.rot.v.x e m = true) (h3 : Approx.relEq a.rot.v.y b.rot.v.y e m = true) (h4 : Approx.relEq a.rot.v.z b.rot.v.z e m = true) (h5 : Approx.relEq a.disp.x b.disp.x e m = false) :
    t_dq_relative_eq_false_5 (envL ([a.scale] ++ a.rot.toList ++ a.disp.toList ++ ([b.scale] ++ b.rot.toList ++ b.disp.toList) ++ [e, m])) =
      okB (Decomposed.relEq Quat.relEq V3.relEq a b e m) [.rel a.scale b.scale e m true, .rel a.rot.s b.rot.s e m true, .rel a.rot.v.x b.rot.v.x e m true, .rel a.rot.v.y b.rot.v.y e m true, .rel a.rot.v.z b.rot.v.z e m true, .rel a.disp.x b.disp.x e m false] ∧
      Decomposed.relEq Quat.relEq V3.relEq a b e m = false := by
  constructor <;> simp [Decomposed.relEq, Quat.relEq, V3.relEq, Quat.toList, V3.toList, okB, eps52, envL, *]

theorem t_dq_relative_eq_false_6 (a b : Decomposed (Quat K) (V3 K) K) (e m : K) (h0 : Approx.relEq a.scale b.scale e m = true) (h1 : Approx.relEq a.rot.s b.rot.s e m = true) (h2 : Approx.relEq a.rot.v.x b.rot.v.x e m = true) (h3 : Approx.relEq a.rot.v.y b.rot.v.y e m = true) (h4 : Approx.relEq a.rot.v.z b.rot.v.z e m = true) (h5 : Approx.relEq a.disp.x b.disp.x e m = true) (h6 : Approx.relEq a.disp.y b.disp.y e m = false) :
    t_dq_relative_eq_false_6 (envL ([a.scale] ++ a.rot.toList ++ a.disp.toList ++ ([b.scale] ++ b.rot.toList ++ b.disp.toList) ++ [e, m])) =
      okB (Decomposed.relEq Quat.relEq V3.relEq a b e m) [.rel a.scale b.scale e m true, .rel a.rot.s b.rot.s e m true, .rel a.rot.v.x b.rot.v.x e m true, .rel a.rot.v.y b.rot.v.y e m true, .rel a.rot.v.z b.rot.v.z e m true, .rel a.disp.x b.disp.x e m true, .rel a.disp.y b.disp.y e m false] ∧
      Decomposed.relEq Quat.relEq V3.relEq a b e m = false := by
  constructor <;> simp [Decomposed.relEq, Quat.relEq, V3.relEq, Quat.toList, V3.toList, okB, eps52, envL, *]

theorem t_dq_relative_eq_false_7 (a b : Decomposed (Quat K) (V3 K) K) (e m : K) (h0 : Approx.relEq a.scale b.scale e m = true) (h1 : Approx.relEq a.rot.s b.rot.s e m = true) (h2 : Approx.relEq a.rot.v.x b.rot.v.x e m = true) (h3 : Approx.relEq a.rot.v.y b.rot.v.y e m = true) (h4 : Approx.relEq a.rot.v.z b.rot.v.z e m = true) (h5 : Approx.relEq a.disp.x b.disp.x e m = true) (h6 : Approx.relEq a.disp.y b.disp.y e m = true) (h7 : Approx.relEq a.disp.z b.disp.z e m = false) :
    t_dq_relative_eq_false_7 (envL ([a.scale] ++ a.rot.toList ++ a.disp.toList ++ ([b.scale] ++ b.rot.toList ++ b.disp.toList) ++ [e, m])) =
      okB (Decomposed.relEq Quat.relEq V3.relEq a b e m) [.rel a.scale b.scale e m true, .rel a.rot.s b.rot.s e m true, .rel a.rot.v.x b.rot.v.x e m true, .rel a.rot.v.y b.rot.v.y e m true, .rel a.rot.v.z b.rot.v.z e m true, .rel a.disp.x b.disp.x e m true, .rel a.disp.y b.disp.y e m true, .rel a.disp.z b.disp.z e m false] ∧
      Decomposed.relEq Quat.relEq V3.relEq a b e m = false := by
  constructor <;> simp [Decomposed.relEq, Quat.relEq, V3.relEq, Quat.toList, V3.toList, okB, eps52, envL, *]

theorem t_dq_ulps_eq_true (a b : Decomposed (Quat K) (V3 K) K) (e : K) (h0 : Approx.ulpsEq a.scale b.scale e 4 = true) (h1 : Approx.ulpsEq a.rot.s b.rot.s e 4 = true) (h2 : Approx.ulpsEq a.rot.v.x b.rot.v.x e 4 = true) (h3 : Approx.ulpsEq a.rot.v.y b.rot.v.y e 4 = true) (h4 : Approx.ulpsEq a.rot.v.z b.rot.v.z e 4 = true) (h5 : Approx.ulpsEq a.disp.x b.disp.x e 4 = true) (h6 : Approx.ulpsEq a.disp.y b.disp.y e 4 = true) (h7 : Approx.ulpsEq a.disp.z b.disp.z e 4 = true) :
    t_dq_ulps_eq_true (envL ([a.scale] ++ a.rot.toList ++ a.disp.toList ++ ([b.scale] ++ b.rot.toList ++ b.disp.toList) ++ [e])) =
      okB (Decomposed.ulpsEq Quat.ulpsEq V3.ulpsEq a b e 4) [.ulps a.scale b.scale e 4 true, .ulps a.rot.s b.rot.s e 4 true, .ulps a.rot.v.x b.rot.v.x e 4 true, .ulps a.rot.v.y b.rot.v.y e 4 true, .ulps a.rot.v.z b.rot.v.z e 4 true, .ulps a.disp.x b.disp.x e 4 true, .ulps a.disp.y b.disp.y e 4 true, .ulps a.disp.z b.disp.z e 4 true] ∧
      Decomposed.ulpsEq Quat.ulpsEq V3.ulpsEq a b e 4 = true := by
  constructor <;> simp [Decomposed.ulpsEq, Quat.ulpsEq, V3.ulpsEq, Quat.toList, V3.toList, okB, eps52, envL, *]

theorem t_dq_ulps_eq_false_0 (a b : Decomposed (Quat K) (V3 K) K) (e : K) (h0 : Approx.ulpsEq a.scale b.scale e 4 = false) :
    t_dq_ulps_eq_false_0 (envL ([a.scale] ++ a.rot.toList ++ a.disp.toList ++ ([b.scale] ++ b.rot.toList ++ b.disp.toList) ++ [e])) =
      okB (Decomposed.ulpsEq Quat.ulpsEq V3.ulpsEq a b e 4) [.ulps a.scale b.scale e 4 false] ∧
      Decomposed.ulpsEq Quat.ulpsEq V3.ulpsEq a b e 4 = false := by
  constructor <;> simp [Decomposed.ulpsEq, Quat.ulpsEq, V3.ulpsEq, Quat.toList, V3.toList, okB, eps52, envL, *]

theorem t_dq_ulps_eq_false_1 (a b : Decomposed (Quat K) (V3 K) K) (e : K) (h0 : Approx.ulpsEq a.scale b.scale e 4 = true) (h1 : Approx.ulpsEq a.rot.s b.rot.s e 4 = false) :
    t_dq_ulps_eq_false_1 (envL ([a.scale] ++ a.rot.toList ++ a.disp.toList ++ ([b.scale] ++ b.rot.toList ++ b.disp.toList) ++ [e])) =
      okB (Decomposed.ulpsEq Quat.ulpsEq V3.ulpsEq a b e 4) [.ulps a.scale b.scale e 4 true, .ulps a.rot.s b.rot.s e 4 false] ∧
      Decomposed.ulpsEq Quat.ulpsEq V3.ulpsEq a b e 4 = false := by
  constructor <;> simp [Decomposed.ulpsEq, Quat.ulpsEq, V3.ulpsEq, Quat.toList, V3.toList, okB, eps52, envL, *]

theorem t_dq_ulps_eq_false_2 (a b : Decomposed (Quat K) (V3 K) K) (e : K) (h0 : Approx.ulpsEq a.scale b.scale e 4 = true) (h1 : Approx.ulpsEq a.rot.s b.rot.s e 4 = true) (h2 : Approx.ulpsEq a.rot.v.x b.rot.v.x e 4 = false) :
    t_dq_ulps_eq_false_2 (envL ([a.scale] ++ a.rot.toList ++ a.disp.toList ++ ([b.scale] ++ b.rot.toList ++ b.disp.toList) ++ [e])) =
      okB (Decomposed.ulpsEq Quat.ulpsEq V3.ulpsEq a b e 4) [.ulps a.scale b.scale e 4 true, .ulps a.rot.s b.rot.s e 4 true, .ulps a.rot.v.x b.rot.v.x e 4 false] ∧
      Decomposed.ulpsEq Quat.ulpsEq V3.ulpsEq a b e 4 = false := by
  constructor <;> simp [Decomposed.ulpsEq, Quat.ulpsEq, V3.ulpsEq, Quat.toList, V3.toList, okB, eps52, envL, *]

theorem t_dq_ulps_eq_false_3 (a b : Decomposed (Quat K) (V3 K) K) (e : K) (h0 : Approx.ulpsEq a.scale b.scale e 4 = true) (h1 : Approx.ulpsEq a.rot.s b.rot.s e 4 = true) (h2 : Approx.ulpsEq a.rot.v.x b.rot.v.x e 4 = true) (h3 : Approx.ulpsEq a.rot.v.y b.rot.v.y e 4 = false) :
    t_dq_ulps_eq_false_3 (envL ([a.scale] ++ a.rot.toList ++ a.disp.toList ++ ([b.scale] ++ b.rot.toList ++ b.disp.toList) ++ [e])) =
      okB (Decomposed.ulpsEq Quat.ulpsEq V3.ulpsEq a b e 4) [.ulps a.scale b.scale e 4 true, .ulps a.rot.s b.rot.s e 4 true, .ulps a.rot.v.x b.rot.v.x e 4 true, .ulps a.rot.v.y b.rot.v.y e 4 false] ∧
      Decomposed.ulpsEq Quat.ulpsEq V3.ulpsEq a b e 4 = false := by
  constructor <;> simp [Decomposed.ulpsEq, Quat.ulpsEq, V3.ulpsEq, Quat.toList, V3.toList, okB, eps52, envL, *]

theorem t_dq_ulps_eq_false_4 (a b : Decomposed (Quat K) (V3 K) K) (e : K) (h0 : Approx.ulpsEq a.scale b.scale e 4 = true) (h1 : Approx.ulpsEq a.rot.s b.rot.s e 4 = true) (h2 : Approx.ulpsEq a.rot.v.x b.rot.v.x e 4 = true) (h3 : Approx.ulpsEq a.rot.v.y b.rot.v.y e 4 = true) (h4 : Approx.ulpsEq a.rot.v.z b.rot.v.z e 4 = false) :
    t_dq_ulps_eq_false_4 (envL ([a.scale] ++ a.rot.toList ++ a.disp.toList ++ ([b.scale] ++ b.rot.toList ++ b.disp.toList) ++ [e])) =
      okB (Decomposed.ulpsEq Quat.ulpsEq V3.ulpsEq a b e 4) [.ulps a.scale b.scale e 4 true, .ulps a.rot.s b.rot.s e 4 true, .ulps a.rot.v.x b.rot.v.x e 4 true, .ulps a.rot.v.y b.rot.v.y e 4 true, .ulps a.rot.v.z b.rot.v.z e 4 false] ∧
      Decomposed.ulpsEq Quat.ulpsEq V3.ulpsEq a b e 4 = false := by
  constructor <;> simp [Decomposed.ulpsEq, Quat.ulpsEq, V3.ulpsEq, Quat.toList, V3.toList, okB, eps52, envL, *]

theorem t_dq_ulps_eq_false_5 (a b : Decomposed (Quat K) (V3 K) K) (e : K) (h0 : Approx.ulpsEq a.scale b.scale e 4 = true) (h1 : Approx.ulpsEq a.rot.s b.rot.s e 4 = true) (h2 : Approx.ulpsEq a.rot.v.x b.rot.v.x e 4 = true) (h3 : Approx.ulpsEq a.rot.v.y b.rot.v.y e 4 = true) (h4 : Approx.ulpsEq a.rot.v.z b.rot.v.z e 4 = true) (h5 : Approx.ulpsEq a.disp.x b.disp.x e 4 = false) :
    t_dq_ulps_eq_false_5 (envL ([a.scale] ++ a.rot.toList ++ a.disp.toList ++ ([b.scale] ++ b.rot.toList ++ b.disp.toList) ++ [e])) =
      okB (Decomposed.ulpsEq Quat.ulpsEq V3.ulpsEq a b e 4) [.ulps a.scale b.scale e 4 true, .ulps a.rot.s b.rot.s e 4 true, .ulps a.rot.v.x b.rot.v.x e 4 true, .ulps a.rot.v.y b.rot.v.y e 4 true, .ulps a.rot.v.z b.rot.v.z e 4 true, .ulps a.disp.x b.disp.x e 4 false] ∧
      Decomposed.ulpsEq Quat.ulpsEq V3.ulpsEq a b e 4 = false := by
  constructor <;> simp [Decomposed.ulpsEq, Quat.ulpsEq, V3.ulpsEq, Quat.toList, V3.toList, okB, eps52, envL, *]

theorem t_dq_ulps_eq_false_6 (a b : Decomposed (Quat K) (V3 K) K) (e : K) (h0 : Approx.ulpsEq a.scale b.scale e 4 = true) (h1 : Approx.ulpsEq a.rot.s b.rot.s e 4 = true) (h2 : Approx.ulpsEq a.rot.v.x b.rot.v.x e 4 = true) (h3 : Approx.ulpsEq a.rot.v.y b.rot.v.y e 4 = true) (h4 : Approx.ulpsEq a.rot.v.z b.rot.v.z e 4 = true) (h5 : Approx.ulpsEq a.disp.x b.disp.x e 4 = true) (h6 : Approx.ulpsEq a.disp.y b.disp.y e 4 = false) :
    t_dq_ulps_eq_false_6 (envL ([a.scale] ++ a.rot.toList ++ a.disp.toList ++ ([b.scale] ++ b.rot.toList ++ b.disp.toList) ++ [e])) =
      okB (Decomposed.ulpsEq Quat.ulpsEq V3.ulpsEq a b e 4) [.ulps a.scale b.scale e 4 true, .ulps a.rot.s b.rot.s e 4 true, .ulps a.rot.v.x b.rot.v.x e 4 true, .ulps a.rot.v.y b.rot.v.y e 4 true, .ulps a.rot.v.z b.rot.v.z e 4 true, .ulps a.disp.x b.disp.x e 4 true, .ulps a.disp.y b.disp.y e 4 false] ∧
      Decomposed.ulpsEq Quat.ulpsEq V3.ulpsEq a b e 4 = false := by
  constructor <;> simp [Decomposed.ulpsEq, Quat.ulpsEq, V3.ulpsEq, Quat.toList, V3.toList, okB, eps52, envL, *]

theorem t_dq_ulps_eq_false_7 (a b : Decomposed (Quat K) (V3 K) K) (e : K) (h0 : Approx.ulpsEq a.scale b.scale e 4 = true) (h1 : Approx.ulpsEq a.rot.s b.rot.s e 4 = true) (h2 : Approx.ulpsEq a.rot.v.x b.rot.v.x e 4 = true) (h3 : Approx.ulpsEq a.rot.v.y b.rot.v.y e 4 = true) (h4 : Approx.ulpsEq a.rot.v.z b.rot.v.z e 4 = true) (h5 : Approx.ulpsEq a.disp.x b.disp.x e 4 = true) (h6 : Approx.ulpsEq a.disp.y b.disp.y e 4 = true) (h7 : Approx.ulpsEq a.disp.z b.disp.z e 4 = false) :
    t_dq_ulps_eq_false_7 (envL ([a.scale] ++ a.rot.toList ++ a.disp.toList ++ ([b.scale] ++ b.rot.toList ++ b.disp.toList) ++ [e])) =
      okB (Decomposed.ulpsEq Quat.ulpsEq V3.ulpsEq a b e 4) [.ulps a.scale b.scale e 4 true, .ulps a.rot.s b.rot.s e 4 true, .ulps a.rot.v.x b.rot.v.x e 4 true, .ulps a.rot.v.y b.rot.v.y e 4 true, .ulps a.rot.v.z b.rot.v.z e 4 true, .ulps a.disp.x b.disp.x e 4 true, .ulps a.disp.y b.disp.y e 4 true, .ulps a.disp.z b.disp.z e 4 false] ∧
      Decomposed.ulpsEq Quat.ulpsEq V3.ulpsEq a b e 4 = false := by
  constructor <;> simp [Decomposed.ulpsEq, Quat.ulpsEq, V3.ulpsEq, Quat.toList, V3.toList, okB, eps52, envL, *]

theorem t_dq_abs_diff_eq_d_true (a b : Decomposed (Quat K) (V3 K) K) (h0 : Approx.absDiffEq a.scale b.scale eps52 = true) (h1 : Approx.absDiffEq a.rot.s b.rot.s eps52 = true) (h2 : Approx.absDiffEq a.rot.v.x b.rot.v.x eps52 = true) (h3 : Approx.absDiffEq a.rot.v.y b.rot.v.y eps52 = true) (h4 : Approx.absDiffEq a.rot.v.z b.rot.v.z eps52 = true) (h5 : Approx.absDiffEq a.disp.x b.disp.x eps52 = true) (h6 : Approx.absDiffEq a.disp.y b.disp.y eps52 = true) (h7 : Approx.absDiffEq a.disp.z b.disp.z eps52 = true) :
    t_dq_abs_diff_eq_d_true (envL ([a.scale] ++ a.rot.toList ++ a.disp.toList ++ ([b.scale] ++ b.rot.toList ++ b.disp.toList))) =
      okB (Decomposed.absDiffEq Quat.absDiffEq V3.absDiffEq a b eps52) [.absDiff a.scale b.scale eps52 true, .absDiff a.rot.s b.rot.s eps52 true, .absDiff a.rot.v.x b.rot.v.x eps52 true, .absDiff a.rot.v.y b.rot.v.y eps52 true, .absDiff a.rot.v.z b.rot.v.z eps52 true, .absDiff a.disp.x b.disp.x eps52 true, .absDiff a.disp.y b.disp.y eps52 true, .absDiff a.disp.z b.disp.z eps52 true] ∧
      Decomposed.absDiffEq Quat.absDiffEq V3.absDiffEq a b eps52 = true := by
  try simp only [eps52, one_div] at *
  constructor <;> simp [Decomposed.absDiffEq, Quat.absDiffEq, V3.absDiffEq, Quat.toList, V3.toList, okB, eps52, envL, *]

theorem t_dq_abs_diff_eq_d_false_0 (a b : Decomposed (Quat K) (V3 K) K) (h0 : Approx.absDiffEq a.scale b.scale eps52 = false) :
    t_dq_abs_diff_eq_d_false_0 (envL ([a.scale] ++ a.rot.toList ++ a.disp.toList ++ ([b.scale] ++ b.rot.toList ++ b.disp.toList))) =
      okB (Decomposed.absDiffEq Quat.absDiffEq V3.absDiffEq a b eps52) [.absDiff a.scale b.scale eps52 false] ∧
      Decomposed.absDiffEq Quat.absDiffEq V3.absDiffEq a b eps52 = false := by
  try simp only [eps52, one_div] at *
  constructor <;> simp [Decomposed.absDiffEq, Quat.absDiffEq, V3.absDiffEq, Quat.toList, V3.toList, okB, eps52, envL, *]

theorem t_dq_relative_eq_d_true (a b : Decomposed (Quat K) (V3 K) K) (h0 : Approx.relEq a.scale b.scale eps52 eps52 = true) (h1 : Approx.relEq a.rot.s b.rot.s eps52 eps52 = true) (h2 : Approx.relEq a.rot.v.x b.rot.v.x eps52 eps52 = true) (h3 : Approx.relEq a.rot.v.y b.rot.v.y eps52 eps52 = true) (h4 : Approx.relEq a.rot.v.z b.rot.v.z eps52 eps52 = true) (h5 : Approx.relEq a.disp.x b.disp.x eps52 eps52 = true) (h6 : Approx.relEq a.disp.y b.disp.y eps52 eps52 = true) (h7 : Approx.relEq a.disp.z b.disp.z eps52 eps52 = true) :
    t_dq_relative_eq_d_true (envL ([a.scale] ++ a.rot.toList ++ a.disp.toList ++ ([b.scale] ++ b.rot.toList ++ b.disp.toList))) =
      okB (Decomposed.relEq Quat.relEq V3.relEq a b eps52 eps52) [.rel a.scale b.scale eps52 eps52 true, .rel a.rot.s b.rot.s eps52 eps52 true, .rel a.rot.v.x b.rot.v.x eps52 eps52 true, .rel a.rot.v.y b.rot.v.y eps52 eps52 true, .rel a.rot.v.z b.rot.v.z eps52 eps52 true, .rel a.disp.x b.disp.x eps52 eps52 true, .rel a.disp.y b.disp.y eps52 eps52 true, .rel a.disp.z b.disp.z eps52 eps52 true] ∧
      Decomposed.relEq Quat.relEq V3.relEq a b eps52 eps52 = true := by
  try simp only [eps52, one_div] at *
  constructor <;> simp [Decomposed.relEq, Quat.relEq, V3.relEq, Quat.toList, V3.toList, okB, eps52, envL, *]

theorem t_dq_relative_eq_d_false_0 (a b : Decomposed (Quat K) (V3 K) K) (h0 : Approx.relEq a.scale b.scale eps52 eps52 = false) :
    t_dq_relative_eq_d_false_0 (envL ([a.scale] ++ a.rot.toList ++ a.disp.toList ++ ([b.scale] ++ b.rot.toList ++ b.disp.toList))) =
      okB (Decomposed.relEq Quat.relEq V3.relEq a b eps52 eps52) [.rel a.scale b.scale eps52 eps52 false] ∧
      Decomposed.relEq Quat.relEq V3.relEq a b eps52 eps52 = false := by
  try simp only [eps52, one_div] at *
  constructor <;> simp [Decomposed.relEq, Quat.relEq, V3.relEq, Quat.toList, V3.toList, okB, eps52, envL, *]

theorem t_dq_ulps_eq_d_true (a b : Decomposed (Quat K) (V3 K) K) (h0 : Approx.ulpsEq a.scale b.scale eps52 4 = true) (h1 : Approx.ulpsEq a.rot.s b.rot.s eps52 4 = true) (h2 : Approx.ulpsEq a.rot.v.x b.rot.v.x eps52 4 = true) (h3 : Approx.ulpsEq a.rot.v.y b.rot.v.y eps52 4 = true) (h4 : Approx.ulpsEq a.rot.v.z b.rot.v.z eps52 4 = true) (h5 : Approx.ulpsEq a.disp.x b.disp.x eps52 4 = true) (h6 : Approx.ulpsEq a.disp.y b.disp.y eps52 4 = true) (h7 : Approx.ulpsEq a.disp.z b.disp.z eps52 4 = true) :
    t_dq_ulps_eq_d_true (envL ([a.scale] ++ a.rot.toList ++ a.disp.toList ++ ([b.scale] ++ b.rot.toList ++ b.disp.toList))) =
      okB (Decomposed.ulpsEq Quat.ulpsEq V3.ulpsEq a b eps52 4) [.ulps a.scale b.scale eps52 4 true, .ulps a.rot.s b.rot.s eps52 4 true, .ulps a.rot.v.x b.rot.v.x eps52 4 true, .ulps a.rot.v.y b.rot.v.y eps52 4 true, .ulps a.rot.v.z b.rot.v.z eps52 4 true, .ulps a.disp.x b.disp.x eps52 4 true, .ulps a.disp.y b.disp.y eps52 4 true, .ulps a.disp.z b.disp.z eps52 4 true] ∧
      Decomposed.ulpsEq Quat.ulpsEq V3.ulpsEq a b eps52 4 = true := by
  try simp only [eps52, one_div] at *
  constructor <;> simp [Decomposed.ulpsEq, Quat.ulpsEq, V3.ulpsEq, Quat.toList, V3.toList, okB, eps52, envL, *]

theorem t_dq_ulps_eq_d_false_0 (a b : Decomposed (Quat K) (V3 K) K) (h0 : Approx.ulpsEq a.scale b.scale eps52 4 = false) :
    t_dq_ulps_eq_d_false_0 (envL ([a.scale] ++ a.rot.toList ++ a.disp.toList ++ ([b.scale] ++ b.rot.toList ++ b.disp.toList))) =
      okB (Decomposed.ulpsEq Quat.ulpsEq V3.ulpsEq a b eps52 4) [.ulps a.scale b.scale eps52 4 false] ∧
      Decomposed.ulpsEq Quat.ulpsEq V3.ulpsEq a b eps52 4 = false := by
  try simp only [eps52, one_div] at *
  constructor <;> simp [Decomposed.ulpsEq, Quat.ulpsEq, V3.ulpsEq, Quat.toList, V3.toList, okB, eps52, envL, *]

/-! ## `b2` -/
theorem t_b2_abs_diff_eq_true (a b : K) (e : K) (h0 : Approx.absDiffEq (Transc.cos a) (Transc.cos b) e = true) (h1 : Approx.absDiffEq (Transc.sin a) (Transc.sin b) e = true) (h2 : Approx.absDiffEq (-Transc.sin a) (-Transc.sin b) e = true) (h3 : Approx.absDiffEq (Transc.cos a) (Transc.cos b) e = true) :
    t_b2_abs_diff_eq_true (envL ([a, b] ++ [e])) =
      okB (Basis2.absDiffEq ⟨M2.fromAngle a⟩ ⟨M2.fromAngle b⟩ e) [.absDiff (Transc.cos a) (Transc.cos b) e true, .absDiff (Transc.sin a) (Transc.sin b) e true, .absDiff (-Transc.sin a) (-Transc.sin b) e true, .absDiff (Transc.cos a) (Transc.cos b) e true] ∧
      Basis2.absDiffEq ⟨M2.fromAngle a⟩ ⟨M2.fromAngle b⟩ e = true := by
  constructor <;> simp [Basis2.absDiffEq, M2.absDiffEq, V2.absDiffEq, M2.fromAngle, M2.new, okB, eps52, envL, *]

theorem t_b2_abs_diff_eq_false_0 (a b : K) (e : K) (h0 : Approx.absDiffEq (Transc.cos a) (Transc.cos b) e = false) :
    t_b2_abs_diff_eq_false_0 (envL ([a, b] ++ [e])) =
      okB (Basis2.absDiffEq ⟨M2.fromAngle a⟩ ⟨M2.fromAngle b⟩ e) [.absDiff (Transc.cos a) (Transc.cos b) e false] ∧
      Basis2.absDiffEq ⟨M2.fromAngle a⟩ ⟨M2.fromAngle b⟩ e = false := by
  constructor <;> simp [Basis2.absDiffEq, M2.absDiffEq, V2.absDiffEq, M2.fromAngle, M2.new, okB, eps52, envL, *]

theorem t_b2_relative_eq_true (a b : K) (e m : K) (h0 : Approx.relEq (Transc.cos a) (Transc.cos b) e m = true) (h1 : Approx.relEq (Transc.sin a) (Transc.sin b) e m = true) (h2 : Approx.relEq (-Transc.sin a) (-Transc.sin b) e m = true) (h3 : Approx.relEq (Transc.cos a) (Transc.cos b) e m = true) :
    t_b2_relative_eq_true (envL ([a, b] ++ [e, m])) =
      okB (Basis2.relEq ⟨M2.fromAngle a⟩ ⟨M2.fromAngle b⟩ e m) [.rel (Transc.cos a) (Transc.cos b) e m true, .rel (Transc.sin a) (Transc.sin b) e m true, .rel (-Transc.sin a) (-Transc.sin b) e m true, .rel (Transc.cos a) (Transc.cos b) e m true] ∧
      Basis2.relEq ⟨M2.fromAngle a⟩ ⟨M2.fromAngle b⟩ e m = true := by
  constructor <;> simp [Basis2.relEq, M2.relEq, V2.relEq, M2.fromAngle, M2.new, okB, eps52, envL, *]

theorem t_b2_relative_eq_false_0 (a b : K) (e m : K) (h0 : Approx.relEq (Transc.cos a) (Transc.cos b) e m = false) :
    t_b2_relative_eq_false_0 (envL ([a, b] ++ [e, m])) =
      okB (Basis2.relEq ⟨M2.fromAngle a⟩ ⟨M2.fromAngle b⟩ e m) [.rel (Transc.cos a) (Transc.cos b) e m false] ∧
      Basis2.relEq ⟨M2.fromAngle a⟩ ⟨M2.fromAngle b⟩ e m = false := by
  constructor <;> simp [Basis2.relEq, M2.relEq, V2.relEq, M2.fromAngle, M2.new, okB, eps52, envL, *]

theorem t_b2_ulps_eq_true (a b : K) (e : K) (h0 : Approx.ulpsEq (Transc.cos a) (Transc.cos b) e 4 = true) (h1 : Approx.ulpsEq (Transc.sin a) (Transc.sin b) e 4 = true) (h2 : Approx.ulpsEq (-Transc.sin a) (-Transc.sin b) e 4 = true) (h3 : Approx.ulpsEq (Transc.cos a) (Transc.cos b) e 4 = true) :
    t_b2_ulps_eq_true (envL ([a, b] ++ [e])) =
      okB (Basis2.ulpsEq ⟨M2.fromAngle a⟩ ⟨M2.fromAngle b⟩ e 4) [.ulps (Transc.cos a) (Transc.cos b) e 4 true, .ulps (Transc.sin a) (Transc.sin b) e 4 true, .ulps (-Transc.sin a) (-Transc.sin b) e 4 true, .ulps (Transc.cos a) (Transc.cos b) e 4 true] ∧
      Basis2.ulpsEq ⟨M2.fromAngle a⟩ ⟨M2.fromAngle b⟩ e 4 = true := by
  constructor <;> simp [Basis2.ulpsEq, M2.ulpsEq, V2.ulpsEq, M2.fromAngle, M2.new, okB, eps52, envL, *]

theorem t_b2_ulps_eq_false_0 (a b : K) (e : K) (h0 : Approx.ulpsEq (Transc.cos a) (Transc.cos b) e 4 = false) :
    t_b2_ulps_eq_false_0 (envL ([a, b] ++ [e])) =
      okB (Basis2.ulpsEq ⟨M2.fromAngle a⟩ ⟨M2.fromAngle b⟩ e 4) [.ulps (Transc.cos a) (Transc.cos b) e 4 false] ∧
      Basis2.ulpsEq ⟨M2.fromAngle a⟩ ⟨M2.fromAngle b⟩ e 4 = false := by
  constructor <;> simp [Basis2.ulpsEq, M2.ulpsEq, V2.ulpsEq, M2.fromAngle, M2.new, okB, eps52, envL, *]

theorem t_b2_abs_diff_eq_d_true (a b : K) (h0 : Approx.absDiffEq (Transc.cos a) (Transc.cos b) eps52 = true) (h1 : Approx.absDiffEq (Transc.sin a) (Transc.sin b) eps52 = true) (h2 : Approx.absDiffEq (-Transc.sin a) (-Transc.sin b) eps52 = true) (h3 : Approx.absDiffEq (Transc.cos a) (Transc.cos b) eps52 = true) :
    t_b2_abs_diff_eq_d_true (envL ([a, b])) =
      okB (Basis2.absDiffEq ⟨M2.fromAngle a⟩ ⟨M2.fromAngle b⟩ eps52) [.absDiff (Transc.cos a) (Transc.cos b) eps52 true, .absDiff (Transc.sin a) (Transc.sin b) eps52 true, .absDiff (-Transc.sin a) (-Transc.sin b) eps52 true, .absDiff (Transc.cos a) (Transc.cos b) eps52 true] ∧
      Basis2.absDiffEq ⟨M2.fromAngle a⟩ ⟨M2.fromAngle b⟩ eps52 = true := by
  try simp only [eps52, one_div] at *
  constructor <;> simp [Basis2.absDiffEq, M2.absDiffEq, V2.absDiffEq, M2.fromAngle, M2.new, okB, eps52, envL, *]

theorem t_b2_abs_diff_eq_d_false_0 (a b : K) (h0 : Approx.absDiffEq (Transc.cos a) (Transc.cos b) eps52 = false) :
    t_b2_abs_diff_eq_d_false_0 (envL ([a, b])) =
      okB (Basis2.absDiffEq ⟨M2.fromAngle a⟩ ⟨M2.fromAngle b⟩ eps52) [.absDiff (Transc.cos a) (Transc.cos b) eps52 false] ∧
      Basis2.absDiffEq ⟨M2.fromAngle a⟩ ⟨M2.fromAngle b⟩ eps52 = false := by
  try simp only [eps52, one_div] at *
  constructor <;> simp [Basis2.absDiffEq, M2.absDiffEq, V2.absDiffEq, M2.fromAngle, M2.new, okB, eps52, envL, *]

theorem t_b2_relative_eq_d_true (a b : K) (h0 : Approx.relEq (Transc.cos a) (Transc.cos b) eps52 eps52 = true) (h1 : Approx.relEq (Transc.sin a) (Transc.sin b) eps52 eps52 = true) (h2 : Approx.relEq (-Transc.sin a) (-Transc.sin b) eps52 eps52 = true) (h3 : Approx.relEq (Transc.cos a) (Transc.cos b) eps52 eps52 = true) :
    t_b2_relative_eq_d_true (envL ([a, b])) =
      okB (Basis2.relEq ⟨M2.fromAngle a⟩ ⟨M2.fromAngle b⟩ eps52 eps52) [.rel (Transc.cos a) (Transc.cos b) eps52 eps52 true, .rel (Transc.sin a) (Transc.sin b) eps52 eps52 true, .rel (-Transc.sin a) (-Transc.sin b) eps52 eps52 true, .rel (Transc.cos a) (Transc.cos b) eps52 eps52 true] ∧
      Basis2.relEq ⟨M2.fromAngle a⟩ ⟨M2.fromAngle b⟩ eps52 eps52 = true := by
  try simp only [eps52, one_div] at *
  constructor <;> simp [Basis2.relEq, M2.relEq, V2.relEq, M2.fromAngle, M2.new, okB, eps52, envL, *]

theorem t_b2_relative_eq_d_false_0 (a b : K) (h0 : Approx.relEq (Transc.cos a) (Transc.cos b) eps52 eps52 = false) :
    t_b2_relative_eq_d_false_0 (envL ([a, b])) =
      okB (Basis2.relEq ⟨M2.fromAngle a⟩ ⟨M2.fromAngle b⟩ eps52 eps52) [.rel (Transc.cos a) (Transc.cos b) eps52 eps52 false] ∧
      Basis2.relEq ⟨M2.fromAngle a⟩ ⟨M2.fromAngle b⟩ eps52 eps52 = false := by
  try simp only [eps52, one_div] at *
  constructor <;> simp [Basis2.relEq, M2.relEq, V2.relEq, M2.fromAngle, M2.new, okB, eps52, envL, *]

theorem t_b2_ulps_eq_d_true (a b : K) (h0 : Approx.ulpsEq (Transc.cos a) (Transc.cos b) eps52 4 = true) (h1 : Approx.ulpsEq (Transc.sin a) (Transc.sin b) eps52 4 = true) (h2 : Approx.ulpsEq (-Transc.sin a) (-Transc.sin b) eps52 4 = true) (h3 : Approx.ulpsEq (Transc.cos a) (Transc.cos b) eps52 4 = true) :
    t_b2_ulps_eq_d_true (envL ([a, b])) =
      okB (Basis2.ulpsEq ⟨M2.fromAngle a⟩ ⟨M2.fromAngle b⟩ eps52 4) [.ulps (Transc.cos a) (Transc.cos b) eps52 4 true, .ulps (Transc.sin a) (Transc.sin b) eps52 4 true, .ulps (-Transc.sin a) (-Transc.sin b) eps52 4 true, .ulps (Transc.cos a) (Transc.cos b) eps52 4 true] ∧
      Basis2.ulpsEq ⟨M2.fromAngle a⟩ ⟨M2.fromAngle b⟩ eps52 4 = true := by
  try simp only [eps52, one_div] at *
  constructor <;> simp [Basis2.ulpsEq, M2.ulpsEq, V2.ulpsEq, M2.fromAngle, M2.new, okB, eps52, envL, *]

theorem t_b2_ulps_eq_d_false_0 (a b : K) (h0 : Approx.ulpsEq (Transc.cos a) (Transc.cos b) eps52 4 = false) :
    t_b2_ulps_eq_d_false_0 (envL ([a, b])) =
      okB (Basis2.ulpsEq ⟨M2.fromAngle a⟩ ⟨M2.fromAngle b⟩ eps52 4) [.ulps (Transc.cos a) (Transc.cos b) eps52 4 false] ∧
      Basis2.ulpsEq ⟨M2.fromAngle a⟩ ⟨M2.fromAngle b⟩ eps52 4 = false := by
  try simp only [eps52, one_div] at *
  constructor <;> simp [Basis2.ulpsEq, M2.ulpsEq, V2.ulpsEq, M2.fromAngle, M2.new, okB, eps52, envL, *]

/-! ## `b3` -/
theorem t_b3_abs_diff_eq_true (a b : Quat K) (e : K) (h0 : Approx.absDiffEq (Basis3.fromQuaternion a).mat.x.x (Basis3.fromQuaternion b).mat.x.x e = true) (h1 : Approx.absDiffEq (Basis3.fromQuaternion a).mat.x.y (Basis3.fromQuaternion b).mat.x.y e = true) (h2 : Approx.absDiffEq (Basis3.fromQuaternion a).mat.x.z (Basis3.fromQuaternion b).mat.x.z e = true) (h3 : Approx.absDiffEq (Basis3.fromQuaternion a).mat.y.x (Basis3.fromQuaternion b).mat.y.x e = true) (h4 : Approx.absDiffEq (Basis3.fromQuaternion a).mat.y.y (Basis3.fromQuaternion b).mat.y.y e = true) (h5 : Approx.absDiffEq (Basis3.fromQuaternion a).mat.y.z (Basis3.fromQuaternion b).mat.y.z e = true) (h6 : Approx.absDiffEq (Basis3.fromQuaternion a).mat.z.x (Basis3.fromQuaternion b).mat.z.x e = true) (h7 : Approx.absDiffEq (Basis3.fromQuaternion a).mat.z.y (Basis3.fromQuaternion b).mat.z.y e = true) (h8 : Approx.absDiffEq (Basis3.fromQuaternion a).mat.z.z (Basis3.fromQuaternion b).mat.z.z e = true) :
    t_b3_abs_diff_eq_true (envL (a.toList ++ b.toList ++ [e])) =
      okB (Basis3.absDiffEq (Basis3.fromQuaternion a) (Basis3.fromQuaternion b) e) [.absDiff (Basis3.fromQuaternion a).mat.x.x (Basis3.fromQuaternion b).mat.x.x e true, .absDiff (Basis3.fromQuaternion a).mat.x.y (Basis3.fromQuaternion b).mat.x.y e true, .absDiff (Basis3.fromQuaternion a).mat.x.z (Basis3.fromQuaternion b).mat.x.z e true, .absDiff (Basis3.fromQuaternion a).mat.y.x (Basis3.fromQuaternion b).mat.y.x e true, .absDiff (Basis3.fromQuaternion a).mat.y.y (Basis3.fromQuaternion b).mat.y.y e true, .absDiff (Basis3.fromQuaternion a).mat.y.z (Basis3.fromQuaternion b).mat.y.z e true, .absDiff (Basis3.fromQuaternion a).mat.z.x (Basis3.fromQuaternion b).mat.z.x e true, .absDiff (Basis3.fromQuaternion a).mat.z.y (Basis3.fromQuaternion b).mat.z.y e true, .absDiff (Basis3.fromQuaternion a).mat.z.z (Basis3.fromQuaternion b).mat.z.z e true] ∧
      Basis3.absDiffEq (Basis3.fromQuaternion a) (Basis3.fromQuaternion b) e = true := by
  simp [Basis3.fromQuaternion, Quat.toM3, M3.new] at *
  constructor <;> simp [Basis3.absDiffEq, M3.absDiffEq, V3.absDiffEq, Basis3.fromQuaternion, Quat.toM3, M3.new, Quat.toList, V3.toList, okB, eps52, envL, *]

theorem t_b3_abs_diff_eq_false_0 (a b : Quat K) (e : K) (h0 : Approx.absDiffEq (Basis3.fromQuaternion a).mat.x.x (Basis3.fromQuaternion b).mat.x.x e = false) :
    t_b3_abs_diff_eq_false_0 (envL (a.toList ++ b.toList ++ [e])) =
      okB (Basis3.absDiffEq (Basis3.fromQuaternion a) (Basis3.fromQuaternion b) e) [.absDiff (Basis3.fromQuaternion a).mat.x.x (Basis3.fromQuaternion b).mat.x.x e false] ∧
      Basis3.absDiffEq (Basis3.fromQuaternion a) (Basis3.fromQuaternion b) e = false := by
  simp [Basis3.fromQuaternion, Quat.toM3, M3.new] at *
  constructor <;> simp [Basis3.absDiffEq, M3.absDiffEq, V3.absDiffEq, Basis3.fromQuaternion, Quat.toM3, M3.new, Quat.toList, V3.toList, okB, eps52, envL, *]

theorem t_b3_relative_eq_true (a b : Quat K) (e m : K) (h0 : Approx.relEq (Basis3.fromQuaternion a).mat.x.x (Basis3.fromQuaternion b).mat.x.x e m = true) (h1 : Approx.relEq (Basis3.fromQuaternion a).mat.x.y (Basis3.fromQuaternion b).mat.x.y e m = true) (h2 : Approx.relEq (Basis3.fromQuaternion a).mat.x.z (Basis3.fromQuaternion b).mat.x.z e m = true) (h3 : Approx.relEq (Basis3.fromQuaternion a).mat.y.x (Basis3.fromQuaternion b).mat.y.x e m = true) (h4 : Approx.relEq (Basis3.fromQuaternion a).mat.y.y (Basis3.fromQuaternion b).mat.y.y e m = true) (h5 : Approx.relEq (Basis3.fromQuaternion a).mat.y.z (Basis3.fromQuaternion b).mat.y.z e m = true) (h6 : Approx.relEq (Basis3.fromQuaternion a).mat.z.x (Basis3.fromQuaternion b).mat.z.x e m = true) (h7 : Approx.relEq (Basis3.fromQuaternion a).mat.z.y (Basis3.fromQuaternion b).mat.z.y e m = true) (h8 : Approx.relEq (Basis3.fromQuaternion a).mat.z.z (Basis3.fromQuaternion b).mat.z.z e m = true) :
    t_b3_relative_eq_true (envL (a.toList ++ b.toList ++ [e, m])) =
      okB (Basis3.relEq (Basis3.fromQuaternion a) (Basis3.fromQuaternion b) e m) [.rel (Basis3.fromQuaternion a).mat.x.x (Basis3.fromQuaternion b).mat.x.x e m true, .rel (Basis3.fromQuaternion a).mat.x.y (Basis3.fromQuaternion b).mat.x.y e m true, .rel (Basis3.fromQuaternion a).mat.x.z (Basis3.fromQuaternion b).mat.x.z e m true, .rel (Basis3.fromQuaternion a).mat.y.x (Basis3.fromQuaternion b).mat.y.x e m true, .rel (Basis3.fromQuaternion a).mat.y.y (Basis3.fromQuaternion b).mat.y.y e m true, .rel (Basis3.fromQuaternion a).mat.y.z (Basis3.fromQuaternion b).mat.y.z e m true, .rel (Basis3.fromQuaternion a).mat.z.x (Basis3.fromQuaternion b).mat.z.x e m true, .rel (Basis3.fromQuaternion a).mat.z.y (Basis3.fromQuaternion b).mat.z.y e m true, .rel (Basis3.fromQuaternion a).mat.z.z (Basis3.fromQuaternion b).mat.z.z e m true] ∧
      Basis3.relEq (Basis3.fromQuaternion a) (Basis3.fromQuaternion b) e m = true := by
  simp [Basis3.fromQuaternion, Quat.toM3, M3.new] at *
  constructor <;> simp [Basis3.relEq, M3.relEq, V3.relEq, Basis3.fromQuaternion, Quat.toM3, M3.new, Quat.toList, V3.toList, okB, eps52, envL, *]

theorem t_b3_relative_eq_false_0 (a b : Quat K) (e m : K) (h0 : Approx.relEq (Basis3.fromQuaternion a).mat.x.x (Basis3.fromQuaternion b).mat.x.x e m = false) :
    t_b3_relative_eq_false_0 (envL (a.toList ++ b.toList ++ [e, m])) =
      okB (Basis3.relEq (Basis3.fromQuaternion a) (Basis3.fromQuaternion b) e m) [.rel (Basis3.fromQuaternion a).mat.x.x (Basis3.fromQuaternion b).mat.x.x e m false] ∧
      Basis3.relEq (Basis3.fromQuaternion a) (Basis3.fromQuaternion b) e m = false := by
  simp [Basis3.fromQuaternion, Quat.toM3, M3.new] at *
  constructor <;> simp [Basis3.relEq, M3.relEq, V3.relEq, Basis3.fromQuaternion, Quat.toM3, M3.new, Quat.toList, V3.toList, okB, eps52, envL, *]

theorem t_b3_ulps_eq_true (a b : Quat K) (e : K) (h0 : Approx.ulpsEq (Basis3.fromQuaternion a).mat.x.x (Basis3.fromQuaternion b).mat.x.x e 4 = true) (h1 : Approx.ulpsEq (Basis3.fromQuaternion a).mat.x.y (Basis3.fromQuaternion b).mat.x.y e 4 = true) (h2 : Approx.ulpsEq (Basis3.fromQuaternion a).mat.x.z (Basis3.fromQuaternion b).mat.x.z e 4 = true) (h3 : Approx.ulpsEq (Basis3.fromQuaternion a).mat.y.x (Basis3.fromQuaternion b).mat.y.x e 4 = true) (h4 : Approx.ulpsEq (Basis3.fromQuaternion a).mat.y.y (Basis3.fromQuaternion b).mat.y.y e 4 = true) (h5 : Approx.ulpsEq (Basis3.fromQuaternion a).mat.y.z (Basis3.fromQuaternion b).mat.y.z e 4 = true) (h6 : Approx.ulpsEq (Basis3.fromQuaternion a).mat.z.x (Basis3.fromQuaternion b).mat.z.x e 4 = true) (h7 : Approx.ulpsEq (Basis3.fromQuaternion a).mat.z.y (Basis3.fromQuaternion b).mat.z.y e 4 = true) (h8 : Approx.ulpsEq (Basis3.fromQuaternion a).mat.z.z (Basis3.fromQuaternion b).mat.z.z e 4 = true) :
    t_b3_ulps_eq_true (envL (a.toList ++ b.toList ++ [e])) =
      okB (Basis3.ulpsEq (Basis3.fromQuaternion a) (Basis3.fromQuaternion b) e 4) [.ulps (Basis3.fromQuaternion a).mat.x.x (Basis3.fromQuaternion b).mat.x.x e 4 true, .ulps (Basis3.fromQuaternion a).mat.x.y (Basis3.fromQuaternion b).mat.x.y e 4 true, .ulps (Basis3.fromQuaternion a).mat.x.z (Basis3.fromQuaternion b).mat.x.z e 4 true, .ulps (Basis3.fromQuaternion a).mat.y.x (Basis3.fromQuaternion b).mat.y.x e 4 true, .ulps (Basis3.fromQuaternion a).mat.y.y (Basis3.fromQuaternion b).mat.y.y e 4 true, .ulps (Basis3.fromQuaternion a).mat.y.z (Basis3.fromQuaternion b).mat.y.z e 4 true, .ulps (Basis3.fromQuaternion a).mat.z.x (Basis3.fromQuaternion b).mat.z.x e 4 true, .ulps (Basis3.fromQuaternion a).mat.z.y (Basis3.fromQuaternion b).mat.z.y e 4 true, .ulps (Basis3.fromQuaternion a).mat.z.z (Basis3.fromQuaternion b).mat.z.z e 4 true] ∧
      Basis3.ulpsEq (Basis3.fromQuaternion a) (Basis3.fromQuaternion b) e 4 = true := by
  simp [Basis3.fromQuaternion, Quat.toM3, M3.new] at *
  constructor <;> simp [Basis3.ulpsEq, M3.ulpsEq, V3.ulpsEq, Basis3.fromQuaternion, Quat.toM3, M3.new, Quat.toList, V3.toList, okB, eps52, envL, *]

theorem t_b3_ulps_eq_false_0 (a b : Quat K) (e : K) (h0 : Approx.ulpsEq (Basis3.fromQuaternion a).mat.x.x (Basis3.fromQuaternion b).mat.x.x e 4 = false) :
    t_b3_ulps_eq_false_0 (envL (a.toList ++ b.toList ++ [e])) =
      okB (Basis3.ulpsEq (Basis3.fromQuaternion a) (Basis3.fromQuaternion b) e 4) [.ulps (Basis3.fromQuaternion a).mat.x.x (Basis3.fromQuaternion b).mat.x.x e 4 false] ∧
      Basis3.ulpsEq (Basis3.fromQuaternion a) (Basis3.fromQuaternion b) e 4 = false := by
  simp [Basis3.fromQuaternion, Quat.toM3, M3.new] at *
  constructor <;> simp [Basis3.ulpsEq, M3.ulpsEq, V3.ulpsEq, Basis3.fromQuaternion, Quat.toM3, M3.new, Quat.toList, V3.toList, okB, eps52, envL, *]

theorem t_b3_abs_diff_eq_d_true (a b : Quat K) (h0 : Approx.absDiffEq (Basis3.fromQuaternion a).mat.x.x (Basis3.fromQuaternion b).mat.x.x eps52 = true) (h1 : Approx.absDiffEq (Basis3.fromQuaternion a).mat.x.y (Basis3.fromQuaternion b).mat.x.y eps52 = true) (h2 : Approx.absDiffEq (Basis3.fromQuaternion a).mat.x.z (Basis3.fromQuaternion b).mat.x.z eps52 = true) (h3 : Approx.absDiffEq (Basis3.fromQuaternion a).mat.y.x (Basis3.fromQuaternion b).mat.y.x eps52 = true) (h4 : Approx.absDiffEq (Basis3.fromQuaternion a).mat.y.y (Basis3.fromQuaternion b).mat.y.y eps52 = true) (h5 : Approx.absDiffEq (Basis3.fromQuaternion a).mat.y.z (Basis3.fromQuaternion b).mat.y.z eps52 = true) (h6 : Approx.absDiffEq (Basis3.fromQuaternion a).mat.z.x (Basis3.fromQuaternion b).mat.z.x eps52 = true) (h7 : Approx.absDiffEq (Basis3.fromQuaternion a).mat.z.y (Basis3.fromQuaternion b).mat.z.y eps52 = true) (h8 : Approx.absDiffEq (Basis3.fromQuaternion a).mat.z.z (Basis3.fromQuaternion b).mat.z.z eps52 = true) :
    t_b3_abs_diff_eq_d_true (envL (a.toList ++ b.toList)) =
      okB (Basis3.absDiffEq (Basis3.fromQuaternion a) (Basis3.fromQuaternion b) eps52) [.absDiff (Basis3.fromQuaternion a).mat.x.x (Basis3.fromQuaternion b).mat.x.x eps52 true, .absDiff (Basis3.fromQuaternion a).mat.x.y (Basis3.fromQuaternion b).mat.x.y eps52 true, .absDiff (Basis3.fromQuaternion a).mat.x.z (Basis3.fromQuaternion b).mat.x.z eps52 true, .absDiff (Basis3.fromQuaternion a).mat.y.x (Basis3.fromQuaternion b).mat.y.x eps52 true, .absDiff (Basis3.fromQuaternion a).mat.y.y (Basis3.fromQuaternion b).mat.y.y eps52 true, .absDiff (Basis3.fromQuaternion a).mat.y.z (Basis3.fromQuaternion b).mat.y.z eps52 true, .absDiff (Basis3.fromQuaternion a).mat.z.x (Basis3.fromQuaternion b).mat.z.x eps52 true, .absDiff (Basis3.fromQuaternion a).mat.z.y (Basis3.fromQuaternion b).mat.z.y eps52 true, .absDiff (Basis3.fromQuaternion a).mat.z.z (Basis3.fromQuaternion b).mat.z.z eps52 true] ∧
      Basis3.absDiffEq (Basis3.fromQuaternion a) (Basis3.fromQuaternion b) eps52 = true := by
  try simp only [eps52, one_div] at *
  simp [Basis3.fromQuaternion, Quat.toM3, M3.new] at *
  constructor <;> simp [Basis3.absDiffEq, M3.absDiffEq, V3.absDiffEq, Basis3.fromQuaternion, Quat.toM3, M3.new, Quat.toList, V3.toList, okB, eps52, envL, *]

theorem t_b3_abs_diff_eq_d_false_0 (a b : Quat K) (h0 : Approx.absDiffEq (Basis3.fromQuaternion a).mat.x.x (Basis3.fromQuaternion b).mat.x.x eps52 = false) :
    t_b3_abs_diff_eq_d_false_0 (envL (a.toList ++ b.toList)) =
      okB (Basis3.absDiffEq (Basis3.fromQuaternion a) (Basis3.fromQuaternion b) eps52) [.absDiff (Basis3.fromQuaternion a).mat.x.x (Basis3.fromQuaternion b).mat.x.x eps52 false] ∧
      Basis3.absDiffEq (Basis3.fromQuaternion a) (Basis3.fromQuaternion b) eps52 = false := by
  try simp only [eps52, one_div] at *
  simp [Basis3.fromQuaternion, Quat.toM3, M3.new] at *
  constructor <;> simp [Basis3.absDiffEq, M3.absDiffEq, V3.absDiffEq, Basis3.fromQuaternion, Quat.toM3, M3.new, Quat.toList, V3.toList, okB, eps52, envL, *]

theorem t_b3_relative_eq_d_true (a b : Quat K) (h0 : Approx.relEq (Basis3.fromQuaternion a).mat.x.x (Basis3.fromQuaternion b).mat.x.x eps52 eps52 = true) (h1 : Approx.relEq (Basis3.fromQuaternion a).mat.x.y (Basis3.fromQuaternion b).mat.x.y eps52 eps52 = true) (h2 : Approx.relEq (Basis3.fromQuaternion a).mat.x.z (Basis3.fromQuaternion b).mat.x.z eps52 eps52 = true) (h3 : Approx.relEq (Basis3.fromQuaternion a).mat.y.x (Basis3.fromQuaternion b).mat.y.x eps52 eps52 = true) (h4 : Approx.relEq (Basis3.fromQuaternion a).mat.y.y (Basis3.fromQuaternion b).mat.y.y eps52 eps52 = true) (h5 : Approx.relEq (Basis3.fromQuaternion a).mat.y.z (Basis3.fromQuaternion b).mat.y.z eps52 eps52 = true) (h6 : Approx.relEq (Basis3.fromQuaternion a).mat.z.x (Basis3.fromQuaternion b).mat.z.x eps52 eps52 = true) (h7 : Approx.relEq (Basis3.fromQuaternion a).mat.z.y (Basis3.fromQuaternion b).mat.z.y eps52 eps52 = true) (h8 : Approx.relEq (Basis3.fromQuaternion a).mat.z.z (Basis3.fromQuaternion b).mat.z.z eps52 eps52 = true) :
    t_b3_relative_eq_d_true (envL (a.toList ++ b.toList)) =
      okB (Basis3.relEq (Basis3.fromQuaternion a) (Basis3.fromQuaternion b) eps52 eps52) [.rel (Basis3.fromQuaternion a).mat.x.x (Basis3.fromQuaternion b).mat.x.x eps52 eps52 true, .rel (Basis3.fromQuaternion a).mat.x.y (Basis3.fromQuaternion b).mat.x.y eps52 eps52 true, .rel (Basis3.fromQuaternion a).mat.x.z (Basis3.fromQuaternion b).mat.x.z eps52 eps52 true, .rel (Basis3.fromQuaternion a).mat.y.x (Basis3.fromQuaternion b).mat.y.x eps52 eps52 true, .rel (Basis3.fromQuaternion a).mat.y.y (Basis3.fromQuaternion b).mat.y.y eps52 eps52 true, .rel (Basis3.fromQuaternion a).mat.y.z (Basis3.fromQuaternion b).mat.y.z eps52 eps52 true, .rel (Basis3.fromQuaternion a).mat.z.x (Basis3.fromQuaternion b).mat.z.x eps52 eps52 true, .rel (Basis3.fromQuaternion a).mat.z.y (Basis3.fromQuaternion b).mat.z.y eps52 eps52 true, .rel (Basis3.fromQuaternion a).mat.z.z (Basis3.fromQuaternion b).mat.z.z eps52 eps52 true] ∧
      Basis3.relEq (Basis3.fromQuaternion a) (Basis3.fromQuaternion b) eps52 eps52 = true := by
  try simp only [eps52, one_div] at *
  simp [Basis3.fromQuaternion, Quat.toM3, M3.new] at *
  constructor <;> simp [Basis3.relEq, M3.relEq, V3.relEq, Basis3.fromQuaternion, Quat.toM3, M3.new, Quat.toList, V3.toList, okB, eps52, envL, *]

theorem t_b3_relative_eq_d_false_0 (a b : Quat K) (h0 : Approx.relEq (Basis3.fromQuaternion a).mat.x.x (Basis3.fromQuaternion b).mat.x.x eps52 eps52 = false) :
    t_b3_relative_eq_d_false_0 (envL (a.toList ++ b.toList)) =
      okB (Basis3.relEq (Basis3.fromQuaternion a) (Basis3.fromQuaternion b) eps52 eps52) [.rel (Basis3.fromQuaternion a).mat.x.x (Basis3.fromQuaternion b).mat.x.x eps52 eps52 false] ∧
      Basis3.relEq (Basis3.fromQuaternion a) (Basis3.fromQuaternion b) eps52 eps52 = false := by
  try simp only [eps52, one_div] at *
  simp [Basis3.fromQuaternion, Quat.toM3, M3.new] at *
  constructor <;> simp [Basis3.relEq, M3.relEq, V3.relEq, Basis3.fromQuaternion, Quat.toM3, M3.new, Quat.toList, V3.toList, okB, eps52, envL, *]

theorem t_b3_ulps_eq_d_true (a b : Quat K) (h0 : Approx.ulpsEq (Basis3.fromQuaternion a).mat.x.x (Basis3.fromQuaternion b).mat.x.x eps52 4 = true) (h1 : Approx.ulpsEq (Basis3.fromQuaternion a).mat.x.y (Basis3.fromQuaternion b).mat.x.y eps52 4 = true) (h2 : Approx.ulpsEq (Basis3.fromQuaternion a).mat.x.z (Basis3.fromQuaternion b).mat.x.z eps52 4 = true) (h3 : Approx.ulpsEq (Basis3.fromQuaternion a).mat.y.x (Basis3.fromQuaternion b).mat.y.x eps52 4 = true) (h4 : Approx.ulpsEq (Basis3.fromQuaternion a).mat.y.y (Basis3.fromQuaternion b).mat.y.y eps52 4 = true) (h5 : Approx.ulpsEq (Basis3.fromQuaternion a).mat.y.z (Basis3.fromQuaternion b).mat.y.z eps52 4 = true) (h6 : Approx.ulpsEq (Basis3.fromQuaternion a).mat.z.x (Basis3.fromQuaternion b).mat.z.x eps52 4 = true) (h7 : Approx.ulpsEq (Basis3.fromQuaternion a).mat.z.y (Basis3.fromQuaternion b).mat.z.y eps52 4 = true) (h8 : Approx.ulpsEq (Basis3.fromQuaternion a).mat.z.z (Basis3.fromQuaternion b).mat.z.z eps52 4 = true) :
    t_b3_ulps_eq_d_true (envL (a.toList ++ b.toList)) =
      okB (Basis3.ulpsEq (Basis3.fromQuaternion a) (Basis3.fromQuaternion b) eps52 4) [.ulps (Basis3.fromQuaternion a).mat.x.x (Basis3.fromQuaternion b).mat.x.x eps52 4 true, .ulps (Basis3.fromQuaternion a).mat.x.y (Basis3.fromQuaternion b).mat.x.y eps52 4 true, .ulps (Basis3.fromQuaternion a).mat.x.z (Basis3.fromQuaternion b).mat.x.z eps52 4 true, .ulps (Basis3.fromQuaternion a).mat.y.x (Basis3.fromQuaternion b).mat.y.x eps52 4 true, .ulps (Basis3.fromQuaternion a).mat.y.y (Basis3.fromQuaternion b).mat.y.y eps52 4 true, .ulps (Basis3.fromQuaternion a).mat.y.z (Basis3.fromQuaternion b).mat.y.z eps52 4 true, .ulps (Basis3.fromQuaternion a).mat.z.x (Basis3.fromQuaternion b).mat.z.x eps52 4 true, .ulps (Basis3.fromQuaternion a).mat.z.y (Basis3.fromQuaternion b).mat.z.y eps52 4 true, .ulps (Basis3.fromQuaternion a).mat.z.z (Basis3.fromQuaternion b).mat.z.z eps52 4 true] ∧
      Basis3.ulpsEq (Basis3.fromQuaternion a) (Basis3.fromQuaternion b) eps52 4 = true := by
  try simp only [eps52, one_div] at *
  simp [Basis3.fromQuaternion, Quat.toM3, M3.new] at *
  constructor <;> simp [Basis3.ulpsEq, M3.ulpsEq, V3.ulpsEq, Basis3.fromQuaternion, Quat.toM3, M3.new, Quat.toList, V3.toList, okB, eps52, envL, *]

theorem t_b3_ulps_eq_d_false_0 (a b : Quat K) (h0 : Approx.ulpsEq (Basis3.fromQuaternion a).mat.x.x (Basis3.fromQuaternion b).mat.x.x eps52 4 = false) :
    t_b3_ulps_eq_d_false_0 (envL (a.toList ++ b.toList)) =
      okB (Basis3.ulpsEq (Basis3.fromQuaternion a) (Basis3.fromQuaternion b) eps52 4) [.ulps (Basis3.fromQuaternion a).mat.x.x (Basis3.fromQuaternion b).mat.x.x eps52 4 false] ∧
      Basis3.ulpsEq (Basis3.fromQuaternion a) (Basis3.fromQuaternion b) eps52 4 = false := by
  try simp only [eps52, one_div] at *
  simp [Basis3.fromQuaternion, Quat.toM3, M3.new] at *
  constructor <;> simp [Basis3.ulpsEq, M3.ulpsEq, V3.ulpsEq, Basis3.fromQuaternion, Quat.toM3, M3.new, Quat.toList, V3.toList, okB, eps52, envL, *]

end Cg.Trace.C18OpsX
