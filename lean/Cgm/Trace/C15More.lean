import Cgm.Trace.C15Paths
/-! # T obligations for C15, the remaining paths: `from_arc(.., None)` on opposite vectors with the
component-wise `ulps_eq!(unit_x × src, 0)` stopping at the `y` component; `Basis3::between_vectors`
on the `same` path and on both `opposite` paths.

Not traceable (no input takes the path): `from_arc` with the component-wise test stopping at the `x`
component: `(unit_x × src).x = 0·src.z - 0·src.y` is `0` on every (shadow and symbolic) input and
`ulps_eq!(0, 0)` holds.  `Basis2::between_vectors` makes no comparison (`Trace/C15.lean`,
`t_b2_between_vectors`): its single kernel is every path. -/
set_option linter.unusedSectionVars false
namespace Cg.Trace.C15More
open Cg Cg.Gen.C15 Cg.Trace.C15
variable {K : Type} [Field K] [LinearOrder K] [Approx K] [Transc K] [FRem K] [Lits K]
attribute [local simp] Quat.normalize Quat.normalizeTo Quat.magnitude eps52 V3.normalize V3.normalizeTo
  V3.magnitude Quat.fromAxisAngle Angle.turnDiv

/-- `from_arc(src, dst, None)`, opposite vectors; `unit_x × src` is not `ulps_eq` to zero and the
component-wise `&&` of the derived `UlpsEq` stops at the y component (`-src.z`): half-turn about the
normalisation of `unit_x × src`.  The trace is one comparison shorter than that of `t_q_from_arc_opp_x`. -/
theorem t_q_from_arc_opp_x_y (a b : V3 K)
    (h1 : ulpsEqD (V3.dot a b) (Transc.sqrt (a.magnitude2 * b.magnitude2)) = false)
    (h2 : ulpsEqD (V3.dot a b) (-Transc.sqrt (a.magnitude2 * b.magnitude2)) = true)
    (h3 : ulpsEqD (V3.cross V3.unitX a).x 0 = true) (h4 : ulpsEqD (V3.cross V3.unitX a).y 0 = false) :
    t_q_from_arc_opp_x_y (envL (a.toList ++ b.toList)) =
      .okG (Quat.fromArc a b none).toList
        [.ulps (V3.dot a b) (Transc.sqrt (a.magnitude2 * b.magnitude2)) eps52 4 false,
         .ulps (V3.dot a b) (-Transc.sqrt (a.magnitude2 * b.magnitude2)) eps52 4 true,
         .ulps (V3.cross V3.unitX a).x 0 eps52 4 true, .ulps (V3.cross V3.unitX a).y 0 eps52 4 false] := by
  simp only [Quat.fromArc, V3.ulpsEqZero, h1, h2, h3, h4]; tr_auto_nf

/-- `Basis3::between_vectors = Quaternion::between_vectors(a, b).into()`, `same` path (identity quaternion) -/
theorem t_b3_between_vectors_same (a b : V3 K) (h1 : ulpsEqD (V3.dot a b) 1 = true) :
    t_b3_between_vectors_same (envL (a.toList ++ b.toList)) =
      .okG (Basis3.betweenVectors a b).mat.toList [.ulps (V3.dot a b) 1 eps52 4 true] := by
  simp only [Basis3.betweenVectors, Quat.betweenVectors, h1]; tr_auto_nf
/-- `Basis3::between_vectors`, opposite vectors, `a × unit_x` accepted as the axis -/
theorem t_b3_between_vectors_opp_x (a b : V3 K) (h1 : ulpsEqD (V3.dot a b) 1 = false)
    (h2 : ulpsEqD (V3.dot a b / Transc.sqrt (a.magnitude2 * b.magnitude2)) (-1) = true)
    (h3 : ulpsEqD (V3.cross a V3.unitX).magnitude2 0 = false) :
    t_b3_between_vectors_opp_x (envL (a.toList ++ b.toList)) =
      .okG (Basis3.betweenVectors a b).mat.toList
        [.ulps (V3.dot a b) 1 eps52 4 false,
         .ulps (V3.dot a b / Transc.sqrt (a.magnitude2 * b.magnitude2)) (-1) eps52 4 true,
         .ulps (V3.cross a V3.unitX).magnitude2 0 eps52 4 false] := by
  simp only [Basis3.betweenVectors, Quat.betweenVectors, h1, h2, h3]; tr_auto_nf
/-- `Basis3::between_vectors`, opposite vectors, `a × unit_x` vanishes (up to ulps): axis `a × unit_y` -/
theorem t_b3_between_vectors_opp_y (a b : V3 K) (h1 : ulpsEqD (V3.dot a b) 1 = false)
    (h2 : ulpsEqD (V3.dot a b / Transc.sqrt (a.magnitude2 * b.magnitude2)) (-1) = true)
    (h3 : ulpsEqD (V3.cross a V3.unitX).magnitude2 0 = true) :
    t_b3_between_vectors_opp_y (envL (a.toList ++ b.toList)) =
      .okG (Basis3.betweenVectors a b).mat.toList
        [.ulps (V3.dot a b) 1 eps52 4 false,
         .ulps (V3.dot a b / Transc.sqrt (a.magnitude2 * b.magnitude2)) (-1) eps52 4 true,
         .ulps (V3.cross a V3.unitX).magnitude2 0 eps52 4 true] := by
  simp only [Basis3.betweenVectors, Quat.betweenVectors, h1, h2, h3]; tr_auto_nf
end Cg.Trace.C15More
