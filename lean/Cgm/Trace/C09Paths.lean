import Cgm.Trace.C09
/-! # T obligations for C09, further kernels: `look_at_stable` (the flip is an argument: no comparison),
`Basis2::look_at` (both outcomes of the flip comparison), the deprecated `look_at` / `look_at_dir` entry points,
`Quaternion::look_at` on the trace-positive path of `From<Matrix3>` -/
set_option linter.unusedSectionVars false
namespace Cg.Trace.C09Paths
open Cg Cg.Gen.C09
variable {K : Type} [Field K] [LinearOrder K] [Transc K] [FRem K] [Lits K]
attribute [local simp] M4.lookToRh M4.lookToLh M4.lookAtRh M4.lookAtLh M3.lookToLh M3.lookToRh
  V3.normalize V3.normalizeTo V3.magnitude M2.lookAtStable V2.normalize V2.normalizeTo V2.magnitude
  Basis2.lookAt Basis2.lookAtStable

theorem t_m2_look_at_stable_noflip (d : V2 K) :
    t_m2_look_at_stable_noflip (envL d.toList) = .okS (M2.lookAtStable d false).toList := by tr_auto_nf
theorem t_m2_look_at_stable_flip (d : V2 K) :
    t_m2_look_at_stable_flip (envL d.toList) = .okS (M2.lookAtStable d true).toList := by tr_auto_nf
theorem t_b2_look_at_stable_flip (d : V2 K) :
    t_b2_look_at_stable_flip (envL d.toList) = .okS (Basis2.lookAtStable d true).mat.toList := by tr_auto_nf
theorem t_b2_look_at_flip (d u : V2 K) (h : u.y * d.x ≤ u.x * d.y) :
    t_b2_look_at_flip (envL (d.toList ++ u.toList)) =
      .okG (Basis2.lookAt d u).mat.toList [.le (u.y * d.x) (u.x * d.y) true] := by
  simp [M2.lookAt, h]; tr_auto_nf
theorem t_b2_look_at_noflip (d u : V2 K) (h : ¬ u.y * d.x ≤ u.x * d.y) :
    t_b2_look_at_noflip (envL (d.toList ++ u.toList)) =
      .okG (Basis2.lookAt d u).mat.toList [.le (u.y * d.x) (u.x * d.y) false] := by
  simp [M2.lookAt, h]; tr_auto_nf
/-- deprecated `Matrix3::look_at(dir, up)` = `look_to_lh` -/
theorem t_m3_look_at_dep (d u : V3 K) :
    t_m3_look_at_dep (envL (d.toList ++ u.toList)) = .okS (M3.lookToLh d u).toList := by tr_auto_nf
/-- deprecated `Matrix4::look_at(eye, center, up)` = `look_at_rh` -/
theorem t_m4_look_at_dep (e c : P3 K) (u : V3 K) :
    t_m4_look_at_dep (envL (e.toList ++ c.toList ++ u.toList)) = .okS (M4.lookAtRh e c u).toList := by tr_auto_nf
/-- deprecated `Matrix4::look_at_dir(eye, dir, up)` = `look_to_rh` -/
theorem t_m4_look_at_dir_dep (e : P3 K) (d u : V3 K) :
    t_m4_look_at_dir_dep (envL (e.toList ++ d.toList ++ u.toList)) = .okS (M4.lookToRh e d u).toList := by tr_auto_nf
/-- `Quaternion::look_at(dir, up) = Matrix3::look_to_lh(dir, up).into()`, trace-positive path -/
theorem t_q_look_at (d u : V3 K) (h : 0 ≤ (M3.lookToLh d u).trace) :
    t_q_look_at (envL (d.toList ++ u.toList)) =
      .okG (Quat.lookAt d u).toList [.le 0 (M3.lookToLh d u).trace true] := by
  have h' := h
  simp only [Quat.lookAt]
  unfold M3.toQuat
  simp only [if_pos h']
  tr_auto_nf
end Cg.Trace.C09Paths
