import Cgm.Gen.C04
/-! # T obligations for C04, generated once by tools/gen_tobl.py from the driver tables
(static text: the statement is `traced kernel = the model function the driver runs for this op`) -/
set_option linter.unusedSectionVars false
set_option linter.unusedVariables false
set_option linter.unusedSimpArgs false
namespace Cg.Trace.C04Auto
open Cg Cg.Gen.C04
variable {K : Type} [Field K] [Transc K] [FRem K] [Lits K]

theorem t_q_new (w : K) (x : K) (y : K) (z : K) :
    t_q_new (envL ([w] ++ [x] ++ [y] ++ [z])) = .okS (Quat.new w x y z).toList := by
  first | tr_any | (simp [Quat.distance2, Quat.dot, Quat.magnitude, Quat.magnitude2, Quat.new, Quat.normalizeTo, List.foldl, envL, Tr.okS, V1.toList, V2.toList, V3.toList, V4.toList, P1.toList, P2.toList, P3.toList, M2.toList, M3.toList, M4.toList, Quat.toList] <;> (repeat' apply And.intro) <;> first | ring1 | (ring_nf; done)) | (simp [Quat.fromSv, Quat.new, List.foldl, envL, Tr.okS, V1.toList, V2.toList, V3.toList, V4.toList, P1.toList, P2.toList, P3.toList, M2.toList, M3.toList, M4.toList, Quat.toList] <;> (repeat' apply And.intro) <;> first | ring1 | (ring_nf; done))
theorem t_q_from_sv (s : K) (v : V3 K) :
    t_q_from_sv (envL ([s] ++ v.toList)) = .okS (Quat.fromSv s v).toList := by
  first | tr_any | (simp [Quat.distance2, Quat.dot, Quat.fromSv, Quat.magnitude, Quat.magnitude2, Quat.normalizeTo, V3.distance2, V3.dot, V3.magnitude, V3.magnitude2, V3.normalizeTo, V3.product, V3.sum, List.foldl, envL, Tr.okS, V1.toList, V2.toList, V3.toList, V4.toList, P1.toList, P2.toList, P3.toList, M2.toList, M3.toList, M4.toList, Quat.toList] <;> (repeat' apply And.intro) <;> first | ring1 | (ring_nf; done)) | (simp [Quat.fromSv, List.foldl, envL, Tr.okS, V1.toList, V2.toList, V3.toList, V4.toList, P1.toList, P2.toList, P3.toList, M2.toList, M3.toList, M4.toList, Quat.toList] <;> (repeat' apply And.intro) <;> first | ring1 | (ring_nf; done))
theorem t_q_neg (q : Quat K) :
    t_q_neg (envL (q.toList)) = .okS (-q).toList := by
  first | tr_any | (simp [Quat.distance2, Quat.dot, Quat.magnitude, Quat.magnitude2, Quat.normalizeTo, List.foldl, envL, Tr.okS, V1.toList, V2.toList, V3.toList, V4.toList, P1.toList, P2.toList, P3.toList, M2.toList, M3.toList, M4.toList, Quat.toList] <;> (repeat' apply And.intro) <;> first | ring1 | (ring_nf; done)) | (simp [List.foldl, envL, Tr.okS, V1.toList, V2.toList, V3.toList, V4.toList, P1.toList, P2.toList, P3.toList, M2.toList, M3.toList, M4.toList, Quat.toList] <;> (repeat' apply And.intro) <;> first | ring1 | (ring_nf; done))
theorem t_q_sub (p : Quat K) (q : Quat K) :
    t_q_sub (envL (p.toList ++ q.toList)) = .okS (p - q).toList := by
  first | tr_any | (simp [Quat.distance2, Quat.dot, Quat.magnitude, Quat.magnitude2, Quat.normalizeTo, List.foldl, envL, Tr.okS, V1.toList, V2.toList, V3.toList, V4.toList, P1.toList, P2.toList, P3.toList, M2.toList, M3.toList, M4.toList, Quat.toList] <;> (repeat' apply And.intro) <;> first | ring1 | (ring_nf; done)) | (simp [List.foldl, envL, Tr.okS, V1.toList, V2.toList, V3.toList, V4.toList, P1.toList, P2.toList, P3.toList, M2.toList, M3.toList, M4.toList, Quat.toList] <;> (repeat' apply And.intro) <;> first | ring1 | (ring_nf; done))
theorem t_q_one  :
    t_q_one (envL (([] : List K))) = .okS (Quat.one).toList := by
  first | tr_any | (simp [Quat.distance2, Quat.dot, Quat.magnitude, Quat.magnitude2, Quat.normalizeTo, Quat.one, List.foldl, envL, Tr.okS, V1.toList, V2.toList, V3.toList, V4.toList, P1.toList, P2.toList, P3.toList, M2.toList, M3.toList, M4.toList, Quat.toList] <;> (repeat' apply And.intro) <;> first | ring1 | (ring_nf; done)) | (simp [M3.new, M3.zero, Quat.fromSv, Quat.new, Quat.one, Quat.zero, V3.fromValue, V3.zero, one, List.foldl, envL, Tr.okS, V1.toList, V2.toList, V3.toList, V4.toList, P1.toList, P2.toList, P3.toList, M2.toList, M3.toList, M4.toList, Quat.toList] <;> (repeat' apply And.intro) <;> first | ring1 | (ring_nf; done))
theorem t_q_zero  :
    t_q_zero (envL (([] : List K))) = .okS (Quat.zero).toList := by
  first | tr_any | (simp [Quat.distance2, Quat.dot, Quat.magnitude, Quat.magnitude2, Quat.normalizeTo, Quat.zero, List.foldl, envL, Tr.okS, V1.toList, V2.toList, V3.toList, V4.toList, P1.toList, P2.toList, P3.toList, M2.toList, M3.toList, M4.toList, Quat.toList] <;> (repeat' apply And.intro) <;> first | ring1 | (ring_nf; done)) | (simp [M3.new, M3.zero, Quat.fromSv, Quat.new, Quat.zero, V3.fromValue, V3.zero, List.foldl, envL, Tr.okS, V1.toList, V2.toList, V3.toList, V4.toList, P1.toList, P2.toList, P3.toList, M2.toList, M3.toList, M4.toList, Quat.toList] <;> (repeat' apply And.intro) <;> first | ring1 | (ring_nf; done))
theorem t_q_sum_list (l1 : Quat K) (l2 : Quat K) (l3 : Quat K) :
    t_q_sum_list (envL (l1.toList ++ l2.toList ++ l3.toList)) = .okS (Quat.sumList [l1, l2, l3]).toList := by
  first | tr_any | (simp [Quat.distance2, Quat.dot, Quat.magnitude, Quat.magnitude2, Quat.normalizeTo, Quat.sumList, List.foldl, envL, Tr.okS, V1.toList, V2.toList, V3.toList, V4.toList, P1.toList, P2.toList, P3.toList, M2.toList, M3.toList, M4.toList, Quat.toList] <;> (repeat' apply And.intro) <;> first | ring1 | (ring_nf; done)) | (simp [M3.new, M3.zero, Quat.fromSv, Quat.new, Quat.sumList, Quat.zero, V3.fromValue, V3.zero, List.foldl, envL, Tr.okS, V1.toList, V2.toList, V3.toList, V4.toList, P1.toList, P2.toList, P3.toList, M2.toList, M3.toList, M4.toList, Quat.toList] <;> (repeat' apply And.intro) <;> first | ring1 | (ring_nf; done))
theorem t_q_sum_list_ref (l1 : Quat K) (l2 : Quat K) (l3 : Quat K) :
    t_q_sum_list_ref (envL (l1.toList ++ l2.toList ++ l3.toList)) = .okS (Quat.sumList [l1, l2, l3]).toList := by
  first | tr_any | (simp [Quat.distance2, Quat.dot, Quat.magnitude, Quat.magnitude2, Quat.normalizeTo, Quat.sumList, List.foldl, envL, Tr.okS, V1.toList, V2.toList, V3.toList, V4.toList, P1.toList, P2.toList, P3.toList, M2.toList, M3.toList, M4.toList, Quat.toList] <;> (repeat' apply And.intro) <;> first | ring1 | (ring_nf; done)) | (simp [M3.new, M3.zero, Quat.fromSv, Quat.new, Quat.sumList, Quat.zero, V3.fromValue, V3.zero, List.foldl, envL, Tr.okS, V1.toList, V2.toList, V3.toList, V4.toList, P1.toList, P2.toList, P3.toList, M2.toList, M3.toList, M4.toList, Quat.toList] <;> (repeat' apply And.intro) <;> first | ring1 | (ring_nf; done))
theorem t_q_product_list (l1 : Quat K) (l2 : Quat K) (l3 : Quat K) :
    t_q_product_list (envL (l1.toList ++ l2.toList ++ l3.toList)) = .okS (Quat.productList [l1, l2, l3]).toList := by
  first | tr_any | (simp [Quat.distance2, Quat.dot, Quat.magnitude, Quat.magnitude2, Quat.normalizeTo, Quat.productList, List.foldl, envL, Tr.okS, V1.toList, V2.toList, V3.toList, V4.toList, P1.toList, P2.toList, P3.toList, M2.toList, M3.toList, M4.toList, Quat.toList] <;> (repeat' apply And.intro) <;> first | ring1 | (ring_nf; done)) | (simp [M3.fromValue, M3.new, M3.one, M3.zero, Quat.fromSv, Quat.new, Quat.one, Quat.productList, Quat.zero, V3.fromValue, V3.zero, one, List.foldl, envL, Tr.okS, V1.toList, V2.toList, V3.toList, V4.toList, P1.toList, P2.toList, P3.toList, M2.toList, M3.toList, M4.toList, Quat.toList] <;> (repeat' apply And.intro) <;> first | ring1 | (ring_nf; done))
theorem t_q_product_list_ref (l1 : Quat K) (l2 : Quat K) (l3 : Quat K) :
    t_q_product_list_ref (envL (l1.toList ++ l2.toList ++ l3.toList)) = .okS (Quat.productList [l1, l2, l3]).toList := by
  first | tr_any | (simp [Quat.distance2, Quat.dot, Quat.magnitude, Quat.magnitude2, Quat.normalizeTo, Quat.productList, List.foldl, envL, Tr.okS, V1.toList, V2.toList, V3.toList, V4.toList, P1.toList, P2.toList, P3.toList, M2.toList, M3.toList, M4.toList, Quat.toList] <;> (repeat' apply And.intro) <;> first | ring1 | (ring_nf; done)) | (simp [M3.fromValue, M3.new, M3.one, M3.zero, Quat.fromSv, Quat.new, Quat.one, Quat.productList, Quat.zero, V3.fromValue, V3.zero, one, List.foldl, envL, Tr.okS, V1.toList, V2.toList, V3.toList, V4.toList, P1.toList, P2.toList, P3.toList, M2.toList, M3.toList, M4.toList, Quat.toList] <;> (repeat' apply And.intro) <;> first | ring1 | (ring_nf; done))
end Cg.Trace.C04Auto
