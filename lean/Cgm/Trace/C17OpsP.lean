import Cgm.Gen.C17
import Cgm.Model.Assign
/-!
# T obligations for C17: the operand forms of the operators of points

GENERATED once by `tools/gen_c17_forms.py` from `lib/cgv/sigs.py` (`FORM_FAMILIES`) / `lib/cgv/tracetab_ops2.py`; kept as an
ordinary source file.

Each kernel `t_<t>_<op>_<form>` was traced from the `impl` the call-site spelling selects (`rv` = `&a op b`, `vr` = `a op &b`,
`rr` = `&a op &b`, `r` = `-&a`, `asg` = `a op= b`) on symbolic operands.  For the reference forms the obligation says the
kernel is the model's by-value operator (the model has one function per operator); for `asg` it says the kernel is the
field-by-field definition of `Cgm/Model/Assign.lean`, which `Cgm/Props/C17c.lean` proves equal to the by-value operator
(composed in `Cgm/E2E/C17b.lean`).
-/
set_option linter.unusedSectionVars false
set_option linter.unusedSimpArgs false
set_option linter.unusedVariables false
namespace Cg.Trace.C17OpsP
open Cg Cg.Gen.C17
variable {K : Type} [Field K] [Transc K] [FRem K] [Lits K]

/-- unfold the kernel and the model operator (for `asg`: the chain of single-field updates), then field identities -/
local macro "tr_form" : tactic =>
  `(tactic| first
    | (tr_auto; done)
    | (simp [P1.addAssignV, P1.subAssignV, P1.mulAssignS, P1.divAssignS, P1.remAssignS, P1.rem, P2.addAssignV, P2.subAssignV, P2.mulAssignS, P2.divAssignS, P2.remAssignS, P2.rem, P3.addAssignV, P3.subAssignV, P3.mulAssignS, P3.divAssignS, P3.remAssignS, P3.rem, envL, Tr.okS,
        V1.toList, V2.toList, V3.toList, V4.toList, P1.toList, P2.toList, P3.toList, M2.toList, M3.toList, M4.toList, Quat.toList] <;>
       (repeat' apply And.intro) <;> first | ring1 | (ring_nf; done)))

theorem t_p1_add_v_rv (u : P1 K) (v : V1 K) :
    t_p1_add_v_rv (envL (u.toList ++ v.toList)) = .okS (u + v).toList := by
  tr_form
theorem t_p1_add_v_vr (u : P1 K) (v : V1 K) :
    t_p1_add_v_vr (envL (u.toList ++ v.toList)) = .okS (u + v).toList := by
  tr_form
theorem t_p1_add_v_rr (u : P1 K) (v : V1 K) :
    t_p1_add_v_rr (envL (u.toList ++ v.toList)) = .okS (u + v).toList := by
  tr_form
theorem t_p1_add_v_asg (u : P1 K) (v : V1 K) :
    t_p1_add_v_asg (envL (u.toList ++ v.toList)) = .okS (u.addAssignV v).toList := by
  tr_form
theorem t_p2_add_v_rv (u : P2 K) (v : V2 K) :
    t_p2_add_v_rv (envL (u.toList ++ v.toList)) = .okS (u + v).toList := by
  tr_form
theorem t_p2_add_v_vr (u : P2 K) (v : V2 K) :
    t_p2_add_v_vr (envL (u.toList ++ v.toList)) = .okS (u + v).toList := by
  tr_form
theorem t_p2_add_v_rr (u : P2 K) (v : V2 K) :
    t_p2_add_v_rr (envL (u.toList ++ v.toList)) = .okS (u + v).toList := by
  tr_form
theorem t_p2_add_v_asg (u : P2 K) (v : V2 K) :
    t_p2_add_v_asg (envL (u.toList ++ v.toList)) = .okS (u.addAssignV v).toList := by
  tr_form
theorem t_p3_add_v_rv (u : P3 K) (v : V3 K) :
    t_p3_add_v_rv (envL (u.toList ++ v.toList)) = .okS (u + v).toList := by
  tr_form
theorem t_p3_add_v_vr (u : P3 K) (v : V3 K) :
    t_p3_add_v_vr (envL (u.toList ++ v.toList)) = .okS (u + v).toList := by
  tr_form
theorem t_p3_add_v_rr (u : P3 K) (v : V3 K) :
    t_p3_add_v_rr (envL (u.toList ++ v.toList)) = .okS (u + v).toList := by
  tr_form
theorem t_p3_add_v_asg (u : P3 K) (v : V3 K) :
    t_p3_add_v_asg (envL (u.toList ++ v.toList)) = .okS (u.addAssignV v).toList := by
  tr_form
theorem t_p1_sub_v_rv (u : P1 K) (v : V1 K) :
    t_p1_sub_v_rv (envL (u.toList ++ v.toList)) = .okS (u - v).toList := by
  tr_form
theorem t_p1_sub_v_vr (u : P1 K) (v : V1 K) :
    t_p1_sub_v_vr (envL (u.toList ++ v.toList)) = .okS (u - v).toList := by
  tr_form
theorem t_p1_sub_v_rr (u : P1 K) (v : V1 K) :
    t_p1_sub_v_rr (envL (u.toList ++ v.toList)) = .okS (u - v).toList := by
  tr_form
theorem t_p1_sub_v_asg (u : P1 K) (v : V1 K) :
    t_p1_sub_v_asg (envL (u.toList ++ v.toList)) = .okS (u.subAssignV v).toList := by
  tr_form
theorem t_p2_sub_v_rv (u : P2 K) (v : V2 K) :
    t_p2_sub_v_rv (envL (u.toList ++ v.toList)) = .okS (u - v).toList := by
  tr_form
theorem t_p2_sub_v_vr (u : P2 K) (v : V2 K) :
    t_p2_sub_v_vr (envL (u.toList ++ v.toList)) = .okS (u - v).toList := by
  tr_form
theorem t_p2_sub_v_rr (u : P2 K) (v : V2 K) :
    t_p2_sub_v_rr (envL (u.toList ++ v.toList)) = .okS (u - v).toList := by
  tr_form
theorem t_p2_sub_v_asg (u : P2 K) (v : V2 K) :
    t_p2_sub_v_asg (envL (u.toList ++ v.toList)) = .okS (u.subAssignV v).toList := by
  tr_form
theorem t_p3_sub_v_rv (u : P3 K) (v : V3 K) :
    t_p3_sub_v_rv (envL (u.toList ++ v.toList)) = .okS (u - v).toList := by
  tr_form
theorem t_p3_sub_v_vr (u : P3 K) (v : V3 K) :
    t_p3_sub_v_vr (envL (u.toList ++ v.toList)) = .okS (u - v).toList := by
  tr_form
theorem t_p3_sub_v_rr (u : P3 K) (v : V3 K) :
    t_p3_sub_v_rr (envL (u.toList ++ v.toList)) = .okS (u - v).toList := by
  tr_form
theorem t_p3_sub_v_asg (u : P3 K) (v : V3 K) :
    t_p3_sub_v_asg (envL (u.toList ++ v.toList)) = .okS (u.subAssignV v).toList := by
  tr_form
theorem t_p1_sub_p_rv (u v : P1 K) :
    t_p1_sub_p_rv (envL (u.toList ++ v.toList)) = .okS (V1.toList (u - v)) := by
  tr_form
theorem t_p1_sub_p_vr (u v : P1 K) :
    t_p1_sub_p_vr (envL (u.toList ++ v.toList)) = .okS (V1.toList (u - v)) := by
  tr_form
theorem t_p1_sub_p_rr (u v : P1 K) :
    t_p1_sub_p_rr (envL (u.toList ++ v.toList)) = .okS (V1.toList (u - v)) := by
  tr_form
theorem t_p2_sub_p_rv (u v : P2 K) :
    t_p2_sub_p_rv (envL (u.toList ++ v.toList)) = .okS (V2.toList (u - v)) := by
  tr_form
theorem t_p2_sub_p_vr (u v : P2 K) :
    t_p2_sub_p_vr (envL (u.toList ++ v.toList)) = .okS (V2.toList (u - v)) := by
  tr_form
theorem t_p2_sub_p_rr (u v : P2 K) :
    t_p2_sub_p_rr (envL (u.toList ++ v.toList)) = .okS (V2.toList (u - v)) := by
  tr_form
theorem t_p3_sub_p_rv (u v : P3 K) :
    t_p3_sub_p_rv (envL (u.toList ++ v.toList)) = .okS (V3.toList (u - v)) := by
  tr_form
theorem t_p3_sub_p_vr (u v : P3 K) :
    t_p3_sub_p_vr (envL (u.toList ++ v.toList)) = .okS (V3.toList (u - v)) := by
  tr_form
theorem t_p3_sub_p_rr (u v : P3 K) :
    t_p3_sub_p_rr (envL (u.toList ++ v.toList)) = .okS (V3.toList (u - v)) := by
  tr_form
theorem t_p1_mul_rv (u : P1 K) (v : K) :
    t_p1_mul_rv (envL (u.toList ++ [v])) = .okS (u * v).toList := by
  tr_form
theorem t_p1_mul_asg (u : P1 K) (v : K) :
    t_p1_mul_asg (envL (u.toList ++ [v])) = .okS (u.mulAssignS v).toList := by
  tr_form
theorem t_p2_mul_rv (u : P2 K) (v : K) :
    t_p2_mul_rv (envL (u.toList ++ [v])) = .okS (u * v).toList := by
  tr_form
theorem t_p2_mul_asg (u : P2 K) (v : K) :
    t_p2_mul_asg (envL (u.toList ++ [v])) = .okS (u.mulAssignS v).toList := by
  tr_form
theorem t_p3_mul_rv (u : P3 K) (v : K) :
    t_p3_mul_rv (envL (u.toList ++ [v])) = .okS (u * v).toList := by
  tr_form
theorem t_p3_mul_asg (u : P3 K) (v : K) :
    t_p3_mul_asg (envL (u.toList ++ [v])) = .okS (u.mulAssignS v).toList := by
  tr_form
theorem t_p1_div_rv (u : P1 K) (v : K) :
    t_p1_div_rv (envL (u.toList ++ [v])) = .okS (u / v).toList := by
  tr_form
theorem t_p1_div_asg (u : P1 K) (v : K) :
    t_p1_div_asg (envL (u.toList ++ [v])) = .okS (u.divAssignS v).toList := by
  tr_form
theorem t_p2_div_rv (u : P2 K) (v : K) :
    t_p2_div_rv (envL (u.toList ++ [v])) = .okS (u / v).toList := by
  tr_form
theorem t_p2_div_asg (u : P2 K) (v : K) :
    t_p2_div_asg (envL (u.toList ++ [v])) = .okS (u.divAssignS v).toList := by
  tr_form
theorem t_p3_div_rv (u : P3 K) (v : K) :
    t_p3_div_rv (envL (u.toList ++ [v])) = .okS (u / v).toList := by
  tr_form
theorem t_p3_div_asg (u : P3 K) (v : K) :
    t_p3_div_asg (envL (u.toList ++ [v])) = .okS (u.divAssignS v).toList := by
  tr_form
theorem t_p1_rem_rv (u : P1 K) (v : K) :
    t_p1_rem_rv (envL (u.toList ++ [v])) = .okS (u.rem v).toList := by
  tr_form
theorem t_p1_rem_asg (u : P1 K) (v : K) :
    t_p1_rem_asg (envL (u.toList ++ [v])) = .okS (u.remAssignS v).toList := by
  tr_form
theorem t_p2_rem_rv (u : P2 K) (v : K) :
    t_p2_rem_rv (envL (u.toList ++ [v])) = .okS (u.rem v).toList := by
  tr_form
theorem t_p2_rem_asg (u : P2 K) (v : K) :
    t_p2_rem_asg (envL (u.toList ++ [v])) = .okS (u.remAssignS v).toList := by
  tr_form
theorem t_p3_rem_rv (u : P3 K) (v : K) :
    t_p3_rem_rv (envL (u.toList ++ [v])) = .okS (u.rem v).toList := by
  tr_form
theorem t_p3_rem_asg (u : P3 K) (v : K) :
    t_p3_rem_asg (envL (u.toList ++ [v])) = .okS (u.remAssignS v).toList := by
  tr_form
end Cg.Trace.C17OpsP
