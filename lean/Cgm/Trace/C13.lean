import Cgm.Gen.C13
import Cgm.Model.Rot
/-! # T obligations for C13: angle conversion, normalisation (path by path), bisect, inverse trig wrappers -/
set_option linter.unusedSectionVars false
namespace Cg.Trace.C13
open Cg Cg.Gen.C13
variable {K : Type} [Field K] [LinearOrder K] [Transc K] [FRem K] [Lits K]
attribute [local simp] radToDeg degToRad degFull Angle.turnDiv Deg.acos Deg.asin Deg.atan Deg.atan2 Rad.acos Rad.sin
  Deg.sin Deg.cos Deg.tan Angle.opposite

theorem t_rad_to_deg (a : K) : t_rad_to_deg (envL [a]) = .okS [radToDeg a] := by tr_auto
theorem t_deg_to_rad (a : K) : t_deg_to_rad (envL [a]) = .okS [degToRad a] := by tr_auto

/-! `normalize`: one three-way comparison `rem ? 0`; the result is `rem + T` exactly when it is `Less` -/
theorem t_rad_normalize_pos (a : K) (h : 0 < FRem.frem a (Lits.radFull : K)) :
    t_rad_normalize_pos (envL [a]) = .okG [Angle.normalize Lits.radFull a] [.cmp (FRem.frem a Lits.radFull) 0 .gt] := by
  simp [Angle.normalize, not_lt.mpr h.le]; tr_auto
theorem t_rad_normalize_neg (a : K) (h : FRem.frem a (Lits.radFull : K) < 0) :
    t_rad_normalize_neg (envL [a]) = .okG [Angle.normalize Lits.radFull a] [.cmp (FRem.frem a Lits.radFull) 0 .lt] := by
  simp [Angle.normalize, h]; tr_auto
theorem t_deg_normalize_pos (a : K) (h : 0 < FRem.frem a (360 : K)) :
    t_deg_normalize_pos (envL [a]) = .okG [Angle.normalize degFull a] [.cmp (FRem.frem a 360) 0 .gt] := by
  simp [Angle.normalize, not_lt.mpr h.le]; tr_auto
theorem t_deg_normalize_neg (a : K) (h : FRem.frem a (360 : K) < 0) :
    t_deg_normalize_neg (envL [a]) = .okG [Angle.normalize degFull a] [.cmp (FRem.frem a 360) 0 .lt] := by
  simp [Angle.normalize, h]; tr_auto
theorem t_deg_normalize_zero (a : K) (h : FRem.frem a (360 : K) = 0) :
    t_deg_normalize_zero (envL [a]) = .okG [Angle.normalize degFull a] [.cmp (FRem.frem a 360) 0 .eq] := by
  simp [Angle.normalize, envL, Tr.okG]; simp [h]
/-! `normalize_signed`: `normalize`, then `rem - T` exactly when `T/2 < rem` -/
theorem t_deg_normalize_signed_hi (a : K) (h : 0 < FRem.frem a (360 : K)) (h2 : (360 : K) / 2 < FRem.frem a 360) :
    t_deg_normalize_signed_hi (envL [a]) =
      .okG [Angle.normalizeSigned degFull a] [.cmp (FRem.frem a 360) 0 .gt, .cmp (360 / 2) (FRem.frem a 360) .lt] := by
  simp [Angle.normalizeSigned, Angle.normalize, not_lt.mpr h.le, h2]; tr_auto
theorem t_deg_normalize_signed_lo (a : K) (h : 0 < FRem.frem a (360 : K)) (h2 : FRem.frem a 360 < (360 : K) / 2) :
    t_deg_normalize_signed_lo (envL [a]) =
      .okG [Angle.normalizeSigned degFull a] [.cmp (FRem.frem a 360) 0 .gt, .cmp (360 / 2) (FRem.frem a 360) .gt] := by
  simp [Angle.normalizeSigned, Angle.normalize, not_lt.mpr h.le, not_lt.mpr h2.le]; tr_auto
theorem t_deg_normalize_signed_neg_hi (a : K) (h : FRem.frem a (360 : K) < 0) (h2 : (360 : K) / 2 < FRem.frem a 360 + 360) :
    t_deg_normalize_signed_neg_hi (envL [a]) =
      .okG [Angle.normalizeSigned degFull a] [.cmp (FRem.frem a 360) 0 .lt, .cmp (360 / 2) (FRem.frem a 360 + 360) .lt] := by
  simp [Angle.normalizeSigned, Angle.normalize, h, h2]; tr_auto
theorem t_deg_normalize_signed_neg_lo (a : K) (h : FRem.frem a (360 : K) < 0) (h2 : FRem.frem a 360 + 360 < (360 : K) / 2) :
    t_deg_normalize_signed_neg_lo (envL [a]) =
      .okG [Angle.normalizeSigned degFull a] [.cmp (FRem.frem a 360) 0 .lt, .cmp (360 / 2) (FRem.frem a 360 + 360) .gt] := by
  simp [Angle.normalizeSigned, Angle.normalize, h, not_lt.mpr h2.le]; tr_auto
theorem t_rad_normalize_signed_hi (a : K) (h : 0 < FRem.frem a (Lits.radFull : K)) (h2 : (Lits.radFull : K) / 2 < FRem.frem a Lits.radFull) :
    t_rad_normalize_signed_hi (envL [a]) =
      .okG [Angle.normalizeSigned Lits.radFull a]
        [.cmp (FRem.frem a Lits.radFull) 0 .gt, .cmp (Lits.radFull / 2) (FRem.frem a Lits.radFull) .lt] := by
  simp [Angle.normalizeSigned, Angle.normalize, not_lt.mpr h.le, h2]; tr_auto
theorem t_rad_normalize_signed_lo (a : K) (h : 0 < FRem.frem a (Lits.radFull : K)) (h2 : FRem.frem a Lits.radFull < (Lits.radFull : K) / 2) :
    t_rad_normalize_signed_lo (envL [a]) =
      .okG [Angle.normalizeSigned Lits.radFull a]
        [.cmp (FRem.frem a Lits.radFull) 0 .gt, .cmp (Lits.radFull / 2) (FRem.frem a Lits.radFull) .gt] := by
  simp [Angle.normalizeSigned, Angle.normalize, not_lt.mpr h.le, not_lt.mpr h2.le]; tr_auto
theorem t_rad_opposite (a : K) (h : 0 < FRem.frem (a + Lits.radFull / 2) (Lits.radFull : K)) :
    t_rad_opposite (envL [a]) = .okG [Angle.opposite Lits.radFull a] [.cmp (FRem.frem (a + Lits.radFull / 2) Lits.radFull) 0 .gt] := by
  simp [Angle.normalize, not_lt.mpr h.le]; tr_auto
theorem t_deg_opposite_neg (a : K) (h : FRem.frem (a + 360 / 2) (360 : K) < 0) :
    t_deg_opposite_neg (envL [a]) = .okG [Angle.opposite degFull a] [.cmp (FRem.frem (a + 360 / 2) 360) 0 .lt] := by
  simp [Angle.normalize, h]; tr_auto
theorem t_deg_opposite (a : K) (h : 0 < FRem.frem (a + 360 / 2) (360 : K)) :
    t_deg_opposite (envL [a]) = .okG [Angle.opposite degFull a] [.cmp (FRem.frem (a + 360 / 2) 360) 0 .gt] := by
  simp [Angle.normalize, not_lt.mpr h.le]; tr_auto
/-! `bisect` (as repaired): `normalize(self + normalize_signed(other - self) / 2)`, on the path where the
difference wraps (`> T/2`) and on the path where it does not -/
theorem t_deg_bisect_wrap (a b : K) (h : 0 < FRem.frem (b - a) (360 : K)) (h2 : (360 : K) / 2 < FRem.frem (b - a) 360)
    (h3 : 0 < FRem.frem (a + (FRem.frem (b - a) 360 - 360) * (1 / 2)) (360 : K)) :
    t_deg_bisect_wrap (envL [a, b]) =
      .okG [Angle.bisect degFull a b]
        [.cmp (FRem.frem (b - a) 360) 0 .gt, .cmp (360 / 2) (FRem.frem (b - a) 360) .lt,
         .cmp (FRem.frem (a + (FRem.frem (b - a) 360 - 360) * (1 / 2)) 360) 0 .gt] := by
  simp only [one_div] at h3
  simp [Angle.bisect, Angle.normalizeSigned, Angle.normalize, not_lt.mpr h.le, h2, not_lt.mpr h3.le]; tr_auto
theorem t_deg_bisect_near (a b : K) (h : 0 < FRem.frem (b - a) (360 : K)) (h2 : FRem.frem (b - a) 360 < (360 : K) / 2)
    (h3 : 0 < FRem.frem (a + FRem.frem (b - a) 360 * (1 / 2)) (360 : K)) :
    t_deg_bisect_near (envL [a, b]) =
      .okG [Angle.bisect degFull a b]
        [.cmp (FRem.frem (b - a) 360) 0 .gt, .cmp (360 / 2) (FRem.frem (b - a) 360) .gt,
         .cmp (FRem.frem (a + FRem.frem (b - a) 360 * (1 / 2)) 360) 0 .gt] := by
  simp only [one_div] at h3
  simp [Angle.bisect, Angle.normalizeSigned, Angle.normalize, not_lt.mpr h.le, not_lt.mpr h2.le, not_lt.mpr h3.le]; tr_auto
/-! inverse trigonometric wrappers: the `Deg` versions convert the radian result -/
theorem t_deg_acos (x : K) : t_deg_acos (envL [x]) = .okS [Deg.acos x] := by tr_auto
theorem t_deg_asin (x : K) : t_deg_asin (envL [x]) = .okS [Deg.asin x] := by tr_auto
theorem t_deg_atan (x : K) : t_deg_atan (envL [x]) = .okS [Deg.atan x] := by tr_auto
theorem t_deg_atan2 (y x : K) : t_deg_atan2 (envL [y, x]) = .okS [Deg.atan2 y x] := by tr_auto
theorem t_rad_acos (x : K) : t_rad_acos (envL [x]) = .okS [Rad.acos x] := by tr_auto
theorem t_deg_sin (x : K) : t_deg_sin (envL [x]) = .okS [Deg.sin x] := by tr_auto
theorem t_deg_cos (x : K) : t_deg_cos (envL [x]) = .okS [Deg.cos x] := by tr_auto
theorem t_deg_tan (x : K) : t_deg_tan (envL [x]) = .okS [Deg.tan x] := by tr_auto
theorem t_rad_sin (x : K) : t_rad_sin (envL [x]) = .okS [Rad.sin x] := by tr_auto
theorem t_deg_turn_div_3 : t_deg_turn_div_3 (envL ([] : List K)) = .okS [Angle.turnDiv (degFull : K) 3] := by tr_auto
theorem t_rad_turn_div_6 : t_rad_turn_div_6 (envL ([] : List K)) = .okS [Angle.turnDiv (Lits.radFull : K) 6] := by tr_auto
end Cg.Trace.C13
