import Cgm.Trace.C02Idx
import Cgm.Trace.C02IdxE
import Cgm.Props.C02
/-!
# T obligations for C02, collected: one statement per operation for every in-range index tuple

Static text (written once by lib/gen_idx_all.py).  The per-tuple kernels of `Cgm/Trace/C02Idx*.lean` are put into a table
indexed by `Fin n` tuples; `<table>_all` says that at every in-range tuple the traced code is the model's function and
that the model returns there.  The corollaries below compose this with the property-level theorems about the model.
-/
set_option linter.unusedSectionVars false
set_option linter.unusedVariables false
namespace Cg.Trace.C02IdxAll
open Cg
variable {K : Type} [Field K] [Transc K] [FRem K] [Lits K]

/-- the `Matrix2::swap_rows` kernels by index tuple -/
def kSwapRows2 : Fin 2 → Fin 2 → (Nat → K) → Tr K :=
  ![![Gen.C02.t_m2_swap_rows_0_0, Gen.C02.t_m2_swap_rows_0_1], ![Gen.C02.t_m2_swap_rows_1_0, Gen.C02.t_m2_swap_rows_1_1]]
/-- `Matrix2::swap_rows` at every in-range index tuple is the model's function, which returns -/
theorem kSwapRows2_all (m : M2 K) (i0 i1 : Fin 2) :
    kSwapRows2 i0 i1 (envL m.toList) = .ofPanic ((m.swapRows? i0 i1).map M2.toList) ∧ (m.swapRows? i0 i1).isSome := by
  fin_cases i0 <;> fin_cases i1
  · exact C02Idx.t_m2_swap_rows_0_0 m
  · exact C02Idx.t_m2_swap_rows_0_1 m
  · exact C02Idx.t_m2_swap_rows_1_0 m
  · exact C02Idx.t_m2_swap_rows_1_1 m

/-- the `Matrix2::swap_columns` kernels by index tuple -/
def kSwapColumns2 : Fin 2 → Fin 2 → (Nat → K) → Tr K :=
  ![![Gen.C02.t_m2_swap_columns_0_0, Gen.C02.t_m2_swap_columns_0_1], ![Gen.C02.t_m2_swap_columns_1_0, Gen.C02.t_m2_swap_columns_1_1]]
/-- `Matrix2::swap_columns` at every in-range index tuple is the model's function, which returns -/
theorem kSwapColumns2_all (m : M2 K) (i0 i1 : Fin 2) :
    kSwapColumns2 i0 i1 (envL m.toList) = .ofPanic ((m.swapColumns? i0 i1).map M2.toList) ∧ (m.swapColumns? i0 i1).isSome := by
  fin_cases i0 <;> fin_cases i1
  · exact C02Idx.t_m2_swap_columns_0_0 m
  · exact C02Idx.t_m2_swap_columns_0_1 m
  · exact C02Idx.t_m2_swap_columns_1_0 m
  · exact C02Idx.t_m2_swap_columns_1_1 m

/-- the `Matrix2::swap_elements` kernels by index tuple -/
def kSwapElements2 : Fin 2 → Fin 2 → Fin 2 → Fin 2 → (Nat → K) → Tr K :=
  ![![![![Gen.C02.t_m2_swap_elements_00_00, Gen.C02.t_m2_swap_elements_00_01], ![Gen.C02.t_m2_swap_elements_00_10, Gen.C02.t_m2_swap_elements_00_11]], ![![Gen.C02.t_m2_swap_elements_01_00, Gen.C02.t_m2_swap_elements_01_01], ![Gen.C02.t_m2_swap_elements_01_10, Gen.C02.t_m2_swap_elements_01_11]]], ![![![Gen.C02.t_m2_swap_elements_10_00, Gen.C02.t_m2_swap_elements_10_01], ![Gen.C02.t_m2_swap_elements_10_10, Gen.C02.t_m2_swap_elements_10_11]], ![![Gen.C02.t_m2_swap_elements_11_00, Gen.C02.t_m2_swap_elements_11_01], ![Gen.C02.t_m2_swap_elements_11_10, Gen.C02.t_m2_swap_elements_11_11]]]]
/-- `Matrix2::swap_elements` at every in-range index tuple is the model's function, which returns -/
theorem kSwapElements2_all (m : M2 K) (i0 i1 i2 i3 : Fin 2) :
    kSwapElements2 i0 i1 i2 i3 (envL m.toList) = .ofPanic ((m.swapElements? i0 i1 i2 i3).map M2.toList) ∧ (m.swapElements? i0 i1 i2 i3).isSome := by
  fin_cases i0 <;> fin_cases i1 <;> fin_cases i2 <;> fin_cases i3
  · exact C02Idx.t_m2_swap_elements_00_00 m
  · exact C02Idx.t_m2_swap_elements_00_01 m
  · exact C02Idx.t_m2_swap_elements_00_10 m
  · exact C02Idx.t_m2_swap_elements_00_11 m
  · exact C02Idx.t_m2_swap_elements_01_00 m
  · exact C02Idx.t_m2_swap_elements_01_01 m
  · exact C02Idx.t_m2_swap_elements_01_10 m
  · exact C02Idx.t_m2_swap_elements_01_11 m
  · exact C02Idx.t_m2_swap_elements_10_00 m
  · exact C02Idx.t_m2_swap_elements_10_01 m
  · exact C02Idx.t_m2_swap_elements_10_10 m
  · exact C02Idx.t_m2_swap_elements_10_11 m
  · exact C02Idx.t_m2_swap_elements_11_00 m
  · exact C02Idx.t_m2_swap_elements_11_01 m
  · exact C02Idx.t_m2_swap_elements_11_10 m
  · exact C02Idx.t_m2_swap_elements_11_11 m

/-- the `Matrix2::replace_col` kernels by index tuple -/
def kReplaceCol2 : Fin 2 → (Nat → K) → Tr K :=
  ![Gen.C02.t_m2_replace_col_0, Gen.C02.t_m2_replace_col_1]
/-- `Matrix2::replace_col` at every in-range index tuple is the model's function, which returns -/
theorem kReplaceCol2_all (m : M2 K) (u : V2 K) (i0 : Fin 2) :
    kReplaceCol2 i0 (envL (m.toList ++ u.toList)) = .ofPanic ((m.replaceCol? i0 u).map fun (m', o) => m'.toList ++ o.toList) ∧ (m.replaceCol? i0 u).isSome := by
  fin_cases i0
  · exact ⟨(C02Idx.t_m2_replace_col_0 m u).1, by rw [(C02Idx.t_m2_replace_col_0 m u).2]; rfl⟩
  · exact ⟨(C02Idx.t_m2_replace_col_1 m u).1, by rw [(C02Idx.t_m2_replace_col_1 m u).2]; rfl⟩

/-- `swap_elements((ac, ar), (bc, br))` as traced exchanges the flat (column-major) positions `2*ac+ar` and `2*bc+br`
of the matrix and nothing else, for every in-range tuple -/
theorem swap_elements_m2_flat (m : M2 K) (ac ar bc br : Fin 2) :
    kSwapElements2 ac ar bc br (envL m.toList) =
      .okS (Cg.C02.swapList m.toList (2 * ac.val + ar.val) (2 * bc.val + br.val)) := by
  rw [(kSwapElements2_all m ac ar bc br).1, Cg.C02.M2.swapElements_spec]; rfl
/-- `swap_rows(a, b)` as traced returns a matrix whose entry `(c, r)` is the input's entry `(c, swap a b r)` -/
theorem swap_rows_m2_get (m : M2 K) (a b c r : Fin 2) :
    ∃ m' : M2 K, kSwapRows2 a b (envL m.toList) = .okS m'.toList ∧ m'.get? c r = m.get? c (Equiv.swap a b r) := by
  obtain ⟨h1, h2⟩ := kSwapRows2_all m a b
  obtain ⟨m', hm⟩ := Option.isSome_iff_exists.mp h2
  refine ⟨m', by rw [h1, hm]; rfl, ?_⟩
  have h := Cg.C02.M2.swapRows_spec m a b c r
  rw [hm] at h; simpa using h
/-- `swap_columns(a, b)` as traced returns a matrix whose entry `(c, r)` is the input's entry `(swap a b c, r)` -/
theorem swap_columns_m2_get (m : M2 K) (a b c r : Fin 2) :
    ∃ m' : M2 K, kSwapColumns2 a b (envL m.toList) = .okS m'.toList ∧ m'.get? c r = m.get? (Equiv.swap a b c) r := by
  obtain ⟨h1, h2⟩ := kSwapColumns2_all m a b
  obtain ⟨m', hm⟩ := Option.isSome_iff_exists.mp h2
  refine ⟨m', by rw [h1, hm]; rfl, ?_⟩
  have h := Cg.C02.M2.swapColumns_spec m a b c r
  rw [hm] at h; simpa using h
/-- `replace_col(c, u)` as traced returns the matrix with column `c` replaced by `u`, followed by the old column `c` -/
theorem replace_col_m2_cols (m : M2 K) (u : V2 K) (c : Fin 2) :
    ∃ m' : M2 K, kReplaceCol2 c (envL (m.toList ++ u.toList)) = .okS (m'.toList ++ (m.cols[c.val]'(by simp [M2.cols]; omega)).toList) ∧
      m'.cols = m.cols.set c u := by
  obtain ⟨m', hm, hc⟩ := Cg.C02.M2.replaceCol_spec m c u
  exact ⟨m', by rw [(kReplaceCol2_all m u c).1, hm]; rfl, hc⟩
/-- `transpose_self` as traced is `transpose` -/
theorem transpose_self_m2 (m : M2 K) : Gen.C02.t_m2_transpose_self (envL m.toList) = .okS m.transpose.toList := by
  rw [(C02Idx.t_m2_transpose_self m).1, (C02Idx.t_m2_transpose_self m).2]; rfl

/-- the `Matrix3::swap_rows` kernels by index tuple -/
def kSwapRows3 : Fin 3 → Fin 3 → (Nat → K) → Tr K :=
  ![![Gen.C02.t_m3_swap_rows_0_0, Gen.C02.t_m3_swap_rows_0_1, Gen.C02.t_m3_swap_rows_0_2], ![Gen.C02.t_m3_swap_rows_1_0, Gen.C02.t_m3_swap_rows_1_1, Gen.C02.t_m3_swap_rows_1_2], ![Gen.C02.t_m3_swap_rows_2_0, Gen.C02.t_m3_swap_rows_2_1, Gen.C02.t_m3_swap_rows_2_2]]
/-- `Matrix3::swap_rows` at every in-range index tuple is the model's function, which returns -/
theorem kSwapRows3_all (m : M3 K) (i0 i1 : Fin 3) :
    kSwapRows3 i0 i1 (envL m.toList) = .ofPanic ((m.swapRows? i0 i1).map M3.toList) ∧ (m.swapRows? i0 i1).isSome := by
  fin_cases i0 <;> fin_cases i1
  · exact C02Idx.t_m3_swap_rows_0_0 m
  · exact C02Idx.t_m3_swap_rows_0_1 m
  · exact C02Idx.t_m3_swap_rows_0_2 m
  · exact C02Idx.t_m3_swap_rows_1_0 m
  · exact C02Idx.t_m3_swap_rows_1_1 m
  · exact C02Idx.t_m3_swap_rows_1_2 m
  · exact C02Idx.t_m3_swap_rows_2_0 m
  · exact C02Idx.t_m3_swap_rows_2_1 m
  · exact C02Idx.t_m3_swap_rows_2_2 m

/-- the `Matrix3::swap_columns` kernels by index tuple -/
def kSwapColumns3 : Fin 3 → Fin 3 → (Nat → K) → Tr K :=
  ![![Gen.C02.t_m3_swap_columns_0_0, Gen.C02.t_m3_swap_columns_0_1, Gen.C02.t_m3_swap_columns_0_2], ![Gen.C02.t_m3_swap_columns_1_0, Gen.C02.t_m3_swap_columns_1_1, Gen.C02.t_m3_swap_columns_1_2], ![Gen.C02.t_m3_swap_columns_2_0, Gen.C02.t_m3_swap_columns_2_1, Gen.C02.t_m3_swap_columns_2_2]]
/-- `Matrix3::swap_columns` at every in-range index tuple is the model's function, which returns -/
theorem kSwapColumns3_all (m : M3 K) (i0 i1 : Fin 3) :
    kSwapColumns3 i0 i1 (envL m.toList) = .ofPanic ((m.swapColumns? i0 i1).map M3.toList) ∧ (m.swapColumns? i0 i1).isSome := by
  fin_cases i0 <;> fin_cases i1
  · exact C02Idx.t_m3_swap_columns_0_0 m
  · exact C02Idx.t_m3_swap_columns_0_1 m
  · exact C02Idx.t_m3_swap_columns_0_2 m
  · exact C02Idx.t_m3_swap_columns_1_0 m
  · exact C02Idx.t_m3_swap_columns_1_1 m
  · exact C02Idx.t_m3_swap_columns_1_2 m
  · exact C02Idx.t_m3_swap_columns_2_0 m
  · exact C02Idx.t_m3_swap_columns_2_1 m
  · exact C02Idx.t_m3_swap_columns_2_2 m

/-- the `Matrix3::swap_elements` kernels by index tuple -/
def kSwapElements3 : Fin 3 → Fin 3 → Fin 3 → Fin 3 → (Nat → K) → Tr K :=
  ![![![![Gen.C02.t_m3_swap_elements_00_00, Gen.C02.t_m3_swap_elements_00_01, Gen.C02.t_m3_swap_elements_00_02], ![Gen.C02.t_m3_swap_elements_00_10, Gen.C02.t_m3_swap_elements_00_11, Gen.C02.t_m3_swap_elements_00_12], ![Gen.C02.t_m3_swap_elements_00_20, Gen.C02.t_m3_swap_elements_00_21, Gen.C02.t_m3_swap_elements_00_22]], ![![Gen.C02.t_m3_swap_elements_01_00, Gen.C02.t_m3_swap_elements_01_01, Gen.C02.t_m3_swap_elements_01_02], ![Gen.C02.t_m3_swap_elements_01_10, Gen.C02.t_m3_swap_elements_01_11, Gen.C02.t_m3_swap_elements_01_12], ![Gen.C02.t_m3_swap_elements_01_20, Gen.C02.t_m3_swap_elements_01_21, Gen.C02.t_m3_swap_elements_01_22]], ![![Gen.C02.t_m3_swap_elements_02_00, Gen.C02.t_m3_swap_elements_02_01, Gen.C02.t_m3_swap_elements_02_02], ![Gen.C02.t_m3_swap_elements_02_10, Gen.C02.t_m3_swap_elements_02_11, Gen.C02.t_m3_swap_elements_02_12], ![Gen.C02.t_m3_swap_elements_02_20, Gen.C02.t_m3_swap_elements_02_21, Gen.C02.t_m3_swap_elements_02_22]]], ![![![Gen.C02.t_m3_swap_elements_10_00, Gen.C02.t_m3_swap_elements_10_01, Gen.C02.t_m3_swap_elements_10_02], ![Gen.C02.t_m3_swap_elements_10_10, Gen.C02.t_m3_swap_elements_10_11, Gen.C02.t_m3_swap_elements_10_12], ![Gen.C02.t_m3_swap_elements_10_20, Gen.C02.t_m3_swap_elements_10_21, Gen.C02.t_m3_swap_elements_10_22]], ![![Gen.C02.t_m3_swap_elements_11_00, Gen.C02.t_m3_swap_elements_11_01, Gen.C02.t_m3_swap_elements_11_02], ![Gen.C02.t_m3_swap_elements_11_10, Gen.C02.t_m3_swap_elements_11_11, Gen.C02.t_m3_swap_elements_11_12], ![Gen.C02.t_m3_swap_elements_11_20, Gen.C02.t_m3_swap_elements_11_21, Gen.C02.t_m3_swap_elements_11_22]], ![![Gen.C02.t_m3_swap_elements_12_00, Gen.C02.t_m3_swap_elements_12_01, Gen.C02.t_m3_swap_elements_12_02], ![Gen.C02.t_m3_swap_elements_12_10, Gen.C02.t_m3_swap_elements_12_11, Gen.C02.t_m3_swap_elements_12_12], ![Gen.C02.t_m3_swap_elements_12_20, Gen.C02.t_m3_swap_elements_12_21, Gen.C02.t_m3_swap_elements_12_22]]], ![![![Gen.C02.t_m3_swap_elements_20_00, Gen.C02.t_m3_swap_elements_20_01, Gen.C02.t_m3_swap_elements_20_02], ![Gen.C02.t_m3_swap_elements_20_10, Gen.C02.t_m3_swap_elements_20_11, Gen.C02.t_m3_swap_elements_20_12], ![Gen.C02.t_m3_swap_elements_20_20, Gen.C02.t_m3_swap_elements_20_21, Gen.C02.t_m3_swap_elements_20_22]], ![![Gen.C02.t_m3_swap_elements_21_00, Gen.C02.t_m3_swap_elements_21_01, Gen.C02.t_m3_swap_elements_21_02], ![Gen.C02.t_m3_swap_elements_21_10, Gen.C02.t_m3_swap_elements_21_11, Gen.C02.t_m3_swap_elements_21_12], ![Gen.C02.t_m3_swap_elements_21_20, Gen.C02.t_m3_swap_elements_21_21, Gen.C02.t_m3_swap_elements_21_22]], ![![Gen.C02.t_m3_swap_elements_22_00, Gen.C02.t_m3_swap_elements_22_01, Gen.C02.t_m3_swap_elements_22_02], ![Gen.C02.t_m3_swap_elements_22_10, Gen.C02.t_m3_swap_elements_22_11, Gen.C02.t_m3_swap_elements_22_12], ![Gen.C02.t_m3_swap_elements_22_20, Gen.C02.t_m3_swap_elements_22_21, Gen.C02.t_m3_swap_elements_22_22]]]]
/-- `Matrix3::swap_elements` at every in-range index tuple is the model's function, which returns -/
theorem kSwapElements3_all (m : M3 K) (i0 i1 i2 i3 : Fin 3) :
    kSwapElements3 i0 i1 i2 i3 (envL m.toList) = .ofPanic ((m.swapElements? i0 i1 i2 i3).map M3.toList) ∧ (m.swapElements? i0 i1 i2 i3).isSome := by
  fin_cases i0 <;> fin_cases i1 <;> fin_cases i2 <;> fin_cases i3
  · exact C02Idx.t_m3_swap_elements_00_00 m
  · exact C02Idx.t_m3_swap_elements_00_01 m
  · exact C02Idx.t_m3_swap_elements_00_02 m
  · exact C02Idx.t_m3_swap_elements_00_10 m
  · exact C02Idx.t_m3_swap_elements_00_11 m
  · exact C02Idx.t_m3_swap_elements_00_12 m
  · exact C02Idx.t_m3_swap_elements_00_20 m
  · exact C02Idx.t_m3_swap_elements_00_21 m
  · exact C02Idx.t_m3_swap_elements_00_22 m
  · exact C02Idx.t_m3_swap_elements_01_00 m
  · exact C02Idx.t_m3_swap_elements_01_01 m
  · exact C02Idx.t_m3_swap_elements_01_02 m
  · exact C02Idx.t_m3_swap_elements_01_10 m
  · exact C02Idx.t_m3_swap_elements_01_11 m
  · exact C02Idx.t_m3_swap_elements_01_12 m
  · exact C02Idx.t_m3_swap_elements_01_20 m
  · exact C02Idx.t_m3_swap_elements_01_21 m
  · exact C02Idx.t_m3_swap_elements_01_22 m
  · exact C02Idx.t_m3_swap_elements_02_00 m
  · exact C02Idx.t_m3_swap_elements_02_01 m
  · exact C02Idx.t_m3_swap_elements_02_02 m
  · exact C02Idx.t_m3_swap_elements_02_10 m
  · exact C02Idx.t_m3_swap_elements_02_11 m
  · exact C02Idx.t_m3_swap_elements_02_12 m
  · exact C02Idx.t_m3_swap_elements_02_20 m
  · exact C02Idx.t_m3_swap_elements_02_21 m
  · exact C02Idx.t_m3_swap_elements_02_22 m
  · exact C02Idx.t_m3_swap_elements_10_00 m
  · exact C02Idx.t_m3_swap_elements_10_01 m
  · exact C02Idx.t_m3_swap_elements_10_02 m
  · exact C02Idx.t_m3_swap_elements_10_10 m
  · exact C02Idx.t_m3_swap_elements_10_11 m
  · exact C02Idx.t_m3_swap_elements_10_12 m
  · exact C02Idx.t_m3_swap_elements_10_20 m
  · exact C02Idx.t_m3_swap_elements_10_21 m
  · exact C02Idx.t_m3_swap_elements_10_22 m
  · exact C02Idx.t_m3_swap_elements_11_00 m
  · exact C02Idx.t_m3_swap_elements_11_01 m
  · exact C02Idx.t_m3_swap_elements_11_02 m
  · exact C02Idx.t_m3_swap_elements_11_10 m
  · exact C02Idx.t_m3_swap_elements_11_11 m
  · exact C02Idx.t_m3_swap_elements_11_12 m
  · exact C02Idx.t_m3_swap_elements_11_20 m
  · exact C02Idx.t_m3_swap_elements_11_21 m
  · exact C02Idx.t_m3_swap_elements_11_22 m
  · exact C02Idx.t_m3_swap_elements_12_00 m
  · exact C02Idx.t_m3_swap_elements_12_01 m
  · exact C02Idx.t_m3_swap_elements_12_02 m
  · exact C02Idx.t_m3_swap_elements_12_10 m
  · exact C02Idx.t_m3_swap_elements_12_11 m
  · exact C02Idx.t_m3_swap_elements_12_12 m
  · exact C02Idx.t_m3_swap_elements_12_20 m
  · exact C02Idx.t_m3_swap_elements_12_21 m
  · exact C02Idx.t_m3_swap_elements_12_22 m
  · exact C02Idx.t_m3_swap_elements_20_00 m
  · exact C02Idx.t_m3_swap_elements_20_01 m
  · exact C02Idx.t_m3_swap_elements_20_02 m
  · exact C02Idx.t_m3_swap_elements_20_10 m
  · exact C02Idx.t_m3_swap_elements_20_11 m
  · exact C02Idx.t_m3_swap_elements_20_12 m
  · exact C02Idx.t_m3_swap_elements_20_20 m
  · exact C02Idx.t_m3_swap_elements_20_21 m
  · exact C02Idx.t_m3_swap_elements_20_22 m
  · exact C02Idx.t_m3_swap_elements_21_00 m
  · exact C02Idx.t_m3_swap_elements_21_01 m
  · exact C02Idx.t_m3_swap_elements_21_02 m
  · exact C02Idx.t_m3_swap_elements_21_10 m
  · exact C02Idx.t_m3_swap_elements_21_11 m
  · exact C02Idx.t_m3_swap_elements_21_12 m
  · exact C02Idx.t_m3_swap_elements_21_20 m
  · exact C02Idx.t_m3_swap_elements_21_21 m
  · exact C02Idx.t_m3_swap_elements_21_22 m
  · exact C02Idx.t_m3_swap_elements_22_00 m
  · exact C02Idx.t_m3_swap_elements_22_01 m
  · exact C02Idx.t_m3_swap_elements_22_02 m
  · exact C02Idx.t_m3_swap_elements_22_10 m
  · exact C02Idx.t_m3_swap_elements_22_11 m
  · exact C02Idx.t_m3_swap_elements_22_12 m
  · exact C02Idx.t_m3_swap_elements_22_20 m
  · exact C02Idx.t_m3_swap_elements_22_21 m
  · exact C02Idx.t_m3_swap_elements_22_22 m

/-- the `Matrix3::replace_col` kernels by index tuple -/
def kReplaceCol3 : Fin 3 → (Nat → K) → Tr K :=
  ![Gen.C02.t_m3_replace_col_0, Gen.C02.t_m3_replace_col_1, Gen.C02.t_m3_replace_col_2]
/-- `Matrix3::replace_col` at every in-range index tuple is the model's function, which returns -/
theorem kReplaceCol3_all (m : M3 K) (u : V3 K) (i0 : Fin 3) :
    kReplaceCol3 i0 (envL (m.toList ++ u.toList)) = .ofPanic ((m.replaceCol? i0 u).map fun (m', o) => m'.toList ++ o.toList) ∧ (m.replaceCol? i0 u).isSome := by
  fin_cases i0
  · exact ⟨(C02Idx.t_m3_replace_col_0 m u).1, by rw [(C02Idx.t_m3_replace_col_0 m u).2]; rfl⟩
  · exact ⟨(C02Idx.t_m3_replace_col_1 m u).1, by rw [(C02Idx.t_m3_replace_col_1 m u).2]; rfl⟩
  · exact ⟨(C02Idx.t_m3_replace_col_2 m u).1, by rw [(C02Idx.t_m3_replace_col_2 m u).2]; rfl⟩

/-- `swap_elements((ac, ar), (bc, br))` as traced exchanges the flat (column-major) positions `3*ac+ar` and `3*bc+br`
of the matrix and nothing else, for every in-range tuple -/
theorem swap_elements_m3_flat (m : M3 K) (ac ar bc br : Fin 3) :
    kSwapElements3 ac ar bc br (envL m.toList) =
      .okS (Cg.C02.swapList m.toList (3 * ac.val + ar.val) (3 * bc.val + br.val)) := by
  rw [(kSwapElements3_all m ac ar bc br).1, Cg.C02.M3.swapElements_spec]; rfl
/-- `swap_rows(a, b)` as traced returns a matrix whose entry `(c, r)` is the input's entry `(c, swap a b r)` -/
theorem swap_rows_m3_get (m : M3 K) (a b c r : Fin 3) :
    ∃ m' : M3 K, kSwapRows3 a b (envL m.toList) = .okS m'.toList ∧ m'.get? c r = m.get? c (Equiv.swap a b r) := by
  obtain ⟨h1, h2⟩ := kSwapRows3_all m a b
  obtain ⟨m', hm⟩ := Option.isSome_iff_exists.mp h2
  refine ⟨m', by rw [h1, hm]; rfl, ?_⟩
  have h := Cg.C02.M3.swapRows_spec m a b c r
  rw [hm] at h; simpa using h
/-- `swap_columns(a, b)` as traced returns a matrix whose entry `(c, r)` is the input's entry `(swap a b c, r)` -/
theorem swap_columns_m3_get (m : M3 K) (a b c r : Fin 3) :
    ∃ m' : M3 K, kSwapColumns3 a b (envL m.toList) = .okS m'.toList ∧ m'.get? c r = m.get? (Equiv.swap a b c) r := by
  obtain ⟨h1, h2⟩ := kSwapColumns3_all m a b
  obtain ⟨m', hm⟩ := Option.isSome_iff_exists.mp h2
  refine ⟨m', by rw [h1, hm]; rfl, ?_⟩
  have h := Cg.C02.M3.swapColumns_spec m a b c r
  rw [hm] at h; simpa using h
/-- `replace_col(c, u)` as traced returns the matrix with column `c` replaced by `u`, followed by the old column `c` -/
theorem replace_col_m3_cols (m : M3 K) (u : V3 K) (c : Fin 3) :
    ∃ m' : M3 K, kReplaceCol3 c (envL (m.toList ++ u.toList)) = .okS (m'.toList ++ (m.cols[c.val]'(by simp [M3.cols])).toList) ∧
      m'.cols = m.cols.set c u := by
  obtain ⟨m', hm, hc⟩ := Cg.C02.M3.replaceCol_spec m c u
  exact ⟨m', by rw [(kReplaceCol3_all m u c).1, hm]; rfl, hc⟩
/-- `transpose_self` as traced is `transpose` -/
theorem transpose_self_m3 (m : M3 K) : Gen.C02.t_m3_transpose_self (envL m.toList) = .okS m.transpose.toList := by
  rw [(C02Idx.t_m3_transpose_self m).1, (C02Idx.t_m3_transpose_self m).2]; rfl

/-- the `Matrix4::swap_rows` kernels by index tuple -/
def kSwapRows4 : Fin 4 → Fin 4 → (Nat → K) → Tr K :=
  ![![Gen.C02.t_m4_swap_rows_0_0, Gen.C02.t_m4_swap_rows_0_1, Gen.C02.t_m4_swap_rows_0_2, Gen.C02.t_m4_swap_rows_0_3], ![Gen.C02.t_m4_swap_rows_1_0, Gen.C02.t_m4_swap_rows_1_1, Gen.C02.t_m4_swap_rows_1_2, Gen.C02.t_m4_swap_rows_1_3], ![Gen.C02.t_m4_swap_rows_2_0, Gen.C02.t_m4_swap_rows_2_1, Gen.C02.t_m4_swap_rows_2_2, Gen.C02.t_m4_swap_rows_2_3], ![Gen.C02.t_m4_swap_rows_3_0, Gen.C02.t_m4_swap_rows_3_1, Gen.C02.t_m4_swap_rows_3_2, Gen.C02.t_m4_swap_rows_3_3]]
/-- `Matrix4::swap_rows` at every in-range index tuple is the model's function, which returns -/
theorem kSwapRows4_all (m : M4 K) (i0 i1 : Fin 4) :
    kSwapRows4 i0 i1 (envL m.toList) = .ofPanic ((m.swapRows? i0 i1).map M4.toList) ∧ (m.swapRows? i0 i1).isSome := by
  fin_cases i0 <;> fin_cases i1
  · exact C02Idx.t_m4_swap_rows_0_0 m
  · exact C02Idx.t_m4_swap_rows_0_1 m
  · exact C02Idx.t_m4_swap_rows_0_2 m
  · exact C02Idx.t_m4_swap_rows_0_3 m
  · exact C02Idx.t_m4_swap_rows_1_0 m
  · exact C02Idx.t_m4_swap_rows_1_1 m
  · exact C02Idx.t_m4_swap_rows_1_2 m
  · exact C02Idx.t_m4_swap_rows_1_3 m
  · exact C02Idx.t_m4_swap_rows_2_0 m
  · exact C02Idx.t_m4_swap_rows_2_1 m
  · exact C02Idx.t_m4_swap_rows_2_2 m
  · exact C02Idx.t_m4_swap_rows_2_3 m
  · exact C02Idx.t_m4_swap_rows_3_0 m
  · exact C02Idx.t_m4_swap_rows_3_1 m
  · exact C02Idx.t_m4_swap_rows_3_2 m
  · exact C02Idx.t_m4_swap_rows_3_3 m

/-- the `Matrix4::swap_columns` kernels by index tuple -/
def kSwapColumns4 : Fin 4 → Fin 4 → (Nat → K) → Tr K :=
  ![![Gen.C02.t_m4_swap_columns_0_0, Gen.C02.t_m4_swap_columns_0_1, Gen.C02.t_m4_swap_columns_0_2, Gen.C02.t_m4_swap_columns_0_3], ![Gen.C02.t_m4_swap_columns_1_0, Gen.C02.t_m4_swap_columns_1_1, Gen.C02.t_m4_swap_columns_1_2, Gen.C02.t_m4_swap_columns_1_3], ![Gen.C02.t_m4_swap_columns_2_0, Gen.C02.t_m4_swap_columns_2_1, Gen.C02.t_m4_swap_columns_2_2, Gen.C02.t_m4_swap_columns_2_3], ![Gen.C02.t_m4_swap_columns_3_0, Gen.C02.t_m4_swap_columns_3_1, Gen.C02.t_m4_swap_columns_3_2, Gen.C02.t_m4_swap_columns_3_3]]
/-- `Matrix4::swap_columns` at every in-range index tuple is the model's function, which returns -/
theorem kSwapColumns4_all (m : M4 K) (i0 i1 : Fin 4) :
    kSwapColumns4 i0 i1 (envL m.toList) = .ofPanic ((m.swapColumns? i0 i1).map M4.toList) ∧ (m.swapColumns? i0 i1).isSome := by
  fin_cases i0 <;> fin_cases i1
  · exact C02Idx.t_m4_swap_columns_0_0 m
  · exact C02Idx.t_m4_swap_columns_0_1 m
  · exact C02Idx.t_m4_swap_columns_0_2 m
  · exact C02Idx.t_m4_swap_columns_0_3 m
  · exact C02Idx.t_m4_swap_columns_1_0 m
  · exact C02Idx.t_m4_swap_columns_1_1 m
  · exact C02Idx.t_m4_swap_columns_1_2 m
  · exact C02Idx.t_m4_swap_columns_1_3 m
  · exact C02Idx.t_m4_swap_columns_2_0 m
  · exact C02Idx.t_m4_swap_columns_2_1 m
  · exact C02Idx.t_m4_swap_columns_2_2 m
  · exact C02Idx.t_m4_swap_columns_2_3 m
  · exact C02Idx.t_m4_swap_columns_3_0 m
  · exact C02Idx.t_m4_swap_columns_3_1 m
  · exact C02Idx.t_m4_swap_columns_3_2 m
  · exact C02Idx.t_m4_swap_columns_3_3 m

/-- the `Matrix4::swap_elements` kernels by index tuple -/
def kSwapElements4 : Fin 4 → Fin 4 → Fin 4 → Fin 4 → (Nat → K) → Tr K :=
  ![![![![Gen.C02.t_m4_swap_elements_00_00, Gen.C02.t_m4_swap_elements_00_01, Gen.C02.t_m4_swap_elements_00_02, Gen.C02.t_m4_swap_elements_00_03], ![Gen.C02.t_m4_swap_elements_00_10, Gen.C02.t_m4_swap_elements_00_11, Gen.C02.t_m4_swap_elements_00_12, Gen.C02.t_m4_swap_elements_00_13], ![Gen.C02.t_m4_swap_elements_00_20, Gen.C02.t_m4_swap_elements_00_21, Gen.C02.t_m4_swap_elements_00_22, Gen.C02.t_m4_swap_elements_00_23], ![Gen.C02.t_m4_swap_elements_00_30, Gen.C02.t_m4_swap_elements_00_31, Gen.C02.t_m4_swap_elements_00_32, Gen.C02.t_m4_swap_elements_00_33]], ![![Gen.C02.t_m4_swap_elements_01_00, Gen.C02.t_m4_swap_elements_01_01, Gen.C02.t_m4_swap_elements_01_02, Gen.C02.t_m4_swap_elements_01_03], ![Gen.C02.t_m4_swap_elements_01_10, Gen.C02.t_m4_swap_elements_01_11, Gen.C02.t_m4_swap_elements_01_12, Gen.C02.t_m4_swap_elements_01_13], ![Gen.C02.t_m4_swap_elements_01_20, Gen.C02.t_m4_swap_elements_01_21, Gen.C02.t_m4_swap_elements_01_22, Gen.C02.t_m4_swap_elements_01_23], ![Gen.C02.t_m4_swap_elements_01_30, Gen.C02.t_m4_swap_elements_01_31, Gen.C02.t_m4_swap_elements_01_32, Gen.C02.t_m4_swap_elements_01_33]], ![![Gen.C02.t_m4_swap_elements_02_00, Gen.C02.t_m4_swap_elements_02_01, Gen.C02.t_m4_swap_elements_02_02, Gen.C02.t_m4_swap_elements_02_03], ![Gen.C02.t_m4_swap_elements_02_10, Gen.C02.t_m4_swap_elements_02_11, Gen.C02.t_m4_swap_elements_02_12, Gen.C02.t_m4_swap_elements_02_13], ![Gen.C02.t_m4_swap_elements_02_20, Gen.C02.t_m4_swap_elements_02_21, Gen.C02.t_m4_swap_elements_02_22, Gen.C02.t_m4_swap_elements_02_23], ![Gen.C02.t_m4_swap_elements_02_30, Gen.C02.t_m4_swap_elements_02_31, Gen.C02.t_m4_swap_elements_02_32, Gen.C02.t_m4_swap_elements_02_33]], ![![Gen.C02.t_m4_swap_elements_03_00, Gen.C02.t_m4_swap_elements_03_01, Gen.C02.t_m4_swap_elements_03_02, Gen.C02.t_m4_swap_elements_03_03], ![Gen.C02.t_m4_swap_elements_03_10, Gen.C02.t_m4_swap_elements_03_11, Gen.C02.t_m4_swap_elements_03_12, Gen.C02.t_m4_swap_elements_03_13], ![Gen.C02.t_m4_swap_elements_03_20, Gen.C02.t_m4_swap_elements_03_21, Gen.C02.t_m4_swap_elements_03_22, Gen.C02.t_m4_swap_elements_03_23], ![Gen.C02.t_m4_swap_elements_03_30, Gen.C02.t_m4_swap_elements_03_31, Gen.C02.t_m4_swap_elements_03_32, Gen.C02.t_m4_swap_elements_03_33]]], ![![![Gen.C02.t_m4_swap_elements_10_00, Gen.C02.t_m4_swap_elements_10_01, Gen.C02.t_m4_swap_elements_10_02, Gen.C02.t_m4_swap_elements_10_03], ![Gen.C02.t_m4_swap_elements_10_10, Gen.C02.t_m4_swap_elements_10_11, Gen.C02.t_m4_swap_elements_10_12, Gen.C02.t_m4_swap_elements_10_13], ![Gen.C02.t_m4_swap_elements_10_20, Gen.C02.t_m4_swap_elements_10_21, Gen.C02.t_m4_swap_elements_10_22, Gen.C02.t_m4_swap_elements_10_23], ![Gen.C02.t_m4_swap_elements_10_30, Gen.C02.t_m4_swap_elements_10_31, Gen.C02.t_m4_swap_elements_10_32, Gen.C02.t_m4_swap_elements_10_33]], ![![Gen.C02.t_m4_swap_elements_11_00, Gen.C02.t_m4_swap_elements_11_01, Gen.C02.t_m4_swap_elements_11_02, Gen.C02.t_m4_swap_elements_11_03], ![Gen.C02.t_m4_swap_elements_11_10, Gen.C02.t_m4_swap_elements_11_11, Gen.C02.t_m4_swap_elements_11_12, Gen.C02.t_m4_swap_elements_11_13], ![Gen.C02.t_m4_swap_elements_11_20, Gen.C02.t_m4_swap_elements_11_21, Gen.C02.t_m4_swap_elements_11_22, Gen.C02.t_m4_swap_elements_11_23], ![Gen.C02.t_m4_swap_elements_11_30, Gen.C02.t_m4_swap_elements_11_31, Gen.C02.t_m4_swap_elements_11_32, Gen.C02.t_m4_swap_elements_11_33]], ![![Gen.C02.t_m4_swap_elements_12_00, Gen.C02.t_m4_swap_elements_12_01, Gen.C02.t_m4_swap_elements_12_02, Gen.C02.t_m4_swap_elements_12_03], ![Gen.C02.t_m4_swap_elements_12_10, Gen.C02.t_m4_swap_elements_12_11, Gen.C02.t_m4_swap_elements_12_12, Gen.C02.t_m4_swap_elements_12_13], ![Gen.C02.t_m4_swap_elements_12_20, Gen.C02.t_m4_swap_elements_12_21, Gen.C02.t_m4_swap_elements_12_22, Gen.C02.t_m4_swap_elements_12_23], ![Gen.C02.t_m4_swap_elements_12_30, Gen.C02.t_m4_swap_elements_12_31, Gen.C02.t_m4_swap_elements_12_32, Gen.C02.t_m4_swap_elements_12_33]], ![![Gen.C02.t_m4_swap_elements_13_00, Gen.C02.t_m4_swap_elements_13_01, Gen.C02.t_m4_swap_elements_13_02, Gen.C02.t_m4_swap_elements_13_03], ![Gen.C02.t_m4_swap_elements_13_10, Gen.C02.t_m4_swap_elements_13_11, Gen.C02.t_m4_swap_elements_13_12, Gen.C02.t_m4_swap_elements_13_13], ![Gen.C02.t_m4_swap_elements_13_20, Gen.C02.t_m4_swap_elements_13_21, Gen.C02.t_m4_swap_elements_13_22, Gen.C02.t_m4_swap_elements_13_23], ![Gen.C02.t_m4_swap_elements_13_30, Gen.C02.t_m4_swap_elements_13_31, Gen.C02.t_m4_swap_elements_13_32, Gen.C02.t_m4_swap_elements_13_33]]], ![![![Gen.C02.t_m4_swap_elements_20_00, Gen.C02.t_m4_swap_elements_20_01, Gen.C02.t_m4_swap_elements_20_02, Gen.C02.t_m4_swap_elements_20_03], ![Gen.C02.t_m4_swap_elements_20_10, Gen.C02.t_m4_swap_elements_20_11, Gen.C02.t_m4_swap_elements_20_12, Gen.C02.t_m4_swap_elements_20_13], ![Gen.C02.t_m4_swap_elements_20_20, Gen.C02.t_m4_swap_elements_20_21, Gen.C02.t_m4_swap_elements_20_22, Gen.C02.t_m4_swap_elements_20_23], ![Gen.C02.t_m4_swap_elements_20_30, Gen.C02.t_m4_swap_elements_20_31, Gen.C02.t_m4_swap_elements_20_32, Gen.C02.t_m4_swap_elements_20_33]], ![![Gen.C02.t_m4_swap_elements_21_00, Gen.C02.t_m4_swap_elements_21_01, Gen.C02.t_m4_swap_elements_21_02, Gen.C02.t_m4_swap_elements_21_03], ![Gen.C02.t_m4_swap_elements_21_10, Gen.C02.t_m4_swap_elements_21_11, Gen.C02.t_m4_swap_elements_21_12, Gen.C02.t_m4_swap_elements_21_13], ![Gen.C02.t_m4_swap_elements_21_20, Gen.C02.t_m4_swap_elements_21_21, Gen.C02.t_m4_swap_elements_21_22, Gen.C02.t_m4_swap_elements_21_23], ![Gen.C02.t_m4_swap_elements_21_30, Gen.C02.t_m4_swap_elements_21_31, Gen.C02.t_m4_swap_elements_21_32, Gen.C02.t_m4_swap_elements_21_33]], ![![Gen.C02.t_m4_swap_elements_22_00, Gen.C02.t_m4_swap_elements_22_01, Gen.C02.t_m4_swap_elements_22_02, Gen.C02.t_m4_swap_elements_22_03], ![Gen.C02.t_m4_swap_elements_22_10, Gen.C02.t_m4_swap_elements_22_11, Gen.C02.t_m4_swap_elements_22_12, Gen.C02.t_m4_swap_elements_22_13], ![Gen.C02.t_m4_swap_elements_22_20, Gen.C02.t_m4_swap_elements_22_21, Gen.C02.t_m4_swap_elements_22_22, Gen.C02.t_m4_swap_elements_22_23], ![Gen.C02.t_m4_swap_elements_22_30, Gen.C02.t_m4_swap_elements_22_31, Gen.C02.t_m4_swap_elements_22_32, Gen.C02.t_m4_swap_elements_22_33]], ![![Gen.C02.t_m4_swap_elements_23_00, Gen.C02.t_m4_swap_elements_23_01, Gen.C02.t_m4_swap_elements_23_02, Gen.C02.t_m4_swap_elements_23_03], ![Gen.C02.t_m4_swap_elements_23_10, Gen.C02.t_m4_swap_elements_23_11, Gen.C02.t_m4_swap_elements_23_12, Gen.C02.t_m4_swap_elements_23_13], ![Gen.C02.t_m4_swap_elements_23_20, Gen.C02.t_m4_swap_elements_23_21, Gen.C02.t_m4_swap_elements_23_22, Gen.C02.t_m4_swap_elements_23_23], ![Gen.C02.t_m4_swap_elements_23_30, Gen.C02.t_m4_swap_elements_23_31, Gen.C02.t_m4_swap_elements_23_32, Gen.C02.t_m4_swap_elements_23_33]]], ![![![Gen.C02.t_m4_swap_elements_30_00, Gen.C02.t_m4_swap_elements_30_01, Gen.C02.t_m4_swap_elements_30_02, Gen.C02.t_m4_swap_elements_30_03], ![Gen.C02.t_m4_swap_elements_30_10, Gen.C02.t_m4_swap_elements_30_11, Gen.C02.t_m4_swap_elements_30_12, Gen.C02.t_m4_swap_elements_30_13], ![Gen.C02.t_m4_swap_elements_30_20, Gen.C02.t_m4_swap_elements_30_21, Gen.C02.t_m4_swap_elements_30_22, Gen.C02.t_m4_swap_elements_30_23], ![Gen.C02.t_m4_swap_elements_30_30, Gen.C02.t_m4_swap_elements_30_31, Gen.C02.t_m4_swap_elements_30_32, Gen.C02.t_m4_swap_elements_30_33]], ![![Gen.C02.t_m4_swap_elements_31_00, Gen.C02.t_m4_swap_elements_31_01, Gen.C02.t_m4_swap_elements_31_02, Gen.C02.t_m4_swap_elements_31_03], ![Gen.C02.t_m4_swap_elements_31_10, Gen.C02.t_m4_swap_elements_31_11, Gen.C02.t_m4_swap_elements_31_12, Gen.C02.t_m4_swap_elements_31_13], ![Gen.C02.t_m4_swap_elements_31_20, Gen.C02.t_m4_swap_elements_31_21, Gen.C02.t_m4_swap_elements_31_22, Gen.C02.t_m4_swap_elements_31_23], ![Gen.C02.t_m4_swap_elements_31_30, Gen.C02.t_m4_swap_elements_31_31, Gen.C02.t_m4_swap_elements_31_32, Gen.C02.t_m4_swap_elements_31_33]], ![![Gen.C02.t_m4_swap_elements_32_00, Gen.C02.t_m4_swap_elements_32_01, Gen.C02.t_m4_swap_elements_32_02, Gen.C02.t_m4_swap_elements_32_03], ![Gen.C02.t_m4_swap_elements_32_10, Gen.C02.t_m4_swap_elements_32_11, Gen.C02.t_m4_swap_elements_32_12, Gen.C02.t_m4_swap_elements_32_13], ![Gen.C02.t_m4_swap_elements_32_20, Gen.C02.t_m4_swap_elements_32_21, Gen.C02.t_m4_swap_elements_32_22, Gen.C02.t_m4_swap_elements_32_23], ![Gen.C02.t_m4_swap_elements_32_30, Gen.C02.t_m4_swap_elements_32_31, Gen.C02.t_m4_swap_elements_32_32, Gen.C02.t_m4_swap_elements_32_33]], ![![Gen.C02.t_m4_swap_elements_33_00, Gen.C02.t_m4_swap_elements_33_01, Gen.C02.t_m4_swap_elements_33_02, Gen.C02.t_m4_swap_elements_33_03], ![Gen.C02.t_m4_swap_elements_33_10, Gen.C02.t_m4_swap_elements_33_11, Gen.C02.t_m4_swap_elements_33_12, Gen.C02.t_m4_swap_elements_33_13], ![Gen.C02.t_m4_swap_elements_33_20, Gen.C02.t_m4_swap_elements_33_21, Gen.C02.t_m4_swap_elements_33_22, Gen.C02.t_m4_swap_elements_33_23], ![Gen.C02.t_m4_swap_elements_33_30, Gen.C02.t_m4_swap_elements_33_31, Gen.C02.t_m4_swap_elements_33_32, Gen.C02.t_m4_swap_elements_33_33]]]]
/-- `Matrix4::swap_elements` at every in-range index tuple is the model's function, which returns -/
theorem kSwapElements4_all (m : M4 K) (i0 i1 i2 i3 : Fin 4) :
    kSwapElements4 i0 i1 i2 i3 (envL m.toList) = .ofPanic ((m.swapElements? i0 i1 i2 i3).map M4.toList) ∧ (m.swapElements? i0 i1 i2 i3).isSome := by
  fin_cases i0 <;> fin_cases i1 <;> fin_cases i2 <;> fin_cases i3
  · exact C02IdxE.t_m4_swap_elements_00_00 m
  · exact C02IdxE.t_m4_swap_elements_00_01 m
  · exact C02IdxE.t_m4_swap_elements_00_02 m
  · exact C02IdxE.t_m4_swap_elements_00_03 m
  · exact C02IdxE.t_m4_swap_elements_00_10 m
  · exact C02IdxE.t_m4_swap_elements_00_11 m
  · exact C02IdxE.t_m4_swap_elements_00_12 m
  · exact C02IdxE.t_m4_swap_elements_00_13 m
  · exact C02IdxE.t_m4_swap_elements_00_20 m
  · exact C02IdxE.t_m4_swap_elements_00_21 m
  · exact C02IdxE.t_m4_swap_elements_00_22 m
  · exact C02IdxE.t_m4_swap_elements_00_23 m
  · exact C02IdxE.t_m4_swap_elements_00_30 m
  · exact C02IdxE.t_m4_swap_elements_00_31 m
  · exact C02IdxE.t_m4_swap_elements_00_32 m
  · exact C02IdxE.t_m4_swap_elements_00_33 m
  · exact C02IdxE.t_m4_swap_elements_01_00 m
  · exact C02IdxE.t_m4_swap_elements_01_01 m
  · exact C02IdxE.t_m4_swap_elements_01_02 m
  · exact C02IdxE.t_m4_swap_elements_01_03 m
  · exact C02IdxE.t_m4_swap_elements_01_10 m
  · exact C02IdxE.t_m4_swap_elements_01_11 m
  · exact C02IdxE.t_m4_swap_elements_01_12 m
  · exact C02IdxE.t_m4_swap_elements_01_13 m
  · exact C02IdxE.t_m4_swap_elements_01_20 m
  · exact C02IdxE.t_m4_swap_elements_01_21 m
  · exact C02IdxE.t_m4_swap_elements_01_22 m
  · exact C02IdxE.t_m4_swap_elements_01_23 m
  · exact C02IdxE.t_m4_swap_elements_01_30 m
  · exact C02IdxE.t_m4_swap_elements_01_31 m
  · exact C02IdxE.t_m4_swap_elements_01_32 m
  · exact C02IdxE.t_m4_swap_elements_01_33 m
  · exact C02IdxE.t_m4_swap_elements_02_00 m
  · exact C02IdxE.t_m4_swap_elements_02_01 m
  · exact C02IdxE.t_m4_swap_elements_02_02 m
  · exact C02IdxE.t_m4_swap_elements_02_03 m
  · exact C02IdxE.t_m4_swap_elements_02_10 m
  · exact C02IdxE.t_m4_swap_elements_02_11 m
  · exact C02IdxE.t_m4_swap_elements_02_12 m
  · exact C02IdxE.t_m4_swap_elements_02_13 m
  · exact C02IdxE.t_m4_swap_elements_02_20 m
  · exact C02IdxE.t_m4_swap_elements_02_21 m
  · exact C02IdxE.t_m4_swap_elements_02_22 m
  · exact C02IdxE.t_m4_swap_elements_02_23 m
  · exact C02IdxE.t_m4_swap_elements_02_30 m
  · exact C02IdxE.t_m4_swap_elements_02_31 m
  · exact C02IdxE.t_m4_swap_elements_02_32 m
  · exact C02IdxE.t_m4_swap_elements_02_33 m
  · exact C02IdxE.t_m4_swap_elements_03_00 m
  · exact C02IdxE.t_m4_swap_elements_03_01 m
  · exact C02IdxE.t_m4_swap_elements_03_02 m
  · exact C02IdxE.t_m4_swap_elements_03_03 m
  · exact C02IdxE.t_m4_swap_elements_03_10 m
  · exact C02IdxE.t_m4_swap_elements_03_11 m
  · exact C02IdxE.t_m4_swap_elements_03_12 m
  · exact C02IdxE.t_m4_swap_elements_03_13 m
  · exact C02IdxE.t_m4_swap_elements_03_20 m
  · exact C02IdxE.t_m4_swap_elements_03_21 m
  · exact C02IdxE.t_m4_swap_elements_03_22 m
  · exact C02IdxE.t_m4_swap_elements_03_23 m
  · exact C02IdxE.t_m4_swap_elements_03_30 m
  · exact C02IdxE.t_m4_swap_elements_03_31 m
  · exact C02IdxE.t_m4_swap_elements_03_32 m
  · exact C02IdxE.t_m4_swap_elements_03_33 m
  · exact C02IdxE.t_m4_swap_elements_10_00 m
  · exact C02IdxE.t_m4_swap_elements_10_01 m
  · exact C02IdxE.t_m4_swap_elements_10_02 m
  · exact C02IdxE.t_m4_swap_elements_10_03 m
  · exact C02IdxE.t_m4_swap_elements_10_10 m
  · exact C02IdxE.t_m4_swap_elements_10_11 m
  · exact C02IdxE.t_m4_swap_elements_10_12 m
  · exact C02IdxE.t_m4_swap_elements_10_13 m
  · exact C02IdxE.t_m4_swap_elements_10_20 m
  · exact C02IdxE.t_m4_swap_elements_10_21 m
  · exact C02IdxE.t_m4_swap_elements_10_22 m
  · exact C02IdxE.t_m4_swap_elements_10_23 m
  · exact C02IdxE.t_m4_swap_elements_10_30 m
  · exact C02IdxE.t_m4_swap_elements_10_31 m
  · exact C02IdxE.t_m4_swap_elements_10_32 m
  · exact C02IdxE.t_m4_swap_elements_10_33 m
  · exact C02IdxE.t_m4_swap_elements_11_00 m
  · exact C02IdxE.t_m4_swap_elements_11_01 m
  · exact C02IdxE.t_m4_swap_elements_11_02 m
  · exact C02IdxE.t_m4_swap_elements_11_03 m
  · exact C02IdxE.t_m4_swap_elements_11_10 m
  · exact C02IdxE.t_m4_swap_elements_11_11 m
  · exact C02IdxE.t_m4_swap_elements_11_12 m
  · exact C02IdxE.t_m4_swap_elements_11_13 m
  · exact C02IdxE.t_m4_swap_elements_11_20 m
  · exact C02IdxE.t_m4_swap_elements_11_21 m
  · exact C02IdxE.t_m4_swap_elements_11_22 m
  · exact C02IdxE.t_m4_swap_elements_11_23 m
  · exact C02IdxE.t_m4_swap_elements_11_30 m
  · exact C02IdxE.t_m4_swap_elements_11_31 m
  · exact C02IdxE.t_m4_swap_elements_11_32 m
  · exact C02IdxE.t_m4_swap_elements_11_33 m
  · exact C02IdxE.t_m4_swap_elements_12_00 m
  · exact C02IdxE.t_m4_swap_elements_12_01 m
  · exact C02IdxE.t_m4_swap_elements_12_02 m
  · exact C02IdxE.t_m4_swap_elements_12_03 m
  · exact C02IdxE.t_m4_swap_elements_12_10 m
  · exact C02IdxE.t_m4_swap_elements_12_11 m
  · exact C02IdxE.t_m4_swap_elements_12_12 m
  · exact C02IdxE.t_m4_swap_elements_12_13 m
  · exact C02IdxE.t_m4_swap_elements_12_20 m
  · exact C02IdxE.t_m4_swap_elements_12_21 m
  · exact C02IdxE.t_m4_swap_elements_12_22 m
  · exact C02IdxE.t_m4_swap_elements_12_23 m
  · exact C02IdxE.t_m4_swap_elements_12_30 m
  · exact C02IdxE.t_m4_swap_elements_12_31 m
  · exact C02IdxE.t_m4_swap_elements_12_32 m
  · exact C02IdxE.t_m4_swap_elements_12_33 m
  · exact C02IdxE.t_m4_swap_elements_13_00 m
  · exact C02IdxE.t_m4_swap_elements_13_01 m
  · exact C02IdxE.t_m4_swap_elements_13_02 m
  · exact C02IdxE.t_m4_swap_elements_13_03 m
  · exact C02IdxE.t_m4_swap_elements_13_10 m
  · exact C02IdxE.t_m4_swap_elements_13_11 m
  · exact C02IdxE.t_m4_swap_elements_13_12 m
  · exact C02IdxE.t_m4_swap_elements_13_13 m
  · exact C02IdxE.t_m4_swap_elements_13_20 m
  · exact C02IdxE.t_m4_swap_elements_13_21 m
  · exact C02IdxE.t_m4_swap_elements_13_22 m
  · exact C02IdxE.t_m4_swap_elements_13_23 m
  · exact C02IdxE.t_m4_swap_elements_13_30 m
  · exact C02IdxE.t_m4_swap_elements_13_31 m
  · exact C02IdxE.t_m4_swap_elements_13_32 m
  · exact C02IdxE.t_m4_swap_elements_13_33 m
  · exact C02IdxE.t_m4_swap_elements_20_00 m
  · exact C02IdxE.t_m4_swap_elements_20_01 m
  · exact C02IdxE.t_m4_swap_elements_20_02 m
  · exact C02IdxE.t_m4_swap_elements_20_03 m
  · exact C02IdxE.t_m4_swap_elements_20_10 m
  · exact C02IdxE.t_m4_swap_elements_20_11 m
  · exact C02IdxE.t_m4_swap_elements_20_12 m
  · exact C02IdxE.t_m4_swap_elements_20_13 m
  · exact C02IdxE.t_m4_swap_elements_20_20 m
  · exact C02IdxE.t_m4_swap_elements_20_21 m
  · exact C02IdxE.t_m4_swap_elements_20_22 m
  · exact C02IdxE.t_m4_swap_elements_20_23 m
  · exact C02IdxE.t_m4_swap_elements_20_30 m
  · exact C02IdxE.t_m4_swap_elements_20_31 m
  · exact C02IdxE.t_m4_swap_elements_20_32 m
  · exact C02IdxE.t_m4_swap_elements_20_33 m
  · exact C02IdxE.t_m4_swap_elements_21_00 m
  · exact C02IdxE.t_m4_swap_elements_21_01 m
  · exact C02IdxE.t_m4_swap_elements_21_02 m
  · exact C02IdxE.t_m4_swap_elements_21_03 m
  · exact C02IdxE.t_m4_swap_elements_21_10 m
  · exact C02IdxE.t_m4_swap_elements_21_11 m
  · exact C02IdxE.t_m4_swap_elements_21_12 m
  · exact C02IdxE.t_m4_swap_elements_21_13 m
  · exact C02IdxE.t_m4_swap_elements_21_20 m
  · exact C02IdxE.t_m4_swap_elements_21_21 m
  · exact C02IdxE.t_m4_swap_elements_21_22 m
  · exact C02IdxE.t_m4_swap_elements_21_23 m
  · exact C02IdxE.t_m4_swap_elements_21_30 m
  · exact C02IdxE.t_m4_swap_elements_21_31 m
  · exact C02IdxE.t_m4_swap_elements_21_32 m
  · exact C02IdxE.t_m4_swap_elements_21_33 m
  · exact C02IdxE.t_m4_swap_elements_22_00 m
  · exact C02IdxE.t_m4_swap_elements_22_01 m
  · exact C02IdxE.t_m4_swap_elements_22_02 m
  · exact C02IdxE.t_m4_swap_elements_22_03 m
  · exact C02IdxE.t_m4_swap_elements_22_10 m
  · exact C02IdxE.t_m4_swap_elements_22_11 m
  · exact C02IdxE.t_m4_swap_elements_22_12 m
  · exact C02IdxE.t_m4_swap_elements_22_13 m
  · exact C02IdxE.t_m4_swap_elements_22_20 m
  · exact C02IdxE.t_m4_swap_elements_22_21 m
  · exact C02IdxE.t_m4_swap_elements_22_22 m
  · exact C02IdxE.t_m4_swap_elements_22_23 m
  · exact C02IdxE.t_m4_swap_elements_22_30 m
  · exact C02IdxE.t_m4_swap_elements_22_31 m
  · exact C02IdxE.t_m4_swap_elements_22_32 m
  · exact C02IdxE.t_m4_swap_elements_22_33 m
  · exact C02IdxE.t_m4_swap_elements_23_00 m
  · exact C02IdxE.t_m4_swap_elements_23_01 m
  · exact C02IdxE.t_m4_swap_elements_23_02 m
  · exact C02IdxE.t_m4_swap_elements_23_03 m
  · exact C02IdxE.t_m4_swap_elements_23_10 m
  · exact C02IdxE.t_m4_swap_elements_23_11 m
  · exact C02IdxE.t_m4_swap_elements_23_12 m
  · exact C02IdxE.t_m4_swap_elements_23_13 m
  · exact C02IdxE.t_m4_swap_elements_23_20 m
  · exact C02IdxE.t_m4_swap_elements_23_21 m
  · exact C02IdxE.t_m4_swap_elements_23_22 m
  · exact C02IdxE.t_m4_swap_elements_23_23 m
  · exact C02IdxE.t_m4_swap_elements_23_30 m
  · exact C02IdxE.t_m4_swap_elements_23_31 m
  · exact C02IdxE.t_m4_swap_elements_23_32 m
  · exact C02IdxE.t_m4_swap_elements_23_33 m
  · exact C02IdxE.t_m4_swap_elements_30_00 m
  · exact C02IdxE.t_m4_swap_elements_30_01 m
  · exact C02IdxE.t_m4_swap_elements_30_02 m
  · exact C02IdxE.t_m4_swap_elements_30_03 m
  · exact C02IdxE.t_m4_swap_elements_30_10 m
  · exact C02IdxE.t_m4_swap_elements_30_11 m
  · exact C02IdxE.t_m4_swap_elements_30_12 m
  · exact C02IdxE.t_m4_swap_elements_30_13 m
  · exact C02IdxE.t_m4_swap_elements_30_20 m
  · exact C02IdxE.t_m4_swap_elements_30_21 m
  · exact C02IdxE.t_m4_swap_elements_30_22 m
  · exact C02IdxE.t_m4_swap_elements_30_23 m
  · exact C02IdxE.t_m4_swap_elements_30_30 m
  · exact C02IdxE.t_m4_swap_elements_30_31 m
  · exact C02IdxE.t_m4_swap_elements_30_32 m
  · exact C02IdxE.t_m4_swap_elements_30_33 m
  · exact C02IdxE.t_m4_swap_elements_31_00 m
  · exact C02IdxE.t_m4_swap_elements_31_01 m
  · exact C02IdxE.t_m4_swap_elements_31_02 m
  · exact C02IdxE.t_m4_swap_elements_31_03 m
  · exact C02IdxE.t_m4_swap_elements_31_10 m
  · exact C02IdxE.t_m4_swap_elements_31_11 m
  · exact C02IdxE.t_m4_swap_elements_31_12 m
  · exact C02IdxE.t_m4_swap_elements_31_13 m
  · exact C02IdxE.t_m4_swap_elements_31_20 m
  · exact C02IdxE.t_m4_swap_elements_31_21 m
  · exact C02IdxE.t_m4_swap_elements_31_22 m
  · exact C02IdxE.t_m4_swap_elements_31_23 m
  · exact C02IdxE.t_m4_swap_elements_31_30 m
  · exact C02IdxE.t_m4_swap_elements_31_31 m
  · exact C02IdxE.t_m4_swap_elements_31_32 m
  · exact C02IdxE.t_m4_swap_elements_31_33 m
  · exact C02IdxE.t_m4_swap_elements_32_00 m
  · exact C02IdxE.t_m4_swap_elements_32_01 m
  · exact C02IdxE.t_m4_swap_elements_32_02 m
  · exact C02IdxE.t_m4_swap_elements_32_03 m
  · exact C02IdxE.t_m4_swap_elements_32_10 m
  · exact C02IdxE.t_m4_swap_elements_32_11 m
  · exact C02IdxE.t_m4_swap_elements_32_12 m
  · exact C02IdxE.t_m4_swap_elements_32_13 m
  · exact C02IdxE.t_m4_swap_elements_32_20 m
  · exact C02IdxE.t_m4_swap_elements_32_21 m
  · exact C02IdxE.t_m4_swap_elements_32_22 m
  · exact C02IdxE.t_m4_swap_elements_32_23 m
  · exact C02IdxE.t_m4_swap_elements_32_30 m
  · exact C02IdxE.t_m4_swap_elements_32_31 m
  · exact C02IdxE.t_m4_swap_elements_32_32 m
  · exact C02IdxE.t_m4_swap_elements_32_33 m
  · exact C02IdxE.t_m4_swap_elements_33_00 m
  · exact C02IdxE.t_m4_swap_elements_33_01 m
  · exact C02IdxE.t_m4_swap_elements_33_02 m
  · exact C02IdxE.t_m4_swap_elements_33_03 m
  · exact C02IdxE.t_m4_swap_elements_33_10 m
  · exact C02IdxE.t_m4_swap_elements_33_11 m
  · exact C02IdxE.t_m4_swap_elements_33_12 m
  · exact C02IdxE.t_m4_swap_elements_33_13 m
  · exact C02IdxE.t_m4_swap_elements_33_20 m
  · exact C02IdxE.t_m4_swap_elements_33_21 m
  · exact C02IdxE.t_m4_swap_elements_33_22 m
  · exact C02IdxE.t_m4_swap_elements_33_23 m
  · exact C02IdxE.t_m4_swap_elements_33_30 m
  · exact C02IdxE.t_m4_swap_elements_33_31 m
  · exact C02IdxE.t_m4_swap_elements_33_32 m
  · exact C02IdxE.t_m4_swap_elements_33_33 m

/-- the `Matrix4::replace_col` kernels by index tuple -/
def kReplaceCol4 : Fin 4 → (Nat → K) → Tr K :=
  ![Gen.C02.t_m4_replace_col_0, Gen.C02.t_m4_replace_col_1, Gen.C02.t_m4_replace_col_2, Gen.C02.t_m4_replace_col_3]
/-- `Matrix4::replace_col` at every in-range index tuple is the model's function, which returns -/
theorem kReplaceCol4_all (m : M4 K) (u : V4 K) (i0 : Fin 4) :
    kReplaceCol4 i0 (envL (m.toList ++ u.toList)) = .ofPanic ((m.replaceCol? i0 u).map fun (m', o) => m'.toList ++ o.toList) ∧ (m.replaceCol? i0 u).isSome := by
  fin_cases i0
  · exact ⟨(C02Idx.t_m4_replace_col_0 m u).1, by rw [(C02Idx.t_m4_replace_col_0 m u).2]; rfl⟩
  · exact ⟨(C02Idx.t_m4_replace_col_1 m u).1, by rw [(C02Idx.t_m4_replace_col_1 m u).2]; rfl⟩
  · exact ⟨(C02Idx.t_m4_replace_col_2 m u).1, by rw [(C02Idx.t_m4_replace_col_2 m u).2]; rfl⟩
  · exact ⟨(C02Idx.t_m4_replace_col_3 m u).1, by rw [(C02Idx.t_m4_replace_col_3 m u).2]; rfl⟩

/-- `swap_elements((ac, ar), (bc, br))` as traced exchanges the flat (column-major) positions `4*ac+ar` and `4*bc+br`
of the matrix and nothing else, for every in-range tuple -/
theorem swap_elements_m4_flat (m : M4 K) (ac ar bc br : Fin 4) :
    kSwapElements4 ac ar bc br (envL m.toList) =
      .okS (Cg.C02.swapList m.toList (4 * ac.val + ar.val) (4 * bc.val + br.val)) := by
  rw [(kSwapElements4_all m ac ar bc br).1, Cg.C02.M4.swapElements_spec]; rfl
/-- `swap_rows(a, b)` as traced returns a matrix whose entry `(c, r)` is the input's entry `(c, swap a b r)` -/
theorem swap_rows_m4_get (m : M4 K) (a b c r : Fin 4) :
    ∃ m' : M4 K, kSwapRows4 a b (envL m.toList) = .okS m'.toList ∧ m'.get? c r = m.get? c (Equiv.swap a b r) := by
  obtain ⟨h1, h2⟩ := kSwapRows4_all m a b
  obtain ⟨m', hm⟩ := Option.isSome_iff_exists.mp h2
  refine ⟨m', by rw [h1, hm]; rfl, ?_⟩
  have h := Cg.C02.M4.swapRows_spec m a b c r
  rw [hm] at h; simpa using h
/-- `swap_columns(a, b)` as traced returns a matrix whose entry `(c, r)` is the input's entry `(swap a b c, r)` -/
theorem swap_columns_m4_get (m : M4 K) (a b c r : Fin 4) :
    ∃ m' : M4 K, kSwapColumns4 a b (envL m.toList) = .okS m'.toList ∧ m'.get? c r = m.get? (Equiv.swap a b c) r := by
  obtain ⟨h1, h2⟩ := kSwapColumns4_all m a b
  obtain ⟨m', hm⟩ := Option.isSome_iff_exists.mp h2
  refine ⟨m', by rw [h1, hm]; rfl, ?_⟩
  have h := Cg.C02.M4.swapColumns_spec m a b c r
  rw [hm] at h; simpa using h
/-- `replace_col(c, u)` as traced returns the matrix with column `c` replaced by `u`, followed by the old column `c` -/
theorem replace_col_m4_cols (m : M4 K) (u : V4 K) (c : Fin 4) :
    ∃ m' : M4 K, kReplaceCol4 c (envL (m.toList ++ u.toList)) = .okS (m'.toList ++ (m.cols[c.val]'(by simp [M4.cols])).toList) ∧
      m'.cols = m.cols.set c u := by
  obtain ⟨m', hm, hc⟩ := Cg.C02.M4.replaceCol_spec m c u
  exact ⟨m', by rw [(kReplaceCol4_all m u c).1, hm]; rfl, hc⟩
/-- `transpose_self` as traced is `transpose` -/
theorem transpose_self_m4 (m : M4 K) : Gen.C02.t_m4_transpose_self (envL m.toList) = .okS m.transpose.toList := by
  rw [(C02Idx.t_m4_transpose_self m).1, (C02Idx.t_m4_transpose_self m).2]; rfl

end Cg.Trace.C02IdxAll
