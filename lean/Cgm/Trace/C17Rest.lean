import Cgm.Gen.C17
import Cgm.Model.Rot
/-! # T obligations for C17: `Product<&'a MatrixN>` (`iter().product()`), `Product` / `Product<&'a _>` of `Basis2`, `Basis3`

Each kernel is traced on a list of three operands (the harness builds each `Basis2` from an angle and each `Basis3` from
a quaternion); the obligation says the result is the model's left fold of `*` from the identity. -/
set_option linter.unusedSectionVars false
set_option linter.unusedSimpArgs false
namespace Cg.Trace.C17Rest
open Cg Cg.Gen.C17
variable {K : Type} [Field K] [Transc K] [FRem K] [Lits K]

/-- unfold kernel, folds and products down to the components; the rest are ring identities -/
local macro "tr_prod" : tactic =>
  `(tactic| (simp [M2.productList, M3.productList, M4.productList, Basis2.productList, Basis3.productList, Basis2.mul,
      Basis3.mul, Basis2.one, Basis3.one, Basis3.fromQuaternion, Quat.toM3, M2.fromAngle, M2.one, M3.one, M4.one,
      M2.fromValue, M3.fromValue, M4.fromValue, M2.new, M3.new, M4.new, List.foldl, envL, Tr.okS,
      V2.toList, V3.toList, V4.toList, M2.toList, M3.toList, M4.toList, Quat.toList] <;>
    (repeat' apply And.intro) <;> first | ring1 | (ring_nf; done)))

theorem t_m2_product_list_ref (l1 l2 l3 : M2 K) :
    t_m2_product_list_ref (envL (l1.toList ++ l2.toList ++ l3.toList)) = .okS (M2.productList [l1, l2, l3]).toList := by
  tr_prod
theorem t_m3_product_list_ref (l1 l2 l3 : M3 K) :
    t_m3_product_list_ref (envL (l1.toList ++ l2.toList ++ l3.toList)) = .okS (M3.productList [l1, l2, l3]).toList := by
  tr_prod
theorem t_m4_product_list_ref (l1 l2 l3 : M4 K) :
    t_m4_product_list_ref (envL (l1.toList ++ l2.toList ++ l3.toList)) = .okS (M4.productList [l1, l2, l3]).toList := by
  tr_prod
theorem t_b2_product_list (a b c : K) :
    t_b2_product_list (envL [a, b, c]) =
      .okS (Basis2.productList [⟨M2.fromAngle a⟩, ⟨M2.fromAngle b⟩, ⟨M2.fromAngle c⟩]).mat.toList := by
  tr_prod
theorem t_b3_product_list (p q r : Quat K) :
    t_b3_product_list (envL (p.toList ++ q.toList ++ r.toList)) =
      .okS (Basis3.productList [Basis3.fromQuaternion p, Basis3.fromQuaternion q, Basis3.fromQuaternion r]).mat.toList := by
  tr_prod
theorem t_b3_product_list_ref (p q r : Quat K) :
    t_b3_product_list_ref (envL (p.toList ++ q.toList ++ r.toList)) =
      .okS (Basis3.productList [Basis3.fromQuaternion p, Basis3.fromQuaternion q, Basis3.fromQuaternion r]).mat.toList := by
  tr_prod
end Cg.Trace.C17Rest
