import Cgm.Gen.C17
import Cgm.Model.Assign
/-!
# T obligations for C17: the operand forms of the operators of matrices

GENERATED once by `tools/gen_c17_forms.py` from `lib/cgv/sigs.py` (`FORM_FAMILIES`) / `lib/cgv/tracetab_ops2.py`; kept as an
ordinary source file.

Each kernel `t_<t>_<op>_<form>` was traced from the `impl` the call-site spelling selects (`rv` = `&a op b`, `vr` = `a op &b`,
`rr` = `&a op &b`, `r` = `-&a`, `asg` = `a op= b`) on symbolic operands.  For the reference forms the obligation says the
kernel is the model's by-value operator (the model has one function per operator); for `asg` it says the kernel is the
field-by-field definition of `Cgm/Model/Assign.lean`, which `Cgm/Props/C17c.lean` proves equal to the by-value operator
(composed in `Cgm/E2E/C17b.lean`).
-/
set_option linter.unusedSectionVars false
set_option linter.unusedSimpArgs false
set_option linter.unusedVariables false
namespace Cg.Trace.C17OpsM
open Cg Cg.Gen.C17
variable {K : Type} [Field K] [Transc K] [FRem K] [Lits K]

/-- unfold the kernel and the model operator (for `asg`: the chain of single-field updates), then field identities -/
local macro "tr_form" : tactic =>
  `(tactic| first
    | (tr_auto; done)
    | (simp [M2.addAssign, M2.subAssign, M2.mulAssignS, M2.divAssignS, M2.remAssignS, M2.rem, M3.addAssign, M3.subAssign, M3.mulAssignS, M3.divAssignS, M3.remAssignS, M3.rem, M4.addAssign, M4.subAssign, M4.mulAssignS, M4.divAssignS, M4.remAssignS, M4.rem, V2.addAssign, V2.subAssign, V2.mulAssignS, V2.divAssignS, V2.remAssignS, V2.rem, V3.addAssign, V3.subAssign, V3.mulAssignS, V3.divAssignS, V3.remAssignS, V3.rem, V4.addAssign, V4.subAssign, V4.mulAssignS, V4.divAssignS, V4.remAssignS, V4.rem, envL, Tr.okS,
        V1.toList, V2.toList, V3.toList, V4.toList, P1.toList, P2.toList, P3.toList, M2.toList, M3.toList, M4.toList, Quat.toList] <;>
       (repeat' apply And.intro) <;> first | ring1 | (ring_nf; done)))

theorem t_m2_add_rv (u v : M2 K) :
    t_m2_add_rv (envL (u.toList ++ v.toList)) = .okS (u + v).toList := by
  tr_form
theorem t_m2_add_vr (u v : M2 K) :
    t_m2_add_vr (envL (u.toList ++ v.toList)) = .okS (u + v).toList := by
  tr_form
theorem t_m2_add_rr (u v : M2 K) :
    t_m2_add_rr (envL (u.toList ++ v.toList)) = .okS (u + v).toList := by
  tr_form
theorem t_m2_add_asg (u v : M2 K) :
    t_m2_add_asg (envL (u.toList ++ v.toList)) = .okS (u.addAssign v).toList := by
  tr_form
theorem t_m3_add_rv (u v : M3 K) :
    t_m3_add_rv (envL (u.toList ++ v.toList)) = .okS (u + v).toList := by
  tr_form
theorem t_m3_add_vr (u v : M3 K) :
    t_m3_add_vr (envL (u.toList ++ v.toList)) = .okS (u + v).toList := by
  tr_form
theorem t_m3_add_rr (u v : M3 K) :
    t_m3_add_rr (envL (u.toList ++ v.toList)) = .okS (u + v).toList := by
  tr_form
theorem t_m3_add_asg (u v : M3 K) :
    t_m3_add_asg (envL (u.toList ++ v.toList)) = .okS (u.addAssign v).toList := by
  tr_form
theorem t_m4_add_rv (u v : M4 K) :
    t_m4_add_rv (envL (u.toList ++ v.toList)) = .okS (u + v).toList := by
  tr_form
theorem t_m4_add_vr (u v : M4 K) :
    t_m4_add_vr (envL (u.toList ++ v.toList)) = .okS (u + v).toList := by
  tr_form
theorem t_m4_add_rr (u v : M4 K) :
    t_m4_add_rr (envL (u.toList ++ v.toList)) = .okS (u + v).toList := by
  tr_form
theorem t_m4_add_asg (u v : M4 K) :
    t_m4_add_asg (envL (u.toList ++ v.toList)) = .okS (u.addAssign v).toList := by
  tr_form
theorem t_m2_sub_rv (u v : M2 K) :
    t_m2_sub_rv (envL (u.toList ++ v.toList)) = .okS (u - v).toList := by
  tr_form
theorem t_m2_sub_vr (u v : M2 K) :
    t_m2_sub_vr (envL (u.toList ++ v.toList)) = .okS (u - v).toList := by
  tr_form
theorem t_m2_sub_rr (u v : M2 K) :
    t_m2_sub_rr (envL (u.toList ++ v.toList)) = .okS (u - v).toList := by
  tr_form
theorem t_m2_sub_asg (u v : M2 K) :
    t_m2_sub_asg (envL (u.toList ++ v.toList)) = .okS (u.subAssign v).toList := by
  tr_form
theorem t_m3_sub_rv (u v : M3 K) :
    t_m3_sub_rv (envL (u.toList ++ v.toList)) = .okS (u - v).toList := by
  tr_form
theorem t_m3_sub_vr (u v : M3 K) :
    t_m3_sub_vr (envL (u.toList ++ v.toList)) = .okS (u - v).toList := by
  tr_form
theorem t_m3_sub_rr (u v : M3 K) :
    t_m3_sub_rr (envL (u.toList ++ v.toList)) = .okS (u - v).toList := by
  tr_form
theorem t_m3_sub_asg (u v : M3 K) :
    t_m3_sub_asg (envL (u.toList ++ v.toList)) = .okS (u.subAssign v).toList := by
  tr_form
theorem t_m4_sub_rv (u v : M4 K) :
    t_m4_sub_rv (envL (u.toList ++ v.toList)) = .okS (u - v).toList := by
  tr_form
theorem t_m4_sub_vr (u v : M4 K) :
    t_m4_sub_vr (envL (u.toList ++ v.toList)) = .okS (u - v).toList := by
  tr_form
theorem t_m4_sub_rr (u v : M4 K) :
    t_m4_sub_rr (envL (u.toList ++ v.toList)) = .okS (u - v).toList := by
  tr_form
theorem t_m4_sub_asg (u v : M4 K) :
    t_m4_sub_asg (envL (u.toList ++ v.toList)) = .okS (u.subAssign v).toList := by
  tr_form
theorem t_m2_mul_s_rv (u : M2 K) (v : K) :
    t_m2_mul_s_rv (envL (u.toList ++ [v])) = .okS (u * v).toList := by
  tr_form
theorem t_m2_mul_s_asg (u : M2 K) (v : K) :
    t_m2_mul_s_asg (envL (u.toList ++ [v])) = .okS (u.mulAssignS v).toList := by
  tr_form
theorem t_m3_mul_s_rv (u : M3 K) (v : K) :
    t_m3_mul_s_rv (envL (u.toList ++ [v])) = .okS (u * v).toList := by
  tr_form
theorem t_m3_mul_s_asg (u : M3 K) (v : K) :
    t_m3_mul_s_asg (envL (u.toList ++ [v])) = .okS (u.mulAssignS v).toList := by
  tr_form
theorem t_m4_mul_s_rv (u : M4 K) (v : K) :
    t_m4_mul_s_rv (envL (u.toList ++ [v])) = .okS (u * v).toList := by
  tr_form
theorem t_m4_mul_s_asg (u : M4 K) (v : K) :
    t_m4_mul_s_asg (envL (u.toList ++ [v])) = .okS (u.mulAssignS v).toList := by
  tr_form
theorem t_m2_div_s_rv (u : M2 K) (v : K) :
    t_m2_div_s_rv (envL (u.toList ++ [v])) = .okS (u / v).toList := by
  tr_form
theorem t_m2_div_s_asg (u : M2 K) (v : K) :
    t_m2_div_s_asg (envL (u.toList ++ [v])) = .okS (u.divAssignS v).toList := by
  tr_form
theorem t_m3_div_s_rv (u : M3 K) (v : K) :
    t_m3_div_s_rv (envL (u.toList ++ [v])) = .okS (u / v).toList := by
  tr_form
theorem t_m3_div_s_asg (u : M3 K) (v : K) :
    t_m3_div_s_asg (envL (u.toList ++ [v])) = .okS (u.divAssignS v).toList := by
  tr_form
theorem t_m4_div_s_rv (u : M4 K) (v : K) :
    t_m4_div_s_rv (envL (u.toList ++ [v])) = .okS (u / v).toList := by
  tr_form
theorem t_m4_div_s_asg (u : M4 K) (v : K) :
    t_m4_div_s_asg (envL (u.toList ++ [v])) = .okS (u.divAssignS v).toList := by
  tr_form
theorem t_m2_rem_s_rv (u : M2 K) (v : K) :
    t_m2_rem_s_rv (envL (u.toList ++ [v])) = .okS (u.rem v).toList := by
  tr_form
theorem t_m2_rem_s_asg (u : M2 K) (v : K) :
    t_m2_rem_s_asg (envL (u.toList ++ [v])) = .okS (u.remAssignS v).toList := by
  tr_form
theorem t_m3_rem_s_rv (u : M3 K) (v : K) :
    t_m3_rem_s_rv (envL (u.toList ++ [v])) = .okS (u.rem v).toList := by
  tr_form
theorem t_m3_rem_s_asg (u : M3 K) (v : K) :
    t_m3_rem_s_asg (envL (u.toList ++ [v])) = .okS (u.remAssignS v).toList := by
  tr_form
theorem t_m4_rem_s_rv (u : M4 K) (v : K) :
    t_m4_rem_s_rv (envL (u.toList ++ [v])) = .okS (u.rem v).toList := by
  tr_form
theorem t_m4_rem_s_asg (u : M4 K) (v : K) :
    t_m4_rem_s_asg (envL (u.toList ++ [v])) = .okS (u.remAssignS v).toList := by
  tr_form
theorem t_m2_mul_rv (u v : M2 K) :
    t_m2_mul_rv (envL (u.toList ++ v.toList)) = .okS (u * v).toList := by
  tr_form
theorem t_m2_mul_vr (u v : M2 K) :
    t_m2_mul_vr (envL (u.toList ++ v.toList)) = .okS (u * v).toList := by
  tr_form
theorem t_m2_mul_rr (u v : M2 K) :
    t_m2_mul_rr (envL (u.toList ++ v.toList)) = .okS (u * v).toList := by
  tr_form
theorem t_m3_mul_rv (u v : M3 K) :
    t_m3_mul_rv (envL (u.toList ++ v.toList)) = .okS (u * v).toList := by
  tr_form
theorem t_m3_mul_vr (u v : M3 K) :
    t_m3_mul_vr (envL (u.toList ++ v.toList)) = .okS (u * v).toList := by
  tr_form
theorem t_m3_mul_rr (u v : M3 K) :
    t_m3_mul_rr (envL (u.toList ++ v.toList)) = .okS (u * v).toList := by
  tr_form
theorem t_m4_mul_rv (u v : M4 K) :
    t_m4_mul_rv (envL (u.toList ++ v.toList)) = .okS (u * v).toList := by
  tr_form
theorem t_m4_mul_vr (u v : M4 K) :
    t_m4_mul_vr (envL (u.toList ++ v.toList)) = .okS (u * v).toList := by
  tr_form
theorem t_m4_mul_rr (u v : M4 K) :
    t_m4_mul_rr (envL (u.toList ++ v.toList)) = .okS (u * v).toList := by
  tr_form
theorem t_m2_mul_v_rv (u : M2 K) (v : V2 K) :
    t_m2_mul_v_rv (envL (u.toList ++ v.toList)) = .okS (V2.toList (u.mulVec v)) := by
  tr_form
theorem t_m2_mul_v_vr (u : M2 K) (v : V2 K) :
    t_m2_mul_v_vr (envL (u.toList ++ v.toList)) = .okS (V2.toList (u.mulVec v)) := by
  tr_form
theorem t_m2_mul_v_rr (u : M2 K) (v : V2 K) :
    t_m2_mul_v_rr (envL (u.toList ++ v.toList)) = .okS (V2.toList (u.mulVec v)) := by
  tr_form
theorem t_m3_mul_v_rv (u : M3 K) (v : V3 K) :
    t_m3_mul_v_rv (envL (u.toList ++ v.toList)) = .okS (V3.toList (u.mulVec v)) := by
  tr_form
theorem t_m3_mul_v_vr (u : M3 K) (v : V3 K) :
    t_m3_mul_v_vr (envL (u.toList ++ v.toList)) = .okS (V3.toList (u.mulVec v)) := by
  tr_form
theorem t_m3_mul_v_rr (u : M3 K) (v : V3 K) :
    t_m3_mul_v_rr (envL (u.toList ++ v.toList)) = .okS (V3.toList (u.mulVec v)) := by
  tr_form
theorem t_m4_mul_v_rv (u : M4 K) (v : V4 K) :
    t_m4_mul_v_rv (envL (u.toList ++ v.toList)) = .okS (V4.toList (u.mulVec v)) := by
  tr_form
theorem t_m4_mul_v_vr (u : M4 K) (v : V4 K) :
    t_m4_mul_v_vr (envL (u.toList ++ v.toList)) = .okS (V4.toList (u.mulVec v)) := by
  tr_form
theorem t_m4_mul_v_rr (u : M4 K) (v : V4 K) :
    t_m4_mul_v_rr (envL (u.toList ++ v.toList)) = .okS (V4.toList (u.mulVec v)) := by
  tr_form
theorem t_m2_neg_r (u : M2 K) :
    t_m2_neg_r (envL u.toList) = .okS (-u).toList := by
  tr_form
theorem t_m3_neg_r (u : M3 K) :
    t_m3_neg_r (envL u.toList) = .okS (-u).toList := by
  tr_form
theorem t_m4_neg_r (u : M4 K) :
    t_m4_neg_r (envL u.toList) = .okS (-u).toList := by
  tr_form
end Cg.Trace.C17OpsM
