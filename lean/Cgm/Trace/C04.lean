import Cgm.Gen.C04
/-! # T obligations for C04: the Hamilton product, conjugate, inverse and rotation as the code computes them -/
set_option linter.unusedSectionVars false
namespace Cg.Trace.C04
open Cg Cg.Gen.C04
variable {K : Type} [Field K] [Transc K] [FRem K] [Lits K]

theorem t_q_mul (p q : Quat K) : t_q_mul (envL (p.toList ++ q.toList)) = .okS (p * q).toList := by tr_auto
theorem t_q_conjugate (p : Quat K) : t_q_conjugate (envL p.toList) = .okS p.conjugate.toList := by tr_auto
theorem t_q_invert (p : Quat K) : t_q_invert (envL p.toList) = .okS p.invert.toList := by tr_auto
theorem t_q_rotate_vector (p : Quat K) (u : V3 K) :
    t_q_rotate_vector (envL (p.toList ++ u.toList)) = .okS (p.rotateVector u).toList := by tr_auto
theorem t_q_mul_v (p : Quat K) (u : V3 K) : t_q_mul_v (envL (p.toList ++ u.toList)) = .okS (p.mulVec u).toList := by tr_auto
theorem t_q_rotate_point (p : Quat K) (u : P3 K) :
    t_q_rotate_point (envL (p.toList ++ u.toList)) = .okS (p.rotatePoint u).toList := by tr_auto
theorem t_q_magnitude2 (p : Quat K) : t_q_magnitude2 (envL p.toList) = .okS [p.magnitude2] := by tr_auto
theorem t_q_dot (p q : Quat K) : t_q_dot (envL (p.toList ++ q.toList)) = .okS [p.dot q] := by tr_auto
theorem t_q_add (p q : Quat K) : t_q_add (envL (p.toList ++ q.toList)) = .okS (p + q).toList := by tr_auto
theorem t_q_mul_s (p : Quat K) (s : K) : t_q_mul_s (envL (p.toList ++ [s])) = .okS (p * s).toList := by tr_auto
theorem t_q_div_s (p : Quat K) (s : K) : t_q_div_s (envL (p.toList ++ [s])) = .okS (p / s).toList := by tr_auto
end Cg.Trace.C04
