import Cgm.Gen.C18
import Cgm.Model.Book2
/-!
# T obligations for C18: `is_zero` of vectors and angles, `is_perpendicular`, both outcomes

These functions return a `bool` (the kernel's `bools` output).  `VectorN::is_zero` is the derived `PartialEq` against
`Self::zero()`: exact comparisons, field by field, stopping at the first that fails, so there is one kernel per stopping
position.  `is_perpendicular` and `Rad`/`Deg::is_zero` make one `ulps_eq!` comparison with the default tolerances (the
recording scalar's `default_epsilon` is 2^-52, `default_max_ulps` 4).  Each obligation says: under the path condition
the kernel's boolean is the model's, and its comparisons are the model's, with the recorded outcomes.
-/
set_option linter.unusedSectionVars false
set_option linter.unusedSimpArgs false
set_option linter.unusedVariables false
namespace Cg.Trace.C18Rest
open Cg Cg.Gen.C18
variable {K : Type} [Field K] [LinearOrder K] [Approx K] [Transc K] [FRem K] [Lits K]

/-- a normal return of one boolean after the comparisons `g` -/
def okB (b : Bool) (g : List (G K)) : Tr K := ⟨.ok, [], [b], g⟩
/-- the harness's `default_epsilon` for the exact scalar: 2^-52 -/
def eps52 : K := (1 : K) / (4503599627370496 : K)

/-- unfold kernel, model and flat lists; what is left are field identities between the compared expressions -/
local macro "tr_b" : tactic =>
  `(tactic| (simp [okB, eps52, envL, V1.toList, V2.toList, V3.toList, V4.toList, V1.dot, V2.dot, V3.dot, V4.dot, *] <;>
    (try (repeat' apply And.intro) <;> ring)))

/-! ## `is_zero` of vectors -/

theorem t_v1_is_zero_true (u : V1 K) (hx : u.x = 0) :
    t_v1_is_zero_true (envL u.toList) = okB u.isZero [.eq u.x 0 true] ∧ u.isZero = true := by
  constructor <;> simp [V1.isZero, okB, envL, V1.toList, *]

theorem t_v1_is_zero_false_0 (u : V1 K) (hx : u.x ≠ 0) :
    t_v1_is_zero_false_0 (envL u.toList) = okB u.isZero [.eq u.x 0 false] ∧ u.isZero = false := by
  constructor <;> simp [V1.isZero, okB, envL, V1.toList, *]

theorem t_v2_is_zero_true (u : V2 K) (hx : u.x = 0) (hy : u.y = 0) :
    t_v2_is_zero_true (envL u.toList) = okB u.isZero [.eq u.x 0 true, .eq u.y 0 true] ∧ u.isZero = true := by
  constructor <;> simp [V2.isZero, okB, envL, V2.toList, *]

theorem t_v2_is_zero_false_0 (u : V2 K) (hx : u.x ≠ 0) :
    t_v2_is_zero_false_0 (envL u.toList) = okB u.isZero [.eq u.x 0 false] ∧ u.isZero = false := by
  constructor <;> simp [V2.isZero, okB, envL, V2.toList, *]

theorem t_v2_is_zero_false_1 (u : V2 K) (hx : u.x = 0) (hy : u.y ≠ 0) :
    t_v2_is_zero_false_1 (envL u.toList) = okB u.isZero [.eq u.x 0 true, .eq u.y 0 false] ∧ u.isZero = false := by
  constructor <;> simp [V2.isZero, okB, envL, V2.toList, *]

theorem t_v3_is_zero_true (u : V3 K) (hx : u.x = 0) (hy : u.y = 0) (hz : u.z = 0) :
    t_v3_is_zero_true (envL u.toList) = okB u.isZero [.eq u.x 0 true, .eq u.y 0 true, .eq u.z 0 true] ∧ u.isZero = true := by
  constructor <;> simp [V3.isZero, okB, envL, V3.toList, *]

theorem t_v3_is_zero_false_0 (u : V3 K) (hx : u.x ≠ 0) :
    t_v3_is_zero_false_0 (envL u.toList) = okB u.isZero [.eq u.x 0 false] ∧ u.isZero = false := by
  constructor <;> simp [V3.isZero, okB, envL, V3.toList, *]

theorem t_v3_is_zero_false_1 (u : V3 K) (hx : u.x = 0) (hy : u.y ≠ 0) :
    t_v3_is_zero_false_1 (envL u.toList) = okB u.isZero [.eq u.x 0 true, .eq u.y 0 false] ∧ u.isZero = false := by
  constructor <;> simp [V3.isZero, okB, envL, V3.toList, *]

theorem t_v3_is_zero_false_2 (u : V3 K) (hx : u.x = 0) (hy : u.y = 0) (hz : u.z ≠ 0) :
    t_v3_is_zero_false_2 (envL u.toList) = okB u.isZero [.eq u.x 0 true, .eq u.y 0 true, .eq u.z 0 false] ∧ u.isZero = false := by
  constructor <;> simp [V3.isZero, okB, envL, V3.toList, *]

theorem t_v4_is_zero_true (u : V4 K) (hx : u.x = 0) (hy : u.y = 0) (hz : u.z = 0) (hw : u.w = 0) :
    t_v4_is_zero_true (envL u.toList) = okB u.isZero [.eq u.x 0 true, .eq u.y 0 true, .eq u.z 0 true, .eq u.w 0 true] ∧ u.isZero = true := by
  constructor <;> simp [V4.isZero, okB, envL, V4.toList, *]

theorem t_v4_is_zero_false_0 (u : V4 K) (hx : u.x ≠ 0) :
    t_v4_is_zero_false_0 (envL u.toList) = okB u.isZero [.eq u.x 0 false] ∧ u.isZero = false := by
  constructor <;> simp [V4.isZero, okB, envL, V4.toList, *]

theorem t_v4_is_zero_false_1 (u : V4 K) (hx : u.x = 0) (hy : u.y ≠ 0) :
    t_v4_is_zero_false_1 (envL u.toList) = okB u.isZero [.eq u.x 0 true, .eq u.y 0 false] ∧ u.isZero = false := by
  constructor <;> simp [V4.isZero, okB, envL, V4.toList, *]

theorem t_v4_is_zero_false_2 (u : V4 K) (hx : u.x = 0) (hy : u.y = 0) (hz : u.z ≠ 0) :
    t_v4_is_zero_false_2 (envL u.toList) = okB u.isZero [.eq u.x 0 true, .eq u.y 0 true, .eq u.z 0 false] ∧ u.isZero = false := by
  constructor <;> simp [V4.isZero, okB, envL, V4.toList, *]

theorem t_v4_is_zero_false_3 (u : V4 K) (hx : u.x = 0) (hy : u.y = 0) (hz : u.z = 0) (hw : u.w ≠ 0) :
    t_v4_is_zero_false_3 (envL u.toList) = okB u.isZero [.eq u.x 0 true, .eq u.y 0 true, .eq u.z 0 true, .eq u.w 0 false] ∧ u.isZero = false := by
  constructor <;> simp [V4.isZero, okB, envL, V4.toList, *]

/-! ## `is_perpendicular`: `ulps_eq!(Self::dot(self, other), &zero())` -/

theorem t_v1_is_perpendicular_true (u w : V1 K) (h : ulpsEqD (u.dot w) 0 = true) :
    t_v1_is_perpendicular_true (envL (u.toList ++ w.toList)) =
      okB (V1.isPerpendicular ulpsEqD u w) [.ulps (u.dot w) 0 eps52 4 true] ∧ V1.isPerpendicular ulpsEqD u w = true := by
  refine ⟨?_, by simpa [V1.isPerpendicular] using h⟩
  simp only [V1.isPerpendicular, h]
  tr_b

theorem t_v1_is_perpendicular_false (u w : V1 K) (h : ulpsEqD (u.dot w) 0 = false) :
    t_v1_is_perpendicular_false (envL (u.toList ++ w.toList)) =
      okB (V1.isPerpendicular ulpsEqD u w) [.ulps (u.dot w) 0 eps52 4 false] ∧ V1.isPerpendicular ulpsEqD u w = false := by
  refine ⟨?_, by simpa [V1.isPerpendicular] using h⟩
  simp only [V1.isPerpendicular, h]
  tr_b

theorem t_v2_is_perpendicular_true (u w : V2 K) (h : ulpsEqD (u.dot w) 0 = true) :
    t_v2_is_perpendicular_true (envL (u.toList ++ w.toList)) =
      okB (V2.isPerpendicular ulpsEqD u w) [.ulps (u.dot w) 0 eps52 4 true] ∧ V2.isPerpendicular ulpsEqD u w = true := by
  refine ⟨?_, by simpa [V2.isPerpendicular] using h⟩
  simp only [V2.isPerpendicular, h]
  tr_b

theorem t_v2_is_perpendicular_false (u w : V2 K) (h : ulpsEqD (u.dot w) 0 = false) :
    t_v2_is_perpendicular_false (envL (u.toList ++ w.toList)) =
      okB (V2.isPerpendicular ulpsEqD u w) [.ulps (u.dot w) 0 eps52 4 false] ∧ V2.isPerpendicular ulpsEqD u w = false := by
  refine ⟨?_, by simpa [V2.isPerpendicular] using h⟩
  simp only [V2.isPerpendicular, h]
  tr_b

theorem t_v3_is_perpendicular_true (u w : V3 K) (h : ulpsEqD (u.dot w) 0 = true) :
    t_v3_is_perpendicular_true (envL (u.toList ++ w.toList)) =
      okB (V3.isPerpendicular ulpsEqD u w) [.ulps (u.dot w) 0 eps52 4 true] ∧ V3.isPerpendicular ulpsEqD u w = true := by
  refine ⟨?_, by simpa [V3.isPerpendicular] using h⟩
  simp only [V3.isPerpendicular, h]
  tr_b

theorem t_v3_is_perpendicular_false (u w : V3 K) (h : ulpsEqD (u.dot w) 0 = false) :
    t_v3_is_perpendicular_false (envL (u.toList ++ w.toList)) =
      okB (V3.isPerpendicular ulpsEqD u w) [.ulps (u.dot w) 0 eps52 4 false] ∧ V3.isPerpendicular ulpsEqD u w = false := by
  refine ⟨?_, by simpa [V3.isPerpendicular] using h⟩
  simp only [V3.isPerpendicular, h]
  tr_b

theorem t_v4_is_perpendicular_true (u w : V4 K) (h : ulpsEqD (u.dot w) 0 = true) :
    t_v4_is_perpendicular_true (envL (u.toList ++ w.toList)) =
      okB (V4.isPerpendicular ulpsEqD u w) [.ulps (u.dot w) 0 eps52 4 true] ∧ V4.isPerpendicular ulpsEqD u w = true := by
  refine ⟨?_, by simpa [V4.isPerpendicular] using h⟩
  simp only [V4.isPerpendicular, h]
  tr_b

theorem t_v4_is_perpendicular_false (u w : V4 K) (h : ulpsEqD (u.dot w) 0 = false) :
    t_v4_is_perpendicular_false (envL (u.toList ++ w.toList)) =
      okB (V4.isPerpendicular ulpsEqD u w) [.ulps (u.dot w) 0 eps52 4 false] ∧ V4.isPerpendicular ulpsEqD u w = false := by
  refine ⟨?_, by simpa [V4.isPerpendicular] using h⟩
  simp only [V4.isPerpendicular, h]
  tr_b

/-! ## `Rad::is_zero`, `Deg::is_zero`: `ulps_eq!(self, &Self::zero())` on the wrapped scalar -/

theorem t_deg_is_zero_true (a : K) (h : ulpsEqD a 0 = true) :
    t_deg_is_zero_true (envL [a]) = okB (angleIsZero ulpsEqD a) [.ulps a 0 eps52 4 true] ∧ angleIsZero ulpsEqD a = true := by
  refine ⟨?_, by simpa [angleIsZero] using h⟩
  simp only [angleIsZero, h]
  tr_b

theorem t_deg_is_zero_false (a : K) (h : ulpsEqD a 0 = false) :
    t_deg_is_zero_false (envL [a]) = okB (angleIsZero ulpsEqD a) [.ulps a 0 eps52 4 false] ∧ angleIsZero ulpsEqD a = false := by
  refine ⟨?_, by simpa [angleIsZero] using h⟩
  simp only [angleIsZero, h]
  tr_b

theorem t_rad_is_zero_true (a : K) (h : ulpsEqD a 0 = true) :
    t_rad_is_zero_true (envL [a]) = okB (angleIsZero ulpsEqD a) [.ulps a 0 eps52 4 true] ∧ angleIsZero ulpsEqD a = true := by
  refine ⟨?_, by simpa [angleIsZero] using h⟩
  simp only [angleIsZero, h]
  tr_b

theorem t_rad_is_zero_false (a : K) (h : ulpsEqD a 0 = false) :
    t_rad_is_zero_false (envL [a]) = okB (angleIsZero ulpsEqD a) [.ulps a 0 eps52 4 false] ∧ angleIsZero ulpsEqD a = false := by
  refine ⟨?_, by simpa [angleIsZero] using h⟩
  simp only [angleIsZero, h]
  tr_b

end Cg.Trace.C18Rest
