import Cgm.Lemmas.Tac
import Cgm.Model.Rot
import Cgm.Model.Transform
import Mathlib.Tactic.Order
import Mathlib.Tactic.Tauto
import Mathlib.Tactic.Linarith
import Mathlib.Tactic.NormNum
import Mathlib.Algebra.Order.Field.Basic
/-!
# Layer T: which inputs the traced paths cover

`Cgm/Trace/Cxx.lean` states, path by path, that the traced kernel of a branching function is the
model; the path condition of a path is the list of hypotheses of its obligation (for the paths
whose obligation has no hypothesis -- the `none` results -- it is the comparison recorded in the
guard list of the right-hand side).  This file restates those path conditions as `Prop`s over the
model only (it imports no generated code) and proves, for every branching function,

* `…_excl`  : the traced path conditions are pairwise exclusive (`Excl`),
* `…_cover` : their disjunction (`AnyOf`) is equivalent to an explicit description of the covered
  input set -- `True` when the traced paths are exhaustive, otherwise the exact set; what is left
  out is listed as *untraced paths* (formally as a list `…Untraced` where that is cheap, in the doc
  comment otherwise).  Untraced paths are tied to the model by the differential layer only.

STATUS: this file describes the FIRST wave of traced paths.  Where a theorem below is marked "NOT exhaustive" / "untraced", that is
a statement about the path list of this file; most remainders were traced later and the updated lists are in
`Cgm/Trace/Cover2.lean` (C13 `normalize`, `Deg::opposite`, C11 `angle` of `Vector4` / `Quaternion`, `between_vectors`, ...),
`Cgm/Trace/Cover3.lean` (all of C13: `normalize_signed`, `opposite`, `bisect` for both units, kernels of
`Cgm/Trace/C13More.lean`: exhaustive in an ordered field) and `Cgm/Trace/Cover4.lean` (`perspective` every entry point, `from_arc`,
`Quaternion::look_at`, `Decomposed` `look_at` / `inverse_transform_vector` of the `Basis` rotations: exhaustive; `planar`: exact
remainder; kernels of `Cgm/Trace/C08More.lean`, `C09More.lean`, `C10More.lean`, `C15More.lean`).  Each such docstring names the
later theorem.  Still as described here: the `None` / `Some` halves of the matrix `inverse_transform{,_vector}` entry points,
`Decomposed<_, Quaternion>::inverse_transform_vector` and `look_at_{lh,rh}`, the 2-D `look_at_{lh,rh}` of `Matrix3` (the deprecated 2-D `look_at` entry point has both paths:
`t_m3_tlook_at2_flip` / `_noflip`, `Cgm/Trace/C09Rest.lean`).

Unless said otherwise everything holds in a `Field` with an arbitrary `LinearOrder` (the class
context of the `Trace` files: no compatibility between order and arithmetic is used); where the
compatibility matters (`IsStrictOrderedRing`) it is an explicit instance argument.
-/
set_option linter.unusedSectionVars false
set_option linter.unusedSimpArgs false
set_option linter.unusedVariables false
namespace Cg.Trace.Cover
open Cg

/-! ## lists of path conditions -/

/-- at least one of the listed path conditions holds -/
def AnyOf : List Prop → Prop
  | [] => False
  | p :: l => p ∨ AnyOf l
/-- no two of the listed path conditions hold together -/
def Excl : List Prop → Prop
  | [] => True
  | p :: l => (p → ¬ AnyOf l) ∧ Excl l

/-- the `i`-th path condition of a list (`False` beyond its end) -/
def nth : List Prop → Nat → Prop
  | [], _ => False
  | p :: _, 0 => p
  | _ :: l, i + 1 => nth l i

theorem anyOf_iff (l : List Prop) : AnyOf l ↔ ∃ p ∈ l, p := by
  induction l with
  | nil => simp [AnyOf]
  | cons a l ih =>
    simp only [AnyOf, ih, List.mem_cons]
    constructor
    · rintro (h | ⟨p, hp, h⟩)
      · exact ⟨a, Or.inl rfl, h⟩
      · exact ⟨p, Or.inr hp, h⟩
    · rintro ⟨p, rfl | hp, h⟩
      · exact Or.inl h
      · exact Or.inr ⟨p, hp, h⟩
/-- `Excl` is pairwise exclusion in the usual sense -/
theorem excl_iff (l : List Prop) : Excl l ↔ l.Pairwise (fun p q => ¬ (p ∧ q)) := by
  induction l with
  | nil => simp [Excl]
  | cons a l ih =>
    rw [List.pairwise_cons, ← ih]
    simp only [Excl, anyOf_iff]
    constructor
    · rintro ⟨h1, h2⟩
      exact ⟨fun q hq hh => h1 hh.1 ⟨q, hq, hh.2⟩, h2⟩
    · rintro ⟨h1, h2⟩
      exact ⟨fun ha hh => by obtain ⟨q, hq, hq'⟩ := hh; exact h1 q hq ⟨ha, hq'⟩, h2⟩

variable {K : Type} [Field K] [LinearOrder K]

/-! ## C02: `Matrix{2,3,4}::invert`, `inverse_transform`, `inverse_transform_vector`

One comparison, `det == 0`. -/
section C02
variable [DecidableEq K]

/-- `invert`: `det = 0` (`t_m2_invert_none`, `t_m3_invert_none`, `t_m4_invert_none`: the guard
`.eq a.det 0 true`) and `det ≠ 0` (`t_m2_invert_some`, `t_m3_invert_some`, `t_m4_invert_some`) -/
def invertPaths (d : K) : List Prop := [d = 0, d ≠ 0]
theorem invertPaths_excl (d : K) : Excl (invertPaths d) := by
  simp only [invertPaths, AnyOf, Excl]; tauto
theorem invertPaths_cover (d : K) : AnyOf (invertPaths d) ↔ True := by
  simp only [invertPaths, AnyOf, Excl]; tauto

def m2InvertPaths (a : M2 K) : List Prop := invertPaths a.det
def m3InvertPaths (a : M3 K) : List Prop := invertPaths a.det
def m4InvertPaths (a : M4 K) : List Prop := invertPaths a.det
theorem m2_invert_excl (a : M2 K) : Excl (m2InvertPaths a) := invertPaths_excl _
theorem m3_invert_excl (a : M3 K) : Excl (m3InvertPaths a) := invertPaths_excl _
theorem m4_invert_excl (a : M4 K) : Excl (m4InvertPaths a) := invertPaths_excl _
/-- exhaustive -/
theorem m2_invert_cover (a : M2 K) : AnyOf (m2InvertPaths a) ↔ True := invertPaths_cover _
/-- exhaustive -/
theorem m3_invert_cover (a : M3 K) : AnyOf (m3InvertPaths a) ↔ True := invertPaths_cover _
/-- exhaustive -/
theorem m4_invert_cover (a : M4 K) : AnyOf (m4InvertPaths a) ↔ True := invertPaths_cover _

/-- `Transform::inverse_transform` for `Matrix3` (both as `Transform<Point2>` and as `Transform<Point3>`)
and `Matrix4`: only the `Some` path is traced under this entry point (`t_m3_inverse_transform_some`,
`t_m3_inverse_transform2_some`, `t_m4_inverse_transform_some`).
Untraced path: `det = 0` (the source is `self.invert()`, whose `None` path is traced as `invert`). -/
def m3InverseTransformPaths (a : M3 K) : List Prop := [a.det ≠ 0]
def m4InverseTransformPaths (a : M4 K) : List Prop := [a.det ≠ 0]
theorem m3_inverse_transform_excl (a : M3 K) : Excl (m3InverseTransformPaths a) := by
  simp only [m3InverseTransformPaths, AnyOf, Excl]; tauto
theorem m4_inverse_transform_excl (a : M4 K) : Excl (m4InverseTransformPaths a) := by
  simp only [m4InverseTransformPaths, AnyOf, Excl]; tauto
/-- NOT exhaustive: covered exactly the invertible matrices -/
theorem m3_inverse_transform_cover (a : M3 K) : AnyOf (m3InverseTransformPaths a) ↔ a.det ≠ 0 := by
  simp only [m3InverseTransformPaths, AnyOf, Excl]; tauto
/-- NOT exhaustive: covered exactly the invertible matrices -/
theorem m4_inverse_transform_cover (a : M4 K) : AnyOf (m4InverseTransformPaths a) ↔ a.det ≠ 0 := by
  simp only [m4InverseTransformPaths, AnyOf, Excl]; tauto
/-- together with the `None` path of `invert` (same code) nothing is left -/
theorem m3_inverse_transform_with_invert (a : M3 K) :
    AnyOf (m3InverseTransformPaths a ++ [a.det = 0]) ↔ True := by
  simp only [m3InverseTransformPaths, List.cons_append, List.nil_append, AnyOf]; tauto
theorem m4_inverse_transform_with_invert (a : M4 K) :
    AnyOf (m4InverseTransformPaths a ++ [a.det = 0]) ↔ True := by
  simp only [m4InverseTransformPaths, List.cons_append, List.nil_append, AnyOf]; tauto

/-- `inverse_transform_vector` (trait default: `inverse_transform().map(..)`):
`Matrix3`: only `Some` (`t_m3_inverse_transform_vector_some`); untraced: `det = 0`.
`Matrix4`: only `None` (`t_m4_inverse_transform_vector_none`, guard `.eq a.det 0 true`); untraced: `det ≠ 0`. -/
def m3InverseTransformVectorPaths (a : M3 K) : List Prop := [a.det ≠ 0]
def m4InverseTransformVectorPaths (a : M4 K) : List Prop := [a.det = 0]
/-- NOT exhaustive -/
theorem m3_inverse_transform_vector_cover (a : M3 K) :
    AnyOf (m3InverseTransformVectorPaths a) ↔ a.det ≠ 0 := by
  simp only [m3InverseTransformVectorPaths, AnyOf, Excl]; tauto
/-- NOT exhaustive -/
theorem m4_inverse_transform_vector_cover (a : M4 K) :
    AnyOf (m4InverseTransformVectorPaths a) ↔ a.det = 0 := by
  simp only [m4InverseTransformVectorPaths, AnyOf, Excl]; tauto
end C02

/-! ## C05: `From<Matrix3> for Quaternion`

`if trace >= 0 {..} else if m[0][0] > m[1][1] && m[0][0] > m[2][2] {..} else if m[1][1] > m[2][2] {..} else {..}`:
six syntactic paths (`&&` short-circuits), five traced. -/
section C05
variable [Transc K]

/-- `t_m3_to_quat_trace`, `t_m3_to_quat_xx`, `t_m3_to_quat_yy`, `t_m3_to_quat_zz`, `t_m3_to_quat_zz2` -/
def toQuatPaths (m : M3 K) : List Prop :=
  [ 0 ≤ m.trace,
    ¬ 0 ≤ m.trace ∧ m.y.y < m.x.x ∧ m.z.z < m.x.x,
    ¬ 0 ≤ m.trace ∧ ¬ m.y.y < m.x.x ∧ m.z.z < m.y.y,
    ¬ 0 ≤ m.trace ∧ ¬ m.y.y < m.x.x ∧ ¬ m.z.z < m.y.y,
    ¬ 0 ≤ m.trace ∧ m.y.y < m.x.x ∧ ¬ m.z.z < m.x.x ∧ ¬ m.z.z < m.y.y ]
/-- the sixth syntactic path: first conjunct of `&&` true, second false, then `m[1][1] > m[2][2]` true -/
def toQuatSixth (m : M3 K) : Prop :=
  ¬ 0 ≤ m.trace ∧ m.y.y < m.x.x ∧ ¬ m.z.z < m.x.x ∧ m.z.z < m.y.y

theorem to_quat_excl (m : M3 K) : Excl (toQuatPaths m) := by
  simp only [toQuatPaths, AnyOf, Excl]; tauto
/-- the sixth path is infeasible in a linear order: `yy < xx ≤ zz < yy` -/
theorem to_quat_sixth_infeasible (m : M3 K) : ¬ toQuatSixth m := by
  rintro ⟨_, h1, h2, h3⟩
  exact absurd (lt_trans (lt_of_lt_of_le h1 (not_lt.mp h2)) h3) (lt_irrefl _)
/-- purely propositionally the five traced paths cover everything but the sixth … -/
theorem to_quat_cover_syntactic (m : M3 K) : AnyOf (toQuatPaths m) ↔ ¬ toQuatSixth m := by
  simp only [toQuatPaths, toQuatSixth, AnyOf, Excl]; tauto
/-- … hence they are exhaustive -/
theorem to_quat_cover (m : M3 K) : AnyOf (toQuatPaths m) ↔ True := by
  rw [to_quat_cover_syntactic]; exact iff_true_intro (to_quat_sixth_infeasible m)

/-! every traced path is inhabited (the shadow inputs of the five traces, over `ℚ`) -/
example : nth (toQuatPaths (M3.new (1 : ℚ) 0 0 0 1 0 0 0 1)) 0 := by simp [toQuatPaths, nth]; norm_num
example : nth (toQuatPaths (M3.new (1 : ℚ) 0 0 0 (-1) 0 0 0 (-1))) 1 := by simp [toQuatPaths, nth]
example : nth (toQuatPaths (M3.new (-1 : ℚ) 0 0 0 1 0 0 0 (-1))) 2 := by simp [toQuatPaths, nth]
example : nth (toQuatPaths (M3.new (-1 : ℚ) 0 0 0 (-1) 0 0 0 1)) 3 := by simp [toQuatPaths, nth]
example : nth (toQuatPaths (M3.new (0 : ℚ) 0 0 0 (-2) 0 0 0 1)) 4 := by simp [toQuatPaths, nth]; norm_num

/-- the paths in the model's vocabulary (`M3.toQuatBranch`): `zz` is reached by two traced paths -/
theorem to_quat_branch_trace (m : M3 K) : m.toQuatBranch = .trace ↔ 0 ≤ m.trace := by
  unfold M3.toQuatBranch; split_ifs <;> simp_all
theorem to_quat_branch_xx (m : M3 K) :
    m.toQuatBranch = .xx ↔ (¬ 0 ≤ m.trace ∧ m.y.y < m.x.x ∧ m.z.z < m.x.x) := by
  unfold M3.toQuatBranch; split_ifs <;> simp_all
theorem to_quat_branch_yy (m : M3 K) :
    m.toQuatBranch = .yy ↔ (¬ 0 ≤ m.trace ∧ ¬ m.y.y < m.x.x ∧ m.z.z < m.y.y) := by
  unfold M3.toQuatBranch; split_ifs <;> grind
theorem to_quat_branch_zz (m : M3 K) :
    m.toQuatBranch = .zz ↔
      ((¬ 0 ≤ m.trace ∧ ¬ m.y.y < m.x.x ∧ ¬ m.z.z < m.y.y) ∨
       (¬ 0 ≤ m.trace ∧ m.y.y < m.x.x ∧ ¬ m.z.z < m.x.x ∧ ¬ m.z.z < m.y.y)) := by
  unfold M3.toQuatBranch; split_ifs <;> grind
end C05

/-! ## C07: `From<Quaternion> for Euler<Rad>`

`if test > sig * unit {pos} else if test < -sig * unit {neg} else {main}`: three syntactic paths, all traced. -/
section C07
variable [Transc K] [Lits K]

/-- `test = qx * qz + qy * qw` (as in `Trace/C07.lean`) -/
def eTest (q : Quat K) : K := q.v.x * q.v.z + q.v.y * q.s
/-- `unit = sqx + sqz + sqy + sqw` (as in `Trace/C07.lean`) -/
def eUnit (q : Quat K) : K := q.v.x * q.v.x + q.v.z * q.v.z + q.v.y * q.v.y + q.s * q.s

/-- `t_q_to_euler_main`, `t_q_to_euler_pos`, `t_q_to_euler_neg` -/
def toEulerPaths (q : Quat K) : List Prop :=
  [ ¬ Lits.sig * eUnit q < eTest q ∧ ¬ eTest q < -Lits.sig * eUnit q,
    Lits.sig * eUnit q < eTest q,
    ¬ Lits.sig * eUnit q < eTest q ∧ eTest q < -Lits.sig * eUnit q ]

/-- exclusive with no assumption at all: `neg` carries the negation of `pos`'s condition -/
theorem to_euler_excl (q : Quat K) : Excl (toEulerPaths q) := by
  simp only [toEulerPaths, AnyOf, Excl]; tauto
/-- exhaustive with no assumption at all (in particular `0 ≤ sig * unit` is not needed) -/
theorem to_euler_cover (q : Quat K) : AnyOf (toEulerPaths q) ↔ True := by
  simp only [toEulerPaths, AnyOf, Excl]; tauto

/-- the three paths are the model's three branches -/
theorem to_euler_branch_main (q : Quat K) :
    q.toEulerBranch = .main ↔ (¬ Lits.sig * eUnit q < eTest q ∧ ¬ eTest q < -Lits.sig * eUnit q) := by
  simp only [Quat.toEulerBranch, eTest, eUnit]; split_ifs <;> simp_all
theorem to_euler_branch_pos (q : Quat K) :
    q.toEulerBranch = .pos ↔ Lits.sig * eUnit q < eTest q := by
  simp only [Quat.toEulerBranch, eTest, eUnit]; split_ifs <;> simp_all
theorem to_euler_branch_neg (q : Quat K) :
    q.toEulerBranch = .neg ↔ (¬ Lits.sig * eUnit q < eTest q ∧ eTest q < -Lits.sig * eUnit q) := by
  simp only [Quat.toEulerBranch, eTest, eUnit]; split_ifs <;> simp_all

/-- where `0 ≤ sig * unit` matters: it is exactly what makes the *unordered* descriptions
"`sig * unit < test`" and "`test < -sig * unit`" exclusive, i.e. what makes the first hypothesis of
`t_q_to_euler_neg` redundant. -/
theorem to_euler_neg_alone [IsStrictOrderedRing K] (q : Quat K) (h : 0 ≤ Lits.sig * eUnit q) :
    (¬ Lits.sig * eUnit q < eTest q ∧ eTest q < -Lits.sig * eUnit q) ↔ eTest q < -Lits.sig * eUnit q := by
  constructor
  · exact fun h' => h'.2
  · intro h'; refine ⟨?_, h'⟩
    rw [neg_mul] at h'
    intro h''; linarith
/-- the exact condition: the two tests overlap iff `sig * unit < 0` (order compatible with the ring) -/
theorem to_euler_tests_overlap_iff [IsStrictOrderedRing K] (q : Quat K) :
    (∃ t : K, Lits.sig * eUnit q < t ∧ t < -Lits.sig * eUnit q) ↔ Lits.sig * eUnit q < 0 := by
  rw [neg_mul]
  constructor
  · rintro ⟨t, h1, h2⟩; linarith
  · intro h; exact ⟨0, h, by linarith⟩
omit [Transc K] [Lits K] in
/-- `unit` is a sum of squares, so `0 ≤ sig` is enough -/
theorem eUnit_nonneg [IsStrictOrderedRing K] (q : Quat K) : 0 ≤ eUnit q := by
  unfold eUnit; nlinarith [mul_self_nonneg q.v.x, mul_self_nonneg q.v.y, mul_self_nonneg q.v.z, mul_self_nonneg q.s]
theorem sig_mul_eUnit_nonneg [IsStrictOrderedRing K] (q : Quat K) (h : (0 : K) ≤ Lits.sig) :
    0 ≤ Lits.sig * eUnit q := mul_nonneg h (eUnit_nonneg q)
/-- the hypothesis of `to_euler_neg_alone` is satisfiable: the rationals with `sig = 0.499` -/
example : ∃ L : Lits ℚ, ∀ q : Quat ℚ, 0 ≤ (L.sig : ℚ) * eUnit q :=
  ⟨⟨9995 / 10000, 499 / 1000, 6, 1, 1, 1 / 1000000⟩, fun q => mul_nonneg (by norm_num) (eUnit_nonneg q)⟩
end C07

/-! ## C13: `Angle::normalize`, `normalize_signed`, `opposite`, `bisect`

`rem < 0` on `Rad`/`Deg` goes through the derived `partial_cmp`: the trace records a three-way
comparison, so `rem = 0` is a path of its own (it executes the same `else` arm as `0 < rem`).
All statements are about the remainder `FRem.frem a T` as an uninterpreted value. -/
section C13
variable [FRem K] [Lits K]

/-! ### `normalize` -/
/-- `Deg::normalize`: `t_deg_normalize_pos`, `t_deg_normalize_neg`, `t_deg_normalize_zero` -/
def degNormalizePaths (a : K) : List Prop :=
  [ 0 < FRem.frem a (360 : K), FRem.frem a (360 : K) < 0, FRem.frem a (360 : K) = 0 ]
/-- `Rad::normalize`: `t_rad_normalize_pos`, `t_rad_normalize_neg` -/
def radNormalizePaths (a : K) : List Prop :=
  [ 0 < FRem.frem a (Lits.radFull : K), FRem.frem a (Lits.radFull : K) < 0 ]
/-- untraced path of `Rad::normalize`: the comparison comes out `Equal` -/
def radNormalizeUntraced (a : K) : List Prop := [ FRem.frem a (Lits.radFull : K) = 0 ]

theorem deg_normalize_excl (a : K) : Excl (degNormalizePaths a) := by
  simp only [degNormalizePaths, AnyOf, Excl]; grind
/-- exhaustive -/
theorem deg_normalize_cover (a : K) : AnyOf (degNormalizePaths a) ↔ True := by
  simp only [degNormalizePaths, AnyOf, Excl]; grind
theorem rad_normalize_excl (a : K) : Excl (radNormalizePaths a) := by
  simp only [radNormalizePaths, AnyOf, Excl]; grind
/-- NOT exhaustive (this file's path list; the remainder was traced later: exhaustive in `Cover2.rad_normalize_cover`): covered exactly the angles whose remainder is not zero -/
theorem rad_normalize_cover (a : K) : AnyOf (radNormalizePaths a) ↔ FRem.frem a (Lits.radFull : K) ≠ 0 := by
  simp only [radNormalizePaths, AnyOf, Excl]; grind
theorem rad_normalize_complement (a : K) : AnyOf (radNormalizePaths a) ↔ ¬ AnyOf (radNormalizeUntraced a) := by
  simp only [radNormalizePaths, radNormalizeUntraced, AnyOf, Excl]; grind

/-! ### `normalize_signed` -/
/-- `Deg::normalize_signed`: `t_deg_normalize_signed_hi`, `…_lo`, `…_neg_hi`, `…_neg_lo` -/
def degNormalizeSignedPaths (a : K) : List Prop :=
  [ 0 < FRem.frem a (360 : K) ∧ (360 : K) / 2 < FRem.frem a 360,
    0 < FRem.frem a (360 : K) ∧ FRem.frem a 360 < (360 : K) / 2,
    FRem.frem a (360 : K) < 0 ∧ (360 : K) / 2 < FRem.frem a 360 + 360,
    FRem.frem a (360 : K) < 0 ∧ FRem.frem a 360 + 360 < (360 : K) / 2 ]
/-- untraced paths of `Deg::normalize_signed`: remainder zero (then either outcome of the second
comparison), or the second comparison `turn_div_2 ? normalize(self)` comes out `Equal` -/
def degNormalizeSignedUntraced (a : K) : List Prop :=
  [ FRem.frem a (360 : K) = 0,
    0 < FRem.frem a (360 : K) ∧ (360 : K) / 2 = FRem.frem a 360,
    FRem.frem a (360 : K) < 0 ∧ (360 : K) / 2 = FRem.frem a 360 + 360 ]
theorem deg_normalize_signed_excl (a : K) : Excl (degNormalizeSignedPaths a) := by
  simp only [degNormalizeSignedPaths, AnyOf, Excl]; grind
/-- NOT exhaustive (this file's path list; the remainder was traced later: exhaustive in `Cover3.deg_normalize_signed_cover_ordered`): covered exactly: remainder non-zero and the normalised angle is not the half turn -/
theorem deg_normalize_signed_cover (a : K) :
    AnyOf (degNormalizeSignedPaths a) ↔
      ((0 < FRem.frem a (360 : K) ∧ FRem.frem a 360 ≠ (360 : K) / 2) ∨
       (FRem.frem a (360 : K) < 0 ∧ FRem.frem a 360 + 360 ≠ (360 : K) / 2)) := by
  simp only [degNormalizeSignedPaths, AnyOf, Excl]; grind
/-- the same in the model's vocabulary -/
theorem deg_normalize_signed_cover_model (a : K) :
    AnyOf (degNormalizeSignedPaths a) ↔
      (FRem.frem a (360 : K) ≠ 0 ∧ Angle.normalize degFull a ≠ Angle.turnDiv (degFull : K) 2) := by
  rw [deg_normalize_signed_cover]
  simp only [Angle.normalize, Angle.turnDiv, degFull, Nat.cast_ofNat]
  split_ifs <;> grind
theorem deg_normalize_signed_complement (a : K) :
    AnyOf (degNormalizeSignedPaths a) ↔ ¬ AnyOf (degNormalizeSignedUntraced a) := by
  simp only [degNormalizeSignedPaths, degNormalizeSignedUntraced, AnyOf, Excl]; grind

/-- `Rad::normalize_signed`: `t_rad_normalize_signed_hi`, `t_rad_normalize_signed_lo` -/
def radNormalizeSignedPaths (a : K) : List Prop :=
  [ 0 < FRem.frem a (Lits.radFull : K) ∧ (Lits.radFull : K) / 2 < FRem.frem a Lits.radFull,
    0 < FRem.frem a (Lits.radFull : K) ∧ FRem.frem a Lits.radFull < (Lits.radFull : K) / 2 ]
/-- untraced paths of `Rad::normalize_signed`: remainder negative or zero (any continuation), or
positive and equal to the half turn -/
def radNormalizeSignedUntraced (a : K) : List Prop :=
  [ FRem.frem a (Lits.radFull : K) < 0,
    FRem.frem a (Lits.radFull : K) = 0,
    0 < FRem.frem a (Lits.radFull : K) ∧ (Lits.radFull : K) / 2 = FRem.frem a Lits.radFull ]
theorem rad_normalize_signed_excl (a : K) : Excl (radNormalizeSignedPaths a) := by
  simp only [radNormalizeSignedPaths, AnyOf, Excl]; grind
/-- NOT exhaustive (this file's path list; the remainder was traced later: exhaustive in `Cover3.rad_normalize_signed_cover_ordered`): covered exactly: positive remainder different from the half turn -/
theorem rad_normalize_signed_cover (a : K) :
    AnyOf (radNormalizeSignedPaths a) ↔
      (0 < FRem.frem a (Lits.radFull : K) ∧ FRem.frem a Lits.radFull ≠ (Lits.radFull : K) / 2) := by
  simp only [radNormalizeSignedPaths, AnyOf, Excl]; grind
theorem rad_normalize_signed_complement (a : K) :
    AnyOf (radNormalizeSignedPaths a) ↔ ¬ AnyOf (radNormalizeSignedUntraced a) := by
  simp only [radNormalizeSignedPaths, radNormalizeSignedUntraced, AnyOf, Excl]; grind

/-! ### `opposite` = `normalize(self + turn_div_2)` -/
/-- `Deg::opposite`: `t_deg_opposite`, `t_deg_opposite_neg` -/
def degOppositePaths (a : K) : List Prop :=
  [ 0 < FRem.frem (a + 360 / 2) (360 : K), FRem.frem (a + 360 / 2) (360 : K) < 0 ]
/-- `Rad::opposite`: `t_rad_opposite` -/
def radOppositePaths (a : K) : List Prop :=
  [ 0 < FRem.frem (a + Lits.radFull / 2) (Lits.radFull : K) ]
theorem deg_opposite_excl (a : K) : Excl (degOppositePaths a) := by
  simp only [degOppositePaths, AnyOf, Excl]; grind
/-- NOT exhaustive (this file's path list; the remainder was traced later: exhaustive in `Cover2.deg_opposite_cover`): untraced: the remainder of `a + 180` is zero -/
theorem deg_opposite_cover (a : K) :
    AnyOf (degOppositePaths a) ↔ FRem.frem (a + 360 / 2) (360 : K) ≠ 0 := by
  simp only [degOppositePaths, AnyOf, Excl]; grind
theorem rad_opposite_excl (a : K) : Excl (radOppositePaths a) := by
  simp only [radOppositePaths, AnyOf, Excl]; tauto
/-- NOT exhaustive (this file's path list; the remainder was traced later: exhaustive in `Cover3.rad_opposite_cover`): untraced: the remainder of `a + π` is negative, or zero -/
theorem rad_opposite_cover (a : K) :
    AnyOf (radOppositePaths a) ↔ 0 < FRem.frem (a + Lits.radFull / 2) (Lits.radFull : K) := by
  simp only [radOppositePaths, AnyOf, Excl]; tauto

/-! ### `bisect` (as repaired) = `normalize(self + normalize_signed(other - self) * 0.5)`; `Deg` only -/
/-- `t_deg_bisect_wrap`, `t_deg_bisect_near` -/
def degBisectPaths (a b : K) : List Prop :=
  [ 0 < FRem.frem (b - a) (360 : K) ∧ (360 : K) / 2 < FRem.frem (b - a) 360 ∧
      0 < FRem.frem (a + (FRem.frem (b - a) 360 - 360) * (1 / 2)) (360 : K),
    0 < FRem.frem (b - a) (360 : K) ∧ FRem.frem (b - a) 360 < (360 : K) / 2 ∧
      0 < FRem.frem (a + FRem.frem (b - a) 360 * (1 / 2)) (360 : K) ]
/-- the signed difference on the paths where the remainder of `b - a` is positive -/
def bisectSigned (a b : K) : K :=
  if (360 : K) / 2 < FRem.frem (b - a) 360 then FRem.frem (b - a) 360 - 360 else FRem.frem (b - a) 360
theorem deg_bisect_excl (a b : K) : Excl (degBisectPaths a b) := by
  simp only [degBisectPaths, AnyOf, Excl]; grind
/-- NOT exhaustive (this file's path list): covered exactly: the remainder of the difference is positive and not the half
turn, and the remainder of the bisector before the last `normalize` is positive.
Not in this list: remainder of `b - a` negative or zero (all continuations); equal to 180; outer remainder
negative or zero; all of `Rad::bisect`.  These were traced later: `Rad::bisect` near / wrap in `Cgm/Trace/C13Paths.lean`
(`Cover2.rad_bisect_cover`), every remaining path of both units in `Cgm/Trace/C13More.lean`; the twenty-one paths are
exhaustive in `Cover3.deg_bisect_cover_ordered` / `Cover3.rad_bisect_cover_ordered`. -/
theorem deg_bisect_cover (a b : K) :
    AnyOf (degBisectPaths a b) ↔
      (0 < FRem.frem (b - a) (360 : K) ∧ FRem.frem (b - a) 360 ≠ (360 : K) / 2 ∧
        0 < FRem.frem (a + bisectSigned a b * (1 / 2)) (360 : K)) := by
  simp only [degBisectPaths, bisectSigned, AnyOf, Excl]
  split_ifs <;> grind
/-- on the covered set `bisectSigned` is the model's `normalize_signed(b - a)` -/
theorem bisectSigned_eq_model (a b : K) (h : 0 < FRem.frem (b - a) (360 : K)) :
    bisectSigned a b = Angle.normalizeSigned degFull (b - a) := by
  have h' : ¬ FRem.frem (b - a) (360 : K) < 0 := not_lt.mpr h.le
  simp [bisectSigned, Angle.normalizeSigned, Angle.normalize, Angle.turnDiv, degFull, h']
end C13

/-! ## C14: `Quaternion::nlerp`, `Quaternion::slerp` -/
section C14
variable [Transc K] [Lits K]

/-- `nlerp`: one comparison `dot < 0`: `t_q_nlerp_pos`, `t_q_nlerp_neg` -/
def nlerpPaths (a b : Quat K) : List Prop := [ ¬ Quat.dot a b < 0, Quat.dot a b < 0 ]
theorem nlerp_excl (a b : Quat K) : Excl (nlerpPaths a b) := by
  simp only [nlerpPaths, AnyOf, Excl]; tauto
/-- exhaustive -/
theorem nlerp_cover (a b : Quat K) : AnyOf (nlerpPaths a b) ↔ True := by
  simp only [nlerpPaths, AnyOf, Excl]; tauto

/-- `slerp`: `t_q_slerp_far_pos`, `t_q_slerp_far_neg`, `t_q_slerp_near`, `t_q_slerp_near_neg`.
Comparisons, in order: `dot < 0` (flip), `thr < dot'` (hand-over to `nlerp`, which tests the sign of
its own dot product again), and on the far side the clamp `dot'.min(1).max(-1)`: `1 < dot'`, `dot' < -1`. -/
def slerpPaths (a b : Quat K) : List Prop :=
  [ ¬ Quat.dot a b < 0 ∧ ¬ Lits.thr < Quat.dot a b ∧ ¬ (1 : K) < Quat.dot a b ∧ ¬ Quat.dot a b < -1,
    Quat.dot a b < 0 ∧ ¬ Lits.thr < -Quat.dot a b ∧ ¬ (1 : K) < -Quat.dot a b ∧ ¬ -Quat.dot a b < -1,
    ¬ Quat.dot a b < 0 ∧ Lits.thr < Quat.dot a b,
    Quat.dot a b < 0 ∧ Lits.thr < -Quat.dot a b ∧ ¬ Quat.dot a (-b) < 0 ]
/-- the untraced paths of `slerp` (each described by its first deviation from a traced path):
the clamp acting from above / from below on either side of the flip, and `nlerp` flipping back the
already flipped far end. -/
def slerpUntraced (a b : Quat K) : List Prop :=
  [ ¬ Quat.dot a b < 0 ∧ ¬ Lits.thr < Quat.dot a b ∧ (1 : K) < Quat.dot a b,
    ¬ Quat.dot a b < 0 ∧ ¬ Lits.thr < Quat.dot a b ∧ ¬ (1 : K) < Quat.dot a b ∧ Quat.dot a b < -1,
    Quat.dot a b < 0 ∧ ¬ Lits.thr < -Quat.dot a b ∧ (1 : K) < -Quat.dot a b,
    Quat.dot a b < 0 ∧ ¬ Lits.thr < -Quat.dot a b ∧ ¬ (1 : K) < -Quat.dot a b ∧ -Quat.dot a b < -1,
    Quat.dot a b < 0 ∧ Lits.thr < -Quat.dot a b ∧ Quat.dot a (-b) < 0 ]

theorem slerp_excl (a b : Quat K) : Excl (slerpPaths a b) := by
  simp only [slerpPaths, AnyOf, Excl]; tauto
/-- traced and untraced paths together are still pairwise exclusive … -/
theorem slerp_all_excl (a b : Quat K) : Excl (slerpPaths a b ++ slerpUntraced a b) := by
  simp only [slerpPaths, slerpUntraced, List.cons_append, List.nil_append, AnyOf, Excl]
  repeat' apply And.intro
  all_goals tauto
/-- … and exhaustive, so that (no assumption on the order): the covered set is exactly the
complement of the untraced paths -/
theorem slerp_cover (a b : Quat K) : AnyOf (slerpPaths a b) ↔ ¬ AnyOf (slerpUntraced a b) := by
  simp only [slerpPaths, slerpUntraced, AnyOf, Excl]
  by_cases h0 : Quat.dot a b < 0 <;>
    simp only [h0, true_and, false_and, not_true_eq_false, not_false_eq_true, or_false, false_or] <;> tauto
/-- the same, readable: on the far side the (possibly negated) dot product lies in `[-1, 1]`; on the
negated near side the recomputed dot product is not negative -/
theorem slerp_cover_explicit (a b : Quat K) :
    AnyOf (slerpPaths a b) ↔
      ((0 ≤ Quat.dot a b ∧ Quat.dot a b ≤ Lits.thr ∧ Quat.dot a b ≤ 1 ∧ -1 ≤ Quat.dot a b) ∨
       (Quat.dot a b < 0 ∧ -Quat.dot a b ≤ Lits.thr ∧ -Quat.dot a b ≤ 1 ∧ -1 ≤ -Quat.dot a b) ∨
       (0 ≤ Quat.dot a b ∧ Lits.thr < Quat.dot a b) ∨
       (Quat.dot a b < 0 ∧ Lits.thr < -Quat.dot a b ∧ 0 ≤ Quat.dot a (-b))) := by
  simp only [slerpPaths, AnyOf, Excl, not_lt, or_false]

theorem dot_neg_right (a b : Quat K) : Quat.dot a (-b) = -Quat.dot a b := by
  simp [Quat.dot, Quat.fromSv]; ring
/-- when the order is compatible with the arithmetic and `thr ≤ 1` (the code's `0.9995`), every
untraced path of `slerp` is infeasible: the clamp never acts on exact scalars … -/
theorem slerp_untraced_infeasible [IsStrictOrderedRing K] (a b : Quat K) (hthr : (Lits.thr : K) ≤ 1) :
    ¬ AnyOf (slerpUntraced a b) := by
  simp only [slerpUntraced, AnyOf, Excl, dot_neg_right, not_lt, or_false]
  rintro (h | h | h | h | h)
  · linarith [h.1, h.2.1, h.2.2]
  · linarith [h.1, h.2.2.2]
  · linarith [h.1, h.2.1, h.2.2]
  · linarith [h.1, h.2.2.2]
  · linarith [h.1, h.2.2]
/-- … and the four traced paths are exhaustive -/
theorem slerp_cover_ordered [IsStrictOrderedRing K] (a b : Quat K) (hthr : (Lits.thr : K) ≤ 1) :
    AnyOf (slerpPaths a b) ↔ True := by
  rw [slerp_cover]; exact iff_true_intro (slerp_untraced_infeasible a b hthr)
end C14

/-- the hypothesis of `slerp_cover_ordered` is satisfiable: the rationals with `thr = 0.9995` -/
example : ∃ L : Lits ℚ, (L.thr : ℚ) ≤ 1 := ⟨⟨9995 / 10000, 499 / 1000, 6, 1, 1, 1 / 1000000⟩, by norm_num⟩

/-! ## C10: `frustum`, `PerspectiveFov`, `PlanarFov` -/
section C10
variable [Approx K] [Transc K] [Lits K]

/-- `frustum`: three `assert!`s in sequence: `t_frustum_ok`, `t_frustum_bad_lr`, `t_frustum_bad_bt`, `t_frustum_bad_nf` -/
def frustumPaths (l r b t n f : K) : List Prop :=
  [ l ≤ r ∧ b ≤ t ∧ n ≤ f,
    ¬ l ≤ r,
    l ≤ r ∧ ¬ b ≤ t,
    l ≤ r ∧ b ≤ t ∧ ¬ n ≤ f ]
theorem frustum_excl (l r b t n f : K) : Excl (frustumPaths l r b t n f) := by
  simp only [frustumPaths, AnyOf, Excl]; tauto
/-- exhaustive -/
theorem frustum_cover (l r b t n f : K) : AnyOf (frustumPaths l r b t n f) ↔ True := by
  simp only [frustumPaths, AnyOf, Excl]; tauto

/-- `From<PerspectiveFov> for Matrix4`: `t_perspective_ok`, `t_perspective_bad_fovy`, `t_perspective_bad_near`.
The comparison `a < 0` is the one inside `aspect.abs()`; `fovy > 0` and `fovy < turn_div_2` are
three-way comparisons of `Rad`. -/
def perspectivePaths (fovy a n f : K) : List Prop :=
  [ 0 < fovy ∧ fovy < Lits.radFull / 2 ∧ ¬ a < 0 ∧ absDiffEqD a (0 : K) = false ∧ 0 < n ∧ 0 < f ∧
      absDiffEqD f n = false,
    fovy < 0,
    0 < fovy ∧ fovy < Lits.radFull / 2 ∧ ¬ a < 0 ∧ absDiffEqD a (0 : K) = false ∧ ¬ 0 < n ]
theorem perspective_excl (fovy a n f : K) : Excl (perspectivePaths fovy a n f) := by
  simp only [perspectivePaths, AnyOf, Excl]; grind
/-- NOT exhaustive (this file's path list; the remainder was traced later: exhaustive in `Cover4.perspective_cover`).  Covered exactly: negative `fovy` (panic); or `0 < fovy < π`, aspect not negative
and not ≈ 0, and either `near` not positive (panic) or `far` positive and not ≈ `near` (ok).
Untraced: `fovy = 0` (panic, outcome `Equal`); `fovy ≥ π` (panic, outcomes `Equal`/`Greater`);
negative aspect (all continuations, including the successful one); aspect ≈ 0 (panic);
`near > 0` with `far ≤ 0` (panic); `far ≈ near` (panic). -/
theorem perspective_cover (fovy a n f : K) :
    AnyOf (perspectivePaths fovy a n f) ↔
      (fovy < 0 ∨
       (0 < fovy ∧ fovy < Lits.radFull / 2 ∧ 0 ≤ a ∧ absDiffEqD a (0 : K) = false ∧
         (n ≤ 0 ∨ (0 < f ∧ absDiffEqD f n = false)))) := by
  simp only [perspectivePaths, AnyOf, Excl]; grind

/-- `From<PlanarFov> for Matrix4`: one path, `t_planar_ok` (`near < far` is the comparison inside
`S::min(far, near)`; `S::max` is not evaluated on this path, `||` short-circuits) -/
def planarPaths (fovy a h n f : K) : List Prop :=
  [ -(Lits.radFull / 2) < fovy ∧ fovy < Lits.radFull / 2 ∧ 0 ≤ h ∧ ¬ a < 0 ∧ absDiffEqD a (0 : K) = false ∧
      absDiffEqD f n = false ∧ n < f ∧ -(1 / planarInvF fovy h) < n ∧
      ¬ ((¬ Rad.tan (fovy / (two : K)) < 0 ∧ ¬ 0 < Rad.tan (fovy / (two : K))) ∧ ¬ 0 < h) ]
theorem planar_excl (fovy a h n f : K) : Excl (planarPaths fovy a h n f) := by
  simp only [planarPaths, AnyOf, Excl]; tauto
/-- NOT exhaustive (this file's path list; the remainder was traced later: `Cover2.planar_cover`, then `Cover4.planar_cover` / `Cover4.planar_cover_regular`): the successful path of `Trace/C10.lean` only (the failing `assert!`s, the negative aspect, `far < near` and
the focal point beyond the farther plane are traced in `Trace/C10Paths.lean`, added later and not listed here).  The last
conjunct excludes `tan(fovy/2) = 0 ∧ height = 0`, where the code's `inv_f` is `0/0` and exact and IEEE arithmetic differ. -/
theorem planar_cover (fovy a h n f : K) :
    AnyOf (planarPaths fovy a h n f) ↔
      (-(Lits.radFull / 2) < fovy ∧ fovy < Lits.radFull / 2 ∧ 0 ≤ h ∧ 0 ≤ a ∧ absDiffEqD a (0 : K) = false ∧
        absDiffEqD f n = false ∧ n < f ∧ -(1 / planarInvF fovy h) < n ∧
        ¬ ((¬ Rad.tan (fovy / (two : K)) < 0 ∧ ¬ 0 < Rad.tan (fovy / (two : K))) ∧ ¬ 0 < h)) := by
  simp only [planarPaths, AnyOf, Excl, or_false]
  constructor
  · rintro ⟨a1, a2, a3, a4, a5, a6, a7, a8, a9⟩; exact ⟨a1, a2, a3, not_lt.mp a4, a5, a6, a7, a8, a9⟩
  · rintro ⟨a1, a2, a3, a4, a5, a6, a7, a8, a9⟩; exact ⟨a1, a2, a3, not_lt.mpr a4, a5, a6, a7, a8, a9⟩
end C10

/-! ## C11: the default `InnerSpace::angle` (as repaired: clamp before `acos`) -/
section C11
variable [Transc K]

/-- the two comparisons of `clampUnit c`: `1 < c`, then `c < -1` -/
def clampUnclamped (c : K) : Prop := ¬ 1 < c ∧ ¬ c < -1
def clampHigh (c : K) : Prop := 1 < c
def clampLow (c : K) : Prop := ¬ 1 < c ∧ c < -1

/-- `Vector4::angle`: `t_v4_angle` (unclamped), `t_v4_angle_clamped` (clamped from above) -/
def v4AnglePaths (a b : V4 K) : List Prop :=
  [ clampUnclamped (V4.dot a b / (a.magnitude * b.magnitude)),
    clampHigh (V4.dot a b / (a.magnitude * b.magnitude)) ]
def v4AngleUntraced (a b : V4 K) : List Prop := [ clampLow (V4.dot a b / (a.magnitude * b.magnitude)) ]
theorem v4_angle_excl (a b : V4 K) : Excl (v4AnglePaths a b) := by
  simp only [v4AnglePaths, clampUnclamped, clampHigh, AnyOf, Excl]; tauto
theorem v4_angle_complement (a b : V4 K) : AnyOf (v4AnglePaths a b) ↔ ¬ AnyOf (v4AngleUntraced a b) := by
  simp only [v4AnglePaths, v4AngleUntraced, clampUnclamped, clampHigh, clampLow, AnyOf, Excl]; tauto
/-- NOT exhaustive (this file's path list; the remainder was traced later: exhaustive in `Cover2.v4_angle_cover`): untraced: the cosine is clamped from below.  In an arbitrary linear order: -/
theorem v4_angle_cover (a b : V4 K) :
    AnyOf (v4AnglePaths a b) ↔
      (1 < V4.dot a b / (a.magnitude * b.magnitude) ∨ -1 ≤ V4.dot a b / (a.magnitude * b.magnitude)) := by
  simp only [v4AnglePaths, clampUnclamped, clampHigh, AnyOf, Excl]; grind
/-- with `-1 < 1`: covered exactly the pairs whose cosine is at least `-1` -/
theorem v4_angle_cover_ordered [IsStrictOrderedRing K] (a b : V4 K) :
    AnyOf (v4AnglePaths a b) ↔ -1 ≤ V4.dot a b / (a.magnitude * b.magnitude) := by
  rw [v4_angle_cover]
  constructor
  · rintro (h | h)
    · linarith
    · exact h
  · exact Or.inr

/-- `Quaternion::angle`: `t_q_angle` (unclamped) only -/
def qAnglePaths (a b : Quat K) : List Prop :=
  [ clampUnclamped (Quat.dot a b / (a.magnitude * b.magnitude)) ]
def qAngleUntraced (a b : Quat K) : List Prop :=
  [ clampHigh (Quat.dot a b / (a.magnitude * b.magnitude)),
    clampLow (Quat.dot a b / (a.magnitude * b.magnitude)) ]
theorem q_angle_excl (a b : Quat K) : Excl (qAnglePaths a b) := by
  simp only [qAnglePaths, AnyOf, Excl]; tauto
theorem q_angle_complement (a b : Quat K) : AnyOf (qAnglePaths a b) ↔ ¬ AnyOf (qAngleUntraced a b) := by
  simp only [qAnglePaths, qAngleUntraced, clampUnclamped, clampHigh, clampLow, AnyOf, Excl]; tauto
/-- NOT exhaustive (this file's path list; the remainder was traced later: exhaustive in `Cover2.q_angle_cover`): covered exactly the pairs whose cosine is in `[-1, 1]`; both clamped paths are untraced -/
theorem q_angle_cover (a b : Quat K) :
    AnyOf (qAnglePaths a b) ↔
      (-1 ≤ Quat.dot a b / (a.magnitude * b.magnitude) ∧ Quat.dot a b / (a.magnitude * b.magnitude) ≤ 1) := by
  simp only [qAnglePaths, clampUnclamped, AnyOf, Excl, not_lt, or_false]; tauto
end C11

/-! ## C08: `Decomposed::inverse_transform`, `inverse_transform_vector`, `look_at_{lh,rh}` (quaternion rotation) -/
section C08
variable [Approx K] [Transc K] [Lits K]

/-- `inverse_transform`: one comparison, `ulps_eq!(scale, 0)`: `t_dq_inverse_transform_some`
(hypothesis) and `t_dq_inverse_transform_none` (no hypothesis; the guard `.ulps d.scale 0 eps52 4 true`) -/
def dqInverseTransformPaths (d : Decomposed (Quat K) (V3 K) K) : List Prop :=
  [ ulpsEqD d.scale 0 = false, ulpsEqD d.scale 0 = true ]
theorem dq_inverse_transform_excl (d : Decomposed (Quat K) (V3 K) K) : Excl (dqInverseTransformPaths d) := by
  simp only [dqInverseTransformPaths, AnyOf, Excl]; grind
/-- exhaustive (the model's third outcome, `.panic` when the rotation has no inverse, cannot occur
for a quaternion: `quatOps.invert?` is always `some`) -/
theorem dq_inverse_transform_cover (d : Decomposed (Quat K) (V3 K) K) :
    AnyOf (dqInverseTransformPaths d) ↔ True := by
  simp only [dqInverseTransformPaths, AnyOf, Excl]; grind
theorem quatOps_invert_some (q : Quat K) : (quatOps (α := K)).invert? q = some q.invert := rfl

/-- `inverse_transform_vector`: only `t_dq_inverse_transform_vector` (scale not ≈ 0) -/
def dqInverseTransformVectorPaths (d : Decomposed (Quat K) (V3 K) K) : List Prop :=
  [ ulpsEqD d.scale 0 = false ]
/-- NOT exhaustive: untraced: `ulps_eq!(scale, 0)` true (result `None`) -/
theorem dq_inverse_transform_vector_cover (d : Decomposed (Quat K) (V3 K) K) :
    AnyOf (dqInverseTransformVectorPaths d) ↔ ulpsEqD d.scale 0 = false := by
  simp only [dqInverseTransformVectorPaths, AnyOf, Excl, or_false]

/-- `Decomposed::look_at_lh` (quaternion): only the path on which `From<Matrix3> for Quaternion` takes
its `trace` branch (`t_dq_look_at_lh`) -/
def dqLookAtLhPaths (e c : P3 K) (u : V3 K) : List Prop := [ 0 ≤ (M3.lookToLh (c - e) u).trace ]
/-- `Decomposed::look_at_rh` (quaternion): only the path on which it takes its `yy` branch through
`¬ yy < xx` (`t_dq_look_at_rh`) -/
def dqLookAtRhPaths (e c : P3 K) (u : V3 K) : List Prop :=
  [ ¬ 0 ≤ (M3.lookToLh (e - c) u).trace ∧
    ¬ (M3.lookToLh (e - c) u).y.y < (M3.lookToLh (e - c) u).x.x ∧
    (M3.lookToLh (e - c) u).z.z < (M3.lookToLh (e - c) u).y.y ]
/-- NOT exhaustive: one of the five paths of the conversion; the other four are untraced under this
entry point (they are traced as `m3.to_quat`) -/
theorem dq_look_at_lh_cover (e c : P3 K) (u : V3 K) :
    AnyOf (dqLookAtLhPaths e c u) ↔ (M3.lookToLh (c - e) u).toQuatBranch = .trace := by
  rw [to_quat_branch_trace]; simp only [dqLookAtLhPaths, AnyOf, or_false]
/-- NOT exhaustive: one of the five paths of the conversion -/
theorem dq_look_at_rh_cover (e c : P3 K) (u : V3 K) :
    AnyOf (dqLookAtRhPaths e c u) ↔ (M3.lookToLh (e - c) u).toQuatBranch = .yy := by
  rw [to_quat_branch_yy]; simp only [dqLookAtRhPaths, AnyOf, or_false]
end C08

/-! ## C09: `Matrix2::look_at` and the 2-D `Transform::look_at_{lh,rh}` of `Matrix3` -/
section C09
variable [Transc K]

/-- `Matrix2::look_at`: one comparison `up.y * dir.x ≤ up.x * dir.y`: `t_m2_look_at_flip`, `t_m2_look_at_noflip` -/
def m2LookAtPaths (d u : V2 K) : List Prop := [ u.y * d.x ≤ u.x * d.y, ¬ u.y * d.x ≤ u.x * d.y ]
theorem m2_look_at_excl (d u : V2 K) : Excl (m2LookAtPaths d u) := by
  simp only [m2LookAtPaths, AnyOf, Excl]; tauto
/-- exhaustive -/
theorem m2_look_at_cover (d u : V2 K) : AnyOf (m2LookAtPaths d u) ↔ True := by
  simp only [m2LookAtPaths, AnyOf, Excl]; tauto
/-- `Transform<Point2>::look_at_lh for Matrix3`: only the no-flip path (`t_m3_tlook_at2_lh`) -/
def m3LookAt2LhPaths (e c : P2 K) (u : V2 K) : List Prop := [ ¬ u.y * (c - e).x ≤ u.x * (c - e).y ]
/-- `Transform<Point2>::look_at_rh for Matrix3`: only the flip path (`t_m3_tlook_at2_rh`) -/
def m3LookAt2RhPaths (e c : P2 K) (u : V2 K) : List Prop := [ u.y * (e - c).x ≤ u.x * (e - c).y ]
/-- NOT exhaustive: untraced: the flip path (it is `Matrix2::look_at`'s, traced there) -/
theorem m3_look_at2_lh_cover (e c : P2 K) (u : V2 K) :
    AnyOf (m3LookAt2LhPaths e c u) ↔ u.x * (c.y - e.y) < u.y * (c.x - e.x) := by
  simp only [m3LookAt2LhPaths, AnyOf, Excl, or_false, not_le, P2.subp_def]
/-- NOT exhaustive: untraced: the no-flip path -/
theorem m3_look_at2_rh_cover (e c : P2 K) (u : V2 K) :
    AnyOf (m3LookAt2RhPaths e c u) ↔ u.y * (e.x - c.x) ≤ u.x * (e.y - c.y) := by
  simp only [m3LookAt2RhPaths, AnyOf, Excl, or_false, P2.subp_def]
end C09

/-! ## C15: `Quaternion::between_vectors`, `Quaternion::from_arc`

(`Basis2::between_vectors`, as repaired, makes no comparison.) -/
section C15
variable [Approx K] [Transc K] [Lits K]

/-- `t_q_between_vectors_general`, `t_q_between_vectors_same` -/
def betweenVectorsPaths (a b : V3 K) : List Prop :=
  [ ulpsEqD (V3.dot a b) 1 = false ∧
      ulpsEqD (V3.dot a b / Transc.sqrt (a.magnitude2 * b.magnitude2)) (-1) = false,
    ulpsEqD (V3.dot a b) 1 = true ]
/-- untraced: the antiparallel branch (with its own test choosing the orthogonal axis) -/
def betweenVectorsUntraced (a b : V3 K) : List Prop :=
  [ ulpsEqD (V3.dot a b) 1 = false ∧
      ulpsEqD (V3.dot a b / Transc.sqrt (a.magnitude2 * b.magnitude2)) (-1) = true ]
theorem between_vectors_excl (a b : V3 K) : Excl (betweenVectorsPaths a b) := by
  simp only [betweenVectorsPaths, AnyOf, Excl]; grind
theorem between_vectors_complement (a b : V3 K) :
    AnyOf (betweenVectorsPaths a b) ↔ ¬ AnyOf (betweenVectorsUntraced a b) := by
  simp only [betweenVectorsPaths, betweenVectorsUntraced, AnyOf, Excl]; grind
/-- NOT exhaustive (this file's path list; the remainder was traced later: exhaustive in `Cover2.between_vectors_cover`): covered exactly the pairs on which the model does not take its `opposite` branch -/
theorem between_vectors_cover (a b : V3 K) :
    AnyOf (betweenVectorsPaths a b) ↔ Quat.betweenVectorsBranch a b ≠ .opposite := by
  simp only [betweenVectorsPaths, AnyOf, Excl, Quat.betweenVectorsBranch]
  split_ifs <;> simp_all

/-- `t_q_from_arc_general`, `t_q_from_arc_same` (both with `fallback = None`) -/
def fromArcPaths (a b : V3 K) : List Prop :=
  [ ulpsEqD (V3.dot a b) (Transc.sqrt (a.magnitude2 * b.magnitude2)) = false ∧
      ulpsEqD (V3.dot a b) (-Transc.sqrt (a.magnitude2 * b.magnitude2)) = false,
    ulpsEqD (V3.dot a b) (Transc.sqrt (a.magnitude2 * b.magnitude2)) = true ]
/-- untraced: the antiparallel branch (fallback axis given or computed, and inside the computation
the test `ulps_eq!(v, zero)`), and every call with `fallback = Some(..)` -/
def fromArcUntraced (a b : V3 K) : List Prop :=
  [ ulpsEqD (V3.dot a b) (Transc.sqrt (a.magnitude2 * b.magnitude2)) = false ∧
      ulpsEqD (V3.dot a b) (-Transc.sqrt (a.magnitude2 * b.magnitude2)) = true ]
theorem from_arc_excl (a b : V3 K) : Excl (fromArcPaths a b) := by
  simp only [fromArcPaths, AnyOf, Excl]; grind
theorem from_arc_complement (a b : V3 K) : AnyOf (fromArcPaths a b) ↔ ¬ AnyOf (fromArcUntraced a b) := by
  simp only [fromArcPaths, fromArcUntraced, AnyOf, Excl]; grind
/-- NOT exhaustive (this file's path list; the remainder was traced later: `Cover2.from_arc_cover`, exhaustive in `Cover4.from_arc_cover` given `ulps_eq!(0, 0)`): covered exactly the pairs on which the model does not take its `opposite` branch -/
theorem from_arc_cover (a b : V3 K) :
    AnyOf (fromArcPaths a b) ↔ Quat.fromArcBranch a b ≠ .opposite := by
  simp only [fromArcPaths, AnyOf, Excl, Quat.fromArcBranch]
  split_ifs <;> simp_all
end C15
end Cg.Trace.Cover
