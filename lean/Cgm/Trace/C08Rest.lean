import Cgm.Gen.C08
import Cgm.Model.Transform
/-! # T obligations for C08, remaining kernels: the harness's round trip of a `Decomposed` argument (`*.id`: build the
value from the flat input, flatten it again: this is what fixes the meaning of the flat encodings used by every other
`Decomposed` kernel), and `Transform<Point2>::inverse_transform_vector` of `Matrix3`, both outcomes -/
set_option linter.unusedSectionVars false
namespace Cg.Trace.C08Rest
open Cg Cg.Gen.C08
variable {K : Type} [Field K] [DecidableEq K] [Transc K] [FRem K] [Lits K]

abbrev DQ (K : Type) := Decomposed (Quat K) (V3 K) K
abbrev DB3 (K : Type) := Decomposed (Basis3 K) (V3 K) K
abbrev DB2 (K : Type) := Decomposed (Basis2 K) (V2 K) K
def flq (d : DQ K) : List K := d.scale :: d.rot.toList ++ d.disp.toList
def flb3 (d : DB3 K) : List K := d.scale :: d.rot.mat.toList ++ d.disp.toList
def flb2 (d : DB2 K) : List K := d.scale :: d.rot.mat.toList ++ d.disp.toList
/-- the harness's `Decomposed<Vector3, Basis3>` argument: scale, quaternion (converted with `Basis3::from`), displacement -/
def mk3 (s : K) (q : Quat K) (u : V3 K) : DB3 K := ⟨s, Basis3.fromQuaternion q, u⟩
/-- the harness's `Decomposed<Vector2, Basis2>` argument: scale, angle (`Rotation2::from_angle`), displacement -/
def mk2 (s a : K) (u : V2 K) : DB2 K := ⟨s, ⟨M2.fromAngle a⟩, u⟩
attribute [local simp] flq flb3 flb2 mk3 mk2 Basis3.fromQuaternion Quat.toM3 M2.fromAngle

theorem t_dq_id (d : DQ K) : t_dq_id (envL (flq d)) = .okS (flq d) := by tr_auto
theorem t_db3_id (s : K) (q : Quat K) (u : V3 K) :
    t_db3_id (envL (s :: q.toList ++ u.toList)) = .okS (flb3 (mk3 s q u)) := by tr_auto
theorem t_db2_id (s a : K) (u : V2 K) :
    t_db2_id (envL ([s, a] ++ u.toList)) = .okS (flb2 (mk2 s a u)) := by tr_auto

/-! `inverse_transform_vector` (default method): `self.inverse_transform().map(|inv| inv.transform_vector(vec))`;
the only comparison is `det == 0` inside `Matrix3::invert` -/
theorem t_m3_inverse_transform_vector2_some (a : M3 K) (u : V2 K) (h : a.det ≠ 0) :
    t_m3_inverse_transform_vector2_some (envL (a.toList ++ u.toList)) =
        .okG (((a.inverseTransformVector2 u).map V2.toList).getD []) [.eq a.det 0 false] ∧
      (a.inverseTransformVector2 u).isSome := by
  have h' := h
  simp only [M3.det] at h'
  constructor
  · simp [envL, Tr.okG, M3.toList, V3.toList, V2.toList, M3.inverseTransformVector2, M3.inverseTransform, M3.invert,
      M3.transformVector2, h']
  · simp [M3.inverseTransformVector2, M3.inverseTransform, M3.invert, h']
theorem t_m3_inverse_transform_vector2_none (a : M3 K) (u : V2 K) (h : a.det = 0) :
    t_m3_inverse_transform_vector2_none (envL (a.toList ++ u.toList)) = .noneG [.eq a.det 0 true] ∧
      a.inverseTransformVector2 u = none := by
  have h' := h
  simp only [M3.det] at h'
  constructor
  · tr_auto
  · simp [M3.inverseTransformVector2, M3.inverseTransform, M3.invert, h']
/-- the `none` path's condition is satisfiable -/
example : (⟨⟨1, 2, 3⟩, ⟨2, 4, 6⟩, ⟨1, 1, 1⟩⟩ : M3 ℚ).det = 0 := by simp [M3.det]; norm_num
end Cg.Trace.C08Rest
