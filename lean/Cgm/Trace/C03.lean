import Cgm.Gen.C03
/-! # T obligations for C03: vector arithmetic, dot, cross, perp-dot as the code computes them -/
set_option linter.unusedSectionVars false
namespace Cg.Trace.C03
open Cg Cg.Gen.C03
variable {K : Type} [Field K] [Transc K] [FRem K] [Lits K]

theorem t_v3_cross (a b : V3 K) : t_v3_cross (envL (a.toList ++ b.toList)) = .okS (V3.cross a b).toList := by tr_auto
theorem t_v2_perp_dot (a b : V2 K) : t_v2_perp_dot (envL (a.toList ++ b.toList)) = .okS [V2.perpDot a b] := by tr_auto
theorem t_v1_dot (a b : V1 K) : t_v1_dot (envL (a.toList ++ b.toList)) = .okS [V1.dot a b] := by tr_auto
theorem t_v2_dot (a b : V2 K) : t_v2_dot (envL (a.toList ++ b.toList)) = .okS [V2.dot a b] := by tr_auto
theorem t_v3_dot (a b : V3 K) : t_v3_dot (envL (a.toList ++ b.toList)) = .okS [V3.dot a b] := by tr_auto
theorem t_v4_dot (a b : V4 K) : t_v4_dot (envL (a.toList ++ b.toList)) = .okS [V4.dot a b] := by tr_auto
theorem t_v3_add (a b : V3 K) : t_v3_add (envL (a.toList ++ b.toList)) = .okS (a + b).toList := by tr_auto
theorem t_v3_sub (a b : V3 K) : t_v3_sub (envL (a.toList ++ b.toList)) = .okS (a - b).toList := by tr_auto
theorem t_v3_neg (a : V3 K) : t_v3_neg (envL a.toList) = .okS (-a).toList := by tr_auto
theorem t_v3_mul (a : V3 K) (s : K) : t_v3_mul (envL (a.toList ++ [s])) = .okS (a * s).toList := by tr_auto
theorem t_v4_mul (a : V4 K) (s : K) : t_v4_mul (envL (a.toList ++ [s])) = .okS (a * s).toList := by tr_auto
/-- scalar division is component-by-component division (not multiplication by a reciprocal:
the two differ for the integer scalar types, so the statement is kept syntactic, no `ring`) -/
theorem t_v2_div (a : V2 K) (s : K) : t_v2_div (envL (a.toList ++ [s])) = .okS [a.x / s, a.y / s] := by
  simp [envL, Tr.okS, V2.toList]
theorem t_v3_div (a : V3 K) (s : K) : t_v3_div (envL (a.toList ++ [s])) = .okS [a.x / s, a.y / s, a.z / s] := by
  simp [envL, Tr.okS, V3.toList]
theorem t_v4_div (a : V4 K) (s : K) : t_v4_div (envL (a.toList ++ [s])) = .okS [a.x / s, a.y / s, a.z / s, a.w / s] := by
  simp [envL, Tr.okS, V4.toList]
theorem t_v4_sum (a : V4 K) : t_v4_sum (envL a.toList) = .okS [a.sum] := by tr_auto
theorem t_v4_product (a : V4 K) : t_v4_product (envL a.toList) = .okS [a.product] := by tr_auto
theorem t_v3_mul_ew (a b : V3 K) : t_v3_mul_ew (envL (a.toList ++ b.toList)) = .okS (a.mulEw b).toList := by tr_auto
end Cg.Trace.C03
