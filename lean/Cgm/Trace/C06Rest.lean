import Cgm.Gen.C06
import Cgm.Model.Rot
/-! # T obligations for C06, remaining kernels: axis-angle constructors given degrees, `Basis3::from_axis_angle`,
`Basis2::invert`, `Basis3::invert`

`BasisN::invert` is `self.mat.invert().unwrap()`: one comparison `det == 0`; when it is true the `unwrap` panics
(the model's `invert?` is `none`).  The harness builds the `Basis2` from an angle and the `Basis3` from a quaternion.
For `Basis2` the panic path has no shadow input (the determinant is `cos² + sin²`), so only the `some` path is traced. -/
set_option linter.unusedSectionVars false
namespace Cg.Trace.C06Rest
open Cg Cg.Gen.C06
variable {K : Type} [Field K] [DecidableEq K] [Transc K] [FRem K] [Lits K]
attribute [local simp] M3.axisAngleSC M3.fromAxisAngle Quat.fromAxisAngle degToRad

theorem t_m3_from_axis_angle_deg (a : V3 K) (t : K) :
    t_m3_from_axis_angle_deg (envL (a.toList ++ [t])) = .okS (M3.fromAxisAngle a (degToRad t)).toList := by tr_any
theorem t_q_from_axis_angle_deg (a : V3 K) (t : K) :
    t_q_from_axis_angle_deg (envL (a.toList ++ [t])) = .okS (Quat.fromAxisAngle a (degToRad t)).toList := by tr_any
/-- `Basis3::from_axis_angle` is `Matrix3::from_axis_angle` wrapped -/
theorem t_b3_from_axis_angle (a : V3 K) (t : K) :
    t_b3_from_axis_angle (envL (a.toList ++ [t])) = .okS (M3.fromAxisAngle a t).toList := by tr_any

theorem inv2 (m : M2 K) (h : m.det ≠ 0) :
    m.invert = some (M2.new (m.y.y / m.det) (-m.x.y / m.det) (-m.y.x / m.det) (m.x.x / m.det)) := by
  simp only [M2.invert, if_neg h]
theorem inv3 (m : M3 K) (h : m.det ≠ 0) :
    m.invert = some (M3.transpose ⟨V3.cross m.y m.z / m.det, V3.cross m.z m.x / m.det, V3.cross m.x m.y / m.det⟩) := by
  simp only [M3.invert, if_neg h]

theorem inv3_none (m : M3 K) (h : m.det = 0) : m.invert = none := by
  unfold M3.invert; exact if_pos h

/-- the harness's `Basis2` argument: built from an angle -/
def b2 (a : K) : Basis2 K := ⟨M2.fromAngle a⟩

theorem t_b2_invert_some (a : K) (hd : (M2.fromAngle a).det ≠ 0) :
    t_b2_invert_some (envL [a]) =
        .okG (((b2 a).invert?.map (·.mat.toList)).getD []) [.eq (M2.fromAngle a).det 0 false] ∧
      (b2 a).invert?.isSome := by
  simp only [b2, Basis2.invert?, inv2 _ hd, Option.map, Option.getD, Option.isSome, and_true]
  simp [M2.det, M2.fromAngle, M2.new]; tr_auto
theorem t_b3_invert_some (q : Quat K) (hd : q.toM3.det ≠ 0) :
    t_b3_invert_some (envL q.toList) =
        .okG (((Basis3.fromQuaternion q).invert?.map (·.mat.toList)).getD []) [.eq q.toM3.det 0 false] ∧
      (Basis3.fromQuaternion q).invert?.isSome := by
  simp only [Basis3.invert?, Basis3.fromQuaternion, inv3 _ hd, Option.map, Option.getD, Option.isSome, and_true]
  simp [M3.det, Quat.toM3]; tr_auto
theorem t_b3_invert_panic (q : Quat K) (hd : q.toM3.det = 0) :
    t_b3_invert_panic (envL q.toList) = .panicG [.eq q.toM3.det 0 true] ∧
      (Basis3.fromQuaternion q).invert? = none := by
  refine ⟨by simp [M3.det, Quat.toM3]; tr_auto, by
    simp only [Basis3.invert?, Basis3.fromQuaternion, inv3_none _ hd, Option.map]⟩
/-- the panic path's condition is satisfiable: the matrix of the quaternion `(0; 1/2, 1/2, 0)` is singular -/
example : (Quat.toM3 (⟨⟨1 / 2, 1 / 2, 0⟩, 0⟩ : Quat ℚ)).det = 0 := by
  simp [Quat.toM3, M3.det]; norm_num
end Cg.Trace.C06Rest
