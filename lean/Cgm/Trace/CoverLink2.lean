import Cgm.Trace.Cover2
import Cgm.Trace.C05Paths
import Cgm.Trace.C08Paths
import Cgm.Trace.C09Paths
import Cgm.Trace.C10Paths
import Cgm.Trace.C11Paths
import Cgm.Trace.C13Paths
import Cgm.Trace.C15Paths
/-!
# The path conditions of `Cgm/Trace/Cover2.lean` are the hypotheses of the T obligations

As `CoverLink.lean` does for `Cover.lean`: for every path listed in `Cover2.lean`, the path condition at
that position implies the hypotheses of the cited obligation of `Cgm/Trace/Cxx.lean` / `CxxPaths.lean`
-- i.e. every input of the covered set of `…_cover` really is in the scope of an obligation.  Each
`example` has as its (inferred) statement the conclusion of that obligation.  Paths that `Cover2.lean`
takes over unchanged from `Cover.lean` are linked again here (the lists are re-stated there), so that
this file alone accounts for every entry of every list of `Cover2.lean`.
-/
set_option linter.unusedSectionVars false
set_option linter.unusedVariables false
namespace Cg.Trace.CoverLink2
open Cg Cg.Trace.Cover Cg.Trace.Cover2

section
variable {K : Type} [Field K] [LinearOrder K] [Transc K] [FRem K] [Lits K]

/-! C13: `normalize` -/
example (a : K) (h : nth (Cover2.degNormalizePaths a) 0) := C13.t_deg_normalize_pos a h
example (a : K) (h : nth (Cover2.degNormalizePaths a) 1) := C13.t_deg_normalize_neg a h
example (a : K) (h : nth (Cover2.degNormalizePaths a) 2) := C13.t_deg_normalize_zero a h
example (a : K) (h : nth (Cover2.radNormalizePaths a) 0) := C13.t_rad_normalize_pos a h
example (a : K) (h : nth (Cover2.radNormalizePaths a) 1) := C13.t_rad_normalize_neg a h
example (a : K) (h : nth (Cover2.radNormalizePaths a) 2) := C13Paths.t_rad_normalize_zero a h
/-! C13: `normalize_signed` -/
example (a : K) (h : nth (Cover2.degNormalizeSignedPaths a) 0) := C13.t_deg_normalize_signed_hi a h.1 h.2
example (a : K) (h : nth (Cover2.degNormalizeSignedPaths a) 1) := C13.t_deg_normalize_signed_lo a h.1 h.2
example (a : K) (h : nth (Cover2.degNormalizeSignedPaths a) 2) := C13.t_deg_normalize_signed_neg_hi a h.1 h.2
example (a : K) (h : nth (Cover2.degNormalizeSignedPaths a) 3) := C13.t_deg_normalize_signed_neg_lo a h.1 h.2
example (a : K) (h : nth (Cover2.degNormalizeSignedPaths a) 4) := C13Paths.t_deg_normalize_signed_zero a h.1 h.2
example (a : K) (h : nth (Cover2.degNormalizeSignedPaths a) 5) := C13Paths.t_deg_normalize_signed_half a h.1 h.2
example (a : K) (h : nth (Cover2.radNormalizeSignedPaths a) 0) := C13.t_rad_normalize_signed_hi a h.1 h.2
example (a : K) (h : nth (Cover2.radNormalizeSignedPaths a) 1) := C13.t_rad_normalize_signed_lo a h.1 h.2
/-! C13: `opposite` -/
example (a : K) (h : nth (Cover2.degOppositePaths a) 0) := C13.t_deg_opposite a h
example (a : K) (h : nth (Cover2.degOppositePaths a) 1) := C13.t_deg_opposite_neg a h
example (a : K) (h : nth (Cover2.degOppositePaths a) 2) := C13Paths.t_deg_opposite_zero a h
example (a : K) (h : nth (Cover2.radOppositePaths a) 0) := C13.t_rad_opposite a h
/-! C13: `bisect` -/
example (a b : K) (h : nth (Cover2.degBisectPaths a b) 0) := C13.t_deg_bisect_near a b h.1 h.2.1 h.2.2
example (a b : K) (h : nth (Cover2.degBisectPaths a b) 1) := C13.t_deg_bisect_wrap a b h.1 h.2.1 h.2.2
example (a b : K) (h : nth (Cover2.degBisectPaths a b) 2) := C13Paths.t_deg_bisect_neg_near a b h.1 h.2.1 h.2.2
example (a b : K) (h : nth (Cover2.degBisectPaths a b) 3) := C13Paths.t_deg_bisect_neg_wrap a b h.1 h.2.1 h.2.2
example (a b : K) (h : nth (Cover2.degBisectPaths a b) 4) := C13Paths.t_deg_bisect_neg_wrap_neg a b h.1 h.2.1 h.2.2
example (a b : K) (h : nth (Cover2.degBisectPaths a b) 5) := C13Paths.t_deg_bisect_near_neg a b h.1 h.2.1 h.2.2
example (a b : K) (h : nth (Cover2.degBisectPaths a b) 6) := C13Paths.t_deg_bisect_same a b h.1 h.2.1 h.2.2
example (a b : K) (h : nth (Cover2.radBisectPaths a b) 0) := C13Paths.t_rad_bisect_near a b h.1 h.2.1 h.2.2
example (a b : K) (h : nth (Cover2.radBisectPaths a b) 1) := C13Paths.t_rad_bisect_wrap a b h.1 h.2.1 h.2.2

/-! C11 -/
example (a b : V1 K) (h : nth (v1AnglePaths a b) 0) := C11Paths.t_v1_angle a b h.1 h.2
example (a b : V4 K) (h : nth (Cover2.v4AnglePaths a b) 0) := C11.t_v4_angle a b h.1 h.2
example (a b : V4 K) (h : nth (Cover2.v4AnglePaths a b) 1) := C11.t_v4_angle_clamped a b h
example (a b : V4 K) (h : nth (Cover2.v4AnglePaths a b) 2) := C11Paths.t_v4_angle_clamped_lo a b h.1 h.2
example (a b : Quat K) (h : nth (Cover2.qAnglePaths a b) 0) := C11.t_q_angle a b h.1 h.2
example (a b : Quat K) (h : nth (Cover2.qAnglePaths a b) 1) := C11Paths.t_q_angle_clamped_hi a b h
example (a b : Quat K) (h : nth (Cover2.qAnglePaths a b) 2) := C11Paths.t_q_angle_clamped_lo a b h.1 h.2

/-! C05: `Quaternion::from(Basis3)` -/
example (q : Quat K) (h : nth (b3ToQuatPaths q) 0) := C05Paths.t_b3_to_quat_trace q h
example (q : Quat K) (h : nth (b3ToQuatPaths q) 1) := C05Paths.t_b3_to_quat_xx q h.1 h.2.1 h.2.2
example (q : Quat K) (h : nth (b3ToQuatPaths q) 2) := C05Paths.t_b3_to_quat_yy q h.1 h.2.1 h.2.2
example (q : Quat K) (h : nth (b3ToQuatPaths q) 3) := C05Paths.t_b3_to_quat_zz q h.1 h.2.1 h.2.2
example (q : Quat K) (h : nth (b3ToQuatPaths q) 4) := C05Paths.t_b3_to_quat_zz2 q h.1 h.2.1 h.2.2.1 h.2.2.2

/-! C09: the flag of `look_at_stable` is a constant of the kernel: on the path `flip = false` the kernel
`t_m2_look_at_stable_noflip` computes `M2.lookAtStable d flip`, etc. -/
example (d : V2 K) (flip : Bool) (h : nth (m2LookAtStablePaths flip) 0) :
    Gen.C09.t_m2_look_at_stable_noflip (envL d.toList) = .okS (M2.lookAtStable d flip).toList := by
  have h' : flip = false := h
  rw [h']; exact C09Paths.t_m2_look_at_stable_noflip d
example (d : V2 K) (flip : Bool) (h : nth (m2LookAtStablePaths flip) 1) :
    Gen.C09.t_m2_look_at_stable_flip (envL d.toList) = .okS (M2.lookAtStable d flip).toList := by
  have h' : flip = true := h
  rw [h']; exact C09Paths.t_m2_look_at_stable_flip d
example (d : V2 K) (flip : Bool) (h : nth (b2LookAtStablePaths flip) 0) :
    Gen.C09.t_b2_look_at_stable_flip (envL d.toList) = .okS (Basis2.lookAtStable d flip).mat.toList := by
  have h' : flip = true := h
  rw [h']; exact C09Paths.t_b2_look_at_stable_flip d
example (d u : V2 K) (h : nth (b2LookAtPaths d u) 0) := C09Paths.t_b2_look_at_flip d u h
example (d u : V2 K) (h : nth (b2LookAtPaths d u) 1) := C09Paths.t_b2_look_at_noflip d u h
example (d u : V3 K) (h : nth (qLookAtPaths d u) 0) := C09Paths.t_q_look_at d u h
end

section
variable {K : Type} [Field K] [LinearOrder K] [Approx K] [Transc K] [FRem K] [Lits K]

/-! C10: `planar` (the last conjunct of the accepting paths is `hreg`, of the two `bad_focal` paths `hfin`) -/
example (fovy a h' n f : K) (h : nth (Cover2.planarPaths fovy a h' n f) 0) :=
  C10.t_planar_ok fovy a h' n f h.1 h.2.1 h.2.2.1 h.2.2.2.1 h.2.2.2.2.1 h.2.2.2.2.2.1 h.2.2.2.2.2.2.1 h.2.2.2.2.2.2.2.1
    h.2.2.2.2.2.2.2.2
example (fovy a h' n f : K) (h : nth (Cover2.planarPaths fovy a h' n f) 1) :=
  C10Paths.t_planar_ok_rev fovy a h' n f h.1 h.2.1 h.2.2.1 h.2.2.2.1 h.2.2.2.2.1 h.2.2.2.2.2.1 h.2.2.2.2.2.2.1
    h.2.2.2.2.2.2.2.1 h.2.2.2.2.2.2.2.2
example (fovy a h' n f : K) (h : nth (Cover2.planarPaths fovy a h' n f) 2) :=
  C10Paths.t_planar_ok_behind fovy a h' n f h.1 h.2.1 h.2.2.1 h.2.2.2.1 h.2.2.2.2.1 h.2.2.2.2.2.1 h.2.2.2.2.2.2.1
    h.2.2.2.2.2.2.2.1 h.2.2.2.2.2.2.2.2.1 h.2.2.2.2.2.2.2.2.2
example (fovy a h' n f : K) (h : nth (Cover2.planarPaths fovy a h' n f) 3) :=
  C10Paths.t_planar_ok_behind_rev fovy a h' n f h.1 h.2.1 h.2.2.1 h.2.2.2.1 h.2.2.2.2.1 h.2.2.2.2.2.1 h.2.2.2.2.2.2.1
    h.2.2.2.2.2.2.2.1 h.2.2.2.2.2.2.2.2.1 h.2.2.2.2.2.2.2.2.2
example (fovy a h' n f : K) (h : nth (Cover2.planarPaths fovy a h' n f) 4) :=
  C10Paths.t_planar_ok_neg_aspect fovy a h' n f h.1 h.2.1 h.2.2.1 h.2.2.2.1 h.2.2.2.2.1 h.2.2.2.2.2.1 h.2.2.2.2.2.2.1
    h.2.2.2.2.2.2.2.1 h.2.2.2.2.2.2.2.2
example (fovy a h' n f : K) (h : nth (Cover2.planarPaths fovy a h' n f) 5) := C10Paths.t_planar_bad_fovy_lo fovy a h' n f h
example (fovy a h' n f : K) (h : nth (Cover2.planarPaths fovy a h' n f) 6) :=
  C10Paths.t_planar_bad_fovy_hi fovy a h' n f h.1 h.2
example (fovy a h' n f : K) (h : nth (Cover2.planarPaths fovy a h' n f) 7) :=
  C10Paths.t_planar_bad_height fovy a h' n f h.1 h.2.1 h.2.2
example (fovy a h' n f : K) (h : nth (Cover2.planarPaths fovy a h' n f) 8) :=
  C10Paths.t_planar_bad_aspect fovy a h' n f h.1 h.2.1 h.2.2.1 h.2.2.2.1 h.2.2.2.2
example (fovy a h' n f : K) (h : nth (Cover2.planarPaths fovy a h' n f) 9) :=
  C10Paths.t_planar_bad_nf fovy a h' n f h.1 h.2.1 h.2.2.1 h.2.2.2.1 h.2.2.2.2.1 h.2.2.2.2.2
example (fovy a h' n f : K) (h : nth (Cover2.planarPaths fovy a h' n f) 10) :=
  C10Paths.t_planar_bad_focal fovy a h' n f h.1 h.2.1 h.2.2.1 h.2.2.2.1 h.2.2.2.2.1 h.2.2.2.2.2.1 h.2.2.2.2.2.2.1
    h.2.2.2.2.2.2.2.1 h.2.2.2.2.2.2.2.2.1 h.2.2.2.2.2.2.2.2.2
example (fovy a h' n f : K) (h : nth (Cover2.planarPaths fovy a h' n f) 11) :=
  C10Paths.t_planar_bad_focal_rev fovy a h' n f h.1 h.2.1 h.2.2.1 h.2.2.2.1 h.2.2.2.2.1 h.2.2.2.2.2.1 h.2.2.2.2.2.2.1
    h.2.2.2.2.2.2.2.1 h.2.2.2.2.2.2.2.2.1 h.2.2.2.2.2.2.2.2.2
/-! C10: `perspective` -/
example (fovy a n f : K) (h : nth (Cover2.perspectivePaths fovy a n f) 0) :=
  C10.t_perspective_ok fovy a n f h.1 h.2.1 h.2.2.1 h.2.2.2.1 h.2.2.2.2.1 h.2.2.2.2.2.1 h.2.2.2.2.2.2
example (fovy a n f : K) (h : nth (Cover2.perspectivePaths fovy a n f) 1) := C10.t_perspective_bad_fovy fovy a n f h
example (fovy a n f : K) (h : nth (Cover2.perspectivePaths fovy a n f) 2) :=
  C10.t_perspective_bad_near fovy a n f h.1 h.2.1 h.2.2.1 h.2.2.2.1 h.2.2.2.2
example (fovy a n f : K) (h : nth (Cover2.perspectivePaths fovy a n f) 3) :=
  C10Paths.t_perspective_bad_fovy_zero fovy a n f h
example (fovy a n f : K) (h : nth (Cover2.perspectivePaths fovy a n f) 4) :=
  C10Paths.t_perspective_bad_fovy_hi fovy a n f h.1 h.2
example (fovy a n f : K) (h : nth (Cover2.perspectivePaths fovy a n f) 5) :=
  C10Paths.t_perspective_bad_aspect fovy a n f h.1 h.2.1 h.2.2.1 h.2.2.2
example (fovy a n f : K) (h : nth (Cover2.perspectivePaths fovy a n f) 6) :=
  C10Paths.t_perspective_bad_far fovy a n f h.1 h.2.1 h.2.2.1 h.2.2.2.1 h.2.2.2.2.1 h.2.2.2.2.2
example (fovy a n f : K) (h : nth (Cover2.perspectivePaths fovy a n f) 7) :=
  C10Paths.t_perspective_bad_nf fovy a n f h.1 h.2.1 h.2.2.1 h.2.2.2.1 h.2.2.2.2.1 h.2.2.2.2.2.1 h.2.2.2.2.2.2
example (fovy a n f : K) (h : nth (Cover2.perspectivePaths fovy a n f) 8) :=
  C10Paths.t_perspective_ok_neg_aspect fovy a n f h.1 h.2.1 h.2.2.1 h.2.2.2.1 h.2.2.2.2.1 h.2.2.2.2.2.1 h.2.2.2.2.2.2
example (fovy a n f : K) (h : nth (perspectiveDegPaths fovy a n f) 0) :=
  C10Paths.t_perspective_deg_ok fovy a n f h.1 h.2.1 h.2.2.1 h.2.2.2.1 h.2.2.2.2.1 h.2.2.2.2.2.1 h.2.2.2.2.2.2
example (fovy a n f : K) (h : nth (perspectiveDegPaths fovy a n f) 1) :=
  C10Paths.t_perspective_deg_bad_fovy fovy a n f h
/-! C10: struct-form entry points -/
example (l r b t n f : K) (h : nth (frustumSPaths l r b t n f) 0) := C10Paths.t_frustum_s_ok l r b t n f h.1 h.2.1 h.2.2
example (fovy a n f : K) (h : nth (perspectiveSPaths fovy a n f) 0) :=
  C10Paths.t_perspective_s_ok fovy a n f h.1 h.2.1 h.2.2.1 h.2.2.2.1 h.2.2.2.2.1 h.2.2.2.2.2.1 h.2.2.2.2.2.2
example (fovy a h' n f : K) (h : nth (planarSPaths fovy a h' n f) 0) :=
  C10Paths.t_planar_s_ok fovy a h' n f h.1 h.2.1 h.2.2.1 h.2.2.2.1 h.2.2.2.2.1 h.2.2.2.2.2.1 h.2.2.2.2.2.2.1
    h.2.2.2.2.2.2.2.1 h.2.2.2.2.2.2.2.2

/-! C15 -/
example (a b : V3 K) (h : nth (Cover2.betweenVectorsPaths a b) 0) := C15.t_q_between_vectors_same a b h
example (a b : V3 K) (h : nth (Cover2.betweenVectorsPaths a b) 1) := C15.t_q_between_vectors_general a b h.1 h.2
example (a b : V3 K) (h : nth (Cover2.betweenVectorsPaths a b) 2) :=
  C15Paths.t_q_between_vectors_opp_x a b h.1 h.2.1 h.2.2
example (a b : V3 K) (h : nth (Cover2.betweenVectorsPaths a b) 3) :=
  C15Paths.t_q_between_vectors_opp_y a b h.1 h.2.1 h.2.2
example (a b : V3 K) (h : nth (b3BetweenVectorsPaths a b) 0) := C15Paths.t_b3_between_vectors_general a b h.1 h.2
example (a b : V3 K) (h : nth (Cover2.fromArcPaths a b) 0) := C15.t_q_from_arc_same a b h
example (a b : V3 K) (h : nth (Cover2.fromArcPaths a b) 1) := C15.t_q_from_arc_general a b h.1 h.2
example (a b : V3 K) (h : nth (Cover2.fromArcPaths a b) 2) :=
  C15Paths.t_q_from_arc_opp_x a b h.1 h.2.1 h.2.2.1 h.2.2.2.1 h.2.2.2.2
example (a b : V3 K) (h : nth (Cover2.fromArcPaths a b) 3) :=
  C15Paths.t_q_from_arc_opp_y a b h.1 h.2.1 h.2.2.1 h.2.2.2.1 h.2.2.2.2
example (a b f : V3 K) (h : nth (fromArcFbPaths a b) 0) := C15Paths.t_q_from_arc_fb_same a b f h
example (a b f : V3 K) (h : nth (fromArcFbPaths a b) 1) := C15Paths.t_q_from_arc_fb_general a b f h.1 h.2
example (a b f : V3 K) (h : nth (fromArcFbPaths a b) 2) := C15Paths.t_q_from_arc_fb_opp a b f h.1 h.2

/-! C08 -/
example (s : K) (q : Quat K) (u : V3 K) (h : nth (db3InverseTransformPaths s q) 0) :=
  C08Paths.t_db3_inverse_transform_some s q u h.1 h.2
example (s : K) (q : Quat K) (u : V3 K) (h : nth (db3InverseTransformPaths s q) 1) :=
  C08Paths.t_db3_inverse_transform_none s q u h
example (s : K) (q : Quat K) (u : V3 K) (h : nth (db3InverseTransformPaths s q) 2) :=
  C08Paths.t_db3_inverse_transform_panic s q u h.1 h.2
example (s a : K) (u : V2 K) (h : nth (db2InverseTransformPaths s a) 0) :=
  C08Paths.t_db2_inverse_transform_some s a u h.1 h.2
example (s a : K) (u : V2 K) (h : nth (db2InverseTransformPaths s a) 1) :=
  C08Paths.t_db2_inverse_transform_none s a u h
example (s : K) (q : Quat K) (u w : V3 K) (h : nth (db3InverseTransformVectorPaths s q) 0) :=
  C08Paths.t_db3_inverse_transform_vector s q u w h.1 h.2
example (s a : K) (u w : V2 K) (h : nth (db2InverseTransformVectorPaths s a) 0) :=
  C08Paths.t_db2_inverse_transform_vector s a u w h.1 h.2
example (e c : P3 K) (u : V3 K) (h : nth (dqLookAtPaths e c u) 0) := C08Paths.t_dq_look_at e c u h
example (e c : P2 K) (u : V2 K) (h : nth (db2LookAtLhPaths e c u) 0) := C08Paths.t_db2_look_at_lh e c u h
end
end Cg.Trace.CoverLink2
