import Cgm.Gen.C01
import Cgm.Lemmas.TraceIdx
/-!
# T obligations for C01: `row(r)` and `Index<usize>` (column access) at every index

Static text (written once by lib/gen_idx_lean.py from the kernel table `cgv.tracetab_paths.IDX`).  Each kernel was traced
from the real function at the literal index tuple in its name, on symbolic matrix entries; the obligation says it is
the model's function at that tuple for every matrix: `Tr.ofPanic` reads the model's `none` as the code's panic.
In range the second conjunct says the model does return (`isSome`, or the value written out); out of range (`_oob`)
the kernel is the bare panic and the model is `none`.
-/
set_option linter.unusedSectionVars false
set_option linter.unusedSimpArgs false
set_option linter.unusedVariables false
namespace Cg.Trace.C01Idx
open Cg Cg.Gen.C01
variable {K : Type} [Field K] [Transc K] [FRem K] [Lits K]

theorem t_m2_row_0 (m : M2 K) :
    t_m2_row_0 (envL m.toList) = .ofPanic ((m.row? 0).map V2.toList) ∧
      m.row? 0 = some m.row0 := by
  constructor <;> tr_idx

theorem t_m2_row_1 (m : M2 K) :
    t_m2_row_1 (envL m.toList) = .ofPanic ((m.row? 1).map V2.toList) ∧
      m.row? 1 = some m.row1 := by
  constructor <;> tr_idx

theorem t_m2_row_2_oob (m : M2 K) :
    t_m2_row_2_oob (envL m.toList) = .ofPanic ((m.row? 2).map V2.toList) ∧
      t_m2_row_2_oob (envL m.toList) = .panicG [] ∧ m.row? 2 = none := by
  refine ⟨?_, ?_, ?_⟩ <;> tr_idx

theorem t_m2_row_7_oob (m : M2 K) :
    t_m2_row_7_oob (envL m.toList) = .ofPanic ((m.row? 7).map V2.toList) ∧
      t_m2_row_7_oob (envL m.toList) = .panicG [] ∧ m.row? 7 = none := by
  refine ⟨?_, ?_, ?_⟩ <;> tr_idx

theorem t_m2_col_0 (m : M2 K) :
    t_m2_col_0 (envL m.toList) = .ofPanic ((m.col? 0).map V2.toList) ∧
      m.col? 0 = some m.x := by
  constructor <;> tr_idx

theorem t_m2_col_1 (m : M2 K) :
    t_m2_col_1 (envL m.toList) = .ofPanic ((m.col? 1).map V2.toList) ∧
      m.col? 1 = some m.y := by
  constructor <;> tr_idx

theorem t_m2_col_2_oob (m : M2 K) :
    t_m2_col_2_oob (envL m.toList) = .ofPanic ((m.col? 2).map V2.toList) ∧
      t_m2_col_2_oob (envL m.toList) = .panicG [] ∧ m.col? 2 = none := by
  refine ⟨?_, ?_, ?_⟩ <;> tr_idx

theorem t_m2_col_7_oob (m : M2 K) :
    t_m2_col_7_oob (envL m.toList) = .ofPanic ((m.col? 7).map V2.toList) ∧
      t_m2_col_7_oob (envL m.toList) = .panicG [] ∧ m.col? 7 = none := by
  refine ⟨?_, ?_, ?_⟩ <;> tr_idx

theorem t_m3_row_0 (m : M3 K) :
    t_m3_row_0 (envL m.toList) = .ofPanic ((m.row? 0).map V3.toList) ∧
      m.row? 0 = some m.row0 := by
  constructor <;> tr_idx

theorem t_m3_row_1 (m : M3 K) :
    t_m3_row_1 (envL m.toList) = .ofPanic ((m.row? 1).map V3.toList) ∧
      m.row? 1 = some m.row1 := by
  constructor <;> tr_idx

theorem t_m3_row_2 (m : M3 K) :
    t_m3_row_2 (envL m.toList) = .ofPanic ((m.row? 2).map V3.toList) ∧
      m.row? 2 = some m.row2 := by
  constructor <;> tr_idx

theorem t_m3_row_3_oob (m : M3 K) :
    t_m3_row_3_oob (envL m.toList) = .ofPanic ((m.row? 3).map V3.toList) ∧
      t_m3_row_3_oob (envL m.toList) = .panicG [] ∧ m.row? 3 = none := by
  refine ⟨?_, ?_, ?_⟩ <;> tr_idx

theorem t_m3_row_8_oob (m : M3 K) :
    t_m3_row_8_oob (envL m.toList) = .ofPanic ((m.row? 8).map V3.toList) ∧
      t_m3_row_8_oob (envL m.toList) = .panicG [] ∧ m.row? 8 = none := by
  refine ⟨?_, ?_, ?_⟩ <;> tr_idx

theorem t_m3_col_0 (m : M3 K) :
    t_m3_col_0 (envL m.toList) = .ofPanic ((m.col? 0).map V3.toList) ∧
      m.col? 0 = some m.x := by
  constructor <;> tr_idx

theorem t_m3_col_1 (m : M3 K) :
    t_m3_col_1 (envL m.toList) = .ofPanic ((m.col? 1).map V3.toList) ∧
      m.col? 1 = some m.y := by
  constructor <;> tr_idx

theorem t_m3_col_2 (m : M3 K) :
    t_m3_col_2 (envL m.toList) = .ofPanic ((m.col? 2).map V3.toList) ∧
      m.col? 2 = some m.z := by
  constructor <;> tr_idx

theorem t_m3_col_3_oob (m : M3 K) :
    t_m3_col_3_oob (envL m.toList) = .ofPanic ((m.col? 3).map V3.toList) ∧
      t_m3_col_3_oob (envL m.toList) = .panicG [] ∧ m.col? 3 = none := by
  refine ⟨?_, ?_, ?_⟩ <;> tr_idx

theorem t_m3_col_8_oob (m : M3 K) :
    t_m3_col_8_oob (envL m.toList) = .ofPanic ((m.col? 8).map V3.toList) ∧
      t_m3_col_8_oob (envL m.toList) = .panicG [] ∧ m.col? 8 = none := by
  refine ⟨?_, ?_, ?_⟩ <;> tr_idx

theorem t_m4_row_0 (m : M4 K) :
    t_m4_row_0 (envL m.toList) = .ofPanic ((m.row? 0).map V4.toList) ∧
      m.row? 0 = some m.row0 := by
  constructor <;> tr_idx

theorem t_m4_row_1 (m : M4 K) :
    t_m4_row_1 (envL m.toList) = .ofPanic ((m.row? 1).map V4.toList) ∧
      m.row? 1 = some m.row1 := by
  constructor <;> tr_idx

theorem t_m4_row_2 (m : M4 K) :
    t_m4_row_2 (envL m.toList) = .ofPanic ((m.row? 2).map V4.toList) ∧
      m.row? 2 = some m.row2 := by
  constructor <;> tr_idx

theorem t_m4_row_3 (m : M4 K) :
    t_m4_row_3 (envL m.toList) = .ofPanic ((m.row? 3).map V4.toList) ∧
      m.row? 3 = some m.row3 := by
  constructor <;> tr_idx

theorem t_m4_row_4_oob (m : M4 K) :
    t_m4_row_4_oob (envL m.toList) = .ofPanic ((m.row? 4).map V4.toList) ∧
      t_m4_row_4_oob (envL m.toList) = .panicG [] ∧ m.row? 4 = none := by
  refine ⟨?_, ?_, ?_⟩ <;> tr_idx

theorem t_m4_row_9_oob (m : M4 K) :
    t_m4_row_9_oob (envL m.toList) = .ofPanic ((m.row? 9).map V4.toList) ∧
      t_m4_row_9_oob (envL m.toList) = .panicG [] ∧ m.row? 9 = none := by
  refine ⟨?_, ?_, ?_⟩ <;> tr_idx

theorem t_m4_col_0 (m : M4 K) :
    t_m4_col_0 (envL m.toList) = .ofPanic ((m.col? 0).map V4.toList) ∧
      m.col? 0 = some m.x := by
  constructor <;> tr_idx

theorem t_m4_col_1 (m : M4 K) :
    t_m4_col_1 (envL m.toList) = .ofPanic ((m.col? 1).map V4.toList) ∧
      m.col? 1 = some m.y := by
  constructor <;> tr_idx

theorem t_m4_col_2 (m : M4 K) :
    t_m4_col_2 (envL m.toList) = .ofPanic ((m.col? 2).map V4.toList) ∧
      m.col? 2 = some m.z := by
  constructor <;> tr_idx

theorem t_m4_col_3 (m : M4 K) :
    t_m4_col_3 (envL m.toList) = .ofPanic ((m.col? 3).map V4.toList) ∧
      m.col? 3 = some m.w := by
  constructor <;> tr_idx

theorem t_m4_col_4_oob (m : M4 K) :
    t_m4_col_4_oob (envL m.toList) = .ofPanic ((m.col? 4).map V4.toList) ∧
      t_m4_col_4_oob (envL m.toList) = .panicG [] ∧ m.col? 4 = none := by
  refine ⟨?_, ?_, ?_⟩ <;> tr_idx

theorem t_m4_col_9_oob (m : M4 K) :
    t_m4_col_9_oob (envL m.toList) = .ofPanic ((m.col? 9).map V4.toList) ∧
      t_m4_col_9_oob (envL m.toList) = .panicG [] ∧ m.col? 9 = none := by
  refine ⟨?_, ?_, ?_⟩ <;> tr_idx
end Cg.Trace.C01Idx
