import Cgm.Gen.C17
import Cgm.Model.Rot
/-!
# T obligations for C17: `Sum` / `Product` over iterators of values and of references, and `centroid`, at the list
lengths 0, 1, 2, 4, 5

GENERATED once by `tools/gen_c17_forms.py` from `lib/cgv/tracetab_ops2.py`; kept as an ordinary source file.  (Length 3 is
`Cgm/Trace/C01Auto.lean`, `C03Auto.lean`, `C04Auto.lean`, `C13Auto.lean`, `C17Rest.lean`, `C12.lean`.)

Each kernel `t_<t>_<op>_n<k>` is the real `into_iter().sum()` / `iter().sum()` / `into_iter().product()` / `iter().product()`
(the `_ref` ops are the `Sum<&'a T>` / `Product<&'a T>` impls) run on a list of `k` symbolic operands; the obligation says it
is the LEFT fold of `+` from `zero()` / of `*` from `one()` over the operands, in this order (`List.foldl`, written out by
`simp`); at length 0 that is `zero()` / `one()` itself.  `t_p2_centroid_n<k>`: `Point2::centroid` of `k` points.
-/
set_option linter.unusedSectionVars false
set_option linter.unusedSimpArgs false
set_option linter.unusedVariables false
namespace Cg.Trace.C17OpsF
open Cg Cg.Gen.C17
variable {K : Type} [Field K] [Transc K] [FRem K] [Lits K]

/-- unfold kernel, fold, `zero` / `one` and the operators down to the components; the rest are ring identities -/
local macro "tr_fold" : tactic =>
  `(tactic| (simp [V2.zero, V4.zero, V3.zero, M2.zero, M3.zero, M4.zero, M2.one, M3.one, Quat.zero, Quat.one, Quat.fromSv,
      V2.fromValue, V3.fromValue, V4.fromValue, M2.fromValue, M3.fromValue, M2.new, M3.new, M4.new, P2.centroid, P2.fromVec,
      P2.toVec, Basis2.mul, Basis2.one, M2.fromAngle,
      List.foldl, envL, Tr.okS, V1.toList, V2.toList, V3.toList, V4.toList, P1.toList, P2.toList, P3.toList, M2.toList,
      M3.toList, M4.toList, Quat.toList] <;>
    (repeat' apply And.intro) <;> first | ring1 | (ring_nf; done)))

theorem t_v2_sum_list_n0 :
    t_v2_sum_list_n0 (envL ([] : List K)) = .okS (([] : List (V2 K)).foldl (· + ·) V2.zero).toList := by
  tr_fold
theorem t_v2_sum_list_n1 (l1 : V2 K) :
    t_v2_sum_list_n1 (envL l1.toList) = .okS ([l1].foldl (· + ·) V2.zero).toList := by
  tr_fold
theorem t_v2_sum_list_n2 (l1 l2 : V2 K) :
    t_v2_sum_list_n2 (envL (l1.toList ++ l2.toList)) = .okS ([l1, l2].foldl (· + ·) V2.zero).toList := by
  tr_fold
theorem t_v2_sum_list_n4 (l1 l2 l3 l4 : V2 K) :
    t_v2_sum_list_n4 (envL (l1.toList ++ l2.toList ++ l3.toList ++ l4.toList)) = .okS ([l1, l2, l3, l4].foldl (· + ·) V2.zero).toList := by
  tr_fold
theorem t_v2_sum_list_n5 (l1 l2 l3 l4 l5 : V2 K) :
    t_v2_sum_list_n5 (envL (l1.toList ++ l2.toList ++ l3.toList ++ l4.toList ++ l5.toList)) = .okS ([l1, l2, l3, l4, l5].foldl (· + ·) V2.zero).toList := by
  tr_fold
theorem t_v2_sum_list_ref_n0 :
    t_v2_sum_list_ref_n0 (envL ([] : List K)) = .okS (([] : List (V2 K)).foldl (· + ·) V2.zero).toList := by
  tr_fold
theorem t_v2_sum_list_ref_n1 (l1 : V2 K) :
    t_v2_sum_list_ref_n1 (envL l1.toList) = .okS ([l1].foldl (· + ·) V2.zero).toList := by
  tr_fold
theorem t_v2_sum_list_ref_n2 (l1 l2 : V2 K) :
    t_v2_sum_list_ref_n2 (envL (l1.toList ++ l2.toList)) = .okS ([l1, l2].foldl (· + ·) V2.zero).toList := by
  tr_fold
theorem t_v2_sum_list_ref_n4 (l1 l2 l3 l4 : V2 K) :
    t_v2_sum_list_ref_n4 (envL (l1.toList ++ l2.toList ++ l3.toList ++ l4.toList)) = .okS ([l1, l2, l3, l4].foldl (· + ·) V2.zero).toList := by
  tr_fold
theorem t_v2_sum_list_ref_n5 (l1 l2 l3 l4 l5 : V2 K) :
    t_v2_sum_list_ref_n5 (envL (l1.toList ++ l2.toList ++ l3.toList ++ l4.toList ++ l5.toList)) = .okS ([l1, l2, l3, l4, l5].foldl (· + ·) V2.zero).toList := by
  tr_fold
theorem t_v4_sum_list_n0 :
    t_v4_sum_list_n0 (envL ([] : List K)) = .okS (([] : List (V4 K)).foldl (· + ·) V4.zero).toList := by
  tr_fold
theorem t_v4_sum_list_n1 (l1 : V4 K) :
    t_v4_sum_list_n1 (envL l1.toList) = .okS ([l1].foldl (· + ·) V4.zero).toList := by
  tr_fold
theorem t_v4_sum_list_n2 (l1 l2 : V4 K) :
    t_v4_sum_list_n2 (envL (l1.toList ++ l2.toList)) = .okS ([l1, l2].foldl (· + ·) V4.zero).toList := by
  tr_fold
theorem t_v4_sum_list_n4 (l1 l2 l3 l4 : V4 K) :
    t_v4_sum_list_n4 (envL (l1.toList ++ l2.toList ++ l3.toList ++ l4.toList)) = .okS ([l1, l2, l3, l4].foldl (· + ·) V4.zero).toList := by
  tr_fold
theorem t_v4_sum_list_n5 (l1 l2 l3 l4 l5 : V4 K) :
    t_v4_sum_list_n5 (envL (l1.toList ++ l2.toList ++ l3.toList ++ l4.toList ++ l5.toList)) = .okS ([l1, l2, l3, l4, l5].foldl (· + ·) V4.zero).toList := by
  tr_fold
theorem t_v4_sum_list_ref_n0 :
    t_v4_sum_list_ref_n0 (envL ([] : List K)) = .okS (([] : List (V4 K)).foldl (· + ·) V4.zero).toList := by
  tr_fold
theorem t_v4_sum_list_ref_n1 (l1 : V4 K) :
    t_v4_sum_list_ref_n1 (envL l1.toList) = .okS ([l1].foldl (· + ·) V4.zero).toList := by
  tr_fold
theorem t_v4_sum_list_ref_n2 (l1 l2 : V4 K) :
    t_v4_sum_list_ref_n2 (envL (l1.toList ++ l2.toList)) = .okS ([l1, l2].foldl (· + ·) V4.zero).toList := by
  tr_fold
theorem t_v4_sum_list_ref_n4 (l1 l2 l3 l4 : V4 K) :
    t_v4_sum_list_ref_n4 (envL (l1.toList ++ l2.toList ++ l3.toList ++ l4.toList)) = .okS ([l1, l2, l3, l4].foldl (· + ·) V4.zero).toList := by
  tr_fold
theorem t_v4_sum_list_ref_n5 (l1 l2 l3 l4 l5 : V4 K) :
    t_v4_sum_list_ref_n5 (envL (l1.toList ++ l2.toList ++ l3.toList ++ l4.toList ++ l5.toList)) = .okS ([l1, l2, l3, l4, l5].foldl (· + ·) V4.zero).toList := by
  tr_fold
theorem t_m2_sum_list_n0 :
    t_m2_sum_list_n0 (envL ([] : List K)) = .okS (([] : List (M2 K)).foldl (· + ·) M2.zero).toList := by
  tr_fold
theorem t_m2_sum_list_n1 (l1 : M2 K) :
    t_m2_sum_list_n1 (envL l1.toList) = .okS ([l1].foldl (· + ·) M2.zero).toList := by
  tr_fold
theorem t_m2_sum_list_n2 (l1 l2 : M2 K) :
    t_m2_sum_list_n2 (envL (l1.toList ++ l2.toList)) = .okS ([l1, l2].foldl (· + ·) M2.zero).toList := by
  tr_fold
theorem t_m2_sum_list_n4 (l1 l2 l3 l4 : M2 K) :
    t_m2_sum_list_n4 (envL (l1.toList ++ l2.toList ++ l3.toList ++ l4.toList)) = .okS ([l1, l2, l3, l4].foldl (· + ·) M2.zero).toList := by
  tr_fold
theorem t_m2_sum_list_n5 (l1 l2 l3 l4 l5 : M2 K) :
    t_m2_sum_list_n5 (envL (l1.toList ++ l2.toList ++ l3.toList ++ l4.toList ++ l5.toList)) = .okS ([l1, l2, l3, l4, l5].foldl (· + ·) M2.zero).toList := by
  tr_fold
theorem t_m2_sum_list_ref_n0 :
    t_m2_sum_list_ref_n0 (envL ([] : List K)) = .okS (([] : List (M2 K)).foldl (· + ·) M2.zero).toList := by
  tr_fold
theorem t_m2_sum_list_ref_n1 (l1 : M2 K) :
    t_m2_sum_list_ref_n1 (envL l1.toList) = .okS ([l1].foldl (· + ·) M2.zero).toList := by
  tr_fold
theorem t_m2_sum_list_ref_n2 (l1 l2 : M2 K) :
    t_m2_sum_list_ref_n2 (envL (l1.toList ++ l2.toList)) = .okS ([l1, l2].foldl (· + ·) M2.zero).toList := by
  tr_fold
theorem t_m2_sum_list_ref_n4 (l1 l2 l3 l4 : M2 K) :
    t_m2_sum_list_ref_n4 (envL (l1.toList ++ l2.toList ++ l3.toList ++ l4.toList)) = .okS ([l1, l2, l3, l4].foldl (· + ·) M2.zero).toList := by
  tr_fold
theorem t_m2_sum_list_ref_n5 (l1 l2 l3 l4 l5 : M2 K) :
    t_m2_sum_list_ref_n5 (envL (l1.toList ++ l2.toList ++ l3.toList ++ l4.toList ++ l5.toList)) = .okS ([l1, l2, l3, l4, l5].foldl (· + ·) M2.zero).toList := by
  tr_fold
theorem t_m2_product_list_n0 :
    t_m2_product_list_n0 (envL ([] : List K)) = .okS (([] : List (M2 K)).foldl (· * ·) M2.one).toList := by
  tr_fold
theorem t_m2_product_list_n1 (l1 : M2 K) :
    t_m2_product_list_n1 (envL l1.toList) = .okS ([l1].foldl (· * ·) M2.one).toList := by
  tr_fold
theorem t_m2_product_list_n2 (l1 l2 : M2 K) :
    t_m2_product_list_n2 (envL (l1.toList ++ l2.toList)) = .okS ([l1, l2].foldl (· * ·) M2.one).toList := by
  tr_fold
theorem t_m2_product_list_n4 (l1 l2 l3 l4 : M2 K) :
    t_m2_product_list_n4 (envL (l1.toList ++ l2.toList ++ l3.toList ++ l4.toList)) = .okS ([l1, l2, l3, l4].foldl (· * ·) M2.one).toList := by
  tr_fold
theorem t_m2_product_list_n5 (l1 l2 l3 l4 l5 : M2 K) :
    t_m2_product_list_n5 (envL (l1.toList ++ l2.toList ++ l3.toList ++ l4.toList ++ l5.toList)) = .okS ([l1, l2, l3, l4, l5].foldl (· * ·) M2.one).toList := by
  tr_fold
theorem t_m2_product_list_ref_n0 :
    t_m2_product_list_ref_n0 (envL ([] : List K)) = .okS (([] : List (M2 K)).foldl (· * ·) M2.one).toList := by
  tr_fold
theorem t_m2_product_list_ref_n1 (l1 : M2 K) :
    t_m2_product_list_ref_n1 (envL l1.toList) = .okS ([l1].foldl (· * ·) M2.one).toList := by
  tr_fold
theorem t_m2_product_list_ref_n2 (l1 l2 : M2 K) :
    t_m2_product_list_ref_n2 (envL (l1.toList ++ l2.toList)) = .okS ([l1, l2].foldl (· * ·) M2.one).toList := by
  tr_fold
theorem t_m2_product_list_ref_n4 (l1 l2 l3 l4 : M2 K) :
    t_m2_product_list_ref_n4 (envL (l1.toList ++ l2.toList ++ l3.toList ++ l4.toList)) = .okS ([l1, l2, l3, l4].foldl (· * ·) M2.one).toList := by
  tr_fold
theorem t_m2_product_list_ref_n5 (l1 l2 l3 l4 l5 : M2 K) :
    t_m2_product_list_ref_n5 (envL (l1.toList ++ l2.toList ++ l3.toList ++ l4.toList ++ l5.toList)) = .okS ([l1, l2, l3, l4, l5].foldl (· * ·) M2.one).toList := by
  tr_fold
theorem t_m3_sum_list_n0 :
    t_m3_sum_list_n0 (envL ([] : List K)) = .okS (([] : List (M3 K)).foldl (· + ·) M3.zero).toList := by
  tr_fold
theorem t_m3_sum_list_n1 (l1 : M3 K) :
    t_m3_sum_list_n1 (envL l1.toList) = .okS ([l1].foldl (· + ·) M3.zero).toList := by
  tr_fold
theorem t_m3_sum_list_n2 (l1 l2 : M3 K) :
    t_m3_sum_list_n2 (envL (l1.toList ++ l2.toList)) = .okS ([l1, l2].foldl (· + ·) M3.zero).toList := by
  tr_fold
theorem t_m3_sum_list_n4 (l1 l2 l3 l4 : M3 K) :
    t_m3_sum_list_n4 (envL (l1.toList ++ l2.toList ++ l3.toList ++ l4.toList)) = .okS ([l1, l2, l3, l4].foldl (· + ·) M3.zero).toList := by
  tr_fold
theorem t_m3_sum_list_n5 (l1 l2 l3 l4 l5 : M3 K) :
    t_m3_sum_list_n5 (envL (l1.toList ++ l2.toList ++ l3.toList ++ l4.toList ++ l5.toList)) = .okS ([l1, l2, l3, l4, l5].foldl (· + ·) M3.zero).toList := by
  tr_fold
theorem t_m3_sum_list_ref_n0 :
    t_m3_sum_list_ref_n0 (envL ([] : List K)) = .okS (([] : List (M3 K)).foldl (· + ·) M3.zero).toList := by
  tr_fold
theorem t_m3_sum_list_ref_n1 (l1 : M3 K) :
    t_m3_sum_list_ref_n1 (envL l1.toList) = .okS ([l1].foldl (· + ·) M3.zero).toList := by
  tr_fold
theorem t_m3_sum_list_ref_n2 (l1 l2 : M3 K) :
    t_m3_sum_list_ref_n2 (envL (l1.toList ++ l2.toList)) = .okS ([l1, l2].foldl (· + ·) M3.zero).toList := by
  tr_fold
theorem t_m3_sum_list_ref_n4 (l1 l2 l3 l4 : M3 K) :
    t_m3_sum_list_ref_n4 (envL (l1.toList ++ l2.toList ++ l3.toList ++ l4.toList)) = .okS ([l1, l2, l3, l4].foldl (· + ·) M3.zero).toList := by
  tr_fold
theorem t_m3_sum_list_ref_n5 (l1 l2 l3 l4 l5 : M3 K) :
    t_m3_sum_list_ref_n5 (envL (l1.toList ++ l2.toList ++ l3.toList ++ l4.toList ++ l5.toList)) = .okS ([l1, l2, l3, l4, l5].foldl (· + ·) M3.zero).toList := by
  tr_fold
theorem t_m3_product_list_n0 :
    t_m3_product_list_n0 (envL ([] : List K)) = .okS (([] : List (M3 K)).foldl (· * ·) M3.one).toList := by
  tr_fold
theorem t_m3_product_list_n1 (l1 : M3 K) :
    t_m3_product_list_n1 (envL l1.toList) = .okS ([l1].foldl (· * ·) M3.one).toList := by
  tr_fold
theorem t_m3_product_list_n2 (l1 l2 : M3 K) :
    t_m3_product_list_n2 (envL (l1.toList ++ l2.toList)) = .okS ([l1, l2].foldl (· * ·) M3.one).toList := by
  tr_fold
theorem t_m3_product_list_n4 (l1 l2 l3 l4 : M3 K) :
    t_m3_product_list_n4 (envL (l1.toList ++ l2.toList ++ l3.toList ++ l4.toList)) = .okS ([l1, l2, l3, l4].foldl (· * ·) M3.one).toList := by
  tr_fold
theorem t_m3_product_list_n5 (l1 l2 l3 l4 l5 : M3 K) :
    t_m3_product_list_n5 (envL (l1.toList ++ l2.toList ++ l3.toList ++ l4.toList ++ l5.toList)) = .okS ([l1, l2, l3, l4, l5].foldl (· * ·) M3.one).toList := by
  tr_fold
theorem t_m3_product_list_ref_n0 :
    t_m3_product_list_ref_n0 (envL ([] : List K)) = .okS (([] : List (M3 K)).foldl (· * ·) M3.one).toList := by
  tr_fold
theorem t_m3_product_list_ref_n1 (l1 : M3 K) :
    t_m3_product_list_ref_n1 (envL l1.toList) = .okS ([l1].foldl (· * ·) M3.one).toList := by
  tr_fold
theorem t_m3_product_list_ref_n2 (l1 l2 : M3 K) :
    t_m3_product_list_ref_n2 (envL (l1.toList ++ l2.toList)) = .okS ([l1, l2].foldl (· * ·) M3.one).toList := by
  tr_fold
theorem t_m3_product_list_ref_n4 (l1 l2 l3 l4 : M3 K) :
    t_m3_product_list_ref_n4 (envL (l1.toList ++ l2.toList ++ l3.toList ++ l4.toList)) = .okS ([l1, l2, l3, l4].foldl (· * ·) M3.one).toList := by
  tr_fold
theorem t_m3_product_list_ref_n5 (l1 l2 l3 l4 l5 : M3 K) :
    t_m3_product_list_ref_n5 (envL (l1.toList ++ l2.toList ++ l3.toList ++ l4.toList ++ l5.toList)) = .okS ([l1, l2, l3, l4, l5].foldl (· * ·) M3.one).toList := by
  tr_fold
theorem t_m4_sum_list_n0 :
    t_m4_sum_list_n0 (envL ([] : List K)) = .okS (([] : List (M4 K)).foldl (· + ·) M4.zero).toList := by
  tr_fold
theorem t_m4_sum_list_n1 (l1 : M4 K) :
    t_m4_sum_list_n1 (envL l1.toList) = .okS ([l1].foldl (· + ·) M4.zero).toList := by
  tr_fold
theorem t_m4_sum_list_n2 (l1 l2 : M4 K) :
    t_m4_sum_list_n2 (envL (l1.toList ++ l2.toList)) = .okS ([l1, l2].foldl (· + ·) M4.zero).toList := by
  tr_fold
theorem t_m4_sum_list_ref_n0 :
    t_m4_sum_list_ref_n0 (envL ([] : List K)) = .okS (([] : List (M4 K)).foldl (· + ·) M4.zero).toList := by
  tr_fold
theorem t_m4_sum_list_ref_n1 (l1 : M4 K) :
    t_m4_sum_list_ref_n1 (envL l1.toList) = .okS ([l1].foldl (· + ·) M4.zero).toList := by
  tr_fold
theorem t_m4_sum_list_ref_n2 (l1 l2 : M4 K) :
    t_m4_sum_list_ref_n2 (envL (l1.toList ++ l2.toList)) = .okS ([l1, l2].foldl (· + ·) M4.zero).toList := by
  tr_fold
theorem t_q_sum_list_n0 :
    t_q_sum_list_n0 (envL ([] : List K)) = .okS (([] : List (Quat K)).foldl (· + ·) Quat.zero).toList := by
  tr_fold
theorem t_q_sum_list_n1 (l1 : Quat K) :
    t_q_sum_list_n1 (envL l1.toList) = .okS ([l1].foldl (· + ·) Quat.zero).toList := by
  tr_fold
theorem t_q_sum_list_n2 (l1 l2 : Quat K) :
    t_q_sum_list_n2 (envL (l1.toList ++ l2.toList)) = .okS ([l1, l2].foldl (· + ·) Quat.zero).toList := by
  tr_fold
theorem t_q_sum_list_n4 (l1 l2 l3 l4 : Quat K) :
    t_q_sum_list_n4 (envL (l1.toList ++ l2.toList ++ l3.toList ++ l4.toList)) = .okS ([l1, l2, l3, l4].foldl (· + ·) Quat.zero).toList := by
  tr_fold
theorem t_q_sum_list_n5 (l1 l2 l3 l4 l5 : Quat K) :
    t_q_sum_list_n5 (envL (l1.toList ++ l2.toList ++ l3.toList ++ l4.toList ++ l5.toList)) = .okS ([l1, l2, l3, l4, l5].foldl (· + ·) Quat.zero).toList := by
  tr_fold
theorem t_q_sum_list_ref_n0 :
    t_q_sum_list_ref_n0 (envL ([] : List K)) = .okS (([] : List (Quat K)).foldl (· + ·) Quat.zero).toList := by
  tr_fold
theorem t_q_sum_list_ref_n1 (l1 : Quat K) :
    t_q_sum_list_ref_n1 (envL l1.toList) = .okS ([l1].foldl (· + ·) Quat.zero).toList := by
  tr_fold
theorem t_q_sum_list_ref_n2 (l1 l2 : Quat K) :
    t_q_sum_list_ref_n2 (envL (l1.toList ++ l2.toList)) = .okS ([l1, l2].foldl (· + ·) Quat.zero).toList := by
  tr_fold
theorem t_q_sum_list_ref_n4 (l1 l2 l3 l4 : Quat K) :
    t_q_sum_list_ref_n4 (envL (l1.toList ++ l2.toList ++ l3.toList ++ l4.toList)) = .okS ([l1, l2, l3, l4].foldl (· + ·) Quat.zero).toList := by
  tr_fold
theorem t_q_sum_list_ref_n5 (l1 l2 l3 l4 l5 : Quat K) :
    t_q_sum_list_ref_n5 (envL (l1.toList ++ l2.toList ++ l3.toList ++ l4.toList ++ l5.toList)) = .okS ([l1, l2, l3, l4, l5].foldl (· + ·) Quat.zero).toList := by
  tr_fold
theorem t_q_product_list_n0 :
    t_q_product_list_n0 (envL ([] : List K)) = .okS (([] : List (Quat K)).foldl (· * ·) Quat.one).toList := by
  tr_fold
theorem t_q_product_list_n1 (l1 : Quat K) :
    t_q_product_list_n1 (envL l1.toList) = .okS ([l1].foldl (· * ·) Quat.one).toList := by
  tr_fold
theorem t_q_product_list_n2 (l1 l2 : Quat K) :
    t_q_product_list_n2 (envL (l1.toList ++ l2.toList)) = .okS ([l1, l2].foldl (· * ·) Quat.one).toList := by
  tr_fold
theorem t_q_product_list_n4 (l1 l2 l3 l4 : Quat K) :
    t_q_product_list_n4 (envL (l1.toList ++ l2.toList ++ l3.toList ++ l4.toList)) = .okS ([l1, l2, l3, l4].foldl (· * ·) Quat.one).toList := by
  tr_fold
theorem t_q_product_list_n5 (l1 l2 l3 l4 l5 : Quat K) :
    t_q_product_list_n5 (envL (l1.toList ++ l2.toList ++ l3.toList ++ l4.toList ++ l5.toList)) = .okS ([l1, l2, l3, l4, l5].foldl (· * ·) Quat.one).toList := by
  tr_fold
theorem t_q_product_list_ref_n0 :
    t_q_product_list_ref_n0 (envL ([] : List K)) = .okS (([] : List (Quat K)).foldl (· * ·) Quat.one).toList := by
  tr_fold
theorem t_q_product_list_ref_n1 (l1 : Quat K) :
    t_q_product_list_ref_n1 (envL l1.toList) = .okS ([l1].foldl (· * ·) Quat.one).toList := by
  tr_fold
theorem t_q_product_list_ref_n2 (l1 l2 : Quat K) :
    t_q_product_list_ref_n2 (envL (l1.toList ++ l2.toList)) = .okS ([l1, l2].foldl (· * ·) Quat.one).toList := by
  tr_fold
theorem t_q_product_list_ref_n4 (l1 l2 l3 l4 : Quat K) :
    t_q_product_list_ref_n4 (envL (l1.toList ++ l2.toList ++ l3.toList ++ l4.toList)) = .okS ([l1, l2, l3, l4].foldl (· * ·) Quat.one).toList := by
  tr_fold
theorem t_q_product_list_ref_n5 (l1 l2 l3 l4 l5 : Quat K) :
    t_q_product_list_ref_n5 (envL (l1.toList ++ l2.toList ++ l3.toList ++ l4.toList ++ l5.toList)) = .okS ([l1, l2, l3, l4, l5].foldl (· * ·) Quat.one).toList := by
  tr_fold
theorem t_rad_sum_list_n0 :
    t_rad_sum_list_n0 (envL ([] : List K)) = .okS [([] : List K).foldl (· + ·) 0] := by
  tr_fold
theorem t_rad_sum_list_n1 (l1 : K) :
    t_rad_sum_list_n1 (envL [l1]) = .okS [[l1].foldl (· + ·) 0] := by
  tr_fold
theorem t_rad_sum_list_n2 (l1 l2 : K) :
    t_rad_sum_list_n2 (envL [l1, l2]) = .okS [[l1, l2].foldl (· + ·) 0] := by
  tr_fold
theorem t_rad_sum_list_n4 (l1 l2 l3 l4 : K) :
    t_rad_sum_list_n4 (envL [l1, l2, l3, l4]) = .okS [[l1, l2, l3, l4].foldl (· + ·) 0] := by
  tr_fold
theorem t_rad_sum_list_n5 (l1 l2 l3 l4 l5 : K) :
    t_rad_sum_list_n5 (envL [l1, l2, l3, l4, l5]) = .okS [[l1, l2, l3, l4, l5].foldl (· + ·) 0] := by
  tr_fold
theorem t_rad_sum_list_ref_n0 :
    t_rad_sum_list_ref_n0 (envL ([] : List K)) = .okS [([] : List K).foldl (· + ·) 0] := by
  tr_fold
theorem t_rad_sum_list_ref_n1 (l1 : K) :
    t_rad_sum_list_ref_n1 (envL [l1]) = .okS [[l1].foldl (· + ·) 0] := by
  tr_fold
theorem t_rad_sum_list_ref_n2 (l1 l2 : K) :
    t_rad_sum_list_ref_n2 (envL [l1, l2]) = .okS [[l1, l2].foldl (· + ·) 0] := by
  tr_fold
theorem t_rad_sum_list_ref_n4 (l1 l2 l3 l4 : K) :
    t_rad_sum_list_ref_n4 (envL [l1, l2, l3, l4]) = .okS [[l1, l2, l3, l4].foldl (· + ·) 0] := by
  tr_fold
theorem t_rad_sum_list_ref_n5 (l1 l2 l3 l4 l5 : K) :
    t_rad_sum_list_ref_n5 (envL [l1, l2, l3, l4, l5]) = .okS [[l1, l2, l3, l4, l5].foldl (· + ·) 0] := by
  tr_fold
theorem t_b2_product_list_n0 :
    t_b2_product_list_n0 (envL ([] : List K)) = .okS (([] : List (Basis2 K)).foldl Basis2.mul Basis2.one).mat.toList := by
  tr_fold
theorem t_b2_product_list_n1 (l1 : K) :
    t_b2_product_list_n1 (envL [l1]) = .okS ([⟨M2.fromAngle l1⟩].foldl Basis2.mul Basis2.one).mat.toList := by
  tr_fold
theorem t_b2_product_list_n2 (l1 l2 : K) :
    t_b2_product_list_n2 (envL [l1, l2]) = .okS ([⟨M2.fromAngle l1⟩, ⟨M2.fromAngle l2⟩].foldl Basis2.mul Basis2.one).mat.toList := by
  tr_fold
theorem t_b2_product_list_ref_n0 :
    t_b2_product_list_ref_n0 (envL ([] : List K)) = .okS (([] : List (Basis2 K)).foldl Basis2.mul Basis2.one).mat.toList := by
  tr_fold
theorem t_b2_product_list_ref_n1 (l1 : K) :
    t_b2_product_list_ref_n1 (envL [l1]) = .okS ([⟨M2.fromAngle l1⟩].foldl Basis2.mul Basis2.one).mat.toList := by
  tr_fold
theorem t_b2_product_list_ref_n2 (l1 l2 : K) :
    t_b2_product_list_ref_n2 (envL [l1, l2]) = .okS ([⟨M2.fromAngle l1⟩, ⟨M2.fromAngle l2⟩].foldl Basis2.mul Basis2.one).mat.toList := by
  tr_fold
theorem t_m2_sum_list_ref_n3 (l1 l2 l3 : M2 K) :
    t_m2_sum_list_ref_n3 (envL (l1.toList ++ l2.toList ++ l3.toList)) = .okS ([l1, l2, l3].foldl (· + ·) M2.zero).toList := by
  tr_fold
theorem t_m3_sum_list_ref_n3 (l1 l2 l3 : M3 K) :
    t_m3_sum_list_ref_n3 (envL (l1.toList ++ l2.toList ++ l3.toList)) = .okS ([l1, l2, l3].foldl (· + ·) M3.zero).toList := by
  tr_fold
theorem t_m4_sum_list_ref_n3 (l1 l2 l3 : M4 K) :
    t_m4_sum_list_ref_n3 (envL (l1.toList ++ l2.toList ++ l3.toList)) = .okS ([l1, l2, l3].foldl (· + ·) M4.zero).toList := by
  tr_fold
theorem t_b2_product_list_ref_n3 (l1 l2 l3 : K) :
    t_b2_product_list_ref_n3 (envL [l1, l2, l3]) = .okS ([⟨M2.fromAngle l1⟩, ⟨M2.fromAngle l2⟩, ⟨M2.fromAngle l3⟩].foldl Basis2.mul Basis2.one).mat.toList := by
  tr_fold
theorem t_p2_centroid_n1 (l1 : P2 K) :
    t_p2_centroid_n1 (envL l1.toList) = .okS (P2.centroid [l1]).toList := by
  tr_fold
theorem t_p2_centroid_n2 (l1 l2 : P2 K) :
    t_p2_centroid_n2 (envL (l1.toList ++ l2.toList)) = .okS (P2.centroid [l1, l2]).toList := by
  tr_fold
theorem t_p2_centroid_n4 (l1 l2 l3 l4 : P2 K) :
    t_p2_centroid_n4 (envL (l1.toList ++ l2.toList ++ l3.toList ++ l4.toList)) = .okS (P2.centroid [l1, l2, l3, l4]).toList := by
  tr_fold
theorem t_p2_centroid_n5 (l1 l2 l3 l4 l5 : P2 K) :
    t_p2_centroid_n5 (envL (l1.toList ++ l2.toList ++ l3.toList ++ l4.toList ++ l5.toList)) = .okS (P2.centroid [l1, l2, l3, l4, l5]).toList := by
  tr_fold
end Cg.Trace.C17OpsF
