import Cgm.Trace.C08
/-! # T obligations for C08, further kernels: `Decomposed` with a `Basis3` / `Basis2` rotation (the harness
builds the `Basis3` from a quaternion and the `Basis2` from an angle), `Decomposed::look_at` -/
set_option linter.unusedSectionVars false
namespace Cg.Trace.C08Paths
open Cg Cg.Gen.C08 Cg.Trace.C08
variable {K : Type} [Field K] [LinearOrder K] [Approx K] [Transc K] [FRem K] [Lits K]

abbrev DB3 (K : Type) := Decomposed (Basis3 K) (V3 K) K
/-- the harness's `Decomposed<Vector3, Basis3>` argument: scale, quaternion (converted with `Basis3::from`), displacement -/
def mk3 (s : K) (q : Quat K) (u : V3 K) : DB3 K := ⟨s, Basis3.fromQuaternion q, u⟩
def mk2 (s a : K) (u : V2 K) : DB2 K := ⟨s, ⟨M2.fromAngle a⟩, u⟩
def flb3 (d : DB3 K) : List K := d.scale :: d.rot.mat.toList ++ d.disp.toList
def flb2 (d : DB2 K) : List K := d.scale :: d.rot.mat.toList ++ d.disp.toList
def in3 (s : K) (q : Quat K) (u : V3 K) : List K := s :: q.toList ++ u.toList
def in2 (s a : K) (u : V2 K) : List K := [s, a] ++ u.toList

attribute [local simp] Decomposed.concat Decomposed.transformVector Decomposed.transformPointV quatOps basis2Ops basis3Ops
  Decomposed.toM4 Decomposed.toM3 flq flb3 flb2 mk3 mk2 in3 in2 Basis2.rotateVector Basis2.mul M2.fromAngle
  Basis3.rotateVector Basis3.mul Basis3.fromQuaternion eps52

theorem t_db3_concat (s t : K) (p q : Quat K) (u w : V3 K) :
    t_db3_concat (envL (in3 s p u ++ in3 t q w)) = .okS (flb3 (Decomposed.concat basis3Ops (mk3 s p u) (mk3 t q w))) := by
  tr_auto
theorem t_db3_concat_self (s t : K) (p q : Quat K) (u w : V3 K) :
    t_db3_concat_self (envL (in3 s p u ++ in3 t q w)) = .okS (flb3 (Decomposed.concat basis3Ops (mk3 s p u) (mk3 t q w))) := by
  tr_auto
theorem t_db3_mul (s t : K) (p q : Quat K) (u w : V3 K) :
    t_db3_mul (envL (in3 s p u ++ in3 t q w)) = .okS (flb3 (Decomposed.concat basis3Ops (mk3 s p u) (mk3 t q w))) := by
  tr_auto
theorem t_db3_transform_point (s : K) (q : Quat K) (u : V3 K) (p : P3 K) :
    t_db3_transform_point (envL (in3 s q u ++ p.toList)) =
      .okS (P3.fromVec (Decomposed.transformPointV basis3Ops (mk3 s q u) p.toVec)).toList := by tr_auto
theorem t_db3_transform_vector (s : K) (q : Quat K) (u w : V3 K) :
    t_db3_transform_vector (envL (in3 s q u ++ w.toList)) =
      .okS (Decomposed.transformVector basis3Ops (mk3 s q u) w).toList := by tr_auto
theorem t_db3_to_matrix (s : K) (q : Quat K) (u : V3 K) :
    t_db3_to_matrix (envL (in3 s q u)) = .okS (Decomposed.toM4 basis3Ops (mk3 s q u)).toList := by tr_auto

/-! `inverse_transform` through `Basis3::invert = Matrix3::invert().unwrap()`: two comparisons, `ulps_eq!(scale, 0)` and
`det == 0`; a singular rotation matrix is the `unwrap` panic -/
theorem inv3 (m : M3 K) (h : m.det ≠ 0) :
    m.invert = some (M3.transpose ⟨V3.cross m.y m.z / m.det, V3.cross m.z m.x / m.det, V3.cross m.x m.y / m.det⟩) := by
  simp only [M3.invert, if_neg h]
theorem t_db3_inverse_transform_some (s : K) (q : Quat K) (u : V3 K) (h : ulpsEqD s 0 = false) (hd : q.toM3.det ≠ 0) :
    (match Decomposed.inverseTransform basis3Ops (mk3 s q u) with
      | .ok r => t_db3_inverse_transform_some (envL (in3 s q u)) =
          .okG (flb3 r) [.ulps s 0 eps52 4 false, .eq q.toM3.det 0 false]
      | _ => False) := by
  simp only [Decomposed.inverseTransform, mk3, h, basis3Ops, Basis3.invert?, Basis3.fromQuaternion, inv3 _ hd, Option.map]
  simp [M3.det, Quat.toM3]; tr_auto
theorem t_db3_inverse_transform_none (s : K) (q : Quat K) (u : V3 K) (h : ulpsEqD s 0 = true) :
    t_db3_inverse_transform_none (envL (in3 s q u)) = .noneG [.ulps s 0 eps52 4 true] ∧
      Decomposed.inverseTransform basis3Ops (mk3 s q u) = .none := by
  refine ⟨by tr_auto, by simp [Decomposed.inverseTransform, h]⟩
theorem t_db3_inverse_transform_panic (s : K) (q : Quat K) (u : V3 K) (h : ulpsEqD s 0 = false) (hd : q.toM3.det = 0) :
    t_db3_inverse_transform_panic (envL (in3 s q u)) = .panicG [.ulps s 0 eps52 4 false, .eq q.toM3.det 0 true] ∧
      Decomposed.inverseTransform basis3Ops (mk3 s q u) = .panic := by
  refine ⟨by simp [M3.det, Quat.toM3]; tr_auto, by
    simp only [Decomposed.inverseTransform, mk3, h, basis3Ops, Basis3.invert?, Basis3.fromQuaternion, M3.invert, if_pos hd,
      Option.map]; simp⟩
theorem t_db3_inverse_transform_vector (s : K) (q : Quat K) (u w : V3 K) (h : ulpsEqD s 0 = false) (hd : q.toM3.det ≠ 0) :
    (match Decomposed.inverseTransformVector basis3Ops (mk3 s q u) w with
      | .ok r => t_db3_inverse_transform_vector (envL (in3 s q u ++ w.toList)) =
          .okG r.toList [.ulps s 0 eps52 4 false, .eq q.toM3.det 0 false]
      | _ => False) := by
  simp only [Decomposed.inverseTransformVector, mk3, h, basis3Ops, Basis3.invert?, Basis3.fromQuaternion, inv3 _ hd, Option.map]
  simp [M3.det, Quat.toM3]; tr_auto

/-! `Decomposed<Vector2, Basis2>`: the `Basis2` is built from an angle -/
theorem t_db2_transform_point (s a : K) (u : V2 K) (p : P2 K) :
    t_db2_transform_point (envL (in2 s a u ++ p.toList)) =
      .okS (P2.fromVec (Decomposed.transformPointV basis2Ops (mk2 s a u) p.toVec)).toList := by tr_auto
theorem t_db2_transform_vector (s a : K) (u w : V2 K) :
    t_db2_transform_vector (envL (in2 s a u ++ w.toList)) =
      .okS (Decomposed.transformVector basis2Ops (mk2 s a u) w).toList := by tr_auto
theorem t_db2_concat_self (s t a b : K) (u w : V2 K) :
    t_db2_concat_self (envL (in2 s a u ++ in2 t b w)) =
      .okS (flb2 (Decomposed.concat basis2Ops (mk2 s a u) (mk2 t b w))) := by tr_auto
theorem t_db2_mul (s t a b : K) (u w : V2 K) :
    t_db2_mul (envL (in2 s a u ++ in2 t b w)) =
      .okS (flb2 (Decomposed.concat basis2Ops (mk2 s a u) (mk2 t b w))) := by tr_auto
theorem inv2 (m : M2 K) (h : m.det ≠ 0) :
    m.invert = some (M2.new (m.y.y / m.det) (-m.x.y / m.det) (-m.y.x / m.det) (m.x.x / m.det)) := by
  simp only [M2.invert, if_neg h]
theorem t_db2_inverse_transform_some (s a : K) (u : V2 K) (h : ulpsEqD s 0 = false) (hd : (M2.fromAngle a).det ≠ 0) :
    (match Decomposed.inverseTransform basis2Ops (mk2 s a u) with
      | .ok r => t_db2_inverse_transform_some (envL (in2 s a u)) =
          .okG (flb2 r) [.ulps s 0 eps52 4 false, .eq (M2.fromAngle a).det 0 false]
      | _ => False) := by
  simp only [Decomposed.inverseTransform, mk2, h, basis2Ops, Basis2.invert?, inv2 _ hd, Option.map]
  simp [M2.det]; tr_auto
theorem t_db2_inverse_transform_none (s a : K) (u : V2 K) (h : ulpsEqD s 0 = true) :
    t_db2_inverse_transform_none (envL (in2 s a u)) = .noneG [.ulps s 0 eps52 4 true] ∧
      Decomposed.inverseTransform basis2Ops (mk2 s a u) = .none := by
  refine ⟨by tr_auto, by simp [Decomposed.inverseTransform, h]⟩
theorem t_db2_inverse_transform_vector (s a : K) (u w : V2 K) (h : ulpsEqD s 0 = false) (hd : (M2.fromAngle a).det ≠ 0) :
    (match Decomposed.inverseTransformVector basis2Ops (mk2 s a u) w with
      | .ok r => t_db2_inverse_transform_vector (envL (in2 s a u ++ w.toList)) =
          .okG r.toList [.ulps s 0 eps52 4 false, .eq (M2.fromAngle a).det 0 false]
      | _ => False) := by
  simp only [Decomposed.inverseTransformVector, mk2, h, basis2Ops, Basis2.invert?, inv2 _ hd, Option.map]
  simp [M2.det]; tr_auto

/-! `Decomposed::look_at*`: with a `Basis3` the rotation is `Matrix3::look_to_lh` itself (no comparison); with a
quaternion, `look_at` (deprecated alias of `look_at_lh`) on the trace-positive path of `From<Matrix3>` -/
attribute [local simp] Decomposed.lookAtDir Quat.lookAt Basis3.lookAt M3.lookToLh V3.normalize V3.normalizeTo V3.magnitude
  Basis2.lookAt M2.lookAt M2.lookAtStable V2.normalize V2.normalizeTo V2.magnitude
theorem t_db3_look_at_lh (e c : P3 K) (u : V3 K) :
    t_db3_look_at_lh (envL (e.toList ++ c.toList ++ u.toList)) =
      .okS (flb3 (Decomposed.lookAtDir basis3Ops (c - e) u V3.zero e.toVec)) := by tr_auto_nf
theorem t_db3_look_at (e c : P3 K) (u : V3 K) :
    t_db3_look_at (envL (e.toList ++ c.toList ++ u.toList)) =
      .okS (flb3 (Decomposed.lookAtDir basis3Ops (c - e) u V3.zero e.toVec)) := by tr_auto_nf
theorem t_db3_look_at_rh (e c : P3 K) (u : V3 K) :
    t_db3_look_at_rh (envL (e.toList ++ c.toList ++ u.toList)) =
      .okS (flb3 (Decomposed.lookAtDir basis3Ops (e - c) u V3.zero e.toVec)) := by tr_auto_nf
theorem t_dq_look_at (e c : P3 K) (u : V3 K) (h : 0 ≤ (M3.lookToLh (c - e) u).trace) :
    t_dq_look_at (envL (e.toList ++ c.toList ++ u.toList)) =
      .okG (flq (Decomposed.lookAtDir quatOps (c - e) u V3.zero e.toVec))
        [.le 0 (M3.lookToLh (c - e) u).trace true] := by
  have h' := h
  simp only [Decomposed.lookAtDir, quatOps, Quat.lookAt]
  unfold M3.toQuat
  simp only [if_pos h']
  tr_auto_nf
/-- 2-D `look_at_lh`: `Matrix2::look_at(center - eye, up)`, on the no-flip side of its comparison -/
theorem t_db2_look_at_lh (e c : P2 K) (u : V2 K) (h : ¬ u.y * (c - e).x ≤ u.x * (c - e).y) :
    t_db2_look_at_lh (envL (e.toList ++ c.toList ++ u.toList)) =
      .okG (flb2 (Decomposed.lookAtDir basis2Ops (c - e) u V2.zero e.toVec))
        [.le (u.y * (c - e).x) (u.x * (c - e).y) false] := by
  simp only [Decomposed.lookAtDir, basis2Ops, Basis2.lookAt, M2.lookAt, h, decide_false]
  tr_auto_nf
end Cg.Trace.C08Paths
