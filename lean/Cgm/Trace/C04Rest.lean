import Cgm.Gen.C04
/-! # T obligations for C04, remaining kernel: `Quaternion % scalar` (`Rem<S>`: component-wise remainder) -/
set_option linter.unusedSectionVars false
namespace Cg.Trace.C04Rest
open Cg Cg.Gen.C04
variable {K : Type} [Field K] [Transc K] [FRem K] [Lits K]

theorem t_q_rem_s (p : Quat K) (s : K) : t_q_rem_s (envL (p.toList ++ [s])) = .okS (p.rem s).toList := by
  simp [Quat.rem, V3.rem]; tr_auto
end Cg.Trace.C04Rest
