import Cgm.Gen.C11
import Cgm.Model.Rot
/-! # T obligations for C11: magnitude, distance, normalise, angle, projection -/
set_option linter.unusedSectionVars false
namespace Cg.Trace.C11
open Cg Cg.Gen.C11
variable {K : Type} [Field K] [LinearOrder K] [Transc K] [FRem K] [Lits K]
attribute [local simp] V2.magnitude V3.magnitude V4.magnitude V3.normalize V3.normalizeTo V3.distance
  V2.angle V3.angle Quat.magnitude Quat.normalize Quat.normalizeTo

theorem t_v2_magnitude (a : V2 K) : t_v2_magnitude (envL a.toList) = .okS [a.magnitude] := by tr_auto_nf
theorem t_v3_magnitude (a : V3 K) : t_v3_magnitude (envL a.toList) = .okS [a.magnitude] := by tr_auto_nf
theorem t_v4_magnitude (a : V4 K) : t_v4_magnitude (envL a.toList) = .okS [a.magnitude] := by tr_auto_nf
theorem t_v3_normalize (a : V3 K) : t_v3_normalize (envL a.toList) = .okS a.normalize.toList := by tr_auto_nf
theorem t_v3_normalize_to (a : V3 K) (m : K) :
    t_v3_normalize_to (envL (a.toList ++ [m])) = .okS (a.normalizeTo m).toList := by tr_auto_nf
theorem t_v3_distance (a b : V3 K) : t_v3_distance (envL (a.toList ++ b.toList)) = .okS [V3.distance a b] := by tr_auto_nf
theorem t_v3_project_on (a b : V3 K) :
    t_v3_project_on (envL (a.toList ++ b.toList)) = .okS (V3.projectOn a b).toList := by tr_auto
theorem t_v3_angle (a b : V3 K) : t_v3_angle (envL (a.toList ++ b.toList)) = .okS [V3.angle a b] := by tr_auto_nf
theorem t_v2_angle (a b : V2 K) : t_v2_angle (envL (a.toList ++ b.toList)) = .okS [V2.angle a b] := by tr_auto_nf
/-- the default `angle` (as repaired): `acos` of the cosine clamped to `[-1, 1]`; two comparisons on the
unclamped path, one when the cosine exceeds 1 -/
theorem t_v4_angle (a b : V4 K) (h1 : ¬ 1 < V4.dot a b / (a.magnitude * b.magnitude))
    (h2 : ¬ V4.dot a b / (a.magnitude * b.magnitude) < -1) :
    t_v4_angle (envL (a.toList ++ b.toList)) =
      .okG [V4.angle a b] [.lt 1 (V4.dot a b / (a.magnitude * b.magnitude)) false,
                           .lt (V4.dot a b / (a.magnitude * b.magnitude)) (-1) false] := by
  simp only [V4.angle, clampUnit, if_neg h1, if_neg h2]; tr_auto_nf
theorem t_v4_angle_clamped (a b : V4 K) (h1 : 1 < V4.dot a b / (a.magnitude * b.magnitude)) :
    t_v4_angle_clamped (envL (a.toList ++ b.toList)) =
      .okG [V4.angle a b] [.lt 1 (V4.dot a b / (a.magnitude * b.magnitude)) true] := by
  simp only [V4.angle, clampUnit, if_pos h1]; tr_auto_nf
theorem t_q_angle (a b : Quat K) (h1 : ¬ 1 < Quat.dot a b / (a.magnitude * b.magnitude))
    (h2 : ¬ Quat.dot a b / (a.magnitude * b.magnitude) < -1) :
    t_q_angle (envL (a.toList ++ b.toList)) =
      .okG [Quat.angle a b] [.lt 1 (Quat.dot a b / (a.magnitude * b.magnitude)) false,
                             .lt (Quat.dot a b / (a.magnitude * b.magnitude)) (-1) false] := by
  simp only [Quat.angle, clampUnit, if_neg h1, if_neg h2]; tr_auto_nf
theorem t_q_magnitude (q : Quat K) : t_q_magnitude (envL q.toList) = .okS [q.magnitude] := by tr_auto_nf
theorem t_q_normalize (q : Quat K) : t_q_normalize (envL q.toList) = .okS q.normalize.toList := by tr_auto_nf
theorem t_q_distance2 (p q : Quat K) : t_q_distance2 (envL (p.toList ++ q.toList)) = .okS [Quat.distance2 p q] := by tr_auto
theorem t_p3_distance2 (p q : P3 K) : t_p3_distance2 (envL (p.toList ++ q.toList)) = .okS [P3.distance2 p q] := by tr_auto
end Cg.Trace.C11
