import Cgm.Gen.C18
import Cgm.Trace.C18Rest
import Cgm.Model.Book4
/-!
# T obligations for C18: the three approx relations of the matrices, explicit tolerances (column by column, `VectorN`'s chain inside)

GENERATED once by `tools/gen_ops_obl.py` from the kernel table `lib/cgv/tracetab_ops.py`; kept as an ordinary source file.

Each kernel was traced from the real `abs_diff_eq` / `relative_eq` / `ulps_eq` of the type at the recording scalar, whose own
relations record ONE comparison each (`G.absDiff a b eps r`, `G.rel a b eps max_rel r`, `G.ulps a b eps max_ulps r`).  The
`&&` chain over the components short-circuits: `_true` is the path on which every component pair is within tolerance,
`_false_k` the path on which the pairs `0 .. k-1` (flattening order) are and pair `k` is not.  Each obligation says: under
that path condition the kernel returns the model's boolean (`Book4.lean`) after exactly the comparisons listed -- the
component pairs in order, every one with the tolerance ARGUMENTS the call was given -- with the outcomes recorded, and
writes out the boolean.  `max_ulps` is a literal of the traced kernel (`4`).
-/
set_option linter.unusedSectionVars false
set_option linter.unusedSimpArgs false
set_option linter.unusedVariables false
namespace Cg.Trace.C18OpsM
open Cg Cg.Gen.C18 Cg.Trace.C18Rest
variable {K : Type} [Field K] [LinearOrder K] [Approx K] [Transc K] [FRem K] [Lits K]

/-! ## `m2` -/
theorem t_m2_abs_diff_eq_true (a b : M2 K) (e : K) (h0 : Approx.absDiffEq a.x.x b.x.x e = true) (h1 : Approx.absDiffEq a.x.y b.x.y e = true) (h2 : Approx.absDiffEq a.y.x b.y.x e = true) (h3 : Approx.absDiffEq a.y.y b.y.y e = true) :
    t_m2_abs_diff_eq_true (envL (a.toList ++ b.toList ++ [e])) =
      okB (M2.absDiffEq a b e) [.absDiff a.x.x b.x.x e true, .absDiff a.x.y b.x.y e true, .absDiff a.y.x b.y.x e true, .absDiff a.y.y b.y.y e true] ∧
      M2.absDiffEq a b e = true := by
  constructor <;> simp [M2.absDiffEq, M2.toList, V2.absDiffEq, V2.toList, okB, eps52, envL, *]

theorem t_m2_abs_diff_eq_false_0 (a b : M2 K) (e : K) (h0 : Approx.absDiffEq a.x.x b.x.x e = false) :
    t_m2_abs_diff_eq_false_0 (envL (a.toList ++ b.toList ++ [e])) =
      okB (M2.absDiffEq a b e) [.absDiff a.x.x b.x.x e false] ∧
      M2.absDiffEq a b e = false := by
  constructor <;> simp [M2.absDiffEq, M2.toList, V2.absDiffEq, V2.toList, okB, eps52, envL, *]

theorem t_m2_abs_diff_eq_false_1 (a b : M2 K) (e : K) (h0 : Approx.absDiffEq a.x.x b.x.x e = true) (h1 : Approx.absDiffEq a.x.y b.x.y e = false) :
    t_m2_abs_diff_eq_false_1 (envL (a.toList ++ b.toList ++ [e])) =
      okB (M2.absDiffEq a b e) [.absDiff a.x.x b.x.x e true, .absDiff a.x.y b.x.y e false] ∧
      M2.absDiffEq a b e = false := by
  constructor <;> simp [M2.absDiffEq, M2.toList, V2.absDiffEq, V2.toList, okB, eps52, envL, *]

theorem t_m2_abs_diff_eq_false_2 (a b : M2 K) (e : K) (h0 : Approx.absDiffEq a.x.x b.x.x e = true) (h1 : Approx.absDiffEq a.x.y b.x.y e = true) (h2 : Approx.absDiffEq a.y.x b.y.x e = false) :
    t_m2_abs_diff_eq_false_2 (envL (a.toList ++ b.toList ++ [e])) =
      okB (M2.absDiffEq a b e) [.absDiff a.x.x b.x.x e true, .absDiff a.x.y b.x.y e true, .absDiff a.y.x b.y.x e false] ∧
      M2.absDiffEq a b e = false := by
  constructor <;> simp [M2.absDiffEq, M2.toList, V2.absDiffEq, V2.toList, okB, eps52, envL, *]

theorem t_m2_abs_diff_eq_false_3 (a b : M2 K) (e : K) (h0 : Approx.absDiffEq a.x.x b.x.x e = true) (h1 : Approx.absDiffEq a.x.y b.x.y e = true) (h2 : Approx.absDiffEq a.y.x b.y.x e = true) (h3 : Approx.absDiffEq a.y.y b.y.y e = false) :
    t_m2_abs_diff_eq_false_3 (envL (a.toList ++ b.toList ++ [e])) =
      okB (M2.absDiffEq a b e) [.absDiff a.x.x b.x.x e true, .absDiff a.x.y b.x.y e true, .absDiff a.y.x b.y.x e true, .absDiff a.y.y b.y.y e false] ∧
      M2.absDiffEq a b e = false := by
  constructor <;> simp [M2.absDiffEq, M2.toList, V2.absDiffEq, V2.toList, okB, eps52, envL, *]

theorem t_m2_relative_eq_true (a b : M2 K) (e m : K) (h0 : Approx.relEq a.x.x b.x.x e m = true) (h1 : Approx.relEq a.x.y b.x.y e m = true) (h2 : Approx.relEq a.y.x b.y.x e m = true) (h3 : Approx.relEq a.y.y b.y.y e m = true) :
    t_m2_relative_eq_true (envL (a.toList ++ b.toList ++ [e, m])) =
      okB (M2.relEq a b e m) [.rel a.x.x b.x.x e m true, .rel a.x.y b.x.y e m true, .rel a.y.x b.y.x e m true, .rel a.y.y b.y.y e m true] ∧
      M2.relEq a b e m = true := by
  constructor <;> simp [M2.relEq, M2.toList, V2.relEq, V2.toList, okB, eps52, envL, *]

theorem t_m2_relative_eq_false_0 (a b : M2 K) (e m : K) (h0 : Approx.relEq a.x.x b.x.x e m = false) :
    t_m2_relative_eq_false_0 (envL (a.toList ++ b.toList ++ [e, m])) =
      okB (M2.relEq a b e m) [.rel a.x.x b.x.x e m false] ∧
      M2.relEq a b e m = false := by
  constructor <;> simp [M2.relEq, M2.toList, V2.relEq, V2.toList, okB, eps52, envL, *]

theorem t_m2_relative_eq_false_1 (a b : M2 K) (e m : K) (h0 : Approx.relEq a.x.x b.x.x e m = true) (h1 : Approx.relEq a.x.y b.x.y e m = false) :
    t_m2_relative_eq_false_1 (envL (a.toList ++ b.toList ++ [e, m])) =
      okB (M2.relEq a b e m) [.rel a.x.x b.x.x e m true, .rel a.x.y b.x.y e m false] ∧
      M2.relEq a b e m = false := by
  constructor <;> simp [M2.relEq, M2.toList, V2.relEq, V2.toList, okB, eps52, envL, *]

theorem t_m2_relative_eq_false_2 (a b : M2 K) (e m : K) (h0 : Approx.relEq a.x.x b.x.x e m = true) (h1 : Approx.relEq a.x.y b.x.y e m = true) (h2 : Approx.relEq a.y.x b.y.x e m = false) :
    t_m2_relative_eq_false_2 (envL (a.toList ++ b.toList ++ [e, m])) =
      okB (M2.relEq a b e m) [.rel a.x.x b.x.x e m true, .rel a.x.y b.x.y e m true, .rel a.y.x b.y.x e m false] ∧
      M2.relEq a b e m = false := by
  constructor <;> simp [M2.relEq, M2.toList, V2.relEq, V2.toList, okB, eps52, envL, *]

theorem t_m2_relative_eq_false_3 (a b : M2 K) (e m : K) (h0 : Approx.relEq a.x.x b.x.x e m = true) (h1 : Approx.relEq a.x.y b.x.y e m = true) (h2 : Approx.relEq a.y.x b.y.x e m = true) (h3 : Approx.relEq a.y.y b.y.y e m = false) :
    t_m2_relative_eq_false_3 (envL (a.toList ++ b.toList ++ [e, m])) =
      okB (M2.relEq a b e m) [.rel a.x.x b.x.x e m true, .rel a.x.y b.x.y e m true, .rel a.y.x b.y.x e m true, .rel a.y.y b.y.y e m false] ∧
      M2.relEq a b e m = false := by
  constructor <;> simp [M2.relEq, M2.toList, V2.relEq, V2.toList, okB, eps52, envL, *]

theorem t_m2_ulps_eq_true (a b : M2 K) (e : K) (h0 : Approx.ulpsEq a.x.x b.x.x e 4 = true) (h1 : Approx.ulpsEq a.x.y b.x.y e 4 = true) (h2 : Approx.ulpsEq a.y.x b.y.x e 4 = true) (h3 : Approx.ulpsEq a.y.y b.y.y e 4 = true) :
    t_m2_ulps_eq_true (envL (a.toList ++ b.toList ++ [e])) =
      okB (M2.ulpsEq a b e 4) [.ulps a.x.x b.x.x e 4 true, .ulps a.x.y b.x.y e 4 true, .ulps a.y.x b.y.x e 4 true, .ulps a.y.y b.y.y e 4 true] ∧
      M2.ulpsEq a b e 4 = true := by
  constructor <;> simp [M2.ulpsEq, M2.toList, V2.ulpsEq, V2.toList, okB, eps52, envL, *]

theorem t_m2_ulps_eq_false_0 (a b : M2 K) (e : K) (h0 : Approx.ulpsEq a.x.x b.x.x e 4 = false) :
    t_m2_ulps_eq_false_0 (envL (a.toList ++ b.toList ++ [e])) =
      okB (M2.ulpsEq a b e 4) [.ulps a.x.x b.x.x e 4 false] ∧
      M2.ulpsEq a b e 4 = false := by
  constructor <;> simp [M2.ulpsEq, M2.toList, V2.ulpsEq, V2.toList, okB, eps52, envL, *]

theorem t_m2_ulps_eq_false_1 (a b : M2 K) (e : K) (h0 : Approx.ulpsEq a.x.x b.x.x e 4 = true) (h1 : Approx.ulpsEq a.x.y b.x.y e 4 = false) :
    t_m2_ulps_eq_false_1 (envL (a.toList ++ b.toList ++ [e])) =
      okB (M2.ulpsEq a b e 4) [.ulps a.x.x b.x.x e 4 true, .ulps a.x.y b.x.y e 4 false] ∧
      M2.ulpsEq a b e 4 = false := by
  constructor <;> simp [M2.ulpsEq, M2.toList, V2.ulpsEq, V2.toList, okB, eps52, envL, *]

theorem t_m2_ulps_eq_false_2 (a b : M2 K) (e : K) (h0 : Approx.ulpsEq a.x.x b.x.x e 4 = true) (h1 : Approx.ulpsEq a.x.y b.x.y e 4 = true) (h2 : Approx.ulpsEq a.y.x b.y.x e 4 = false) :
    t_m2_ulps_eq_false_2 (envL (a.toList ++ b.toList ++ [e])) =
      okB (M2.ulpsEq a b e 4) [.ulps a.x.x b.x.x e 4 true, .ulps a.x.y b.x.y e 4 true, .ulps a.y.x b.y.x e 4 false] ∧
      M2.ulpsEq a b e 4 = false := by
  constructor <;> simp [M2.ulpsEq, M2.toList, V2.ulpsEq, V2.toList, okB, eps52, envL, *]

theorem t_m2_ulps_eq_false_3 (a b : M2 K) (e : K) (h0 : Approx.ulpsEq a.x.x b.x.x e 4 = true) (h1 : Approx.ulpsEq a.x.y b.x.y e 4 = true) (h2 : Approx.ulpsEq a.y.x b.y.x e 4 = true) (h3 : Approx.ulpsEq a.y.y b.y.y e 4 = false) :
    t_m2_ulps_eq_false_3 (envL (a.toList ++ b.toList ++ [e])) =
      okB (M2.ulpsEq a b e 4) [.ulps a.x.x b.x.x e 4 true, .ulps a.x.y b.x.y e 4 true, .ulps a.y.x b.y.x e 4 true, .ulps a.y.y b.y.y e 4 false] ∧
      M2.ulpsEq a b e 4 = false := by
  constructor <;> simp [M2.ulpsEq, M2.toList, V2.ulpsEq, V2.toList, okB, eps52, envL, *]

/-! ## `m3` -/
theorem t_m3_abs_diff_eq_true (a b : M3 K) (e : K) (h0 : Approx.absDiffEq a.x.x b.x.x e = true) (h1 : Approx.absDiffEq a.x.y b.x.y e = true) (h2 : Approx.absDiffEq a.x.z b.x.z e = true) (h3 : Approx.absDiffEq a.y.x b.y.x e = true) (h4 : Approx.absDiffEq a.y.y b.y.y e = true) (h5 : Approx.absDiffEq a.y.z b.y.z e = true) (h6 : Approx.absDiffEq a.z.x b.z.x e = true) (h7 : Approx.absDiffEq a.z.y b.z.y e = true) (h8 : Approx.absDiffEq a.z.z b.z.z e = true) :
    t_m3_abs_diff_eq_true (envL (a.toList ++ b.toList ++ [e])) =
      okB (M3.absDiffEq a b e) [.absDiff a.x.x b.x.x e true, .absDiff a.x.y b.x.y e true, .absDiff a.x.z b.x.z e true, .absDiff a.y.x b.y.x e true, .absDiff a.y.y b.y.y e true, .absDiff a.y.z b.y.z e true, .absDiff a.z.x b.z.x e true, .absDiff a.z.y b.z.y e true, .absDiff a.z.z b.z.z e true] ∧
      M3.absDiffEq a b e = true := by
  constructor <;> simp [M3.absDiffEq, M3.toList, V3.absDiffEq, V3.toList, okB, eps52, envL, *]

theorem t_m3_abs_diff_eq_false_0 (a b : M3 K) (e : K) (h0 : Approx.absDiffEq a.x.x b.x.x e = false) :
    t_m3_abs_diff_eq_false_0 (envL (a.toList ++ b.toList ++ [e])) =
      okB (M3.absDiffEq a b e) [.absDiff a.x.x b.x.x e false] ∧
      M3.absDiffEq a b e = false := by
  constructor <;> simp [M3.absDiffEq, M3.toList, V3.absDiffEq, V3.toList, okB, eps52, envL, *]

theorem t_m3_abs_diff_eq_false_1 (a b : M3 K) (e : K) (h0 : Approx.absDiffEq a.x.x b.x.x e = true) (h1 : Approx.absDiffEq a.x.y b.x.y e = false) :
    t_m3_abs_diff_eq_false_1 (envL (a.toList ++ b.toList ++ [e])) =
      okB (M3.absDiffEq a b e) [.absDiff a.x.x b.x.x e true, .absDiff a.x.y b.x.y e false] ∧
      M3.absDiffEq a b e = false := by
  constructor <;> simp [M3.absDiffEq, M3.toList, V3.absDiffEq, V3.toList, okB, eps52, envL, *]

theorem t_m3_abs_diff_eq_false_2 (a b : M3 K) (e : K) (h0 : Approx.absDiffEq a.x.x b.x.x e = true) (h1 : Approx.absDiffEq a.x.y b.x.y e = true) (h2 : Approx.absDiffEq a.x.z b.x.z e = false) :
    t_m3_abs_diff_eq_false_2 (envL (a.toList ++ b.toList ++ [e])) =
      okB (M3.absDiffEq a b e) [.absDiff a.x.x b.x.x e true, .absDiff a.x.y b.x.y e true, .absDiff a.x.z b.x.z e false] ∧
      M3.absDiffEq a b e = false := by
  constructor <;> simp [M3.absDiffEq, M3.toList, V3.absDiffEq, V3.toList, okB, eps52, envL, *]

theorem t_m3_abs_diff_eq_false_3 (a b : M3 K) (e : K) (h0 : Approx.absDiffEq a.x.x b.x.x e = true) (h1 : Approx.absDiffEq a.x.y b.x.y e = true) (h2 : Approx.absDiffEq a.x.z b.x.z e = true) (h3 : Approx.absDiffEq a.y.x b.y.x e = false) :
    t_m3_abs_diff_eq_false_3 (envL (a.toList ++ b.toList ++ [e])) =
      okB (M3.absDiffEq a b e) [.absDiff a.x.x b.x.x e true, .absDiff a.x.y b.x.y e true, .absDiff a.x.z b.x.z e true, .absDiff a.y.x b.y.x e false] ∧
      M3.absDiffEq a b e = false := by
  constructor <;> simp [M3.absDiffEq, M3.toList, V3.absDiffEq, V3.toList, okB, eps52, envL, *]

theorem t_m3_abs_diff_eq_false_4 (a b : M3 K) (e : K) (h0 : Approx.absDiffEq a.x.x b.x.x e = true) (h1 : Approx.absDiffEq a.x.y b.x.y e = true) (h2 : Approx.absDiffEq a.x.z b.x.z e = true) (h3 : Approx.absDiffEq a.y.x b.y.x e = true) (h4 : Approx.absDiffEq a.y.y b.y.y e = false) :
    t_m3_abs_diff_eq_false_4 (envL (a.toList ++ b.toList ++ [e])) =
      okB (M3.absDiffEq a b e) [.absDiff a.x.x b.x.x e true, .absDiff a.x.y b.x.y e true, .absDiff a.x.z b.x.z e true, .absDiff a.y.x b.y.x e true, .absDiff a.y.y b.y.y e false] ∧
      M3.absDiffEq a b e = false := by
  constructor <;> simp [M3.absDiffEq, M3.toList, V3.absDiffEq, V3.toList, okB, eps52, envL, *]

theorem t_m3_abs_diff_eq_false_5 (a b : M3 K) (e : K) (h0 : Approx.absDiffEq a.x.x b.x.x e = true) (h1 : Approx.absDiffEq a.x.y b.x.y e = true) (h2 : Approx.absDiffEq a.x.z b.x.z e = true) (h3 : Approx.absDiffEq a.y.x b.y.x e = true) (h4 : Approx.absDiffEq a.y.y b.y.y e = true) (h5 : Approx.absDiffEq a.y.z b.y.z e = false) :
    t_m3_abs_diff_eq_false_5 (envL (a.toList ++ b.toList ++ [e])) =
      okB (M3.absDiffEq a b e) [.absDiff a.x.x b.x.x e true, .absDiff a.x.y b.x.y e true, .absDiff a.x.z b.x.z e true, .absDiff a.y.x b.y.x e true, .absDiff a.y.y b.y.y e true, .absDiff a.y.z b.y.z e false] ∧
      M3.absDiffEq a b e = false := by
  constructor <;> simp [M3.absDiffEq, M3.toList, V3.absDiffEq, V3.toList, okB, eps52, envL, *]

theorem t_m3_abs_diff_eq_false_6 (a b : M3 K) (e : K) (h0 : Approx.absDiffEq a.x.x b.x.x e = true) (h1 : Approx.absDiffEq a.x.y b.x.y e = true) (h2 : Approx.absDiffEq a.x.z b.x.z e = true) (h3 : Approx.absDiffEq a.y.x b.y.x e = true) (h4 : Approx.absDiffEq a.y.y b.y.y e = true) (h5 : Approx.absDiffEq a.y.z b.y.z e = true) (h6 : Approx.absDiffEq a.z.x b.z.x e = false) :
    t_m3_abs_diff_eq_false_6 (envL (a.toList ++ b.toList ++ [e])) =
      okB (M3.absDiffEq a b e) [.absDiff a.x.x b.x.x e true, .absDiff a.x.y b.x.y e true, .absDiff a.x.z b.x.z e true, .absDiff a.y.x b.y.x e true, .absDiff a.y.y b.y.y e true, .absDiff a.y.z b.y.z e true, .absDiff a.z.x b.z.x e false] ∧
      M3.absDiffEq a b e = false := by
  constructor <;> simp [M3.absDiffEq, M3.toList, V3.absDiffEq, V3.toList, okB, eps52, envL, *]

theorem t_m3_abs_diff_eq_false_7 (a b : M3 K) (e : K) (h0 : Approx.absDiffEq a.x.x b.x.x e = true) (h1 : Approx.absDiffEq a.x.y b.x.y e = true) (h2 : Approx.absDiffEq a.x.z b.x.z e = true) (h3 : Approx.absDiffEq a.y.x b.y.x e = true) (h4 : Approx.absDiffEq a.y.y b.y.y e = true) (h5 : Approx.absDiffEq a.y.z b.y.z e = true) (h6 : Approx.absDiffEq a.z.x b.z.x e = true) (h7 : Approx.absDiffEq a.z.y b.z.y e = false) :
    t_m3_abs_diff_eq_false_7 (envL (a.toList ++ b.toList ++ [e])) =
      okB (M3.absDiffEq a b e) [.absDiff a.x.x b.x.x e true, .absDiff a.x.y b.x.y e true, .absDiff a.x.z b.x.z e true, .absDiff a.y.x b.y.x e true, .absDiff a.y.y b.y.y e true, .absDiff a.y.z b.y.z e true, .absDiff a.z.x b.z.x e true, .absDiff a.z.y b.z.y e false] ∧
      M3.absDiffEq a b e = false := by
  constructor <;> simp [M3.absDiffEq, M3.toList, V3.absDiffEq, V3.toList, okB, eps52, envL, *]

theorem t_m3_abs_diff_eq_false_8 (a b : M3 K) (e : K) (h0 : Approx.absDiffEq a.x.x b.x.x e = true) (h1 : Approx.absDiffEq a.x.y b.x.y e = true) (h2 : Approx.absDiffEq a.x.z b.x.z e = true) (h3 : Approx.absDiffEq a.y.x b.y.x e = true) (h4 : Approx.absDiffEq a.y.y b.y.y e = true) (h5 : Approx.absDiffEq a.y.z b.y.z e = true) (h6 : Approx.absDiffEq a.z.x b.z.x e = true) (h7 : Approx.absDiffEq a.z.y b.z.y e = true) (h8 : Approx.absDiffEq a.z.z b.z.z e = false) :
    t_m3_abs_diff_eq_false_8 (envL (a.toList ++ b.toList ++ [e])) =
      okB (M3.absDiffEq a b e) [.absDiff a.x.x b.x.x e true, .absDiff a.x.y b.x.y e true, .absDiff a.x.z b.x.z e true, .absDiff a.y.x b.y.x e true, .absDiff a.y.y b.y.y e true, .absDiff a.y.z b.y.z e true, .absDiff a.z.x b.z.x e true, .absDiff a.z.y b.z.y e true, .absDiff a.z.z b.z.z e false] ∧
      M3.absDiffEq a b e = false := by
  constructor <;> simp [M3.absDiffEq, M3.toList, V3.absDiffEq, V3.toList, okB, eps52, envL, *]

theorem t_m3_relative_eq_true (a b : M3 K) (e m : K) (h0 : Approx.relEq a.x.x b.x.x e m = true) (h1 : Approx.relEq a.x.y b.x.y e m = true) (h2 : Approx.relEq a.x.z b.x.z e m = true) (h3 : Approx.relEq a.y.x b.y.x e m = true) (h4 : Approx.relEq a.y.y b.y.y e m = true) (h5 : Approx.relEq a.y.z b.y.z e m = true) (h6 : Approx.relEq a.z.x b.z.x e m = true) (h7 : Approx.relEq a.z.y b.z.y e m = true) (h8 : Approx.relEq a.z.z b.z.z e m = true) :
    t_m3_relative_eq_true (envL (a.toList ++ b.toList ++ [e, m])) =
      okB (M3.relEq a b e m) [.rel a.x.x b.x.x e m true, .rel a.x.y b.x.y e m true, .rel a.x.z b.x.z e m true, .rel a.y.x b.y.x e m true, .rel a.y.y b.y.y e m true, .rel a.y.z b.y.z e m true, .rel a.z.x b.z.x e m true, .rel a.z.y b.z.y e m true, .rel a.z.z b.z.z e m true] ∧
      M3.relEq a b e m = true := by
  constructor <;> simp [M3.relEq, M3.toList, V3.relEq, V3.toList, okB, eps52, envL, *]

theorem t_m3_relative_eq_false_0 (a b : M3 K) (e m : K) (h0 : Approx.relEq a.x.x b.x.x e m = false) :
    t_m3_relative_eq_false_0 (envL (a.toList ++ b.toList ++ [e, m])) =
      okB (M3.relEq a b e m) [.rel a.x.x b.x.x e m false] ∧
      M3.relEq a b e m = false := by
  constructor <;> simp [M3.relEq, M3.toList, V3.relEq, V3.toList, okB, eps52, envL, *]

theorem t_m3_relative_eq_false_1 (a b : M3 K) (e m : K) (h0 : Approx.relEq a.x.x b.x.x e m = true) (h1 : Approx.relEq a.x.y b.x.y e m = false) :
    t_m3_relative_eq_false_1 (envL (a.toList ++ b.toList ++ [e, m])) =
      okB (M3.relEq a b e m) [.rel a.x.x b.x.x e m true, .rel a.x.y b.x.y e m false] ∧
      M3.relEq a b e m = false := by
  constructor <;> simp [M3.relEq, M3.toList, V3.relEq, V3.toList, okB, eps52, envL, *]

theorem t_m3_relative_eq_false_2 (a b : M3 K) (e m : K) (h0 : Approx.relEq a.x.x b.x.x e m = true) (h1 : Approx.relEq a.x.y b.x.y e m = true) (h2 : Approx.relEq a.x.z b.x.z e m = false) :
    t_m3_relative_eq_false_2 (envL (a.toList ++ b.toList ++ [e, m])) =
      okB (M3.relEq a b e m) [.rel a.x.x b.x.x e m true, .rel a.x.y b.x.y e m true, .rel a.x.z b.x.z e m false] ∧
      M3.relEq a b e m = false := by
  constructor <;> simp [M3.relEq, M3.toList, V3.relEq, V3.toList, okB, eps52, envL, *]

theorem t_m3_relative_eq_false_3 (a b : M3 K) (e m : K) (h0 : Approx.relEq a.x.x b.x.x e m = true) (h1 : Approx.relEq a.x.y b.x.y e m = true) (h2 : Approx.relEq a.x.z b.x.z e m = true) (h3 : Approx.relEq a.y.x b.y.x e m = false) :
    t_m3_relative_eq_false_3 (envL (a.toList ++ b.toList ++ [e, m])) =
      okB (M3.relEq a b e m) [.rel a.x.x b.x.x e m true, .rel a.x.y b.x.y e m true, .rel a.x.z b.x.z e m true, .rel a.y.x b.y.x e m false] ∧
      M3.relEq a b e m = false := by
  constructor <;> simp [M3.relEq, M3.toList, V3.relEq, V3.toList, okB, eps52, envL, *]

theorem t_m3_relative_eq_false_4 (a b : M3 K) (e m : K) (h0 : Approx.relEq a.x.x b.x.x e m = true) (h1 : Approx.relEq a.x.y b.x.y e m = true) (h2 : Approx.relEq a.x.z b.x.z e m = true) (h3 : Approx.relEq a.y.x b.y.x e m = true) (h4 : Approx.relEq a.y.y b.y.y e m = false) :
    t_m3_relative_eq_false_4 (envL (a.toList ++ b.toList ++ [e, m])) =
      okB (M3.relEq a b e m) [.rel a.x.x b.x.x e m true, .rel a.x.y b.x.y e m true, .rel a.x.z b.x.z e m true, .rel a.y.x b.y.x e m true, .rel a.y.y b.y.y e m false] ∧
      M3.relEq a b e m = false := by
  constructor <;> simp [M3.relEq, M3.toList, V3.relEq, V3.toList, okB, eps52, envL, *]

theorem t_m3_relative_eq_false_5 (a b : M3 K) (e m : K) (h0 : Approx.relEq a.x.x b.x.x e m = true) (h1 : Approx.relEq a.x.y b.x.y e m = true) (h2 : Approx.relEq a.x.z b.x.z e m = true) (h3 : Approx.relEq a.y.x b.y.x e m = true) (h4 : Approx.relEq a.y.y b.y.y e m = true) (h5 : Approx.relEq a.y.z b.y.z e m = false) :
    t_m3_relative_eq_false_5 (envL (a.toList ++ b.toList ++ [e, m])) =
      okB (M3.relEq a b e m) [.rel a.x.x b.x.x e m true, .rel a.x.y b.x.y e m true, .rel a.x.z b.x.z e m true, .rel a.y.x b.y.x e m true, .rel a.y.y b.y.y e m true, .rel a.y.z b.y.z e m false] ∧
      M3.relEq a b e m = false := by
  constructor <;> simp [M3.relEq, M3.toList, V3.relEq, V3.toList, okB, eps52, envL, *]

theorem t_m3_relative_eq_false_6 (a b : M3 K) (e m : K) (h0 : Approx.relEq a.x.x b.x.x e m = true) (h1 : Approx.relEq a.x.y b.x.y e m = true) (h2 : Approx.relEq a.x.z b.x.z e m = true) (h3 : Approx.relEq a.y.x b.y.x e m = true) (h4 : Approx.relEq a.y.y b.y.y e m = true) (h5 : Approx.relEq a.y.z b.y.z e m = true) (h6 : Approx.relEq a.z.x b.z.x e m = false) :
    t_m3_relative_eq_false_6 (envL (a.toList ++ b.toList ++ [e, m])) =
      okB (M3.relEq a b e m) [.rel a.x.x b.x.x e m true, .rel a.x.y b.x.y e m true, .rel a.x.z b.x.z e m true, .rel a.y.x b.y.x e m true, .rel a.y.y b.y.y e m true, .rel a.y.z b.y.z e m true, .rel a.z.x b.z.x e m false] ∧
      M3.relEq a b e m = false := by
  constructor <;> simp [M3.relEq, M3.toList, V3.relEq, V3.toList, okB, eps52, envL, *]

theorem t_m3_relative_eq_false_7 (a b : M3 K) (e m : K) (h0 : Approx.relEq a.x.x b.x.x e m = true) (h1 : Approx.relEq a.x.y b.x.y e m = true) (h2 : Approx.relEq a.x.z b.x.z e m = true) (h3 : Approx.relEq a.y.x b.y.x e m = true) (h4 : Approx.relEq a.y.y b.y.y e m = true) (h5 : Approx.relEq a.y.z b.y.z e m = true) (h6 : Approx.relEq a.z.x b.z.x e m = true) (h7 : Approx.relEq a.z.y b.z.y e m = false) :
    t_m3_relative_eq_false_7 (envL (a.toList ++ b.toList ++ [e, m])) =
      okB (M3.relEq a b e m) [.rel a.x.x b.x.x e m true, .rel a.x.y b.x.y e m true, .rel a.x.z b.x.z e m true, .rel a.y.x b.y.x e m true, .rel a.y.y b.y.y e m true, .rel a.y.z b.y.z e m true, .rel a.z.x b.z.x e m true, .rel a.z.y b.z.y e m false] ∧
      M3.relEq a b e m = false := by
  constructor <;> simp [M3.relEq, M3.toList, V3.relEq, V3.toList, okB, eps52, envL, *]

theorem t_m3_relative_eq_false_8 (a b : M3 K) (e m : K) (h0 : Approx.relEq a.x.x b.x.x e m = true) (h1 : Approx.relEq a.x.y b.x.y e m = true) (h2 : Approx.relEq a.x.z b.x.z e m = true) (h3 : Approx.relEq a.y.x b.y.x e m = true) (h4 : Approx.relEq a.y.y b.y.y e m = true) (h5 : Approx.relEq a.y.z b.y.z e m = true) (h6 : Approx.relEq a.z.x b.z.x e m = true) (h7 : Approx.relEq a.z.y b.z.y e m = true) (h8 : Approx.relEq a.z.z b.z.z e m = false) :
    t_m3_relative_eq_false_8 (envL (a.toList ++ b.toList ++ [e, m])) =
      okB (M3.relEq a b e m) [.rel a.x.x b.x.x e m true, .rel a.x.y b.x.y e m true, .rel a.x.z b.x.z e m true, .rel a.y.x b.y.x e m true, .rel a.y.y b.y.y e m true, .rel a.y.z b.y.z e m true, .rel a.z.x b.z.x e m true, .rel a.z.y b.z.y e m true, .rel a.z.z b.z.z e m false] ∧
      M3.relEq a b e m = false := by
  constructor <;> simp [M3.relEq, M3.toList, V3.relEq, V3.toList, okB, eps52, envL, *]

theorem t_m3_ulps_eq_true (a b : M3 K) (e : K) (h0 : Approx.ulpsEq a.x.x b.x.x e 4 = true) (h1 : Approx.ulpsEq a.x.y b.x.y e 4 = true) (h2 : Approx.ulpsEq a.x.z b.x.z e 4 = true) (h3 : Approx.ulpsEq a.y.x b.y.x e 4 = true) (h4 : Approx.ulpsEq a.y.y b.y.y e 4 = true) (h5 : Approx.ulpsEq a.y.z b.y.z e 4 = true) (h6 : Approx.ulpsEq a.z.x b.z.x e 4 = true) (h7 : Approx.ulpsEq a.z.y b.z.y e 4 = true) (h8 : Approx.ulpsEq a.z.z b.z.z e 4 = true) :
    t_m3_ulps_eq_true (envL (a.toList ++ b.toList ++ [e])) =
      okB (M3.ulpsEq a b e 4) [.ulps a.x.x b.x.x e 4 true, .ulps a.x.y b.x.y e 4 true, .ulps a.x.z b.x.z e 4 true, .ulps a.y.x b.y.x e 4 true, .ulps a.y.y b.y.y e 4 true, .ulps a.y.z b.y.z e 4 true, .ulps a.z.x b.z.x e 4 true, .ulps a.z.y b.z.y e 4 true, .ulps a.z.z b.z.z e 4 true] ∧
      M3.ulpsEq a b e 4 = true := by
  constructor <;> simp [M3.ulpsEq, M3.toList, V3.ulpsEq, V3.toList, okB, eps52, envL, *]

theorem t_m3_ulps_eq_false_0 (a b : M3 K) (e : K) (h0 : Approx.ulpsEq a.x.x b.x.x e 4 = false) :
    t_m3_ulps_eq_false_0 (envL (a.toList ++ b.toList ++ [e])) =
      okB (M3.ulpsEq a b e 4) [.ulps a.x.x b.x.x e 4 false] ∧
      M3.ulpsEq a b e 4 = false := by
  constructor <;> simp [M3.ulpsEq, M3.toList, V3.ulpsEq, V3.toList, okB, eps52, envL, *]

theorem t_m3_ulps_eq_false_1 (a b : M3 K) (e : K) (h0 : Approx.ulpsEq a.x.x b.x.x e 4 = true) (h1 : Approx.ulpsEq a.x.y b.x.y e 4 = false) :
    t_m3_ulps_eq_false_1 (envL (a.toList ++ b.toList ++ [e])) =
      okB (M3.ulpsEq a b e 4) [.ulps a.x.x b.x.x e 4 true, .ulps a.x.y b.x.y e 4 false] ∧
      M3.ulpsEq a b e 4 = false := by
  constructor <;> simp [M3.ulpsEq, M3.toList, V3.ulpsEq, V3.toList, okB, eps52, envL, *]

theorem t_m3_ulps_eq_false_2 (a b : M3 K) (e : K) (h0 : Approx.ulpsEq a.x.x b.x.x e 4 = true) (h1 : Approx.ulpsEq a.x.y b.x.y e 4 = true) (h2 : Approx.ulpsEq a.x.z b.x.z e 4 = false) :
    t_m3_ulps_eq_false_2 (envL (a.toList ++ b.toList ++ [e])) =
      okB (M3.ulpsEq a b e 4) [.ulps a.x.x b.x.x e 4 true, .ulps a.x.y b.x.y e 4 true, .ulps a.x.z b.x.z e 4 false] ∧
      M3.ulpsEq a b e 4 = false := by
  constructor <;> simp [M3.ulpsEq, M3.toList, V3.ulpsEq, V3.toList, okB, eps52, envL, *]

theorem t_m3_ulps_eq_false_3 (a b : M3 K) (e : K) (h0 : Approx.ulpsEq a.x.x b.x.x e 4 = true) (h1 : Approx.ulpsEq a.x.y b.x.y e 4 = true) (h2 : Approx.ulpsEq a.x.z b.x.z e 4 = true) (h3 : Approx.ulpsEq a.y.x b.y.x e 4 = false) :
    t_m3_ulps_eq_false_3 (envL (a.toList ++ b.toList ++ [e])) =
      okB (M3.ulpsEq a b e 4) [.ulps a.x.x b.x.x e 4 true, .ulps a.x.y b.x.y e 4 true, .ulps a.x.z b.x.z e 4 true, .ulps a.y.x b.y.x e 4 false] ∧
      M3.ulpsEq a b e 4 = false := by
  constructor <;> simp [M3.ulpsEq, M3.toList, V3.ulpsEq, V3.toList, okB, eps52, envL, *]

theorem t_m3_ulps_eq_false_4 (a b : M3 K) (e : K) (h0 : Approx.ulpsEq a.x.x b.x.x e 4 = true) (h1 : Approx.ulpsEq a.x.y b.x.y e 4 = true) (h2 : Approx.ulpsEq a.x.z b.x.z e 4 = true) (h3 : Approx.ulpsEq a.y.x b.y.x e 4 = true) (h4 : Approx.ulpsEq a.y.y b.y.y e 4 = false) :
    t_m3_ulps_eq_false_4 (envL (a.toList ++ b.toList ++ [e])) =
      okB (M3.ulpsEq a b e 4) [.ulps a.x.x b.x.x e 4 true, .ulps a.x.y b.x.y e 4 true, .ulps a.x.z b.x.z e 4 true, .ulps a.y.x b.y.x e 4 true, .ulps a.y.y b.y.y e 4 false] ∧
      M3.ulpsEq a b e 4 = false := by
  constructor <;> simp [M3.ulpsEq, M3.toList, V3.ulpsEq, V3.toList, okB, eps52, envL, *]

theorem t_m3_ulps_eq_false_5 (a b : M3 K) (e : K) (h0 : Approx.ulpsEq a.x.x b.x.x e 4 = true) (h1 : Approx.ulpsEq a.x.y b.x.y e 4 = true) (h2 : Approx.ulpsEq a.x.z b.x.z e 4 = true) (h3 : Approx.ulpsEq a.y.x b.y.x e 4 = true) (h4 : Approx.ulpsEq a.y.y b.y.y e 4 = true) (h5 : Approx.ulpsEq a.y.z b.y.z e 4 = false) :
    t_m3_ulps_eq_false_5 (envL (a.toList ++ b.toList ++ [e])) =
      okB (M3.ulpsEq a b e 4) [.ulps a.x.x b.x.x e 4 true, .ulps a.x.y b.x.y e 4 true, .ulps a.x.z b.x.z e 4 true, .ulps a.y.x b.y.x e 4 true, .ulps a.y.y b.y.y e 4 true, .ulps a.y.z b.y.z e 4 false] ∧
      M3.ulpsEq a b e 4 = false := by
  constructor <;> simp [M3.ulpsEq, M3.toList, V3.ulpsEq, V3.toList, okB, eps52, envL, *]

theorem t_m3_ulps_eq_false_6 (a b : M3 K) (e : K) (h0 : Approx.ulpsEq a.x.x b.x.x e 4 = true) (h1 : Approx.ulpsEq a.x.y b.x.y e 4 = true) (h2 : Approx.ulpsEq a.x.z b.x.z e 4 = true) (h3 : Approx.ulpsEq a.y.x b.y.x e 4 = true) (h4 : Approx.ulpsEq a.y.y b.y.y e 4 = true) (h5 : Approx.ulpsEq a.y.z b.y.z e 4 = true) (h6 : Approx.ulpsEq a.z.x b.z.x e 4 = false) :
    t_m3_ulps_eq_false_6 (envL (a.toList ++ b.toList ++ [e])) =
      okB (M3.ulpsEq a b e 4) [.ulps a.x.x b.x.x e 4 true, .ulps a.x.y b.x.y e 4 true, .ulps a.x.z b.x.z e 4 true, .ulps a.y.x b.y.x e 4 true, .ulps a.y.y b.y.y e 4 true, .ulps a.y.z b.y.z e 4 true, .ulps a.z.x b.z.x e 4 false] ∧
      M3.ulpsEq a b e 4 = false := by
  constructor <;> simp [M3.ulpsEq, M3.toList, V3.ulpsEq, V3.toList, okB, eps52, envL, *]

theorem t_m3_ulps_eq_false_7 (a b : M3 K) (e : K) (h0 : Approx.ulpsEq a.x.x b.x.x e 4 = true) (h1 : Approx.ulpsEq a.x.y b.x.y e 4 = true) (h2 : Approx.ulpsEq a.x.z b.x.z e 4 = true) (h3 : Approx.ulpsEq a.y.x b.y.x e 4 = true) (h4 : Approx.ulpsEq a.y.y b.y.y e 4 = true) (h5 : Approx.ulpsEq a.y.z b.y.z e 4 = true) (h6 : Approx.ulpsEq a.z.x b.z.x e 4 = true) (h7 : Approx.ulpsEq a.z.y b.z.y e 4 = false) :
    t_m3_ulps_eq_false_7 (envL (a.toList ++ b.toList ++ [e])) =
      okB (M3.ulpsEq a b e 4) [.ulps a.x.x b.x.x e 4 true, .ulps a.x.y b.x.y e 4 true, .ulps a.x.z b.x.z e 4 true, .ulps a.y.x b.y.x e 4 true, .ulps a.y.y b.y.y e 4 true, .ulps a.y.z b.y.z e 4 true, .ulps a.z.x b.z.x e 4 true, .ulps a.z.y b.z.y e 4 false] ∧
      M3.ulpsEq a b e 4 = false := by
  constructor <;> simp [M3.ulpsEq, M3.toList, V3.ulpsEq, V3.toList, okB, eps52, envL, *]

theorem t_m3_ulps_eq_false_8 (a b : M3 K) (e : K) (h0 : Approx.ulpsEq a.x.x b.x.x e 4 = true) (h1 : Approx.ulpsEq a.x.y b.x.y e 4 = true) (h2 : Approx.ulpsEq a.x.z b.x.z e 4 = true) (h3 : Approx.ulpsEq a.y.x b.y.x e 4 = true) (h4 : Approx.ulpsEq a.y.y b.y.y e 4 = true) (h5 : Approx.ulpsEq a.y.z b.y.z e 4 = true) (h6 : Approx.ulpsEq a.z.x b.z.x e 4 = true) (h7 : Approx.ulpsEq a.z.y b.z.y e 4 = true) (h8 : Approx.ulpsEq a.z.z b.z.z e 4 = false) :
    t_m3_ulps_eq_false_8 (envL (a.toList ++ b.toList ++ [e])) =
      okB (M3.ulpsEq a b e 4) [.ulps a.x.x b.x.x e 4 true, .ulps a.x.y b.x.y e 4 true, .ulps a.x.z b.x.z e 4 true, .ulps a.y.x b.y.x e 4 true, .ulps a.y.y b.y.y e 4 true, .ulps a.y.z b.y.z e 4 true, .ulps a.z.x b.z.x e 4 true, .ulps a.z.y b.z.y e 4 true, .ulps a.z.z b.z.z e 4 false] ∧
      M3.ulpsEq a b e 4 = false := by
  constructor <;> simp [M3.ulpsEq, M3.toList, V3.ulpsEq, V3.toList, okB, eps52, envL, *]

/-! ## `m4` -/
theorem t_m4_abs_diff_eq_true (a b : M4 K) (e : K) (h0 : Approx.absDiffEq a.x.x b.x.x e = true) (h1 : Approx.absDiffEq a.x.y b.x.y e = true) (h2 : Approx.absDiffEq a.x.z b.x.z e = true) (h3 : Approx.absDiffEq a.x.w b.x.w e = true) (h4 : Approx.absDiffEq a.y.x b.y.x e = true) (h5 : Approx.absDiffEq a.y.y b.y.y e = true) (h6 : Approx.absDiffEq a.y.z b.y.z e = true) (h7 : Approx.absDiffEq a.y.w b.y.w e = true) (h8 : Approx.absDiffEq a.z.x b.z.x e = true) (h9 : Approx.absDiffEq a.z.y b.z.y e = true) (h10 : Approx.absDiffEq a.z.z b.z.z e = true) (h11 : Approx.absDiffEq a.z.w b.z.w e = true) (h12 : Approx.absDiffEq a.w.x b.w.x e = true) (h13 : Approx.absDiffEq a.w.y b.w.y e = true) (h14 : Approx.absDiffEq a.w.z b.w.z e = true) (h15 : Approx.absDiffEq a.w.w b.w.w e = true) :
    t_m4_abs_diff_eq_true (envL (a.toList ++ b.toList ++ [e])) =
      okB (M4.absDiffEq a b e) [.absDiff a.x.x b.x.x e true, .absDiff a.x.y b.x.y e true, .absDiff a.x.z b.x.z e true, .absDiff a.x.w b.x.w e true, .absDiff a.y.x b.y.x e true, .absDiff a.y.y b.y.y e true, .absDiff a.y.z b.y.z e true, .absDiff a.y.w b.y.w e true, .absDiff a.z.x b.z.x e true, .absDiff a.z.y b.z.y e true, .absDiff a.z.z b.z.z e true, .absDiff a.z.w b.z.w e true, .absDiff a.w.x b.w.x e true, .absDiff a.w.y b.w.y e true, .absDiff a.w.z b.w.z e true, .absDiff a.w.w b.w.w e true] ∧
      M4.absDiffEq a b e = true := by
  constructor <;> simp [M4.absDiffEq, M4.toList, V4.absDiffEq, V4.toList, okB, eps52, envL, *]

theorem t_m4_abs_diff_eq_false_0 (a b : M4 K) (e : K) (h0 : Approx.absDiffEq a.x.x b.x.x e = false) :
    t_m4_abs_diff_eq_false_0 (envL (a.toList ++ b.toList ++ [e])) =
      okB (M4.absDiffEq a b e) [.absDiff a.x.x b.x.x e false] ∧
      M4.absDiffEq a b e = false := by
  constructor <;> simp [M4.absDiffEq, M4.toList, V4.absDiffEq, V4.toList, okB, eps52, envL, *]

theorem t_m4_abs_diff_eq_false_1 (a b : M4 K) (e : K) (h0 : Approx.absDiffEq a.x.x b.x.x e = true) (h1 : Approx.absDiffEq a.x.y b.x.y e = false) :
    t_m4_abs_diff_eq_false_1 (envL (a.toList ++ b.toList ++ [e])) =
      okB (M4.absDiffEq a b e) [.absDiff a.x.x b.x.x e true, .absDiff a.x.y b.x.y e false] ∧
      M4.absDiffEq a b e = false := by
  constructor <;> simp [M4.absDiffEq, M4.toList, V4.absDiffEq, V4.toList, okB, eps52, envL, *]

theorem t_m4_abs_diff_eq_false_2 (a b : M4 K) (e : K) (h0 : Approx.absDiffEq a.x.x b.x.x e = true) (h1 : Approx.absDiffEq a.x.y b.x.y e = true) (h2 : Approx.absDiffEq a.x.z b.x.z e = false) :
    t_m4_abs_diff_eq_false_2 (envL (a.toList ++ b.toList ++ [e])) =
      okB (M4.absDiffEq a b e) [.absDiff a.x.x b.x.x e true, .absDiff a.x.y b.x.y e true, .absDiff a.x.z b.x.z e false] ∧
      M4.absDiffEq a b e = false := by
  constructor <;> simp [M4.absDiffEq, M4.toList, V4.absDiffEq, V4.toList, okB, eps52, envL, *]

theorem t_m4_abs_diff_eq_false_3 (a b : M4 K) (e : K) (h0 : Approx.absDiffEq a.x.x b.x.x e = true) (h1 : Approx.absDiffEq a.x.y b.x.y e = true) (h2 : Approx.absDiffEq a.x.z b.x.z e = true) (h3 : Approx.absDiffEq a.x.w b.x.w e = false) :
    t_m4_abs_diff_eq_false_3 (envL (a.toList ++ b.toList ++ [e])) =
      okB (M4.absDiffEq a b e) [.absDiff a.x.x b.x.x e true, .absDiff a.x.y b.x.y e true, .absDiff a.x.z b.x.z e true, .absDiff a.x.w b.x.w e false] ∧
      M4.absDiffEq a b e = false := by
  constructor <;> simp [M4.absDiffEq, M4.toList, V4.absDiffEq, V4.toList, okB, eps52, envL, *]

theorem t_m4_abs_diff_eq_false_4 (a b : M4 K) (e : K) (h0 : Approx.absDiffEq a.x.x b.x.x e = true) (h1 : Approx.absDiffEq a.x.y b.x.y e = true) (h2 : Approx.absDiffEq a.x.z b.x.z e = true) (h3 : Approx.absDiffEq a.x.w b.x.w e = true) (h4 : Approx.absDiffEq a.y.x b.y.x e = false) :
    t_m4_abs_diff_eq_false_4 (envL (a.toList ++ b.toList ++ [e])) =
      okB (M4.absDiffEq a b e) [.absDiff a.x.x b.x.x e true, .absDiff a.x.y b.x.y e true, .absDiff a.x.z b.x.z e true, .absDiff a.x.w b.x.w e true, .absDiff a.y.x b.y.x e false] ∧
      M4.absDiffEq a b e = false := by
  constructor <;> simp [M4.absDiffEq, M4.toList, V4.absDiffEq, V4.toList, okB, eps52, envL, *]

theorem t_m4_abs_diff_eq_false_5 (a b : M4 K) (e : K) (h0 : Approx.absDiffEq a.x.x b.x.x e = true) (h1 : Approx.absDiffEq a.x.y b.x.y e = true) (h2 : Approx.absDiffEq a.x.z b.x.z e = true) (h3 : Approx.absDiffEq a.x.w b.x.w e = true) (h4 : Approx.absDiffEq a.y.x b.y.x e = true) (h5 : Approx.absDiffEq a.y.y b.y.y e = false) :
    t_m4_abs_diff_eq_false_5 (envL (a.toList ++ b.toList ++ [e])) =
      okB (M4.absDiffEq a b e) [.absDiff a.x.x b.x.x e true, .absDiff a.x.y b.x.y e true, .absDiff a.x.z b.x.z e true, .absDiff a.x.w b.x.w e true, .absDiff a.y.x b.y.x e true, .absDiff a.y.y b.y.y e false] ∧
      M4.absDiffEq a b e = false := by
  constructor <;> simp [M4.absDiffEq, M4.toList, V4.absDiffEq, V4.toList, okB, eps52, envL, *]

theorem t_m4_abs_diff_eq_false_6 (a b : M4 K) (e : K) (h0 : Approx.absDiffEq a.x.x b.x.x e = true) (h1 : Approx.absDiffEq a.x.y b.x.y e = true) (h2 : Approx.absDiffEq a.x.z b.x.z e = true) (h3 : Approx.absDiffEq a.x.w b.x.w e = true) (h4 : Approx.absDiffEq a.y.x b.y.x e = true) (h5 : Approx.absDiffEq a.y.y b.y.y e = true) (h6 : Approx.absDiffEq a.y.z b.y.z e = false) :
    t_m4_abs_diff_eq_false_6 (envL (a.toList ++ b.toList ++ [e])) =
      okB (M4.absDiffEq a b e) [.absDiff a.x.x b.x.x e true, .absDiff a.x.y b.x.y e true, .absDiff a.x.z b.x.z e true, .absDiff a.x.w b.x.w e true, .absDiff a.y.x b.y.x e true, .absDiff a.y.y b.y.y e true, .absDiff a.y.z b.y.z e false] ∧
      M4.absDiffEq a b e = false := by
  constructor <;> simp [M4.absDiffEq, M4.toList, V4.absDiffEq, V4.toList, okB, eps52, envL, *]

theorem t_m4_abs_diff_eq_false_7 (a b : M4 K) (e : K) (h0 : Approx.absDiffEq a.x.x b.x.x e = true) (h1 : Approx.absDiffEq a.x.y b.x.y e = true) (h2 : Approx.absDiffEq a.x.z b.x.z e = true) (h3 : Approx.absDiffEq a.x.w b.x.w e = true) (h4 : Approx.absDiffEq a.y.x b.y.x e = true) (h5 : Approx.absDiffEq a.y.y b.y.y e = true) (h6 : Approx.absDiffEq a.y.z b.y.z e = true) (h7 : Approx.absDiffEq a.y.w b.y.w e = false) :
    t_m4_abs_diff_eq_false_7 (envL (a.toList ++ b.toList ++ [e])) =
      okB (M4.absDiffEq a b e) [.absDiff a.x.x b.x.x e true, .absDiff a.x.y b.x.y e true, .absDiff a.x.z b.x.z e true, .absDiff a.x.w b.x.w e true, .absDiff a.y.x b.y.x e true, .absDiff a.y.y b.y.y e true, .absDiff a.y.z b.y.z e true, .absDiff a.y.w b.y.w e false] ∧
      M4.absDiffEq a b e = false := by
  constructor <;> simp [M4.absDiffEq, M4.toList, V4.absDiffEq, V4.toList, okB, eps52, envL, *]

theorem t_m4_abs_diff_eq_false_8 (a b : M4 K) (e : K) (h0 : Approx.absDiffEq a.x.x b.x.x e = true) (h1 : Approx.absDiffEq a.x.y b.x.y e = true) (h2 : Approx.absDiffEq a.x.z b.x.z e = true) (h3 : Approx.absDiffEq a.x.w b.x.w e = true) (h4 : Approx.absDiffEq a.y.x b.y.x e = true) (h5 : Approx.absDiffEq a.y.y b.y.y e = true) (h6 : Approx.absDiffEq a.y.z b.y.z e = true) (h7 : Approx.absDiffEq a.y.w b.y.w e = true) (h8 : Approx.absDiffEq a.z.x b.z.x e = false) :
    t_m4_abs_diff_eq_false_8 (envL (a.toList ++ b.toList ++ [e])) =
      okB (M4.absDiffEq a b e) [.absDiff a.x.x b.x.x e true, .absDiff a.x.y b.x.y e true, .absDiff a.x.z b.x.z e true, .absDiff a.x.w b.x.w e true, .absDiff a.y.x b.y.x e true, .absDiff a.y.y b.y.y e true, .absDiff a.y.z b.y.z e true, .absDiff a.y.w b.y.w e true, .absDiff a.z.x b.z.x e false] ∧
      M4.absDiffEq a b e = false := by
  constructor <;> simp [M4.absDiffEq, M4.toList, V4.absDiffEq, V4.toList, okB, eps52, envL, *]

theorem t_m4_abs_diff_eq_false_9 (a b : M4 K) (e : K) (h0 : Approx.absDiffEq a.x.x b.x.x e = true) (h1 : Approx.absDiffEq a.x.y b.x.y e = true) (h2 : Approx.absDiffEq a.x.z b.x.z e = true) (h3 : Approx.absDiffEq a.x.w b.x.w e = true) (h4 : Approx.absDiffEq a.y.x b.y.x e = true) (h5 : Approx.absDiffEq a.y.y b.y.y e = true) (h6 : Approx.absDiffEq a.y.z b.y.z e = true) (h7 : Approx.absDiffEq a.y.w b.y.w e = true) (h8 : Approx.absDiffEq a.z.x b.z.x e = true) (h9 : Approx.absDiffEq a.z.y b.z.y e = false) :
    t_m4_abs_diff_eq_false_9 (envL (a.toList ++ b.toList ++ [e])) =
      okB (M4.absDiffEq a b e) [.absDiff a.x.x b.x.x e true, .absDiff a.x.y b.x.y e true, .absDiff a.x.z b.x.z e true, .absDiff a.x.w b.x.w e true, .absDiff a.y.x b.y.x e true, .absDiff a.y.y b.y.y e true, .absDiff a.y.z b.y.z e true, .absDiff a.y.w b.y.w e true, .absDiff a.z.x b.z.x e true, .absDiff a.z.y b.z.y e false] ∧
      M4.absDiffEq a b e = false := by
  constructor <;> simp [M4.absDiffEq, M4.toList, V4.absDiffEq, V4.toList, okB, eps52, envL, *]

theorem t_m4_abs_diff_eq_false_10 (a b : M4 K) (e : K) (h0 : Approx.absDiffEq a.x.x b.x.x e = true) (h1 : Approx.absDiffEq a.x.y b.x.y e = true) (h2 : Approx.absDiffEq a.x.z b.x.z e = true) (h3 : Approx.absDiffEq a.x.w b.x.w e = true) (h4 : Approx.absDiffEq a.y.x b.y.x e = true) (h5 : Approx.absDiffEq a.y.y b.y.y e = true) (h6 : Approx.absDiffEq a.y.z b.y.z e = true) (h7 : Approx.absDiffEq a.y.w b.y.w e = true) (h8 : Approx.absDiffEq a.z.x b.z.x e = true) (h9 : Approx.absDiffEq a.z.y b.z.y e = true) (h10 : Approx.absDiffEq a.z.z b.z.z e = false) :
    t_m4_abs_diff_eq_false_10 (envL (a.toList ++ b.toList ++ [e])) =
      okB (M4.absDiffEq a b e) [.absDiff a.x.x b.x.x e true, .absDiff a.x.y b.x.y e true, .absDiff a.x.z b.x.z e true, .absDiff a.x.w b.x.w e true, .absDiff a.y.x b.y.x e true, .absDiff a.y.y b.y.y e true, .absDiff a.y.z b.y.z e true, .absDiff a.y.w b.y.w e true, .absDiff a.z.x b.z.x e true, .absDiff a.z.y b.z.y e true, .absDiff a.z.z b.z.z e false] ∧
      M4.absDiffEq a b e = false := by
  constructor <;> simp [M4.absDiffEq, M4.toList, V4.absDiffEq, V4.toList, okB, eps52, envL, *]

theorem t_m4_abs_diff_eq_false_11 (a b : M4 K) (e : K) (h0 : Approx.absDiffEq a.x.x b.x.x e = true) (h1 : Approx.absDiffEq a.x.y b.x.y e = true) (h2 : Approx.absDiffEq a.x.z b.x.z e = true) (h3 : Approx.absDiffEq a.x.w b.x.w e = true) (h4 : Approx.absDiffEq a.y.x b.y.x e = true) (h5 : Approx.absDiffEq a.y.y b.y.y e = true) (h6 : Approx.absDiffEq a.y.z b.y.z e = true) (h7 : Approx.absDiffEq a.y.w b.y.w e = true) (h8 : Approx.absDiffEq a.z.x b.z.x e = true) (h9 : Approx.absDiffEq a.z.y b.z.y e = true) (h10 : Approx.absDiffEq a.z.z b.z.z e = true) (h11 : Approx.absDiffEq a.z.w b.z.w e = false) :
    t_m4_abs_diff_eq_false_11 (envL (a.toList ++ b.toList ++ [e])) =
      okB (M4.absDiffEq a b e) [.absDiff a.x.x b.x.x e true, .absDiff a.x.y b.x.y e true, .absDiff a.x.z b.x.z e true, .absDiff a.x.w b.x.w e true, .absDiff a.y.x b.y.x e true, .absDiff a.y.y b.y.y e true, .absDiff a.y.z b.y.z e true, .absDiff a.y.w b.y.w e true, .absDiff a.z.x b.z.x e true, .absDiff a.z.y b.z.y e true, .absDiff a.z.z b.z.z e true, .absDiff a.z.w b.z.w e false] ∧
      M4.absDiffEq a b e = false := by
  constructor <;> simp [M4.absDiffEq, M4.toList, V4.absDiffEq, V4.toList, okB, eps52, envL, *]

theorem t_m4_abs_diff_eq_false_12 (a b : M4 K) (e : K) (h0 : Approx.absDiffEq a.x.x b.x.x e = true) (h1 : Approx.absDiffEq a.x.y b.x.y e = true) (h2 : Approx.absDiffEq a.x.z b.x.z e = true) (h3 : Approx.absDiffEq a.x.w b.x.w e = true) (h4 : Approx.absDiffEq a.y.x b.y.x e = true) (h5 : Approx.absDiffEq a.y.y b.y.y e = true) (h6 : Approx.absDiffEq a.y.z b.y.z e = true) (h7 : Approx.absDiffEq a.y.w b.y.w e = true) (h8 : Approx.absDiffEq a.z.x b.z.x e = true) (h9 : Approx.absDiffEq a.z.y b.z.y e = true) (h10 : Approx.absDiffEq a.z.z b.z.z e = true) (h11 : Approx.absDiffEq a.z.w b.z.w e = true) (h12 : Approx.absDiffEq a.w.x b.w.x e = false) :
    t_m4_abs_diff_eq_false_12 (envL (a.toList ++ b.toList ++ [e])) =
      okB (M4.absDiffEq a b e) [.absDiff a.x.x b.x.x e true, .absDiff a.x.y b.x.y e true, .absDiff a.x.z b.x.z e true, .absDiff a.x.w b.x.w e true, .absDiff a.y.x b.y.x e true, .absDiff a.y.y b.y.y e true, .absDiff a.y.z b.y.z e true, .absDiff a.y.w b.y.w e true, .absDiff a.z.x b.z.x e true, .absDiff a.z.y b.z.y e true, .absDiff a.z.z b.z.z e true, .absDiff a.z.w b.z.w e true, .absDiff a.w.x b.w.x e false] ∧
      M4.absDiffEq a b e = false := by
  constructor <;> simp [M4.absDiffEq, M4.toList, V4.absDiffEq, V4.toList, okB, eps52, envL, *]

theorem t_m4_abs_diff_eq_false_13 (a b : M4 K) (e : K) (h0 : Approx.absDiffEq a.x.x b.x.x e = true) (h1 : Approx.absDiffEq a.x.y b.x.y e = true) (h2 : Approx.absDiffEq a.x.z b.x.z e = true) (h3 : Approx.absDiffEq a.x.w b.x.w e = true) (h4 : Approx.absDiffEq a.y.x b.y.x e = true) (h5 : Approx.absDiffEq a.y.y b.y.y e = true) (h6 : Approx.absDiffEq a.y.z b.y.z e = true) (h7 : Approx.absDiffEq a.y.w b.y.w e = true) (h8 : Approx.absDiffEq a.z.x b.z.x e = true) (h9 : Approx.absDiffEq a.z.y b.z.y e = true) (h10 : Approx.absDiffEq a.z.z b.z.z e = true) (h11 : Approx.absDiffEq a.z.w b.z.w e = true) (h12 : Approx.absDiffEq a.w.x b.w.x e = true) (h13 : Approx.absDiffEq a.w.y b.w.y e = false) :
    t_m4_abs_diff_eq_false_13 (envL (a.toList ++ b.toList ++ [e])) =
      okB (M4.absDiffEq a b e) [.absDiff a.x.x b.x.x e true, .absDiff a.x.y b.x.y e true, .absDiff a.x.z b.x.z e true, .absDiff a.x.w b.x.w e true, .absDiff a.y.x b.y.x e true, .absDiff a.y.y b.y.y e true, .absDiff a.y.z b.y.z e true, .absDiff a.y.w b.y.w e true, .absDiff a.z.x b.z.x e true, .absDiff a.z.y b.z.y e true, .absDiff a.z.z b.z.z e true, .absDiff a.z.w b.z.w e true, .absDiff a.w.x b.w.x e true, .absDiff a.w.y b.w.y e false] ∧
      M4.absDiffEq a b e = false := by
  constructor <;> simp [M4.absDiffEq, M4.toList, V4.absDiffEq, V4.toList, okB, eps52, envL, *]

theorem t_m4_abs_diff_eq_false_14 (a b : M4 K) (e : K) (h0 : Approx.absDiffEq a.x.x b.x.x e = true) (h1 : Approx.absDiffEq a.x.y b.x.y e = true) (h2 : Approx.absDiffEq a.x.z b.x.z e = true) (h3 : Approx.absDiffEq a.x.w b.x.w e = true) (h4 : Approx.absDiffEq a.y.x b.y.x e = true) (h5 : Approx.absDiffEq a.y.y b.y.y e = true) (h6 : Approx.absDiffEq a.y.z b.y.z e = true) (h7 : Approx.absDiffEq a.y.w b.y.w e = true) (h8 : Approx.absDiffEq a.z.x b.z.x e = true) (h9 : Approx.absDiffEq a.z.y b.z.y e = true) (h10 : Approx.absDiffEq a.z.z b.z.z e = true) (h11 : Approx.absDiffEq a.z.w b.z.w e = true) (h12 : Approx.absDiffEq a.w.x b.w.x e = true) (h13 : Approx.absDiffEq a.w.y b.w.y e = true) (h14 : Approx.absDiffEq a.w.z b.w.z e = false) :
    t_m4_abs_diff_eq_false_14 (envL (a.toList ++ b.toList ++ [e])) =
      okB (M4.absDiffEq a b e) [.absDiff a.x.x b.x.x e true, .absDiff a.x.y b.x.y e true, .absDiff a.x.z b.x.z e true, .absDiff a.x.w b.x.w e true, .absDiff a.y.x b.y.x e true, .absDiff a.y.y b.y.y e true, .absDiff a.y.z b.y.z e true, .absDiff a.y.w b.y.w e true, .absDiff a.z.x b.z.x e true, .absDiff a.z.y b.z.y e true, .absDiff a.z.z b.z.z e true, .absDiff a.z.w b.z.w e true, .absDiff a.w.x b.w.x e true, .absDiff a.w.y b.w.y e true, .absDiff a.w.z b.w.z e false] ∧
      M4.absDiffEq a b e = false := by
  constructor <;> simp [M4.absDiffEq, M4.toList, V4.absDiffEq, V4.toList, okB, eps52, envL, *]

theorem t_m4_abs_diff_eq_false_15 (a b : M4 K) (e : K) (h0 : Approx.absDiffEq a.x.x b.x.x e = true) (h1 : Approx.absDiffEq a.x.y b.x.y e = true) (h2 : Approx.absDiffEq a.x.z b.x.z e = true) (h3 : Approx.absDiffEq a.x.w b.x.w e = true) (h4 : Approx.absDiffEq a.y.x b.y.x e = true) (h5 : Approx.absDiffEq a.y.y b.y.y e = true) (h6 : Approx.absDiffEq a.y.z b.y.z e = true) (h7 : Approx.absDiffEq a.y.w b.y.w e = true) (h8 : Approx.absDiffEq a.z.x b.z.x e = true) (h9 : Approx.absDiffEq a.z.y b.z.y e = true) (h10 : Approx.absDiffEq a.z.z b.z.z e = true) (h11 : Approx.absDiffEq a.z.w b.z.w e = true) (h12 : Approx.absDiffEq a.w.x b.w.x e = true) (h13 : Approx.absDiffEq a.w.y b.w.y e = true) (h14 : Approx.absDiffEq a.w.z b.w.z e = true) (h15 : Approx.absDiffEq a.w.w b.w.w e = false) :
    t_m4_abs_diff_eq_false_15 (envL (a.toList ++ b.toList ++ [e])) =
      okB (M4.absDiffEq a b e) [.absDiff a.x.x b.x.x e true, .absDiff a.x.y b.x.y e true, .absDiff a.x.z b.x.z e true, .absDiff a.x.w b.x.w e true, .absDiff a.y.x b.y.x e true, .absDiff a.y.y b.y.y e true, .absDiff a.y.z b.y.z e true, .absDiff a.y.w b.y.w e true, .absDiff a.z.x b.z.x e true, .absDiff a.z.y b.z.y e true, .absDiff a.z.z b.z.z e true, .absDiff a.z.w b.z.w e true, .absDiff a.w.x b.w.x e true, .absDiff a.w.y b.w.y e true, .absDiff a.w.z b.w.z e true, .absDiff a.w.w b.w.w e false] ∧
      M4.absDiffEq a b e = false := by
  constructor <;> simp [M4.absDiffEq, M4.toList, V4.absDiffEq, V4.toList, okB, eps52, envL, *]

theorem t_m4_relative_eq_true (a b : M4 K) (e m : K) (h0 : Approx.relEq a.x.x b.x.x e m = true) (h1 : Approx.relEq a.x.y b.x.y e m = true) (h2 : Approx.relEq a.x.z b.x.z e m = true) (h3 : Approx.relEq a.x.w b.x.w e m = true) (h4 : Approx.relEq a.y.x b.y.x e m = true) (h5 : Approx.relEq a.y.y b.y.y e m = true) (h6 : Approx.relEq a.y.z b.y.z e m = true) (h7 : Approx.relEq a.y.w b.y.w e m = true) (h8 : Approx.relEq a.z.x b.z.x e m = true) (h9 : Approx.relEq a.z.y b.z.y e m = true) (h10 : Approx.relEq a.z.z b.z.z e m = true) (h11 : Approx.relEq a.z.w b.z.w e m = true) (h12 : Approx.relEq a.w.x b.w.x e m = true) (h13 : Approx.relEq a.w.y b.w.y e m = true) (h14 : Approx.relEq a.w.z b.w.z e m = true) (h15 : Approx.relEq a.w.w b.w.w e m = true) :
    t_m4_relative_eq_true (envL (a.toList ++ b.toList ++ [e, m])) =
      okB (M4.relEq a b e m) [.rel a.x.x b.x.x e m true, .rel a.x.y b.x.y e m true, .rel a.x.z b.x.z e m true, .rel a.x.w b.x.w e m true, .rel a.y.x b.y.x e m true, .rel a.y.y b.y.y e m true, .rel a.y.z b.y.z e m true, .rel a.y.w b.y.w e m true, .rel a.z.x b.z.x e m true, .rel a.z.y b.z.y e m true, .rel a.z.z b.z.z e m true, .rel a.z.w b.z.w e m true, .rel a.w.x b.w.x e m true, .rel a.w.y b.w.y e m true, .rel a.w.z b.w.z e m true, .rel a.w.w b.w.w e m true] ∧
      M4.relEq a b e m = true := by
  constructor <;> simp [M4.relEq, M4.toList, V4.relEq, V4.toList, okB, eps52, envL, *]

theorem t_m4_relative_eq_false_0 (a b : M4 K) (e m : K) (h0 : Approx.relEq a.x.x b.x.x e m = false) :
    t_m4_relative_eq_false_0 (envL (a.toList ++ b.toList ++ [e, m])) =
      okB (M4.relEq a b e m) [.rel a.x.x b.x.x e m false] ∧
      M4.relEq a b e m = false := by
  constructor <;> simp [M4.relEq, M4.toList, V4.relEq, V4.toList, okB, eps52, envL, *]

theorem t_m4_relative_eq_false_1 (a b : M4 K) (e m : K) (h0 : Approx.relEq a.x.x b.x.x e m = true) (h1 : Approx.relEq a.x.y b.x.y e m = false) :
    t_m4_relative_eq_false_1 (envL (a.toList ++ b.toList ++ [e, m])) =
      okB (M4.relEq a b e m) [.rel a.x.x b.x.x e m true, .rel a.x.y b.x.y e m false] ∧
      M4.relEq a b e m = false := by
  constructor <;> simp [M4.relEq, M4.toList, V4.relEq, V4.toList, okB, eps52, envL, *]

theorem t_m4_relative_eq_false_2 (a b : M4 K) (e m : K) (h0 : Approx.relEq a.x.x b.x.x e m = true) (h1 : Approx.relEq a.x.y b.x.y e m = true) (h2 : Approx.relEq a.x.z b.x.z e m = false) :
    t_m4_relative_eq_false_2 (envL (a.toList ++ b.toList ++ [e, m])) =
      okB (M4.relEq a b e m) [.rel a.x.x b.x.x e m true, .rel a.x.y b.x.y e m true, .rel a.x.z b.x.z e m false] ∧
      M4.relEq a b e m = false := by
  constructor <;> simp [M4.relEq, M4.toList, V4.relEq, V4.toList, okB, eps52, envL, *]

theorem t_m4_relative_eq_false_3 (a b : M4 K) (e m : K) (h0 : Approx.relEq a.x.x b.x.x e m = true) (h1 : Approx.relEq a.x.y b.x.y e m = true) (h2 : Approx.relEq a.x.z b.x.z e m = true) (h3 : Approx.relEq a.x.w b.x.w e m = false) :
    t_m4_relative_eq_false_3 (envL (a.toList ++ b.toList ++ [e, m])) =
      okB (M4.relEq a b e m) [.rel a.x.x b.x.x e m true, .rel a.x.y b.x.y e m true, .rel a.x.z b.x.z e m true, .rel a.x.w b.x.w e m false] ∧
      M4.relEq a b e m = false := by
  constructor <;> simp [M4.relEq, M4.toList, V4.relEq, V4.toList, okB, eps52, envL, *]

theorem t_m4_relative_eq_false_4 (a b : M4 K) (e m : K) (h0 : Approx.relEq a.x.x b.x.x e m = true) (h1 : Approx.relEq a.x.y b.x.y e m = true) (h2 : Approx.relEq a.x.z b.x.z e m = true) (h3 : Approx.relEq a.x.w b.x.w e m = true) (h4 : Approx.relEq a.y.x b.y.x e m = false) :
    t_m4_relative_eq_false_4 (envL (a.toList ++ b.toList ++ [e, m])) =
      okB (M4.relEq a b e m) [.rel a.x.x b.x.x e m true, .rel a.x.y b.x.y e m true, .rel a.x.z b.x.z e m true, .rel a.x.w b.x.w e m true, .rel a.y.x b.y.x e m false] ∧
      M4.relEq a b e m = false := by
  constructor <;> simp [M4.relEq, M4.toList, V4.relEq, V4.toList, okB, eps52, envL, *]

theorem t_m4_relative_eq_false_5 (a b : M4 K) (e m : K) (h0 : Approx.relEq a.x.x b.x.x e m = true) (h1 : Approx.relEq a.x.y b.x.y e m = true) (h2 : Approx.relEq a.x.z b.x.z e m = true) (h3 : Approx.relEq a.x.w b.x.w e m = true) (h4 : Approx.relEq a.y.x b.y.x e m = true) (h5 : Approx.relEq a.y.y b.y.y e m = false) :
    t_m4_relative_eq_false_5 (envL (a.toList ++ b.toList ++ [e, m])) =
      okB (M4.relEq a b e m) [.rel a.x.x b.x.x e m true, .rel a.x.y b.x.y e m true, .rel a.x.z b.x.z e m true, .rel a.x.w b.x.w e m true, .rel a.y.x b.y.x e m true, .rel a.y.y b.y.y e m false] ∧
      M4.relEq a b e m = false := by
  constructor <;> simp [M4.relEq, M4.toList, V4.relEq, V4.toList, okB, eps52, envL, *]

theorem t_m4_relative_eq_false_6 (a b : M4 K) (e m : K) (h0 : Approx.relEq a.x.x b.x.x e m = true) (h1 : Approx.relEq a.x.y b.x.y e m = true) (h2 : Approx.relEq a.x.z b.x.z e m = true) (h3 : Approx.relEq a.x.w b.x.w e m = true) (h4 : Approx.relEq a.y.x b.y.x e m = true) (h5 : Approx.relEq a.y.y b.y.y e m = true) (h6 : Approx.relEq a.y.z b.y.z e m = false) :
    t_m4_relative_eq_false_6 (envL (a.toList ++ b.toList ++ [e, m])) =
      okB (M4.relEq a b e m) [.rel a.x.x b.x.x e m true, .rel a.x.y b.x.y e m true, .rel a.x.z b.x.z e m true, .rel a.x.w b.x.w e m true, .rel a.y.x b.y.x e m true, .rel a.y.y b.y.y e m true, .rel a.y.z b.y.z e m false] ∧
      M4.relEq a b e m = false := by
  constructor <;> simp [M4.relEq, M4.toList, V4.relEq, V4.toList, okB, eps52, envL, *]

theorem t_m4_relative_eq_false_7 (a b : M4 K) (e m : K) (h0 : Approx.relEq a.x.x b.x.x e m = true) (h1 : Approx.relEq a.x.y b.x.y e m = true) (h2 : Approx.relEq a.x.z b.x.z e m = true) (h3 : Approx.relEq a.x.w b.x.w e m = true) (h4 : Approx.relEq a.y.x b.y.x e m = true) (h5 : Approx.relEq a.y.y b.y.y e m = true) (h6 : Approx.relEq a.y.z b.y.z e m = true) (h7 : Approx.relEq a.y.w b.y.w e m = false) :
    t_m4_relative_eq_false_7 (envL (a.toList ++ b.toList ++ [e, m])) =
      okB (M4.relEq a b e m) [.rel a.x.x b.x.x e m true, .rel a.x.y b.x.y e m true, .rel a.x.z b.x.z e m true, .rel a.x.w b.x.w e m true, .rel a.y.x b.y.x e m true, .rel a.y.y b.y.y e m true, .rel a.y.z b.y.z e m true, .rel a.y.w b.y.w e m false] ∧
      M4.relEq a b e m = false := by
  constructor <;> simp [M4.relEq, M4.toList, V4.relEq, V4.toList, okB, eps52, envL, *]

theorem t_m4_relative_eq_false_8 (a b : M4 K) (e m : K) (h0 : Approx.relEq a.x.x b.x.x e m = true) (h1 : Approx.relEq a.x.y b.x.y e m = true) (h2 : Approx.relEq a.x.z b.x.z e m = true) (h3 : Approx.relEq a.x.w b.x.w e m = true) (h4 : Approx.relEq a.y.x b.y.x e m = true) (h5 : Approx.relEq a.y.y b.y.y e m = true) (h6 : Approx.relEq a.y.z b.y.z e m = true) (h7 : Approx.relEq a.y.w b.y.w e m = true) (h8 : Approx.relEq a.z.x b.z.x e m = false) :
    t_m4_relative_eq_false_8 (envL (a.toList ++ b.toList ++ [e, m])) =
      okB (M4.relEq a b e m) [.rel a.x.x b.x.x e m true, .rel a.x.y b.x.y e m true, .rel a.x.z b.x.z e m true, .rel a.x.w b.x.w e m true, .rel a.y.x b.y.x e m true, .rel a.y.y b.y.y e m true, .rel a.y.z b.y.z e m true, .rel a.y.w b.y.w e m true, .rel a.z.x b.z.x e m false] ∧
      M4.relEq a b e m = false := by
  constructor <;> simp [M4.relEq, M4.toList, V4.relEq, V4.toList, okB, eps52, envL, *]

theorem t_m4_relative_eq_false_9 (a b : M4 K) (e m : K) (h0 : Approx.relEq a.x.x b.x.x e m = true) (h1 : Approx.relEq a.x.y b.x.y e m = true) (h2 : Approx.relEq a.x.z b.x.z e m = true) (h3 : Approx.relEq a.x.w b.x.w e m = true) (h4 : Approx.relEq a.y.x b.y.x e m = true) (h5 : Approx.relEq a.y.y b.y.y e m = true) (h6 : Approx.relEq a.y.z b.y.z e m = true) (h7 : Approx.relEq a.y.w b.y.w e m = true) (h8 : Approx.relEq a.z.x b.z.x e m = true) (h9 : Approx.relEq a.z.y b.z.y e m = false) :
    t_m4_relative_eq_false_9 (envL (a.toList ++ b.toList ++ [e, m])) =
      okB (M4.relEq a b e m) [.rel a.x.x b.x.x e m true, .rel a.x.y b.x.y e m true, .rel a.x.z b.x.z e m true, .rel a.x.w b.x.w e m true, .rel a.y.x b.y.x e m true, .rel a.y.y b.y.y e m true, .rel a.y.z b.y.z e m true, .rel a.y.w b.y.w e m true, .rel a.z.x b.z.x e m true, .rel a.z.y b.z.y e m false] ∧
      M4.relEq a b e m = false := by
  constructor <;> simp [M4.relEq, M4.toList, V4.relEq, V4.toList, okB, eps52, envL, *]

theorem t_m4_relative_eq_false_10 (a b : M4 K) (e m : K) (h0 : Approx.relEq a.x.x b.x.x e m = true) (h1 : Approx.relEq a.x.y b.x.y e m = true) (h2 : Approx.relEq a.x.z b.x.z e m = true) (h3 : Approx.relEq a.x.w b.x.w e m = true) (h4 : Approx.relEq a.y.x b.y.x e m = true) (h5 : Approx.relEq a.y.y b.y.y e m = true) (h6 : Approx.relEq a.y.z b.y.z e m = true) (h7 : Approx.relEq a.y.w b.y.w e m = true) (h8 : Approx.relEq a.z.x b.z.x e m = true) (h9 : Approx.relEq a.z.y b.z.y e m = true) (h10 : Approx.relEq a.z.z b.z.z e m = false) :
    t_m4_relative_eq_false_10 (envL (a.toList ++ b.toList ++ [e, m])) =
      okB (M4.relEq a b e m) [.rel a.x.x b.x.x e m true, .rel a.x.y b.x.y e m true, .rel a.x.z b.x.z e m true, .rel a.x.w b.x.w e m true, .rel a.y.x b.y.x e m true, .rel a.y.y b.y.y e m true, .rel a.y.z b.y.z e m true, .rel a.y.w b.y.w e m true, .rel a.z.x b.z.x e m true, .rel a.z.y b.z.y e m true, .rel a.z.z b.z.z e m false] ∧
      M4.relEq a b e m = false := by
  constructor <;> simp [M4.relEq, M4.toList, V4.relEq, V4.toList, okB, eps52, envL, *]

theorem t_m4_relative_eq_false_11 (a b : M4 K) (e m : K) (h0 : Approx.relEq a.x.x b.x.x e m = true) (h1 : Approx.relEq a.x.y b.x.y e m = true) (h2 : Approx.relEq a.x.z b.x.z e m = true) (h3 : Approx.relEq a.x.w b.x.w e m = true) (h4 : Approx.relEq a.y.x b.y.x e m = true) (h5 : Approx.relEq a.y.y b.y.y e m = true) (h6 : Approx.relEq a.y.z b.y.z e m = true) (h7 : Approx.relEq a.y.w b.y.w e m = true) (h8 : Approx.relEq a.z.x b.z.x e m = true) (h9 : Approx.relEq a.z.y b.z.y e m = true) (h10 : Approx.relEq a.z.z b.z.z e m = true) (h11 : Approx.relEq a.z.w b.z.w e m = false) :
    t_m4_relative_eq_false_11 (envL (a.toList ++ b.toList ++ [e, m])) =
      okB (M4.relEq a b e m) [.rel a.x.x b.x.x e m true, .rel a.x.y b.x.y e m true, .rel a.x.z b.x.z e m true, .rel a.x.w b.x.w e m true, .rel a.y.x b.y.x e m true, .rel a.y.y b.y.y e m true, .rel a.y.z b.y.z e m true, .rel a.y.w b.y.w e m true, .rel a.z.x b.z.x e m true, .rel a.z.y b.z.y e m true, .rel a.z.z b.z.z e m true, .rel a.z.w b.z.w e m false] ∧
      M4.relEq a b e m = false := by
  constructor <;> simp [M4.relEq, M4.toList, V4.relEq, V4.toList, okB, eps52, envL, *]

theorem t_m4_relative_eq_false_12 (a b : M4 K) (e m : K) (h0 : Approx.relEq a.x.x b.x.x e m = true) (h1 : Approx.relEq a.x.y b.x.y e m = true) (h2 : Approx.relEq a.x.z b.x.z e m = true) (h3 : Approx.relEq a.x.w b.x.w e m = true) (h4 : Approx.relEq a.y.x b.y.x e m = true) (h5 : Approx.relEq a.y.y b.y.y e m = true) (h6 : Approx.relEq a.y.z b.y.z e m = true) (h7 : Approx.relEq a.y.w b.y.w e m = true) (h8 : Approx.relEq a.z.x b.z.x e m = true) (h9 : Approx.relEq a.z.y b.z.y e m = true) (h10 : Approx.relEq a.z.z b.z.z e m = true) (h11 : Approx.relEq a.z.w b.z.w e m = true) (h12 : Approx.relEq a.w.x b.w.x e m = false) :
    t_m4_relative_eq_false_12 (envL (a.toList ++ b.toList ++ [e, m])) =
      okB (M4.relEq a b e m) [.rel a.x.x b.x.x e m true, .rel a.x.y b.x.y e m true, .rel a.x.z b.x.z e m true, .rel a.x.w b.x.w e m true, .rel a.y.x b.y.x e m true, .rel a.y.y b.y.y e m true, .rel a.y.z b.y.z e m true, .rel a.y.w b.y.w e m true, .rel a.z.x b.z.x e m true, .rel a.z.y b.z.y e m true, .rel a.z.z b.z.z e m true, .rel a.z.w b.z.w e m true, .rel a.w.x b.w.x e m false] ∧
      M4.relEq a b e m = false := by
  constructor <;> simp [M4.relEq, M4.toList, V4.relEq, V4.toList, okB, eps52, envL, *]

theorem t_m4_relative_eq_false_13 (a b : M4 K) (e m : K) (h0 : Approx.relEq a.x.x b.x.x e m = true) (h1 : Approx.relEq a.x.y b.x.y e m = true) (h2 : Approx.relEq a.x.z b.x.z e m = true) (h3 : Approx.relEq a.x.w b.x.w e m = true) (h4 : Approx.relEq a.y.x b.y.x e m = true) (h5 : Approx.relEq a.y.y b.y.y e m = true) (h6 : Approx.relEq a.y.z b.y.z e m = true) (h7 : Approx.relEq a.y.w b.y.w e m = true) (h8 : Approx.relEq a.z.x b.z.x e m = true) (h9 : Approx.relEq a.z.y b.z.y e m = true) (h10 : Approx.relEq a.z.z b.z.z e m = true) (h11 : Approx.relEq a.z.w b.z.w e m = true) (h12 : Approx.relEq a.w.x b.w.x e m = true) (h13 : Approx.relEq a.w.y b.w.y e m = false) :
    t_m4_relative_eq_false_13 (envL (a.toList ++ b.toList ++ [e, m])) =
      okB (M4.relEq a b e m) [.rel a.x.x b.x.x e m true, .rel a.x.y b.x.y e m true, .rel a.x.z b.x.z e m true, .rel a.x.w b.x.w e m true, .rel a.y.x b.y.x e m true, .rel a.y.y b.y.y e m true, .rel a.y.z b.y.z e m true, .rel a.y.w b.y.w e m true, .rel a.z.x b.z.x e m true, .rel a.z.y b.z.y e m true, .rel a.z.z b.z.z e m true, .rel a.z.w b.z.w e m true, .rel a.w.x b.w.x e m true, .rel a.w.y b.w.y e m false] ∧
      M4.relEq a b e m = false := by
  constructor <;> simp [M4.relEq, M4.toList, V4.relEq, V4.toList, okB, eps52, envL, *]

theorem t_m4_relative_eq_false_14 (a b : M4 K) (e m : K) (h0 : Approx.relEq a.x.x b.x.x e m = true) (h1 : Approx.relEq a.x.y b.x.y e m = true) (h2 : Approx.relEq a.x.z b.x.z e m = true) (h3 : Approx.relEq a.x.w b.x.w e m = true) (h4 : Approx.relEq a.y.x b.y.x e m = true) (h5 : Approx.relEq a.y.y b.y.y e m = true) (h6 : Approx.relEq a.y.z b.y.z e m = true) (h7 : Approx.relEq a.y.w b.y.w e m = true) (h8 : Approx.relEq a.z.x b.z.x e m = true) (h9 : Approx.relEq a.z.y b.z.y e m = true) (h10 : Approx.relEq a.z.z b.z.z e m = true) (h11 : Approx.relEq a.z.w b.z.w e m = true) (h12 : Approx.relEq a.w.x b.w.x e m = true) (h13 : Approx.relEq a.w.y b.w.y e m = true) (h14 : Approx.relEq a.w.z b.w.z e m = false) :
    t_m4_relative_eq_false_14 (envL (a.toList ++ b.toList ++ [e, m])) =
      okB (M4.relEq a b e m) [.rel a.x.x b.x.x e m true, .rel a.x.y b.x.y e m true, .rel a.x.z b.x.z e m true, .rel a.x.w b.x.w e m true, .rel a.y.x b.y.x e m true, .rel a.y.y b.y.y e m true, .rel a.y.z b.y.z e m true, .rel a.y.w b.y.w e m true, .rel a.z.x b.z.x e m true, .rel a.z.y b.z.y e m true, .rel a.z.z b.z.z e m true, .rel a.z.w b.z.w e m true, .rel a.w.x b.w.x e m true, .rel a.w.y b.w.y e m true, .rel a.w.z b.w.z e m false] ∧
      M4.relEq a b e m = false := by
  constructor <;> simp [M4.relEq, M4.toList, V4.relEq, V4.toList, okB, eps52, envL, *]

theorem t_m4_relative_eq_false_15 (a b : M4 K) (e m : K) (h0 : Approx.relEq a.x.x b.x.x e m = true) (h1 : Approx.relEq a.x.y b.x.y e m = true) (h2 : Approx.relEq a.x.z b.x.z e m = true) (h3 : Approx.relEq a.x.w b.x.w e m = true) (h4 : Approx.relEq a.y.x b.y.x e m = true) (h5 : Approx.relEq a.y.y b.y.y e m = true) (h6 : Approx.relEq a.y.z b.y.z e m = true) (h7 : Approx.relEq a.y.w b.y.w e m = true) (h8 : Approx.relEq a.z.x b.z.x e m = true) (h9 : Approx.relEq a.z.y b.z.y e m = true) (h10 : Approx.relEq a.z.z b.z.z e m = true) (h11 : Approx.relEq a.z.w b.z.w e m = true) (h12 : Approx.relEq a.w.x b.w.x e m = true) (h13 : Approx.relEq a.w.y b.w.y e m = true) (h14 : Approx.relEq a.w.z b.w.z e m = true) (h15 : Approx.relEq a.w.w b.w.w e m = false) :
    t_m4_relative_eq_false_15 (envL (a.toList ++ b.toList ++ [e, m])) =
      okB (M4.relEq a b e m) [.rel a.x.x b.x.x e m true, .rel a.x.y b.x.y e m true, .rel a.x.z b.x.z e m true, .rel a.x.w b.x.w e m true, .rel a.y.x b.y.x e m true, .rel a.y.y b.y.y e m true, .rel a.y.z b.y.z e m true, .rel a.y.w b.y.w e m true, .rel a.z.x b.z.x e m true, .rel a.z.y b.z.y e m true, .rel a.z.z b.z.z e m true, .rel a.z.w b.z.w e m true, .rel a.w.x b.w.x e m true, .rel a.w.y b.w.y e m true, .rel a.w.z b.w.z e m true, .rel a.w.w b.w.w e m false] ∧
      M4.relEq a b e m = false := by
  constructor <;> simp [M4.relEq, M4.toList, V4.relEq, V4.toList, okB, eps52, envL, *]

theorem t_m4_ulps_eq_true (a b : M4 K) (e : K) (h0 : Approx.ulpsEq a.x.x b.x.x e 4 = true) (h1 : Approx.ulpsEq a.x.y b.x.y e 4 = true) (h2 : Approx.ulpsEq a.x.z b.x.z e 4 = true) (h3 : Approx.ulpsEq a.x.w b.x.w e 4 = true) (h4 : Approx.ulpsEq a.y.x b.y.x e 4 = true) (h5 : Approx.ulpsEq a.y.y b.y.y e 4 = true) (h6 : Approx.ulpsEq a.y.z b.y.z e 4 = true) (h7 : Approx.ulpsEq a.y.w b.y.w e 4 = true) (h8 : Approx.ulpsEq a.z.x b.z.x e 4 = true) (h9 : Approx.ulpsEq a.z.y b.z.y e 4 = true) (h10 : Approx.ulpsEq a.z.z b.z.z e 4 = true) (h11 : Approx.ulpsEq a.z.w b.z.w e 4 = true) (h12 : Approx.ulpsEq a.w.x b.w.x e 4 = true) (h13 : Approx.ulpsEq a.w.y b.w.y e 4 = true) (h14 : Approx.ulpsEq a.w.z b.w.z e 4 = true) (h15 : Approx.ulpsEq a.w.w b.w.w e 4 = true) :
    t_m4_ulps_eq_true (envL (a.toList ++ b.toList ++ [e])) =
      okB (M4.ulpsEq a b e 4) [.ulps a.x.x b.x.x e 4 true, .ulps a.x.y b.x.y e 4 true, .ulps a.x.z b.x.z e 4 true, .ulps a.x.w b.x.w e 4 true, .ulps a.y.x b.y.x e 4 true, .ulps a.y.y b.y.y e 4 true, .ulps a.y.z b.y.z e 4 true, .ulps a.y.w b.y.w e 4 true, .ulps a.z.x b.z.x e 4 true, .ulps a.z.y b.z.y e 4 true, .ulps a.z.z b.z.z e 4 true, .ulps a.z.w b.z.w e 4 true, .ulps a.w.x b.w.x e 4 true, .ulps a.w.y b.w.y e 4 true, .ulps a.w.z b.w.z e 4 true, .ulps a.w.w b.w.w e 4 true] ∧
      M4.ulpsEq a b e 4 = true := by
  constructor <;> simp [M4.ulpsEq, M4.toList, V4.ulpsEq, V4.toList, okB, eps52, envL, *]

theorem t_m4_ulps_eq_false_0 (a b : M4 K) (e : K) (h0 : Approx.ulpsEq a.x.x b.x.x e 4 = false) :
    t_m4_ulps_eq_false_0 (envL (a.toList ++ b.toList ++ [e])) =
      okB (M4.ulpsEq a b e 4) [.ulps a.x.x b.x.x e 4 false] ∧
      M4.ulpsEq a b e 4 = false := by
  constructor <;> simp [M4.ulpsEq, M4.toList, V4.ulpsEq, V4.toList, okB, eps52, envL, *]

theorem t_m4_ulps_eq_false_1 (a b : M4 K) (e : K) (h0 : Approx.ulpsEq a.x.x b.x.x e 4 = true) (h1 : Approx.ulpsEq a.x.y b.x.y e 4 = false) :
    t_m4_ulps_eq_false_1 (envL (a.toList ++ b.toList ++ [e])) =
      okB (M4.ulpsEq a b e 4) [.ulps a.x.x b.x.x e 4 true, .ulps a.x.y b.x.y e 4 false] ∧
      M4.ulpsEq a b e 4 = false := by
  constructor <;> simp [M4.ulpsEq, M4.toList, V4.ulpsEq, V4.toList, okB, eps52, envL, *]

theorem t_m4_ulps_eq_false_2 (a b : M4 K) (e : K) (h0 : Approx.ulpsEq a.x.x b.x.x e 4 = true) (h1 : Approx.ulpsEq a.x.y b.x.y e 4 = true) (h2 : Approx.ulpsEq a.x.z b.x.z e 4 = false) :
    t_m4_ulps_eq_false_2 (envL (a.toList ++ b.toList ++ [e])) =
      okB (M4.ulpsEq a b e 4) [.ulps a.x.x b.x.x e 4 true, .ulps a.x.y b.x.y e 4 true, .ulps a.x.z b.x.z e 4 false] ∧
      M4.ulpsEq a b e 4 = false := by
  constructor <;> simp [M4.ulpsEq, M4.toList, V4.ulpsEq, V4.toList, okB, eps52, envL, *]

theorem t_m4_ulps_eq_false_3 (a b : M4 K) (e : K) (h0 : Approx.ulpsEq a.x.x b.x.x e 4 = true) (h1 : Approx.ulpsEq a.x.y b.x.y e 4 = true) (h2 : Approx.ulpsEq a.x.z b.x.z e 4 = true) (h3 : Approx.ulpsEq a.x.w b.x.w e 4 = false) :
    t_m4_ulps_eq_false_3 (envL (a.toList ++ b.toList ++ [e])) =
      okB (M4.ulpsEq a b e 4) [.ulps a.x.x b.x.x e 4 true, .ulps a.x.y b.x.y e 4 true, .ulps a.x.z b.x.z e 4 true, .ulps a.x.w b.x.w e 4 false] ∧
      M4.ulpsEq a b e 4 = false := by
  constructor <;> simp [M4.ulpsEq, M4.toList, V4.ulpsEq, V4.toList, okB, eps52, envL, *]

theorem t_m4_ulps_eq_false_4 (a b : M4 K) (e : K) (h0 : Approx.ulpsEq a.x.x b.x.x e 4 = true) (h1 : Approx.ulpsEq a.x.y b.x.y e 4 = true) (h2 : Approx.ulpsEq a.x.z b.x.z e 4 = true) (h3 : Approx.ulpsEq a.x.w b.x.w e 4 = true) (h4 : Approx.ulpsEq a.y.x b.y.x e 4 = false) :
    t_m4_ulps_eq_false_4 (envL (a.toList ++ b.toList ++ [e])) =
      okB (M4.ulpsEq a b e 4) [.ulps a.x.x b.x.x e 4 true, .ulps a.x.y b.x.y e 4 true, .ulps a.x.z b.x.z e 4 true, .ulps a.x.w b.x.w e 4 true, .ulps a.y.x b.y.x e 4 false] ∧
      M4.ulpsEq a b e 4 = false := by
  constructor <;> simp [M4.ulpsEq, M4.toList, V4.ulpsEq, V4.toList, okB, eps52, envL, *]

theorem t_m4_ulps_eq_false_5 (a b : M4 K) (e : K) (h0 : Approx.ulpsEq a.x.x b.x.x e 4 = true) (h1 : Approx.ulpsEq a.x.y b.x.y e 4 = true) (h2 : Approx.ulpsEq a.x.z b.x.z e 4 = true) (h3 : Approx.ulpsEq a.x.w b.x.w e 4 = true) (h4 : Approx.ulpsEq a.y.x b.y.x e 4 = true) (h5 : Approx.ulpsEq a.y.y b.y.y e 4 = false) :
    t_m4_ulps_eq_false_5 (envL (a.toList ++ b.toList ++ [e])) =
      okB (M4.ulpsEq a b e 4) [.ulps a.x.x b.x.x e 4 true, .ulps a.x.y b.x.y e 4 true, .ulps a.x.z b.x.z e 4 true, .ulps a.x.w b.x.w e 4 true, .ulps a.y.x b.y.x e 4 true, .ulps a.y.y b.y.y e 4 false] ∧
      M4.ulpsEq a b e 4 = false := by
  constructor <;> simp [M4.ulpsEq, M4.toList, V4.ulpsEq, V4.toList, okB, eps52, envL, *]

theorem t_m4_ulps_eq_false_6 (a b : M4 K) (e : K) (h0 : Approx.ulpsEq a.x.x b.x.x e 4 = true) (h1 : Approx.ulpsEq a.x.y b.x.y e 4 = true) (h2 : Approx.ulpsEq a.x.z b.x.z e 4 = true) (h3 : Approx.ulpsEq a.x.w b.x.w e 4 = true) (h4 : Approx.ulpsEq a.y.x b.y.x e 4 = true) (h5 : Approx.ulpsEq a.y.y b.y.y e 4 = true) (h6 : Approx.ulpsEq a.y.z b.y.z e 4 = false) :
    t_m4_ulps_eq_false_6 (envL (a.toList ++ b.toList ++ [e])) =
      okB (M4.ulpsEq a b e 4) [.ulps a.x.x b.x.x e 4 true, .ulps a.x.y b.x.y e 4 true, .ulps a.x.z b.x.z e 4 true, .ulps a.x.w b.x.w e 4 true, .ulps a.y.x b.y.x e 4 true, .ulps a.y.y b.y.y e 4 true, .ulps a.y.z b.y.z e 4 false] ∧
      M4.ulpsEq a b e 4 = false := by
  constructor <;> simp [M4.ulpsEq, M4.toList, V4.ulpsEq, V4.toList, okB, eps52, envL, *]

theorem t_m4_ulps_eq_false_7 (a b : M4 K) (e : K) (h0 : Approx.ulpsEq a.x.x b.x.x e 4 = true) (h1 : Approx.ulpsEq a.x.y b.x.y e 4 = true) (h2 : Approx.ulpsEq a.x.z b.x.z e 4 = true) (h3 : Approx.ulpsEq a.x.w b.x.w e 4 = true) (h4 : Approx.ulpsEq a.y.x b.y.x e 4 = true) (h5 : Approx.ulpsEq a.y.y b.y.y e 4 = true) (h6 : Approx.ulpsEq a.y.z b.y.z e 4 = true) (h7 : Approx.ulpsEq a.y.w b.y.w e 4 = false) :
    t_m4_ulps_eq_false_7 (envL (a.toList ++ b.toList ++ [e])) =
      okB (M4.ulpsEq a b e 4) [.ulps a.x.x b.x.x e 4 true, .ulps a.x.y b.x.y e 4 true, .ulps a.x.z b.x.z e 4 true, .ulps a.x.w b.x.w e 4 true, .ulps a.y.x b.y.x e 4 true, .ulps a.y.y b.y.y e 4 true, .ulps a.y.z b.y.z e 4 true, .ulps a.y.w b.y.w e 4 false] ∧
      M4.ulpsEq a b e 4 = false := by
  constructor <;> simp [M4.ulpsEq, M4.toList, V4.ulpsEq, V4.toList, okB, eps52, envL, *]

theorem t_m4_ulps_eq_false_8 (a b : M4 K) (e : K) (h0 : Approx.ulpsEq a.x.x b.x.x e 4 = true) (h1 : Approx.ulpsEq a.x.y b.x.y e 4 = true) (h2 : Approx.ulpsEq a.x.z b.x.z e 4 = true) (h3 : Approx.ulpsEq a.x.w b.x.w e 4 = true) (h4 : Approx.ulpsEq a.y.x b.y.x e 4 = true) (h5 : Approx.ulpsEq a.y.y b.y.y e 4 = true) (h6 : Approx.ulpsEq a.y.z b.y.z e 4 = true) (h7 : Approx.ulpsEq a.y.w b.y.w e 4 = true) (h8 : Approx.ulpsEq a.z.x b.z.x e 4 = false) :
    t_m4_ulps_eq_false_8 (envL (a.toList ++ b.toList ++ [e])) =
      okB (M4.ulpsEq a b e 4) [.ulps a.x.x b.x.x e 4 true, .ulps a.x.y b.x.y e 4 true, .ulps a.x.z b.x.z e 4 true, .ulps a.x.w b.x.w e 4 true, .ulps a.y.x b.y.x e 4 true, .ulps a.y.y b.y.y e 4 true, .ulps a.y.z b.y.z e 4 true, .ulps a.y.w b.y.w e 4 true, .ulps a.z.x b.z.x e 4 false] ∧
      M4.ulpsEq a b e 4 = false := by
  constructor <;> simp [M4.ulpsEq, M4.toList, V4.ulpsEq, V4.toList, okB, eps52, envL, *]

theorem t_m4_ulps_eq_false_9 (a b : M4 K) (e : K) (h0 : Approx.ulpsEq a.x.x b.x.x e 4 = true) (h1 : Approx.ulpsEq a.x.y b.x.y e 4 = true) (h2 : Approx.ulpsEq a.x.z b.x.z e 4 = true) (h3 : Approx.ulpsEq a.x.w b.x.w e 4 = true) (h4 : Approx.ulpsEq a.y.x b.y.x e 4 = true) (h5 : Approx.ulpsEq a.y.y b.y.y e 4 = true) (h6 : Approx.ulpsEq a.y.z b.y.z e 4 = true) (h7 : Approx.ulpsEq a.y.w b.y.w e 4 = true) (h8 : Approx.ulpsEq a.z.x b.z.x e 4 = true) (h9 : Approx.ulpsEq a.z.y b.z.y e 4 = false) :
    t_m4_ulps_eq_false_9 (envL (a.toList ++ b.toList ++ [e])) =
      okB (M4.ulpsEq a b e 4) [.ulps a.x.x b.x.x e 4 true, .ulps a.x.y b.x.y e 4 true, .ulps a.x.z b.x.z e 4 true, .ulps a.x.w b.x.w e 4 true, .ulps a.y.x b.y.x e 4 true, .ulps a.y.y b.y.y e 4 true, .ulps a.y.z b.y.z e 4 true, .ulps a.y.w b.y.w e 4 true, .ulps a.z.x b.z.x e 4 true, .ulps a.z.y b.z.y e 4 false] ∧
      M4.ulpsEq a b e 4 = false := by
  constructor <;> simp [M4.ulpsEq, M4.toList, V4.ulpsEq, V4.toList, okB, eps52, envL, *]

theorem t_m4_ulps_eq_false_10 (a b : M4 K) (e : K) (h0 : Approx.ulpsEq a.x.x b.x.x e 4 = true) (h1 : Approx.ulpsEq a.x.y b.x.y e 4 = true) (h2 : Approx.ulpsEq a.x.z b.x.z e 4 = true) (h3 : Approx.ulpsEq a.x.w b.x.w e 4 = true) (h4 : Approx.ulpsEq a.y.x b.y.x e 4 = true) (h5 : Approx.ulpsEq a.y.y b.y.y e 4 = true) (h6 : Approx.ulpsEq a.y.z b.y.z e 4 = true) (h7 : Approx.ulpsEq a.y.w b.y.w e 4 = true) (h8 : Approx.ulpsEq a.z.x b.z.x e 4 = true) (h9 : Approx.ulpsEq a.z.y b.z.y e 4 = true) (h10 : Approx.ulpsEq a.z.z b.z.z e 4 = false) :
    t_m4_ulps_eq_false_10 (envL (a.toList ++ b.toList ++ [e])) =
      okB (M4.ulpsEq a b e 4) [.ulps a.x.x b.x.x e 4 true, .ulps a.x.y b.x.y e 4 true, .ulps a.x.z b.x.z e 4 true, .ulps a.x.w b.x.w e 4 true, .ulps a.y.x b.y.x e 4 true, .ulps a.y.y b.y.y e 4 true, .ulps a.y.z b.y.z e 4 true, .ulps a.y.w b.y.w e 4 true, .ulps a.z.x b.z.x e 4 true, .ulps a.z.y b.z.y e 4 true, .ulps a.z.z b.z.z e 4 false] ∧
      M4.ulpsEq a b e 4 = false := by
  constructor <;> simp [M4.ulpsEq, M4.toList, V4.ulpsEq, V4.toList, okB, eps52, envL, *]

theorem t_m4_ulps_eq_false_11 (a b : M4 K) (e : K) (h0 : Approx.ulpsEq a.x.x b.x.x e 4 = true) (h1 : Approx.ulpsEq a.x.y b.x.y e 4 = true) (h2 : Approx.ulpsEq a.x.z b.x.z e 4 = true) (h3 : Approx.ulpsEq a.x.w b.x.w e 4 = true) (h4 : Approx.ulpsEq a.y.x b.y.x e 4 = true) (h5 : Approx.ulpsEq a.y.y b.y.y e 4 = true) (h6 : Approx.ulpsEq a.y.z b.y.z e 4 = true) (h7 : Approx.ulpsEq a.y.w b.y.w e 4 = true) (h8 : Approx.ulpsEq a.z.x b.z.x e 4 = true) (h9 : Approx.ulpsEq a.z.y b.z.y e 4 = true) (h10 : Approx.ulpsEq a.z.z b.z.z e 4 = true) (h11 : Approx.ulpsEq a.z.w b.z.w e 4 = false) :
    t_m4_ulps_eq_false_11 (envL (a.toList ++ b.toList ++ [e])) =
      okB (M4.ulpsEq a b e 4) [.ulps a.x.x b.x.x e 4 true, .ulps a.x.y b.x.y e 4 true, .ulps a.x.z b.x.z e 4 true, .ulps a.x.w b.x.w e 4 true, .ulps a.y.x b.y.x e 4 true, .ulps a.y.y b.y.y e 4 true, .ulps a.y.z b.y.z e 4 true, .ulps a.y.w b.y.w e 4 true, .ulps a.z.x b.z.x e 4 true, .ulps a.z.y b.z.y e 4 true, .ulps a.z.z b.z.z e 4 true, .ulps a.z.w b.z.w e 4 false] ∧
      M4.ulpsEq a b e 4 = false := by
  constructor <;> simp [M4.ulpsEq, M4.toList, V4.ulpsEq, V4.toList, okB, eps52, envL, *]

theorem t_m4_ulps_eq_false_12 (a b : M4 K) (e : K) (h0 : Approx.ulpsEq a.x.x b.x.x e 4 = true) (h1 : Approx.ulpsEq a.x.y b.x.y e 4 = true) (h2 : Approx.ulpsEq a.x.z b.x.z e 4 = true) (h3 : Approx.ulpsEq a.x.w b.x.w e 4 = true) (h4 : Approx.ulpsEq a.y.x b.y.x e 4 = true) (h5 : Approx.ulpsEq a.y.y b.y.y e 4 = true) (h6 : Approx.ulpsEq a.y.z b.y.z e 4 = true) (h7 : Approx.ulpsEq a.y.w b.y.w e 4 = true) (h8 : Approx.ulpsEq a.z.x b.z.x e 4 = true) (h9 : Approx.ulpsEq a.z.y b.z.y e 4 = true) (h10 : Approx.ulpsEq a.z.z b.z.z e 4 = true) (h11 : Approx.ulpsEq a.z.w b.z.w e 4 = true) (h12 : Approx.ulpsEq a.w.x b.w.x e 4 = false) :
    t_m4_ulps_eq_false_12 (envL (a.toList ++ b.toList ++ [e])) =
      okB (M4.ulpsEq a b e 4) [.ulps a.x.x b.x.x e 4 true, .ulps a.x.y b.x.y e 4 true, .ulps a.x.z b.x.z e 4 true, .ulps a.x.w b.x.w e 4 true, .ulps a.y.x b.y.x e 4 true, .ulps a.y.y b.y.y e 4 true, .ulps a.y.z b.y.z e 4 true, .ulps a.y.w b.y.w e 4 true, .ulps a.z.x b.z.x e 4 true, .ulps a.z.y b.z.y e 4 true, .ulps a.z.z b.z.z e 4 true, .ulps a.z.w b.z.w e 4 true, .ulps a.w.x b.w.x e 4 false] ∧
      M4.ulpsEq a b e 4 = false := by
  constructor <;> simp [M4.ulpsEq, M4.toList, V4.ulpsEq, V4.toList, okB, eps52, envL, *]

theorem t_m4_ulps_eq_false_13 (a b : M4 K) (e : K) (h0 : Approx.ulpsEq a.x.x b.x.x e 4 = true) (h1 : Approx.ulpsEq a.x.y b.x.y e 4 = true) (h2 : Approx.ulpsEq a.x.z b.x.z e 4 = true) (h3 : Approx.ulpsEq a.x.w b.x.w e 4 = true) (h4 : Approx.ulpsEq a.y.x b.y.x e 4 = true) (h5 : Approx.ulpsEq a.y.y b.y.y e 4 = true) (h6 : Approx.ulpsEq a.y.z b.y.z e 4 = true) (h7 : Approx.ulpsEq a.y.w b.y.w e 4 = true) (h8 : Approx.ulpsEq a.z.x b.z.x e 4 = true) (h9 : Approx.ulpsEq a.z.y b.z.y e 4 = true) (h10 : Approx.ulpsEq a.z.z b.z.z e 4 = true) (h11 : Approx.ulpsEq a.z.w b.z.w e 4 = true) (h12 : Approx.ulpsEq a.w.x b.w.x e 4 = true) (h13 : Approx.ulpsEq a.w.y b.w.y e 4 = false) :
    t_m4_ulps_eq_false_13 (envL (a.toList ++ b.toList ++ [e])) =
      okB (M4.ulpsEq a b e 4) [.ulps a.x.x b.x.x e 4 true, .ulps a.x.y b.x.y e 4 true, .ulps a.x.z b.x.z e 4 true, .ulps a.x.w b.x.w e 4 true, .ulps a.y.x b.y.x e 4 true, .ulps a.y.y b.y.y e 4 true, .ulps a.y.z b.y.z e 4 true, .ulps a.y.w b.y.w e 4 true, .ulps a.z.x b.z.x e 4 true, .ulps a.z.y b.z.y e 4 true, .ulps a.z.z b.z.z e 4 true, .ulps a.z.w b.z.w e 4 true, .ulps a.w.x b.w.x e 4 true, .ulps a.w.y b.w.y e 4 false] ∧
      M4.ulpsEq a b e 4 = false := by
  constructor <;> simp [M4.ulpsEq, M4.toList, V4.ulpsEq, V4.toList, okB, eps52, envL, *]

theorem t_m4_ulps_eq_false_14 (a b : M4 K) (e : K) (h0 : Approx.ulpsEq a.x.x b.x.x e 4 = true) (h1 : Approx.ulpsEq a.x.y b.x.y e 4 = true) (h2 : Approx.ulpsEq a.x.z b.x.z e 4 = true) (h3 : Approx.ulpsEq a.x.w b.x.w e 4 = true) (h4 : Approx.ulpsEq a.y.x b.y.x e 4 = true) (h5 : Approx.ulpsEq a.y.y b.y.y e 4 = true) (h6 : Approx.ulpsEq a.y.z b.y.z e 4 = true) (h7 : Approx.ulpsEq a.y.w b.y.w e 4 = true) (h8 : Approx.ulpsEq a.z.x b.z.x e 4 = true) (h9 : Approx.ulpsEq a.z.y b.z.y e 4 = true) (h10 : Approx.ulpsEq a.z.z b.z.z e 4 = true) (h11 : Approx.ulpsEq a.z.w b.z.w e 4 = true) (h12 : Approx.ulpsEq a.w.x b.w.x e 4 = true) (h13 : Approx.ulpsEq a.w.y b.w.y e 4 = true) (h14 : Approx.ulpsEq a.w.z b.w.z e 4 = false) :
    t_m4_ulps_eq_false_14 (envL (a.toList ++ b.toList ++ [e])) =
      okB (M4.ulpsEq a b e 4) [.ulps a.x.x b.x.x e 4 true, .ulps a.x.y b.x.y e 4 true, .ulps a.x.z b.x.z e 4 true, .ulps a.x.w b.x.w e 4 true, .ulps a.y.x b.y.x e 4 true, .ulps a.y.y b.y.y e 4 true, .ulps a.y.z b.y.z e 4 true, .ulps a.y.w b.y.w e 4 true, .ulps a.z.x b.z.x e 4 true, .ulps a.z.y b.z.y e 4 true, .ulps a.z.z b.z.z e 4 true, .ulps a.z.w b.z.w e 4 true, .ulps a.w.x b.w.x e 4 true, .ulps a.w.y b.w.y e 4 true, .ulps a.w.z b.w.z e 4 false] ∧
      M4.ulpsEq a b e 4 = false := by
  constructor <;> simp [M4.ulpsEq, M4.toList, V4.ulpsEq, V4.toList, okB, eps52, envL, *]

theorem t_m4_ulps_eq_false_15 (a b : M4 K) (e : K) (h0 : Approx.ulpsEq a.x.x b.x.x e 4 = true) (h1 : Approx.ulpsEq a.x.y b.x.y e 4 = true) (h2 : Approx.ulpsEq a.x.z b.x.z e 4 = true) (h3 : Approx.ulpsEq a.x.w b.x.w e 4 = true) (h4 : Approx.ulpsEq a.y.x b.y.x e 4 = true) (h5 : Approx.ulpsEq a.y.y b.y.y e 4 = true) (h6 : Approx.ulpsEq a.y.z b.y.z e 4 = true) (h7 : Approx.ulpsEq a.y.w b.y.w e 4 = true) (h8 : Approx.ulpsEq a.z.x b.z.x e 4 = true) (h9 : Approx.ulpsEq a.z.y b.z.y e 4 = true) (h10 : Approx.ulpsEq a.z.z b.z.z e 4 = true) (h11 : Approx.ulpsEq a.z.w b.z.w e 4 = true) (h12 : Approx.ulpsEq a.w.x b.w.x e 4 = true) (h13 : Approx.ulpsEq a.w.y b.w.y e 4 = true) (h14 : Approx.ulpsEq a.w.z b.w.z e 4 = true) (h15 : Approx.ulpsEq a.w.w b.w.w e 4 = false) :
    t_m4_ulps_eq_false_15 (envL (a.toList ++ b.toList ++ [e])) =
      okB (M4.ulpsEq a b e 4) [.ulps a.x.x b.x.x e 4 true, .ulps a.x.y b.x.y e 4 true, .ulps a.x.z b.x.z e 4 true, .ulps a.x.w b.x.w e 4 true, .ulps a.y.x b.y.x e 4 true, .ulps a.y.y b.y.y e 4 true, .ulps a.y.z b.y.z e 4 true, .ulps a.y.w b.y.w e 4 true, .ulps a.z.x b.z.x e 4 true, .ulps a.z.y b.z.y e 4 true, .ulps a.z.z b.z.z e 4 true, .ulps a.z.w b.z.w e 4 true, .ulps a.w.x b.w.x e 4 true, .ulps a.w.y b.w.y e 4 true, .ulps a.w.z b.w.z e 4 true, .ulps a.w.w b.w.w e 4 false] ∧
      M4.ulpsEq a b e 4 = false := by
  constructor <;> simp [M4.ulpsEq, M4.toList, V4.ulpsEq, V4.toList, okB, eps52, envL, *]

end Cg.Trace.C18OpsM
