import Cgm.Trace.C11
/-! # T obligations for C11, further paths of the clamped `angle`: `Vector1`, cosine below `-1`, quaternions -/
set_option linter.unusedSectionVars false
namespace Cg.Trace.C11Paths
open Cg Cg.Gen.C11
variable {K : Type} [Field K] [LinearOrder K] [Transc K] [FRem K] [Lits K]
attribute [local simp] V1.magnitude V4.magnitude Quat.magnitude

/-- `Vector1::angle` (the default `InnerSpace::angle`), unclamped path -/
theorem t_v1_angle (a b : V1 K) (h1 : ¬ 1 < V1.dot a b / (a.magnitude * b.magnitude))
    (h2 : ¬ V1.dot a b / (a.magnitude * b.magnitude) < -1) :
    t_v1_angle (envL (a.toList ++ b.toList)) =
      .okG [V1.angle a b] [.lt 1 (V1.dot a b / (a.magnitude * b.magnitude)) false,
                           .lt (V1.dot a b / (a.magnitude * b.magnitude)) (-1) false] := by
  simp only [V1.angle, clampUnit, if_neg h1, if_neg h2]; tr_auto_nf
/-- cosine below `-1` (rounding on antiparallel arguments): `acos(-1)`, both comparisons made -/
theorem t_v4_angle_clamped_lo (a b : V4 K) (h1 : ¬ 1 < V4.dot a b / (a.magnitude * b.magnitude))
    (h2 : V4.dot a b / (a.magnitude * b.magnitude) < -1) :
    t_v4_angle_clamped_lo (envL (a.toList ++ b.toList)) =
      .okG [V4.angle a b] [.lt 1 (V4.dot a b / (a.magnitude * b.magnitude)) false,
                           .lt (V4.dot a b / (a.magnitude * b.magnitude)) (-1) true] := by
  simp only [V4.angle, clampUnit, if_neg h1, if_pos h2]; tr_auto_nf
theorem t_q_angle_clamped_hi (a b : Quat K) (h1 : 1 < Quat.dot a b / (a.magnitude * b.magnitude)) :
    t_q_angle_clamped_hi (envL (a.toList ++ b.toList)) =
      .okG [Quat.angle a b] [.lt 1 (Quat.dot a b / (a.magnitude * b.magnitude)) true] := by
  simp only [Quat.angle, clampUnit, if_pos h1]; tr_auto_nf
theorem t_q_angle_clamped_lo (a b : Quat K) (h1 : ¬ 1 < Quat.dot a b / (a.magnitude * b.magnitude))
    (h2 : Quat.dot a b / (a.magnitude * b.magnitude) < -1) :
    t_q_angle_clamped_lo (envL (a.toList ++ b.toList)) =
      .okG [Quat.angle a b] [.lt 1 (Quat.dot a b / (a.magnitude * b.magnitude)) false,
                             .lt (Quat.dot a b / (a.magnitude * b.magnitude)) (-1) true] := by
  simp only [Quat.angle, clampUnit, if_neg h1, if_pos h2]; tr_auto_nf
end Cg.Trace.C11Paths
