import Cgm.Gen.C07
/-! # T obligations for C07, generated once by tools/gen_tobl.py from the driver tables
(static text: the statement is `traced kernel = the model function the driver runs for this op`) -/
set_option linter.unusedSectionVars false
set_option linter.unusedVariables false
set_option linter.unusedSimpArgs false
namespace Cg.Trace.C07Auto
open Cg Cg.Gen.C07
variable {K : Type} [Field K] [Transc K] [FRem K] [Lits K]

theorem t_b3_from_euler (x : K) (y : K) (z : K) :
    t_b3_from_euler (envL ([x] ++ [y] ++ [z])) = .okS (M3.ofEuler x y z).toList := by
  first | tr_any | (simp [M3.ofEuler, List.foldl, envL, Tr.okS, V1.toList, V2.toList, V3.toList, V4.toList, P1.toList, P2.toList, P3.toList, M2.toList, M3.toList, M4.toList, Quat.toList] <;> (repeat' apply And.intro) <;> first | ring1 | (ring_nf; done)) | (simp [M3.eulerSC, M3.new, M3.ofEuler, List.foldl, envL, Tr.okS, V1.toList, V2.toList, V3.toList, V4.toList, P1.toList, P2.toList, P3.toList, M2.toList, M3.toList, M4.toList, Quat.toList] <;> (repeat' apply And.intro) <;> first | ring1 | (ring_nf; done))
theorem t_rad_turn_div_4  :
    t_rad_turn_div_4 (envL (([] : List K))) = .okS [Angle.turnDiv (Lits.radFull : K) 4] := by
  first | tr_any | (simp [Angle.turnDiv, List.foldl, envL, Tr.okS, V1.toList, V2.toList, V3.toList, V4.toList, P1.toList, P2.toList, P3.toList, M2.toList, M3.toList, M4.toList, Quat.toList] <;> (repeat' apply And.intro) <;> first | ring1 | (ring_nf; done))
end Cg.Trace.C07Auto
