import Cgm.Trace.C10
/-! # T obligations for C10, further paths: every rejection of `PlanarFov`/`PerspectiveFov`, the accepted
paths with the planes swapped / behind the focal point / a negative aspect, `perspective` from degrees, and the
struct-form entry points -/
set_option linter.unusedSectionVars false
namespace Cg.Trace.C10Paths
open Cg Cg.Gen.C10 Cg.Trace.C10
variable {K : Type} [Field K] [LinearOrder K] [Approx K] [Transc K] [FRem K] [Lits K]

/-! helpers: acceptance / rejection of `planar` from the guards.  `hreg` excludes `tan(fovy/2) = 0 ∧ height = 0` (where the code's
`inv_f` is `0/0`), `hfin` excludes `tan(fovy/2) = 0 ∧ height > 0` (focal point at infinity): on those two input classes exact
arithmetic and IEEE arithmetic part ways without a comparison being made; the model follows IEEE (`Cgm/Model/Transform.lean`) -/
theorem planar_accept (fovy a h n f : K) (h1 : -(Lits.radFull / 2) < fovy) (h2 : fovy < Lits.radFull / 2) (h3 : 0 ≤ h)
    (h5 : absDiffEqD (sabs a) (0 : K) = false) (h6 : absDiffEqD f n = false)
    (hreg : ¬ ((¬ Rad.tan (fovy / (two : K)) < 0 ∧ ¬ 0 < Rad.tan (fovy / (two : K))) ∧ ¬ 0 < h))
    (hf : -((1 : K) / planarInvF fovy h) < smin f n ∨ smax f n < -((1 : K) / planarInvF fovy h)) :
    planar fovy a h n f = some (planarMat fovy a h n f) := by
  unfold planar
  simp only [h3, h5, h6, hreg, hf, not_true_eq_false, not_false_eq_true, if_false, if_true, Bool.false_eq_true, or_true]
  simp [Angle.turnDiv, h1, h2]
theorem planar_reject_focal (fovy a h n f : K) (h1 : -(Lits.radFull / 2) < fovy) (h2 : fovy < Lits.radFull / 2) (h3 : 0 ≤ h)
    (h5 : absDiffEqD (sabs a) (0 : K) = false) (h6 : absDiffEqD f n = false)
    (hfin : ¬ ((¬ Rad.tan (fovy / (two : K)) < 0 ∧ ¬ 0 < Rad.tan (fovy / (two : K))) ∧ 0 < h))
    (hf : ¬ (-((1 : K) / planarInvF fovy h) < smin f n ∨ smax f n < -((1 : K) / planarInvF fovy h))) :
    planar fovy a h n f = none := by
  unfold planar
  have hh : ¬ ((((¬ Rad.tan (fovy / (two : K)) < 0 ∧ ¬ 0 < Rad.tan (fovy / (two : K))) ∧ 0 < h)) ∨
      (-((1 : K) / planarInvF fovy h) < smin f n ∨ smax f n < -((1 : K) / planarInvF fovy h))) := fun hc => hc.elim hfin hf
  simp only [h3, h5, h6, hh, not_true_eq_false, not_false_eq_true, if_false, if_true, Bool.false_eq_true]
  split_ifs <;> rfl
attribute [local simp] ortho frustumMat perspectiveMat planarMat planarInvF toPerspective Rad.cot Rad.tan
  Angle.turnDiv eps52 degToRad

/-! ## `From<PlanarFov>`: rejections -/
theorem t_planar_bad_fovy_lo (fovy a h n f : K) (h1 : fovy < -(Lits.radFull / 2)) :
    t_planar_bad_fovy_lo (envL [fovy, a, h, n, f]) = .panicG [.cmp fovy (-(Lits.radFull / 2)) .lt] ∧
      planar fovy a h n f = none := by
  refine ⟨by tr_auto, by simp [planar, not_lt.mpr h1.le]⟩
theorem t_planar_bad_fovy_hi (fovy a h n f : K) (h1 : -(Lits.radFull / 2) < fovy) (h2 : Lits.radFull / 2 < fovy) :
    t_planar_bad_fovy_hi (envL [fovy, a, h, n, f]) =
      .panicG [.cmp fovy (-(Lits.radFull / 2)) .gt, .cmp fovy (Lits.radFull / 2) .gt] ∧
      planar fovy a h n f = none := by
  refine ⟨by tr_auto, by simp [planar, h1, not_lt.mpr h2.le]⟩
theorem t_planar_bad_height (fovy a h n f : K) (h1 : -(Lits.radFull / 2) < fovy) (h2 : fovy < Lits.radFull / 2)
    (h3 : ¬ 0 ≤ h) :
    t_planar_bad_height (envL [fovy, a, h, n, f]) =
      .panicG [.cmp fovy (-(Lits.radFull / 2)) .gt, .cmp fovy (Lits.radFull / 2) .lt, .le 0 h false] ∧
      planar fovy a h n f = none := by
  refine ⟨by tr_auto, by simp [planar, h1, h2, h3]⟩
/-- zero aspect (on the `aspect ≥ 0` side of `abs`); the last comparison is the `abs` of the panic message -/
theorem t_planar_bad_aspect (fovy a h n f : K) (h1 : -(Lits.radFull / 2) < fovy) (h2 : fovy < Lits.radFull / 2)
    (h3 : 0 ≤ h) (h4 : ¬ a < 0) (h5 : absDiffEqD a (0 : K) = true) :
    t_planar_bad_aspect (envL [fovy, a, h, n, f]) =
      .panicG [.cmp fovy (-(Lits.radFull / 2)) .gt, .cmp fovy (Lits.radFull / 2) .lt, .le 0 h true, .lt a 0 false,
        .absDiff a 0 eps52 true, .lt a 0 false] ∧
      planar fovy a h n f = none := by
  refine ⟨by tr_auto, by simp [planar, sabs, h1, h2, h3, h4, h5]⟩
theorem t_planar_bad_nf (fovy a h n f : K) (h1 : -(Lits.radFull / 2) < fovy) (h2 : fovy < Lits.radFull / 2)
    (h3 : 0 ≤ h) (h4 : ¬ a < 0) (h5 : absDiffEqD a (0 : K) = false) (h6 : absDiffEqD f n = true) :
    t_planar_bad_nf (envL [fovy, a, h, n, f]) =
      .panicG [.cmp fovy (-(Lits.radFull / 2)) .gt, .cmp fovy (Lits.radFull / 2) .lt, .le 0 h true, .lt a 0 false,
        .absDiff a 0 eps52 false, .absDiff f n eps52 true] ∧
      planar fovy a h n f = none := by
  refine ⟨by tr_auto, by simp [planar, sabs, h1, h2, h3, h4, h5, h6]⟩
/-- focal point between the planes, `near < far` -/
theorem t_planar_bad_focal (fovy a h n f : K) (h1 : -(Lits.radFull / 2) < fovy) (h2 : fovy < Lits.radFull / 2)
    (h3 : 0 ≤ h) (h4 : ¬ a < 0) (h5 : absDiffEqD a (0 : K) = false) (h6 : absDiffEqD f n = false) (h7 : n < f)
    (h8 : ¬ -(1 / planarInvF fovy h) < n) (h9 : ¬ f < -(1 / planarInvF fovy h))
    (hfin : ¬ ((¬ Rad.tan (fovy / (two : K)) < 0 ∧ ¬ 0 < Rad.tan (fovy / (two : K))) ∧ 0 < h)) :
    t_planar_bad_focal (envL [fovy, a, h, n, f]) =
      .panicG [.cmp fovy (-(Lits.radFull / 2)) .gt, .cmp fovy (Lits.radFull / 2) .lt, .le 0 h true, .lt a 0 false,
        .absDiff a 0 eps52 false, .absDiff f n eps52 false, .lt n f true, .lt (-(1 / planarInvF fovy h)) n false,
        .lt f n false, .lt f (-(1 / planarInvF fovy h)) false] ∧
      planar fovy a h n f = none := by
  refine ⟨by tr_auto, planar_reject_focal fovy a h n f h1 h2 h3 (by simp only [sabs, if_neg h4]; exact h5) h6 hfin ?_⟩
  simp only [smin, smax, if_pos h7, if_neg (not_lt.mpr h7.le)]
  exact fun hc => hc.elim h8 h9

/-- focal point between the planes, `far < near` -/
theorem t_planar_bad_focal_rev (fovy a h n f : K) (h1 : -(Lits.radFull / 2) < fovy) (h2 : fovy < Lits.radFull / 2)
    (h3 : 0 ≤ h) (h4 : ¬ a < 0) (h5 : absDiffEqD a (0 : K) = false) (h6 : absDiffEqD f n = false) (h7 : f < n)
    (h8 : ¬ -(1 / planarInvF fovy h) < f) (h9 : ¬ n < -(1 / planarInvF fovy h))
    (hfin : ¬ ((¬ Rad.tan (fovy / (two : K)) < 0 ∧ ¬ 0 < Rad.tan (fovy / (two : K))) ∧ 0 < h)) :
    t_planar_bad_focal_rev (envL [fovy, a, h, n, f]) =
      .panicG [.cmp fovy (-(Lits.radFull / 2)) .gt, .cmp fovy (Lits.radFull / 2) .lt, .le 0 h true, .lt a 0 false,
        .absDiff a 0 eps52 false, .absDiff f n eps52 false, .lt n f false, .lt (-(1 / planarInvF fovy h)) f false,
        .lt f n true, .lt n (-(1 / planarInvF fovy h)) false] ∧
      planar fovy a h n f = none := by
  refine ⟨by tr_auto, planar_reject_focal fovy a h n f h1 h2 h3 (by simp only [sabs, if_neg h4]; exact h5) h6 hfin ?_⟩
  simp only [smin, smax, if_pos h7, if_neg (not_lt.mpr h7.le)]
  exact fun hc => hc.elim h8 h9

/-! ## `From<PlanarFov>`: the other accepted paths -/
/-- `far ≤ near` (not `near < far`), focal point in front of `far` -/
theorem t_planar_ok_rev (fovy a h n f : K) (h1 : -(Lits.radFull / 2) < fovy) (h2 : fovy < Lits.radFull / 2) (h3 : 0 ≤ h)
    (h4 : ¬ a < 0) (h5 : absDiffEqD a (0 : K) = false) (h6 : absDiffEqD f n = false) (h7 : ¬ n < f)
    (h8 : -(1 / planarInvF fovy h) < f)
    (hreg : ¬ ((¬ Rad.tan (fovy / (two : K)) < 0 ∧ ¬ 0 < Rad.tan (fovy / (two : K))) ∧ ¬ 0 < h)) :
    t_planar_ok_rev (envL [fovy, a, h, n, f]) =
      .okG (((planar fovy a h n f).map M4.toList).getD [])
        [.cmp fovy (-(Lits.radFull / 2)) .gt, .cmp fovy (Lits.radFull / 2) .lt, .le 0 h true, .lt a 0 false,
         .absDiff a 0 eps52 false, .absDiff f n eps52 false, .lt n f false, .lt (-(1 / planarInvF fovy h)) f true] := by
  have hp := planar_accept fovy a h n f h1 h2 h3 (by simp only [sabs, if_neg h4]; exact h5) h6 hreg (Or.inl (by simp only [smin, if_neg h7]; exact h8))
  rw [hp]; tr_auto

/-- `near < far`, both planes behind the focal point (second disjunct of the assertion) -/
theorem t_planar_ok_behind (fovy a h n f : K) (h1 : -(Lits.radFull / 2) < fovy) (h2 : fovy < Lits.radFull / 2) (h3 : 0 ≤ h)
    (h4 : ¬ a < 0) (h5 : absDiffEqD a (0 : K) = false) (h6 : absDiffEqD f n = false) (h7 : n < f)
    (h8 : ¬ -(1 / planarInvF fovy h) < n) (h9 : f < -(1 / planarInvF fovy h))
    (hreg : ¬ ((¬ Rad.tan (fovy / (two : K)) < 0 ∧ ¬ 0 < Rad.tan (fovy / (two : K))) ∧ ¬ 0 < h)) :
    t_planar_ok_behind (envL [fovy, a, h, n, f]) =
      .okG (((planar fovy a h n f).map M4.toList).getD [])
        [.cmp fovy (-(Lits.radFull / 2)) .gt, .cmp fovy (Lits.radFull / 2) .lt, .le 0 h true, .lt a 0 false,
         .absDiff a 0 eps52 false, .absDiff f n eps52 false, .lt n f true, .lt (-(1 / planarInvF fovy h)) n false,
         .lt f n false, .lt f (-(1 / planarInvF fovy h)) true] := by
  have hp := planar_accept fovy a h n f h1 h2 h3 (by simp only [sabs, if_neg h4]; exact h5) h6 hreg (Or.inr (by simp only [smax, if_neg (not_lt.mpr h7.le)]; exact h9))
  rw [hp]; tr_auto

theorem t_planar_ok_behind_rev (fovy a h n f : K) (h1 : -(Lits.radFull / 2) < fovy) (h2 : fovy < Lits.radFull / 2)
    (h3 : 0 ≤ h) (h4 : ¬ a < 0) (h5 : absDiffEqD a (0 : K) = false) (h6 : absDiffEqD f n = false) (h7 : f < n)
    (h8 : ¬ -(1 / planarInvF fovy h) < f) (h9 : n < -(1 / planarInvF fovy h))
    (hreg : ¬ ((¬ Rad.tan (fovy / (two : K)) < 0 ∧ ¬ 0 < Rad.tan (fovy / (two : K))) ∧ ¬ 0 < h)) :
    t_planar_ok_behind_rev (envL [fovy, a, h, n, f]) =
      .okG (((planar fovy a h n f).map M4.toList).getD [])
        [.cmp fovy (-(Lits.radFull / 2)) .gt, .cmp fovy (Lits.radFull / 2) .lt, .le 0 h true, .lt a 0 false,
         .absDiff a 0 eps52 false, .absDiff f n eps52 false, .lt n f false, .lt (-(1 / planarInvF fovy h)) f false,
         .lt f n true, .lt n (-(1 / planarInvF fovy h)) true] := by
  have hp := planar_accept fovy a h n f h1 h2 h3 (by simp only [sabs, if_neg h4]; exact h5) h6 hreg (Or.inr (by simp only [smax, if_pos h7]; exact h9))
  rw [hp]; tr_auto

/-- negative aspect: `abs` negates it before the zero test; the matrix uses the signed aspect -/
theorem t_planar_ok_neg_aspect (fovy a h n f : K) (h1 : -(Lits.radFull / 2) < fovy) (h2 : fovy < Lits.radFull / 2)
    (h3 : 0 ≤ h) (h4 : a < 0) (h5 : absDiffEqD (-a) (0 : K) = false) (h6 : absDiffEqD f n = false) (h7 : n < f)
    (h8 : -(1 / planarInvF fovy h) < n)
    (hreg : ¬ ((¬ Rad.tan (fovy / (two : K)) < 0 ∧ ¬ 0 < Rad.tan (fovy / (two : K))) ∧ ¬ 0 < h)) :
    t_planar_ok_neg_aspect (envL [fovy, a, h, n, f]) =
      .okG (((planar fovy a h n f).map M4.toList).getD [])
        [.cmp fovy (-(Lits.radFull / 2)) .gt, .cmp fovy (Lits.radFull / 2) .lt, .le 0 h true, .lt a 0 true,
         .absDiff (-a) 0 eps52 false, .absDiff f n eps52 false, .lt n f true, .lt (-(1 / planarInvF fovy h)) n true] := by
  have hp := planar_accept fovy a h n f h1 h2 h3 (by simp only [sabs, if_pos h4]; exact h5) h6 hreg (Or.inl (by simp only [smin, if_pos h7]; exact h8))
  rw [hp]; tr_auto

/-! ## `From<PerspectiveFov>`: remaining paths -/
theorem t_perspective_bad_fovy_zero (fovy a n f : K) (h1 : fovy = 0) :
    t_perspective_bad_fovy_zero (envL [fovy, a, n, f]) = .panicG [.cmp fovy 0 .eq] ∧ perspective fovy a n f = none := by
  refine ⟨by tr_auto, by simp [perspective, h1]⟩
theorem t_perspective_bad_fovy_hi (fovy a n f : K) (h1 : 0 < fovy) (h2 : Lits.radFull / 2 < fovy) :
    t_perspective_bad_fovy_hi (envL [fovy, a, n, f]) = .panicG [.cmp fovy 0 .gt, .cmp fovy (Lits.radFull / 2) .gt] ∧
      perspective fovy a n f = none := by
  refine ⟨by tr_auto, by simp [perspective, h1, not_lt.mpr h2.le]⟩
theorem t_perspective_bad_aspect (fovy a n f : K) (h1 : 0 < fovy) (h2 : fovy < Lits.radFull / 2) (h3 : ¬ a < 0)
    (h4 : absDiffEqD a (0 : K) = true) :
    t_perspective_bad_aspect (envL [fovy, a, n, f]) =
      .panicG [.cmp fovy 0 .gt, .cmp fovy (Lits.radFull / 2) .lt, .lt a 0 false, .absDiff a 0 eps52 true, .lt a 0 false] ∧
      perspective fovy a n f = none := by
  refine ⟨by tr_auto, by simp [perspective, sabs, h1, h2, h3, h4]⟩
theorem t_perspective_bad_far (fovy a n f : K) (h1 : 0 < fovy) (h2 : fovy < Lits.radFull / 2) (h3 : ¬ a < 0)
    (h4 : absDiffEqD a (0 : K) = false) (h5 : 0 < n) (h6 : ¬ 0 < f) :
    t_perspective_bad_far (envL [fovy, a, n, f]) =
      .panicG [.cmp fovy 0 .gt, .cmp fovy (Lits.radFull / 2) .lt, .lt a 0 false, .absDiff a 0 eps52 false,
        .lt 0 n true, .lt 0 f false] ∧
      perspective fovy a n f = none := by
  refine ⟨by tr_auto, by simp [perspective, sabs, h1, h2, h3, h4, h5, h6]⟩
theorem t_perspective_bad_nf (fovy a n f : K) (h1 : 0 < fovy) (h2 : fovy < Lits.radFull / 2) (h3 : ¬ a < 0)
    (h4 : absDiffEqD a (0 : K) = false) (h5 : 0 < n) (h6 : 0 < f) (h7 : absDiffEqD f n = true) :
    t_perspective_bad_nf (envL [fovy, a, n, f]) =
      .panicG [.cmp fovy 0 .gt, .cmp fovy (Lits.radFull / 2) .lt, .lt a 0 false, .absDiff a 0 eps52 false,
        .lt 0 n true, .lt 0 f true, .absDiff f n eps52 true] ∧
      perspective fovy a n f = none := by
  refine ⟨by tr_auto, by simp [perspective, sabs, h1, h2, h3, h4, h5, h6, h7]⟩
/-- a negative aspect is accepted (only `|aspect|` is tested) -/
theorem t_perspective_ok_neg_aspect (fovy a n f : K) (h1 : 0 < fovy) (h2 : fovy < Lits.radFull / 2) (h3 : a < 0)
    (h4 : absDiffEqD (-a) (0 : K) = false) (h5 : 0 < n) (h6 : 0 < f) (h7 : absDiffEqD f n = false) :
    t_perspective_ok_neg_aspect (envL [fovy, a, n, f]) =
      .okG (((perspective fovy a n f).map M4.toList).getD [])
        [.cmp fovy 0 .gt, .cmp fovy (Lits.radFull / 2) .lt, .lt a 0 true, .absDiff (-a) 0 eps52 false,
         .lt 0 n true, .lt 0 f true, .absDiff f n eps52 false] := by
  have hp : perspective fovy a n f = some (perspectiveMat fovy a n f) := by
    simp [perspective, sabs, h1, h2, h3, h4, h5, h6, h7]
  rw [hp]; tr_auto

/-! ## `perspective(Deg(fovy), …)`: the angle is converted first, then the same assertions -/
theorem t_perspective_deg_ok (fovy a n f : K) (h1 : 0 < degToRad fovy) (h2 : degToRad fovy < Lits.radFull / 2)
    (h3 : ¬ a < 0) (h4 : absDiffEqD a (0 : K) = false) (h5 : 0 < n) (h6 : 0 < f) (h7 : absDiffEqD f n = false) :
    t_perspective_deg_ok (envL [fovy, a, n, f]) =
      .okG (((perspective (degToRad fovy) a n f).map M4.toList).getD [])
        [.cmp (degToRad fovy) 0 .gt, .cmp (degToRad fovy) (Lits.radFull / 2) .lt, .lt a 0 false, .absDiff a 0 eps52 false,
         .lt 0 n true, .lt 0 f true, .absDiff f n eps52 false] := by
  have hp : perspective (degToRad fovy) a n f = some (perspectiveMat (degToRad fovy) a n f) := by
    simp only [degToRad] at h1 h2
    simp [perspective, sabs, h1, h2, h3, h4, h5, h6, h7]
  rw [hp]; tr_auto
theorem t_perspective_deg_bad_fovy (fovy a n f : K) (h1 : degToRad fovy < 0) :
    t_perspective_deg_bad_fovy (envL [fovy, a, n, f]) = .panicG [.cmp (degToRad fovy) 0 .lt] ∧
      perspective (degToRad fovy) a n f = none := by
  refine ⟨by tr_auto, ?_⟩
  simp only [degToRad] at h1
  simp [perspective, not_lt.mpr h1.le]

/-! ## struct-form entry points (`Ortho { .. }.into()`, `Perspective { .. }.into()`, `PerspectiveFov`, `PlanarFov`) -/
theorem t_ortho_s (l r b t n f : K) : t_ortho_s (envL [l, r, b, t, n, f]) = .okS (ortho l r b t n f).toList := by tr_auto
theorem t_frustum_s_ok (l r b t n f : K) (h1 : l ≤ r) (h2 : b ≤ t) (h3 : n ≤ f) :
    t_frustum_s_ok (envL [l, r, b, t, n, f]) =
      .okG (((frustum l r b t n f).map M4.toList).getD []) [.le l r true, .le b t true, .le n f true] := by
  simp only [frustum, h1, h2, h3, not_true_eq_false, if_false, Option.map_some, Option.getD_some]; tr_auto
theorem t_perspective_s_ok (fovy a n f : K) (h1 : 0 < fovy) (h2 : fovy < Lits.radFull / 2) (h3 : ¬ a < 0)
    (h4 : absDiffEqD a (0 : K) = false) (h5 : 0 < n) (h6 : 0 < f) (h7 : absDiffEqD f n = false) :
    t_perspective_s_ok (envL [fovy, a, n, f]) =
      .okG (((perspective fovy a n f).map M4.toList).getD [])
        [.cmp fovy 0 .gt, .cmp fovy (Lits.radFull / 2) .lt, .lt a 0 false, .absDiff a 0 eps52 false,
         .lt 0 n true, .lt 0 f true, .absDiff f n eps52 false] := by
  have hp : perspective fovy a n f = some (perspectiveMat fovy a n f) := by
    simp [perspective, sabs, h1, h2, h3, h4, h5, h6, h7]
  rw [hp]; tr_auto
theorem t_planar_s_ok (fovy a h n f : K) (h1 : -(Lits.radFull / 2) < fovy) (h2 : fovy < Lits.radFull / 2) (h3 : 0 ≤ h)
    (h4 : ¬ a < 0) (h5 : absDiffEqD a (0 : K) = false) (h6 : absDiffEqD f n = false) (h7 : n < f)
    (h8 : -(1 / planarInvF fovy h) < n)
    (hreg : ¬ ((¬ Rad.tan (fovy / (two : K)) < 0 ∧ ¬ 0 < Rad.tan (fovy / (two : K))) ∧ ¬ 0 < h)) :
    t_planar_s_ok (envL [fovy, a, h, n, f]) =
      .okG (((planar fovy a h n f).map M4.toList).getD [])
        [.cmp fovy (-(Lits.radFull / 2)) .gt, .cmp fovy (Lits.radFull / 2) .lt, .le 0 h true, .lt a 0 false,
         .absDiff a 0 eps52 false, .absDiff f n eps52 false, .lt n f true, .lt (-(1 / planarInvF fovy h)) n true] := by
  have hp := planar_accept fovy a h n f h1 h2 h3 (by simp only [sabs, if_neg h4]; exact h5) h6 hreg (Or.inl (by simp only [smin, if_pos h7]; exact h8))
  rw [hp]; tr_auto

end Cg.Trace.C10Paths
