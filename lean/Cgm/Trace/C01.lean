import Cgm.Gen.C01
/-!
# T obligations for C01: what the traced matrix code computes is what the model computes

Each theorem quantifies over *all* inputs: the generated definition is an expression DAG in the
symbolic arguments `v i`, produced by running the real `cgmath` function at the recording scalar.
-/
set_option linter.unusedSectionVars false
namespace Cg.Trace.C01
open Cg Cg.Gen.C01
variable {K : Type} [Field K] [Transc K] [FRem K] [Lits K]

theorem t_m2_mul (a b : M2 K) : t_m2_mul (envL (a.toList ++ b.toList)) = .okS (a * b).toList := by tr_auto
theorem t_m3_mul (a b : M3 K) : t_m3_mul (envL (a.toList ++ b.toList)) = .okS (a * b).toList := by tr_auto
theorem t_m4_mul (a b : M4 K) : t_m4_mul (envL (a.toList ++ b.toList)) = .okS (a * b).toList := by tr_auto
theorem t_m2_mul_v (a : M2 K) (u : V2 K) : t_m2_mul_v (envL (a.toList ++ u.toList)) = .okS (a.mulVec u).toList := by tr_auto
theorem t_m3_mul_v (a : M3 K) (u : V3 K) : t_m3_mul_v (envL (a.toList ++ u.toList)) = .okS (a.mulVec u).toList := by tr_auto
theorem t_m4_mul_v (a : M4 K) (u : V4 K) : t_m4_mul_v (envL (a.toList ++ u.toList)) = .okS (a.mulVec u).toList := by tr_auto
theorem t_m4_transpose (a : M4 K) : t_m4_transpose (envL a.toList) = .okS a.transpose.toList := by tr_auto
theorem t_m3_transpose (a : M3 K) : t_m3_transpose (envL a.toList) = .okS a.transpose.toList := by tr_auto
theorem t_m4_from_translation (u : V3 K) : t_m4_from_translation (envL u.toList) = .okS (M4.fromTranslation u).toList := by tr_auto
theorem t_m3_from_translation (u : V2 K) : t_m3_from_translation (envL u.toList) = .okS (M3.fromTranslation u).toList := by tr_auto
theorem t_m4_from_nonuniform_scale (x y z : K) :
    t_m4_from_nonuniform_scale (envL [x, y, z]) = .okS (M4.fromNonuniformScale x y z).toList := by tr_auto
theorem t_m3_from_nonuniform_scale (x y : K) :
    t_m3_from_nonuniform_scale (envL [x, y]) = .okS (M3.fromNonuniformScale x y).toList := by tr_auto
theorem t_m4_from_scale (s : K) : t_m4_from_scale (envL [s]) = .okS (M4.fromScale s).toList := by tr_auto
theorem t_m3_from_scale (s : K) : t_m3_from_scale (envL [s]) = .okS (M3.fromScale s).toList := by tr_auto
theorem t_m2_to_m3 (a : M2 K) : t_m2_to_m3 (envL a.toList) = .okS a.toM3.toList := by tr_auto
theorem t_m2_to_m4 (a : M2 K) : t_m2_to_m4 (envL a.toList) = .okS a.toM4.toList := by tr_auto
theorem t_m3_to_m4 (a : M3 K) : t_m3_to_m4 (envL a.toList) = .okS a.toM4.toList := by tr_auto
theorem t_m4_transform_vector (a : M4 K) (u : V3 K) :
    t_m4_transform_vector (envL (a.toList ++ u.toList)) = .okS (a.transformVector u).toList := by tr_auto
theorem t_m4_transform_point (a : M4 K) (p : P3 K) :
    t_m4_transform_point (envL (a.toList ++ p.toList)) = .okS (a.transformPoint p).toList := by tr_auto
theorem t_m3_transform_vector2 (a : M3 K) (u : V2 K) :
    t_m3_transform_vector2 (envL (a.toList ++ u.toList)) = .okS (a.transformVector2 u).toList := by tr_auto
theorem t_m3_transform_point2 (a : M3 K) (p : P2 K) :
    t_m3_transform_point2 (envL (a.toList ++ p.toList)) = .okS (a.transformPoint2 p).toList := by tr_auto
theorem t_m3_transform_vector (a : M3 K) (u : V3 K) :
    t_m3_transform_vector (envL (a.toList ++ u.toList)) = .okS (a.transformVector u).toList := by tr_auto
theorem t_m3_transform_point (a : M3 K) (p : P3 K) :
    t_m3_transform_point (envL (a.toList ++ p.toList)) = .okS (a.transformPoint p).toList := by tr_auto
theorem t_m4_mul_s (a : M4 K) (s : K) : t_m4_mul_s (envL (a.toList ++ [s])) = .okS (a * s).toList := by tr_auto
theorem t_m4_div_s (a : M4 K) (s : K) : t_m4_div_s (envL (a.toList ++ [s])) = .okS (a / s).toList := by tr_auto
theorem t_m4_add (a b : M4 K) : t_m4_add (envL (a.toList ++ b.toList)) = .okS (a + b).toList := by tr_auto
theorem t_m3_concat2 (a b : M3 K) : t_m3_concat2 (envL (a.toList ++ b.toList)) = .okS (a * b).toList := by tr_auto
theorem t_m4_concat (a b : M4 K) : t_m4_concat (envL (a.toList ++ b.toList)) = .okS (a * b).toList := by tr_auto

end Cg.Trace.C01
